/-
  D128/Proofs/D192Sub.lean — Hoare triples (no panic, termination) for `decomposed192.sub`
  (Go: /repo/decomposed.go), ALL inputs (stages and the `rfl` normal form `sub_eq` in `D192SubCode.lean`,
  predicates and VC lemmas in `D192SubMath.lean` / `D192AddMath.lean`).

  * `subTail_triple`      : the final subtraction ⇒ `SubFin d.sig o.sig t d.exp`
  * `subNegDiv_triple`, `subNegBranch_triple` : branch `exp < 0` ⇒ `SubNegPost`
  * `subPosDiv_triple`, `subPosBranch_triple` : branch `exp > 0` ⇒ `SubPosPost`
  * `sub_triple`          : `⦃True⦄ Gen.decomposed192.sub d o t ⦃SubPost d o t⦄`
  * `sub_spec`            : `Gen.decomposed192.sub d o t = .ok (neg, r, t') ∧ SubPost d o t neg r t'`
  The rational contract `sub_contract` is in `D192SubContract.lean`.
-/
import D128.Proofs.D192SubMath
import D128.Proofs.D192SubCode
import D128.Proofs.WordsWideMsd2

set_option autoImplicit false
set_option maxRecDepth 4096
set_option exponentiation.threshold 512
open Std.Do D128.Proofs.WordsWide
set_option mvcgen.warning false

namespace D192

theorem subTail_triple (d o : Gen.decomposed192) (t : Int8) (e : Int16) :
    ⦃⌜True⌝⦄ subTail d o t e
    ⦃⇓ x => ⌜SubFin d.sig.toNat o.sig.toNat t d.exp x.1 x.2.1 x.2.2⌝⦄ := by
  mvcgen [subTail]
  all_goals (simp +zetaDelta at *)
  case vc1 => rename_i h; exact subFin_borrow _ _ _ h
  case vc2 => rename_i h; exact subFin_noborrow _ _ _ h

theorem subNegDiv_triple (d o : Gen.decomposed192) (t : Int8) (e : Int16) :
    ⦃⌜e.toInt ≤ 0 ∧ d.exp = o.exp + e⌝⦄ subNegDiv d o t e
    ⦃⇓ x => ⌜SubFin (d.sig.toNat / 10 ^ negNat e) o.sig.toNat
      (if d.sig.toNat % 10 ^ negNat e = 0 then t else 1) o.exp x.1 x.2.1 x.2.2⌝⦄ := by
  mvcgen [subNegDiv, subTail_triple]
  case inv1 | inv3 => exact fun st => ⟨negNat st.2.2⟩
  case inv2 => exact ⇓ x => match x with
    | .inl st => ⌜DvN d o t e st.1 st.2.1 st.2.2⌝
    | .inr st => ⌜DvN d o t e st.1 st.2.1 st.2.2⌝
  case inv4 => exact ⇓ x => match x with
    | .inl st => ⌜DvN d o t e st.1 st.2.1 st.2.2⌝
    | .inr st => ⌜DvNFin d o t e st.1 st.2.1⌝
  all_goals (simp +zetaDelta at *)
  case vc1 => rename_i hdiv hg hinv hnz hz; exact dvN_zero 4 (by norm_num) (by norm_num) _ _ _ _ _ _ _ hdiv ((i16_le_lit _ _).mp hg) hinv (by rw [if_neg hnz]) hz
  case vc2 => rename_i hdiv hg hinv hnz hz; exact dvN_step 4 (by norm_num) (by norm_num) _ _ _ _ _ _ _ hdiv ((i16_le_lit _ _).mp hg) hinv (by rw [if_neg hnz])
  case vc3 => rename_i hdiv hg hinv hr hz; exact dvN_zero 4 (by norm_num) (by norm_num) _ _ _ _ _ _ _ hdiv ((i16_le_lit _ _).mp hg) hinv (by rw [if_pos hr]) hz
  case vc4 => rename_i hdiv hg hinv hr hz; exact dvN_step 4 (by norm_num) (by norm_num) _ _ _ _ _ _ _ hdiv ((i16_le_lit _ _).mp hg) hinv (by rw [if_pos hr])
  case vc5 => rename_i hinv; exact hinv.2
  case vc6 => rename_i h; exact dvN_init _ _ _ _ h
  case vc7 => rename_i hdiv hg hinv hnz hz; exact dvNFin_of_zero _ _ _ _ _ _ _ hdiv hg hinv (by rw [if_neg hnz]) hz
  case vc8 => rename_i hdiv hg hinv hnz hz; exact dvN_step 1 (by norm_num) (by norm_num) _ _ _ _ _ _ _ hdiv (by have := (i16_lt_lit _ _).mp hg; simp at this; omega) hinv (by rw [if_neg hnz])
  case vc9 => rename_i hdiv hg hinv hr hz; exact dvNFin_of_zero _ _ _ _ _ _ _ hdiv hg hinv (by rw [if_pos hr]) hz
  case vc10 => rename_i hdiv hg hinv hr hz; exact dvN_step 1 (by norm_num) (by norm_num) _ _ _ _ _ _ _ hdiv (by have := (i16_lt_lit _ _).mp hg; simp at this; omega) hinv (by rw [if_pos hr])
  case vc11 => rename_i hg hinv; exact dvNFin_of_guard hinv.2 hg
  case vc12 => rename_i h; exact h
  case vc13 =>
    rename_i h _
    obtain ⟨h1, h2, h3⟩ := h
    rw [h1, h2, h3]; exact id
theorem subNegBranch_triple (d o : Gen.decomposed192) (t : Int8) (e : Int16) :
    ⦃⌜e.toInt < 0 ∧ e = d.exp - o.exp⌝⦄ subNegBranch d o t e
    ⦃⇓ x => ⌜SubNegPost d o t e x.1 x.2.1 x.2.2⌝⦄ := by
  mvcgen [subNegBranch, subNegDiv_triple]
  case inv1 | inv3 | inv5 => exact fun st => ⟨negNat st.2⟩
  case inv2 | inv4 => exact ⇓ x => match x with
    | .inl st => ⌜ScN o e st.1 st.2⌝
    | .inr st => ⌜ScN o e st.1 st.2⌝
  case inv6 => exact ⇓ x => match x with
    | .inl st => ⌜ScN o e st.1 st.2⌝
    | .inr st => ⌜ScN o e st.1 st.2 ∧ (0 ≤ st.2.toInt ∨ scaleLim ≤ st.1.sig.toNat)⌝
  all_goals (simp +zetaDelta at *)
  case vc1 => rename_i hg hinv; exact scN_step 19 (by norm_num) (by norm_num) _ (by decide) _ _ _ ((i16_le_lit _ _).mp hg.1) (U192.scale19 _ hg.2) hinv
  case vc4 => rename_i hg hinv; exact scN_step 4 (by norm_num) (by norm_num) _ (by decide) _ _ _ ((i16_le_lit _ _).mp hg.1) (U192.scale4 _ hg.2) hinv
  case vc7 => rename_i hg hinv; exact scN_step 1 (by norm_num) (by norm_num) _ (by decide) _ _ _ (by have := (i16_lt_lit _ _).mp hg.1; simp at this; omega) (U192.scale1 _ hg.2) hinv
  case vc2 | vc5 => rename_i hinv; exact hinv.2
  case vc3 => rename_i h; exact scN_init _ _ (by omega)
  case vc6 | vc9 => rename_i h; exact h
  case vc8 => rename_i hg hinv; exact ⟨hinv.2, scaleN_exit _ _ hg⟩
  case vc11 => rename_i hinv _ hg hnz; exact subNeg_postA hinv hg hnz
  case vc13 => rename_i hinv _ hg hz; exact subNeg_postB hinv hz
  case vc14 => rename_i hinv _; exact scN_pre (‹e.toInt < 0 ∧ e = d.exp - o.exp›).2 hinv.1
  case vc15 => rename_i hinv _ _; exact subNeg_post _ _ hinv.1 hinv.2 rfl rfl

theorem subPosDiv_triple (d o : Gen.decomposed192) (t : Int8) (e : Int16) :
    ⦃⌜0 ≤ e.toInt⌝⦄ subPosDiv d o t e
    ⦃⇓ x => ⌜SubFin d.sig.toNat (o.sig.toNat / 10 ^ posNat e)
      (if o.sig.toNat % 10 ^ posNat e = 0 then t else -1) d.exp x.1 x.2.1 x.2.2⌝⦄ := by
  mvcgen [subPosDiv, subTail_triple]
  case inv1 | inv3 => exact fun st => ⟨posNat st.2.2⟩
  case inv2 => exact ⇓ x => match x with
    | .inl st => ⌜DvPS o t e st.1 st.2.1 st.2.2⌝
    | .inr st => ⌜DvPS o t e st.1 st.2.1 st.2.2⌝
  case inv4 => exact ⇓ x => match x with
    | .inl st => ⌜DvPS o t e st.1 st.2.1 st.2.2⌝
    | .inr st => ⌜DvPSFin o t e st.1 st.2.1⌝
  all_goals (simp +zetaDelta at *)
  case vc1 => rename_i hdiv hg hinv hnz hz; exact dvPS_zero 4 (by norm_num) (by norm_num) _ _ _ _ _ _ _ hdiv ((i16_le_lit _ _).mp hg) hinv (by rw [if_neg hnz]) hz
  case vc2 => rename_i hdiv hg hinv hnz hz; exact dvPS_step 4 (by norm_num) (by norm_num) _ _ _ _ _ _ _ hdiv ((i16_le_lit _ _).mp hg) hinv (by rw [if_neg hnz])
  case vc3 => rename_i hdiv hg hinv hr hz; exact dvPS_zero 4 (by norm_num) (by norm_num) _ _ _ _ _ _ _ hdiv ((i16_le_lit _ _).mp hg) hinv (by rw [if_pos hr]) hz
  case vc4 => rename_i hdiv hg hinv hr hz; exact dvPS_step 4 (by norm_num) (by norm_num) _ _ _ _ _ _ _ hdiv ((i16_le_lit _ _).mp hg) hinv (by rw [if_pos hr])
  case vc5 => rename_i hinv; exact hinv.2
  case vc6 => rename_i h; exact dvPS_init _ _ _ h
  case vc7 => rename_i hdiv hg hinv hnz hz; exact dvPSFin_of_zero _ _ _ _ _ _ _ hdiv hg hinv (by rw [if_neg hnz]) hz
  case vc8 => rename_i hdiv hg hinv hnz hz; exact dvPS_step 1 (by norm_num) (by norm_num) _ _ _ _ _ _ _ hdiv (by have := (i16_lt_lit _ _).mp hg; simp at this; omega) hinv (by rw [if_neg hnz])
  case vc9 => rename_i hdiv hg hinv hr hz; exact dvPSFin_of_zero _ _ _ _ _ _ _ hdiv hg hinv (by rw [if_pos hr]) hz
  case vc10 => rename_i hdiv hg hinv hr hz; exact dvPS_step 1 (by norm_num) (by norm_num) _ _ _ _ _ _ _ hdiv (by have := (i16_lt_lit _ _).mp hg; simp at this; omega) hinv (by rw [if_pos hr])
  case vc11 => rename_i hg hinv; exact dvPSFin_of_guard hinv.2 hg
  case vc12 => rename_i h; exact h
  case vc13 =>
    rename_i h _
    obtain ⟨h1, h2⟩ := h
    rw [h1, h2]; exact id

theorem subPosBranch_triple (d o : Gen.decomposed192) (t : Int8) (e : Int16) :
    ⦃⌜0 < e.toInt⌝⦄ subPosBranch d o t e
    ⦃⇓ x => ⌜SubPosPost d o t e x.1 x.2.1 x.2.2⌝⦄ := by
  mvcgen [subPosBranch, subPosDiv_triple]
  case inv1 | inv3 | inv5 => exact fun st => ⟨posNat st.2⟩
  case inv2 | inv4 => exact ⇓ x => match x with
    | .inl st => ⌜ScP d e st.1 st.2⌝
    | .inr st => ⌜ScP d e st.1 st.2⌝
  case inv6 => exact ⇓ x => match x with
    | .inl st => ⌜ScP d e st.1 st.2⌝
    | .inr st => ⌜ScP d e st.1 st.2 ∧ (st.2.toInt ≤ 0 ∨ scaleLim ≤ st.1.sig.toNat)⌝
  all_goals (simp +zetaDelta at *)
  case vc1 => rename_i hg hinv; exact scP_step 19 (by norm_num) (by norm_num) _ (by decide) _ _ _ ((i16_le_lit _ _).mp hg.1) (U192.scale19 _ hg.2) hinv
  case vc4 => rename_i hg hinv; exact scP_step 4 (by norm_num) (by norm_num) _ (by decide) _ _ _ ((i16_le_lit _ _).mp hg.1) (U192.scale4 _ hg.2) hinv
  case vc7 => rename_i hg hinv; exact scP_step 1 (by norm_num) (by norm_num) _ (by decide) _ _ _ (by have := (i16_lt_lit _ _).mp hg.1; simp at this; omega) (U192.scale1 _ hg.2) hinv
  case vc2 | vc5 => rename_i hinv; exact hinv.2
  case vc3 => rename_i h; exact scP_init _ _ (by omega)
  case vc6 | vc9 => rename_i h; exact h
  case vc8 => rename_i hg hinv; exact ⟨hinv.2, scaleP_exit _ _ hg⟩
  case vc11 => rename_i hinv _ hg hnz; exact subPos_postA hinv hg hnz
  case vc13 => rename_i hinv _ hg hz; exact subPos_postB hinv hz
  case vc14 => rename_i hinv _; exact hinv.1.1
  case vc15 => rename_i hinv _ _; exact subPos_post _ _ hinv.1 hinv.2 rfl rfl

theorem sub_triple (d o : Gen.decomposed192) (t : Int8) :
    ⦃⌜True⌝⦄ Gen.decomposed192.sub d o t ⦃⇓ x => ⌜SubPost d o t x.1 x.2.1 x.2.2⌝⦄ := by
  rw [sub_eq]
  mvcgen [subNegBranch_triple, subPosBranch_triple, subTail_triple]
  case vc1 => rename_i h; exact i16_dec_lt0 h
  case vc2 => rename_i h _; exact fun hp => Or.inl ⟨i16_dec_lt0 h, hp⟩
  case vc3 => rename_i h; exact i16_dec_gt0 h
  case vc4 => rename_i h _; exact fun hp => Or.inr (Or.inl ⟨i16_dec_gt0 h, hp⟩)
  case vc5 => rename_i h1 h2 _; exact fun hp => Or.inr (Or.inr ⟨i16_dec_eq0 h1 h2, hp⟩)

/-- `decomposed192.sub`, all inputs (machine level): never panics, terminates, and the result is
described by `SubPost` (see `D192SubMath.lean`). -/
theorem sub_spec (d o : Gen.decomposed192) (t : Int8) :
    ∃ neg r t', Gen.decomposed192.sub d o t = .ok (neg, r, t') ∧ SubPost d o t neg r t' := by
  obtain ⟨⟨neg, r, t'⟩, hr, h⟩ := ok_of_triple (sub_triple d o t)
  exact ⟨neg, r, t', hr, h⟩

end D192
