/-
  D128/Proofs/NeverNaNPow.lean — property C15/C18: `Pow` never returns a NaN for finite operands except for
  a negative base with a non-integer exponent, and the sign of every result — now UNCONDITIONAL: the
  hypothesis `PowPf.RcpRange` of D128/Props/C18b.lean is discharged by `NN.rcpRange`
  (D128/Proofs/NeverNaNEpow.lean).

  Provided (namespace `NN`):
  * `pow_result_sign`        : finite non-zero x, finite y ∉ {0, ±1}, not (x < 0 ∧ y ∉ ℤ): EVERY mode byte —
                               the call returns, the result has the sign `x < 0 ∧ y odd integer` and is not a NaN
  * `pow_finite_not_nan`     : finite x, y, not (x < 0, x ≠ 0, y ≠ 0, y ∉ ℤ), valid mode byte: not a NaN
  * `powSpecial_none`        : `Spec.powSpecial m x y = none` only for finite non-zero x, y that are not the
                               invalid combination
  * `PowWithMode_isNaN`      : ALL bit patterns, valid mode byte: `IsNaN r = powNaN m 𝔳[d] 𝔳[o]`, the NaN-ness
                               prescribed by the specification table (`false` outside the table)
-/
import D128.Proofs.NeverNaNEpow
import D128.Proofs.NeverNaNPayload
import D128.Proofs.TotalMisc
set_option autoImplicit false

namespace NN
open Spec PowPf

local notation "𝔳[" d "]" => Spec.interp (Gen.Decimal.lo d) (Gen.Decimal.hi d)

/-- the sign of every result for finite non-zero x and finite y ∉ {0, ±1} (not x < 0 with y ∉ ℤ):
    EVERY mode byte, no hypothesis on the working-format routines -/
theorem pow_result_sign (d o : Gen.Decimal) (rm : UInt8) (xn : Bool) (xc : Nat) (xe : Int)
    (yn : Bool) (yc : Nat) (ye : Int)
    (hx : 𝔳[d] = .fin xn xc xe) (hx0 : xc ≠ 0) (hy : 𝔳[o] = .fin yn yc ye) (hy0 : yc ≠ 0)
    (hy1 : mag yc ye ≠ 1) (hint : xn = false ∨ isIntQ (mag yc ye) = true) :
    ∃ r, Gen.Decimal.PowWithMode d o rm = .ok r ∧
      Gen.Decimal.Signbit r = (xn && oddIntQ (mag yc ye)) ∧ Gen.Decimal.IsNaN r = false := by
  obtain ⟨r, hr⟩ := D128.Proofs.Total.PowWithMode_total_all d o rm
  exact ⟨r, hr, Props.C18b.pow_result_sign_of_rcpRange d o rm xn xc xe yn yc ye r rcpRange hx hx0 hy hy0
    hy1 hint hr⟩

/-- finite operands never give a NaN, except a negative non-zero base with a non-zero non-integer
    exponent (the listed invalid operation) -/
theorem pow_finite_not_nan (d o : Gen.Decimal) (rm : UInt8) (m : Mode)
    (hm : Mode.ofNat? rm.toNat = some m) (xn : Bool) (xc : Nat) (xe : Int) (yn : Bool) (yc : Nat)
    (ye : Int) (hx : 𝔳[d] = .fin xn xc xe) (hy : 𝔳[o] = .fin yn yc ye)
    (hexc : ¬ (xn = true ∧ xc ≠ 0 ∧ yc ≠ 0 ∧ isIntQ (mag yc ye) = false)) :
    ∃ r, Gen.Decimal.PowWithMode d o rm = .ok r ∧ Gen.Decimal.IsNaN r = false := by
  obtain ⟨r, hr⟩ := D128.Proofs.Total.PowWithMode_total_all d o rm
  exact ⟨r, hr, Props.C18b.pow_finite_never_nan_of_rcpRange d o rm m xn xc xe yn yc ye r rcpRange hm hx hy
    hexc hr⟩

/-! ## where the specification table does not decide -/

set_option hygiene false in
/-- every leaf of `powSpecial` reached under the current hypotheses is a `some` -/
local macro "pow_none" : tactic => `(tactic|
  (repeat' split at h
   all_goals first | (cases h; done) | (exfalso; simp_all; done)))

theorem powSpecial_none_inf_left (m : Mode) (xn : Bool) (y : Val) :
    powSpecial m (.inf xn) y ≠ none := by
  intro h; cases y <;> (unfold powSpecial at h; dsimp only at h; pow_none)
theorem powSpecial_none_nan_left (m : Mode) (xn : Bool) (p : UInt64) (y : Val) :
    powSpecial m (.nan xn p) y ≠ none := by
  intro h; cases y <;> (unfold powSpecial at h; dsimp only at h; pow_none)
theorem powSpecial_none_inf_right (m : Mode) (xn yn : Bool) (xc : Nat) (xe : Int) :
    powSpecial m (.fin xn xc xe) (.inf yn) ≠ none := by
  intro h; cases xn <;> (unfold powSpecial at h; dsimp only at h; pow_none)
theorem powSpecial_none_nan_right (m : Mode) (xn yn : Bool) (xc : Nat) (xe : Int) (p : UInt64) :
    powSpecial m (.fin xn xc xe) (.nan yn p) ≠ none := by
  intro h; cases xn <;> (unfold powSpecial at h; dsimp only at h; pow_none)
theorem powSpecial_none_zero_right (m : Mode) (xn yn : Bool) (xc : Nat) (xe : Int) (ye : Int) :
    powSpecial m (.fin xn xc xe) (.fin yn 0 ye) ≠ none := by
  intro h
  unfold powSpecial at h
  simp only [Val.isZero, if_true] at h
  cases h
theorem powSpecial_none_zero_left (m : Mode) (xn yn : Bool) (xe : Int) (yc : Nat) (ye : Int) :
    powSpecial m (.fin xn 0 xe) (.fin yn yc ye) ≠ none := by
  intro h
  unfold powSpecial at h
  have h0 : ((0 : Nat) == 0) = true := rfl
  cases xn <;> (dsimp only at h; simp only [h0, if_true] at h; pow_none)
theorem powSpecial_none_invalid (m : Mode) (yn : Bool) (xc : Nat) (xe : Int) (yc : Nat) (ye : Int)
    (hn : (intParity yc ye).isNone = true) :
    powSpecial m (.fin true xc xe) (.fin yn yc ye) ≠ none := by
  intro h
  unfold powSpecial at h
  dsimp only at h
  simp only [hn, Bool.and_self, if_true] at h
  pow_none

/-- `Spec.powSpecial` leaves the result open only for finite non-zero operands that are not the invalid
    combination (negative base, non-integer exponent) -/
theorem powSpecial_none (m : Mode) (x y : Val) (h : powSpecial m x y = none) :
    ∃ xn xc xe yn yc ye, x = .fin xn xc xe ∧ y = .fin yn yc ye ∧ xc ≠ 0 ∧ yc ≠ 0 ∧
      ¬ (xn = true ∧ (intParity yc ye).isNone = true) := by
  cases x with
  | nan n p => exact absurd h (powSpecial_none_nan_left m n p y)
  | inf n => exact absurd h (powSpecial_none_inf_left m n y)
  | fin xn xc xe =>
    cases y with
    | nan n p => exact absurd h (powSpecial_none_nan_right m xn n xc xe p)
    | inf n => exact absurd h (powSpecial_none_inf_right m xn n xc xe)
    | fin yn yc ye =>
      refine ⟨xn, xc, xe, yn, yc, ye, rfl, rfl, ?_, ?_, ?_⟩
      · rintro rfl; exact powSpecial_none_zero_left m xn yn xe yc ye h
      · rintro rfl; exact powSpecial_none_zero_right m xn yn xc xe ye h
      · rintro ⟨rfl, hn⟩; exact powSpecial_none_invalid m yn xc xe yc ye hn h

/-- the NaN-ness of `x^y` that the specification prescribes: decided by the table, `false` outside it -/
def powNaN (m : Mode) (x y : Val) : Bool :=
  match powSpecial m x y with
  | some w => w.isNaN
  | none => false

/-- **Pow, all bit patterns, valid mode byte**: the call returns, and the result is a NaN exactly when the
    specification table prescribes one -/
theorem PowWithMode_isNaN (d o : Gen.Decimal) (rm : UInt8) (m : Mode)
    (hm : Mode.ofNat? rm.toNat = some m) :
    ∃ r, Gen.Decimal.PowWithMode d o rm = .ok r ∧ Gen.Decimal.IsNaN r = powNaN m 𝔳[d] 𝔳[o] := by
  unfold powNaN
  cases hw : powSpecial m 𝔳[d] 𝔳[o] with
  | some w =>
    obtain ⟨r, hr, hs⟩ := Props.C18b.pow_special_correct d o rm m w hm hw
    exact ⟨r, hr, nan_of_same r w hs⟩
  | none =>
    obtain ⟨xn, xc, xe, yn, yc, ye, hx, hy, hx0, hy0, hexc⟩ := powSpecial_none m _ _ hw
    have hc : yc ≤ Cmax := by
      obtain ⟨h3, -, b2, -, -⟩ := fin_of_interp o yn yc ye hy
      rw [← b2]; exact Enc.decompose_sig_le o
    refine pow_finite_not_nan d o rm m hm xn xc xe yn yc ye hx hy ?_
    rintro ⟨h1, -, -, h4⟩
    apply hexc
    refine ⟨h1, ?_⟩
    rw [intParity_isNone yc ye hy0 hc, h4]; rfl

/-- … in particular a NaN result from non-NaN operands always carries the payload of the invalid `Pow` -/
theorem PowWithMode_created (d o : Gen.Decimal) (rm : UInt8) (m : Mode)
    (hm : Mode.ofNat? rm.toNat = some m)
    (hd : Gen.Decimal.IsNaN d = false) (ho : Gen.Decimal.IsNaN o = false) :
    ∃ r, Gen.Decimal.PowWithMode d o rm = .ok r ∧
      (Gen.Decimal.IsNaN r = true →
        Gen.Decimal.Payload_ r = .ok (Op.pow.code ||| cls d <<< 8 ||| cls o <<< 16)) := by
  cases hw : powSpecial m 𝔳[d] 𝔳[o] with
  | some w => exact PowWithMode_payload d o rm m w hm hd ho hw
  | none =>
    obtain ⟨r, hr, hn⟩ := PowWithMode_isNaN d o rm m hm
    refine ⟨r, hr, fun h => ?_⟩
    rw [hn] at h
    unfold powNaN at h
    rw [hw] at h; cases h

/-! ## NaN operands of `Pow` -/

/-- `NaN ^ y` is a NaN unless `y` is a zero (`math.Pow(NaN, ±0) = 1`) -/
theorem powNaN_nan_left (m : Mode) (n : Bool) (p : UInt64) (y : Val) (hy : y.isZero = false) :
    powNaN m (.nan n p) y = true := by
  unfold powNaN powSpecial
  cases y with
  | nan n' p' => rfl
  | inf n' => rfl
  | fin yn yc ye =>
    simp only [hy, Bool.false_eq_true, if_false, Val.same, posOne, Bool.false_and, Bool.or_self]
    have hq : quo m (Val.fin false 1 0) (Val.nan n p) = Val.nan n p := rfl
    rw [hq]
    cases (mag yc ye == 1 && decide (ye.natAbs < 40)) <;> cases yn <;> rfl

/-- `x ^ NaN` is a NaN unless `x` is `+1` (`math.Pow(1, NaN) = 1`) -/
theorem powNaN_nan_right (m : Mode) (x : Val) (n : Bool) (p : UInt64) (hx : x.same posOne = false) :
    powNaN m x (.nan n p) = true := by
  unfold powNaN powSpecial
  simp only [Val.isZero, Val.isInf, hx, Bool.false_eq_true, if_false, Bool.and_false]
  cases x <;> rfl

/-- **NaN propagation of `Pow`** (valid mode byte): a NaN base with a non-zero exponent, or a NaN exponent
    with a base other than `+1`, gives a NaN -/
theorem PowWithMode_nan (d o : Gen.Decimal) (rm : UInt8) (m : Mode)
    (hm : Mode.ofNat? rm.toNat = some m)
    (h : (Gen.Decimal.IsNaN d = true ∧ Gen.Decimal.IsZero o = false) ∨
         (Gen.Decimal.IsNaN o = true ∧ (𝔳[d]).same posOne = false)) :
    ∃ r, Gen.Decimal.PowWithMode d o rm = .ok r ∧ Gen.Decimal.IsNaN r = true := by
  obtain ⟨r, hr, hn⟩ := PowWithMode_isNaN d o rm m hm
  refine ⟨r, hr, ?_⟩
  rw [hn]
  rcases h with ⟨h1, h2⟩ | ⟨h1, h2⟩
  · rw [Sp.view_nan d h1]
    exact powNaN_nan_left m _ _ _ (by rw [Enc.interp_isZero]; exact h2)
  · rw [Sp.view_nan o h1]
    exact powNaN_nan_right m _ _ _ h2

end NN
