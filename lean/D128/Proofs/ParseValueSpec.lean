/-
  Canonical numerals and the specification: `Spec.readNumber` on a canonical numeral returns the
  digits as a number and the written exponent minus the number of fraction digits.

  * `Parse.readDigits_digits`     `Spec.readDigits` over a run of digits followed by a non-digit, non-`_`
  * `Parse.readNumber_canonical`  `Spec.readNumber sep chars = some (val (ip ++ fp), ±val ep - |fp|)`
-/
import D128.Proofs.ParseValue
import D128.Proofs.ParseGrammar

set_option linter.unusedSimpArgs false
set_option linter.unusedVariables false

namespace Parse


def NonDigitHead (rest : List Char) : Prop :=
  match rest with
  | [] => True
  | c :: _ => Spec.isDigit c = false ∧ c ≠ '_'

theorem readDigits_digits (sep : Bool) (ds : List UInt8) (hds : ∀ c ∈ ds, isDig c = true)
    (rest : List Char) (hrest : NonDigitHead rest) (acc cnt : Nat) :
    Spec.readDigits sep (ds.map toChar ++ rest) acc cnt =
      (acc * 10 ^ ds.length + val ds, cnt + ds.length, rest) := by
  induction ds generalizing acc cnt with
  | nil =>
    simp only [List.map_nil, List.nil_append, List.length_nil, Nat.pow_zero, Nat.mul_one, val,
      List.foldl_nil, Nat.add_zero]
    cases rest with
    | nil => rw [Spec.readDigits.eq_def]
    | cons c r =>
      obtain ⟨h1, h2⟩ := hrest
      rw [readDigits_cons, h1]
      have : (c == '_') = false := by simpa using h2
      simp [this]
  | cons c r ih =>
    have hc := hds c List.mem_cons_self
    have hr : ∀ x ∈ r, isDig x = true := fun x hx => hds x (List.mem_cons_of_mem _ hx)
    rw [List.map_cons, List.cons_append, readDigits_cons, isDigit_toChar, hc, if_pos rfl, ih hr,
      digitVal_toChar, val_cons, List.length_cons, Nat.pow_succ]
    congr 1
    · show _ = _
      have : (acc * 10 + (c.toNat - 48)) * 10 ^ r.length = acc * (10 ^ r.length * 10) + dval c * 10 ^ r.length := by
        unfold dval
        rw [Nat.add_mul, Nat.mul_assoc, Nat.mul_comm 10]
      omega
    · congr 1; omega

theorem isDigit_toChar_false_of (c : UInt8) (h : isDig c = false) : Spec.isDigit (toChar c) = false := by
  rw [isDigit_toChar, h]

theorem readNumber_canonical (sep : Bool) (ip fp sgn ep : List UInt8) (hasDot hasExp : Bool) (ech : UInt8)
    (hip : ∀ c ∈ ip, isDig c = true) (hfp : ∀ c ∈ fp, isDig c = true) (hep : ∀ c ∈ ep, isDig c = true)
    (hfp0 : hasDot = false → fp = []) (hne : ip ++ fp ≠ [])
    (hech : ech = 101 ∨ ech = 69) (hsgn : sgn = [] ∨ sgn = [45] ∨ sgn = [43])
    (hepne : hasExp = true → ep ≠ []) (hexp0 : hasExp = false → ep = [] ∧ sgn = []) :
    Spec.readNumber sep
        ((ip ++ (if hasDot then 46 :: fp else []) ++ (if hasExp then ech :: (sgn ++ ep) else [])).map toChar) =
      some (val (ip ++ fp), (if sgn = [45] then -(val ep : Int) else (val ep : Int)) - (fp.length : Int)) := by
  rw [readNumber_eq']
  -- the exponent part and the part after the integer digits, as character lists
  generalize hE : ((if hasExp then ech :: (sgn ++ ep) else []) : List UInt8).map toChar = E
  have hEhead : NonDigitHead E := by
    subst hE
    cases hasExp with
    | false => trivial
    | true =>
      simp only [if_true, List.map_cons]
      rcases hech with h | h <;> subst h <;> exact ⟨by decide, by decide⟩
  generalize hD : ((if hasDot then 46 :: fp else []) : List UInt8).map toChar ++ E = D
  have hDhead : NonDigitHead D := by
    subst hD
    cases hasDot with
    | false => simpa using hEhead
    | true => simp only [if_true, List.map_cons, List.cons_append]; exact ⟨by decide, by decide⟩
  have hchars : ((ip ++ (if hasDot then 46 :: fp else []) ++ (if hasExp then ech :: (sgn ++ ep) else [])).map toChar)
      = ip.map toChar ++ D := by
    rw [List.map_append, List.map_append, List.append_assoc, hE, hD]
  rw [hchars]
  unfold readNumber'
  rw [readDigits_digits sep ip hip D hDhead 0 0]
  simp only [Nat.zero_mul, Nat.zero_add]
  -- the fraction
  have hdot : dotStep sep (val ip) D = (val (ip ++ fp), fp.length, E) := by
    subst hD
    cases hasDot with
    | true =>
      simp only [if_true, List.map_cons, List.cons_append, dotStep]
      rw [if_pos (show toChar 46 = '.' from rfl), readDigits_digits sep fp hfp E hEhead, val_append]
      simp
    | false =>
      have := hfp0 rfl
      subst this
      simp only [Bool.false_eq_true, if_false, List.map_nil, List.nil_append, List.append_nil, List.length_nil]
      subst hE
      cases hasExp with
      | false => rfl
      | true =>
        simp only [if_true, List.map_cons, dotStep]
        rw [if_neg]
        rcases hech with h | h <;> subst h <;> decide
  rw [hdot]
  simp only []
  have hcnt : (ip.length + fp.length == 0) = false := by
    cases ip with
    | nil =>
      cases fp with
      | nil => exact absurd rfl hne
      | cons _ _ => simp
    | cons _ _ => simp
  rw [hcnt]
  simp only [Bool.false_eq_true, if_false]
  subst hE
  cases hasExp with
  | false =>
    obtain ⟨h1, h2⟩ := hexp0 rfl
    subst h1; subst h2
    simp [val]
  | true =>
    simp only [if_true, List.map_cons]
    have he : (toChar ech == 'e' || toChar ech == 'E') = true := by
      rcases hech with h | h <;> subst h <;> decide
    rw [he]
    simp only [if_true]
    have hepd := readDigits_digits sep ep hep [] trivial 0 0
    simp only [List.append_nil, Nat.zero_mul, Nat.zero_add] at hepd
    have hepl : (ep.length == 0) = false := by
      cases ep with
      | nil => exact absurd rfl (hepne rfl)
      | cons _ _ => simp
    rcases hsgn with h | h | h <;> subst h
    · have hs : signStep ((([] : List UInt8) ++ ep).map toChar) = (false, ep.map toChar) := by
        cases ep with
        | nil => exact absurd rfl (hepne rfl)
        | cons c r =>
          have hc := hep c List.mem_cons_self
          simp only [List.nil_append, List.map_cons, signStep]
          have n1 : toChar c ≠ '-' := by
            intro hh; have := (toChar_eq_lit c 45).mp hh; subst this; revert hc; decide
          have n2 : toChar c ≠ '+' := by
            intro hh; have := (toChar_eq_lit c 43).mp hh; subst this; revert hc; decide
          rw [if_neg n1, if_neg n2]
      rw [hs]
      simp only [hepd, hepl]
      simp
    · have hs : signStep ((([45] : List UInt8) ++ ep).map toChar) = (true, ep.map toChar) := by
        simp only [List.cons_append, List.nil_append, List.map_cons, signStep]
        rw [if_pos (show toChar 45 = '-' from rfl)]
      rw [hs]
      simp only [hepd, hepl]
      simp
    · have hs : signStep ((([43] : List UInt8) ++ ep).map toChar) = (false, ep.map toChar) := by
        simp only [List.cons_append, List.nil_append, List.map_cons, signStep]
        rw [if_neg (show toChar 43 ≠ '-' by decide), if_pos (show toChar 43 = '+' from rfl)]
      rw [hs]
      simp only [hepd, hepl]
      simp


end Parse
