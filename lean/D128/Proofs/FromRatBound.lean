/-
  D128/Proofs/FromRatBound.lean — the error of "round the numerator, round the denominator, divide and
  round" (what `FromRat` of /repo/convert.go does: `FromInt(num).Quo(FromInt(den))`), at the level of the
  specification.  Pure mathematics over ℚ and `Spec.roundTo` / `Spec.quo`; the generated code enters in
  `FromRatBoundGen.lean`.

  Provided (namespace `FromRatBound`):
  * `ratio_err`        `|N'−N| ≤ uN`, `|D'−D| ≤ uD`, `u < 1` ⇒ `|N'/D' − N/D| ≤ 2u/(1−u)·N/D`,
                       `N'/D' ≤ (1+u)/(1−u)·N/D`, `0 < D'`
  * `ratio_err_same`   both rounded in the same direction ⇒ `|N'/D' − N/D| ≤ u/(1−u)·N/D`, `N'/D' ≤ 1/(1−u)·N/D`
  * `three_err`        adding the error `max A (w·Q)` of the final rounding of `Q = N'/D'`
  * `roundTo_fin_lt`   a finite `roundTo` (any mode) has `q < (Cmax+1)·10^Emax`
  * `quoRounded_fin`   `N, D ≥ 1` with finite roundings ⇒ `Spec.quo m (roundTo m s N) (roundTo m false D)` is
                       finite with sign `s`, and equals `flushOrRound m s (N'/D')`
  * `quoRounded_nearest`   nearest modes:  `|v − N/D| ≤ 2u/(1−u)·N/D + max (10^Emin/2) (u(1+u)/(1−u)·N/D)`, `u = 2^-111`
  * `quoRounded_any`       every mode:     the same with `u = 2^-110`, `10^Emin`
  * `quoRounded_same`      numerator and denominator rounded in the same direction (toZero, awayFromZero,
                           toNegInf/toPosInf on positive quotients): `u/(1−u)` in place of `2u/(1−u)`
  * `quo_of_inf_left`, `quo_of_inf_right`  what `Spec.quo` returns when an operand overflowed
-/
import D128.Proofs.SpecRoundRel
import D128.Proofs.SpecMeaningArith
set_option autoImplicit false

namespace FromRatBound
open Spec SpecRound

/-! ## 1. three roundings over ℚ -/

theorem ratio_err {N D N' D' u : ℚ} (hN : 0 < N) (hD : 0 < D) (hu0 : 0 ≤ u) (hu1 : u < 1)
    (hN' : |N' - N| ≤ u * N) (hD' : |D' - D| ≤ u * D) :
    0 < D' ∧ |N' / D' - N / D| ≤ 2 * u / (1 - u) * (N / D) ∧
      N' / D' ≤ (1 + u) / (1 - u) * (N / D) := by
  obtain ⟨hN1, hN2⟩ := abs_le.1 hN'
  obtain ⟨hD1, hD2⟩ := abs_le.1 hD'
  have h1u : 0 < 1 - u := by linarith
  have h1u' : 0 < 1 + u := by linarith
  have hDlo : (1 - u) * D ≤ D' := by linarith
  have hDhi : D' ≤ (1 + u) * D := by linarith
  have hNlo : (1 - u) * N ≤ N' := by linarith
  have hNhi : N' ≤ (1 + u) * N := by linarith
  have hD'pos : 0 < D' := lt_of_lt_of_le (mul_pos h1u hD) hDlo
  have hR : 0 < N / D := div_pos hN hD
  have hRD : N / D * D = N := div_mul_cancel₀ N hD.ne'
  -- upper: N'/D' ≤ (1+u)/(1-u) · R
  have hup : N' / D' ≤ (1 + u) / (1 - u) * (N / D) := by
    rw [div_le_iff₀ hD'pos]
    have hk : 0 ≤ (1 + u) / (1 - u) * (N / D) := by positivity
    calc N' ≤ (1 + u) * N := hNhi
      _ = (1 + u) / (1 - u) * (N / D) * ((1 - u) * D) := by
          rw [← hRD]; field_simp
      _ ≤ (1 + u) / (1 - u) * (N / D) * D' := mul_le_mul_of_nonneg_left hDlo hk
  -- lower: (1-u)/(1+u) · R ≤ N'/D'
  have hlo : (1 - u) / (1 + u) * (N / D) ≤ N' / D' := by
    rw [le_div_iff₀ hD'pos]
    have hk : 0 ≤ (1 - u) / (1 + u) * (N / D) := by positivity
    calc (1 - u) / (1 + u) * (N / D) * D' ≤ (1 - u) / (1 + u) * (N / D) * ((1 + u) * D) :=
          mul_le_mul_of_nonneg_left hDhi hk
      _ = (1 - u) * N := by rw [← hRD]; field_simp
      _ ≤ N' := hNlo
  refine ⟨hD'pos, ?_, hup⟩
  have e1 : (1 + u) / (1 - u) = 1 + 2 * u / (1 - u) := by field_simp; ring
  have e2 : (1 - u) / (1 + u) = 1 - 2 * u / (1 + u) := by field_simp; ring
  have e3 : 2 * u / (1 + u) ≤ 2 * u / (1 - u) :=
    div_le_div_of_nonneg_left (by linarith) h1u (by linarith)
  rw [e1] at hup
  rw [e2] at hlo
  have := mul_le_mul_of_nonneg_right e3 hR.le
  rw [abs_le]
  constructor <;> nlinarith

theorem ratio_err_same {N D N' D' u : ℚ} (hN : 0 < N) (hD : 0 < D) (hu0 : 0 ≤ u) (hu1 : u < 1)
    (hN' : |N' - N| ≤ u * N) (hD' : |D' - D| ≤ u * D)
    (hdir : (N' ≤ N ∧ D' ≤ D) ∨ (N ≤ N' ∧ D ≤ D')) :
    0 < D' ∧ |N' / D' - N / D| ≤ u / (1 - u) * (N / D) ∧
      N' / D' ≤ 1 / (1 - u) * (N / D) := by
  obtain ⟨hN1, hN2⟩ := abs_le.1 hN'
  obtain ⟨hD1, hD2⟩ := abs_le.1 hD'
  have h1u : 0 < 1 - u := by linarith
  have h1u' : 0 < 1 + u := by linarith
  have hDlo : (1 - u) * D ≤ D' := by linarith
  have hNlo : (1 - u) * N ≤ N' := by linarith
  have hD'pos : 0 < D' := lt_of_lt_of_le (mul_pos h1u hD) hDlo
  have hR : 0 < N / D := div_pos hN hD
  have hRD : N / D * D = N := div_mul_cancel₀ N hD.ne'
  -- the two-sided enclosure (1-u)·R ≤ N'/D' ≤ R/(1-u)
  have hup : N' / D' ≤ 1 / (1 - u) * (N / D) := by
    rw [div_le_iff₀ hD'pos]
    have hk : 0 ≤ 1 / (1 - u) * (N / D) := by positivity
    rcases hdir with ⟨a, b⟩ | ⟨a, b⟩
    · calc N' ≤ N := a
        _ = 1 / (1 - u) * (N / D) * ((1 - u) * D) := by rw [← hRD]; field_simp
        _ ≤ 1 / (1 - u) * (N / D) * D' := mul_le_mul_of_nonneg_left hDlo hk
    · have h3 : (1 + u) * (1 - u) ≤ 1 := by nlinarith
      calc N' ≤ (1 + u) * N := by linarith
        _ ≤ 1 / (1 - u) * N := by
            apply mul_le_mul_of_nonneg_right _ hN.le
            rw [le_div_iff₀ h1u]; exact h3
        _ = 1 / (1 - u) * (N / D) * D := by rw [mul_assoc, hRD]
        _ ≤ 1 / (1 - u) * (N / D) * D' := mul_le_mul_of_nonneg_left b hk
  have hlo : (1 - u) * (N / D) ≤ N' / D' := by
    rw [le_div_iff₀ hD'pos]
    have hk : 0 ≤ (1 - u) * (N / D) := by positivity
    rcases hdir with ⟨a, b⟩ | ⟨a, b⟩
    · calc (1 - u) * (N / D) * D' ≤ (1 - u) * (N / D) * D := mul_le_mul_of_nonneg_left b hk
        _ = (1 - u) * N := by rw [mul_assoc, hRD]
        _ ≤ N' := hNlo
    · have h3 : (1 - u) * (1 + u) ≤ 1 := by nlinarith
      calc (1 - u) * (N / D) * D' ≤ (1 - u) * (N / D) * ((1 + u) * D) :=
            mul_le_mul_of_nonneg_left (by linarith) hk
        _ = (1 - u) * (1 + u) * N := by
            rw [show (1 - u) * (N / D) * ((1 + u) * D) = (1 - u) * (1 + u) * (N / D * D) by ring, hRD]
        _ ≤ 1 * N := mul_le_mul_of_nonneg_right h3 hN.le
        _ ≤ N' := by linarith
  refine ⟨hD'pos, ?_, hup⟩
  have e1 : 1 / (1 - u) = 1 + u / (1 - u) := by field_simp; ring
  have e3 : u ≤ u / (1 - u) := by
    rw [le_div_iff₀ h1u]; nlinarith
  rw [e1] at hup
  have := mul_le_mul_of_nonneg_right e3 hR.le
  rw [abs_le]
  constructor <;> nlinarith

/-- the final rounding of `Q` (error `max A (w·Q)`) on top of `|Q − R| ≤ b·R`, `Q ≤ k·R` -/
theorem three_err {V Q R A w b k : ℚ} (hw : 0 ≤ w)
    (hV : |V - Q| ≤ max A (w * Q)) (hQ : |Q - R| ≤ b * R) (hk : Q ≤ k * R) :
    |V - R| ≤ b * R + max A (w * k * R) := by
  have h1 : |V - R| ≤ |V - Q| + |Q - R| := by
    have := abs_add_le (V - Q) (Q - R)
    rwa [show V - Q + (Q - R) = V - R by ring] at this
  have h2 : max A (w * Q) ≤ max A (w * k * R) := by
    apply max_le_max (le_refl _)
    rw [mul_assoc]; exact mul_le_mul_of_nonneg_left hk hw
  linarith

/-! ## 2. `Spec.quo` of two rounded integers -/

/-- a finite result (any mode) means `q` is below `(Cmax+1)·10^Emax` -/
theorem roundTo_fin_lt {m : Mode} {neg : Bool} {q : ℚ} (hq : 0 < q) {n : Bool} {c : Nat} {e : Int}
    (h : Spec.roundTo m neg q = .fin n c e) :
    q < ((Spec.Cmax : ℚ) + 1) * (10 : ℚ) ^ Spec.Emax := by
  have hp : (0 : ℚ) < (10 : ℚ) ^ Spec.Emax := zpow_pos (by norm_num) _
  by_contra hge
  have hge := not_lt.1 hge
  have hinf : Spec.roundTo m neg q = .inf neg := by
    rcases mode_cases m neg with hm | hm | hm
    · exact (roundTo_down_inf_iff hm hq).2 hge
    · refine (roundTo_up_inf_iff hm hq).2 (lt_of_lt_of_le ?_ hge)
      nlinarith
    · refine (roundTo_nearest_inf_iff hm neg hq).2 (le_trans ?_ hge)
      nlinarith
  rw [hinf] at h; cases h

/-- the quotient of the two rounded operands: finite, with the sign of the numerator, and the
    `flushOrRound` of the exact quotient `N'/D'` of the rounded magnitudes -/
theorem quoRounded_fin (m : Mode) (s : Bool) {N D : ℚ} (hD : 1 ≤ D)
    {cn cd : Nat} {en ed : Int}
    (h1 : Spec.roundTo m s N = .fin s cn en) (hN0 : 0 < N)
    (h2 : Spec.roundTo m false D = .fin false cd ed) :
    0 < (cd : ℚ) * (10 : ℚ) ^ ed ∧
    ∃ c e, Spec.quo m (.fin s cn en) (.fin false cd ed) = .fin s c e ∧
      Spec.flushOrRound m s (((cn : ℚ) * (10 : ℚ) ^ en) / ((cd : ℚ) * (10 : ℚ) ^ ed)) = .fin s c e := by
  have hD0 : 0 < D := by linarith
  have hD1 := roundTo_pos_of_ge_one hD h2
  have hcd : cd ≠ 0 := by
    rintro rfl; simp at hD1; linarith
  have hNmax := member_le_max (roundTo_fin_member hN0 h1)
  have hN'0 : 0 ≤ (cn : ℚ) * (10 : ℚ) ^ en := SpecMeaning.mag_nonneg cn en
  have hQ0 : 0 ≤ ((cn : ℚ) * (10 : ℚ) ^ en) / ((cd : ℚ) * (10 : ℚ) ^ ed) :=
    div_nonneg hN'0 (by linarith)
  have hQmax : ((cn : ℚ) * (10 : ℚ) ^ en) / ((cd : ℚ) * (10 : ℚ) ^ ed) ≤
      (Spec.Cmax : ℚ) * (10 : ℚ) ^ Spec.Emax :=
    le_trans (div_le_self hN'0 hD1) hNmax
  obtain ⟨c, e, hf⟩ := flushOrRound_fin_of_le_max m s hQ0 hQmax
  refine ⟨by linarith, c, e, ?_, hf⟩
  rw [SpecMeaning.quo_fin_fin m s false cn cd en ed hcd, abs_div, SpecMeaning.abs_toRat_fin,
    SpecMeaning.abs_toRat_fin, Bool.bne_false]
  exact hf

/-- the generic assembly: operand errors `u`, final error `max A (u·Q)` -/
theorem quoRounded_core (m : Mode) (s : Bool) {N D u A : ℚ} (hN : 1 ≤ N) (hD : 1 ≤ D)
    (hu0 : 0 ≤ u) (hu1 : u < 1)
    {cn cd : Nat} {en ed : Int}
    (h1 : Spec.roundTo m s N = .fin s cn en) (h2 : Spec.roundTo m false D = .fin false cd ed)
    (e1 : |(cn : ℚ) * (10 : ℚ) ^ en - N| ≤ u * N) (e2 : |(cd : ℚ) * (10 : ℚ) ^ ed - D| ≤ u * D)
    (e3 : ∀ (q : ℚ), 0 ≤ q → ∀ (c : Nat) (e : Int), Spec.flushOrRound m s q = .fin s c e →
      |(c : ℚ) * (10 : ℚ) ^ e - q| ≤ max A (u * q)) :
    ∃ c e, Spec.quo m (Spec.roundTo m s N) (Spec.roundTo m false D) = .fin s c e ∧
      |(c : ℚ) * (10 : ℚ) ^ e - N / D| ≤
        2 * u / (1 - u) * (N / D) + max A (u * ((1 + u) / (1 - u)) * (N / D)) := by
  have hN0 : 0 < N := by linarith
  have hD0 : 0 < D := by linarith
  obtain ⟨hD'pos, c, e, hq, hf⟩ := quoRounded_fin m s hD h1 hN0 h2
  obtain ⟨-, r1, r2⟩ := ratio_err hN0 hD0 hu0 hu1 e1 e2
  have hQ0 : 0 ≤ ((cn : ℚ) * (10 : ℚ) ^ en) / ((cd : ℚ) * (10 : ℚ) ^ ed) :=
    div_nonneg (SpecMeaning.mag_nonneg cn en) hD'pos.le
  refine ⟨c, e, by rw [h1, h2]; exact hq, ?_⟩
  exact three_err hu0 (e3 _ hQ0 c e hf) r1 r2

/-- … when numerator and denominator are rounded in the same direction -/
theorem quoRounded_core_same (m : Mode) (s : Bool) {N D u A : ℚ} (hN : 1 ≤ N) (hD : 1 ≤ D)
    (hu0 : 0 ≤ u) (hu1 : u < 1)
    {cn cd : Nat} {en ed : Int}
    (h1 : Spec.roundTo m s N = .fin s cn en) (h2 : Spec.roundTo m false D = .fin false cd ed)
    (e1 : |(cn : ℚ) * (10 : ℚ) ^ en - N| ≤ u * N) (e2 : |(cd : ℚ) * (10 : ℚ) ^ ed - D| ≤ u * D)
    (hdir : ((cn : ℚ) * (10 : ℚ) ^ en ≤ N ∧ (cd : ℚ) * (10 : ℚ) ^ ed ≤ D) ∨
            (N ≤ (cn : ℚ) * (10 : ℚ) ^ en ∧ D ≤ (cd : ℚ) * (10 : ℚ) ^ ed))
    (e3 : ∀ (q : ℚ), 0 ≤ q → ∀ (c : Nat) (e : Int), Spec.flushOrRound m s q = .fin s c e →
      |(c : ℚ) * (10 : ℚ) ^ e - q| ≤ max A (u * q)) :
    ∃ c e, Spec.quo m (Spec.roundTo m s N) (Spec.roundTo m false D) = .fin s c e ∧
      |(c : ℚ) * (10 : ℚ) ^ e - N / D| ≤
        u / (1 - u) * (N / D) + max A (u * (1 / (1 - u)) * (N / D)) := by
  have hN0 : 0 < N := by linarith
  have hD0 : 0 < D := by linarith
  obtain ⟨hD'pos, c, e, hq, hf⟩ := quoRounded_fin m s hD h1 hN0 h2
  obtain ⟨-, r1, r2⟩ := ratio_err_same hN0 hD0 hu0 hu1 e1 e2 hdir
  have hQ0 : 0 ≤ ((cn : ℚ) * (10 : ℚ) ^ en) / ((cd : ℚ) * (10 : ℚ) ^ ed) :=
    div_nonneg (SpecMeaning.mag_nonneg cn en) hD'pos.le
  refine ⟨c, e, by rw [h1, h2]; exact hq, ?_⟩
  exact three_err hu0 (e3 _ hQ0 c e hf) r1 r2

theorem one_ge_low : (2 ^ 110 : ℚ) * (10 : ℚ) ^ Spec.Emin ≤ 1 := by
  have h1 : (10 : ℚ) ^ Spec.Emin ≤ (10 : ℚ) ^ (-34 : Int) :=
    zpow_le_zpow_right₀ (by norm_num) (by unfold Spec.Emin; norm_num)
  have h2 : (10 : ℚ) ^ (-34 : Int) = 1 / 10 ^ 34 := by norm_num
  rw [h2] at h1
  have : (2 ^ 110 : ℚ) * (1 / 10 ^ 34) ≤ 1 := by norm_num
  nlinarith

/-- **nearest modes** (`u = 2^-111`) -/
theorem quoRounded_nearest {m : Mode} (hn : isNearest m = true) (s : Bool) {N D : ℚ}
    (hN : 1 ≤ N) (hD : 1 ≤ D)
    {cn cd : Nat} {en ed : Int}
    (h1 : Spec.roundTo m s N = .fin s cn en) (h2 : Spec.roundTo m false D = .fin false cd ed) :
    ∃ c e, Spec.quo m (Spec.roundTo m s N) (Spec.roundTo m false D) = .fin s c e ∧
      |(c : ℚ) * (10 : ℚ) ^ e - N / D| ≤
        2 * (1 / 2 ^ 111) / (1 - 1 / 2 ^ 111) * (N / D) +
          max ((10 : ℚ) ^ Spec.Emin / 2)
            (1 / 2 ^ 111 * ((1 + 1 / 2 ^ 111) / (1 - 1 / 2 ^ 111)) * (N / D)) := by
  have hlow := one_ge_low
  refine quoRounded_core m s hN hD (by norm_num) (by norm_num) h1 h2 ?_ ?_ ?_
  · have := roundTo_rel_error_sharp hn (le_trans hlow hN) h1
    exact le_trans this (le_of_eq (by ring))
  · have := roundTo_rel_error_sharp hn (le_trans hlow hD) h2
    exact le_trans this (le_of_eq (by ring))
  · intro q hq c e hf
    have := (flushOrRound_nearest_err hn hq hf).2
    rwa [div_eq_mul_one_div q, mul_comm q] at this

/-- **every mode** (`u = 2^-110`) -/
theorem quoRounded_any (m : Mode) (s : Bool) {N D : ℚ} (hN : 1 ≤ N) (hD : 1 ≤ D)
    {cn cd : Nat} {en ed : Int}
    (h1 : Spec.roundTo m s N = .fin s cn en) (h2 : Spec.roundTo m false D = .fin false cd ed) :
    ∃ c e, Spec.quo m (Spec.roundTo m s N) (Spec.roundTo m false D) = .fin s c e ∧
      |(c : ℚ) * (10 : ℚ) ^ e - N / D| ≤
        2 * (1 / 2 ^ 110) / (1 - 1 / 2 ^ 110) * (N / D) +
          max ((10 : ℚ) ^ Spec.Emin)
            (1 / 2 ^ 110 * ((1 + 1 / 2 ^ 110) / (1 - 1 / 2 ^ 110)) * (N / D)) := by
  have hlow := one_ge_low
  refine quoRounded_core m s hN hD (by norm_num) (by norm_num) h1 h2 ?_ ?_ ?_
  · have := (roundTo_rel_error_lt_sharp (le_trans hlow hN) h1).le
    exact le_trans this (le_of_eq (by ring))
  · have := (roundTo_rel_error_lt_sharp (le_trans hlow hD) h2).le
    exact le_trans this (le_of_eq (by ring))
  · intro q hq c e hf
    have := (flushOrRound_err_le hq hf).2
    rwa [div_eq_mul_one_div q, mul_comm q] at this

/-- numerator (sign `s`) and denominator (sign +) are rounded in the same direction by `m` -/
def SameDir (m : Mode) (s : Bool) : Prop :=
  (isDown m s = true ∧ isDown m false = true) ∨ (isUp m s = true ∧ isUp m false = true)

theorem sameDir_iff (m : Mode) (s : Bool) :
    SameDir m s ↔ m = .toZero ∨ m = .awayFromZero ∨ (m = .toNegInf ∧ s = false) ∨
      (m = .toPosInf ∧ s = false) := by
  unfold SameDir
  cases m <;> cases s <;> simp [isDown, isUp]

/-- **directed modes that round numerator and denominator the same way** (toZero, awayFromZero, and
    toNegInf / toPosInf for a positive numerator): the operand errors partly cancel -/
theorem quoRounded_same (m : Mode) (s : Bool) (hs : SameDir m s) {N D : ℚ} (hN : 1 ≤ N) (hD : 1 ≤ D)
    {cn cd : Nat} {en ed : Int}
    (h1 : Spec.roundTo m s N = .fin s cn en) (h2 : Spec.roundTo m false D = .fin false cd ed) :
    ∃ c e, Spec.quo m (Spec.roundTo m s N) (Spec.roundTo m false D) = .fin s c e ∧
      |(c : ℚ) * (10 : ℚ) ^ e - N / D| ≤
        1 / 2 ^ 110 / (1 - 1 / 2 ^ 110) * (N / D) +
          max ((10 : ℚ) ^ Spec.Emin) (1 / 2 ^ 110 * (1 / (1 - 1 / 2 ^ 110)) * (N / D)) := by
  have hlow := one_ge_low
  have hN0 : 0 < N := by linarith
  have hD0 : 0 < D := by linarith
  refine quoRounded_core_same m s hN hD (by norm_num) (by norm_num) h1 h2 ?_ ?_ ?_ ?_
  · have := (roundTo_rel_error_lt_sharp (le_trans hlow hN) h1).le
    exact le_trans this (le_of_eq (by ring))
  · have := (roundTo_rel_error_lt_sharp (le_trans hlow hD) h2).le
    exact le_trans this (le_of_eq (by ring))
  · rcases hs with ⟨a, b⟩ | ⟨a, b⟩
    · exact Or.inl ⟨roundTo_down_le a hN0 h1, roundTo_down_le b hD0 h2⟩
    · exact Or.inr ⟨roundTo_up_ge a hN0 h1, roundTo_up_ge b hD0 h2⟩
  · intro q hq c e hf
    have := (flushOrRound_err_le hq hf).2
    rwa [div_eq_mul_one_div q, mul_comm q] at this

/-! ## 3. what happens when an operand overflowed -/

/-- numerator `±Inf`: the quotient is `±Inf` or NaN, never finite -/
theorem quo_of_inf_left (m : Mode) (s : Bool) (y : Val) : (Spec.quo m (.inf s) y).isFin = false := by
  cases y <;> simp [Spec.quo, Val.isFin, Spec.invalid2, Spec.invalid]

/-- denominator `+Inf`, finite numerator: the quotient is a zero -/
theorem quo_of_inf_right (m : Mode) (n : Bool) (c : Nat) (e : Int) (s : Bool) :
    Spec.quo m (.fin n c e) (.inf s) = .fin (n != s) 0 0 := by
  simp [Spec.quo]

end FromRatBound
