/-
  Soundness of the rational enclosure oracle `Spec.Encl`, part 5: the guard of `expI` (reduced argument in
  [−8, 8]) holds, i.e. `expI`/`exp`/`expm1` do answer, for every input interval of magnitude ≤ 10^60 and
  width ≤ 4.  (Beyond ~10^79 the 80-digit rounding of `k·ln10` loses the units digit; the unguarded `expI`
  was unsound there — e.g. at x = 10^86 — which is why the guard was added to the specification.)

  1. `ln10_lo_ge : 23/10 ≤ ln10.lo`, `ln10_hi_le : ln10.hi ≤ 231/100`, `ln10_width : ln10.hi − ln10.lo ≤ 10^-75`
     (kernel evaluation of the closed rational terms, `decide +kernel`)
  2. `scale_eq`, `scale_bounds a c q (a.lo ≤ c ≤ a.hi)` :
        (a.scale q).lo ≤ c·q ≤ (a.scale q).hi  and both ends are within
        (a.hi − a.lo + (|a.lo|+|a.hi|)·10^-79)·|q| of c·q
  3. `guard_of_bounds a : a.lo ≤ a.hi → a.hi − a.lo ≤ 4 → |a.lo| ≤ 10^60 → |a.hi| ≤ 10^60 → Guard a`, `guard_pt`
  4. `expI_isSome`, `exp_isSome x : |x| ≤ 10^60 → ∃ s, Encl.exp x = some s`, `expm1_isSome`
-/
import D128.Proofs.EnclosureExpI
set_option autoImplicit false

namespace EnclPf
open Spec Spec.Encl SpecRound

/-! ## 1. numerical facts about the closed term `ln10` -/

theorem ln10_lo_ge : (23 / 10 : ℚ) ≤ ln10.lo := by decide +kernel
theorem ln10_hi_le : ln10.hi ≤ (231 / 100 : ℚ) := by decide +kernel
theorem ln10_width : ln10.hi - ln10.lo ≤ (1 / 10 ^ 75 : ℚ) := by decide +kernel
theorem ln10_lo_le_hi : ln10.lo ≤ ln10.hi := by decide +kernel

/-! ## 2. precision of `scale` -/

theorem scale_eq (a : I) (q : ℚ) :
    a.scale q = ⟨rdDown (min4 (a.lo * q) (a.lo * q) (a.hi * q) (a.hi * q)),
                 rdUp (max4 (a.lo * q) (a.lo * q) (a.hi * q) (a.hi * q))⟩ := rfl

theorem scale_bounds (a : I) (c q : ℚ) (h1 : a.lo ≤ c) (h2 : c ≤ a.hi) :
    (a.scale q).lo ≤ c * q ∧ c * q ≤ (a.scale q).hi ∧
    c * q - (a.hi - a.lo + (|a.lo| + |a.hi|) * eps) * |q| ≤ (a.scale q).lo ∧
    (a.scale q).hi ≤ c * q + (a.hi - a.lo + (|a.lo| + |a.hi|) * eps) * |q| := by
  rw [scale_eq]
  simp only
  obtain ⟨m1, m2⟩ := mul_corner_bounds h1 h2 (le_refl q) (le_refl q)
  set m := min4 (a.lo * q) (a.lo * q) (a.hi * q) (a.hi * q) with hm
  set M := max4 (a.lo * q) (a.lo * q) (a.hi * q) (a.hi * q) with hM
  have hm' : m = min (a.lo * q) (a.hi * q) := by simp [hm, min4]
  have hM' : M = max (a.lo * q) (a.hi * q) := by simp [hM, max4]
  have e1 : min (min (a.lo * q) (a.lo * q)) (min (a.hi * q) (a.hi * q)) = m := by simp [hm']
  have e2 : max (max (a.lo * q) (a.lo * q)) (max (a.hi * q) (a.hi * q)) = M := by simp [hM']
  rw [e1] at m1; rw [e2] at m2
  have hw : 0 ≤ a.hi - a.lo := by linarith
  have heps := eps_pos
  -- each corner is within (hi - lo)|q| of c*q and has magnitude ≤ (|lo| + |hi|)|q|
  have hc1 : |a.lo * q - c * q| ≤ (a.hi - a.lo) * |q| := by
    rw [← sub_mul, abs_mul]; apply mul_le_mul_of_nonneg_right _ (abs_nonneg q)
    rw [abs_le]; constructor <;> linarith
  have hc2 : |a.hi * q - c * q| ≤ (a.hi - a.lo) * |q| := by
    rw [← sub_mul, abs_mul]; apply mul_le_mul_of_nonneg_right _ (abs_nonneg q)
    rw [abs_le]; constructor <;> linarith
  have hb1 : |a.lo * q| ≤ (|a.lo| + |a.hi|) * |q| := by
    rw [abs_mul]; apply mul_le_mul_of_nonneg_right _ (abs_nonneg q); linarith [abs_nonneg a.hi]
  have hb2 : |a.hi * q| ≤ (|a.lo| + |a.hi|) * |q| := by
    rw [abs_mul]; apply mul_le_mul_of_nonneg_right _ (abs_nonneg q); linarith [abs_nonneg a.lo]
  have hmc : |m - c * q| ≤ (a.hi - a.lo) * |q| ∧ |m| ≤ (|a.lo| + |a.hi|) * |q| := by
    rw [hm']; rcases min_choice (a.lo * q) (a.hi * q) with h | h <;> rw [h]
    · exact ⟨hc1, hb1⟩
    · exact ⟨hc2, hb2⟩
  have hMc : |M - c * q| ≤ (a.hi - a.lo) * |q| ∧ |M| ≤ (|a.lo| + |a.hi|) * |q| := by
    rw [hM']; rcases max_choice (a.lo * q) (a.hi * q) with h | h <;> rw [h]
    · exact ⟨hc1, hb1⟩
    · exact ⟨hc2, hb2⟩
  have r1 := rdDown_le m
  have r2 := rdDown_ge m
  have r3 := le_rdUp M
  have r4 := rdUp_le M
  have a1 := (abs_le.1 hmc.1).1
  have a2 := (abs_le.1 hMc.1).2
  have a3 : |m| * eps ≤ (|a.lo| + |a.hi|) * |q| * eps := mul_le_mul_of_nonneg_right hmc.2 heps.le
  have a4 : |M| * eps ≤ (|a.lo| + |a.hi|) * |q| * eps := mul_le_mul_of_nonneg_right hMc.2 heps.le
  refine ⟨by linarith, by linarith, ?_, ?_⟩
  · nlinarith
  · nlinarith

/-! ## 3. the reduced argument is in range -/

theorem expR_eq (a : I) :
    expR a = ⟨rdDown (a.lo - (ln10.scale ((expK a : Int) : Rat)).hi),
              rdUp (a.hi - (ln10.scale ((expK a : Int) : Rat)).lo)⟩ := rfl

theorem abs_rdDown_le (q : ℚ) : |rdDown q| ≤ 2 * |q| := by
  have h1 := rdDown_le q
  have h2 := rdDown_ge q
  have : |q| * eps ≤ |q| := by
    have : eps ≤ 1 := by unfold eps; rw [div_le_one (by positivity)]; norm_num
    nlinarith [abs_nonneg q]
  rw [abs_le]
  have := neg_abs_le q
  have := le_abs_self q
  constructor <;> linarith

theorem abs_rdUp_le (q : ℚ) : |rdUp q| ≤ 2 * |q| := by
  have h1 := le_rdUp q
  have h2 := rdUp_le q
  have : |q| * eps ≤ |q| := by
    have : eps ≤ 1 := by unfold eps; rw [div_le_one (by positivity)]; norm_num
    nlinarith [abs_nonneg q]
  rw [abs_le]
  have := neg_abs_le q
  have := le_abs_self q
  constructor <;> linarith

theorem eps_le_tenth : eps ≤ 1 / 10 := by
  unfold eps; rw [div_le_div_iff₀ (by positivity) (by norm_num)]; norm_num

/-- **the guard of `expI` holds** for every interval of width ≤ 4 and magnitude ≤ 10^60 -/
theorem guard_of_bounds (a : I) (hle : a.lo ≤ a.hi) (hw : a.hi - a.lo ≤ 4)
    (hlo : |a.lo| ≤ 10 ^ 60) (hhi : |a.hi| ≤ 10 ^ 60) : Guard a := by
  -- constants
  have c1 := ln10_lo_ge
  have c2 := ln10_hi_le
  have c3 := ln10_width
  have c4 := ln10_lo_le_hi
  set L : ℚ := (ln10.lo + ln10.hi) / 2 with hL
  have hL1 : (23 / 10 : ℚ) ≤ L := by rw [hL]; linarith
  have hL2 : L ≤ (231 / 100 : ℚ) := by rw [hL]; linarith
  have hLpos : 0 < L := by linarith
  set mid : ℚ := (a.lo + a.hi) / 2 with hmid
  have hk : expK a = ⌊mid / L⌋ := rfl
  set kq : ℚ := ((expK a : Int) : ℚ) with hkq
  -- k·L ≤ mid < k·L + L
  have hf1 : kq ≤ mid / L := by rw [hkq, hk]; exact Int.floor_le _
  have hf2 : mid / L < kq + 1 := by rw [hkq, hk]; exact Int.lt_floor_add_one _
  rw [le_div_iff₀ hLpos] at hf1
  rw [div_lt_iff₀ hLpos] at hf2
  -- |mid| ≤ 10^60, |kq| ≤ 10^60 + 1
  have hmidabs : |mid| ≤ 10 ^ 60 := by
    rw [hmid, abs_le]
    have := abs_le.1 hlo; have := abs_le.1 hhi
    constructor <;> linarith
  have hkabs : |kq| ≤ 10 ^ 60 + 1 := by
    have := abs_le.1 hmidabs
    rw [abs_le]
    constructor
    · by_contra hc
      have hc : kq + 1 < -10 ^ 60 := by linarith
      nlinarith
    · by_contra hc
      have hc : 10 ^ 60 + 1 < kq := by linarith
      nlinarith
  -- scale precision
  obtain ⟨s1, s2, s3, s4⟩ := scale_bounds ln10 L kq (by rw [hL]; linarith) (by rw [hL]; linarith)
  have hWle : (ln10.hi - ln10.lo + (|ln10.lo| + |ln10.hi|) * eps) * |kq| ≤ 1 / 10 := by
    have e1 : |ln10.lo| = ln10.lo := abs_of_nonneg (by linarith)
    have e2 : |ln10.hi| = ln10.hi := abs_of_nonneg (by linarith)
    rw [e1, e2]
    have : ln10.hi - ln10.lo + (ln10.lo + ln10.hi) * eps ≤ 1 / 10 ^ 74 := by
      unfold eps
      have : (ln10.lo + ln10.hi) * (1 / 10 ^ 79) ≤ (231 / 50) * (1 / 10 ^ 79) :=
        mul_le_mul_of_nonneg_right (by linarith) (by positivity)
      have e : (231 / 50 : ℚ) * (1 / 10 ^ 79) + 1 / 10 ^ 75 ≤ 1 / 10 ^ 74 := by norm_num
      linarith
    calc (ln10.hi - ln10.lo + (ln10.lo + ln10.hi) * eps) * |kq|
        ≤ (1 / 10 ^ 74) * (10 ^ 60 + 1) :=
          mul_le_mul this hkabs (abs_nonneg _) (by positivity)
      _ ≤ 1 / 10 := by norm_num
  set W : ℚ := (ln10.hi - ln10.lo + (|ln10.lo| + |ln10.hi|) * eps) * |kq| with hW
  set klo := (ln10.scale kq).lo with hklo
  set khi := (ln10.scale kq).hi with hkhi
  unfold Guard
  rw [expR_eq]
  simp only
  have hmlo : mid - a.lo = (a.hi - a.lo) / 2 := by rw [hmid]; ring
  have hmhi : a.hi - mid = (a.hi - a.lo) / 2 := by rw [hmid]; ring
  have he := eps_le_tenth
  have hep := eps_pos
  constructor
  · -- lower end: t = a.lo - khi ∈ [-(w/2) - W, L]
    have t1 : a.lo - khi ≤ L := by nlinarith
    have t2 : -(2 + 1 / 10) ≤ a.lo - khi := by nlinarith
    have habs : |a.lo - khi| ≤ 231 / 100 := by rw [abs_le]; constructor <;> linarith
    have := rdDown_ge (a.lo - khi)
    have : |a.lo - khi| * eps ≤ 231 / 100 * (1 / 10) :=
      mul_le_mul habs he hep.le (by norm_num)
    linarith
  · have t1 : 0 ≤ a.hi - klo := by nlinarith
    have t2 : a.hi - klo ≤ 2 + 231 / 100 + 1 / 10 := by nlinarith
    have habs : |a.hi - klo| ≤ 441 / 100 := by rw [abs_le]; constructor <;> linarith
    have := rdUp_le (a.hi - klo)
    have : |a.hi - klo| * eps ≤ 441 / 100 * (1 / 10) :=
      mul_le_mul habs he hep.le (by norm_num)
    linarith

theorem guard_pt (x : ℚ) (hx : |x| ≤ 10 ^ 60) : Guard (I.pt x) :=
  guard_of_bounds (I.pt x) (le_refl _) (by show x - x ≤ 4; simp) hx hx

/-! ## 4. totality on sane arguments -/

/-- `expI` answers on every interval of width ≤ 4 and magnitude ≤ 10^60 -/
theorem expI_isSome (a : I) (hle : a.lo ≤ a.hi) (hw : a.hi - a.lo ≤ 4)
    (hlo : |a.lo| ≤ 10 ^ 60) (hhi : |a.hi| ≤ 10 ^ 60) : ∃ s, expI a = some s :=
  ⟨_, expI_of_guard (guard_of_bounds a hle hw hlo hhi)⟩

theorem exp_isSome (x : ℚ) (hx : |x| ≤ 10 ^ 60) : ∃ s, Encl.exp x = some s :=
  ⟨_, expI_of_guard (guard_pt x hx)⟩

theorem expm1_isSome (x : ℚ) (hx : |x| ≤ 10 ^ 60) : ∃ v, Encl.expm1 x = some v := by
  unfold Encl.expm1
  rw [ite_neg_eq_abs]
  split
  · exact ⟨_, rfl⟩
  · obtain ⟨s, hs⟩ := exp_isSome x hx
    rw [hs]; exact ⟨_, rfl⟩

example : ∃ s, Encl.exp (-12345 / 7) = some s ∧ Real.exp ((-12345 / 7 : ℚ) : ℝ) ∈ₛ s := by
  obtain ⟨s, hs⟩ := exp_isSome (-12345 / 7) (by rw [abs_le]; constructor <;> norm_num)
  exact ⟨s, hs, exp_sound hs⟩

end EnclPf
