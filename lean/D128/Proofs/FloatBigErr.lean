/-
  D128/Proofs/FloatBigErr.lean — consequences of "ONE `roundBits` of the exact value" for `Decimal.Float`
  (property C09), stated about the signed values (`fvalue F` = the exact value of the `big.Float`,
  `(𝔳[d]).toRat` = the exact value of the Decimal).  All for a non-zero finite `d` and any receiver.

  Provided (namespace `FB`):
  * `Float_bracket`          the result is `pick mode sign |d| m u` for THE bracket `(m, u)` of `|d|`
  * `Float_rel_err`          `|F − d| < 2^(1−prec)·|d|`                    (every mode)
  * `Float_rel_err_nearest`  `|F − d| ≤ 2^(−prec)·|d|`                     (modes 0, 1)
  * `Float_exact`            `F = d` when `|d|` has at most `prec` significant bits
  * `Float_rep`              the magnitude is positive and has at most `prec` significant bits
  * `Float_directed`         the side on which the four directed modes leave the result
  * `Float_oracle`           mode 0: the magnitude is `Spec.roundBinNE |d| prec` (the oracle's function)
-/
import D128.Proofs.FloatBigTrip
import D128.Proofs.FloatBigOracle
set_option autoImplicit false
set_option maxRecDepth 4096
namespace FB
open Go Go.BigFloat BF BigConv FromRatBound
local notation "𝔳[" d "]" => Spec.interp (Gen.Decimal.lo d) (Gen.Decimal.hi d)

/-! ## error bounds and sides for `Float`, as statements about the signed values -/

section
variable (d : Gen.Decimal) (f : Option BigFloat) (hs : Gen.Decimal.isSpecial d = false)
  (hf : ∀ x, f = some x → x.prec < 2 ^ 64) (hz : (𝔳[d]).toRat ≠ 0)
include hs hf hz

/-- the full description of the result for a non-zero finite `d`, with the bracket -/
theorem Float_bracket :
    ∃ (m : ℕ) (u : ℤ), Bracket (recvPrec f) |(𝔳[d]).toRat| m u ∧
      Gen.Decimal.Float d f = .ok ⟨recvPrec f, recvMode f, .finite, Gen.Decimal.Signbit d,
        pick (recvMode f) (Gen.Decimal.Signbit d) (|(𝔳[d]).toRat|) m u⟩ := by
  have hp : 0 < recvPrec f := Nat.pos_of_ne_zero (recvPrec_ne f)
  obtain ⟨m, u, hb, e⟩ := roundBits_bracket (recvPrec f) (recvMode f) (Gen.Decimal.Signbit d) _ hp (abs_pos.2 hz)
  exact ⟨m, u, hb, by rw [← e]; exact Float_nonzero d f hs hf hz⟩

/-- **relative error below `2^(1-prec)`**, every mode, every receiver -/
theorem Float_rel_err :
    ∃ F, Gen.Decimal.Float d f = .ok F ∧ F.prec = recvPrec f ∧ F.form = .finite ∧
      |fvalue F - (𝔳[d]).toRat| < (2 : ℚ) ^ (1 - (F.prec : ℤ)) * |(𝔳[d]).toRat| := by
  have hp : 0 < recvPrec f := Nat.pos_of_ne_zero (recvPrec_ne f)
  refine ⟨_, Float_nonzero d f hs hf hz, rfl, rfl, ?_⟩
  rw [fvalue_dist _ _ _ _ _ (value_signed d hs)]
  exact roundBits_rel_err _ _ _ _ hp (abs_pos.2 hz)

/-- **relative error at most `2^-prec`** in the two nearest modes (in particular for a nil receiver) -/
theorem Float_rel_err_nearest (hm : recvMode f = 0 ∨ recvMode f = 1) :
    ∃ F, Gen.Decimal.Float d f = .ok F ∧ F.prec = recvPrec f ∧ F.form = .finite ∧
      |fvalue F - (𝔳[d]).toRat| ≤ (2 : ℚ) ^ (-(F.prec : ℤ)) * |(𝔳[d]).toRat| := by
  have hp : 0 < recvPrec f := Nat.pos_of_ne_zero (recvPrec_ne f)
  refine ⟨_, Float_nonzero d f hs hf hz, rfl, rfl, ?_⟩
  rw [fvalue_dist _ _ _ _ _ (value_signed d hs)]
  exact roundBits_rel_err_nearest _ _ _ _ hm hp (abs_pos.2 hz)

/-- **exact** whenever `|d|` has at most `prec` significant bits -/
theorem Float_exact (hr : Rep (recvPrec f) |(𝔳[d]).toRat|) :
    ∃ F, Gen.Decimal.Float d f = .ok F ∧ F.form = .finite ∧ fvalue F = (𝔳[d]).toRat := by
  have hp : 0 < recvPrec f := Nat.pos_of_ne_zero (recvPrec_ne f)
  refine ⟨_, Float_nonzero d f hs hf hz, rfl, ?_⟩
  rw [roundBits_exact _ _ _ _ hp (abs_pos.2 hz) hr]
  exact fvalue_of_exact d hs _ _

/-- the result has at most `prec` significant bits -/
theorem Float_rep :
    ∃ F, Gen.Decimal.Float d f = .ok F ∧ F.form = .finite ∧ 0 < F.val ∧ Rep F.prec F.val := by
  have hp : 0 < recvPrec f := Nat.pos_of_ne_zero (recvPrec_ne f)
  exact ⟨_, Float_nonzero d f hs hf hz, rfl, roundBits_pos _ _ _ _ hp (abs_pos.2 hz),
    roundBits_rep _ _ _ _ hp (abs_pos.2 hz)⟩

/-- the directed modes: ToZero never increases the magnitude, AwayFromZero never decreases it,
    ToNegativeInf gives a value `≤ d`, ToPositiveInf a value `≥ d` -/
theorem Float_directed :
    ∃ F, Gen.Decimal.Float d f = .ok F ∧
      (recvMode f = 2 → |fvalue F| ≤ |(𝔳[d]).toRat|) ∧
      (recvMode f = 3 → |(𝔳[d]).toRat| ≤ |fvalue F|) ∧
      (recvMode f = 4 → fvalue F ≤ (𝔳[d]).toRat) ∧
      (recvMode f = 5 → (𝔳[d]).toRat ≤ fvalue F) := by
  have hp : 0 < recvPrec f := Nat.pos_of_ne_zero (recvPrec_ne f)
  have hq := abs_pos.2 hz
  refine ⟨_, Float_nonzero d f hs hf hz, ?_, ?_, ?_, ?_⟩
  · intro hm
    rw [fvalue_abs _ (roundBits_pos _ _ _ _ hp hq), hm]
    exact roundBits_toZero_le _ _ _ hp hq
  · intro hm
    rw [fvalue_abs _ (roundBits_pos _ _ _ _ hp hq), hm]
    exact roundBits_away_ge _ _ _ hp hq
  · intro hm
    have h := roundBits_negInf (recvPrec f) (Gen.Decimal.Signbit d) _ hp hq
    have hv := value_signed d hs
    rw [hm]
    unfold fvalue
    cases hsg : Gen.Decimal.Signbit d
    · rw [hsg] at h hv; simp only [Bool.false_eq_true, if_false] at h hv ⊢; rw [hv]; simpa using h
    · rw [hsg] at h hv; simp only [if_true] at h hv ⊢; rw [hv]; simpa using h
  · intro hm
    have h := roundBits_posInf (recvPrec f) (Gen.Decimal.Signbit d) _ hp hq
    have hv := value_signed d hs
    rw [hm]
    unfold fvalue
    cases hsg : Gen.Decimal.Signbit d
    · rw [hsg] at h hv; simp only [Bool.false_eq_true, if_false] at h hv ⊢; rw [hv]; simpa using h
    · rw [hsg] at h hv; simp only [if_true] at h hv ⊢; rw [hv]; simpa using h

/-- in mode ToNearestEven the magnitude is the oracle's `Spec.roundBinNE` -/
theorem Float_oracle (hm : recvMode f = 0) :
    ∃ F, Gen.Decimal.Float d f = .ok F ∧ F.val = Spec.roundBinNE |(𝔳[d]).toRat| (recvPrec f) := by
  have hp : 0 < recvPrec f := Nat.pos_of_ne_zero (recvPrec_ne f)
  refine ⟨_, Float_nonzero d f hs hf hz, ?_⟩
  rw [roundBinNE_eq _ (Gen.Decimal.Signbit d) _ hp (abs_pos.2 hz), hm]

end
end FB
