/-
  D128.Proofs.TotalD192Mul — totality (termination, no panic) of the working-format products
  `decomposed192.mul`, `decomposed192.pow2`, `decomposed192.powexp10` (C20).

  * `d192_mul_triple`  : `⦃True⦄ mul d o t ⦃r => (d.sig ≠ 0 → o.sig ≠ 0 → r.1.sig ≠ 0) ∧ (r.2 = t ∨ r.2 = 1)⦄`
  * `d192_pow2_triple` : `⦃True⦄ pow2 d t ⦃r => (d.sig ≠ 0 → r.1.sig ≠ 0) ∧ (r.2 = t ∨ r.2 = 1)⦄`
  * `peTail`, `powexp10_eq` : normal form of `powexp10` (the `switch` on `o`, then one common tail)
  * `d192_powexp10_triple` : `⦃True⦄ powexp10 d o t ⦃r => (d.sig ≠ 0 → r.1.sig ≠ 0) ∧ (r.2 = t ∨ r.2 = 1)⦄`
  * `d192_mul_total`, `d192_pow2_total`, `d192_powexp10_total` : the `∃ r, f … = .ok r` forms.
  All three hold for every input (no precondition).
-/
import D128.Proofs.TotalBase

set_option autoImplicit false
set_option mvcgen.warning false
set_option exponentiation.threshold 512

namespace D128.Proofs.Total
open Std.Do
open D128.Proofs.WordsWide

@[spec] theorem d192_mul_triple (d o : Gen.decomposed192) (trunc : Int8) :
    ⦃⌜True⌝⦄ Gen.decomposed192.mul d o trunc
    ⦃⇓ r => ⌜(d.sig.toNat ≠ 0 → o.sig.toNat ≠ 0 → r.1.sig.toNat ≠ 0) ∧ (r.2 = trunc ∨ r.2 = 1)⌝⦄ := by
  mvcgen [Gen.decomposed192.mul]
  case inv1 | inv3 => exact fun st => ⟨st.2.1.toNat⟩
  case inv2 => exact ⇓ x => match x with
    | .inl st => ⌜(d.sig.toNat ≠ 0 → o.sig.toNat ≠ 0 → st.2.1.toNat ≠ 0) ∧ (st.1 = trunc ∨ st.1 = 1)⌝
    | .inr st => ⌜(d.sig.toNat ≠ 0 → o.sig.toNat ≠ 0 → st.2.1.toNat ≠ 0) ∧ (st.1 = trunc ∨ st.1 = 1)
        ∧ st.2.1.toNat < 2^320⌝
  case inv4 => exact ⇓ x => match x with
    | .inl st => ⌜(d.sig.toNat ≠ 0 → o.sig.toNat ≠ 0 → st.2.1.toNat ≠ 0) ∧ (st.1 = trunc ∨ st.1 = 1)
        ∧ st.2.1.toNat < 2^320⌝
    | .inr st => ⌜(d.sig.toNat ≠ 0 → o.sig.toNat ≠ 0 → st.2.1.toNat ≠ 0) ∧ (st.1 = trunc ∨ st.1 = 1)
        ∧ st.2.1.toNat < 2^256⌝
  case inv5 | inv7 | inv9 => exact fun st => ⟨st.2.2.toNat⟩
  case inv6 | inv8 => exact ⇓ x => match x with
    | .inl st => ⌜(d.sig.toNat ≠ 0 → o.sig.toNat ≠ 0 → st.2.2.toNat ≠ 0) ∧ (st.1 = trunc ∨ st.1 = 1)⌝
    | .inr st => ⌜(d.sig.toNat ≠ 0 → o.sig.toNat ≠ 0 → st.2.2.toNat ≠ 0) ∧ (st.1 = trunc ∨ st.1 = 1)⌝
  case inv10 => exact ⇓ x => match x with
    | .inl st => ⌜(d.sig.toNat ≠ 0 → o.sig.toNat ≠ 0 → st.2.2.toNat ≠ 0) ∧ (st.1 = trunc ∨ st.1 = 1)⌝
    | .inr st => ⌜(d.sig.toNat ≠ 0 → o.sig.toNat ≠ 0 → st.2.2.toNat ≠ 0) ∧ (st.1 = trunc ∨ st.1 = 1)
        ∧ st.2.2.toNat < 2^192⌝
  all_goals (simp +zetaDelta at *)
  case vc4 =>
    intro h1 h2
    rw [U192_mul_toNat]
    exact Nat.mul_ne_zero h1 h2
  all_goals d192_close

theorem d192_mul_total (d o : Gen.decomposed192) (trunc : Int8) :
    ∃ r, Gen.decomposed192.mul d o trunc = .ok r ∧
      (d.sig.toNat ≠ 0 → o.sig.toNat ≠ 0 → r.1.sig.toNat ≠ 0) ∧ (r.2 = trunc ∨ r.2 = 1) :=
  ok_of_triple (d192_mul_triple d o trunc)

example : ∃ r, Gen.decomposed192.mul Gen.ln10 Gen.ln2 0 = .ok r ∧ r.1.sig.toNat ≠ 0 := by
  obtain ⟨r, h, h1, _⟩ := d192_mul_total Gen.ln10 Gen.ln2 0
  exact ⟨r, h, h1 (by decide) (by decide)⟩

/-! ## pow2 -/

@[spec] theorem d192_pow2_triple (d : Gen.decomposed192) (trunc : Int8) :
    ⦃⌜True⌝⦄ Gen.decomposed192.pow2 d trunc
    ⦃⇓ r => ⌜(d.sig.toNat ≠ 0 → r.1.sig.toNat ≠ 0) ∧ (r.2 = trunc ∨ r.2 = 1)⌝⦄ := by
  mvcgen [Gen.decomposed192.pow2]
  case inv1 | inv3 => exact fun st => ⟨st.2.1.toNat⟩
  case inv2 => exact ⇓ x => match x with
    | .inl st => ⌜(d.sig.toNat ≠ 0 → st.2.1.toNat ≠ 0) ∧ (st.1 = trunc ∨ st.1 = 1)⌝
    | .inr st => ⌜(d.sig.toNat ≠ 0 → st.2.1.toNat ≠ 0) ∧ (st.1 = trunc ∨ st.1 = 1)
        ∧ st.2.1.toNat < 2^320⌝
  case inv4 => exact ⇓ x => match x with
    | .inl st => ⌜(d.sig.toNat ≠ 0 → st.2.1.toNat ≠ 0) ∧ (st.1 = trunc ∨ st.1 = 1)
        ∧ st.2.1.toNat < 2^320⌝
    | .inr st => ⌜(d.sig.toNat ≠ 0 → st.2.1.toNat ≠ 0) ∧ (st.1 = trunc ∨ st.1 = 1)
        ∧ st.2.1.toNat < 2^256⌝
  case inv5 | inv7 => exact fun st => ⟨st.2.2.toNat⟩
  case inv6 => exact ⇓ x => match x with
    | .inl st => ⌜(d.sig.toNat ≠ 0 → st.2.2.toNat ≠ 0) ∧ (st.1 = trunc ∨ st.1 = 1)⌝
    | .inr st => ⌜(d.sig.toNat ≠ 0 → st.2.2.toNat ≠ 0) ∧ (st.1 = trunc ∨ st.1 = 1)⌝
  case inv8 => exact ⇓ x => match x with
    | .inl st => ⌜(d.sig.toNat ≠ 0 → st.2.2.toNat ≠ 0) ∧ (st.1 = trunc ∨ st.1 = 1)⌝
    | .inr st => ⌜(d.sig.toNat ≠ 0 → st.2.2.toNat ≠ 0) ∧ (st.1 = trunc ∨ st.1 = 1)
        ∧ st.2.2.toNat < 2^192⌝
  all_goals (simp +zetaDelta at *)
  case vc4 =>
    intro h1
    rw [U192_pow2_toNat]
    exact pow_ne_zero 2 h1
  all_goals d192_close

theorem d192_pow2_total (d : Gen.decomposed192) (trunc : Int8) :
    ∃ r, Gen.decomposed192.pow2 d trunc = .ok r ∧
      (d.sig.toNat ≠ 0 → r.1.sig.toNat ≠ 0) ∧ (r.2 = trunc ∨ r.2 = 1) :=
  ok_of_triple (d192_pow2_triple d trunc)

/-! ## powexp10 -/

section
open Gen
/-- the square-and-multiply tail of `powexp10` (everything after the `switch o`) -/
def peTail (d : decomposed192) (trunc : Int8) (p10 : Int64) : Go.GoM (decomposed192 × Int8) := do
  let mut d : decomposed192 := d
  let mut trunc : Int8 := trunc
  let mut p10 : Int64 := p10
  let mut rtrunc : Int8 := trunc
  let mut r : decomposed192 := ({ (default : decomposed192) with sig := (U192.mk (1 : UInt64) (0 : UInt64) (0 : UInt64)), exp := (0 : Int16) } : decomposed192)
  while (decide (p10 > (1 : Int64))) do
    if (decide (((Go.conv d.exp : Int64) * (2 : Int64)) > (32651 : Int64))) then
      return (dinf, trunc)
    if ((p10 &&& (1 : Int64)) != (0 : Int64)) then
      let (r_1, r_2) ← decomposed192.mul d r rtrunc
      r := r_1
      rtrunc := r_2
      p10 := (p10 - (1 : Int64))
    let (r_3, r_4) ← decomposed192.mul d d trunc
    d := r_3
    trunc := r_4
    p10 := (p10 / (2 : Int64))
  if (decide (((Go.conv d.exp : Int64) + (Go.conv r.exp : Int64)) > (32651 : Int64))) then
    return (dinf, trunc)
  if (rtrunc != (0 : Int8)) then
    trunc := (1 : Int8)
  let t_5 ← decomposed192.mul d r trunc
  return t_5

def pePow (o : Int16) : Int64 :=
  if o == 1 then 10 else if o == 2 then 100 else if o == 3 then 1000 else if o == 4 then 10000
  else if o == 5 then 100000 else if o == 6 then 1000000 else if o == 7 then 10000000 else 0

theorem powexp10_eq (d : decomposed192) (o : Int16) (trunc : Int8) :
    decomposed192.powexp10 d o trunc =
      if o == 0 then pure (d, trunc) else if o == 8 then pure (dinf, trunc)
      else peTail d trunc (pePow o) := by
  by_cases h0 : o = 0
  · subst h0
    unfold decomposed192.powexp10 peTail pePow
    simp only [show ((0:Int16) == 0) = true from by decide, show ((0:Int16) == 1) = false from by decide, show ((0:Int16) == 2) = false from by decide, show ((0:Int16) == 3) = false from by decide, show ((0:Int16) == 4) = false from by decide, show ((0:Int16) == 5) = false from by decide, show ((0:Int16) == 6) = false from by decide, show ((0:Int16) == 7) = false from by decide, show ((0:Int16) == 8) = false from by decide, Bool.false_eq_true, if_false, if_true]
  by_cases h1 : o = 1
  · subst h1
    unfold decomposed192.powexp10 peTail pePow
    simp only [show ((1:Int16) == 0) = false from by decide, show ((1:Int16) == 1) = true from by decide, show ((1:Int16) == 2) = false from by decide, show ((1:Int16) == 3) = false from by decide, show ((1:Int16) == 4) = false from by decide, show ((1:Int16) == 5) = false from by decide, show ((1:Int16) == 6) = false from by decide, show ((1:Int16) == 7) = false from by decide, show ((1:Int16) == 8) = false from by decide, Bool.false_eq_true, if_false, if_true]
  by_cases h2 : o = 2
  · subst h2
    unfold decomposed192.powexp10 peTail pePow
    simp only [show ((2:Int16) == 0) = false from by decide, show ((2:Int16) == 1) = false from by decide, show ((2:Int16) == 2) = true from by decide, show ((2:Int16) == 3) = false from by decide, show ((2:Int16) == 4) = false from by decide, show ((2:Int16) == 5) = false from by decide, show ((2:Int16) == 6) = false from by decide, show ((2:Int16) == 7) = false from by decide, show ((2:Int16) == 8) = false from by decide, Bool.false_eq_true, if_false, if_true]
  by_cases h3 : o = 3
  · subst h3
    unfold decomposed192.powexp10 peTail pePow
    simp only [show ((3:Int16) == 0) = false from by decide, show ((3:Int16) == 1) = false from by decide, show ((3:Int16) == 2) = false from by decide, show ((3:Int16) == 3) = true from by decide, show ((3:Int16) == 4) = false from by decide, show ((3:Int16) == 5) = false from by decide, show ((3:Int16) == 6) = false from by decide, show ((3:Int16) == 7) = false from by decide, show ((3:Int16) == 8) = false from by decide, Bool.false_eq_true, if_false, if_true]
  by_cases h4 : o = 4
  · subst h4
    unfold decomposed192.powexp10 peTail pePow
    simp only [show ((4:Int16) == 0) = false from by decide, show ((4:Int16) == 1) = false from by decide, show ((4:Int16) == 2) = false from by decide, show ((4:Int16) == 3) = false from by decide, show ((4:Int16) == 4) = true from by decide, show ((4:Int16) == 5) = false from by decide, show ((4:Int16) == 6) = false from by decide, show ((4:Int16) == 7) = false from by decide, show ((4:Int16) == 8) = false from by decide, Bool.false_eq_true, if_false, if_true]
  by_cases h5 : o = 5
  · subst h5
    unfold decomposed192.powexp10 peTail pePow
    simp only [show ((5:Int16) == 0) = false from by decide, show ((5:Int16) == 1) = false from by decide, show ((5:Int16) == 2) = false from by decide, show ((5:Int16) == 3) = false from by decide, show ((5:Int16) == 4) = false from by decide, show ((5:Int16) == 5) = true from by decide, show ((5:Int16) == 6) = false from by decide, show ((5:Int16) == 7) = false from by decide, show ((5:Int16) == 8) = false from by decide, Bool.false_eq_true, if_false, if_true]
  by_cases h6 : o = 6
  · subst h6
    unfold decomposed192.powexp10 peTail pePow
    simp only [show ((6:Int16) == 0) = false from by decide, show ((6:Int16) == 1) = false from by decide, show ((6:Int16) == 2) = false from by decide, show ((6:Int16) == 3) = false from by decide, show ((6:Int16) == 4) = false from by decide, show ((6:Int16) == 5) = false from by decide, show ((6:Int16) == 6) = true from by decide, show ((6:Int16) == 7) = false from by decide, show ((6:Int16) == 8) = false from by decide, Bool.false_eq_true, if_false, if_true]
  by_cases h7 : o = 7
  · subst h7
    unfold decomposed192.powexp10 peTail pePow
    simp only [show ((7:Int16) == 0) = false from by decide, show ((7:Int16) == 1) = false from by decide, show ((7:Int16) == 2) = false from by decide, show ((7:Int16) == 3) = false from by decide, show ((7:Int16) == 4) = false from by decide, show ((7:Int16) == 5) = false from by decide, show ((7:Int16) == 6) = false from by decide, show ((7:Int16) == 7) = true from by decide, show ((7:Int16) == 8) = false from by decide, Bool.false_eq_true, if_false, if_true]
  by_cases h8 : o = 8
  · subst h8
    unfold decomposed192.powexp10 peTail pePow
    simp only [show ((8:Int16) == 0) = false from by decide, show ((8:Int16) == 1) = false from by decide, show ((8:Int16) == 2) = false from by decide, show ((8:Int16) == 3) = false from by decide, show ((8:Int16) == 4) = false from by decide, show ((8:Int16) == 5) = false from by decide, show ((8:Int16) == 6) = false from by decide, show ((8:Int16) == 7) = false from by decide, show ((8:Int16) == 8) = true from by decide, Bool.false_eq_true, if_false, if_true]
  have e0 : (o == 0) = false := by simpa using h0
  have e1 : (o == 1) = false := by simpa using h1
  have e2 : (o == 2) = false := by simpa using h2
  have e3 : (o == 3) = false := by simpa using h3
  have e4 : (o == 4) = false := by simpa using h4
  have e5 : (o == 5) = false := by simpa using h5
  have e6 : (o == 6) = false := by simpa using h6
  have e7 : (o == 7) = false := by simpa using h7
  have e8 : (o == 8) = false := by simpa using h8
  unfold decomposed192.powexp10 peTail pePow
  simp only [e0, e1, e2, e3, e4, e5, e6, e7, e8, Bool.false_eq_true, if_false]

abbrev PeSt := Option (Gen.decomposed192 × Int8) × Gen.decomposed192 × Int8 × Int64 × Int8 × Gen.decomposed192

def PeInv (d : Gen.decomposed192) (trunc : Int8) (st : PeSt) : Prop :=
  (d.sig.toNat ≠ 0 → st.2.1.sig.toNat ≠ 0 ∧ st.2.2.2.2.2.sig.toNat ≠ 0) ∧
  (st.2.2.1 = trunc ∨ st.2.2.1 = 1) ∧ (st.2.2.2.2.1 = trunc ∨ st.2.2.2.2.1 = 1) ∧
  0 ≤ st.2.2.2.1.toInt

def PePost (d : Gen.decomposed192) (trunc : Int8) (r : Gen.decomposed192 × Int8) : Prop :=
  (d.sig.toNat ≠ 0 → r.1.sig.toNat ≠ 0) ∧ (r.2 = trunc ∨ r.2 = 1)

theorem dinf_ne_zero : Gen.dinf.sig.toNat ≠ 0 := by decide

theorem pe_step1 (p : Int64) (h : 1 < p) :
    ((p - 1) / 2).toNatClampNeg < p.toNatClampNeg ∧
      0 ≤ (((p.toInt - 1).bmod 18446744073709551616).tdiv 2).bmod 18446744073709551616 := by
  rw [Int64.lt_iff_toInt_lt] at h
  have h1 : (1 : Int64).toInt = 1 := rfl
  rw [h1] at h
  have := p.toInt_lt
  have e1 : (p - 1).toInt = p.toInt - 1 := by
    rw [i64_sub_toInt] <;> rw [h1] <;> omega
  have e2 : ((p - 1) / 2).toInt = (p.toInt - 1) / 2 := by
    rw [i64_div_two_toInt _ (by omega), e1]
  constructor
  · show ((p - 1) / 2).toInt.toNat < p.toInt.toNat
    rw [e2]; omega
  · have := Int64.toInt_div (p - 1) 2
    have h2 : (2 : Int64).toInt = 2 := rfl
    rw [Int64.toInt_sub, h1, h2] at this
    rw [show (18446744073709551616 : Nat) = 2^64 from rfl, ← this, e2]; omega

theorem pe_step2 (p : Int64) (h : 1 < p) :
    (p / 2).toNatClampNeg < p.toNatClampNeg ∧
      0 ≤ (p.toInt.tdiv 2).bmod 18446744073709551616 := by
  rw [Int64.lt_iff_toInt_lt] at h
  have h1 : (1 : Int64).toInt = 1 := rfl
  rw [h1] at h
  have := p.toInt_lt
  have e2 : (p / 2).toInt = p.toInt / 2 := i64_div_two_toInt _ (by omega)
  constructor
  · show (p / 2).toInt.toNat < p.toInt.toNat
    rw [e2]; omega
  · have := Int64.toInt_div p 2
    have h2 : (2 : Int64).toInt = 2 := rfl
    rw [h2] at this
    rw [show (18446744073709551616 : Nat) = 2^64 from rfl, ← this, e2]; omega

theorem peTail_triple (d : Gen.decomposed192) (trunc : Int8) (p10 : Int64) (hp : 0 ≤ p10.toInt) :
    ⦃⌜True⌝⦄ peTail d trunc p10 ⦃⇓ r => ⌜PePost d trunc r⌝⦄ := by
  mvcgen [peTail]
  case inv1 => exact fun st => ⟨st.2.2.2.1.toInt.toNat⟩
  case inv2 => exact ⇓ x => match x with
    | .inl st => ⌜st.1 = none ∧ PeInv d trunc st⌝
    | .inr st => ⌜match st.1 with | some v => PePost d trunc v | none => PeInv d trunc st⌝
  all_goals (simp +zetaDelta [PeInv, PePost] at *)
  case vc2 =>
    have := pe_step1 _ ‹(1 : Int64) < _›
    grind
  case vc3 =>
    have := pe_step2 _ ‹(1 : Int64) < _›
    grind
  case vc5 => exact ⟨fun h => ⟨h, by decide⟩, hp⟩
  all_goals (have := dinf_ne_zero; grind)
end

@[spec] theorem d192_powexp10_triple (d : Gen.decomposed192) (o : Int16) (trunc : Int8) :
    ⦃⌜True⌝⦄ Gen.decomposed192.powexp10 d o trunc
    ⦃⇓ r => ⌜(d.sig.toNat ≠ 0 → r.1.sig.toNat ≠ 0) ∧ (r.2 = trunc ∨ r.2 = 1)⌝⦄ := by
  rw [powexp10_eq]
  split
  · mvcgen
    simp
  split
  · mvcgen
    exact ⟨fun _ => dinf_ne_zero, Or.inl trivial⟩
  · have hp : 0 ≤ (pePow o).toInt := by
      unfold pePow
      split_ifs <;> decide
    exact peTail_triple d trunc _ hp

theorem d192_powexp10_total (d : Gen.decomposed192) (o : Int16) (trunc : Int8) :
    ∃ r, Gen.decomposed192.powexp10 d o trunc = .ok r ∧
      (d.sig.toNat ≠ 0 → r.1.sig.toNat ≠ 0) ∧ (r.2 = trunc ∨ r.2 = 1) :=
  ok_of_triple (d192_powexp10_triple d o trunc)

example : ∃ r, Gen.decomposed192.powexp10 Gen.ln10 7 0 = .ok r ∧ r.1.sig.toNat ≠ 0 := by
  obtain ⟨r, h, h1, _⟩ := d192_powexp10_total Gen.ln10 7 0
  exact ⟨r, h, h1 (by decide)⟩

end D128.Proofs.Total
