/-
  D128/Proofs/PowLadderTen.lean — property C18, the power-of-ten shortcut of `Gen.Decimal.PowWithMode`
  (stages `pow10Exact`, `pow10Path`, `byK` of D128/Proofs/PowCode.lean), code level.
  x = ±10^K (stripped coefficient 1), y = Y a positive integer (stripped exponent ≥ bias): the result
  denotes `Spec.flushOrRoundS m neg 1 (K·Y)` — exactly 10^(K·Y) when that is a member of the format,
  the infinity above the range, the m-rounding below `Emin` and the signed zero below 10^(Emin-1).
  Every mode byte: no panic; the value statement needs a valid mode byte only because
  `Spec.flushOrRoundS` takes a `Spec.Mode`.

  Provided (namespace `PowPf`):
  * `Shape`, `pow10_shape`  : `flushOrRoundS m b 1 T` is, for T ≠ Emin − 1, independent of the mode and its
                               magnitude is independent of the sign `b`
  * `post_transport`        : the post-condition of `reduce128` called with the sign of x gives the
                               post-condition for the sign of the result (the Go code passes `dNeg`, not `neg`)
  * `mul_bound`             : |a·w| ≤ A·W
  * `exp64_toInt`           : the 64-bit exponent computation `int64(dExp-bias)*p10*int64(oSig[0]) + bias` is exact
  * `pow10Exact_spec`       : the branch through `reduce128`
  * `byK_spec`              : the early saturation `1 / 0 / Inf` is right whenever Y ≥ 12323
  * `oSig_small_iff`, `pow10Path_mid` : the guard `oSig[1] != 0 || oSig[0] > 12322` and the `switch` on `oExp`
  * `even_not_6177`, `sign_ok` : K·Y ≠ −6177 for even Y, hence `neg = dNeg` or K·Y ≠ Emin − 1
  * `pow10Path_spec`        : the whole shortcut
-/
import D128.Proofs.PowLadderParity
import D128.Proofs.NewLdexpLdexp
import D128.Proofs.TotalReduce192

set_option autoImplicit false
set_option maxRecDepth 8192
set_option linter.unusedVariables false
set_option linter.unusedSimpArgs false

namespace PowPf
open Gen Sp Spec
local notation "𝔳[" d "]" => Spec.interp (Gen.Decimal.lo d) (Gen.Decimal.hi d)

/-! ## the specification at a power of ten -/

/-- either the infinity of the given sign for both signs, or one magnitude for both signs -/
def Shape (F : Bool → Val) : Prop :=
  (∀ b, F b = .inf b) ∨ (∃ c e, ∀ b, (F b).same (.fin b c e) = true)

theorem one_lt : (1 : Rat) < (10 : Rat) ^ (1 : Int) := by norm_num
theorem one_ge : (10 : Rat) ^ (0 : Int) ≤ (1 : Rat) := by norm_num

theorem flush_pow10_tiny (m : Mode) (b : Bool) (T : Int) (h : T ≤ -6178) :
    flushOrRoundS m b 1 T = .fin b 0 Spec.Emin :=
  NL.flushS_tiny_of_lt m b (by norm_num) one_lt (by omega)

theorem flush_pow10_huge (m : Mode) (b : Bool) (T : Int) (h : 6146 ≤ T) :
    flushOrRoundS m b 1 T = .inf b :=
  NL.flushS_huge_of_le m b (by norm_num) one_ge (by omega)

/-- in the range of the format 10^T is returned exactly (as some member of its cohort) -/
theorem flush_pow10_exact (m : Mode) (b : Bool) (T : Int) (h1 : -6176 ≤ T) (h2 : T ≤ 6145) :
    (flushOrRoundS m b 1 T).same (.fin b 1 T) = true := by
  by_cases h : T ≤ 6111
  · have := NL.flushS_exact m b (c := 1) (e := T) (by norm_num) (by unfold Spec.Cmax; norm_num)
      (by unfold Spec.Emin; omega) (by unfold Spec.Emax; omega)
    simpa using this
  · -- 10^T = 10^(T-Emax) · 10^Emax with T - Emax ≤ 34
    obtain ⟨E, hE⟩ : ∃ E : Int, E = 6111 := ⟨_, rfl⟩
    have hj : T = ((T - E).toNat : Int) + E := by omega
    have hj34 : (T - E).toNat ≤ 34 := by omega
    generalize (T - E).toNat = j at *
    have hc : 10 ^ j ≤ Spec.Cmax :=
      le_trans (Nat.pow_le_pow_right (by norm_num) hj34) SpecRound.Cmax_lower
    have h3 := NL.flushS_exact m b (c := 10 ^ j) (e := E) (by positivity) hc
      (by unfold Spec.Emin; omega) (by unfold Spec.Emax; omega)
    have e1 : flushOrRoundS m b 1 T = flushOrRoundS m b ((10 ^ j : Nat) : Rat) E := by
      rw [SpecRound.flushOrRoundS_eq m b 1 (by norm_num), SpecRound.flushOrRoundS_eq m b _ (by positivity)]
      congr 1
      rw [hj, zpow_add₀ (by norm_num : (10 : Rat) ≠ 0), zpow_natCast]
      push_cast; ring
    rw [e1]
    refine NL.same_trans h3 ?_
    simp only [Val.same, beq_self_eq_true, Bool.true_and, beq_iff_eq]
    have := mag_strip 1 j E
    rw [one_mul] at this
    rw [this, hj]
    unfold Spec.mag
    rw [SpecRound.pow10_eq_zpow]
    push_cast; ring_nf

theorem pow10_shape (m : Mode) (T : Int) (hT : T ≠ -6177) : Shape (fun b => flushOrRoundS m b 1 T) := by
  by_cases h1 : T ≤ -6178
  · right; refine ⟨0, Spec.Emin, fun b => ?_⟩
    show (flushOrRoundS m b 1 T).same _ = true
    rw [flush_pow10_tiny m b T h1]; exact same_refl _
  · by_cases h2 : 6146 ≤ T
    · left; intro b; exact flush_pow10_huge m b T h2
    · right; exact ⟨1, T, fun b => flush_pow10_exact m b T (by omega) (by omega)⟩

/-- the post-condition of the rounding kernel, transported from the sign `a` to the sign `b` -/
theorem post_transport (F : Bool → Val) (hF : Shape F) (a b : Bool) (sig : Nat) (exp : Int)
    (h : if exp > 12287 then F a = .inf a
         else sig ≤ Spec.Cmax ∧ 0 ≤ exp ∧ (F a).same (.fin a sig (exp - 6176)) = true) :
    if exp > 12287 then F b = .inf b
    else sig ≤ Spec.Cmax ∧ 0 ≤ exp ∧ (F b).same (.fin b sig (exp - 6176)) = true := by
  rcases hF with hinf | ⟨c, e, hfin⟩
  · by_cases hc : exp > 12287
    · rw [if_pos hc]; exact hinf b
    · rw [if_neg hc, hinf a] at h
      exact absurd h.2.2 (by simp [Val.same])
  · by_cases hc : exp > 12287
    · rw [if_pos hc] at h
      have := hfin a
      rw [h] at this
      exact absurd this (by simp [Val.same])
    · rw [if_neg hc] at h ⊢
      refine ⟨h.1, h.2.1, ?_⟩
      have h1 := hfin a
      have h2 := hfin b
      have h3 : (Val.fin a c e).same (.fin a sig (exp - 6176)) = true := by
        rw [NL.same_symm] at h1; exact NL.same_trans h1 h.2.2
      have h4 : (Val.fin b c e).same (.fin b sig (exp - 6176)) = true := by
        simp only [Val.same, beq_self_eq_true, Bool.true_and] at h3 ⊢; exact h3
      exact NL.same_trans h2 h4

/-! ## the exponent computation -/

theorem mul_bound (a w : Int) (A W : Nat) (ha : |a| ≤ (A : Int)) (hw0 : 0 ≤ w) (hw : w ≤ (W : Int)) :
    |a * w| ≤ ((A * W : Nat) : Int) := by
  rw [abs_mul, abs_of_nonneg hw0]
  push_cast
  exact mul_le_mul ha hw hw0 (by omega)

theorem u64_conv_i64 (w : UInt64) (h : w.toNat < 2 ^ 63) : (Go.conv w : Int64).toInt = w.toNat := by
  show (Int64.ofInt (w.toNat : Int)).toInt = _
  rw [Int64.toInt_ofInt]
  apply Int.bmod_eq_of_le <;> simp only [Int64.size, Int.reducePow, Nat.reducePow] at * <;> omega

/-- `int64(dExp-exponentBias)*p10*int64(oSig[0]) + exponentBias` without wrap-around -/
theorem exp64_toInt (dExp : Int16) (p10 : Int64) (w : UInt64) (P : Nat) (hP : p10.toInt = P)
    (hP7 : P ≤ 10000000) (hd0 : 0 ≤ dExp.toInt) (hd1 : dExp.toInt ≤ 12400) (hw : w.toNat ≤ 12322) :
    ((((Go.conv (dExp - (6176 : Int16)) : Int64) * p10) * (Go.conv w : Int64)) + (6176 : Int64)).toInt =
      (dExp.toInt - 6176) * P * w.toNat + 6176 := by
  have e6 : (6176 : Int16).toInt = 6176 := by decide
  have e6' : (6176 : Int64).toInt = 6176 := by decide
  have hK : (dExp - (6176 : Int16)).toInt = dExp.toInt - 6176 := by
    rw [i16_sub _ _ (by rw [e6]; omega) (by rw [e6]; omega), e6]
  have hKabs : |dExp.toInt - 6176| ≤ ((6300 : Nat) : Int) := by
    rw [abs_le]; constructor <;> push_cast <;> omega
  have b1 := mul_bound (dExp.toInt - 6176) P 6300 10000000 hKabs (by omega) (by exact_mod_cast hP7)
  have b2 := mul_bound ((dExp.toInt - 6176) * P) w.toNat (6300 * 10000000) 12322 b1 (by omega)
    (by exact_mod_cast hw)
  rw [abs_le] at b1 b2
  push_cast at b1 b2
  have m1 : ((Go.conv (dExp - (6176 : Int16)) : Int64) * p10).toInt = (dExp.toInt - 6176) * P := by
    rw [Int64.toInt_mul, FrexpPf.i16_conv_i64, hK, hP]
    exact FrexpPf.i64_bmod _ (by simp only [Int.reducePow]; omega) (by simp only [Int.reducePow]; omega)
  have m2 : (((Go.conv (dExp - (6176 : Int16)) : Int64) * p10) * (Go.conv w : Int64)).toInt =
      (dExp.toInt - 6176) * P * w.toNat := by
    rw [Int64.toInt_mul, m1, u64_conv_i64 w (by omega)]
    exact FrexpPf.i64_bmod _ (by simp only [Int.reducePow]; omega) (by simp only [Int.reducePow]; omega)
  rw [Int64.toInt_add, m2, e6']
  exact FrexpPf.i64_bmod _ (by simp only [Int.reducePow]; omega) (by simp only [Int.reducePow]; omega)

/-! ## the branch through `reduce128` -/

theorem pow10Exact_spec (rm : UInt8) (dNeg neg : Bool) (oSig dSig : U128) (dExp : Int16) (p10 : Int64)
    (P : Nat) (hP : p10.toInt = P) (hP7 : P ≤ 10000000) (hd0 : 0 ≤ dExp.toInt) (hd1 : dExp.toInt ≤ 12400)
    (hw : oSig.w0.toNat ≤ 12322) (hdS : dSig.toNat = 1)
    (hsign : neg = dNeg ∨ (dExp.toInt - 6176) * P * oSig.w0.toNat ≠ -6177) :
    ∃ r, pow10Exact rm dNeg neg oSig dSig dExp p10 = .ok r ∧
      ∀ m, Spec.Mode.ofNat? rm.toNat = some m →
        (𝔳[r]).same (flushOrRoundS m neg 1 ((dExp.toInt - 6176) * P * oSig.w0.toNat)) = true := by
  unfold pow10Exact
  have hE := exp64_toInt dExp p10 oSig.w0 P hP hP7 hd0 hd1 hw
  generalize ((((Go.conv (dExp - (6176 : Int16)) : Int64) * p10) * (Go.conv oSig.w0 : Int64)) + (6176 : Int64)) = e64 at *
  generalize hT : (dExp.toInt - 6176) * P * oSig.w0.toNat = T at *
  have l3 : (-35 : Int64).toInt = -35 := by decide
  have l4 : (12322 : Int64).toInt = 12322 := by decide
  by_cases h3 : e64.toInt < -35
  · rw [if_pos ((NL.i64_lt_lit _ _).2 (by rw [l3]; exact h3))]
    refine ⟨_, rfl, fun m hm => ?_⟩
    rw [Enc.interp_zero, flush_pow10_tiny m neg T (by omega)]
    exact Sp.same_zero _ _ _
  · rw [if_neg (fun h => h3 (by have := (NL.i64_lt_lit _ _).1 h; rwa [l3] at this))]
    by_cases h4 : 12322 < e64.toInt
    · rw [if_pos ((NL.i64_gt_lit _ _).2 (by rw [l4]; exact h4))]
      refine ⟨_, rfl, fun m hm => ?_⟩
      rw [Enc.interp_inf, flush_pow10_huge m neg T (by omega)]
      exact Sp.same_refl _
    · rw [if_neg (fun h => h4 (by have := (NL.i64_gt_lit _ _).1 h; rwa [l4] at this))]
      have hE16 : (Go.conv e64 : Int16).toInt = e64.toInt :=
        FrexpPf.i64_conv_i16 e64 (by simp only [Int.reducePow]; omega) (by simp only [Int.reducePow]; omega)
      obtain ⟨x, hx⟩ := D128.Proofs.Total.reduce128_total rm dNeg dSig (Go.conv e64 : Int16) 0
        (Or.inl (by omega))
      rw [hx]
      refine ⟨if decide (x.2 > (12287 : Int16)) = true then Gen.inf neg else Gen.compose neg x.1 x.2,
        by simp only [RK.ok_bind]; split <;> rfl, fun m hm => ?_⟩
      obtain ⟨s', e', hr, hpost⟩ := reduce128_correct rm m dNeg dSig (Go.conv e64 : Int16) 0 0 hm
        (by rw [hE16]; omega) (by rw [hE16]; omega) (Or.inl ⟨by decide, rfl⟩)
        (by rw [add_zero, hdS]; norm_num)
        (fun h => absurd h (by decide)) (fun h => absurd h (by decide)) (fun h => absurd h (by decide))
      rw [hx] at hr
      have hxe : x = (s', e') := by injection hr
      subst hxe
      have e1 : (Go.conv e64 : Int16).toInt - 6176 = T := by rw [hE16]; omega
      rw [add_zero, hdS, e1, Nat.cast_one] at hpost
      have hpost' : if e'.toInt > 12287 then flushOrRoundS m neg 1 T = .inf neg
          else s'.toNat ≤ Spec.Cmax ∧ 0 ≤ e'.toInt ∧
            (flushOrRoundS m neg 1 T).same (.fin neg s'.toNat (e'.toInt - 6176)) = true := by
        rcases hsign with hs | hs
        · rw [hs]; exact hpost
        · exact post_transport (fun b => flushOrRoundS m b 1 T) (pow10_shape m T hs) dNeg neg _ _ hpost
      obtain ⟨r, hr1, hr2⟩ := MQ.finish (flushOrRoundS m neg 1 T) neg (s', e') hpost'
      have : r = if decide (e' > (12287 : Int16)) = true then Gen.inf neg else Gen.compose neg s' e' := by
        by_cases hc : decide (e' > (12287 : Int16)) = true
        · rw [if_pos hc] at hr1 ⊢; injection hr1 with hr1; exact hr1.symm
        · rw [if_neg hc] at hr1 ⊢; injection hr1 with hr1; exact hr1.symm
      rw [← this]; exact hr2

/-! ## the early saturation -/

theorem byK_spec (neg : Bool) (dExp : Int16) (Y : Nat) (hY : 12323 ≤ Y) :
    ∃ r, byK neg dExp = .ok r ∧
      ∀ m : Mode, (𝔳[r]).same (flushOrRoundS m neg 1 ((dExp.toInt - 6176) * Y)) = true := by
  unfold byK
  have e6 : (6176 : Int16).toInt = 6176 := by decide
  simp only [i16_beq, i16_lt_iff, e6]
  by_cases h1 : dExp.toInt = 6176
  · simp only [h1, decide_true, if_true]
    refine ⟨_, rfl, fun m => ?_⟩
    rw [Enc.interp_one, NL.same_symm]
    simpa using flush_pow10_exact m neg 0 (by omega) (by omega)
  · simp only [h1, decide_false, if_false, Bool.false_eq_true]
    have hYi : (12323 : Int) ≤ (Y : Int) := by exact_mod_cast hY
    by_cases h2 : dExp.toInt < 6176
    · simp only [h2, decide_true, if_true]
      refine ⟨_, rfl, fun m => ?_⟩
      have : (dExp.toInt - 6176) * (Y : Int) ≤ -6178 := by nlinarith
      rw [Enc.interp_zero, flush_pow10_tiny m neg _ this]
      exact Sp.same_zero _ _ _
    · simp only [h2, decide_false, if_false, Bool.false_eq_true]
      refine ⟨_, rfl, fun m => ?_⟩
      have : 6146 ≤ (dExp.toInt - 6176) * (Y : Int) := by
        have hK : (1 : Int) ≤ dExp.toInt - 6176 := by omega
        calc (6146 : Int) ≤ 1 * 12323 := by norm_num
          _ ≤ (dExp.toInt - 6176) * (Y : Int) := mul_le_mul hK hYi (by norm_num) (by omega)
      rw [Enc.interp_inf, flush_pow10_huge m neg _ this]
      exact Sp.same_refl _

/-! ## the whole shortcut -/

theorem oSig_small_iff (oSig : U128) :
    ((oSig.w1 != (0 : UInt64)) || (decide (oSig.w0 > (12322 : UInt64)))) = decide (12322 < oSig.toNat) := by
  rw [RK.u64_ne_zero_iff, Bool.eq_iff_iff]
  simp only [Bool.or_eq_true, decide_eq_true_eq, gt_iff_lt, UInt64.lt_iff_toNat_lt]
  simp only [U128.toNat, Nat.reducePow]
  have : (12322 : UInt64).toNat = 12322 := rfl
  rw [this]
  have := oSig.w0.toNat_lt
  constructor
  · rintro (h | h) <;> omega
  · intro h
    by_cases h1 : oSig.w1.toNat = 0
    · right; omega
    · left; exact h1

/-- a small integer exponent: the `switch` selects the power of ten `10^(oExp - bias)` -/
theorem pow10Path_mid (rm : UInt8) (dNeg neg : Bool) (oSig : U128) (oExp : Int16) (dSig : U128)
    (dExp : Int16) (hsmall : oSig.toNat ≤ 12322) (i : Nat) (hi : i ≤ 7) (hoE : oExp.toInt = 6176 + i) :
    ∃ p10 : Int64, p10.toInt = ((10 ^ i : Nat) : Int) ∧
      pow10Path rm dNeg neg oSig oExp dSig dExp = pow10Exact rm dNeg neg oSig dSig dExp p10 := by
  unfold pow10Path
  have h0 : ¬ 12322 < oSig.toNat := by omega
  rw [oSig_small_iff, decide_eq_false h0]
  simp only [Bool.false_eq_true, if_false, i16_beq, hoE]
  have e0 : (6176 : Int16).toInt = 6176 := by decide
  have e1 : (6177 : Int16).toInt = 6177 := by decide
  have e2 : (6178 : Int16).toInt = 6178 := by decide
  have e3 : (6179 : Int16).toInt = 6179 := by decide
  have e4 : (6180 : Int16).toInt = 6180 := by decide
  have e5 : (6181 : Int16).toInt = 6181 := by decide
  have e6 : (6182 : Int16).toInt = 6182 := by decide
  have e7 : (6183 : Int16).toInt = 6183 := by decide
  rw [e0, e1, e2, e3, e4, e5, e6, e7]
  interval_cases i
  · exact ⟨1, by decide, by simp⟩
  · exact ⟨10, by decide, by simp⟩
  · exact ⟨100, by decide, by simp⟩
  · exact ⟨1000, by decide, by simp⟩
  · exact ⟨10000, by decide, by simp⟩
  · exact ⟨100000, by decide, by simp⟩
  · exact ⟨1000000, by decide, by simp⟩
  · exact ⟨10000000, by decide, by simp⟩

/-- K·Y = −6177 forces Y odd (6177 is odd) -/
theorem even_not_6177 (K : Int) (Y : Nat) (hY : Y % 2 = 0) : K * (Y : Int) ≠ -6177 := by
  intro h
  have h2 : (K * (Y : Int)) % 2 = 0 := by
    have : ((Y : Int)) % 2 = 0 := by omega
    rw [Int.mul_emod, this]; simp
  omega

/-- the sign handed to `reduce128` (that of x) is harmless: it differs from the sign of the result only
    for an even Y, and then K·Y ≠ Emin − 1 -/
theorem sign_ok (dNeg : Bool) (oSig : U128) (oExp : Int16) (K : Int) (ho0 : 6176 ≤ oExp.toInt) :
    signOf dNeg oSig oExp = dNeg ∨
      K * ((oSig.toNat * 10 ^ (oExp.toInt - 6176).toNat : Nat) : Int) ≠ -6177 := by
  unfold signOf
  cases dNeg
  · left; rfl
  · by_cases h1 : oExp.toInt = 6176
    · by_cases h2 : oSig.toNat % 2 = 1
      · left; simp [h1, h2]
      · right
        apply even_not_6177
        rw [h1]; simp; omega
    · right
      apply even_not_6177
      exact even_mul_pow _ _ (by omega)

theorem pow10Path_spec (rm : UInt8) (dNeg : Bool) (oSig : U128) (oExp : Int16) (dSig : U128)
    (dExp : Int16) (hdS : dSig.toNat = 1) (hd0 : 0 ≤ dExp.toInt) (hd1 : dExp.toInt ≤ 12400)
    (ho0 : 6176 ≤ oExp.toInt) (hos : oSig.toNat ≠ 0) :
    ∃ r, pow10Path rm dNeg (signOf dNeg oSig oExp) oSig oExp dSig dExp = .ok r ∧
      ∀ m, Spec.Mode.ofNat? rm.toNat = some m →
        (𝔳[r]).same (flushOrRoundS m (signOf dNeg oSig oExp) 1
          ((dExp.toInt - 6176) * ((oSig.toNat * 10 ^ (oExp.toInt - 6176).toNat : Nat) : Int))) = true := by
  have hpos : 1 ≤ 10 ^ (oExp.toInt - 6176).toNat := Nat.one_le_pow _ _ (by norm_num)
  by_cases hbig : 12322 < oSig.toNat
  · -- early saturation on the coefficient
    have hY : 12323 ≤ oSig.toNat * 10 ^ (oExp.toInt - 6176).toNat := by
      calc 12323 ≤ oSig.toNat * 1 := by omega
        _ ≤ _ := Nat.mul_le_mul_left _ hpos
    obtain ⟨r, hr, hv⟩ := byK_spec (signOf dNeg oSig oExp) dExp _ hY
    refine ⟨r, ?_, fun m _ => hv m⟩
    unfold pow10Path
    rw [oSig_small_iff, decide_eq_true hbig, if_pos rfl]; exact hr
  · by_cases hi : oExp.toInt ≤ 6183
    · -- the exact computation
      have hi' : (oExp.toInt - 6176).toNat ≤ 7 := by omega
      have hoE : oExp.toInt = 6176 + ((oExp.toInt - 6176).toNat : Int) := by omega
      generalize (oExp.toInt - 6176).toNat = i at *
      obtain ⟨p10, hp, hpath⟩ := pow10Path_mid rm dNeg (signOf dNeg oSig oExp) oSig oExp dSig dExp
        (by omega) i hi' hoE
      have hw : oSig.toNat = oSig.w0.toNat := by
        have := oSig.w0.toNat_lt
        simp only [U128.toNat] at hbig ⊢; omega
      have hP7 : 10 ^ i ≤ 10000000 := by
        calc 10 ^ i ≤ 10 ^ 7 := Nat.pow_le_pow_right (by norm_num) hi'
          _ = 10000000 := by norm_num
      have hT : (dExp.toInt - 6176) * ((10 ^ i : Nat) : Int) * (oSig.w0.toNat : Int) =
          (dExp.toInt - 6176) * ((oSig.toNat * 10 ^ i : Nat) : Int) := by
        rw [hw]; push_cast; ring
      have hsg := sign_ok dNeg oSig oExp (dExp.toInt - 6176) ho0
      have hi2 : (oExp.toInt - 6176).toNat = i := by omega
      rw [hi2] at hsg
      obtain ⟨r, hr, hv⟩ := pow10Exact_spec rm dNeg (signOf dNeg oSig oExp) oSig dSig dExp p10 (10 ^ i) hp
        hP7 hd0 hd1 (by omega) hdS (by rw [hT]; exact hsg)
      refine ⟨r, by rw [hpath]; exact hr, fun m hm => ?_⟩
      rw [← hT]; exact hv m hm
    · -- the `default` arm: y ≥ 10^8
      have hY : 12323 ≤ oSig.toNat * 10 ^ (oExp.toInt - 6176).toNat := by
        have h8 : 10 ^ 8 ≤ 10 ^ (oExp.toInt - 6176).toNat := Nat.pow_le_pow_right (by norm_num) (by omega)
        calc 12323 ≤ 1 * 10 ^ 8 := by norm_num
          _ ≤ _ := Nat.mul_le_mul (by omega) h8
      obtain ⟨r, hr, hv⟩ := byK_spec (signOf dNeg oSig oExp) dExp _ hY
      refine ⟨r, ?_, fun m _ => hv m⟩
      unfold pow10Path
      rw [oSig_small_iff, decide_eq_false hbig]
      have e0 : (6176 : Int16).toInt = 6176 := by decide
      have e1 : (6177 : Int16).toInt = 6177 := by decide
      have e2 : (6178 : Int16).toInt = 6178 := by decide
      have e3 : (6179 : Int16).toInt = 6179 := by decide
      have e4 : (6180 : Int16).toInt = 6180 := by decide
      have e5 : (6181 : Int16).toInt = 6181 := by decide
      have e6 : (6182 : Int16).toInt = 6182 := by decide
      have e7 : (6183 : Int16).toInt = 6183 := by decide
      simp only [Bool.false_eq_true, if_false, i16_beq, e0, e1, e2, e3, e4, e5, e6, e7]
      have n0 : ¬ oExp.toInt = 6176 := by omega
      have n1 : ¬ oExp.toInt = 6177 := by omega
      have n2 : ¬ oExp.toInt = 6178 := by omega
      have n3 : ¬ oExp.toInt = 6179 := by omega
      have n4 : ¬ oExp.toInt = 6180 := by omega
      have n5 : ¬ oExp.toInt = 6181 := by omega
      have n6 : ¬ oExp.toInt = 6182 := by omega
      have n7 : ¬ oExp.toInt = 6183 := by omega
      simp only [n0, n1, n2, n3, n4, n5, n6, n7, decide_false, Bool.false_eq_true, if_false]
      exact hr

end PowPf
