/-
  D128/Proofs/CohortElemMulCongr.lean — property C19 for the elementary functions: `decomposed192.mul` on two
  pairs of operands of equal values (cohort members).

  `mul` forms the exact 384-bit product `P = d.sig·o.sig` and drops the MINIMAL number `k` of low decimal digits
  with `P / 10^k < 2^192`.  `D192.mul_spec` states this only up to `k = 0 ∨ 2^192/10 ≤ r.sig`, which does not pin
  `k` down (`2^192/10·10 = 2^192 − 6`).  Here the triple is re-proved with the sharp clause
  `k = 0 ∨ 2^192 ≤ P / 10^(k−1)` (`Tr'`), which determines `k` from `P` (`minK_unique`).  For operands of equal
  values (`P' = P·10^j`) either `P ≥ 2^192`: then `k' = k + j` and significand, exponent and flag are identical,
  or `P < 2^192`: then both products are exact.

  Provided (namespace `CohortElem`):
  * `Tr'`, `Tr'.refl`, `Tr'.step`, `Tr'.toTr`, `vc_nz'`, `vc_z'` : sharpened truncation state (cf. `D192.Tr`)
  * `mul_triple'`   : Hoare triple of `Gen.decomposed192.mul` with `Tr'`
  * `mul_sharp`     : `mul d o t = .ok (r, t')`, `r.sig = P / 10^k`, `r.exp = d.exp + o.exp + k` (wrapping),
                      `t' = if 10^k ∣ P then t else 1`, `k = 0 ∨ 2^192 ≤ P / 10^(k−1)`, `k ≤ 58`
  * `minK_unique`   : the two bounds determine `k`
  * `nat_of_val_eq` : `(n:ℚ)·10^e = n'·10^e'`, `e' ≤ e` ⇒ `n' = n·10^(e−e')`
  * `mul_congr`     : operands of equal values: both results identical and inexact (flags `1`), or both exact
                      (value `val d · val o`, flags passed through)
  * `mul_congr_prod`, `mul_congr_full` : the same from `val d · val o = val d' · val o'`; `_full` adds: if the
                      results differ, one significand is the product itself, the other this product times `10^m`
  * `mul_congr1`    : equal incoming flags: equal values, equal flags, and the shape clause of `_full`
  * `mul_congr0`    : the form used by the callers: incoming flags equal ⇒ equal values and equal flags; and
                      `r = r'` unless both are exact
-/
import D128.Proofs.D192Mul
import D128.Proofs.CohortElemBase
set_option autoImplicit false
set_option maxRecDepth 4096
set_option exponentiation.threshold 512
set_option linter.unusedVariables false
open Std.Do D128.Proofs.WordsWide
set_option mvcgen.warning false

namespace CohortElem
open Gen D192

/-- sharpened truncation state: as `D192.Tr`, but recording that the digit dropped last was needed:
`k = 0 ∨ 2^192 ≤ P / 10^(k−1)` -/
def Tr' (P : Nat) (t0 : Int8) (e0 : Int16) (trunc : Int8) (cur : Nat) (exp : Int16) : Prop :=
  ∃ k : Nat, cur = P / 10 ^ k ∧ exp = e0 + Int16.ofNat k ∧
    trunc = (if P % 10 ^ k = 0 then t0 else 1) ∧ (k = 0 ∨ 2 ^ 192 ≤ P / 10 ^ (k - 1))

theorem Tr'.refl (P : Nat) (t0 : Int8) (e0 : Int16) : Tr' P t0 e0 t0 P e0 :=
  ⟨0, by simp, by simp, by simp [Nat.mod_one], Or.inl rfl⟩

theorem sharp_weak {P k : Nat} (hk : k = 0 ∨ 2 ^ 192 ≤ P / 10 ^ (k - 1)) :
    k = 0 ∨ 2 ^ 192 / 10 ≤ P / 10 ^ k := by
  rcases hk with h0 | h0
  · exact Or.inl h0
  · rcases Nat.eq_zero_or_pos k with hk0 | hk0
    · exact Or.inl hk0
    · right
      have e : (10 : Nat) ^ k = 10 ^ (k - 1) * 10 := by rw [← Nat.pow_succ]; congr 1; omega
      rw [e, ← Nat.div_div_eq_div_mul]
      exact Nat.div_le_div_right h0

theorem Tr'.toTr {P : Nat} {t0 : Int8} {e0 : Int16} {trunc : Int8} {cur : Nat} {exp : Int16}
    (h : Tr' P t0 e0 trunc cur exp) : Tr P t0 e0 trunc cur exp := by
  obtain ⟨k, hc, he, ht, hk⟩ := h
  exact ⟨k, hc, he, ht, hc ▸ sharp_weak hk⟩

/-- one pass of a normalising loop: divide by `10^j` a value that is at least `2^192·10^(j-1)` -/
theorem Tr'.step {P : Nat} {t0 : Int8} {e0 : Int16} {trunc : Int8} {cur : Nat} {exp : Int16}
    (j : Nat) (hj : 0 < j) (h : Tr' P t0 e0 trunc cur exp) (hge : 2 ^ 192 * 10 ^ (j - 1) ≤ cur)
    (q r : Nat) (hq : q = cur / 10 ^ j) (hr : r = cur % 10 ^ j) :
    Tr' P t0 e0 (if r = 0 then trunc else 1) q (exp + Int16.ofNat j) := by
  obtain ⟨k, hc, he, ht, _⟩ := h
  refine ⟨k + j, ?_, ?_, ?_, Or.inr ?_⟩
  · rw [hq, hc, Nat.div_div_eq_div_mul, Nat.pow_add]
  · rw [he, Int16.ofNat_add, Int16.add_assoc]
  · have := mod_pow_add P k j
    rw [← hc, ← hr] at this
    by_cases h1 : P % 10 ^ k = 0
    · by_cases h2 : r = 0
      · rw [if_pos h2, if_pos (this.mpr ⟨h1, h2⟩), ht, if_pos h1]
      · rw [if_neg h2, if_neg (fun h => h2 (this.mp h).2)]
    · rw [if_neg (fun h => h1 (this.mp h).1), ht, if_neg h1]; split <;> rfl
  · have e : k + j - 1 = k + (j - 1) := by omega
    rw [e, Nat.pow_add, ← Nat.div_div_eq_div_mul, ← hc,
      Nat.le_div_iff_mul_le (Nat.pow_pos (by norm_num))]
    exact hge

theorem vc_nz' {P : Nat} {t0 : Int8} {e0 : Int16} {trunc : Int8} {exp : Int16} {mb : Nat}
    (j : Nat) (hj : 0 < j) (cur q : Nat) (r : UInt64)
    (hdiv : q = cur / 10 ^ j ∧ r.toNat = cur % 10 ^ j) (hge : 2 ^ 192 * 10 ^ (j - 1) ≤ cur)
    (hinv : mb = cur ∧ Tr' P t0 e0 trunc cur exp) (hnz : ¬ r = 0) :
    q < mb ∧ Tr' P t0 e0 1 q (exp + Int16.ofNat j) := by
  have hpos : 0 < cur := Nat.lt_of_lt_of_le (by positivity) hge
  refine ⟨?_, ?_⟩
  · rw [hinv.1, hdiv.1]
    exact Nat.div_lt_self hpos (Nat.one_lt_pow (by omega) (by norm_num))
  · have := Tr'.step j hj hinv.2 hge q r.toNat hdiv.1 hdiv.2
    rwa [if_neg (by rwa [← u64_eq_zero_iff])] at this

theorem vc_z' {P : Nat} {t0 : Int8} {e0 : Int16} {trunc : Int8} {exp : Int16} {mb : Nat}
    (j : Nat) (hj : 0 < j) (cur q : Nat) (r : UInt64)
    (hdiv : q = cur / 10 ^ j ∧ r.toNat = cur % 10 ^ j) (hge : 2 ^ 192 * 10 ^ (j - 1) ≤ cur)
    (hinv : mb = cur ∧ Tr' P t0 e0 trunc cur exp) (hz : r = 0) :
    q < mb ∧ Tr' P t0 e0 trunc q (exp + Int16.ofNat j) := by
  have hpos : 0 < cur := Nat.lt_of_lt_of_le (by positivity) hge
  refine ⟨?_, ?_⟩
  · rw [hinv.1, hdiv.1]
    exact Nat.div_lt_self hpos (Nat.one_lt_pow (by omega) (by norm_num))
  · have := Tr'.step j hj hinv.2 hge q r.toNat hdiv.1 hdiv.2
    rwa [if_pos (by rwa [← u64_eq_zero_iff])] at this

/-- `decomposed192.mul` with the sharpened truncation state -/
theorem mul_triple' (d o : Gen.decomposed192) (t : Int8) :
    ⦃⌜True⌝⦄ Gen.decomposed192.mul d o t
    ⦃⇓ x => ⌜Tr' (d.sig.toNat * o.sig.toNat) t (d.exp + o.exp) x.2 x.1.sig.toNat x.1.exp⌝⦄ := by
  mvcgen [Gen.decomposed192.mul]
  case inv1 => exact fun st => ⟨st.2.1.toNat⟩
  case inv2 => exact ⇓ x => match x with
    | .inl st => ⌜Tr' (d.sig.toNat * o.sig.toNat) t (d.exp + o.exp) st.1 st.2.1.toNat st.2.2⌝
    | .inr st => ⌜Tr' (d.sig.toNat * o.sig.toNat) t (d.exp + o.exp) st.1 st.2.1.toNat st.2.2 ∧ st.2.1.w5 = 0⌝
  case inv3 => exact fun st => ⟨st.2.1.toNat⟩
  case inv4 => exact ⇓ x => match x with
    | .inl st => ⌜Tr' (d.sig.toNat * o.sig.toNat) t (d.exp + o.exp) st.1 st.2.1.toNat st.2.2 ∧ st.2.1.w5 = 0⌝
    | .inr st => ⌜Tr' (d.sig.toNat * o.sig.toNat) t (d.exp + o.exp) st.1 st.2.1.toNat st.2.2 ∧ st.2.1.w5 = 0 ∧ st.2.1.w4 = 0⌝
  case inv5 | inv7 | inv9 => exact fun st => ⟨st.2.2.toNat⟩
  case inv6 | inv8 => exact ⇓ x => match x with
    | .inl st => ⌜Tr' (d.sig.toNat * o.sig.toNat) t (d.exp + o.exp) st.1 st.2.2.toNat st.2.1⌝
    | .inr st => ⌜Tr' (d.sig.toNat * o.sig.toNat) t (d.exp + o.exp) st.1 st.2.2.toNat st.2.1⌝
  case inv10 => exact ⇓ x => match x with
    | .inl st => ⌜Tr' (d.sig.toNat * o.sig.toNat) t (d.exp + o.exp) st.1 st.2.2.toNat st.2.1⌝
    | .inr st => ⌜Tr' (d.sig.toNat * o.sig.toNat) t (d.exp + o.exp) st.1 st.2.2.toNat st.2.1 ∧ st.2.2.w3 = 0⌝
  all_goals (simp +zetaDelta at *)
  case vc1 => rename_i hdiv hg hinv hnz; exact vc_nz' 19 (by norm_num) _ _ _ hdiv (U384.ge_of_w5 _ hg) hinv hnz
  case vc2 => rename_i hdiv hg hinv hz; exact vc_z' 19 (by norm_num) _ _ _ hdiv (U384.ge_of_w5 _ hg) hinv hz
  case vc3 => rename_i hz hinv; exact ⟨hinv.2, hz⟩
  case vc4 => rw [U192_mul_toNat]; exact Tr'.refl _ _ _
  case vc5 =>
    rename_i hdiv hg hinv hnz
    have := vc_nz' 19 (by norm_num) _ _ _ hdiv (U384.ge_of_w4 _ hg) ⟨hinv.1, hinv.2.1⟩ hnz
    exact ⟨this.1, this.2, U384.w5_zero_of_le _ _ (div_le_of_eq hdiv.1) hinv.2.2⟩
  case vc6 =>
    rename_i hdiv hg hinv hz
    have := vc_z' 19 (by norm_num) _ _ _ hdiv (U384.ge_of_w4 _ hg) ⟨hinv.1, hinv.2.1⟩ hz
    exact ⟨this.1, this.2, U384.w5_zero_of_le _ _ (div_le_of_eq hdiv.1) hinv.2.2⟩
  case vc7 => rename_i hz hinv; exact ⟨hinv.2.1, hinv.2.2, hz⟩
  case vc8 => rename_i h; exact h
  case vc9 => rename_i hdiv hg hinv hnz; exact vc_nz' 8 (by norm_num) _ _ _ hdiv (U256.ge_of_w3_1e8 _ hg) hinv hnz
  case vc10 => rename_i hdiv hg hinv hz; exact vc_z' 8 (by norm_num) _ _ _ hdiv (U256.ge_of_w3_1e8 _ hg) hinv hz
  case vc11 | vc15 => rename_i hinv; exact hinv.2
  case vc12 => rename_i h; rw [U384.toNat_low4 _ h.2.1 h.2.2]; exact h.1
  case vc13 => rename_i hdiv hg hinv hnz; exact vc_nz' 4 (by norm_num) _ _ _ hdiv (U256.ge_of_w3_1e4 _ hg) hinv hnz
  case vc14 => rename_i hdiv hg hinv hz; exact vc_z' 4 (by norm_num) _ _ _ hdiv (U256.ge_of_w3_1e4 _ hg) hinv hz
  case vc16 | vc20 => rename_i h; exact h
  case vc17 => rename_i hdiv hg hinv hnz; exact vc_nz' 1 (by norm_num) _ _ _ hdiv (U256.ge_of_w3 _ hg) hinv hnz
  case vc18 => rename_i hdiv hg hinv hz; exact vc_z' 1 (by norm_num) _ _ _ hdiv (U256.ge_of_w3 _ hg) hinv hz
  case vc19 => rename_i hz hinv; exact ⟨hinv.2, hz⟩
  case vc21 => rename_i h; rw [U256.toNat_low3 _ h.2]; exact h.1

/-- `decomposed192.mul`, all inputs, with the MINIMAL number of dropped digits -/
theorem mul_sharp (d o : Gen.decomposed192) (t : Int8) :
    ∃ r t' k, Gen.decomposed192.mul d o t = .ok (r, t') ∧ k ≤ 58 ∧
      r.sig.toNat = d.sig.toNat * o.sig.toNat / 10 ^ k ∧
      r.exp = d.exp + o.exp + Int16.ofNat k ∧
      t' = (if d.sig.toNat * o.sig.toNat % 10 ^ k = 0 then t else 1) ∧
      (k = 0 ∨ 2 ^ 192 ≤ d.sig.toNat * o.sig.toNat / 10 ^ (k - 1)) := by
  obtain ⟨⟨r, t'⟩, hr, k, h1, h2, h3, h4⟩ := ok_of_triple (mul_triple' d o t)
  exact ⟨r, t', k, hr, Tr.k_le' 58 (prod_lt _ _) (sharp_weak h4), h1, h2, h3, h4⟩

/-- the two bounds determine the number of dropped digits -/
theorem minK_unique {P B k k' : Nat} (h1 : P / 10 ^ k < B) (h2 : k = 0 ∨ B ≤ P / 10 ^ (k - 1))
    (h1' : P / 10 ^ k' < B) (h2' : k' = 0 ∨ B ≤ P / 10 ^ (k' - 1)) : k = k' := by
  have key : ∀ a b : Nat, P / 10 ^ a < B → (b = 0 ∨ B ≤ P / 10 ^ (b - 1)) → ¬ a < b := by
    intro a b ha hb hlt
    rcases hb with hb | hb
    · omega
    · have : P / 10 ^ (b - 1) ≤ P / 10 ^ a :=
        Nat.div_le_div_left (Nat.pow_le_pow_right (by norm_num) (by omega)) (by positivity)
      omega
  have := key k k' h1 h2'
  have := key k' k h1' h2
  omega

/-- cohort members in ℕ -/
theorem nat_of_val_eq {n n' : Nat} {e e' : Int} (h : (n : ℚ) * (10 : ℚ) ^ e = (n' : ℚ) * (10 : ℚ) ^ e')
    (he : e' ≤ e) : n' = n * 10 ^ (e - e').toNat := by
  have hb : (10 : ℚ) ^ e = (10 : ℚ) ^ e' * (10 : ℚ) ^ ((e - e').toNat : Int) := by
    rw [← zpow_add₀ (by norm_num)]; congr 1; omega
  have hp : (0 : ℚ) < (10 : ℚ) ^ e' := zpow_pos (by norm_num) _
  rw [hb, zpow_natCast, ← mul_assoc, mul_comm (n : ℚ) _, mul_assoc, mul_comm (n' : ℚ) _] at h
  have h2 := mul_left_cancel₀ hp.ne' h
  exact_mod_cast h2.symm

/-- an exact truncation keeps the value -/
theorem exact_val {r : decomposed192} {P k : Nat} {E : Int} (hs : r.sig.toNat = P / 10 ^ k)
    (he : r.exp.toInt = E + k) (hz : P % 10 ^ k = 0) : val r = (P : ℚ) * (10 : ℚ) ^ E := by
  unfold val
  rw [hs, he]
  exact (trunc_val P k E).2.2.mpr hz

theorem mul_pow_mod (P k j : Nat) : (P * 10 ^ j) % 10 ^ (k + j) = 0 ↔ P % 10 ^ k = 0 := by
  rw [Nat.pow_add, Nat.mul_mod_mul_right]
  have : 0 < 10 ^ j := by positivity
  constructor
  · intro h
    rcases Nat.mul_eq_zero.mp h with h | h
    · exact h
    · omega
  · intro h; rw [h, Nat.zero_mul]

/-- `mul_congr`, one orientation of the exponents -/
theorem mul_congr_aux (d d' o o' : decomposed192) (t t' : Int8)
    (hv : val d * val o = val d' * val o')
    (h1 : -16000 ≤ d.exp.toInt ∧ d.exp.toInt ≤ 16000) (h2 : -16000 ≤ o.exp.toInt ∧ o.exp.toInt ≤ 16000)
    (h1' : -16000 ≤ d'.exp.toInt ∧ d'.exp.toInt ≤ 16000)
    (h2' : -16000 ≤ o'.exp.toInt ∧ o'.exp.toInt ≤ 16000)
    (hle : d'.exp.toInt + o'.exp.toInt ≤ d.exp.toInt + o.exp.toInt) :
    ∃ r t1 r' t1', decomposed192.mul d o t = .ok (r, t1) ∧ decomposed192.mul d' o' t' = .ok (r', t1') ∧
      ((r = r' ∧ t1 = 1 ∧ t1' = 1) ∨
       (val r = val d * val o ∧ val r' = val d * val o ∧ t1 = t ∧ t1' = t')) ∧
      (r = r' ∨ ∃ m : Nat, r.sig.toNat = d.sig.toNat * o.sig.toNat ∧
        r'.sig.toNat = d.sig.toNat * o.sig.toNat * 10 ^ m) := by
  obtain ⟨r, t1, k, hr, hk, hs, he, ht, hm⟩ := mul_sharp d o t
  obtain ⟨r', t1', k', hr', hk', hs', he', ht', hm'⟩ := mul_sharp d' o' t'
  refine ⟨r, t1, r', t1', hr, hr', ?_⟩
  have hvv := hv
  rw [val_mul, val_mul] at hvv
  have hP := nat_of_val_eq hvv hle
  obtain ⟨j, hj⟩ : ∃ j : Nat, j = (d.exp.toInt + o.exp.toInt - (d'.exp.toInt + o'.exp.toInt)).toNat := ⟨_, rfl⟩
  rw [← hj] at hP
  have hjE : (j : Int) = d.exp.toInt + o.exp.toInt - (d'.exp.toInt + o'.exp.toInt) := by omega
  -- the exponents do not wrap
  have hE : (d.exp + o.exp).toInt = d.exp.toInt + o.exp.toInt :=
    Int16.toInt_add_of _ _ (by omega) (by omega)
  have hE' : (d'.exp + o'.exp).toInt = d'.exp.toInt + o'.exp.toInt :=
    Int16.toInt_add_of _ _ (by omega) (by omega)
  have hkk : (Int16.ofNat k).toInt = k := Int16.toInt_ofNat_of_lt (by omega)
  have hkk' : (Int16.ofNat k').toInt = k' := Int16.toInt_ofNat_of_lt (by omega)
  have hre : r.exp.toInt = d.exp.toInt + o.exp.toInt + k := by
    rw [he, Int16.toInt_add_of] <;> rw [hE, hkk] <;> omega
  have hre' : r'.exp.toInt = d'.exp.toInt + o'.exp.toInt + k' := by
    rw [he', Int16.toInt_add_of] <;> rw [hE', hkk'] <;> omega
  have hlt : d.sig.toNat * o.sig.toNat / 10 ^ k < 2 ^ 192 := hs ▸ U192.toNat_lt r.sig
  have hlt' : d'.sig.toNat * o'.sig.toNat / 10 ^ k' < 2 ^ 192 := hs' ▸ U192.toNat_lt r'.sig
  generalize hPd : d.sig.toNat * o.sig.toNat = P at *
  generalize hPd' : d'.sig.toNat * o'.sig.toNat = P' at *
  rw [and_comm]
  have hV : val d * val o = (P : ℚ) * (10 : ℚ) ^ (d.exp.toInt + o.exp.toInt) := by rw [val_mul, hPd]
  have hV' : val d * val o = (P' : ℚ) * (10 : ℚ) ^ (d'.exp.toInt + o'.exp.toInt) := by
    rw [hv, val_mul, hPd']
  by_cases hbig : 2 ^ 192 ≤ P
  · -- the same digits are dropped
    have hk0 : k ≠ 0 := by
      intro h0; rw [h0, Nat.pow_zero, Nat.div_one] at hlt; omega
    have hkj : k' = k + j := by
      refine minK_unique hlt' hm' ?_ (Or.inr ?_)
      · rw [hP, Nat.pow_add, Nat.mul_comm (10 ^ k) _, ← Nat.div_div_eq_div_mul,
          Nat.mul_div_cancel _ (by positivity)]
        exact hlt
      · have e : k + j - 1 = (k - 1) + j := by omega
        rw [hP, e, Nat.pow_add, Nat.mul_comm (10 ^ (k - 1)) _, ← Nat.div_div_eq_div_mul,
          Nat.mul_div_cancel _ (by positivity)]
        exact hm.resolve_left hk0
    have hrr : r = r' := by
      refine d192_ext ?_ ?_
      · rw [hs, hs', hkj, hP, Nat.pow_add, Nat.mul_comm (10 ^ k) _, ← Nat.div_div_eq_div_mul,
          Nat.mul_div_cancel _ (by positivity)]
      · rw [hre, hre', hkj]; push_cast; omega
    have hmod : P' % 10 ^ k' = 0 ↔ P % 10 ^ k = 0 := by rw [hkj, hP]; exact mul_pow_mod P k j
    refine ⟨Or.inl hrr, ?_⟩
    by_cases hz : P % 10 ^ k = 0
    · right
      have hvr : val r = val d * val o := by rw [hV]; exact exact_val hs hre hz
      refine ⟨hvr, hrr ▸ hvr, ?_, ?_⟩
      · rw [ht, if_pos hz]
      · rw [ht', if_pos (hmod.mpr hz)]
    · left
      refine ⟨hrr, ?_, ?_⟩
      · rw [ht, if_neg hz]
      · rw [ht', if_neg (fun h => hz (hmod.mp h))]
  · -- both products are exact
    have hk0 : k = 0 := by
      rcases hm with h | h
      · exact h
      · have : P / 10 ^ (k - 1) ≤ P := Nat.div_le_self _ _
        omega
    have hkj : k' ≤ j := by
      rcases hm' with h | h
      · omega
      · by_contra hc
        have h3 : P' / 10 ^ (k' - 1) ≤ P' / 10 ^ j :=
          Nat.div_le_div_left (Nat.pow_le_pow_right (by norm_num) (by omega)) (by positivity)
        rw [hP] at h h3
        rw [Nat.mul_div_cancel _ (by positivity)] at h3
        omega
    have hz : P % 10 ^ k = 0 := by rw [hk0, Nat.pow_zero, Nat.mod_one]
    have hz' : P' % 10 ^ k' = 0 := by
      rw [hP]
      exact Nat.mod_eq_zero_of_dvd (Dvd.dvd.mul_left (Nat.pow_dvd_pow _ hkj) _)
    refine ⟨Or.inr ⟨j - k', ?_, ?_⟩, Or.inr ⟨?_, ?_, ?_, ?_⟩⟩
    · rw [hs, hk0, Nat.pow_zero, Nat.div_one]
    · have e : (10 : Nat) ^ j = 10 ^ (j - k') * 10 ^ k' := by rw [← Nat.pow_add]; congr 1; omega
      rw [hs', hP, e, ← Nat.mul_assoc, Nat.mul_div_cancel _ (by positivity)]
    · rw [hV]; exact exact_val hs hre hz
    · rw [hV']; exact exact_val hs' hre' hz'
    · rw [ht, if_pos hz]
    · rw [ht', if_pos hz']

/-- **`mul` on operands of equal product value**, full form: both results are bit-identical and inexact (both
flags raised), or both are exact (flags passed through); and if the results differ, one of them is the product
itself and the other is this product with zeros appended. -/
theorem mul_congr_full (d d' o o' : decomposed192) (t t' : Int8)
    (hv : val d * val o = val d' * val o')
    (h1 : -16000 ≤ d.exp.toInt ∧ d.exp.toInt ≤ 16000) (h2 : -16000 ≤ o.exp.toInt ∧ o.exp.toInt ≤ 16000)
    (h1' : -16000 ≤ d'.exp.toInt ∧ d'.exp.toInt ≤ 16000)
    (h2' : -16000 ≤ o'.exp.toInt ∧ o'.exp.toInt ≤ 16000) :
    ∃ r t1 r' t1', decomposed192.mul d o t = .ok (r, t1) ∧ decomposed192.mul d' o' t' = .ok (r', t1') ∧
      ((r = r' ∧ t1 = 1 ∧ t1' = 1) ∨
       (val r = val d * val o ∧ val r' = val d * val o ∧ t1 = t ∧ t1' = t')) ∧
      (r = r' ∨
       (∃ m : Nat, r.sig.toNat = d.sig.toNat * o.sig.toNat ∧
          r'.sig.toNat = d.sig.toNat * o.sig.toNat * 10 ^ m) ∨
       (∃ m : Nat, r'.sig.toNat = d'.sig.toNat * o'.sig.toNat ∧
          r.sig.toNat = d'.sig.toNat * o'.sig.toNat * 10 ^ m)) := by
  rcases le_total (d'.exp.toInt + o'.exp.toInt) (d.exp.toInt + o.exp.toInt) with hle | hle
  · obtain ⟨r, t1, r', t1', hr, hr', h, hB⟩ := mul_congr_aux d d' o o' t t' hv h1 h2 h1' h2' hle
    refine ⟨r, t1, r', t1', hr, hr', h, ?_⟩
    rcases hB with h | h
    · exact Or.inl h
    · exact Or.inr (Or.inl h)
  · obtain ⟨r', t1', r, t1, hr', hr, h, hB⟩ := mul_congr_aux d' d o' o t' t hv.symm h1' h2' h1 h2 hle
    refine ⟨r, t1, r', t1', hr, hr', ?_, ?_⟩
    · rcases h with ⟨a, b, c⟩ | ⟨a, b, c, e⟩
      · exact Or.inl ⟨a.symm, c, b⟩
      · exact Or.inr ⟨hv ▸ b, hv ▸ a, e, c⟩
    · rcases hB with h | h
      · exact Or.inl h.symm
      · exact Or.inr (Or.inr h)

/-- **`mul` on operands of equal product value**: both results are bit-identical and inexact (both flags raised),
or both are exact (flags passed through).  For a zero product the second alternative holds. -/
theorem mul_congr_prod (d d' o o' : decomposed192) (t t' : Int8)
    (hv : val d * val o = val d' * val o')
    (h1 : -16000 ≤ d.exp.toInt ∧ d.exp.toInt ≤ 16000) (h2 : -16000 ≤ o.exp.toInt ∧ o.exp.toInt ≤ 16000)
    (h1' : -16000 ≤ d'.exp.toInt ∧ d'.exp.toInt ≤ 16000)
    (h2' : -16000 ≤ o'.exp.toInt ∧ o'.exp.toInt ≤ 16000) :
    ∃ r t1 r' t1', decomposed192.mul d o t = .ok (r, t1) ∧ decomposed192.mul d' o' t' = .ok (r', t1') ∧
      ((r = r' ∧ t1 = 1 ∧ t1' = 1) ∨
       (val r = val d * val o ∧ val r' = val d * val o ∧ t1 = t ∧ t1' = t')) := by
  obtain ⟨r, t1, r', t1', hr, hr', h, -⟩ := mul_congr_full d d' o o' t t' hv h1 h2 h1' h2'
  exact ⟨r, t1, r', t1', hr, hr', h⟩

/-- **`mul` on cohort members** (`val d = val d'`, `val o = val o'`) -/
theorem mul_congr (d d' o o' : decomposed192) (t t' : Int8)
    (hd : val d = val d') (ho : val o = val o')
    (h1 : -16000 ≤ d.exp.toInt ∧ d.exp.toInt ≤ 16000) (h2 : -16000 ≤ o.exp.toInt ∧ o.exp.toInt ≤ 16000)
    (h1' : -16000 ≤ d'.exp.toInt ∧ d'.exp.toInt ≤ 16000)
    (h2' : -16000 ≤ o'.exp.toInt ∧ o'.exp.toInt ≤ 16000) :
    ∃ r t1 r' t1', decomposed192.mul d o t = .ok (r, t1) ∧ decomposed192.mul d' o' t' = .ok (r', t1') ∧
      ((r = r' ∧ t1 = 1 ∧ t1' = 1) ∨
       (val r = val d * val o ∧ val r' = val d * val o ∧ t1 = t ∧ t1' = t')) :=
  mul_congr_prod d d' o o' t t' (by rw [hd, ho]) h1 h2 h1' h2'

/-- the form used by the callers: equal incoming flags ⇒ results of equal value with equal flags -/
theorem mul_congr0 (d d' o o' : decomposed192) (t : Int8)
    (hv : val d * val o = val d' * val o')
    (h1 : -16000 ≤ d.exp.toInt ∧ d.exp.toInt ≤ 16000) (h2 : -16000 ≤ o.exp.toInt ∧ o.exp.toInt ≤ 16000)
    (h1' : -16000 ≤ d'.exp.toInt ∧ d'.exp.toInt ≤ 16000)
    (h2' : -16000 ≤ o'.exp.toInt ∧ o'.exp.toInt ≤ 16000) :
    ∃ r r' t1, decomposed192.mul d o t = .ok (r, t1) ∧ decomposed192.mul d' o' t = .ok (r', t1) ∧
      val r = val r' ∧ (r = r' ∨ (val r = val d * val o ∧ t1 = t)) := by
  obtain ⟨r, t1, r', t1', hr, hr', h⟩ := mul_congr_prod d d' o o' t t hv h1 h2 h1' h2'
  rcases h with ⟨a, b, c⟩ | ⟨a, b, c, e⟩
  · exact ⟨r, r', t1, hr, by rw [hr', b, c], by rw [a], Or.inl a⟩
  · exact ⟨r, r', t1, hr, by rw [hr', c, e], by rw [a, b], Or.inr ⟨a, c⟩⟩

/-- the form used by `Exp2`/`Exp10`: equal incoming flags ⇒ results of equal value with equal flags, and the
shape of the significands when the registers differ -/
theorem mul_congr1 (d d' o o' : decomposed192) (t : Int8)
    (hv : val d * val o = val d' * val o')
    (h1 : -16000 ≤ d.exp.toInt ∧ d.exp.toInt ≤ 16000) (h2 : -16000 ≤ o.exp.toInt ∧ o.exp.toInt ≤ 16000)
    (h1' : -16000 ≤ d'.exp.toInt ∧ d'.exp.toInt ≤ 16000)
    (h2' : -16000 ≤ o'.exp.toInt ∧ o'.exp.toInt ≤ 16000) :
    ∃ r r' t1, decomposed192.mul d o t = .ok (r, t1) ∧ decomposed192.mul d' o' t = .ok (r', t1) ∧
      val r = val r' ∧
      (r = r' ∨
       (∃ m : Nat, r.sig.toNat = d.sig.toNat * o.sig.toNat ∧
          r'.sig.toNat = d.sig.toNat * o.sig.toNat * 10 ^ m) ∨
       (∃ m : Nat, r'.sig.toNat = d'.sig.toNat * o'.sig.toNat ∧
          r.sig.toNat = d'.sig.toNat * o'.sig.toNat * 10 ^ m)) := by
  obtain ⟨r, t1, r', t1', hr, hr', h, hB⟩ := mul_congr_full d d' o o' t t hv h1 h2 h1' h2'
  rcases h with ⟨a, b, c⟩ | ⟨a, b, c, e⟩
  · exact ⟨r, r', t1, hr, by rw [hr', b, c], by rw [a], hB⟩
  · exact ⟨r, r', t1, hr, by rw [hr', c, e], by rw [a, b], hB⟩

/-- the hypotheses are satisfiable: `1.5 × ln2` against `1.50 × ln2` (both exact, different registers) and
`(2^192−1)·10^-57` squared against `(2^192−1)0·10^-58 …` -/
example := mul_congr ⟨⟨15, 0, 0⟩, -1⟩ ⟨⟨150, 0, 0⟩, -2⟩ ln2 ln2 0 0
  (by show ((15 : ℕ) : ℚ) * (10 : ℚ) ^ (-1 : Int) = ((150 : ℕ) : ℚ) * (10 : ℚ) ^ (-2 : Int); norm_num)
  rfl (by decide) (by decide) (by decide) (by decide)

end CohortElem
