/-
  D128/Proofs/ExpAccSplit.lean — property C16: the integer/fraction split of the argument in `Gen.Exp2` and
  `Gen.Exp10` is exact.

  For `|x| = c·10^e` (`c = dSig`, `e = dExp` unbiased, `l10 = ⌊log10 c⌋`, magnitude guard passed) the split returns
  `n = ⌊|x|⌋` and `f·10^fe = |x| - n` exactly, `f` without trailing zeros (`f = 0, fe = 0` if the fraction
  vanishes); for `|x| < 1` it leaves `n = 0, f = c, fe = e`.

  Provided (namespace `ExpAcc`):
  * `exp2Split_staged`  : `exp2Split` (stage of `Gen.Exp2`, D128/Proofs/TotalExp2.lean, `Exp2_eq … := rfl`) is the
                          three loops of D128/Proofs/ExpAccSplitLoops.lean one after the other
  * `exp2SplitCore`, `exp2Split_eq_core` : the split without continuation
  * `exp2Split_eq`      : `∃ f fe n, exp2Split dSig dExp l10 k = k f fe n ∧ …facts…`
  * `exp10Split`, `exp10Tail`, `exp10Staged`, `Exp10_eq : Gen.Exp10 g d = exp10Staged g d := rfl`
  * `exp10Split_staged`, `exp10Split_eq` : the same for `Exp10`, with the early return for `n > 6211`
-/
import D128.Proofs.ExpAccSplitLoops
set_option autoImplicit false
set_option linter.unusedVariables false
set_option maxRecDepth 16384
namespace ExpAcc
open D128.Proofs.Total D128.Proofs.WordsWide
open Gen

theorem ok_bind {α β : Type} (a : α) (f : α → Go.GoM β) : ((Except.ok a : Go.GoM α) >>= f) = f a := rfl

/-! ### Exp2 -/

theorem exp2Split_staged {α : Type} (dSig : U128) (dExp : Int16) (l10 : Int64)
    (k : U128 → Int16 → UInt64 → Go.GoM α) :
    exp2Split dSig dExp l10 k =
      if decide ((l10 + (Go.conv dExp : Int64)) ≥ (0 : Int64)) then do
        let s1 ← splitRev (default : U128) dSig dExp
        let s2 ← splitScale s1.2.1.w0 s1.2.2
        let s3 ← splitUnrev (default : U128) (0 : Int16) s1.1
        k s3.1 s3.2.1 s2.1
      else k dSig dExp (0 : UInt64) := by
  simp only [exp2Split, splitRev, splitScale, splitUnrev, bind_assoc, pure_bind]

/-- the split of `Exp2` without continuation -/
def exp2SplitCore (dSig : U128) (dExp : Int16) (l10 : Int64) : Go.GoM (U128 × Int16 × UInt64) :=
  exp2Split dSig dExp l10 (fun f fe n => pure (f, fe, n))

theorem exp2Split_eq_core {α : Type} (dSig : U128) (dExp : Int16) (l10 : Int64)
    (k : U128 → Int16 → UInt64 → Go.GoM α) :
    exp2Split dSig dExp l10 k = exp2SplitCore dSig dExp l10 >>= fun r => k r.1 r.2.1 r.2.2 := by
  unfold exp2SplitCore
  rw [exp2Split_staged, exp2Split_staged]
  split
  · simp only [bind_assoc, pure_bind]
  · simp only [pure_bind]

/-- the test `l10 + int64(dExp) >= 0` -/
theorem split_cond (l10 : Int64) (dExp : Int16) (h0 : 0 ≤ l10.toInt) (h1 : l10.toInt ≤ 40) :
    ((l10 + (Go.conv dExp : Int64)) ≥ (0 : Int64)) ↔ 0 ≤ l10.toInt + dExp.toInt := by
  have := dExp.le_toInt; have := dExp.toInt_lt
  i64_norm

/-- `|x| < 1`: the value is all fraction -/
theorem small_value (c L : Nat) (e : Int) (hc : c < 10 ^ (L + 1)) (he : (L : Int) + e < 0) :
    (c : ℚ) * (10 : ℚ) ^ e < 1 := by
  obtain ⟨E, hE⟩ : ∃ E : Nat, e = -(E : Int) := ⟨(-e).toNat, by omega⟩
  subst hE
  have hpos : (0 : ℚ) < (10 : ℚ) ^ E := by positivity
  rw [zpow_neg, zpow_natCast, ← div_eq_mul_inv, div_lt_one hpos]
  have : c < 10 ^ E := lt_of_lt_of_le hc (Nat.pow_le_pow_right (by norm_num) (by omega))
  exact_mod_cast this

/-- **The split of `Exp2` is exact.**  `|x| = dSig·10^dExp < 10^6`; the continuation receives `n = ⌊|x|⌋` and the
fraction `f·10^fe = |x| - n`. -/
theorem exp2Split_eq {α : Type} (dSig : U128) (dExp : Int16) (l10 : Int64)
    (k : U128 → Int16 → UInt64 → Go.GoM α)
    (hc0 : 1 ≤ dSig.toNat) (hc : dSig.toNat ≤ Spec.Cmax)
    (he0 : -6176 ≤ dExp.toInt) (he1 : dExp.toInt ≤ 6111)
    (hl : l10.toInt = Nat.log 10 dSig.toNat) (hg : dExp.toInt ≤ 5 - l10.toInt) :
    ∃ (f : U128) (fe : Int16) (n : UInt64), exp2Split dSig dExp l10 k = k f fe n ∧
      (n.toNat : ℚ) + (f.toNat : ℚ) * (10 : ℚ) ^ fe.toInt = (dSig.toNat : ℚ) * (10 : ℚ) ^ dExp.toInt ∧
      (f.toNat : ℚ) * (10 : ℚ) ^ fe.toInt < 1 ∧ n.toNat < 10 ^ 6 ∧ f.toNat ≤ Spec.Cmax ∧
      -6176 ≤ fe.toInt ∧ fe.toInt ≤ 0 ∧
      (l10.toInt + dExp.toInt < 0 → n = 0 ∧ f = dSig ∧ fe = dExp) ∧
      (0 ≤ l10.toInt + dExp.toInt → 1 ≤ n.toNat ∧ (f.toNat = 0 → fe = 0) ∧
          (f.toNat ≠ 0 → f.toNat % 10 ≠ 0 ∧ -40 ≤ fe.toInt)) := by
  have hL : Nat.log 10 dSig.toNat < 35 :=
    Nat.log_lt_of_lt_pow (by omega) (lt_of_le_of_lt hc Cmax_lt)
  have hcond := split_cond l10 dExp (by omega) (by omega)
  rw [exp2Split_staged]
  by_cases hpos : 0 ≤ l10.toInt + dExp.toInt
  · obtain ⟨s1, s2, s3, e1, e2, e3, h1, h2, h3, h4, h5, h6, h7, h8, h9⟩ :=
      split_ok dSig dExp (Nat.log 10 dSig.toNat) 5 (by omega) hc0 hc rfl (by omega) (by omega)
    refine ⟨s3.1, s3.2.1, s2.1, ?_, h1, h2, h3, h5, by omega, h7, fun h => absurd hpos (by omega),
      fun _ => ⟨h4, h8, fun h => ⟨h9 h, h6⟩⟩⟩
    rw [if_pos (decide_eq_true (hcond.2 hpos)), e1, ok_bind, e2, ok_bind, e3, ok_bind]
  · have hcL : dSig.toNat < 10 ^ (Nat.log 10 dSig.toNat + 1) :=
      Nat.lt_pow_succ_log_self (by norm_num) _
    refine ⟨dSig, dExp, 0, ?_, by simp, small_value _ _ _ hcL (by omega), by simp, hc, he0, by omega,
      fun _ => ⟨rfl, rfl, rfl⟩, fun h => absurd h hpos⟩
    rw [if_neg (by rw [decide_eq_true_eq]; exact fun h => hpos (hcond.1 h))]

/-! ### Exp10 -/

/-- `Exp10`, second stage: split the argument into integer and fractional part; early return when the integer
part exceeds 6211 (continuation-passing) -/
def exp10Split (d : Decimal) (dSig : U128) (dExp : Int16) (l10 : Int64)
    (k : U128 → Int16 → UInt64 → Go.GoM Decimal) : Go.GoM Decimal := do
  let mut dSig : U128 := dSig
  let mut dExp : Int16 := dExp
  let mut dSigInt : UInt64 := (0 : UInt64)
  if (decide ((l10 + (Go.conv dExp : Int64)) ≥ (0 : Int64))) then
    let mut sig : U128 := dSig
    let mut exp : Int16 := dExp
    dSig := (default : U128)
    while (decide (exp < (0 : Int16))) do
      let mut rem : UInt64 := (0 : UInt64)
      let (r_4, r_5) ← U128.div10 sig
      sig := r_4
      rem := r_5
      dSig := (U128.mul64 dSig (10 : UInt64))
      dSig := (U128.add64 dSig rem)
      exp := (exp + (1 : Int16))
    dSigInt := sig.w0
    while (decide (exp > (0 : Int16))) do
      dSigInt := (dSigInt * (10 : UInt64))
      exp := (exp - (1 : Int16))
    if (decide (dSigInt > (6211 : UInt64))) then
      if (Decimal.Signbit d) then
        return (zero false)
      return (inf false)
    sig := dSig
    dSig := (default : U128)
    dExp := (0 : Int16)
    while ((sig.w0 ||| sig.w1) != (0 : UInt64)) do
      let mut rem_1 : UInt64 := (0 : UInt64)
      let (r_6, r_7) ← U128.div10 sig
      sig := r_6
      rem_1 := r_7
      dSig := (U128.mul64 dSig (10 : UInt64))
      dSig := (U128.add64 dSig rem_1)
      dExp := (dExp - (1 : Int16))
  k dSig dExp dSigInt

/-- `Exp10`, last stage: `10^frac` via `epow`, shift of the exponent by the integer part, reciprocal, rounding -/
def exp10Tail (g : Globals) (d : Decimal) (dSig : U128) (dExp : Int16) (dSigInt : UInt64) :
    Go.GoM Decimal := do
  let mut res : decomposed192 := (default : decomposed192)
  let mut trunc : Int8 := (0 : Int8)
  let mut expInt : Int16 := (0 : Int16)
  if (dSigInt != (0 : UInt64)) then
    expInt := (Go.conv dSigInt : Int16)
  if ((dSig.w0 ||| dSig.w1) != (0 : UInt64)) then
    let (r_8, r_9) ← decomposed192.mul ({ (default : decomposed192) with sig := (U192.mk dSig.w0 dSig.w1 (0 : UInt64)), exp := dExp } : decomposed192) ln10 (0 : Int8)
    res := r_8
    trunc := r_9
    let t_10 ← U192.log10 res.sig
    let (r_11, r_12) ← decomposed192.epow res (Go.conv t_10 : Int16) trunc
    res := r_11
    trunc := r_12
    if (decide (res.exp > (6169 : Int16))) then
      if (Decimal.Signbit d) then
        return (zero false)
      return (inf false)
    if (expInt != (0 : Int16)) then
      res := { res with exp := (res.exp + expInt) }
  else
    res := ({ (default : decomposed192) with sig := (U192.mk (1 : UInt64) (0 : UInt64) (0 : UInt64)), exp := expInt } : decomposed192)
  if (Decimal.Signbit d) then
    if (decide (res.exp > (6234 : Int16))) then
      return (zero false)
  else
    if (decide (res.exp > (6169 : Int16))) then
      return (inf false)
  if (Decimal.Signbit d) then
    let (r_13, r_14) ← decomposed192.rcp res trunc
    res := r_13
    trunc := r_14
  let (r_15, r_16) ← RoundingMode.reduce192 g.DefaultRoundingMode false res.sig (res.exp + (6176 : Int16)) trunc
  let mut sig_1 : U128 := r_15
  let mut exp_1 : Int16 := r_16
  if (decide (exp_1 > (12287 : Int16))) then
    if (Decimal.Signbit d) then
      return (zero false)
    return (inf false)
  return (compose false sig_1 exp_1)

/-- `Exp10` with its two later stages named -/
def exp10Staged (g : Globals) (d : Decimal) : Go.GoM Decimal := do
  if (Decimal.isSpecial d) then
    if (Decimal.IsNaN d) then
      return d
    if (Decimal.Signbit d) then
      return (zero false)
    return (inf false)
  if (Decimal.IsZero d) then
    return (one false)
  let (r_1, r_2) := Decimal.decompose d
  let mut dSig : U128 := r_1
  let mut dExp : Int16 := r_2
  dExp := (dExp - (6176 : Int16))
  let t_3 ← U128.log10 dSig
  let mut l10 : Int64 := t_3
  if (decide ((Go.conv dExp : Int64) > ((4 : Int64) - l10))) then
    if (Decimal.Signbit d) then
      return (zero false)
    return (inf false)
  exp10Split d dSig dExp l10 (fun dSig dExp dSigInt => exp10Tail g d dSig dExp dSigInt)

theorem Exp10_eq (g : Globals) (d : Decimal) : Gen.Exp10 g d = exp10Staged g d := rfl

theorem exp10Split_staged (d : Decimal) (dSig : U128) (dExp : Int16) (l10 : Int64)
    (k : U128 → Int16 → UInt64 → Go.GoM Decimal) :
    exp10Split d dSig dExp l10 k =
      if decide ((l10 + (Go.conv dExp : Int64)) ≥ (0 : Int64)) then do
        let s1 ← splitRev (default : U128) dSig dExp
        let s2 ← splitScale s1.2.1.w0 s1.2.2
        if decide (s2.1 > (6211 : UInt64)) then
          if Decimal.Signbit d then pure (zero false) else pure (inf false)
        else do
          let s3 ← splitUnrev (default : U128) (0 : Int16) s1.1
          k s3.1 s3.2.1 s2.1
      else k dSig dExp (0 : UInt64) := by
  simp only [exp10Split, splitRev, splitScale, splitUnrev, bind_assoc, pure_bind]

/-- **The split of `Exp10` is exact.**  `|x| = dSig·10^dExp < 10^5`; `n = ⌊|x|⌋`; if `n > 6211` the function
returns at once (`+0` for a negative argument, `+Inf` otherwise), else the continuation receives `n` and the
fraction `f·10^fe = |x| - n`. -/
theorem exp10Split_eq (d : Decimal) (dSig : U128) (dExp : Int16) (l10 : Int64)
    (k : U128 → Int16 → UInt64 → Go.GoM Decimal)
    (hc0 : 1 ≤ dSig.toNat) (hc : dSig.toNat ≤ Spec.Cmax)
    (he0 : -6176 ≤ dExp.toInt) (he1 : dExp.toInt ≤ 6111)
    (hl : l10.toInt = Nat.log 10 dSig.toNat) (hg : dExp.toInt ≤ 4 - l10.toInt) :
    ∃ (f : U128) (fe : Int16) (n : UInt64),
      ((n.toNat : ℚ) + (f.toNat : ℚ) * (10 : ℚ) ^ fe.toInt = (dSig.toNat : ℚ) * (10 : ℚ) ^ dExp.toInt ∧
      (f.toNat : ℚ) * (10 : ℚ) ^ fe.toInt < 1 ∧ n.toNat < 10 ^ 5 ∧ f.toNat ≤ Spec.Cmax ∧
      -6176 ≤ fe.toInt ∧ fe.toInt ≤ 0 ∧
      (l10.toInt + dExp.toInt < 0 → n = 0 ∧ f = dSig ∧ fe = dExp) ∧
      (0 ≤ l10.toInt + dExp.toInt → 1 ≤ n.toNat ∧ (f.toNat = 0 → fe = 0) ∧
          (f.toNat ≠ 0 → f.toNat % 10 ≠ 0 ∧ -40 ≤ fe.toInt))) ∧
      (6211 < n.toNat →
        exp10Split d dSig dExp l10 k = .ok (if d.Signbit then Gen.zero false else Gen.inf false)) ∧
      (n.toNat ≤ 6211 → exp10Split d dSig dExp l10 k = k f fe n) := by
  have hL : Nat.log 10 dSig.toNat < 35 :=
    Nat.log_lt_of_lt_pow (by omega) (lt_of_le_of_lt hc Cmax_lt)
  have hcond := split_cond l10 dExp (by omega) (by omega)
  rw [exp10Split_staged]
  by_cases hpos : 0 ≤ l10.toInt + dExp.toInt
  · obtain ⟨s1, s2, s3, e1, e2, e3, h1, h2, h3, h4, h5, h6, h7, h8, h9⟩ :=
      split_ok dSig dExp (Nat.log 10 dSig.toNat) 4 (by omega) hc0 hc rfl (by omega) (by omega)
    have h6211 : (s2.1 > (6211 : UInt64)) ↔ 6211 < s2.1.toNat := by
      rw [gt_iff_lt, UInt64.lt_iff_toNat_lt]; rfl
    refine ⟨s3.1, s3.2.1, s2.1, ⟨h1, h2, h3, h5, by omega, h7, fun h => absurd hpos (by omega),
      fun _ => ⟨h4, h8, fun h => ⟨h9 h, h6⟩⟩⟩, fun hbig => ?_, fun hsmall => ?_⟩
    · rw [if_pos (decide_eq_true (hcond.2 hpos)), e1, ok_bind, e2, ok_bind,
        if_pos (decide_eq_true (h6211.2 hbig))]
      split <;> rfl
    · rw [if_pos (decide_eq_true (hcond.2 hpos)), e1, ok_bind, e2, ok_bind,
        if_neg (by rw [decide_eq_true_eq, h6211]; omega), e3, ok_bind]
  · have hcL : dSig.toNat < 10 ^ (Nat.log 10 dSig.toNat + 1) :=
      Nat.lt_pow_succ_log_self (by norm_num) _
    refine ⟨dSig, dExp, 0, ⟨by simp, small_value _ _ _ hcL (by omega), by simp, hc, he0, by omega,
      fun _ => ⟨rfl, rfl, rfl⟩, fun h => absurd h hpos⟩, fun h => absurd h (by simp), fun _ => ?_⟩
    rw [if_neg (by rw [decide_eq_true_eq]; exact fun h => hpos (hcond.1 h))]

/-! ### corollary and examples -/

/-- the integer part is the floor of `|x|` -/
theorem split_floor {n f : Nat} {fe : Int} {x : ℚ} (h : (n : ℚ) + (f : ℚ) * (10 : ℚ) ^ fe = x)
    (h1 : (f : ℚ) * (10 : ℚ) ^ fe < 1) : ⌊x⌋ = (n : Int) := by
  have h0 : (0 : ℚ) ≤ (f : ℚ) * (10 : ℚ) ^ fe :=
    mul_nonneg (Nat.cast_nonneg _) (zpow_nonneg (by norm_num) _)
  rw [Int.floor_eq_iff]
  push_cast
  constructor <;> linarith

theorem log10_12345 : (4 : Int64).toInt = Nat.log 10 (U128.mk 12345 0).toNat := by
  have h1 : (U128.mk 12345 0).toNat = 12345 := by decide
  have h2 : Nat.log 10 12345 = 4 := by
    rw [Nat.log_eq_iff (by norm_num)]; norm_num
  rw [h1, h2]; rfl

/-- the hypotheses of `exp2Split_eq` are satisfiable: `|x| = 123.45`
(`#eval exp2SplitCore ⟨12345, 0⟩ (-2) 4` gives `f = 45, fe = -2, n = 123`; for `1234500e-4` the same;
for `12000e-2`: `f = 0, fe = 0, n = 120`; for `12005e-4`: `f = 2005, fe = -4, n = 1`) -/
example {α : Type} (k : U128 → Int16 → UInt64 → Go.GoM α) :
    ∃ (f : U128) (fe : Int16) (n : UInt64), exp2Split ⟨12345, 0⟩ (-2) 4 k = k f fe n ∧
      (n.toNat : ℚ) + (f.toNat : ℚ) * (10 : ℚ) ^ fe.toInt = 12345 * (10 : ℚ) ^ (-2 : Int) ∧
      (n.toNat : Int) = 123 := by
  obtain ⟨f, fe, n, h, hv, hlt, -⟩ := exp2Split_eq (⟨12345, 0⟩ : U128) (-2) 4 k (by decide) (by decide)
    (by decide) (by decide) log10_12345 (by decide)
  have h1 : ((U128.mk 12345 0).toNat : ℚ) = 12345 := by
    have : (U128.mk 12345 0).toNat = 12345 := by decide
    rw [this]; norm_num
  have h2 : (-2 : Int16).toInt = -2 := by decide
  rw [h1, h2] at hv
  refine ⟨f, fe, n, h, hv, ?_⟩
  rw [← split_floor hv hlt, Int.floor_eq_iff]
  norm_num

/-- the hypotheses of `exp10Split_eq` are satisfiable -/
example (d : Decimal) (k : U128 → Int16 → UInt64 → Go.GoM Decimal) :=
  exp10Split_eq d (⟨12345, 0⟩ : U128) (-2) 4 k (by decide) (by decide) (by decide) (by decide)
    log10_12345 (by decide)

end ExpAcc
