/-
  D128/Proofs/IntConvU.lean — `Gen.Decimal.Uint64`, `Gen.Decimal.Uint32`:
    u64_ofInt_toNat
    Uint64_triple, Uint64_eq : Uint64 d = match Spec.sat 0 (2^64−1) 𝔳[d] with …
    Uint32_triple, Uint32_eq : Uint32 d = match Spec.sat 0 (2^32−1) 𝔳[d] with …
  (negative values: (0, true) exactly when the truncated value is 0, else (0, false))
-/
import D128.Proofs.IntConv
set_option autoImplicit false
open Std.Do
set_option mvcgen.warning false

namespace IntConvPf
open CanonPf

theorem u64_ofInt_toNat (x : UInt64) : UInt64.ofInt (x.toNat : Int) = x := by
  apply UInt64.toNat_inj.mp
  have := x.toNat_lt
  simp only [UInt64.ofInt, UInt64.toNat_ofNat']
  omega

/-! ## Uint64 -/

theorem Uint64_triple (d : Gen.Decimal) (hs : Gen.Decimal.isSpecial d = false) :
    ⦃⌜True⌝⦄ Gen.Decimal.Uint64 d
    ⦃⇓ r => ⌜r = satRes UInt64.ofInt 0 18446744073709551615 (Gen.Decimal.Signbit d)
      (truncMag (Gen.Decimal.decompose d).1.toNat ((Gen.Decimal.decompose d).2.toInt - 6176))⌝⦄ := by
  unfold Gen.Decimal.Uint64
  simp only [hs, Bool.false_eq_true, if_false]
  mvcgen
  case inv1 => exact fun s => ⟨(-s.2.toInt).toNat⟩
  case inv2 =>
    exact ⇓ x => match x with
      | .inl s => ⌜J1 d.decompose.1.toNat (d.decompose.2.toInt - 6176) s⌝
      | .inr s => ⌜X1 d.decompose.1.toNat (d.decompose.2.toInt - 6176) s⌝
  case inv3 => exact fun s => ⟨s.2.toInt.toNat⟩
  case inv4 =>
    exact ⇓ x => match x with
      | .inl s => ⌜J2 (truncMag d.decompose.1.toNat (d.decompose.2.toInt - 6176)) s⌝
      | .inr s => ⌜X2 (truncMag d.decompose.1.toNat (d.decompose.2.toInt - 6176)) s⌝
  case vc1 h =>
    rw [early_exit _ _ (Enc.decompose_sig_le d) (Enc.decompose_exp_nonneg d)
      (Enc.decompose_exp_le d hs) h, satRes_zero _ _ _ _ (by decide) (by decide)]
    rfl
  case vc2 h35 b mb hc h q hz hq =>
    exact J1_break _ _ b h.2 q hq hc hz
  case vc3 h35 b mb hc h q hz hq =>
    have hv : mb = (-b.2.toInt).toNat := congrArg ULift.down h.1
    obtain ⟨h1, h2⟩ := J1_step _ _ b h.2 q hq hc
    exact ⟨_, rfl, by rw [hv]; exact h2, h1⟩
  case vc4 h35 b mb hc h =>
    exact J1_exit _ _ b h.2 hc
  case vc5 h35 =>
    exact J1_init _ _ (Enc.decompose_exp_nonneg d) (Enc.decompose_exp_le d hs) h35
  case vc6 h35 r hr b mb hc h =>
    have hv : mb = b.2.toInt.toNat := congrArg ULift.down h.1
    obtain ⟨h1, h2⟩ := J2_step _ b h.2 hc
    exact ⟨_, rfl, by rw [hv]; exact h2, h1⟩
  case vc7 h35 r hr b mb hc h =>
    exact J2_exit _ b h.2 hc
  case vc8 h35 r h =>
    exact J2_init _ _ r h
  case vc9 h35 r1 hr1 r hsg h =>
    rw [X2_zero_iff _ r h, hsg]
    by_cases hT : truncMag d.decompose.1.toNat (d.decompose.2.toInt - 6176) = 0
    · rw [hT, satRes_zero _ _ _ _ (by decide) (by decide)]
      rfl
    · rw [satRes_neg_big _ _ _ _ (by omega)]
      simp only [hT, decide_false]
      rfl
  case vc10 h35 r1 hr1 r hsg hb h =>
    have hT := X2_big _ r h hb
    simp only [Bool.not_eq_true] at hsg
    rw [hsg, satRes_pos_big _ _ _ _ (by omega) (by omega)]
    rfl
  case vc11 h35 r1 hr1 r hsg hb h =>
    have hT := X2_fit _ r h hb
    have hlt := r.1.w0.toNat_lt
    simp only [Bool.not_eq_true] at hsg
    rw [hsg, satRes_pos_fit _ _ _ _ (by omega) (by omega), hT, u64_ofInt_toNat]
  all_goals exact ExceptConds.entails.refl _

theorem Uint64_eq (d : Gen.Decimal) :
    Gen.Decimal.Uint64 d =
      (match Spec.sat 0 18446744073709551615 (Spec.interp d.lo d.hi) with
        | none => .error (.explicit "Decimal(NaN).Uint64()")
        | some (x, ok) => .ok (UInt64.ofInt x, ok)) := by
  apply conv_spec_of
  · intro hn
    have hs : Gen.Decimal.isSpecial d = true := by rw [Enc.isSpecial_iff, hn]; rfl
    unfold Gen.Decimal.Uint64
    simp only [hs, hn, if_true]
    rfl
  · intro hs hn
    unfold Gen.Decimal.Uint64
    simp only [hs, hn, if_true, Bool.false_eq_true, if_false]
    cases Gen.Decimal.Signbit d <;> rfl
  · intro hs
    obtain ⟨r, hr, hq⟩ := ok_of_triple (Uint64_triple d hs)
    rw [hr, hq]

/-! ## Uint32 -/

theorem Uint32_triple (d : Gen.Decimal) (hs : Gen.Decimal.isSpecial d = false) :
    ⦃⌜True⌝⦄ Gen.Decimal.Uint32 d
    ⦃⇓ r => ⌜r = satRes UInt32.ofInt 0 4294967295 (Gen.Decimal.Signbit d)
      (truncMag (Gen.Decimal.decompose d).1.toNat ((Gen.Decimal.decompose d).2.toInt - 6176))⌝⦄ := by
  unfold Gen.Decimal.Uint32
  simp only [hs, Bool.false_eq_true, if_false]
  mvcgen
  case inv1 => exact fun s => ⟨(-s.2.toInt).toNat⟩
  case inv2 =>
    exact ⇓ x => match x with
      | .inl s => ⌜J1 d.decompose.1.toNat (d.decompose.2.toInt - 6176) s⌝
      | .inr s => ⌜X1 d.decompose.1.toNat (d.decompose.2.toInt - 6176) s⌝
  case inv3 => exact fun s => ⟨s.2.toInt.toNat⟩
  case inv4 =>
    exact ⇓ x => match x with
      | .inl s => ⌜J2 (truncMag d.decompose.1.toNat (d.decompose.2.toInt - 6176)) s⌝
      | .inr s => ⌜X2 (truncMag d.decompose.1.toNat (d.decompose.2.toInt - 6176)) s⌝
  case vc1 h =>
    rw [early_exit _ _ (Enc.decompose_sig_le d) (Enc.decompose_exp_nonneg d)
      (Enc.decompose_exp_le d hs) h, satRes_zero _ _ _ _ (by decide) (by decide)]
    rfl
  case vc2 h35 b mb hc h q hz hq =>
    exact J1_break _ _ b h.2 q hq hc hz
  case vc3 h35 b mb hc h q hz hq =>
    have hv : mb = (-b.2.toInt).toNat := congrArg ULift.down h.1
    obtain ⟨h1, h2⟩ := J1_step _ _ b h.2 q hq hc
    exact ⟨_, rfl, by rw [hv]; exact h2, h1⟩
  case vc4 h35 b mb hc h =>
    exact J1_exit _ _ b h.2 hc
  case vc5 h35 =>
    exact J1_init _ _ (Enc.decompose_exp_nonneg d) (Enc.decompose_exp_le d hs) h35
  case vc6 h35 r hr b mb hc h =>
    have hv : mb = b.2.toInt.toNat := congrArg ULift.down h.1
    obtain ⟨h1, h2⟩ := J2_step _ b h.2 hc
    exact ⟨_, rfl, by rw [hv]; exact h2, h1⟩
  case vc7 h35 r hr b mb hc h =>
    exact J2_exit _ b h.2 hc
  case vc8 h35 r h =>
    exact J2_init _ _ r h
  case vc9 h35 r1 hr1 r hsg h =>
    rw [X2_zero_iff _ r h, hsg]
    by_cases hT : truncMag d.decompose.1.toNat (d.decompose.2.toInt - 6176) = 0
    · rw [hT, satRes_zero _ _ _ _ (by decide) (by decide)]
      rfl
    · rw [satRes_neg_big _ _ _ _ (by omega)]
      simp only [hT, decide_false]
      rfl
  case vc10 h35 r1 hr1 r hsg hb h =>
    have hT := X2_big _ r h hb
    simp only [Bool.not_eq_true] at hsg
    rw [hsg, satRes_pos_big _ _ _ _ (by omega) (by omega)]
    rfl
  case vc11 h35 r1 hr1 r hsg hb hw h =>
    have hT := X2_fit _ r h hb
    simp only [Bool.not_eq_true] at hsg
    simp only [decide_eq_true_eq, gt_iff_lt, UInt64.lt_iff_toNat_lt, UInt64.toNat_ofNat,
      Nat.reducePow, Nat.reduceMod] at hw
    rw [hsg, satRes_pos_big _ _ _ _ (by omega) (by omega)]
    rfl
  case vc12 h35 r1 hr1 r hsg hb hw h =>
    have hT := X2_fit _ r h hb
    simp only [Bool.not_eq_true] at hsg
    simp only [decide_eq_true_eq, gt_iff_lt, UInt64.lt_iff_toNat_lt, UInt64.toNat_ofNat,
      Nat.reducePow, Nat.reduceMod] at hw
    rw [hsg, satRes_pos_fit _ _ _ _ (by omega) (by omega), hT]
    rfl
  all_goals exact ExceptConds.entails.refl _

theorem Uint32_eq (d : Gen.Decimal) :
    Gen.Decimal.Uint32 d =
      (match Spec.sat 0 4294967295 (Spec.interp d.lo d.hi) with
        | none => .error (.explicit "Decimal(NaN).Uint32()")
        | some (x, ok) => .ok (UInt32.ofInt x, ok)) := by
  apply conv_spec_of
  · intro hn
    have hs : Gen.Decimal.isSpecial d = true := by rw [Enc.isSpecial_iff, hn]; rfl
    unfold Gen.Decimal.Uint32
    simp only [hs, hn, if_true]
    rfl
  · intro hs hn
    unfold Gen.Decimal.Uint32
    simp only [hs, hn, if_true, Bool.false_eq_true, if_false]
    cases Gen.Decimal.Signbit d <;> rfl
  · intro hs
    obtain ⟨r, hr, hq⟩ := ok_of_triple (Uint32_triple d hs)
    rw [hr, hq]

end IntConvPf
