/-
  D128/Proofs/D192Quo.lean — `decomposed192.quo` (Go: /repo/decomposed.go), for ALL inputs with a
  non-zero divisor significand.

  * `QuoPost`, `quo_triple` : Hoare triple (no panic — in particular no division by zero in
        `uint192.div` —, termination of the eight loops) with the exact description of the result:
        the numerator is scaled up to `Dn = D·10^a ≥ 25·2^184`, the divisor is TRUNCATED to
        `On = O / 10^b` (`b ≤ 2` digits are dropped when `O ≥ 0x18ff…·2^128 ≈ 6.1e56`, raising the flag if
        they are non-zero), then `r.sig = ⌊Dn·10^c / (On·10^tt)⌋` by schoolbook long division
        (`tt ≤ 1`), `r.exp = (d.exp - a) - (o.exp + b) - c + tt` in wrapping `Int16` arithmetic, the flag
        is `1` iff something non-zero was dropped anywhere and is passed through otherwise, and the
        quotient keeps `≥ 25·2^184` (57 digits) unless the division terminated.
  * `quo_zero`              : `d.sig = 0 ⇒ quo d o t = .ok (⟨0, 0⟩, t)` (even for `o.sig = 0`)
  * `quo_div_zero`          : `d.sig ≠ 0`, `o.sig = 0` ⇒ panic `divZero`  — see D192QuoContract.lean
-/
import D128.Proofs.D192QuoMath
set_option autoImplicit false
set_option maxRecDepth 4096
set_option exponentiation.threshold 512
set_option linter.unusedVariables false
open Std.Do D128.Proofs.WordsWide
set_option mvcgen.warning false

namespace D192

/-- what `quo` returns -/
def QuoPost (d o : Gen.decomposed192) (t : Int8) (x : Gen.decomposed192 × Int8) : Prop :=
  (d.sig.toNat = 0 ∧ x = (⟨⟨0, 0, 0⟩, 0⟩, t)) ∨
  (d.sig.toNat ≠ 0 ∧ ∃ (d' : Gen.decomposed192) (o1 : Gen.decomposed192 × Int8),
    QFin d'.sig.toNat o1.1.sig.toNat (d'.exp - o1.1.exp) o1.2 x.1 x.2 ∧
    (ScUp d.sig.toNat d.exp d' ∧ LIM ≤ d'.sig.toNat) ∧
    (TrO o.sig.toNat t o.exp o1 ∧ o1.1.sig.toNat < OLIM) ∧ o1.1.sig.toNat ≠ 0)

theorem quo_triple (d o : Gen.decomposed192) (t : Int8) :
    ⦃⌜o.sig.toNat ≠ 0⌝⦄ Gen.decomposed192.quo d o t
    ⦃⇓ x => ⌜QuoPost d o t x⌝⦄ := by
  mvcgen [Gen.decomposed192.quo]
  case inv1 | inv3 | inv5 => exact fun st => ⟨gap st.sig.toNat⟩
  case inv2 => exact ⇓ x => match x with
    | .inl st => ⌜ScUp d.sig.toNat d.exp st⌝
    | .inr st => ⌜ScUp d.sig.toNat d.exp st⌝
  case inv4 => exact ⇓ x => match x with
    | .inl st => ⌜ScUp d.sig.toNat d.exp st⌝
    | .inr st => ⌜ScUp d.sig.toNat d.exp st⌝
  case inv6 => exact ⇓ x => match x with
    | .inl st => ⌜ScUp d.sig.toNat d.exp st⌝
    | .inr st => ⌜ScUp d.sig.toNat d.exp st ∧ LIM ≤ st.sig.toNat⌝
  case inv7 => exact fun st => ⟨st.1.sig.toNat⟩
  case inv8 => exact ⇓ x => match x with
    | .inl st => ⌜TrO o.sig.toNat t o.exp st⌝
    | .inr st => ⌜TrO o.sig.toNat t o.exp st ∧ st.1.sig.toNat < OLIM⌝
  case inv9 => exact fun st => ⟨gap st.2.1.toNat⟩
  case inv10 =>
    rename_i d3 _ o1 _ _ _ q0 _ _ _ _
    exact ⇓ x => match x with
    | .inl st => ⌜QSt d3.sig.toNat o1.1.sig.toNat (d3.exp - o1.1.exp) o1.2 st⌝
    | .inr st => ⌜QSt d3.sig.toNat o1.1.sig.toNat (d3.exp - o1.1.exp) o1.2 st ∧
        (st.2.2.1.toNat = 0 ∨ LIM ≤ st.2.1.toNat)⌝
  case inv11 | inv13 => exact fun st => ⟨gap st.1.toNat⟩
  case inv12 =>
    rename_i d3 _ o1 _ _ _ q0 _ _ _ _ b _ _ _ _ _ _ _ _ _
    exact ⇓ x => match x with
    | .inl st => ⌜QSc b.2.1.toNat b.2.2.1.toNat b.2.2.2 st⌝
    | .inr st => ⌜QSc b.2.1.toNat b.2.2.1.toNat b.2.2.2 st⌝
  case inv14 =>
    rename_i b _ _ _ _ _ _ _ _ _ _ _ _ _ _ _
    exact ⇓ x => match x with
    | .inl st => ⌜QSc b.2.1.toNat b.2.2.1.toNat b.2.2.2 st⌝
    | .inr st => ⌜QSc b.2.1.toNat b.2.2.1.toNat b.2.2.2 st ∧
        (lim < st.2.1.w2.toNat ∨ lim < st.1.w2.toNat)⌝
  case inv15 => exact fun st => ⟨st.2.2.toNat⟩
  case inv16 =>
    rename_i b _ _ _ _ _ _ _ _ _ _ _ _ _ _ _ s2 _ _ _ _ _ tq _ _ _ _
    exact ⇓ x => match x with
    | .inl st => ⌜QRed (s2.1.toNat + tq.1.toNat) b.1 s2.2.2 st⌝
    | .inr st => ⌜QRed (s2.1.toNat + tq.1.toNat) b.1 s2.2.2 st ∧ st.2.2.w3 = 0⌝
  all_goals (simp +zetaDelta at *)
  case vc1 =>
    rename_i h
    left
    refine ⟨?_, rfl⟩
    simp [U192.toNat, h.1.1, h.1.2, h.2]
  case vc2 =>
    rename_i hD hz hinv
    exact vc_up _ _ 10000000000000000000 19 (by decide) (by norm_num) (sig_ne_zero d hD) (fit19 _ hz) hinv
  case vc3 | vc6 => rename_i hinv; exact hinv.2
  case vc4 => exact ScUp.refl d
  case vc5 =>
    rename_i hD hz hinv
    exact vc_up _ _ 10000 4 (by decide) (by norm_num) (sig_ne_zero d hD) (fit4 _ hz) hinv
  case vc7 | vc10 => rename_i h _; exact h
  case vc8 =>
    rename_i hD hz hinv
    exact vc_up _ _ 10 1 (by decide) (by norm_num) (sig_ne_zero d hD) (fit1 _ hz) hinv
  case vc9 =>
    rename_i hz hinv
    exact ⟨hinv.2, ge_LIM_of_not_le _ (by rw [UInt64.not_le]; exact hz)⟩
  case vc11 =>
    rename_i hdiv _ hg hinv hnz
    have := TrO.step hinv.2 _ _ hdiv hg
    rw [if_neg hnz] at this
    exact ⟨by rw [hinv.1]; exact this.1, this.2⟩
  case vc12 =>
    rename_i hdiv _ hg hinv hz
    have := TrO.step hinv.2 _ _ hdiv hg
    rw [if_pos hz] at this
    exact ⟨by rw [hinv.1]; exact this.1, this.2⟩
  case vc13 => rename_i hlt hinv; exact ⟨hinv.2, lt_OLIM_of_lt _ hlt⟩
  case vc14 => exact TrO.refl o t
  case vc15 | vc22 =>
    exact TrO.ne_zero (O := o.sig.toNat) (t0 := t) (e0 := o.exp) (And.left (by assumption))
      (by assumption)
  case vc16 =>
    rename_i _ hc hq hz hinv
    obtain ⟨_, _, _, _, _, _, _, _, h1⟩ := hq.2
    exact QSc.step _ 10000 4 (by decide) (by norm_num) h1 (fit4 _ hz.2) (fit4 _ hz.1) hinv
  case vc17 => rename_i hinv; exact hinv.2
  case vc21 => assumption
  case vc18 => exact QSc.refl _ _ _
  case vc19 =>
    rename_i _ hc hq hz hinv
    obtain ⟨_, _, _, _, _, _, _, _, h1⟩ := hq.2
    exact QSc.step _ 10 1 (by decide) (by norm_num) h1 (fit1 _ hz.2) (fit1 _ hz.1) hinv
  case vc20 => rename_i hex hinv; exact ⟨hinv.2, exit2 _ _ hex⟩
  case vc23 => rename_i hdiv _ _ _ hw hinv hnz; exact QRed.vc_nz _ _ _ hdiv hw hinv hnz
  case vc24 => rename_i hdiv _ _ _ hw hinv hz; exact QRed.vc_z _ _ _ hdiv hw hinv hz
  case vc25 => rename_i hw hinv; exact ⟨hinv.2, hw⟩
  case vc26 => exact QRed.init _ _ _ _
  case vc27 =>
    rename_i hcond hinv
    exact QSt.next _ _ _ _ _
      (TrO.ne_zero (O := o.sig.toNat) (t0 := t) (e0 := o.exp) (And.left (by assumption)) (by assumption))
      (And.right (by assumption)) hcond.2 hinv (by assumption) (by assumption) (by assumption)
  case vc31 => rename_i hex hinv; exact ⟨hinv.2, exit_outer _ _ hex⟩
  case vc32 =>
    exact QSt.init _ _ _ _ _ _ (And.left (by assumption)) (And.right (by assumption))
      (And.right (by assumption)) (And.right (by assumption))
      (TrO.ne_zero (O := o.sig.toNat) (t0 := t) (e0 := o.exp) (And.left (by assumption)) (by assumption))
  case vc33 =>
    rename_i hst _ hnz
    right
    have hO0 := TrO.ne_zero (O := o.sig.toNat) (t0 := t) (e0 := o.exp) (And.left (by assumption))
      (by assumption)
    exact ⟨Nat.pos_iff_ne_zero.mp (sig_ne_zero d (by assumption)), _, _,
      QFin.of_nz (Nat.pos_of_ne_zero hO0) hst.1 hst.2 hnz, by assumption, by assumption, hO0⟩
  case vc34 =>
    rename_i hst _ hz
    right
    have hO0 := TrO.ne_zero (O := o.sig.toNat) (t0 := t) (e0 := o.exp) (And.left (by assumption))
      (by assumption)
    exact ⟨Nat.pos_iff_ne_zero.mp (sig_ne_zero d (by assumption)), _, _,
      QFin.of_z (Nat.pos_of_ne_zero hO0) hst.1 hst.2 hz, by assumption, by assumption, hO0⟩

end D192
