/-
  D128/Proofs/AddAlignTail.lean — the epilogue of `Gen.Decimal.add` (`AD.tail`, from `if dNeg == oNeg`
  on) against the rounding-kernel theorems `reduce128_correct` / `reduce192_correct`.

  Provided (namespace `AD`):
  * `mode4`            : `(rm == 4) = (m == .toNegInf)` for a valid mode byte
  * `flush_eq_round`   : `flushOrRoundS = roundToS` for magnitudes `q·10^k` with `q ≥ 1`, `k ≥ -6176`
  * `finish_round`     : the common `if exp > maxBiasedExponent {inf} else {compose}` after a reduction
  * `u192_isZ`, `u128_isZ`, `sign_facts`, `same_zero`, `hfl_of`
  * `exD`, `exO`, `TailCase` : the exact operands behind the aligned significands and what the alignment
                         guarantees about the sticky flag (`trunc = ±1` comes with the other operand
                         `≥ 25·2^120` and the truncated one `< 2^110`)
  * `red128`           : a `reduce128` call of the epilogue (sticky 0 or -1) followed by `finish`
  * `tail_same`, `tail_diff` : equal / opposite effective signs (the latter with and without borrow)
  * `tail_correct`     : the aligned significands `dS`, `oS` (one of them possibly truncated, the sticky
                         flag `trunc` standing for the dropped fraction `φ`) at the common exponent `E`:
                         the epilogue returns the member selected for the exact signed sum `S·10^(E-6176)`
-/
import D128.Proofs.AddCode
import D128.Proofs.MulQuoMul
import D128.Proofs.SpecRound

set_option autoImplicit false
set_option maxRecDepth 4096
set_option linter.unusedVariables false

namespace AD
open Gen Spec
local notation "𝔳[" d "]" => Spec.interp (Gen.Decimal.lo d) (Gen.Decimal.hi d)

theorem mode4 (rm : UInt8) (m : Spec.Mode) (hm : Spec.Mode.ofNat? rm.toNat = some m) :
    (rm == 4) = (m == Spec.Mode.toNegInf) := by
  have hlt := RK.ofNat?_lt _ _ hm
  have hr := (UInt8.ofNat_toNat (x := rm)).symm
  interval_cases h : rm.toNat
  all_goals
    subst hr
    simp only [Spec.Mode.ofNat?, Option.some.injEq] at hm
    subst hm
    rfl

theorem flush_eq_round (m : Mode) (neg : Bool) (q : ℚ) (hq : 1 ≤ q) (k : Int) (hk : -6176 ≤ k) :
    Spec.flushOrRoundS m neg q k = Spec.roundToS m neg q k := by
  have hq0 : 0 < q := by linarith
  unfold Spec.flushOrRoundS
  have h0 : ¬ q = 0 := hq0.ne'
  have h1 : ¬ Spec.ilog10 q + k < Spec.Emin - 1 := by
    have : ¬ Spec.ilog10 q < 0 := by
      rw [SpecRound.ilog10_lt_iff q hq0]; simpa using hq
    unfold Spec.Emin; omega
  simp only [beq_iff_eq, h0, h1, ↓reduceIte]

/-- after a reduction whose exact magnitude is `q·10^(E-6176)` with `q ≥ 1`: the epilogue returns a
    Decimal denoting `roundToS m neg q (E-6176)` -/
theorem finish_round (m : Mode) (neg : Bool) (q : ℚ) (hq : 1 ≤ q) (E : Int) (hE : 0 ≤ E)
    (x : U128 × Int16)
    (h : if x.2.toInt > 12287 then Spec.flushOrRoundS m neg q (E - 6176) = .inf neg
         else x.1.toNat ≤ Spec.Cmax ∧ 0 ≤ x.2.toInt ∧
           (Spec.flushOrRoundS m neg q (E - 6176)).same (.fin neg x.1.toNat (x.2.toInt - 6176)) = true) :
    ∃ r, finish neg x = .ok r ∧ (𝔳[r]).same (Spec.roundToS m neg q (E - 6176)) = true := by
  rw [flush_eq_round m neg q hq _ (by omega)] at h
  exact MQ.finish _ neg x h

theorem u192_isZ (s : U192) : ((s.w0 ||| s.w1 ||| s.w2) == (0 : UInt64)) = true ↔ s.toNat = 0 := by
  rw [beq_iff_eq, UInt64.or_eq_zero_iff, UInt64.or_eq_zero_iff]
  constructor
  · rintro ⟨⟨h0, h1⟩, h2⟩
    simp [U192.toNat, h0, h1, h2]
  · intro h
    simp only [U192.toNat] at h
    refine ⟨⟨?_, ?_⟩, ?_⟩ <;> apply UInt64.toNat_inj.1 <;> simp only [UInt64.toNat_zero] <;> omega

theorem u128_isZ (s : U128) : ((s.w0 ||| s.w1) == (0 : UInt64)) = true ↔ s.toNat = 0 := by
  rw [Sp.or_beq_zero]; simp

theorem sign_facts (neg : Bool) (q : ℚ) (hq : 0 < q) (S : ℚ) (hS : S = (if neg then -1 else 1) * q) :
    S ≠ 0 ∧ decide (S < 0) = neg ∧ |S| = q := by
  cases neg
  · simp only [Bool.false_eq_true, if_false, one_mul] at hS
    subst hS
    exact ⟨hq.ne', by simp [hq.le], abs_of_pos hq⟩
  · simp only [if_true] at hS
    subst hS
    refine ⟨by linarith, by simp [hq], ?_⟩
    rw [neg_one_mul, abs_neg, abs_of_pos hq]

theorem same_zero (a b : Bool) (h : a = b) (e e' : Int) :
    (Spec.Val.fin a 0 e).same (Spec.Val.fin b 0 e') = true := by
  subst h; simp [Spec.Val.same, Spec.mag]

/-- the exact operands the aligned significands stand for: the truncated one carries `φ` -/
def exD (dS : U128) (trunc : Int8) (φ : ℚ) : ℚ := (dS.toNat : ℚ) + (if trunc = 1 then φ else 0)
def exO (oS : U128) (trunc : Int8) (φ : ℚ) : ℚ := (oS.toNat : ℚ) + (if trunc = -1 then φ else 0)

theorem exD_zero (dS : U128) (φ : ℚ) : exD dS 0 φ = (dS.toNat : ℚ) := by
  unfold exD; rw [if_neg (by decide), add_zero]
theorem exD_one (dS : U128) (φ : ℚ) : exD dS 1 φ = (dS.toNat : ℚ) + φ := by
  unfold exD; rw [if_pos rfl]
theorem exD_neg (dS : U128) (φ : ℚ) : exD dS (-1) φ = (dS.toNat : ℚ) := by
  unfold exD; rw [if_neg (by decide), add_zero]
theorem exO_zero (oS : U128) (φ : ℚ) : exO oS 0 φ = (oS.toNat : ℚ) := by
  unfold exO; rw [if_neg (by decide), add_zero]
theorem exO_one (oS : U128) (φ : ℚ) : exO oS 1 φ = (oS.toNat : ℚ) := by
  unfold exO; rw [if_neg (by decide), add_zero]
theorem exO_neg (oS : U128) (φ : ℚ) : exO oS (-1) φ = (oS.toNat : ℚ) + φ := by
  unfold exO; rw [if_pos rfl]

/-- what the alignment guarantees about the sticky flag -/
def TailCase (dS oS : U128) (trunc : Int8) (φ : ℚ) : Prop :=
  (trunc = 0 ∧ φ = 0) ∨
  (trunc = 1 ∧ 0 < φ ∧ φ < 1 ∧ 25 * 2 ^ 120 ≤ oS.toNat ∧ dS.toNat < 2 ^ 110) ∨
  (trunc = -1 ∧ 0 < φ ∧ φ < 1 ∧ 25 * 2 ^ 120 ≤ dS.toNat ∧ oS.toNat < 2 ^ 110)

theorem tail_same (rm : UInt8) (m : Spec.Mode) (hm : Spec.Mode.ofNat? rm.toNat = some m)
    (dNeg : Bool) (dS : U128) (E : Int16) (oS : U128) (trunc : Int8) (φ : ℚ)
    (hE0 : 0 ≤ E.toInt) (hE1 : E.toInt ≤ 12287) (hcase : TailCase dS oS trunc φ)
    (S : ℚ) (hS : S = (if dNeg then -1 else 1) * exD dS trunc φ + (if dNeg then -1 else 1) * exO oS trunc φ) :
    ∃ r, tail rm dNeg dNeg dS E oS trunc = .ok r ∧
      (𝔳[r]).same (if S = 0 then .fin (m == .toNegInf) 0 0
        else Spec.roundToS m (decide (S < 0)) |S| (E.toInt - 6176)) = true := by
  have hsum : (U128.add dS oS).toNat = dS.toNat + oS.toNat := U128_add_toNat dS oS
  have hCm := RK.Cmax_val
  unfold tail
  rw [if_pos (by simp)]
  by_cases hz : ((U128.add dS oS).w0 ||| (U128.add dS oS).w1 ||| (U128.add dS oS).w2 == 0) = true
  · rw [if_pos hz]
    rw [u192_isZ, hsum] at hz
    have hd0 : dS.toNat = 0 := by omega
    have ho0 : oS.toNat = 0 := by omega
    have ht : trunc = 0 ∧ φ = 0 := by
      rcases hcase with h | ⟨_, _, _, h, _⟩ | ⟨_, _, _, h, _⟩
      · exact h
      · omega
      · omega
    have hS0 : S = 0 := by
      rw [hS, ht.1, exD_zero, exO_zero, hd0, ho0]; simp
    refine ⟨_, rfl, ?_⟩
    rw [if_pos hS0, Enc.interp_zero]
    exact same_zero _ _ (mode4 rm m hm) _ _
  · rw [if_neg hz]
    rw [u192_isZ, hsum] at hz
    have hpos : 1 ≤ dS.toNat + oS.toNat := by omega
    have hφ0 : 0 ≤ φ := by
      rcases hcase with ⟨_, h⟩ | ⟨_, h, _⟩ | ⟨_, h, _⟩
      · rw [h]
      · exact h.le
      · exact h.le
    have hq1 : (1 : ℚ) ≤ ((dS.toNat + oS.toNat : Nat) : ℚ) + φ := by
      have : (1 : ℚ) ≤ ((dS.toNat + oS.toNat : Nat) : ℚ) := by exact_mod_cast hpos
      linarith
    have hDO : exD dS trunc φ + exO oS trunc φ = ((dS.toNat + oS.toNat : Nat) : ℚ) + φ := by
      rcases hcase with ⟨h1, h2⟩ | ⟨h1, _⟩ | ⟨h1, _⟩
      · rw [h1, h2, exD_zero, exO_zero]; push_cast; ring
      · rw [h1, exD_one, exO_one]; push_cast; ring
      · rw [h1, exD_neg, exO_neg]; push_cast; ring
    have hSq : S = (if dNeg then -1 else 1) * (((dS.toNat + oS.toNat : Nat) : ℚ) + φ) := by
      rw [hS, ← mul_add, hDO]
    obtain ⟨hS0, hdec, habs⟩ := sign_facts dNeg _ (by linarith) S hSq
    rw [if_neg hS0, hdec, habs]
    -- the reduction with the combined sticky flag
    have hred : ∀ t' : Int8, RK.TruncRel t'.toInt φ → (t' = 1 → Spec.Cmax < dS.toNat + oS.toNat) →
        t' ≠ -1 →
        ∃ r, (do let x ← RoundingMode.reduce192 rm dNeg (U128.add dS oS) E t'
                 finish dNeg x) = .ok r ∧
          (𝔳[r]).same (Spec.roundToS m dNeg (((dS.toNat + oS.toNat : Nat) : ℚ) + φ)
            (E.toInt - 6176)) = true := by
      intro t' htr hT1 hne
      obtain ⟨s', e', hr, hpost⟩ := reduce192_correct rm m dNeg (U128.add dS oS) E t' φ hm
        (by omega) (by omega) htr (by rw [hsum]; linarith) (by rw [hsum]; exact hT1)
        (fun h => absurd h hne) (fun h => absurd h hne)
      rw [hr, RK.ok_bind]
      rw [hsum] at hpost
      exact finish_round m dNeg _ hq1 E.toInt hE0 (s', e') hpost
    rcases hcase with ⟨h1, h2⟩ | ⟨h1, h2, h3, h4, _⟩ | ⟨h1, h2, h3, h4, _⟩
    · subst h1
      rw [if_neg (by decide)]
      exact hred 0 (Or.inl ⟨rfl, h2⟩) (fun h => absurd h (by decide)) (by decide)
    · subst h1
      rw [if_neg (by decide)]
      exact hred 1 (Or.inr (Or.inl ⟨rfl, h2, h3⟩)) (fun _ => by rw [hCm]; omega) (by decide)
    · subst h1
      rw [if_pos (by decide)]
      exact hred 1 (Or.inr (Or.inl ⟨rfl, h2, h3⟩)) (fun _ => by rw [hCm]; omega) (by decide)

theorem hfl_of (q : ℚ) (hq : 1 ≤ q) (E : Int) (hE : 0 ≤ E) :
    Spec.pow10 (Spec.Emin - 1) ≤ q * Spec.pow10 (E - 6176) := by
  have h1 : Spec.pow10 (Spec.Emin - 1) ≤ Spec.pow10 (E - 6176) :=
    (RK.pow10_le_iff _ _).2 (by unfold Spec.Emin; omega)
  calc Spec.pow10 (Spec.Emin - 1) ≤ 1 * Spec.pow10 (E - 6176) := by rw [one_mul]; exact h1
    _ ≤ _ := mul_le_mul_of_nonneg_right hq (le_of_lt (RK.pow10_pos _))

/-- a `reduce128` call of the epilogue (sticky flag `0` or `-1`) followed by the final composition -/
theorem red128 (rm : UInt8) (m : Spec.Mode) (hm : Spec.Mode.ofNat? rm.toNat = some m)
    (neg : Bool) (sig : U128) (E : Int16) (t' : Int8) (τ : ℚ)
    (hE0 : 0 ≤ E.toInt) (hE1 : E.toInt ≤ 12287)
    (htr : RK.TruncRel t'.toInt τ) (hq1 : 1 ≤ (sig.toNat : ℚ) + τ) (hne : t' ≠ 1)
    (hbig : t' = -1 → 25 * 2 ^ 120 - 2 ^ 110 ≤ sig.toNat) :
    ∃ r, (do let x ← RoundingMode.reduce128 rm neg sig E t'
             finish neg x) = .ok r ∧
      (𝔳[r]).same (Spec.roundToS m neg ((sig.toNat : ℚ) + τ) (E.toInt - 6176)) = true := by
  have hCm := RK.Cmax_val
  obtain ⟨s', e', hr, hpost⟩ := reduce128_correct rm m neg sig E t' τ hm
    (by omega) (by omega) htr (by linarith) (fun h => absurd h hne)
    (fun h => by have := hbig h; rw [hCm]; exact ⟨by omega, Or.inl (by omega)⟩)
    (fun _ => hfl_of _ hq1 _ hE0)
  rw [hr, RK.ok_bind]
  exact finish_round m neg _ hq1 E.toInt hE0 (s', e') hpost

theorem tail_diff (rm : UInt8) (m : Spec.Mode) (hm : Spec.Mode.ofNat? rm.toNat = some m)
    (dNeg : Bool) (dS : U128) (E : Int16) (oS : U128) (trunc : Int8) (φ : ℚ)
    (hE0 : 0 ≤ E.toInt) (hE1 : E.toInt ≤ 12287) (hcase : TailCase dS oS trunc φ)
    (S : ℚ) (hS : S = (if dNeg then -1 else 1) * exD dS trunc φ
      + (if (!dNeg) then -1 else 1) * exO oS trunc φ) :
    ∃ r, tail rm dNeg (!dNeg) dS E oS trunc = .ok r ∧
      (𝔳[r]).same (if S = 0 then .fin (m == .toNegInf) 0 0
        else Spec.roundToS m (decide (S < 0)) |S| (E.toInt - 6176)) = true := by
  have hdl := dS.toNat_lt
  have hol := oS.toNat_lt
  have hS' : S = (if dNeg then -1 else 1) * (exD dS trunc φ - exO oS trunc φ) := by
    rw [hS]; cases dNeg <;> simp <;> ring
  unfold tail
  rw [if_neg (by cases dNeg <;> simp)]
  by_cases hb : ((U128.sub dS oS).2 != 0) = true
  · -- borrow: dS < oS
    rw [if_pos hb]
    have hlt : dS.toNat < oS.toNat := by
      rw [U128_sub_borrow] at hb
      by_contra hc
      rw [if_neg hc] at hb
      simp at hb
    have hsig : (U128.twos (U128.sub dS oS).1).toNat = oS.toNat - dS.toNat := by
      rw [U128_twos_toNat, U128_sub_toNat]; omega
    have hcast : ((oS.toNat - dS.toNat : Nat) : ℚ) = (oS.toNat : ℚ) - (dS.toNat : ℚ) := by
      rw [Nat.cast_sub hlt.le]
    have hge1 : (1 : ℚ) ≤ (oS.toNat : ℚ) - (dS.toNat : ℚ) := by
      rw [← hcast]; exact_mod_cast (by omega : 1 ≤ oS.toNat - dS.toNat)
    rcases hcase with ⟨h1, h2⟩ | ⟨h1, h2, h3, h4, h5⟩ | ⟨h1, h2, h3, h4, h5⟩
    · subst h1 h2
      have hSq : S = (if (!dNeg) then -1 else 1) * (((U128.twos (U128.sub dS oS).1).toNat : ℚ) + 0) := by
        rw [hS', hsig, hcast, exD_zero, exO_zero]; cases dNeg <;> simp
      obtain ⟨hS0, hdec, habs⟩ := sign_facts (!dNeg) _ (by rw [hsig, hcast]; linarith) S hSq
      rw [if_neg hS0, hdec, habs]
      exact red128 rm m hm (!dNeg) _ E ((0 : Int8) * -1) 0 hE0 hE1 (Or.inl ⟨rfl, rfl⟩)
        (by rw [hsig, hcast]; linarith) (by decide) (fun h => absurd h (by decide))
    · subst h1
      have hSq : S = (if (!dNeg) then -1 else 1) * (((U128.twos (U128.sub dS oS).1).toNat : ℚ) + -φ) := by
        rw [hS', hsig, hcast, exD_one, exO_one]; cases dNeg <;> simp <;> ring
      have hge2 : (2 : ℚ) ≤ (oS.toNat : ℚ) - (dS.toNat : ℚ) := by
        rw [← hcast]; exact_mod_cast (by omega : 2 ≤ oS.toNat - dS.toNat)
      obtain ⟨hS0, hdec, habs⟩ := sign_facts (!dNeg) _ (by rw [hsig, hcast]; linarith) S hSq
      rw [if_neg hS0, hdec, habs]
      exact red128 rm m hm (!dNeg) _ E ((1 : Int8) * -1) (-φ) hE0 hE1
        (Or.inr (Or.inr ⟨rfl, by linarith, by linarith⟩))
        (by rw [hsig, hcast]; linarith) (by decide) (fun _ => by rw [hsig]; omega)
    · omega
  · -- no borrow: oS ≤ dS
    rw [if_neg hb]
    have hle : oS.toNat ≤ dS.toNat := by
      rw [U128_sub_borrow] at hb
      by_contra hc
      rw [if_pos (by omega)] at hb
      simp at hb
    have hsig : (U128.sub dS oS).1.toNat = dS.toNat - oS.toNat := U128_sub_toNat_of_le dS oS hle
    have hcast : ((dS.toNat - oS.toNat : Nat) : ℚ) = (dS.toNat : ℚ) - (oS.toNat : ℚ) := by
      rw [Nat.cast_sub hle]
    by_cases hz : ((U128.sub dS oS).1.w0 ||| (U128.sub dS oS).1.w1 == 0) = true
    · rw [if_pos hz]
      rw [u128_isZ, hsig] at hz
      have heq : dS.toNat = oS.toNat := by omega
      have ht : trunc = 0 ∧ φ = 0 := by
        rcases hcase with h | ⟨_, _, _, h, h'⟩ | ⟨_, _, _, h, h'⟩
        · exact h
        · omega
        · omega
      have hS0 : S = 0 := by
        rw [hS', ht.1, exD_zero, exO_zero, heq]; simp
      refine ⟨_, rfl, ?_⟩
      rw [if_pos hS0, Enc.interp_zero]
      exact same_zero _ _ (mode4 rm m hm) _ _
    · rw [if_neg hz]
      rw [u128_isZ, hsig] at hz
      have hge1 : (1 : ℚ) ≤ (dS.toNat : ℚ) - (oS.toNat : ℚ) := by
        rw [← hcast]; exact_mod_cast (by omega : 1 ≤ dS.toNat - oS.toNat)
      rcases hcase with ⟨h1, h2⟩ | ⟨h1, h2, h3, h4, h5⟩ | ⟨h1, h2, h3, h4, h5⟩
      · subst h1 h2
        have hSq : S = (if dNeg then -1 else 1) * (((U128.sub dS oS).1.toNat : ℚ) + 0) := by
          rw [hS', hsig, hcast, exD_zero, exO_zero]; simp
        obtain ⟨hS0, hdec, habs⟩ := sign_facts dNeg _ (by rw [hsig, hcast]; linarith) S hSq
        rw [if_neg hS0, hdec, habs]
        exact red128 rm m hm dNeg _ E 0 0 hE0 hE1 (Or.inl ⟨rfl, rfl⟩)
          (by rw [hsig, hcast]; linarith) (by decide) (fun h => absurd h (by decide))
      · omega
      · subst h1
        have hSq : S = (if dNeg then -1 else 1) * (((U128.sub dS oS).1.toNat : ℚ) + -φ) := by
          rw [hS', hsig, hcast, exD_neg, exO_neg]; ring
        have hge2 : (2 : ℚ) ≤ (dS.toNat : ℚ) - (oS.toNat : ℚ) := by
          rw [← hcast]; exact_mod_cast (by omega : 2 ≤ dS.toNat - oS.toNat)
        obtain ⟨hS0, hdec, habs⟩ := sign_facts dNeg _ (by rw [hsig, hcast]; linarith) S hSq
        rw [if_neg hS0, hdec, habs]
        exact red128 rm m hm dNeg _ E (-1) (-φ) hE0 hE1
          (Or.inr (Or.inr ⟨rfl, by linarith, by linarith⟩))
          (by rw [hsig, hcast]; linarith) (by decide) (fun _ => by rw [hsig]; omega)

/-- **the epilogue of `add`.**  With the aligned significands `dS`, `oS` at the common biased exponent
    `E`, the sticky flag standing for the dropped fraction `φ` of the truncated operand (`TailCase`),
    and `S` the exact signed sum in units of `10^(E-6176)`: the epilogue returns a Decimal denoting the
    member selected for `S·10^(E-6176)` (`+0`, or `-0` when rounding toward −∞, for an exact zero). -/
theorem tail_correct (rm : UInt8) (m : Spec.Mode) (hm : Spec.Mode.ofNat? rm.toNat = some m)
    (dNeg oNeg : Bool) (dS : U128) (E : Int16) (oS : U128) (trunc : Int8) (φ : ℚ)
    (hE0 : 0 ≤ E.toInt) (hE1 : E.toInt ≤ 12287) (hcase : TailCase dS oS trunc φ)
    (S : ℚ) (hS : S = (if dNeg then -1 else 1) * exD dS trunc φ
      + (if oNeg then -1 else 1) * exO oS trunc φ) :
    ∃ r, tail rm dNeg oNeg dS E oS trunc = .ok r ∧
      (𝔳[r]).same (if S = 0 then .fin (m == .toNegInf) 0 0
        else Spec.roundToS m (decide (S < 0)) |S| (E.toInt - 6176)) = true := by
  by_cases h : oNeg = dNeg
  · subst h
    exact tail_same rm m hm oNeg dS E oS trunc φ hE0 hE1 hcase S hS
  · have h' : oNeg = !dNeg := by cases oNeg <;> cases dNeg <;> simp_all
    subst h'
    exact tail_diff rm m hm dNeg dS E oS trunc φ hE0 hE1 hcase S hS

/-- the hypotheses of `tail_correct` are satisfiable: a positive operand that was truncated to zero with
    fraction 1/2 against a negative operand `25·2^120` (subtraction with borrow and negative sticky) -/
example := tail_correct 4 .toNegInf rfl false true ⟨0, 0⟩ 6176 ⟨0, 1801439850948198400⟩ 1 (1 / 2)
  (by decide) (by decide)
  (Or.inr (Or.inl ⟨rfl, by norm_num, by norm_num, by simp [U128.toNat], by simp [U128.toNat]⟩)) _ rfl

end AD
