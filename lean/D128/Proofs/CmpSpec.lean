/-
  The specification side: `Spec.cmp` on finite values in terms of natural-number comparisons.

  * `spec_cmp_fin`       — uniform formula for `Spec.cmp (.fin n a (ed-6176)) (.fin n' b (eo-6176))`
  * `spec_cmp_same_sign` — equal signs, non-zero coefficients: `Int8.ofInt (Spec.cmp …) = magSpec …`
  * `spec_cmp_diff_sign`, `spec_cmp_zero_left`, `spec_cmp_zero_right`, `spec_cmp_zero_zero`,
    `spec_cmp_refl_fin`  — the prologue cases
-/
import D128.Proofs.CmpCore
import D128.Spec.Arith
set_option autoImplicit false

namespace CmpPf

theorem spec_cmp_fin (n n' : Bool) (a b ed eo : Nat) :
    Spec.cmp (.fin n a ((ed : Int) - 6176)) (.fin n' b ((eo : Int) - 6176)) =
      if (if n then -((a * 10 ^ (ed - eo) : Nat) : Int) else ((a * 10 ^ (ed - eo) : Nat) : Int)) <
         (if n' then -((b * 10 ^ (eo - ed) : Nat) : Int) else ((b * 10 ^ (eo - ed) : Nat) : Int))
      then -1
      else if (if n then -((a * 10 ^ (ed - eo) : Nat) : Int) else ((a * 10 ^ (ed - eo) : Nat) : Int)) =
         (if n' then -((b * 10 ^ (eo - ed) : Nat) : Int) else ((b * 10 ^ (eo - ed) : Nat) : Int))
      then 0 else 1 := by
  unfold Spec.cmp
  have h1 : ((ed : Int) - 6176 -
      (if (ed : Int) - 6176 ≤ (eo : Int) - 6176 then (ed : Int) - 6176 else (eo : Int) - 6176)).toNat
      = ed - eo := by split <;> omega
  have h2 : ((eo : Int) - 6176 -
      (if (ed : Int) - 6176 ≤ (eo : Int) - 6176 then (ed : Int) - 6176 else (eo : Int) - 6176)).toNat
      = eo - ed := by split <;> omega
  simp only [h1, h2, beq_iff_eq]

theorem i8_lits : Int8.ofInt (-1) = -1 ∧ Int8.ofInt 0 = 0 ∧ Int8.ofInt 1 = 1 ∧ Int8.ofInt (-2) = -2 ∧
    (1 : Int8) * (-1) = -1 ∧ (-1 : Int8) * (-1) = 1 ∧ (1 : Int8) * (-1) * (-1) = 1 ∧
    (-1 : Int8) * (-1) * (-1) = -1 := by decide

/-- three-way comparison of integers against `cmp3` on naturals -/
theorem int_cmp_pos (x y : Nat) :
    Int8.ofInt (if (x : Int) < (y : Int) then -1 else if (x : Int) = (y : Int) then 0 else 1) =
      cmp3 x y 1 := by
  obtain ⟨l1, l2, l3, _, l5, _⟩ := i8_lits
  unfold cmp3
  by_cases h1 : x = y
  · subst h1; simp [l2]
  · by_cases h2 : x < y
    · have : (x : Int) < y := by omega
      simp [h1, h2, this, l1, l5]
    · have h3 : ¬ (x : Int) < y := by omega
      have h4 : ¬ (x : Int) = y := by omega
      simp [h1, h2, h3, h4, l3]

theorem int_cmp_neg (x y : Nat) :
    Int8.ofInt (if -(x : Int) < -(y : Int) then -1 else if -(x : Int) = -(y : Int) then 0 else 1) =
      cmp3 x y (-1) := by
  obtain ⟨l1, l2, l3, _, _, l6, _⟩ := i8_lits
  unfold cmp3
  by_cases h1 : x = y
  · subst h1; simp [l2]
  · by_cases h2 : x < y
    · have h3 : ¬ -(x : Int) < -(y : Int) := by omega
      have h4 : ¬ -(x : Int) = -(y : Int) := by omega
      simp only [h1, h2, h3, h4, if_false, if_true, l3, l6]
    · have h3 : -(x : Int) < -(y : Int) := by omega
      simp only [h1, h2, h3, if_false, if_true, l1]

theorem cmp3_swap (x y : Nat) (res : Int8) (hres : res = 1 ∨ res = -1) :
    cmp3 y x (res * (-1)) = cmp3 x y res := by
  obtain ⟨_, _, _, _, l5, l6, l7, l8⟩ := i8_lits
  unfold cmp3
  by_cases h1 : x = y
  · subst h1; simp
  · have h1' : ¬ y = x := fun h => h1 h.symm
    by_cases h2 : x < y
    · have h3 : ¬ y < x := by omega
      simp only [h1, h1', h2, h3, if_false, if_true]
    · have h3 : y < x := by omega
      rcases hres with rfl | rfl
      · simp only [h1, h1', h2, h3, if_false, if_true, l7]
      · simp only [h1, h1', h2, h3, if_false, if_true, l8]

/-- `magSpec` is the comparison of the two scaled coefficients -/
theorem magSpec_eq (a ed b eo : Nat) (res : Int8) (hres : res = 1 ∨ res = -1) :
    magSpec a ed b eo res = cmp3 (a * 10 ^ (ed - eo)) (b * 10 ^ (eo - ed)) res := by
  unfold magSpec
  by_cases h : eo ≤ ed
  · have : eo - ed = 0 := by omega
    rw [if_pos h, this]; simp
  · have : ed - eo = 0 := by omega
    rw [if_neg h, this, cmp3_swap _ _ _ hres]; simp

theorem spec_cmp_same_sign (n : Bool) (a b ed eo : Nat) :
    Int8.ofInt (Spec.cmp (.fin n a ((ed : Int) - 6176)) (.fin n b ((eo : Int) - 6176))) =
      magSpec a ed b eo (if n then -1 else 1) := by
  rw [spec_cmp_fin]
  cases n
  · rw [magSpec_eq _ _ _ _ _ (by simp)]
    simp only [Bool.false_eq_true, if_false]
    exact int_cmp_pos _ _
  · rw [magSpec_eq _ _ _ _ _ (by simp)]
    simp only [if_true]
    exact int_cmp_neg _ _

theorem spec_cmp_diff_sign (n n' : Bool) (a b ed eo : Nat) (hn : n ≠ n') (ha : 0 < a) (hb : 0 < b) :
    Spec.cmp (.fin n a ((ed : Int) - 6176)) (.fin n' b ((eo : Int) - 6176)) =
      if n then -1 else 1 := by
  rw [spec_cmp_fin]
  have hA : 0 < a * 10 ^ (ed - eo) := by positivity
  have hB : 0 < b * 10 ^ (eo - ed) := by positivity
  generalize a * 10 ^ (ed - eo) = A at *
  generalize b * 10 ^ (eo - ed) = B at *
  cases n <;> cases n'
  · exact absurd rfl hn
  · simp only [Bool.false_eq_true, if_false, if_true]
    rw [if_neg (by omega), if_neg (by omega)]
  · simp only [Bool.false_eq_true, if_false, if_true]
    rw [if_pos (by omega)]
  · exact absurd rfl hn

theorem spec_cmp_zero_left (n n' : Bool) (b ed eo : Nat) (hb : 0 < b) :
    Spec.cmp (.fin n 0 ((ed : Int) - 6176)) (.fin n' b ((eo : Int) - 6176)) =
      if n' then 1 else -1 := by
  rw [spec_cmp_fin]
  have hB : 0 < b * 10 ^ (eo - ed) := by positivity
  generalize b * 10 ^ (eo - ed) = B at *
  cases n <;> cases n' <;> simp only [Bool.false_eq_true, if_false, if_true, Nat.zero_mul,
    Int.natCast_zero, Int.neg_zero]
  · rw [if_pos (by omega)]
  · rw [if_neg (by omega), if_neg (by omega)]
  · rw [if_pos (by omega)]
  · rw [if_neg (by omega), if_neg (by omega)]

theorem spec_cmp_zero_right (n n' : Bool) (a ed eo : Nat) (ha : 0 < a) :
    Spec.cmp (.fin n a ((ed : Int) - 6176)) (.fin n' 0 ((eo : Int) - 6176)) =
      if n then -1 else 1 := by
  rw [spec_cmp_fin]
  have hA : 0 < a * 10 ^ (ed - eo) := by positivity
  generalize a * 10 ^ (ed - eo) = A at *
  cases n <;> cases n' <;> simp only [Bool.false_eq_true, if_false, if_true, Nat.zero_mul,
    Int.natCast_zero, Int.neg_zero]
  · rw [if_neg (by omega), if_neg (by omega)]
  · rw [if_neg (by omega), if_neg (by omega)]
  · rw [if_pos (by omega)]
  · rw [if_pos (by omega)]

theorem spec_cmp_zero_zero (n n' : Bool) (ed eo : Nat) :
    Spec.cmp (.fin n 0 ((ed : Int) - 6176)) (.fin n' 0 ((eo : Int) - 6176)) = 0 := by
  rw [spec_cmp_fin]
  cases n <;> cases n' <;> simp

theorem spec_cmp_refl_fin (n : Bool) (a : Nat) (e : Int) :
    Spec.cmp (.fin n a e) (.fin n a e) = 0 := by
  unfold Spec.cmp
  simp

end CmpPf
