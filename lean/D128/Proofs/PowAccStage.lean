/-
  D128/Proofs/PowAccStage.lean — property C18, general path of `Pow`: the stage after the product `y·ln|x|`
  (`PowAcc.genAfterMul`: range test on the product, `epow`, range test on its exponent, optional reciprocal, final
  rounding), for an abstract true exponent `p = |y·ln|x||`, error bound `B` of the computed product and tolerance `tol`.

  Provided (namespace `PowAcc`):
  * `good_out`, `outV_good` : an early `Inf` / zero is right when `e^p ≥ 10^6200`
  * `arg_split`, `exp_sgn`  : `ln x · y = ±|ln x|·|y|` by the orientation flags of the code
  * `lv_bounds`, `p_from_pv`, `small_bounds`, `val_log_bounds` : real-number bounds used along the path
  * `stage_mul`             : every result of `genAfterMul rm neg sgn (res, t1)` is `PowGood neg tol (e^(±p))`
-/
import D128.Proofs.PowAccChain
set_option autoImplicit false
set_option maxRecDepth 8192

namespace PowAcc
open Gen D192 Spec SpecRound EnclPf ExpAcc LogAcc PowPf RK
local notation "𝔳[" d "]" => Spec.interp (Gen.Decimal.lo d) (Gen.Decimal.hi d)

theorem good_out (neg sgn : Bool) {tol Q : ℝ} (ht0 : 0 ≤ tol) (hQ : (10 : ℝ) ^ (6200 : ℕ) ≤ Q) :
    PowGood neg tol (if sgn = true then 1 / Q else Q) 𝔳[if sgn = true then Gen.zero neg else Gen.inf neg] := by
  have hQ0 : 0 < Q := lt_of_lt_of_le (by positivity) hQ
  cases sgn
  · simp only [Bool.false_eq_true, if_false]
    rw [Enc.interp_inf]
    exact good_inf neg ht0 (le_trans (pow_le_pow_right₀ (by norm_num) (by norm_num)) hQ)
  · simp only [if_true]
    rw [Enc.interp_zero]
    exact good_zero neg ht0 (by positivity) (one_div_le_one_div_of_le (by positivity) hQ) _

theorem ret_out {neg c : Bool} {r : Decimal}
    (h : ((if c = true then pure (Gen.zero neg) else pure (Gen.inf neg)) : Go.GoM Decimal) = .ok r) :
    r = if c = true then Gen.zero neg else Gen.inf neg := by
  cases c
  · have : Gen.inf neg = r := by injection h
    rw [← this]; rfl
  · have : Gen.zero neg = r := by injection h
    rw [← this]; rfl

/-- the exponent `ln x · y` by the orientation flags -/
theorem arg_split {X Ya : ℝ} (hX : 0 < X) (inv oNeg : Bool) (hinv : inv = true ↔ X < 1) :
    Real.log X * (if oNeg = true then -Ya else Ya)
      = if (oNeg != inv) = true then -(|Real.log X| * Ya) else |Real.log X| * Ya := by
  cases inv
  · have h1 : 1 ≤ X := by
      by_contra hc
      have := hinv.2 (not_le.1 hc); cases this
    rw [abs_of_nonneg (Real.log_nonneg h1)]
    cases oNeg <;> simp
  · have h1 : X < 1 := hinv.1 rfl
    rw [abs_of_neg (Real.log_neg hX h1)]
    cases oNeg <;> simp

theorem exp_sgn (sgn : Bool) (p : ℝ) :
    Real.exp (if sgn = true then -p else p) = if sgn = true then 1 / Real.exp p else Real.exp p := by
  cases sgn
  · simp
  · simp [Real.exp_neg]

theorem e40000 {p : ℝ} (h : 40000 ≤ p) : (10 : ℝ) ^ (6200 : ℕ) ≤ Real.exp p :=
  le_trans (pow_le_pow_right₀ (by norm_num) (by norm_num)) (exp_gt_of_ge h).le

/-! ## real-number bounds used along the path -/

theorem lv_bounds {κ' Lx Lv : ℝ} (hκ1 : κ' ≤ 1 / 10 ^ 30) (hL : 1 / 10 ^ 36 ≤ Lx)
    (hLv : |Lv - Lx| ≤ κ' * Lx + 45 / 10 ^ 57) : 3 / 4 * Lx ≤ Lv ∧ Lv ≤ 2 * Lx ∧ 0 < Lv := by
  obtain ⟨h1, h2⟩ := abs_le.1 hLv
  have hLpos : 0 < Lx := lt_of_lt_of_le (by norm_num) hL
  have h3 : κ' * Lx ≤ 1 / 10 ^ 30 * Lx := mul_le_mul_of_nonneg_right hκ1 hLpos.le
  have h4 : (45 : ℝ) / 10 ^ 57 ≤ 1 / 10 ^ 19 * Lx := by
    have : (45 : ℝ) / 10 ^ 57 ≤ 1 / 10 ^ 19 * (1 / 10 ^ 36) := by norm_num
    have : 1 / 10 ^ 19 * (1 / 10 ^ 36 : ℝ) ≤ 1 / 10 ^ 19 * Lx := mul_le_mul_of_nonneg_left hL (by norm_num)
    linarith
  have h5 : (1 : ℝ) / 10 ^ 30 * Lx + 1 / 10 ^ 19 * Lx ≤ 1 / 4 * Lx := by
    have : ((1 : ℝ) / 10 ^ 30 + 1 / 10 ^ 19) * Lx ≤ 1 / 4 * Lx := mul_le_mul_of_nonneg_right (by norm_num) hLpos.le
    linarith
  refine ⟨by linarith, by linarith, by linarith⟩

theorem p_from_pv {Lx Lv Ya pv : ℝ} (hL : 0 < Lx) (hY : 0 < Ya) (h34 : 3 / 4 * Lx ≤ Lv) (h2 : Lv ≤ 2 * Lx)
    (hp1 : Lv * Ya * (1 - 2 / 10 ^ 57) ≤ pv) (hp2 : pv ≤ Lv * Ya) :
    pv ≤ 2 * (Lx * Ya) ∧ Lx * Ya ≤ 2 * pv := by
  have h3 : Lv * Ya ≤ 2 * Lx * Ya := mul_le_mul_of_nonneg_right h2 hY.le
  have h4 : 3 / 4 * Lx * Ya ≤ Lv * Ya := mul_le_mul_of_nonneg_right h34 hY.le
  have h5 : 0 ≤ Lv * Ya := by
    have : 0 ≤ 3 / 4 * Lx * Ya := by positivity
    linarith
  have h6 : Lv * Ya * (3 / 4) ≤ Lv * Ya * (1 - 2 / 10 ^ 57) := mul_le_mul_of_nonneg_left (by norm_num) h5
  constructor
  · nlinarith
  · nlinarith

theorem small_bounds {κ' κ Lx Ya : ℝ} (hκ1 : κ' ≤ 1 / 10 ^ 30) (hκ2 : κ ≤ 1 / 10 ^ 29)
    (hL : 1 / 10 ^ 36 ≤ Lx) (hY : 0 < Ya) (hp : Lx * Ya ≤ 2 * 10 ^ 6) :
    Bk κ' Lx Ya ≤ 1 / 10 ^ 9 ∧ Ya * (κ * Lx + 1 / 10 ^ 55) ≤ 1 / 1000 := by
  have hLpos : 0 < Lx := lt_of_lt_of_le (by norm_num) hL
  have hYa : Ya ≤ 2 * 10 ^ 42 := by
    have h1 : 1 / 10 ^ 36 * Ya ≤ Lx * Ya := mul_le_mul_of_nonneg_right hL hY.le
    have h2 : 1 / 10 ^ 36 * Ya ≤ 2 * 10 ^ 6 := le_trans h1 hp
    have e : Ya = 10 ^ 36 * (1 / 10 ^ 36 * Ya) := by field_simp
    rw [e]
    have : (10 : ℝ) ^ 36 * (1 / 10 ^ 36 * Ya) ≤ 10 ^ 36 * (2 * 10 ^ 6) := mul_le_mul_of_nonneg_left h2 (by norm_num)
    have e2 : (10 : ℝ) ^ 36 * (2 * 10 ^ 6) = 2 * 10 ^ 42 := by norm_num
    linarith
  constructor
  · unfold Bk
    have e : Ya * ((κ' + 4 / 10 ^ 57) * Lx + 46 / 10 ^ 57) = (κ' + 4 / 10 ^ 57) * (Lx * Ya) + 46 / 10 ^ 57 * Ya := by ring
    rw [e]
    have h1 : (κ' + 4 / 10 ^ 57) * (Lx * Ya) ≤ (1 / 10 ^ 30 + 4 / 10 ^ 57) * (2 * 10 ^ 6) :=
      mul_le_mul (by linarith) hp (by positivity) (by norm_num)
    have h2 : 46 / 10 ^ 57 * Ya ≤ 46 / 10 ^ 57 * (2 * 10 ^ 42) := mul_le_mul_of_nonneg_left hYa (by norm_num)
    have h3 : ((1 : ℝ) / 10 ^ 30 + 4 / 10 ^ 57) * (2 * 10 ^ 6) + 46 / 10 ^ 57 * (2 * 10 ^ 42) ≤ 1 / 10 ^ 9 := by norm_num
    linarith
  · have e : Ya * (κ * Lx + 1 / 10 ^ 55) = κ * (Lx * Ya) + 1 / 10 ^ 55 * Ya := by ring
    rw [e]
    have h1 : κ * (Lx * Ya) ≤ 1 / 10 ^ 29 * (2 * 10 ^ 6) := mul_le_mul hκ2 hp (by positivity) (by norm_num)
    have h2 : 1 / 10 ^ 55 * Ya ≤ 1 / 10 ^ 55 * (2 * 10 ^ 42) := mul_le_mul_of_nonneg_left hYa (by norm_num)
    have h3 : (1 : ℝ) / 10 ^ 29 * (2 * 10 ^ 6) + 1 / 10 ^ 55 * (2 * 10 ^ 42) ≤ 1 / 1000 := by norm_num
    linarith

/-- a working-format value is at least `10^exp` when its significand is non-zero, and below `10^(exp + ⌊log10 sig⌋ + 1)` -/
theorem val_log_bounds (x : decomposed192) (hs : x.sig.toNat ≠ 0) :
    ((10 : ℝ) ^ (x.exp.toInt + (Nat.log 10 x.sig.toNat : Int)) ≤ ((val x : ℚ) : ℝ)) ∧
    ((val x : ℚ) : ℝ) < (10 : ℝ) ^ (x.exp.toInt + (Nat.log 10 x.sig.toNat : Int) + 1) := by
  obtain ⟨hb1, hb2⟩ := log_bounds x.sig.toNat (Nat.pos_of_ne_zero hs)
  have hb1r : (10 : ℝ) ^ (Nat.log 10 x.sig.toNat : Int) ≤ (x.sig.toNat : ℝ) := by
    have : (((10 : ℚ) ^ (Nat.log 10 x.sig.toNat : Int) : ℚ) : ℝ) ≤ ((x.sig.toNat : ℚ) : ℝ) := by exact_mod_cast hb1
    push_cast at this; exact this
  have hb2r : (x.sig.toNat : ℝ) < (10 : ℝ) ^ ((Nat.log 10 x.sig.toNat : Int) + 1) := by
    have : ((x.sig.toNat : ℚ) : ℝ) < (((10 : ℚ) ^ ((Nat.log 10 x.sig.toNat : Int) + 1) : ℚ) : ℝ) := by exact_mod_cast hb2
    push_cast at this; exact this
  have hp : (0 : ℝ) < (10 : ℝ) ^ x.exp.toInt := zpow_pos (by norm_num) _
  rw [val_cast]
  constructor
  · rw [add_comm, zpow_add₀ (by norm_num)]
    exact mul_le_mul_of_nonneg_right hb1r hp.le
  · rw [show x.exp.toInt + (Nat.log 10 x.sig.toNat : Int) + 1 = ((Nat.log 10 x.sig.toNat : Int) + 1) + x.exp.toInt by ring,
      zpow_add₀ (by norm_num)]
    exact mul_lt_mul_of_pos_right hb2r hp


theorem outV_good (neg sgn : Bool) {tol Q : ℝ} (ht0 : 0 ≤ tol) (hQ : (10 : ℝ) ^ (6200 : ℕ) ≤ Q) (r : Decimal)
    (h : outV neg sgn = .ok r) : PowGood neg tol (if sgn = true then 1 / Q else Q) 𝔳[r] := by
  rw [outV_ok h]; exact good_out neg sgn ht0 hQ

/-- the exponent range needed by `epow` from the range of the product and the second range test -/
theorem epow_side (re k : Int) (h0 : -15900 ≤ re) (hk0 : 0 ≤ k) (hk : k < 58) (hg : ¬ re > 5 - k) :
    -15900 ≤ re ∧ re ≤ 16000 ∧ re + k + 1 ≤ 7 := by omega

theorem pow6201 {s : Nat} {e : Int} (hs : 10 ^ 55 ≤ s) (he : e > 6169) :
    (10 : ℝ) ^ (6201 : ℕ) ≤ (s : ℝ) * (10 : ℝ) ^ e := by
  have hs' : ((10 : ℝ) ^ (55 : ℕ)) ≤ (s : ℝ) := by exact_mod_cast hs
  have hp : (10 : ℝ) ^ (6170 : Int) ≤ (10 : ℝ) ^ e := zpow_le_zpow_right₀ (by norm_num) (by omega)
  have e1 : (10 : ℝ) ^ (6201 : ℕ) ≤ (10 : ℝ) ^ (55 : ℕ) * (10 : ℝ) ^ (6170 : Int) := by
    rw [← zpow_natCast, ← zpow_natCast, ← zpow_add₀ (by norm_num)]
    exact zpow_le_zpow_right₀ (by norm_num) (by norm_num)
  exact le_trans e1 (mul_le_mul hs' hp (zpow_pos (by norm_num) _).le (Nat.cast_nonneg _))

theorem q_of_pv {Q Ep Epv : ℝ} (h1 : Q * 10 ≤ Epv) (h2 : Epv ≤ Ep * 3) (h3 : 0 < Ep) : Q ≤ Ep := by linarith

/-- **the stage after the product**.  `pv = val res` is the computed `|y·ln|x||`, `p` the true one. -/
theorem stage_mul (rm : UInt8) (m : Spec.Mode) (hm : Spec.Mode.ofNat? rm.toNat = some m)
    (hn : isNearest m = true) (neg sgn : Bool) (res : decomposed192) (t1 : Int8) (p B tol : ℝ)
    (hrsig : res.sig.toNat ≠ 0) (hft1 : flag3 t1) (he0 : -15900 ≤ res.exp.toInt)
    (hp0 : 0 ≤ p) (hB0 : 0 ≤ B) (ht0 : 0 ≤ tol)
    (hpv2 : ((val res : ℚ) : ℝ) ≤ 2 * p)
    (hsmall : ((val res : ℚ) : ℝ) < 10 ^ 6 →
      |((val res : ℚ) : ℝ) - p| ≤ B ∧ B ≤ 1 / 10 ^ 9 ∧ tol ≤ 1 / 1000 ∧
      (B + 2 * B ^ 2 + 1 / 10 ^ 38) + 2 * (B + 2 * B ^ 2 + 1 / 10 ^ 38) ^ 2 + 2 / 10 ^ 55 ≤ tol / 2 + 15 / 10 ^ 39) :
    ∀ r : Decimal, genAfterMul rm neg sgn (res, t1) = .ok r →
      PowGood neg tol (if sgn = true then 1 / Real.exp p else Real.exp p) 𝔳[r] := by
  set pv : ℝ := ((val res : ℚ) : ℝ) with hpv
  have hk58 := log192_lt res.sig
  obtain ⟨hvl1, hvl2⟩ := val_log_bounds res hrsig
  -- the second range test
  by_cases hg : res.exp.toInt > 5 - (Nat.log 10 res.sig.toNat : Int)
  · rw [gAM_out hrsig hg]
    have hQ : (10 : ℝ) ^ (6200 : ℕ) ≤ Real.exp p := by
      apply e40000
      have h3 : (10 : ℝ) ^ (6 : Int) ≤ (10 : ℝ) ^ (res.exp.toInt + (Nat.log 10 res.sig.toNat : Int)) :=
        zpow_le_zpow_right₀ (by norm_num) (by omega)
      have h6 : (10 : ℝ) ^ (6 : Int) = 1000000 := by norm_num
      rw [h6] at h3
      linarith
    exact outV_good neg sgn ht0 hQ
  have hpv6 : pv < 10 ^ 6 := by
    have h3 : (10 : ℝ) ^ (res.exp.toInt + (Nat.log 10 res.sig.toNat : Int) + 1) ≤ (10 : ℝ) ^ (6 : Int) :=
      zpow_le_zpow_right₀ (by norm_num) (by omega)
    have h6 : (10 : ℝ) ^ (6 : Int) = 10 ^ 6 := by norm_num
    rw [h6] at h3
    linarith
  obtain ⟨hprod, hB9, htol1, hbud⟩ := hsmall hpv6
  -- epow
  have hl10 := conv_log192 (Nat.log 10 res.sig.toNat) (by omega)
  obtain ⟨hs1, hs2, hs3⟩ := epow_side res.exp.toInt (Nat.log 10 res.sig.toNat : Int) he0 (by positivity) (by omega) hg
  have hpre : EpowPre res (Go.conv (Int64.ofNat (Nat.log 10 res.sig.toNat)) : Int16) :=
    epowPre_of_log res _ hrsig hs1 hs2 hl10 (by rw [hl10]; exact hs3)
  obtain ⟨z, hz, hfacts⟩ := epow_any res _ t1 hpre hl10 hft1
  rw [gAM_epow hrsig hg hz]
  have hexp_p : Real.exp pv ≤ Real.exp p * 3 := by
    have h1 := (abs_le.1 hprod).2
    have h2 : pv ≤ p + 1 := by linarith [show (1:ℝ)/10^9 ≤ 1 by norm_num]
    calc Real.exp pv ≤ Real.exp (p + 1) := Real.exp_le_exp.2 h2
      _ = Real.exp p * Real.exp 1 := Real.exp_add _ _
      _ ≤ Real.exp p * 3 := by
        apply mul_le_mul_of_nonneg_left _ (Real.exp_pos _).le
        exact (Real.exp_one_lt_d9.le.trans (by norm_num))
  by_cases hbig : z.1.exp.toInt > 6169
  · -- the working exponent is beyond the range
    rw [gAE_out hbig]
    have hQ : (10 : ℝ) ^ (6200 : ℕ) ≤ Real.exp p := by
      have hpv_big : (10 : ℝ) ^ (6201 : ℕ) ≤ Real.exp pv := by
        rcases hfacts with ⟨-, hh⟩ | ⟨-, -, hv2, -, hsz, -⟩
        · exact le_trans (pow_le_pow_right₀ (by norm_num) (by norm_num)) hh
        · have hsz' : 10 ^ 55 ≤ z.1.sig.toNat := hsz.resolve_left (one_ne_big z.1 hbig)
          have hval : (10 : ℝ) ^ (6201 : ℕ) ≤ ((val z.1 : ℚ) : ℝ) := by
            rw [val_cast]; exact pow6201 hsz' hbig
          exact le_trans hval hv2
      have e1 : (10 : ℝ) ^ (6201 : ℕ) = (10 : ℝ) ^ (6200 : ℕ) * 10 := by rw [pow_succ]
      rw [e1] at hpv_big
      exact q_of_pv hpv_big hexp_p (Real.exp_pos _)
    exact outV_good neg sgn ht0 hQ
  rw [gAE_tail hbig]
  rcases hfacts with ⟨hd, -⟩ | ⟨hflag, hv1, hv2, -, -, -⟩
  · rw [hd, ExpAcc.dinf_exp] at hbig; omega
  -- the working value against the true power
  obtain ⟨hw1, hw2⟩ := work_close hB0 (by linarith [show (1:ℝ)/10^9 ≤ 1/2 by norm_num]) hprod hv1 hv2
  set η : ℝ := B + 2 * B ^ 2 + 1 / 10 ^ 38 with hη
  have hη0 : 0 ≤ η := by positivity
  have hη1 : η ≤ 1 / 10 ^ 8 := by
    have : B ^ 2 ≤ 1 / 10 ^ 9 * 1 := by
      rw [pow_two]
      exact mul_le_mul hB9 (by linarith [show (1:ℝ)/10^9 ≤ 1 by norm_num]) hB0 (by norm_num)
    rw [hη]
    have : (1 : ℝ) / 10 ^ 9 + 2 * (1 / 10 ^ 9 * 1) + 1 / 10 ^ 38 ≤ 1 / 10 ^ 8 := by norm_num
    linarith
  have hT0 : 1 ≤ Real.exp p := Real.one_le_exp hp0
  have hz1 : Real.exp p * (1 - η) ≤ ((val z.1 : ℚ) : ℝ) := by
    have : Real.exp p * (1 - η) ≤ Real.exp p * (1 - B - 1 / 10 ^ 38) := by
      apply mul_le_mul_of_nonneg_left _ (Real.exp_pos _).le
      rw [hη]; nlinarith [sq_nonneg B]
    linarith
  have hz2 : ((val z.1 : ℚ) : ℝ) ≤ Real.exp p * (1 + η) := by
    have : Real.exp p * (1 + B + 2 * B ^ 2) ≤ Real.exp p * (1 + η) := by
      apply mul_le_mul_of_nonneg_left _ (Real.exp_pos _).le
      rw [hη]; linarith [show (0:ℝ) ≤ 1 / 10 ^ 38 by norm_num]
    linarith
  intro r h
  exact tail_good rm m hm hn neg sgn z.1 z.2 (Real.exp p) η tol hT0 hη0 hη1 ht0 htol1
    hbud hz1 hz2 hflag (by omega) r h

end PowAcc
