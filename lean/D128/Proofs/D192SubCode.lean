/-
  D128/Proofs/D192SubCode.lean — stage decomposition of the generated `Gen.decomposed192.sub`
  (Go: /repo/decomposed.go `func (d decomposed192) sub`), in the same way as `D192AddCode.lean`.

  Each stage is literally a sub-term of the generated body; the staged form is tied to the generated
  definition by `sub_eq`, proved by `rfl`.  If the generated code changes, `sub_eq` breaks.

  * `subTail d o trunc exp`      : `sig, brw := d.sig.sub(o.sig)`; two's complement, `neg`, `trunc *= -1` on borrow
  * `subNegDiv d o trunc exp`    : branch `exp < 0`, the two loops dividing `d.sig`, then `subTail`
  * `subNegBranch d o trunc exp` : branch `exp < 0`: three loops scaling `o.sig`, `if exp < -57`, `subNegDiv`
  * `subPosDiv`, `subPosBranch`  : the same for the branch `exp > 0`
  * `sub_eq` : `Gen.decomposed192.sub d o t = if … then subNegBranch … else if … then subPosBranch … else subTail …`
-/
import D128.Gen.Decomposed
set_option autoImplicit false
set_option linter.unusedVariables false
set_option maxRecDepth 4096

namespace D192
open Gen

def subTail (d o : decomposed192) (trunc : Int8) (exp : Int16) : Go.GoM (Bool × decomposed192 × Int8) := do
  let mut trunc : Int8 := trunc
  let mut exp : Int16 := exp
  let mut neg : Bool := false
  let (r_9, r_10) := U192.sub d.sig o.sig
  let mut sig : U192 := r_9
  let mut brw : UInt64 := r_10
  exp := d.exp
  if (brw != (0 : UInt64)) then
    sig := (U192.twos sig)
    neg := true
    trunc := (trunc * (-1 : Int8))
  return (neg, ({ (default : decomposed192) with sig := sig, exp := exp } : decomposed192), trunc)

def subNegDiv (d o : decomposed192) (trunc : Int8) (exp : Int16) : Go.GoM (Bool × decomposed192 × Int8) := do
  let mut d : decomposed192 := d
  let mut trunc : Int8 := trunc
  let mut exp : Int16 := exp
  while (decide (exp ≤ (-4 : Int16))) do
    let mut rem : UInt64 := (0 : UInt64)
    let (r_1, r_2) ← U192.div10000 d.sig
    d := { d with sig := r_1 }
    rem := r_2
    if (rem != (0 : UInt64)) then
      trunc := (1 : Int8)
    if (((d.sig.w0 ||| d.sig.w1) ||| d.sig.w2) == (0 : UInt64)) then
      d := { d with exp := o.exp }
      exp := (0 : Int16)
    else
      d := { d with exp := (d.exp + (4 : Int16)) }
      exp := (exp + (4 : Int16))
  while (decide (exp < (0 : Int16))) do
    let mut rem_1 : UInt64 := (0 : UInt64)
    let (r_3, r_4) ← U192.div10 d.sig
    d := { d with sig := r_3 }
    rem_1 := r_4
    if (rem_1 != (0 : UInt64)) then
      trunc := (1 : Int8)
    if (((d.sig.w0 ||| d.sig.w1) ||| d.sig.w2) == (0 : UInt64)) then
      d := { d with exp := o.exp }
      break
    d := { d with exp := (d.exp + (1 : Int16)) }
    exp := (exp + (1 : Int16))
  subTail d o trunc exp

def subNegBranch (d o : decomposed192) (trunc : Int8) (exp : Int16) : Go.GoM (Bool × decomposed192 × Int8) := do
  let mut d : decomposed192 := d
  let mut o : decomposed192 := o
  let mut trunc : Int8 := trunc
  let mut exp : Int16 := exp
  while ((decide (exp ≤ (-19 : Int16))) && (o.sig.w2 == (0 : UInt64))) do
    o := { o with sig := (U192.mul64 o.sig (10000000000000000000 : UInt64)) }
    o := { o with exp := (o.exp - (19 : Int16)) }
    exp := (exp + (19 : Int16))
  while ((decide (exp ≤ (-4 : Int16))) && (decide (o.sig.w2 ≤ (703687441776639 : UInt64)))) do
    o := { o with sig := (U192.mul64 o.sig (10000 : UInt64)) }
    o := { o with exp := (o.exp - (4 : Int16)) }
    exp := (exp + (4 : Int16))
  while ((decide (exp < (0 : Int16))) && (decide (o.sig.w2 ≤ (1801439850948198399 : UInt64)))) do
    o := { o with sig := (U192.mul64 o.sig (10 : UInt64)) }
    o := { o with exp := (o.exp - (1 : Int16)) }
    exp := (exp + (1 : Int16))
  if (decide (exp < (-57 : Int16))) then
    if (((d.sig.w0 ||| d.sig.w1) ||| d.sig.w2) != (0 : UInt64)) then
      d := { d with sig := (default : U192) }
      trunc := (1 : Int8)
    d := { d with exp := o.exp }
    exp := (0 : Int16)
  subNegDiv d o trunc exp

def subPosDiv (d o : decomposed192) (trunc : Int8) (exp : Int16) : Go.GoM (Bool × decomposed192 × Int8) := do
  let mut o : decomposed192 := o
  let mut trunc : Int8 := trunc
  let mut exp : Int16 := exp
  while (decide (exp ≥ (4 : Int16))) do
    let mut rem_2 : UInt64 := (0 : UInt64)
    let (r_5, r_6) ← U192.div10000 o.sig
    o := { o with sig := r_5 }
    rem_2 := r_6
    if (rem_2 != (0 : UInt64)) then
      trunc := (-1 : Int8)
    if (((o.sig.w0 ||| o.sig.w1) ||| o.sig.w2) == (0 : UInt64)) then
      exp := (0 : Int16)
    else
      exp := (exp - (4 : Int16))
  while (decide (exp > (0 : Int16))) do
    let mut rem_3 : UInt64 := (0 : UInt64)
    let (r_7, r_8) ← U192.div10 o.sig
    o := { o with sig := r_7 }
    rem_3 := r_8
    if (rem_3 != (0 : UInt64)) then
      trunc := (-1 : Int8)
    if (((o.sig.w0 ||| o.sig.w1) ||| o.sig.w2) == (0 : UInt64)) then
      break
    exp := (exp - (1 : Int16))
  subTail d o trunc exp

def subPosBranch (d o : decomposed192) (trunc : Int8) (exp : Int16) : Go.GoM (Bool × decomposed192 × Int8) := do
  let mut d : decomposed192 := d
  let mut o : decomposed192 := o
  let mut trunc : Int8 := trunc
  let mut exp : Int16 := exp
  while ((decide (exp ≥ (19 : Int16))) && (d.sig.w2 == (0 : UInt64))) do
    d := { d with sig := (U192.mul64 d.sig (10000000000000000000 : UInt64)) }
    d := { d with exp := (d.exp - (19 : Int16)) }
    exp := (exp - (19 : Int16))
  while ((decide (exp ≥ (4 : Int16))) && (decide (d.sig.w2 ≤ (703687441776639 : UInt64)))) do
    d := { d with sig := (U192.mul64 d.sig (10000 : UInt64)) }
    d := { d with exp := (d.exp - (4 : Int16)) }
    exp := (exp - (4 : Int16))
  while ((decide (exp > (0 : Int16))) && (decide (d.sig.w2 ≤ (1801439850948198399 : UInt64)))) do
    d := { d with sig := (U192.mul64 d.sig (10 : UInt64)) }
    d := { d with exp := (d.exp - (1 : Int16)) }
    exp := (exp - (1 : Int16))
  if (decide (exp > (57 : Int16))) then
    if (((o.sig.w0 ||| o.sig.w1) ||| o.sig.w2) != (0 : UInt64)) then
      o := { o with sig := (default : U192) }
      trunc := (-1 : Int8)
    exp := (0 : Int16)
  subPosDiv d o trunc exp

theorem sub_eq (d o : decomposed192) (t : Int8) :
    Gen.decomposed192.sub d o t =
      if (decide (d.exp - o.exp < (0 : Int16))) then subNegBranch d o t (d.exp - o.exp)
      else if (decide (d.exp - o.exp > (0 : Int16))) then subPosBranch d o t (d.exp - o.exp)
      else subTail d o t (d.exp - o.exp) := by
  rfl

end D192
