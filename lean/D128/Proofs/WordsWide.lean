/-
  D128.Proofs.WordsWide — exact arithmetic specifications of the generated 192/256/384-bit
  integer routines of `D128/Gen/Int.lean` (from /repo/int.go).  Part 1: items 1–5.

  Word primitives (existential "spec" form, convenient for carry chains):
  * `add64_spec x y c (hc : c.toNat ≤ 1)` : `Add64 x y c = (s,k)`, `s + k*2^64 = x + y + c`, `k ≤ 1`
  * `sub64_spec x y b (hb : b.toNat ≤ 1)` : `Sub64 x y b = (d,k)`, `d + y + b = x + k*2^64`, `k ≤ 1`
  * `mul64_spec x y`                       : `Mul64 x y = (hi,lo)`, `hi*2^64 + lo = x*y`
  * `div64_spec hi lo y (hy : hi < y)`     : `Div64 hi lo y = .ok (q,r)`, `q*y + r = hi*2^64+lo`, `r < y`
  * `U192.toNat_lt`, `U256.toNat_lt`, `U384.toNat_lt`

  1. `U192_add64_toNat : (Gen.U192.add64 n o).toNat = (n.toNat + o.toNat) % 2^192`
     `U192_sub64_toNat : (Gen.U192.sub64 n o).toNat = (n.toNat + 2^192 - o.toNat) % 2^192`
  2. `U192_add_toNat   : (Gen.U192.add n o).toNat = n.toNat + o.toNat`            (U256 result)
     `U192_sub_toNat`, `U192_sub_fst_toNat`, `U192_sub_snd`, `U192_sub_toNat_of_le` :
        `(sub n o).1.toNat = (n.toNat + 2^192 - o.toNat) % 2^192`,
        `(sub n o).2 = if n.toNat < o.toNat then 1 else 0`
     `U192_twos_toNat  : (Gen.U192.twos n).toNat = (2^192 - n.toNat) % 2^192`
  3. `U192_cmp_eq      : Gen.U192.cmp n o = if n.toNat < o.toNat then -1 else if n.toNat = o.toNat then 0 else 1`
     `U192_cmp_lt_zero`, `U192_cmp_ge_zero`
  4. `U192_mul64_toNat : (Gen.U192.mul64 n o).toNat = (n.toNat * o.toNat) % 2^192`, `U192_mul64_toNat_of_lt`
     `U256_mul64_toNat : (Gen.U256.mul64 n o).toNat = (n.toNat * o.toNat) % 2^256`, `U256_mul64_toNat_of_lt`
  5. `U192_div10_eq, U192_div10000_eq, U192_div1e8_eq, U192_div1e19_eq,
      U256_div10_eq, U256_div10000_eq, U256_div1e8_eq, U256_div1e19_eq,
      U384_div10_eq, U384_div1e19_eq` :
        `∃ q r, Gen.T.divD n = .ok (q, r) ∧ q.toNat = n.toNat / D ∧ r.toNat = n.toNat % D`
     and the same as `@[spec]` Hoare triples `T_divD_spec` (via `triple_of_eq`).
-/
import D128.Gen.Int
import Std.Tactic.Do
import Mathlib.Tactic.Ring
import Mathlib.Tactic.Linarith
import Mathlib.Tactic.NormNum
import Mathlib.Tactic.SplitIfs

set_option autoImplicit false

namespace D128.Proofs.WordsWide

open Std.Do

/-! ## basic word facts -/

theorem add64_spec (x y c : UInt64) (hc : c.toNat ≤ 1) :
    ∃ s k : UInt64, Go.bits.Add64 x y c = (s, k) ∧
      s.toNat + k.toNat * 2^64 = x.toNat + y.toNat + c.toNat ∧ k.toNat ≤ 1 := by
  have hc' : c ≤ 1 := by rw [UInt64.le_iff_toNat_le]; simpa using hc
  have := x.toNat_lt; have := y.toNat_lt
  refine ⟨_, _, by simp only [Go.bits.Add64, hc', if_true]; rfl, ?_, ?_⟩
  · simp only [UInt64.toNat_ofNat', Nat.reducePow]; omega
  · simp only [UInt64.toNat_ofNat', Nat.reducePow]; omega

theorem sub64_spec (x y b : UInt64) (hb : b.toNat ≤ 1) :
    ∃ d k : UInt64, Go.bits.Sub64 x y b = (d, k) ∧
      d.toNat + y.toNat + b.toNat = x.toNat + k.toNat * 2^64 ∧ k.toNat ≤ 1 := by
  have hb' : b ≤ 1 := by rw [UInt64.le_iff_toNat_le]; simpa using hb
  have := x.toNat_lt; have := y.toNat_lt
  by_cases h : y.toNat + b.toNat ≤ x.toNat
  · refine ⟨_, _, by simp only [Go.bits.Sub64, hb', if_true, h]; rfl, ?_, ?_⟩
    · simp only [UInt64.toNat_ofNat', Nat.reducePow, UInt64.toNat_zero]; omega
    · simp
  · refine ⟨_, _, by simp only [Go.bits.Sub64, hb', if_true, h, if_false]; rfl, ?_, ?_⟩
    · simp only [UInt64.toNat_ofNat', Nat.reducePow, UInt64.toNat_one]; omega
    · simp

theorem mul64_spec (x y : UInt64) :
    ∃ hi lo : UInt64, Go.bits.Mul64 x y = (hi, lo) ∧
      hi.toNat * 2^64 + lo.toNat = x.toNat * y.toNat := by
  have hx := x.toNat_lt; have hy := y.toNat_lt
  have : x.toNat * y.toNat < 2^64 * 2^64 := Nat.mul_lt_mul'' hx hy
  refine ⟨_, _, rfl, ?_⟩
  simp only [UInt64.toNat_ofNat', Nat.reducePow] at *
  omega


/-- bounds of all words, for `omega` -/
theorem U192.bounds (n : U192) :
    n.w0.toNat < 2^64 ∧ n.w1.toNat < 2^64 ∧ n.w2.toNat < 2^64 :=
  ⟨n.w0.toNat_lt, n.w1.toNat_lt, n.w2.toNat_lt⟩

theorem U192.toNat_lt (n : U192) : n.toNat < 2^192 := by
  have := U192.bounds n; simp only [U192.toNat]; omega

theorem U256.toNat_lt (n : U256) : n.toNat < 2^256 := by
  have := n.w0.toNat_lt; have := n.w1.toNat_lt; have := n.w2.toNat_lt; have := n.w3.toNat_lt
  simp only [U256.toNat]; omega

theorem U384.toNat_lt (n : U384) : n.toNat < 2^384 := by
  have := n.w0.toNat_lt; have := n.w1.toNat_lt; have := n.w2.toNat_lt; have := n.w3.toNat_lt
  have := n.w4.toNat_lt; have := n.w5.toNat_lt
  simp only [U384.toNat]; omega

/-! ## 1. add64 / sub64 -/

theorem U192_add64_toNat (n : U192) (o : UInt64) :
    (Gen.U192.add64 n o).toNat = (n.toNat + o.toNat) % 2^192 := by
  unfold Gen.U192.add64
  obtain ⟨s0, k0, h0, e0, b0⟩ := add64_spec n.w0 o 0 (by simp)
  obtain ⟨s1, k1, h1, e1, b1⟩ := add64_spec n.w1 0 k0 b0
  simp only [h0, h1, Id.run_pure, U192.toNat, UInt64.toNat_add]
  have := U192.bounds n; have := o.toNat_lt
  have := s0.toNat_lt; have := s1.toNat_lt
  simp only [UInt64.toNat_zero] at *
  omega

theorem U192_sub64_toNat (n : U192) (o : UInt64) :
    (Gen.U192.sub64 n o).toNat = (n.toNat + 2^192 - o.toNat) % 2^192 := by
  unfold Gen.U192.sub64
  obtain ⟨s0, k0, h0, e0, b0⟩ := sub64_spec n.w0 o 0 (by simp)
  obtain ⟨s1, k1, h1, e1, b1⟩ := sub64_spec n.w1 0 k0 b0
  simp only [h0, h1, Id.run_pure, U192.toNat, UInt64.toNat_sub]
  have := U192.bounds n; have := o.toNat_lt
  have := s0.toNat_lt; have := s1.toNat_lt
  simp only [UInt64.toNat_zero] at *
  omega

/-! ## 2. add / sub / twos -/

theorem U192_add_toNat (n o : U192) :
    (Gen.U192.add n o).toNat = n.toNat + o.toNat := by
  unfold Gen.U192.add
  obtain ⟨s0, k0, h0, e0, b0⟩ := add64_spec n.w0 o.w0 0 (by simp)
  obtain ⟨s1, k1, h1, e1, b1⟩ := add64_spec n.w1 o.w1 k0 b0
  obtain ⟨s2, k2, h2, e2, b2⟩ := add64_spec n.w2 o.w2 k1 b1
  simp only [h0, h1, h2, Id.run_pure, U192.toNat, U256.toNat]
  simp only [UInt64.toNat_zero] at *
  omega

theorem U192_sub_toNat (n o : U192) :
    (Gen.U192.sub n o).1.toNat = (n.toNat + 2^192 - o.toNat) % 2^192 ∧
    (Gen.U192.sub n o).2.toNat = (if n.toNat < o.toNat then 1 else 0) := by
  unfold Gen.U192.sub
  obtain ⟨s0, k0, h0, e0, b0⟩ := sub64_spec n.w0 o.w0 0 (by simp)
  obtain ⟨s1, k1, h1, e1, b1⟩ := sub64_spec n.w1 o.w1 k0 b0
  obtain ⟨s2, k2, h2, e2, b2⟩ := sub64_spec n.w2 o.w2 k1 b1
  simp only [h0, h1, h2, Id.run_pure]
  have := U192.bounds n; have := U192.bounds o
  have := s0.toNat_lt; have := s1.toNat_lt; have := s2.toNat_lt
  simp only [UInt64.toNat_zero] at *
  constructor
  · simp only [U192.toNat]; omega
  · by_cases h : n.toNat < o.toNat
    · rw [if_pos h]; simp only [U192.toNat] at h; omega
    · rw [if_neg h]; simp only [U192.toNat] at h; omega

theorem U192_sub_fst_toNat (n o : U192) :
    (Gen.U192.sub n o).1.toNat = (n.toNat + 2^192 - o.toNat) % 2^192 := (U192_sub_toNat n o).1

theorem U192_sub_snd (n o : U192) :
    (Gen.U192.sub n o).2 = (if n.toNat < o.toNat then 1 else 0) := by
  apply UInt64.toNat_inj.mp
  rw [(U192_sub_toNat n o).2]
  split <;> rfl

/-- exact difference when no borrow occurs -/
theorem U192_sub_toNat_of_le (n o : U192) (h : o.toNat ≤ n.toNat) :
    (Gen.U192.sub n o).1.toNat = n.toNat - o.toNat := by
  rw [U192_sub_fst_toNat]
  have := U192.toNat_lt n
  omega

theorem U192_twos_toNat (n : U192) :
    (Gen.U192.twos n).toNat = (2^192 - n.toNat) % 2^192 := by
  unfold Gen.U192.twos
  obtain ⟨s0, k0, h0, e0, b0⟩ := add64_spec (~~~n.w0) 1 0 (by simp)
  obtain ⟨s1, k1, h1, e1, b1⟩ := add64_spec (~~~n.w1) 0 k0 b0
  simp only [h0, h1, Id.run_pure, U192.toNat, UInt64.toNat_add]
  have := U192.bounds n
  have := s0.toNat_lt; have := s1.toNat_lt
  simp only [UInt64.toNat_zero, UInt64.toNat_one, UInt64.toNat_not, UInt64.size] at *
  omega

/-! ## 3. cmp -/

theorem U192_cmp_eq (n o : U192) :
    Gen.U192.cmp n o =
      if n.toNat < o.toNat then -1 else if n.toNat = o.toNat then 0 else 1 := by
  have := U192.bounds n; have := U192.bounds o
  have key : ∀ v : Int64, (n.toNat < o.toNat → v = -1) → (n.toNat = o.toNat → v = 0) →
      (o.toNat < n.toNat → v = 1) →
      v = if n.toNat < o.toNat then -1 else if n.toNat = o.toNat then 0 else 1 := by
    intro v h1 h2 h3
    rcases Nat.lt_trichotomy n.toNat o.toNat with h | h | h
    · rw [if_pos h]; exact h1 h
    · rw [if_neg (by omega), if_pos h]; exact h2 h
    · rw [if_neg (by omega), if_neg (by omega)]; exact h3 h
  apply key <;> intro h <;> unfold Gen.U192.cmp <;>
    simp only [U192.toNat, beq_iff_eq, ← UInt64.toNat_inj, UInt64.lt_iff_toNat_lt,
      decide_eq_true_eq] at h ⊢ <;>
    split_ifs <;> first | rfl | (exfalso; omega)

theorem U192_cmp_lt_zero (n o : U192) : Gen.U192.cmp n o < 0 ↔ n.toNat < o.toNat := by
  rw [U192_cmp_eq]; split_ifs <;> simp_all

theorem U192_cmp_ge_zero (n o : U192) : Gen.U192.cmp n o ≥ 0 ↔ o.toNat ≤ n.toNat := by
  rw [U192_cmp_eq]; split_ifs <;> simp_all

/-! ## 4. mul64 -/

theorem U192_mul64_toNat (n : U192) (o : UInt64) :
    (Gen.U192.mul64 n o).toNat = (n.toNat * o.toNat) % 2^192 := by
  unfold Gen.U192.mul64
  obtain ⟨s1, r0, m0, em0⟩ := mul64_spec n.w0 o
  obtain ⟨t2, t1, m1, em1⟩ := mul64_spec n.w1 o
  obtain ⟨r1, c1, h1, e1, b1⟩ := add64_spec s1 t1 0 (by simp)
  obtain ⟨r2, c2, h2, e2, b2⟩ := add64_spec t2 (n.w2 * o) c1 b1
  simp only [m0, m1, h1, h2, Id.run_pure]
  have hmul : n.toNat * o.toNat = n.w0.toNat * o.toNat + (n.w1.toNat * o.toNat) * 2^64
      + (n.w2.toNat * o.toNat) * 2^128 := by simp only [U192.toNat]; ring
  rw [hmul]
  simp only [U192.toNat, UInt64.toNat_mul, UInt64.toNat_zero] at *
  have := r0.toNat_lt; have := r1.toNat_lt; have := r2.toNat_lt
  have := s1.toNat_lt; have := t1.toNat_lt; have := t2.toNat_lt
  omega

theorem U192_mul64_toNat_of_lt (n : U192) (o : UInt64) (h : n.toNat * o.toNat < 2^192) :
    (Gen.U192.mul64 n o).toNat = n.toNat * o.toNat := by
  rw [U192_mul64_toNat, Nat.mod_eq_of_lt h]

theorem U256_mul64_toNat (n : U256) (o : UInt64) :
    (Gen.U256.mul64 n o).toNat = (n.toNat * o.toNat) % 2^256 := by
  unfold Gen.U256.mul64
  obtain ⟨s1, r0, m0, em0⟩ := mul64_spec n.w0 o
  obtain ⟨t2, t1, m1, em1⟩ := mul64_spec n.w1 o
  obtain ⟨u3, u2, m2, em2⟩ := mul64_spec n.w2 o
  obtain ⟨r1, c1, h1, e1, b1⟩ := add64_spec s1 t1 0 (by simp)
  obtain ⟨r2, c2, h2, e2, b2⟩ := add64_spec t2 u2 c1 b1
  obtain ⟨r3, c3, h3, e3, b3⟩ := add64_spec u3 (n.w3 * o) c2 b2
  simp only [m0, m1, m2, h1, h2, h3, Id.run_pure]
  have hmul : n.toNat * o.toNat = n.w0.toNat * o.toNat + (n.w1.toNat * o.toNat) * 2^64
      + (n.w2.toNat * o.toNat) * 2^128 + (n.w3.toNat * o.toNat) * 2^192 := by
    simp only [U256.toNat]; ring
  rw [hmul]
  simp only [U256.toNat, UInt64.toNat_mul, UInt64.toNat_zero] at *
  have := r0.toNat_lt; have := r1.toNat_lt; have := r2.toNat_lt; have := r3.toNat_lt
  have := s1.toNat_lt; have := t1.toNat_lt; have := t2.toNat_lt
  have := u2.toNat_lt; have := u3.toNat_lt
  omega

theorem U256_mul64_toNat_of_lt (n : U256) (o : UInt64) (h : n.toNat * o.toNat < 2^256) :
    (Gen.U256.mul64 n o).toNat = n.toNat * o.toNat := by
  rw [U256_mul64_toNat, Nat.mod_eq_of_lt h]

/-! ## 5. division by small constants -/

theorem div64_spec (hi lo y : UInt64) (hy : hi.toNat < y.toNat) :
    ∃ q r : UInt64, Go.bits.Div64 hi lo y = Except.ok (q, r) ∧
      q.toNat * y.toNat + r.toNat = hi.toNat * 2^64 + lo.toNat ∧ r.toNat < y.toNat := by
  have hy0 : ¬ y = 0 := by
    intro h; rw [h] at hy; simp at hy
  have hy1 : ¬ y ≤ hi := by rw [UInt64.le_iff_toNat_le]; omega
  have hlo := lo.toNat_lt
  have hpos : 0 < y.toNat := by omega
  have hq : (hi.toNat * 2^64 + lo.toNat) / y.toNat < 2^64 := by
    rw [Nat.div_lt_iff_lt_mul hpos]
    calc hi.toNat * 2^64 + lo.toNat < (hi.toNat + 1) * 2^64 := by omega
      _ ≤ 2^64 * y.toNat := by rw [Nat.mul_comm]; exact Nat.mul_le_mul_left _ hy
  have hr : (hi.toNat * 2^64 + lo.toNat) % y.toNat < y.toNat := Nat.mod_lt _ hpos
  have hr' : (hi.toNat * 2^64 + lo.toNat) % y.toNat < 2^64 := by have := y.toNat_lt; omega
  refine ⟨_, _, by simp only [Go.bits.Div64, hy0, hy1, if_false]; rfl, ?_, ?_⟩
  · simp only [UInt64.toNat_ofNat', Nat.mod_eq_of_lt hq, Nat.mod_eq_of_lt hr']
    exact Nat.div_add_mod' _ _
  · simp only [UInt64.toNat_ofNat', Nat.mod_eq_of_lt hr']; exact hr

theorem ok_bind {α β : Type} (a : α) (f : α → Go.GoM β) :
    ((Except.ok a : Go.GoM α) >>= f) = f a := rfl

theorem U192_div10_eq (n : U192) :
    ∃ q r, Gen.U192.div10 n = .ok (q, r) ∧ q.toNat = n.toNat / 10 ∧ r.toNat = n.toNat % 10 := by
  unfold Gen.U192.div10
  by_cases hlt : n.w2 < 10
  · have hlt' : n.w2.toNat < (10 : UInt64).toNat := by
      rw [UInt64.lt_iff_toNat_lt] at hlt; exact hlt
    obtain ⟨q1, r1, h1, e1, l1⟩ := div64_spec n.w2 n.w1 10 hlt'
    obtain ⟨q0, r0, h0, e0, l0⟩ := div64_spec r1 n.w0 10 l1
    simp only [hlt, decide_true, ↓reduceIte, h1, h0, ok_bind]
    refine ⟨_, _, rfl, ?_, ?_⟩ <;>
      simp only [U192.toNat, UInt64.reduceToNat, UInt64.toNat_zero] at * <;> omega
  · have hlt' : (0 : UInt64).toNat < (10 : UInt64).toNat := by decide
    have hge : (10 : UInt64).toNat ≤ n.w2.toNat := by
      rw [UInt64.lt_iff_toNat_lt] at hlt; omega
    obtain ⟨q2, r2, h2, e2, l2⟩ := div64_spec 0 n.w2 10 hlt'
    obtain ⟨q1, r1, h1, e1, l1⟩ := div64_spec r2 n.w1 10 l2
    obtain ⟨q0, r0, h0, e0, l0⟩ := div64_spec r1 n.w0 10 l1
    simp only [hlt, decide_false, Bool.false_eq_true, ↓reduceIte, h2, h1, h0, ok_bind]
    refine ⟨_, _, rfl, ?_, ?_⟩ <;>
      simp only [U192.toNat, UInt64.reduceToNat, UInt64.toNat_zero] at * <;> omega

theorem U192_div10000_eq (n : U192) :
    ∃ q r, Gen.U192.div10000 n = .ok (q, r) ∧ q.toNat = n.toNat / 10000 ∧ r.toNat = n.toNat % 10000 := by
  unfold Gen.U192.div10000
  by_cases hlt : n.w2 < 10000
  · have hlt' : n.w2.toNat < (10000 : UInt64).toNat := by
      rw [UInt64.lt_iff_toNat_lt] at hlt; exact hlt
    obtain ⟨q1, r1, h1, e1, l1⟩ := div64_spec n.w2 n.w1 10000 hlt'
    obtain ⟨q0, r0, h0, e0, l0⟩ := div64_spec r1 n.w0 10000 l1
    simp only [hlt, decide_true, ↓reduceIte, h1, h0, ok_bind]
    refine ⟨_, _, rfl, ?_, ?_⟩ <;>
      simp only [U192.toNat, UInt64.reduceToNat, UInt64.toNat_zero] at * <;> omega
  · have hlt' : (0 : UInt64).toNat < (10000 : UInt64).toNat := by decide
    have hge : (10000 : UInt64).toNat ≤ n.w2.toNat := by
      rw [UInt64.lt_iff_toNat_lt] at hlt; omega
    obtain ⟨q2, r2, h2, e2, l2⟩ := div64_spec 0 n.w2 10000 hlt'
    obtain ⟨q1, r1, h1, e1, l1⟩ := div64_spec r2 n.w1 10000 l2
    obtain ⟨q0, r0, h0, e0, l0⟩ := div64_spec r1 n.w0 10000 l1
    simp only [hlt, decide_false, Bool.false_eq_true, ↓reduceIte, h2, h1, h0, ok_bind]
    refine ⟨_, _, rfl, ?_, ?_⟩ <;>
      simp only [U192.toNat, UInt64.reduceToNat, UInt64.toNat_zero] at * <;> omega

theorem U192_div1e8_eq (n : U192) :
    ∃ q r, Gen.U192.div1e8 n = .ok (q, r) ∧ q.toNat = n.toNat / 100000000 ∧ r.toNat = n.toNat % 100000000 := by
  unfold Gen.U192.div1e8
  by_cases hlt : n.w2 < 100000000
  · have hlt' : n.w2.toNat < (100000000 : UInt64).toNat := by
      rw [UInt64.lt_iff_toNat_lt] at hlt; exact hlt
    obtain ⟨q1, r1, h1, e1, l1⟩ := div64_spec n.w2 n.w1 100000000 hlt'
    obtain ⟨q0, r0, h0, e0, l0⟩ := div64_spec r1 n.w0 100000000 l1
    simp only [hlt, decide_true, ↓reduceIte, h1, h0, ok_bind]
    refine ⟨_, _, rfl, ?_, ?_⟩ <;>
      simp only [U192.toNat, UInt64.reduceToNat, UInt64.toNat_zero] at * <;> omega
  · have hlt' : (0 : UInt64).toNat < (100000000 : UInt64).toNat := by decide
    have hge : (100000000 : UInt64).toNat ≤ n.w2.toNat := by
      rw [UInt64.lt_iff_toNat_lt] at hlt; omega
    obtain ⟨q2, r2, h2, e2, l2⟩ := div64_spec 0 n.w2 100000000 hlt'
    obtain ⟨q1, r1, h1, e1, l1⟩ := div64_spec r2 n.w1 100000000 l2
    obtain ⟨q0, r0, h0, e0, l0⟩ := div64_spec r1 n.w0 100000000 l1
    simp only [hlt, decide_false, Bool.false_eq_true, ↓reduceIte, h2, h1, h0, ok_bind]
    refine ⟨_, _, rfl, ?_, ?_⟩ <;>
      simp only [U192.toNat, UInt64.reduceToNat, UInt64.toNat_zero] at * <;> omega

theorem U192_div1e19_eq (n : U192) :
    ∃ q r, Gen.U192.div1e19 n = .ok (q, r) ∧ q.toNat = n.toNat / 10000000000000000000 ∧ r.toNat = n.toNat % 10000000000000000000 := by
  unfold Gen.U192.div1e19
  by_cases hlt : n.w2 < 10000000000000000000
  · have hlt' : n.w2.toNat < (10000000000000000000 : UInt64).toNat := by
      rw [UInt64.lt_iff_toNat_lt] at hlt; exact hlt
    obtain ⟨q1, r1, h1, e1, l1⟩ := div64_spec n.w2 n.w1 10000000000000000000 hlt'
    obtain ⟨q0, r0, h0, e0, l0⟩ := div64_spec r1 n.w0 10000000000000000000 l1
    simp only [hlt, decide_true, ↓reduceIte, h1, h0, ok_bind]
    refine ⟨_, _, rfl, ?_, ?_⟩ <;>
      simp only [U192.toNat, UInt64.reduceToNat, UInt64.toNat_zero] at * <;> omega
  · have hlt' : (0 : UInt64).toNat < (10000000000000000000 : UInt64).toNat := by decide
    have hge : (10000000000000000000 : UInt64).toNat ≤ n.w2.toNat := by
      rw [UInt64.lt_iff_toNat_lt] at hlt; omega
    obtain ⟨q2, r2, h2, e2, l2⟩ := div64_spec 0 n.w2 10000000000000000000 hlt'
    obtain ⟨q1, r1, h1, e1, l1⟩ := div64_spec r2 n.w1 10000000000000000000 l2
    obtain ⟨q0, r0, h0, e0, l0⟩ := div64_spec r1 n.w0 10000000000000000000 l1
    simp only [hlt, decide_false, Bool.false_eq_true, ↓reduceIte, h2, h1, h0, ok_bind]
    refine ⟨_, _, rfl, ?_, ?_⟩ <;>
      simp only [U192.toNat, UInt64.reduceToNat, UInt64.toNat_zero] at * <;> omega

theorem U256_div10_eq (n : U256) :
    ∃ q r, Gen.U256.div10 n = .ok (q, r) ∧ q.toNat = n.toNat / 10 ∧ r.toNat = n.toNat % 10 := by
  unfold Gen.U256.div10
  by_cases hlt : n.w3 < 10
  · have hlt' : n.w3.toNat < (10 : UInt64).toNat := by
      rw [UInt64.lt_iff_toNat_lt] at hlt; exact hlt
    obtain ⟨q2, r2, h2, e2, l2⟩ := div64_spec n.w3 n.w2 10 hlt'
    obtain ⟨q1, r1, h1, e1, l1⟩ := div64_spec r2 n.w1 10 l2
    obtain ⟨q0, r0, h0, e0, l0⟩ := div64_spec r1 n.w0 10 l1
    simp only [hlt, decide_true, ↓reduceIte, h2, h1, h0, ok_bind]
    refine ⟨_, _, rfl, ?_, ?_⟩ <;>
      simp only [U256.toNat, UInt64.reduceToNat, UInt64.toNat_zero] at * <;> omega
  · have hlt' : (0 : UInt64).toNat < (10 : UInt64).toNat := by decide
    have hge : (10 : UInt64).toNat ≤ n.w3.toNat := by
      rw [UInt64.lt_iff_toNat_lt] at hlt; omega
    obtain ⟨q3, r3, h3, e3, l3⟩ := div64_spec 0 n.w3 10 hlt'
    obtain ⟨q2, r2, h2, e2, l2⟩ := div64_spec r3 n.w2 10 l3
    obtain ⟨q1, r1, h1, e1, l1⟩ := div64_spec r2 n.w1 10 l2
    obtain ⟨q0, r0, h0, e0, l0⟩ := div64_spec r1 n.w0 10 l1
    simp only [hlt, decide_false, Bool.false_eq_true, ↓reduceIte, h3, h2, h1, h0, ok_bind]
    refine ⟨_, _, rfl, ?_, ?_⟩ <;>
      simp only [U256.toNat, UInt64.reduceToNat, UInt64.toNat_zero] at * <;> omega

theorem U256_div10000_eq (n : U256) :
    ∃ q r, Gen.U256.div10000 n = .ok (q, r) ∧ q.toNat = n.toNat / 10000 ∧ r.toNat = n.toNat % 10000 := by
  unfold Gen.U256.div10000
  by_cases hlt : n.w3 < 10000
  · have hlt' : n.w3.toNat < (10000 : UInt64).toNat := by
      rw [UInt64.lt_iff_toNat_lt] at hlt; exact hlt
    obtain ⟨q2, r2, h2, e2, l2⟩ := div64_spec n.w3 n.w2 10000 hlt'
    obtain ⟨q1, r1, h1, e1, l1⟩ := div64_spec r2 n.w1 10000 l2
    obtain ⟨q0, r0, h0, e0, l0⟩ := div64_spec r1 n.w0 10000 l1
    simp only [hlt, decide_true, ↓reduceIte, h2, h1, h0, ok_bind]
    refine ⟨_, _, rfl, ?_, ?_⟩ <;>
      simp only [U256.toNat, UInt64.reduceToNat, UInt64.toNat_zero] at * <;> omega
  · have hlt' : (0 : UInt64).toNat < (10000 : UInt64).toNat := by decide
    have hge : (10000 : UInt64).toNat ≤ n.w3.toNat := by
      rw [UInt64.lt_iff_toNat_lt] at hlt; omega
    obtain ⟨q3, r3, h3, e3, l3⟩ := div64_spec 0 n.w3 10000 hlt'
    obtain ⟨q2, r2, h2, e2, l2⟩ := div64_spec r3 n.w2 10000 l3
    obtain ⟨q1, r1, h1, e1, l1⟩ := div64_spec r2 n.w1 10000 l2
    obtain ⟨q0, r0, h0, e0, l0⟩ := div64_spec r1 n.w0 10000 l1
    simp only [hlt, decide_false, Bool.false_eq_true, ↓reduceIte, h3, h2, h1, h0, ok_bind]
    refine ⟨_, _, rfl, ?_, ?_⟩ <;>
      simp only [U256.toNat, UInt64.reduceToNat, UInt64.toNat_zero] at * <;> omega

theorem U256_div1e8_eq (n : U256) :
    ∃ q r, Gen.U256.div1e8 n = .ok (q, r) ∧ q.toNat = n.toNat / 100000000 ∧ r.toNat = n.toNat % 100000000 := by
  unfold Gen.U256.div1e8
  by_cases hlt : n.w3 < 100000000
  · have hlt' : n.w3.toNat < (100000000 : UInt64).toNat := by
      rw [UInt64.lt_iff_toNat_lt] at hlt; exact hlt
    obtain ⟨q2, r2, h2, e2, l2⟩ := div64_spec n.w3 n.w2 100000000 hlt'
    obtain ⟨q1, r1, h1, e1, l1⟩ := div64_spec r2 n.w1 100000000 l2
    obtain ⟨q0, r0, h0, e0, l0⟩ := div64_spec r1 n.w0 100000000 l1
    simp only [hlt, decide_true, ↓reduceIte, h2, h1, h0, ok_bind]
    refine ⟨_, _, rfl, ?_, ?_⟩ <;>
      simp only [U256.toNat, UInt64.reduceToNat, UInt64.toNat_zero] at * <;> omega
  · have hlt' : (0 : UInt64).toNat < (100000000 : UInt64).toNat := by decide
    have hge : (100000000 : UInt64).toNat ≤ n.w3.toNat := by
      rw [UInt64.lt_iff_toNat_lt] at hlt; omega
    obtain ⟨q3, r3, h3, e3, l3⟩ := div64_spec 0 n.w3 100000000 hlt'
    obtain ⟨q2, r2, h2, e2, l2⟩ := div64_spec r3 n.w2 100000000 l3
    obtain ⟨q1, r1, h1, e1, l1⟩ := div64_spec r2 n.w1 100000000 l2
    obtain ⟨q0, r0, h0, e0, l0⟩ := div64_spec r1 n.w0 100000000 l1
    simp only [hlt, decide_false, Bool.false_eq_true, ↓reduceIte, h3, h2, h1, h0, ok_bind]
    refine ⟨_, _, rfl, ?_, ?_⟩ <;>
      simp only [U256.toNat, UInt64.reduceToNat, UInt64.toNat_zero] at * <;> omega

theorem U256_div1e19_eq (n : U256) :
    ∃ q r, Gen.U256.div1e19 n = .ok (q, r) ∧ q.toNat = n.toNat / 10000000000000000000 ∧ r.toNat = n.toNat % 10000000000000000000 := by
  unfold Gen.U256.div1e19
  by_cases hlt : n.w3 < 10000000000000000000
  · have hlt' : n.w3.toNat < (10000000000000000000 : UInt64).toNat := by
      rw [UInt64.lt_iff_toNat_lt] at hlt; exact hlt
    obtain ⟨q2, r2, h2, e2, l2⟩ := div64_spec n.w3 n.w2 10000000000000000000 hlt'
    obtain ⟨q1, r1, h1, e1, l1⟩ := div64_spec r2 n.w1 10000000000000000000 l2
    obtain ⟨q0, r0, h0, e0, l0⟩ := div64_spec r1 n.w0 10000000000000000000 l1
    simp only [hlt, decide_true, ↓reduceIte, h2, h1, h0, ok_bind]
    refine ⟨_, _, rfl, ?_, ?_⟩ <;>
      simp only [U256.toNat, UInt64.reduceToNat, UInt64.toNat_zero] at * <;> omega
  · have hlt' : (0 : UInt64).toNat < (10000000000000000000 : UInt64).toNat := by decide
    have hge : (10000000000000000000 : UInt64).toNat ≤ n.w3.toNat := by
      rw [UInt64.lt_iff_toNat_lt] at hlt; omega
    obtain ⟨q3, r3, h3, e3, l3⟩ := div64_spec 0 n.w3 10000000000000000000 hlt'
    obtain ⟨q2, r2, h2, e2, l2⟩ := div64_spec r3 n.w2 10000000000000000000 l3
    obtain ⟨q1, r1, h1, e1, l1⟩ := div64_spec r2 n.w1 10000000000000000000 l2
    obtain ⟨q0, r0, h0, e0, l0⟩ := div64_spec r1 n.w0 10000000000000000000 l1
    simp only [hlt, decide_false, Bool.false_eq_true, ↓reduceIte, h3, h2, h1, h0, ok_bind]
    refine ⟨_, _, rfl, ?_, ?_⟩ <;>
      simp only [U256.toNat, UInt64.reduceToNat, UInt64.toNat_zero] at * <;> omega

theorem U384_div10_eq (n : U384) :
    ∃ q r, Gen.U384.div10 n = .ok (q, r) ∧ q.toNat = n.toNat / 10 ∧ r.toNat = n.toNat % 10 := by
  unfold Gen.U384.div10
  by_cases hlt : n.w5 < 10
  · have hlt' : n.w5.toNat < (10 : UInt64).toNat := by
      rw [UInt64.lt_iff_toNat_lt] at hlt; exact hlt
    obtain ⟨q4, r4, h4, e4, l4⟩ := div64_spec n.w5 n.w4 10 hlt'
    obtain ⟨q3, r3, h3, e3, l3⟩ := div64_spec r4 n.w3 10 l4
    obtain ⟨q2, r2, h2, e2, l2⟩ := div64_spec r3 n.w2 10 l3
    obtain ⟨q1, r1, h1, e1, l1⟩ := div64_spec r2 n.w1 10 l2
    obtain ⟨q0, r0, h0, e0, l0⟩ := div64_spec r1 n.w0 10 l1
    simp only [hlt, decide_true, ↓reduceIte, h4, h3, h2, h1, h0, ok_bind]
    refine ⟨_, _, rfl, ?_, ?_⟩ <;>
      simp only [U384.toNat, UInt64.reduceToNat, UInt64.toNat_zero] at * <;> omega
  · have hlt' : (0 : UInt64).toNat < (10 : UInt64).toNat := by decide
    have hge : (10 : UInt64).toNat ≤ n.w5.toNat := by
      rw [UInt64.lt_iff_toNat_lt] at hlt; omega
    obtain ⟨q5, r5, h5, e5, l5⟩ := div64_spec 0 n.w5 10 hlt'
    obtain ⟨q4, r4, h4, e4, l4⟩ := div64_spec r5 n.w4 10 l5
    obtain ⟨q3, r3, h3, e3, l3⟩ := div64_spec r4 n.w3 10 l4
    obtain ⟨q2, r2, h2, e2, l2⟩ := div64_spec r3 n.w2 10 l3
    obtain ⟨q1, r1, h1, e1, l1⟩ := div64_spec r2 n.w1 10 l2
    obtain ⟨q0, r0, h0, e0, l0⟩ := div64_spec r1 n.w0 10 l1
    simp only [hlt, decide_false, Bool.false_eq_true, ↓reduceIte, h5, h4, h3, h2, h1, h0, ok_bind]
    refine ⟨_, _, rfl, ?_, ?_⟩ <;>
      simp only [U384.toNat, UInt64.reduceToNat, UInt64.toNat_zero] at * <;> omega

theorem U384_div1e19_eq (n : U384) :
    ∃ q r, Gen.U384.div1e19 n = .ok (q, r) ∧ q.toNat = n.toNat / 10000000000000000000 ∧ r.toNat = n.toNat % 10000000000000000000 := by
  unfold Gen.U384.div1e19
  by_cases hlt : n.w5 < 10000000000000000000
  · have hlt' : n.w5.toNat < (10000000000000000000 : UInt64).toNat := by
      rw [UInt64.lt_iff_toNat_lt] at hlt; exact hlt
    obtain ⟨q4, r4, h4, e4, l4⟩ := div64_spec n.w5 n.w4 10000000000000000000 hlt'
    obtain ⟨q3, r3, h3, e3, l3⟩ := div64_spec r4 n.w3 10000000000000000000 l4
    obtain ⟨q2, r2, h2, e2, l2⟩ := div64_spec r3 n.w2 10000000000000000000 l3
    obtain ⟨q1, r1, h1, e1, l1⟩ := div64_spec r2 n.w1 10000000000000000000 l2
    obtain ⟨q0, r0, h0, e0, l0⟩ := div64_spec r1 n.w0 10000000000000000000 l1
    simp only [hlt, decide_true, ↓reduceIte, h4, h3, h2, h1, h0, ok_bind]
    refine ⟨_, _, rfl, ?_, ?_⟩ <;>
      simp only [U384.toNat, UInt64.reduceToNat, UInt64.toNat_zero] at * <;> omega
  · have hlt' : (0 : UInt64).toNat < (10000000000000000000 : UInt64).toNat := by decide
    have hge : (10000000000000000000 : UInt64).toNat ≤ n.w5.toNat := by
      rw [UInt64.lt_iff_toNat_lt] at hlt; omega
    obtain ⟨q5, r5, h5, e5, l5⟩ := div64_spec 0 n.w5 10000000000000000000 hlt'
    obtain ⟨q4, r4, h4, e4, l4⟩ := div64_spec r5 n.w4 10000000000000000000 l5
    obtain ⟨q3, r3, h3, e3, l3⟩ := div64_spec r4 n.w3 10000000000000000000 l4
    obtain ⟨q2, r2, h2, e2, l2⟩ := div64_spec r3 n.w2 10000000000000000000 l3
    obtain ⟨q1, r1, h1, e1, l1⟩ := div64_spec r2 n.w1 10000000000000000000 l2
    obtain ⟨q0, r0, h0, e0, l0⟩ := div64_spec r1 n.w0 10000000000000000000 l1
    simp only [hlt, decide_false, Bool.false_eq_true, ↓reduceIte, h5, h4, h3, h2, h1, h0, ok_bind]
    refine ⟨_, _, rfl, ?_, ?_⟩ <;>
      simp only [U384.toNat, UInt64.reduceToNat, UInt64.toNat_zero] at * <;> omega

/-! ### Hoare-triple forms (usable by `mvcgen`) -/

set_option mvcgen.warning false

theorem triple_of_eq {α : Type} {f : Go.GoM α} {v : α} (h : f = .ok v) {Q : α → Prop}
    (hq : Q v) : ⦃⌜True⌝⦄ f ⦃⇓ r => ⌜Q r⌝⦄ := by
  subst h
  show ⦃⌜True⌝⦄ (pure v : Go.GoM α) ⦃⇓ r => ⌜Q r⌝⦄
  mvcgen

@[spec] theorem U192_div10_spec (n : U192) :
    ⦃⌜True⌝⦄ Gen.U192.div10 n
    ⦃⇓ p => ⌜p.1.toNat = n.toNat / 10 ∧ p.2.toNat = n.toNat % 10⌝⦄ := by
  obtain ⟨q, r, h, hq, hr⟩ := U192_div10_eq n
  exact triple_of_eq h ⟨hq, hr⟩

@[spec] theorem U192_div10000_spec (n : U192) :
    ⦃⌜True⌝⦄ Gen.U192.div10000 n
    ⦃⇓ p => ⌜p.1.toNat = n.toNat / 10000 ∧ p.2.toNat = n.toNat % 10000⌝⦄ := by
  obtain ⟨q, r, h, hq, hr⟩ := U192_div10000_eq n
  exact triple_of_eq h ⟨hq, hr⟩

@[spec] theorem U192_div1e8_spec (n : U192) :
    ⦃⌜True⌝⦄ Gen.U192.div1e8 n
    ⦃⇓ p => ⌜p.1.toNat = n.toNat / 100000000 ∧ p.2.toNat = n.toNat % 100000000⌝⦄ := by
  obtain ⟨q, r, h, hq, hr⟩ := U192_div1e8_eq n
  exact triple_of_eq h ⟨hq, hr⟩

@[spec] theorem U192_div1e19_spec (n : U192) :
    ⦃⌜True⌝⦄ Gen.U192.div1e19 n
    ⦃⇓ p => ⌜p.1.toNat = n.toNat / 10000000000000000000 ∧ p.2.toNat = n.toNat % 10000000000000000000⌝⦄ := by
  obtain ⟨q, r, h, hq, hr⟩ := U192_div1e19_eq n
  exact triple_of_eq h ⟨hq, hr⟩

@[spec] theorem U256_div10_spec (n : U256) :
    ⦃⌜True⌝⦄ Gen.U256.div10 n
    ⦃⇓ p => ⌜p.1.toNat = n.toNat / 10 ∧ p.2.toNat = n.toNat % 10⌝⦄ := by
  obtain ⟨q, r, h, hq, hr⟩ := U256_div10_eq n
  exact triple_of_eq h ⟨hq, hr⟩

@[spec] theorem U256_div10000_spec (n : U256) :
    ⦃⌜True⌝⦄ Gen.U256.div10000 n
    ⦃⇓ p => ⌜p.1.toNat = n.toNat / 10000 ∧ p.2.toNat = n.toNat % 10000⌝⦄ := by
  obtain ⟨q, r, h, hq, hr⟩ := U256_div10000_eq n
  exact triple_of_eq h ⟨hq, hr⟩

@[spec] theorem U256_div1e8_spec (n : U256) :
    ⦃⌜True⌝⦄ Gen.U256.div1e8 n
    ⦃⇓ p => ⌜p.1.toNat = n.toNat / 100000000 ∧ p.2.toNat = n.toNat % 100000000⌝⦄ := by
  obtain ⟨q, r, h, hq, hr⟩ := U256_div1e8_eq n
  exact triple_of_eq h ⟨hq, hr⟩

@[spec] theorem U256_div1e19_spec (n : U256) :
    ⦃⌜True⌝⦄ Gen.U256.div1e19 n
    ⦃⇓ p => ⌜p.1.toNat = n.toNat / 10000000000000000000 ∧ p.2.toNat = n.toNat % 10000000000000000000⌝⦄ := by
  obtain ⟨q, r, h, hq, hr⟩ := U256_div1e19_eq n
  exact triple_of_eq h ⟨hq, hr⟩

@[spec] theorem U384_div10_spec (n : U384) :
    ⦃⌜True⌝⦄ Gen.U384.div10 n
    ⦃⇓ p => ⌜p.1.toNat = n.toNat / 10 ∧ p.2.toNat = n.toNat % 10⌝⦄ := by
  obtain ⟨q, r, h, hq, hr⟩ := U384_div10_eq n
  exact triple_of_eq h ⟨hq, hr⟩

@[spec] theorem U384_div1e19_spec (n : U384) :
    ⦃⌜True⌝⦄ Gen.U384.div1e19 n
    ⦃⇓ p => ⌜p.1.toNat = n.toNat / 10000000000000000000 ∧ p.2.toNat = n.toNat % 10000000000000000000⌝⦄ := by
  obtain ⟨q, r, h, hq, hr⟩ := U384_div1e19_eq n
  exact triple_of_eq h ⟨hq, hr⟩

end D128.Proofs.WordsWide
