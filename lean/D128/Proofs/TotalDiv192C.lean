/-
  D128/Proofs/TotalDiv192C.lean — path B3 of `Gen.U192.div` (two-word divisor, three-word dividend:
  two Knuth quotient digits, the second one with the `rem.w1 == u.w1` overflow case).

  * `pathB3d_eq`, `pathB3c_eq`, `pathB3b_eq`, `pathB3_eq` : the stages in terms of `knuthCorr`/`candFix`
  * `pathB3c_spec` : second digit (regular: exact; overflow case: exact or one too small)
  * `pathB3b_spec` : partial remainder after the (exact) first digit
  * `pathB3_spec`  : the whole path, for every dividend
-/
import D128.Proofs.TotalDiv192B
set_option autoImplicit false
set_option maxRecDepth 4096
namespace D128.Proofs.Total
open D128.Proofs.WordsWide

theorem pathB3d_eq (n o u : U192) (v : U256) (r1 ur r0 : UInt64) :
    pathB3d n o u v r1 ur r0 = candFix n o r1 (knuthCorr r0 ur u.w1 u.w0 v.w0) := by
  simp only [pathB3d]
  rw [knuthK_eq]
  rfl

theorem pathB3c_eq (mx : UInt64) (n o u : U192) (v : U256) (r1 : UInt64) (rem : U192) :
    pathB3c mx n o u v r1 rem =
      if rem.w1 = u.w1 then pathB3d n o u v r1 rem.w0 mx
      else Go.bits.Div64 rem.w1 rem.w0 u.w1 >>= fun t => pathB3d n o u v r1 t.2 t.1 := by
  simp only [pathB3c, beq_iff_eq]

theorem cand_le (c r1 Q' q : Nat) (hq : q = r1 * 2^64 + Q') (h1 : c ≤ Q') (h2 : Q' ≤ c + 1) :
    c + r1 * 2^64 ≤ q ∧ q ≤ c + r1 * 2^64 + 1 := by omega

/-- second quotient digit of path B3 (both the regular and the `rem.w1 = u.w1` case). -/
theorem pathB3c_spec (mx : UInt64) (n o u : U192) (v : U256) (r1 : UInt64) (rem : U192)
    (hmx : mx.toNat = 2^64 - 1) (ho : o.toNat ≠ 0)
    (hu : u.toNat < 2^128) (hu1 : 2^63 ≤ u.w1.toNat) (hrem : rem.toNat < u.toNat)
    (hq : n.toNat / o.toNat
      = r1.toNat * 2^64 + (rem.toNat * 2^64 + v.w0.toNat) / u.toNat) :
    ∃ q r, pathB3c mx n o u v r1 rem = .ok (q, r)
      ∧ q.toNat = n.toNat / o.toNat ∧ r.toNat = n.toNat % o.toNat := by
  rw [pathB3c_eq]
  obtain ⟨hu2, hun, -⟩ := U192.two_words u hu
  obtain ⟨hr2, hrn, -⟩ := U192.two_words rem (by omega)
  have hub := U192.bounds u
  have hrb := U192.bounds rem
  have hv0 := v.w0.toNat_lt
  generalize hR : rem.toNat = R at *
  generalize hU : u.toNat = U at *
  by_cases heq : rem.w1 = u.w1
  · rw [if_pos heq, pathB3d_eq]
    have heq' : rem.w1.toNat = u.w1.toNat := by rw [heq]
    have hr0 : rem.w0.toNat < u.w0.toNat := by omega
    have hsp := DivNat.special u.w1.toNat u.w0.toNat v.w0.toNat rem.w0.toNat hu1 hub.2.1 hub.1
      hv0 hr0
    have hc : (knuthCorr mx rem.w0 u.w1 u.w0 v.w0).toNat
        = DivNat.refine u.w1.toNat u.w0.toNat v.w0.toNat (2^64 - 1) rem.w0.toNat := by
      rw [knuthCorr_toNat, hmx]
    have hrn' : R = u.w1.toNat * 2^64 + rem.w0.toNat := by rw [← heq']; exact hrn
    rw [← hc, ← hrn', ← hun] at hsp
    clear hc
    obtain ⟨g1, g2⟩ := cand_le _ _ _ _ hq hsp.1 hsp.2
    exact candFix_spec n o r1 _ ho g1 g2
  · rw [if_neg heq]
    have hne : rem.w1.toNat ≠ u.w1.toNat := fun h => heq (UInt64.toNat_inj.mp h)
    have hlt : rem.w1.toNat < u.w1.toNat := by omega
    obtain ⟨qh, ur, e1, hqh, hur⟩ := Go.bits.Div64_ok rem.w1 rem.w0 u.w1 hlt
    rw [e1]
    simp only [bind, Except.bind]
    rw [pathB3d_eq]
    have hV : rem.w1.toNat * 2^64 + rem.w0.toNat < u.w1.toNat * 2^64 := by omega
    have hc : (knuthCorr qh ur u.w1 u.w0 v.w0).toNat = (R * 2^64 + v.w0.toNat) / U := by
      rw [knuthCorr_toNat, hqh, hur,
        DivNat.refine_eq u.w1.toNat u.w0.toNat v.w0.toNat _ hu1 hub.2.1 hub.1 hv0 hV,
        ← hrn, ← hun]
    obtain ⟨g1, g2⟩ := cand_le _ _ _ _ hq (Nat.le_of_eq hc) (by rw [hc]; exact Nat.le_succ _)
    exact candFix_spec n o r1 _ ho g1 g2

theorem pathB3b_eq (mx : UInt64) (n o u : U192) (v : U256) (r1 : UInt64) :
    pathB3b mx n o u v r1 =
      if Gen.U192.cmp (Gen.U192.sub (U192.mk v.w1 v.w2 v.w3) (Gen.U192.mul64 u r1)).1 u ≥ 0 then
        pathB3c mx n o u v (r1 + 1)
          (Gen.U192.sub (Gen.U192.sub (U192.mk v.w1 v.w2 v.w3) (Gen.U192.mul64 u r1)).1 u).1
      else pathB3c mx n o u v r1
          (Gen.U192.sub (U192.mk v.w1 v.w2 v.w3) (Gen.U192.mul64 u r1)).1 := by
  simp only [pathB3b, decide_eq_true_eq]

/-- `X = q·u + r` split for the second digit -/
theorem second_digit (X u v0 q : Nat) (hq : q = X / u) :
    (X * 2^64 + v0) / u = q * 2^64 + ((X % u) * 2^64 + v0) / u := by
  have := (Nat.two_step_div v0 X u (2^64)).1
  rw [Nat.add_comm] at this
  rw [this, hq, Nat.add_comm]

/-- after the exact first digit `r1`, the partial remainder and the second digit. -/
theorem pathB3b_spec (mx : UInt64) (n o u : U192) (v : U256) (r1 : UInt64)
    (hmx : mx.toNat = 2^64 - 1) (ho : o.toNat ≠ 0)
    (hu : u.toNat < 2^128) (hu1 : 2^63 ≤ u.w1.toNat)
    (hr1 : r1.toNat = (U192.mk v.w1 v.w2 v.w3).toNat / u.toNat)
    (hq : n.toNat / o.toNat
      = ((U192.mk v.w1 v.w2 v.w3).toNat * 2^64 + v.w0.toNat) / u.toNat) :
    ∃ q r, pathB3b mx n o u v r1 = .ok (q, r)
      ∧ q.toNat = n.toNat / o.toNat ∧ r.toNat = n.toNat % o.toNat := by
  rw [pathB3b_eq]
  have hX := U192.toNat_lt (U192.mk v.w1 v.w2 v.w3)
  have hub := U192.bounds u
  have hupos : 0 < u.toNat := by
    have : u.w1.toNat * 2^64 ≤ u.toNat := by simp only [U192.toNat]; omega
    omega
  have hdm := Nat.div_add_mod (U192.mk v.w1 v.w2 v.w3).toNat u.toNat
  have hml := Nat.mod_lt (U192.mk v.w1 v.w2 v.w3).toNat hupos
  have hq' := second_digit (U192.mk v.w1 v.w2 v.w3).toNat u.toNat v.w0.toNat r1.toNat hr1
  rw [← hq] at hq'
  rw [← hr1] at hdm
  generalize hXX : (U192.mk v.w1 v.w2 v.w3) = X at *
  have hmul : (Gen.U192.mul64 u r1).toNat = u.toNat * r1.toNat :=
    U192_mul64_toNat_of_lt u r1 (by omega)
  have hsub : (Gen.U192.sub X (Gen.U192.mul64 u r1)).1.toNat = X.toNat % u.toNat := by
    rw [U192_sub_toNat_of_le _ _ (by rw [hmul]; omega), hmul]; omega
  have hge := U192_cmp_ge_zero (Gen.U192.sub X (Gen.U192.mul64 u r1)).1 u
  rw [hsub] at hge
  rw [if_neg (fun h => absurd (hge.mp h) (by omega))]
  exact pathB3c_spec mx n o u v r1 _ hmx ho hu hu1 (by rw [hsub]; exact hml)
    (by rw [hsub]; exact hq')

theorem pathB3_eq (mx : UInt64) (n o : U192) (i : UInt64) (u : U192) :
    pathB3 mx n o i u =
      (Go.bits.Div64 (Gen.U256.lsh (U256.mk n.w0 n.w1 n.w2 0) i).w3
          (Gen.U256.lsh (U256.mk n.w0 n.w1 n.w2 0) i).w2 u.w1 >>= fun t =>
        pathB3b mx n o u (Gen.U256.lsh (U256.mk n.w0 n.w1 n.w2 0) i)
          (knuthCorr t.1 t.2 u.w1 u.w0 (Gen.U256.lsh (U256.mk n.w0 n.w1 n.w2 0) i).w1)) := by
  simp only [pathB3]
  refine bind_congr fun t => ?_
  rw [knuthK_eq]

/-- words of a four-word number -/
theorem U256.split (v : U256) :
    v.toNat = (U192.mk v.w1 v.w2 v.w3).toNat * 2^64 + v.w0.toNat
    ∧ (U192.mk v.w1 v.w2 v.w3).toNat = (v.w3.toNat * 2^64 + v.w2.toNat) * 2^64 + v.w1.toNat
    ∧ v.w3.toNat = v.toNat / 2^192 := by
  have := v.w0.toNat_lt; have := v.w1.toNat_lt; have := v.w2.toNat_lt; have := v.w3.toNat_lt
  simp only [U256.toNat, U192.toNat]
  omega

/-- path B3: two-word divisor, three-word dividend: two Knuth digits. -/
theorem pathB3_spec (mx : UInt64) (n o : U192) (hmx : mx.toNat = 2^64 - 1)
    (h2 : o.w2 = 0) (h1 : o.w1 ≠ 0) (ho : o.toNat ≠ 0) :
    ∃ q r, pathB3 mx n o (Go.conv (Go.bits.LeadingZeros64 o.w1))
        (Gen.U192.lsh o (Go.conv (Go.bits.LeadingZeros64 o.w1))) = .ok (q, r)
      ∧ q.toNat = n.toNat / o.toNat ∧ r.toNat = n.toNat % o.toNat := by
  rw [pathB3_eq]
  obtain ⟨L, hL1, hL2, hi, hu_ge, hu_lt, -, -⟩ := norm2 o h2 h1
  generalize (Go.conv (Go.bits.LeadingZeros64 o.w1) : UInt64) = i at *
  have hPpos : 0 < (2:Nat)^(64 - L) := Nat.two_pow_pos _
  have hP63 : (2:Nat)^(64 - L) ≤ 2^63 := Nat.pow_le_pow_right (by norm_num) (by omega)
  have hn := U192.toNat_lt n
  have hn256 : (U256.mk n.w0 n.w1 n.w2 0).toNat = n.toNat := by
    simp [U256.toNat, U192.toNat]
  generalize hP : (2:Nat)^(64 - L) = P at *
  have h192 : o.toNat * P < 2^192 := Nat.lt_of_lt_of_le hu_lt (by norm_num)
  have hu : (Gen.U192.lsh o i).toNat = o.toNat * P := by
    rw [U192_lsh_toNat, hi, hP]
    exact Nat.mod_eq_of_lt h192
  have hvlt : n.toNat * P < 2^192 * P := Nat.mul_lt_mul_of_pos_right hn hPpos
  have hv256 : n.toNat * P < 2^256 := by
    calc n.toNat * P < 2^192 * P := hvlt
      _ ≤ 2^192 * 2^63 := Nat.mul_le_mul_left _ hP63
      _ ≤ 2^256 := by norm_num
  have hv : (Gen.U256.lsh (U256.mk n.w0 n.w1 n.w2 0) i).toNat = n.toNat * P := by
    rw [U256_lsh_toNat, hi, hP, hn256]
    exact Nat.mod_eq_of_lt hv256
  generalize Gen.U192.lsh o i = u at *
  generalize Gen.U256.lsh (U256.mk n.w0 n.w1 n.w2 0) i = v at *
  obtain ⟨hu2, hun, hu1⟩ := U192.two_words u (by rw [hu]; exact hu_lt)
  obtain ⟨hvs, hXs, hv3⟩ := U256.split v
  have hub := U192.bounds u
  have hu1_ge : 2^63 ≤ u.w1.toNat := by
    rw [hu1, hu, Nat.le_div_iff_mul_le (Nat.two_pow_pos _)]
    exact Nat.le_trans (by norm_num) hu_ge
  have hv3lt : v.w3.toNat < P := by
    rw [hv3, hv, Nat.div_lt_iff_lt_mul (Nat.two_pow_pos _), Nat.mul_comm P]; exact hvlt
  have hv3u : v.w3.toNat < u.w1.toNat := by omega
  obtain ⟨qh, ur, e1, hqh, hur⟩ := Go.bits.Div64_ok v.w3 v.w2 u.w1 hv3u
  rw [e1]
  simp only [bind, Except.bind]
  have hv2 := v.w2.toNat_lt
  have hV : v.w3.toNat * 2^64 + v.w2.toNat < u.w1.toNat * 2^64 := by omega
  have hr1 : (knuthCorr qh ur u.w1 u.w0 v.w1).toNat
      = (U192.mk v.w1 v.w2 v.w3).toNat / u.toNat := by
    rw [knuthCorr_toNat, hqh, hur,
      DivNat.refine_eq u.w1.toNat u.w0.toNat v.w1.toNat _ hu1_ge hub.2.1 hub.1 v.w1.toNat_lt hV,
      ← hXs, ← hun]
  have hq : n.toNat / o.toNat
      = ((U192.mk v.w1 v.w2 v.w3).toNat * 2^64 + v.w0.toNat) / u.toNat := by
    rw [← hvs, hv, hu, Nat.mul_div_mul_right _ _ hPpos]
  exact pathB3b_spec mx n o u v _ hmx ho (by rw [hu]; exact hu_lt) hu1_ge hr1 hq

end D128.Proofs.Total
