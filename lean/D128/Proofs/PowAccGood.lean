/-
  D128/Proofs/PowAccGood.lean — property C18, general path of `Pow`: the verdict `PowGood` for the four kinds of
  results of the general path (early `Inf`, early zero, exact `1`, final rounding).

  Provided (namespace `PowAcc`):
  * `good_inf`    : `10^6150 ≤ T` ⇒ `PowGood neg tol T (.inf neg)`
  * `good_zero`   : `0 < T ≤ 10^-6200` ⇒ `PowGood neg tol T (.fin neg 0 e)`
  * `good_one`    : `PowGood neg tol 1 (.fin neg 1 0)`
  * `good_round`  : nearest mode, `W = q·10^k` within relative `tol/2 + 16·10^-39` of `T`, `10^-6400 ≤ T ≤ 10^6400`:
                    every `v` with `RoundPost (flushOrRoundS m neg q k) neg sig' exp'` denoting … is `PowGood`
-/
import D128.Proofs.PowAccRound
import D128.Proofs.ExpAccExp
set_option autoImplicit false
set_option maxRecDepth 4096
set_option exponentiation.threshold 20000

namespace PowAcc
open Gen Spec SpecRound EnclPf ExpAcc RK

theorem same_inf (neg : Bool) : (Val.inf neg).same (.inf neg) = true := by simp [Val.same]

theorem good_inf (neg : Bool) {tol T : ℝ} (ht0 : 0 ≤ tol) (h : (10 : ℝ) ^ (6150 : ℕ) ≤ T) :
    PowGood neg tol T (.inf neg) := by
  have hT : 0 < T := lt_of_lt_of_le (by positivity) h
  refine ⟨?_, fun _ => same_inf neg, fun hlt => ?_⟩
  · show ¬ ((neg = true ↔ 0 < signed neg T) ∨ |signed neg T| < (10 : ℝ) ^ (Emax + 30) ∨
      |signed neg T| + (10 : ℝ) ^ (ulpExp |signed neg T|) + tol * |signed neg T| < (Cmax : ℝ) * (10 : ℝ) ^ Emax)
    rw [signed_abs' neg T hT]
    have e1 : (10 : ℝ) ^ (Emax + 30) = (10 : ℝ) ^ (6141 : ℕ) := by
      rw [← zpow_natCast]; unfold Spec.Emax; norm_num
    have e2 : (10 : ℝ) ^ Emax = (10 : ℝ) ^ (6111 : ℕ) := by
      rw [← zpow_natCast]; unfold Spec.Emax; norm_num
    have hC : (Cmax : ℝ) ≤ (10 : ℝ) ^ (35 : ℕ) := by
      have := Cmax1_val; rw [show (Cmax : ℝ) = 10 * 2 ^ 110 - 1 by linarith]; norm_num
    have h41 : (10 : ℝ) ^ (6141 : ℕ) ≤ (10 : ℝ) ^ (6150 : ℕ) := pow_le_pow_right₀ (by norm_num) (by norm_num)
    have h46 : (10 : ℝ) ^ (35 : ℕ) * (10 : ℝ) ^ (6111 : ℕ) ≤ (10 : ℝ) ^ (6150 : ℕ) := by
      rw [← pow_add]; exact pow_le_pow_right₀ (by norm_num) (by norm_num)
    have hu : (0 : ℝ) < (10 : ℝ) ^ (ulpExp T) := zpow_pos (by norm_num) _
    have hCm : (Cmax : ℝ) * (10 : ℝ) ^ (6111 : ℕ) ≤ (10 : ℝ) ^ (35 : ℕ) * (10 : ℝ) ^ (6111 : ℕ) :=
      mul_le_mul_of_nonneg_right hC (by positivity)
    have htT : 0 ≤ tol * T := mul_nonneg ht0 hT.le
    rw [e1, e2]
    generalize (10 : ℝ) ^ (6150 : ℕ) = a at *
    generalize (10 : ℝ) ^ (6141 : ℕ) = b at *
    generalize (10 : ℝ) ^ (35 : ℕ) * (10 : ℝ) ^ (6111 : ℕ) = c at *
    generalize (Cmax : ℝ) * (10 : ℝ) ^ (6111 : ℕ) = c' at *
    generalize (10 : ℝ) ^ (ulpExp T) = u at *
    rintro (h' | h' | h')
    · exact sign_clause neg hT h'
    · linarith
    · linarith
  · exfalso
    have h1 : (1 : ℝ) ≤ (10 : ℝ) ^ (6150 : ℕ) := one_le_pow₀ (by norm_num)
    have h2 : 1 / (10 : ℝ) ^ (17000 : ℕ) ≤ 1 := by
      rw [div_le_one (by positivity)]; exact one_le_pow₀ (by norm_num)
    linarith

theorem good_zero (neg : Bool) {tol T : ℝ} (ht0 : 0 ≤ tol) (hT : 0 < T)
    (h : T ≤ 1 / (10 : ℝ) ^ (6200 : ℕ)) (e : Int) : PowGood neg tol T (.fin neg 0 e) := by
  have hEm : 1 / (10 : ℝ) ^ (6200 : ℕ) ≤ (10 : ℝ) ^ Emin := by
    have e : (10 : ℝ) ^ Emin = 1 / (10 : ℝ) ^ (6176 : ℕ) := by
      unfold Spec.Emin
      rw [show (-6176 : Int) = -((6176 : ℕ) : Int) by norm_num, zpow_neg, zpow_natCast, one_div]
    rw [e]
    exact one_div_le_one_div_of_le (by positivity) (pow_le_pow_right₀ (by norm_num) (by norm_num))
  refine ⟨?_, fun hgt => ?_, fun _ => by simp [Val.isZero, Val.neg]⟩
  · show ¬ ((neg = true ↔ 0 < signed neg T) ∨
      (10 : ℝ) ^ (ulpExp |signed neg T|) + tol * |signed neg T| < |signed neg T|)
    rw [signed_abs' neg T hT]
    have hu := pow_Emin_le_ulp hT
    have htT : 0 ≤ tol * T := mul_nonneg ht0 hT.le
    rintro (h' | h')
    · exact sign_clause neg hT h'
    · linarith
  · exfalso
    have h1 : (1 : ℝ) ≤ (10 : ℝ) ^ (17000 : ℕ) := one_le_pow₀ (by norm_num)
    have h2 : 1 / (10 : ℝ) ^ (6200 : ℕ) ≤ 1 := by
      rw [div_le_one (by positivity)]; exact one_le_pow₀ (by norm_num)
    linarith

theorem good_one (neg : Bool) {tol : ℝ} (ht0 : 0 ≤ tol) : PowGood neg tol 1 (.fin neg 1 0) := by
  refine ⟨?_, fun hgt => ?_, fun hlt => ?_⟩
  · show ¬ ((neg = true ↔ 0 < signed neg 1) ∨
      (10 : ℝ) ^ (ulpExp |signed neg 1|) + tol * |signed neg 1| < |X neg (0 + 1) 0 - signed neg 1| ∨
      (10 : ℝ) ^ (Emax + 41) ≤ |signed neg 1| ∨ |signed neg 1| < (10 : ℝ) ^ (Emin - 40))
    rw [signed_abs' neg 1 one_pos]
    have hX : X neg (0 + 1) 0 - signed neg 1 = 0 := by
      rw [X_eq]; unfold signed; cases neg <;> simp
    rw [hX, abs_zero]
    have hu : (0 : ℝ) < (10 : ℝ) ^ (ulpExp 1) := zpow_pos (by norm_num) _
    have h41 : (1 : ℝ) < (10 : ℝ) ^ (Emax + 41) := by
      apply one_lt_zpow₀ (by norm_num); unfold Spec.Emax; norm_num
    have h40 : (10 : ℝ) ^ (Emin - 40) < 1 := by
      apply zpow_lt_one_of_neg₀ (by norm_num); unfold Spec.Emin; norm_num
    rintro (h' | h' | h' | h')
    · exact sign_clause neg one_pos h'
    · linarith
    · linarith
    · linarith
  · exfalso
    have h1 : (1 : ℝ) ≤ (10 : ℝ) ^ (17000 : ℕ) := one_le_pow₀ (by norm_num)
    linarith
  · exfalso
    have h2 : 1 / (10 : ℝ) ^ (17000 : ℕ) ≤ 1 := by
      rw [div_le_one (by positivity)]; exact one_le_pow₀ (by norm_num)
    linarith

/-- the final rounding: any value the rounding kernel certifies -/
theorem good_round {m : Mode} (hn : isNearest m = true) (neg : Bool) {q : ℚ} (k : Int) {T tol : ℝ}
    (hq : 0 < q) (hT : 0 < T) (ht0 : 0 ≤ tol) (ht1 : tol ≤ 1 / 1000)
    (hc : |((q * (10 : ℚ) ^ k : ℚ) : ℝ) - T| ≤ (tol / 2 + 16 / 10 ^ 39) * T)
    (hTlo : 1 / (10 : ℝ) ^ (17000 : ℕ) ≤ T) (hThi : T ≤ (10 : ℝ) ^ (17000 : ℕ))
    (v : Val) (hv : (Spec.flushOrRoundS m neg q k).same v = true) : PowGood neg tol T v := by
  refine ⟨fun hpv => ?_, fun hgt => absurd hgt (not_lt.2 hThi), fun hlt => absurd hlt (not_lt.2 hTlo)⟩
  have hsymm : v.same (Spec.flushOrRoundS m neg q k) = true := by
    revert hv
    generalize Spec.flushOrRoundS m neg q k = w
    intro hv
    match w, v, hv with
    | .nan n p, .nan n' p', hv =>
      simp only [Val.same, Bool.and_eq_true, beq_iff_eq] at hv ⊢; exact ⟨hv.1.symm, hv.2.symm⟩
    | .inf n, .inf n', hv => simp only [Val.same, beq_iff_eq] at hv ⊢; exact hv.symm
    | .fin n c e, .fin n' c' e', hv =>
      simp only [Val.same, Bool.and_eq_true, beq_iff_eq] at hv ⊢; exact ⟨hv.1.symm, hv.2.symm⟩
  exact nearest_tol hn neg k hq hT ht0 ht1 hc (pv_congr tol _ hsymm hpv)

end PowAcc
