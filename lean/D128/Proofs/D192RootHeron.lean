/-
  D128/Proofs/D192RootHeron.lean — convergence of the eight (perturbed) Heron steps of `Gen.Sqrt`, over ℚ
  and without square roots, and its connection to the final-step theorem.

  Provided (namespace `Root`):
  * `heron_step_sq`, `heron_step` : one step.  If `ν/x² ∈ [1-β, 1+3η]` (β < 1, 3η ≤ β) and `x'` is within
       relative `η` of the exact Heron step, written without division as
       `(1-η)(x²+ν) ≤ 2·x·x' ≤ (1+η)(x²+ν)`, then `ν/x'² ∈ [1-β', 1+3η]` for every `β' ≥ β²/(2-β)² + 2η`
       (quadratic convergence of the defect `1 - ν/x²`, plus the perturbation)
  * `beta_ok`      : the numeric side condition uniformly in `η ≤ 1e-40`
  * `heron8`       : eight steps from a first guess with `0.13·x₀² ≤ ν ≤ x₀²` (root ≤ x₀ ≤ 2.77·root; the seeds
       of `Sqrt` are between 1.078 and 2.67 times the root): `ν/x₈² ∈ [1 - 2η - 1e-76, 1 + 3η]`
       (defect bounds 0.87 ↦ 0.6 ↦ 0.19 ↦ 0.012 ↦ 4e-5 ↦ 5e-10 ↦ 1e-19 ↦ 1e-38 ↦ 1e-76: all eight steps are needed
       for 57 digits)
  * `bridge_sq`    : relative closeness ⇒ the absolute hypotheses `((N∓a)P)² ≤/≥ ν` of the final-step theorems
  * `sqrt_of_rel`  : `Gen.Sqrt` is accepted by `Spec.rootOk 2` when the value of the last iterate is relatively
       close to `√ν` (ν the scaled argument of `sqrtCore_spec`)
  * `sqrt_of_heron`: … when the values of the seed and the eight iterates satisfy the seed condition and the
       per-step accuracy `η ≤ 1e-55` (the real steps have `η ≈ 1.3e-56`: the divisor of `quo` loses its 58th digit,
       ≤ 1.6e-56 relative, entering with weight 1/2, plus three truncations of ≤ 1.6e-57)
  What remains for an unconditional C17(Sqrt): derive these per-step facts from the contracts of
  `decomposed192.mul/add/quo` (D192Mul/D192Add*/D192Quo*).
-/
import D128.Proofs.D192RootFinish
import D128.Proofs.D192RootCore
set_option autoImplicit false
set_option maxRecDepth 4096
set_option linter.unusedVariables false
namespace Root
open Gen
local notation "𝔳[" d "]" => Spec.interp (Gen.Decimal.lo d) (Gen.Decimal.hi d)

/-- One perturbed Heron step in squared, division-free form.  `A = x²`, `Y = x'²`, `M = x·x'`
(`M² = A·Y`), `N = ν`.  If `N/A ∈ [1-β, 1+3η]` and `x'` is within relative `η` of `(x + ν/x)/2`
(`(1-η)(A+N) ≤ 2M ≤ (1+η)(A+N)`), then `N/Y ∈ [1-β', 1+3η]` for every `β' ≥ β²/(2-β)² + 2η`. -/
theorem heron_step_sq (A N Y M η β β' : ℚ) (hA : 0 < A) (hN : 0 < N) (hY : 0 < Y)
    (hMM : M * M = A * Y)
    (hη0 : 0 ≤ η) (hη1 : η ≤ 1 / 100) (hβ : 3 * η ≤ β) (hβ1 : β < 1)
    (hlo : (1 - β) * A ≤ N) (hhi : N ≤ (1 + 3 * η) * A)
    (hs1 : (1 - η) * (A + N) ≤ 2 * M) (hs2 : 2 * M ≤ (1 + η) * (A + N))
    (hβ' : β ^ 2 ≤ (β' - 2 * η) * (2 - β) ^ 2) :
    (1 - β') * Y ≤ N ∧ N ≤ (1 + 3 * η) * Y := by
  have hAN : 0 < A + N := by linarith
  have hβ0 : 0 ≤ β := by linarith
  have hamgm : 4 * (A * N) ≤ (A + N) ^ 2 := by nlinarith [sq_nonneg (A - N)]
  have hM2 : (2 * M) ^ 2 = 4 * (A * Y) := by rw [← hMM]; ring
  have h2M : 0 ≤ 2 * M := le_trans (mul_nonneg (by linarith) hAN.le) hs1
  constructor
  · by_cases hb : 1 - β' ≤ 0
    · exact le_trans (mul_nonpos_of_nonpos_of_nonneg hb hY.le) hN.le
    · have hb' : 0 < 1 - β' := not_le.1 hb
      have h1 : 4 * (A * Y) ≤ (1 + η) ^ 2 * (A + N) ^ 2 := by
        have := pow_le_pow_left₀ h2M hs2 2
        rw [hM2, mul_pow] at this; exact this
      have h2b0 : 0 < 2 - β := by linarith
      have h2b : 0 < (2 - β) ^ 2 := pow_pos h2b0 2
      have hAN2 : 0 < (A + N) ^ 2 := pow_pos hAN 2
      have hbp : 0 ≤ β * (A + N) := mul_nonneg hβ0 hAN.le
      have hk : (A - N) ^ 2 * (2 - β) ^ 2 ≤ β ^ 2 * (A + N) ^ 2 := by
        rcases le_total N A with h | h
        · have hk1 : (A - N) * (2 - β) ≤ β * (A + N) := by
            have e : (A - N) * (2 - β) = 2 * A - 2 * N - β * A + β * N := by ring
            have e' : β * (A + N) = β * A + β * N := by ring
            have e'' : (1 - β) * A = A - β * A := by ring
            rw [e, e']; rw [e''] at hlo; linarith
          have := pow_le_pow_left₀ (mul_nonneg (by linarith) h2b0.le) hk1 2
          rw [mul_pow, mul_pow] at this; exact this
        · have h3A : 3 * η * A ≤ β * A := mul_le_mul_of_nonneg_right hβ hA.le
          have hβAN : β * A ≤ β * N := mul_le_mul_of_nonneg_left h hβ0
          have hk2 : (N - A) * (2 - β) ≤ β * (A + N) := by
            have e : (N - A) * (2 - β) = 2 * N - 2 * A - β * N + β * A := by ring
            have e' : β * (A + N) = β * A + β * N := by ring
            have e'' : (1 + 3 * η) * A = A + 3 * η * A := by ring
            rw [e, e']; rw [e''] at hhi; linarith
          have := pow_le_pow_left₀ (mul_nonneg (by linarith) h2b0.le) hk2 2
          rw [mul_pow, mul_pow] at this
          have e : (A - N) ^ 2 = (N - A) ^ 2 := by ring
          rw [e]; exact this
      have hb2 : 0 ≤ β' - 2 * η := by
        by_contra hcon
        have : (β' - 2 * η) * (2 - β) ^ 2 < 0 := mul_neg_of_neg_of_pos (not_le.1 hcon) h2b
        linarith [sq_nonneg β]
      have h3 : (A - N) ^ 2 ≤ (β' - 2 * η) * (A + N) ^ 2 := by
        have h : (A - N) ^ 2 * (2 - β) ^ 2 ≤ ((β' - 2 * η) * (A + N) ^ 2) * (2 - β) ^ 2 := by
          calc (A - N) ^ 2 * (2 - β) ^ 2 ≤ β ^ 2 * (A + N) ^ 2 := hk
            _ ≤ ((β' - 2 * η) * (2 - β) ^ 2) * (A + N) ^ 2 := mul_le_mul_of_nonneg_right hβ' hAN2.le
            _ = ((β' - 2 * η) * (A + N) ^ 2) * (2 - β) ^ 2 := by ring
        exact le_of_mul_le_mul_right h h2b
      have h4 : (1 - β' + 2 * η) * (A + N) ^ 2 ≤ 4 * (A * N) := by
        have e1 : (A - N) ^ 2 = (A + N) ^ 2 - 4 * (A * N) := by ring
        have e2 : (1 - β' + 2 * η) * (A + N) ^ 2 = (A + N) ^ 2 - (β' - 2 * η) * (A + N) ^ 2 := by ring
        rw [e2]; rw [e1] at h3; linarith
      have h5 : (1 - β') * (1 + η) ^ 2 ≤ 1 - β' + 2 * η := by
        have h51 : 1 - β' ≤ 1 - 2 * η := by linarith
        have h52 : (1 - β') * (2 * η + η ^ 2) ≤ (1 - 2 * η) * (2 * η + η ^ 2) :=
          mul_le_mul_of_nonneg_right h51 (by positivity)
        have e1 : (1 - β') * (1 + η) ^ 2 = (1 - β') + (1 - β') * (2 * η + η ^ 2) := by ring
        have e2 : (1 - 2 * η) * (2 * η + η ^ 2) = 2 * η - 3 * η ^ 2 - 2 * η ^ 3 := by ring
        have p2 : 0 ≤ η ^ 2 := by positivity
        have p3 : 0 ≤ η ^ 3 := by positivity
        rw [e1]; rw [e2] at h52; linarith
      have h6 : (1 - β') * (4 * (A * Y)) ≤ 4 * (A * N) := by
        calc (1 - β') * (4 * (A * Y)) ≤ (1 - β') * ((1 + η) ^ 2 * (A + N) ^ 2) :=
              mul_le_mul_of_nonneg_left h1 hb'.le
          _ = ((1 - β') * (1 + η) ^ 2) * (A + N) ^ 2 := by ring
          _ ≤ (1 - β' + 2 * η) * (A + N) ^ 2 := mul_le_mul_of_nonneg_right h5 hAN2.le
          _ ≤ 4 * (A * N) := h4
      have : A * ((1 - β') * Y) ≤ A * N := by
        linarith [h6, show (1 - β') * (4 * (A * Y)) = 4 * (A * ((1 - β') * Y)) from by ring]
      exact le_of_mul_le_mul_left this hA
  · have h1 : (1 - η) ^ 2 * (A + N) ^ 2 ≤ 4 * (A * Y) := by
      have := pow_le_pow_left₀ (mul_nonneg (by linarith) hAN.le) hs1 2
      rw [hM2, mul_pow] at this; exact this
    have h2 : (1 - η) ^ 2 * (4 * (A * N)) ≤ 4 * (A * Y) :=
      le_trans (mul_le_mul_of_nonneg_left hamgm (by positivity)) h1
    have h3 : (1 - η) ^ 2 * N ≤ Y := by
      have : A * ((1 - η) ^ 2 * N) ≤ A * Y := by
        linarith [h2, show (1 - η) ^ 2 * (4 * (A * N)) = 4 * (A * ((1 - η) ^ 2 * N)) from by ring]
      exact le_of_mul_le_mul_left this hA
    have h4 : 1 ≤ (1 + 3 * η) * (1 - η) ^ 2 := by
      have e : (1 + 3 * η) * (1 - η) ^ 2 = 1 + η * (1 - 5 * η) + 3 * η ^ 3 := by ring
      have h41 : 0 ≤ η * (1 - 5 * η) := mul_nonneg hη0 (by linarith)
      have h42 : 0 ≤ η ^ 3 := by positivity
      rw [e]; linarith
    calc N ≤ ((1 + 3 * η) * (1 - η) ^ 2) * N := le_mul_of_one_le_left hN.le h4
      _ = (1 + 3 * η) * ((1 - η) ^ 2 * N) := by ring
      _ ≤ (1 + 3 * η) * Y := mul_le_mul_of_nonneg_left h3 (by linarith)

/-- the step lemma in terms of the iterates themselves -/
theorem heron_step (ν x x' η β β' : ℚ) (hx : 0 < x) (hν : 0 < ν) (hx' : 0 < x')
    (hη0 : 0 ≤ η) (hη1 : η ≤ 1 / 100) (hβ : 3 * η ≤ β) (hβ1 : β < 1)
    (h : (1 - β) * x ^ 2 ≤ ν ∧ ν ≤ (1 + 3 * η) * x ^ 2)
    (hs : (1 - η) * (x ^ 2 + ν) ≤ 2 * x * x' ∧ 2 * x * x' ≤ (1 + η) * (x ^ 2 + ν))
    (hβ' : β ^ 2 ≤ (β' - 2 * η) * (2 - β) ^ 2) :
    (1 - β') * x' ^ 2 ≤ ν ∧ ν ≤ (1 + 3 * η) * x' ^ 2 :=
  heron_step_sq (x ^ 2) ν (x' ^ 2) (x * x') η β β' (pow_pos hx 2) hν (pow_pos hx' 2) (by ring)
    hη0 hη1 hβ hβ1 h.1 h.2 (by rw [← mul_assoc]; exact hs.1) (by rw [← mul_assoc]; exact hs.2) hβ'

/-- numeric side condition of a step, uniformly in `η ≤ 1e-40` -/
theorem beta_ok (η β β' : ℚ) (hη0 : 0 ≤ η) (hη : η ≤ 1 / 10 ^ 40)
    (h : β ^ 2 ≤ (β' - 2 / 10 ^ 40) * (2 - β) ^ 2) : β ^ 2 ≤ (β' - 2 * η) * (2 - β) ^ 2 :=
  le_trans h (mul_le_mul_of_nonneg_right (by linarith) (sq_nonneg _))

/-- **Eight perturbed Heron steps.**  `x 0` is a first guess between the root and 2.77 times the root
(`0.13·x₀² ≤ ν ≤ x₀²`), every step is within relative `η ≤ 1e-40` of the exact Heron step
`(x + ν/x)/2` (written without division).  Then `ν/x₈² ∈ [1 - 2η - 1e-76, 1 + 3η]`, i.e. `x₈` is within
relative `≈ 1.5η` of `√ν`. -/
theorem heron8 (ν η : ℚ) (x : ℕ → ℚ) (hν : 0 < ν) (hx : ∀ n, n ≤ 8 → 0 < x n)
    (hη0 : 0 ≤ η) (hη : η ≤ 1 / 10 ^ 40)
    (hseed : (1 - 87 / 100) * x 0 ^ 2 ≤ ν ∧ ν ≤ x 0 ^ 2)
    (hstep : ∀ n, n < 8 → (1 - η) * (x n ^ 2 + ν) ≤ 2 * x n * x (n + 1) ∧
      2 * x n * x (n + 1) ≤ (1 + η) * (x n ^ 2 + ν)) :
    (1 - (2 * η + 1 / 10 ^ 76)) * x 8 ^ 2 ≤ ν ∧ ν ≤ (1 + 3 * η) * x 8 ^ 2 := by
  have hη1 : η ≤ 1 / 100 := le_trans hη (by norm_num)
  have h0 : (1 - 87 / 100) * x 0 ^ 2 ≤ ν ∧ ν ≤ (1 + 3 * η) * x 0 ^ 2 :=
    ⟨hseed.1, le_trans hseed.2 (le_mul_of_one_le_left (sq_nonneg _) (by linarith))⟩
  have h1 := heron_step ν (x 0) (x 1) η (87 / 100) (6 / 10) (hx 0 (by norm_num)) hν (hx 1 (by norm_num))
    hη0 hη1 (by linarith) (by norm_num) h0 (hstep 0 (by norm_num))
    (beta_ok η _ _ hη0 hη (by norm_num))
  have h2 := heron_step ν (x 1) (x 2) η (6 / 10) (19 / 100) (hx 1 (by norm_num)) hν (hx 2 (by norm_num))
    hη0 hη1 (by linarith) (by norm_num) h1 (hstep 1 (by norm_num))
    (beta_ok η _ _ hη0 hη (by norm_num))
  have h3 := heron_step ν (x 2) (x 3) η (19 / 100) (12 / 1000) (hx 2 (by norm_num)) hν (hx 3 (by norm_num))
    hη0 hη1 (by linarith) (by norm_num) h2 (hstep 2 (by norm_num))
    (beta_ok η _ _ hη0 hη (by norm_num))
  have h4 := heron_step ν (x 3) (x 4) η (12 / 1000) (4 / 10 ^ 5) (hx 3 (by norm_num)) hν (hx 4 (by norm_num))
    hη0 hη1 (by linarith) (by norm_num) h3 (hstep 3 (by norm_num))
    (beta_ok η _ _ hη0 hη (by norm_num))
  have h5 := heron_step ν (x 4) (x 5) η (4 / 10 ^ 5) (5 / 10 ^ 10) (hx 4 (by norm_num)) hν (hx 5 (by norm_num))
    hη0 hη1 (by linarith) (by norm_num) h4 (hstep 4 (by norm_num))
    (beta_ok η _ _ hη0 hη (by norm_num))
  have h6 := heron_step ν (x 5) (x 6) η (5 / 10 ^ 10) (1 / 10 ^ 19) (hx 5 (by norm_num)) hν (hx 6 (by norm_num))
    hη0 hη1 (by linarith) (by norm_num) h5 (hstep 5 (by norm_num))
    (beta_ok η _ _ hη0 hη (by norm_num))
  have h7 := heron_step ν (x 6) (x 7) η (1 / 10 ^ 19) (1 / 10 ^ 38) (hx 6 (by norm_num)) hν (hx 7 (by norm_num))
    hη0 hη1 (by linarith) (by norm_num) h6 (hstep 6 (by norm_num))
    (beta_ok η _ _ hη0 hη (by norm_num))
  exact heron_step ν (x 7) (x 8) η (1 / 10 ^ 38) (2 * η + 1 / 10 ^ 76) (hx 7 (by norm_num)) hν
    (hx 8 (by norm_num)) hη0 hη1 (by linarith) (by norm_num) h7 (hstep 7 (by norm_num))
    (by rw [show 2 * η + 1 / 10 ^ 76 - 2 * η = (1 : ℚ) / 10 ^ 76 by ring]; norm_num)

/-- from relative closeness `ν/x² ∈ [1-β, 1+3η]`, `x = N·P`, to the absolute form used by the final-step
theorems: `((N-a)P)² ≤ ν ≤ ((N+a)P)²` for every `a` with `βN ≤ a`, `3ηN ≤ 2a`, `a ≤ N`. -/
theorem bridge_sq (N a : ℕ) (P ν β η : ℚ) (hβ0 : 0 ≤ β) (hη0 : 0 ≤ η)
    (hlo : (1 - β) * ((N : ℚ) * P) ^ 2 ≤ ν) (hhi : ν ≤ (1 + 3 * η) * ((N : ℚ) * P) ^ 2)
    (hβa : β * N ≤ a) (hηa : 3 * η * N ≤ 2 * a) (haN : a ≤ N) :
    (((N : ℚ) - a) * P) ^ 2 ≤ ν ∧ ν ≤ (((N : ℚ) + a) * P) ^ 2 := by
  have hP2 : 0 ≤ P ^ 2 := sq_nonneg P
  have hN0 : (0 : ℚ) ≤ (N : ℚ) := Nat.cast_nonneg _
  have ha0 : (0 : ℚ) ≤ (a : ℚ) := Nat.cast_nonneg _
  have haNq : (a : ℚ) ≤ (N : ℚ) := by exact_mod_cast haN
  constructor
  · have h1 : ((N : ℚ) - a) ^ 2 ≤ (1 - β) * (N : ℚ) ^ 2 := by
      have e1 : ((N : ℚ) - a) ^ 2 = (N : ℚ) ^ 2 - 2 * (a * N) + a * a := by ring
      have e2 : (1 - β) * (N : ℚ) ^ 2 = (N : ℚ) ^ 2 - (β * N) * N := by ring
      have h3 : (a : ℚ) * a ≤ a * N := mul_le_mul_of_nonneg_left haNq ha0
      have h4 : (β * N) * N ≤ a * N := mul_le_mul_of_nonneg_right hβa hN0
      rw [e1, e2]; linarith
    calc (((N : ℚ) - a) * P) ^ 2 = ((N : ℚ) - a) ^ 2 * P ^ 2 := by ring
      _ ≤ ((1 - β) * (N : ℚ) ^ 2) * P ^ 2 := mul_le_mul_of_nonneg_right h1 hP2
      _ = (1 - β) * ((N : ℚ) * P) ^ 2 := by ring
      _ ≤ ν := hlo
  · have h1 : (1 + 3 * η) * (N : ℚ) ^ 2 ≤ ((N : ℚ) + a) ^ 2 := by
      have e1 : ((N : ℚ) + a) ^ 2 = (N : ℚ) ^ 2 + 2 * (a * N) + a * a := by ring
      have e2 : (1 + 3 * η) * (N : ℚ) ^ 2 = (N : ℚ) ^ 2 + (3 * η * N) * N := by ring
      have h3 : (0 : ℚ) ≤ a * a := mul_nonneg ha0 ha0
      have h4 : (3 * η * N) * N ≤ (2 * a) * N := mul_le_mul_of_nonneg_right hηa hN0
      rw [e1, e2]; linarith
    calc ν ≤ (1 + 3 * η) * ((N : ℚ) * P) ^ 2 := hhi
      _ = ((1 + 3 * η) * (N : ℚ) ^ 2) * P ^ 2 := by ring
      _ ≤ ((N : ℚ) + a) ^ 2 * P ^ 2 := mul_le_mul_of_nonneg_right h1 hP2
      _ = (((N : ℚ) + a) * P) ^ 2 := by ring

/-- **`Gen.Sqrt` from relative closeness of the last iterate.**  `ν` is the scaled argument
(`ν·10^dExp = c·10^e`, see `sqrtCore_spec`), `val res` the last iterate; if `ν/(val res)² ∈ [1-β, 1+3η]`
and `a` dominates `β·sig`, `1.5·η·sig` and satisfies the length condition, `Sqrt` is accepted by the judge. -/
theorem sqrt_of_rel (g : Globals) (m : Spec.Mode) (d : Decimal) (res : decomposed192)
    (trunc : Int8) (dExp : Int16) (c : Nat) (e : Int) (a : Nat) (ν β η : ℚ)
    (h1 : Decimal.isSpecial d = false) (h2 : Decimal.IsZero d = false)
    (h3 : Decimal.Signbit d = false) (hv : 𝔳[d] = .fin false c e)
    (hcore : sqrtCore d = .ok (res, trunc, dExp))
    (hm : Spec.Mode.ofNat? g.DefaultRoundingMode.toNat = some m)
    (hn : SpecRound.isNearest m = true)
    (ht : trunc = 0 ∨ trunc = 1 ∨ trunc = -1)
    (hr0 : -9000 ≤ res.exp.toInt) (hr1 : res.exp.toInt ≤ 9000)
    (hνX : ν * (10 : ℚ) ^ dExp.toInt = (c : ℚ) * (10 : ℚ) ^ e)
    (hβ0 : 0 ≤ β) (hη0 : 0 ≤ η)
    (hrel : (1 - β) * D192.val res ^ 2 ≤ ν ∧ ν ≤ (1 + 3 * η) * D192.val res ^ 2)
    (hβa : β * res.sig.toNat ≤ a) (hηa : 3 * η * res.sig.toNat ≤ 2 * a) (haN : a ≤ res.sig.toNat)
    (hN : (a + 1) * 10 ^ 20 * (Spec.Cmax + 1) < res.sig.toNat) :
    ∃ r rc re, Gen.Sqrt g d = .ok r ∧ 𝔳[r] = .fin false rc re ∧ Spec.rootOk 2 c e rc re = true := by
  obtain ⟨hev, hd0, hd1⟩ := sqrtCore_dExp d h1 res trunc dExp hcore
  obtain ⟨htd, h2h⟩ := tdiv_two_of_even dExp.toInt hev
  obtain ⟨hlo, hhi⟩ := bridge_sq res.sig.toNat a ((10 : ℚ) ^ res.exp.toInt) ν β η hβ0 hη0 hrel.1 hrel.2
    hβa hηa haN
  -- rescale by 10^dExp = (10^(dExp/2))²
  have hsc : ∀ y : ℚ, (y * (10 : ℚ) ^ (res.exp.toInt + dExp.toInt.tdiv 2)) ^ 2
      = (y * (10 : ℚ) ^ res.exp.toInt) ^ 2 * (10 : ℚ) ^ dExp.toInt := by
    intro y
    rw [htd, zpow_add₀ (by norm_num : (10 : ℚ) ≠ 0)]
    have : (10 : ℚ) ^ dExp.toInt = ((10 : ℚ) ^ (dExp.toInt / 2)) ^ 2 := by
      rw [← zpow_natCast, ← zpow_mul]; congr 1; push_cast; omega
    rw [this]; ring
  have hp : (0 : ℚ) < (10 : ℚ) ^ dExp.toInt := zpow_pos (by norm_num) _
  exact Sqrt_rootOk_of_core g m d res trunc dExp c e a h1 h2 h3 hv hcore hm hn ht hr0 hr1
    (by omega) (by omega) hN
    (by rw [hsc, ← hνX]; exact mul_le_mul_of_nonneg_right hlo hp.le)
    (by rw [hsc, ← hνX]; exact mul_le_mul_of_nonneg_right hhi hp.le)

/-- **`Gen.Sqrt` from per-step accuracy.**  If the values `x 0 … x 8` of the seed and of the eight iterates
(`x 8 = val res`) satisfy the seed condition and each step is within relative `η ≤ 1e-55` of the exact Heron
step for `ν`, and the last iterate is normalised (`2^192/10 ≤ res.sig`), then `Sqrt` is accepted by the
judge.  (What remains for an unconditional theorem: derive `hx`, `hseed`, `hstep`, `ht`, `hr0/1`, `hnorm`
from the contracts of `decomposed192.mul/add/quo`.) -/
theorem sqrt_of_heron (g : Globals) (m : Spec.Mode) (d : Decimal) (res : decomposed192)
    (trunc : Int8) (dExp : Int16) (c : Nat) (e : Int) (ν η : ℚ) (x : ℕ → ℚ)
    (h1 : Decimal.isSpecial d = false) (h2 : Decimal.IsZero d = false)
    (h3 : Decimal.Signbit d = false) (hv : 𝔳[d] = .fin false c e)
    (hcore : sqrtCore d = .ok (res, trunc, dExp))
    (hm : Spec.Mode.ofNat? g.DefaultRoundingMode.toNat = some m)
    (hn : SpecRound.isNearest m = true)
    (ht : trunc = 0 ∨ trunc = 1 ∨ trunc = -1)
    (hr0 : -9000 ≤ res.exp.toInt) (hr1 : res.exp.toInt ≤ 9000)
    (hnorm : 2 ^ 192 / 10 ≤ res.sig.toNat)
    (hν : 0 < ν) (hνX : ν * (10 : ℚ) ^ dExp.toInt = (c : ℚ) * (10 : ℚ) ^ e)
    (hx : ∀ n, n ≤ 8 → 0 < x n) (hx8 : x 8 = D192.val res)
    (hη0 : 0 ≤ η) (hη : η ≤ 1 / 10 ^ 55)
    (hseed : (1 - 87 / 100) * x 0 ^ 2 ≤ ν ∧ ν ≤ x 0 ^ 2)
    (hstep : ∀ n, n < 8 → (1 - η) * (x n ^ 2 + ν) ≤ 2 * x n * x (n + 1) ∧
      2 * x n * x (n + 1) ≤ (1 + η) * (x n ^ 2 + ν)) :
    ∃ r rc re, Gen.Sqrt g d = .ok r ∧ 𝔳[r] = .fin false rc re ∧ Spec.rootOk 2 c e rc re = true := by
  have h8 := heron8 ν η x hν hx hη0 (le_trans hη (by norm_num)) hseed hstep
  rw [hx8] at h8
  -- a = ⌊sig / 10^54⌋ - 1 … simply take a = sig / (4·10^54) (natural division)
  have hs192 := res.sig.toNat_lt
  set N := res.sig.toNat with hNdef
  have hnat : 6 * 10 ^ 56 ≤ N := le_trans (by norm_num) hnorm
  have hNq : (6 * 10 ^ 56 : ℚ) ≤ (N : ℚ) := by exact_mod_cast hnat
  have hβ : (2 * η + 1 / 10 ^ 76) ≤ 3 / 10 ^ 55 := by
    have : (1 : ℚ) / 10 ^ 76 ≤ 1 / 10 ^ 55 := by norm_num
    linarith
  refine sqrt_of_rel g m d res trunc dExp c e (N / (2 * 10 ^ 54)) ν (2 * η + 1 / 10 ^ 76) η h1 h2 h3 hv
    hcore hm hn ht hr0 hr1 hνX (by positivity) hη0 h8 ?_ ?_ (Nat.div_le_self _ _) ?_
  · -- β N ≤ a
    have ha : ((N / (2 * 10 ^ 54) : Nat) : ℚ) ≥ (N : ℚ) / (2 * 10 ^ 54) - 1 := by
      have := Nat.lt_div_mul_add (a := N) (b := 2 * 10 ^ 54) (by norm_num)
      have h' : (N : ℚ) < ((N / (2 * 10 ^ 54) : Nat) : ℚ) * (2 * 10 ^ 54) + (2 * 10 ^ 54) := by
        exact_mod_cast this
      rw [ge_iff_le, sub_le_iff_le_add, div_le_iff₀ (by norm_num)]
      linarith
    have hN0 : (0 : ℚ) ≤ (N : ℚ) := Nat.cast_nonneg _
    have h1' : (2 * η + 1 / 10 ^ 76) * (N : ℚ) ≤ 3 / 10 ^ 55 * (N : ℚ) :=
      mul_le_mul_of_nonneg_right hβ hN0
    have h2' : (3 : ℚ) / 10 ^ 55 * (N : ℚ) ≤ (N : ℚ) / (2 * 10 ^ 54) - 1 := by
      have e : (N : ℚ) / (2 * 10 ^ 54) = 5 / 10 ^ 55 * (N : ℚ) := by ring
      rw [e]
      have : (2 : ℚ) / 10 ^ 55 * (6 * 10 ^ 56) ≤ 2 / 10 ^ 55 * (N : ℚ) :=
        mul_le_mul_of_nonneg_left hNq (by norm_num)
      have e2 : (2 : ℚ) / 10 ^ 55 * (6 * 10 ^ 56) = 120 := by norm_num
      linarith
    linarith
  · have ha : ((N / (2 * 10 ^ 54) : Nat) : ℚ) ≥ (N : ℚ) / (2 * 10 ^ 54) - 1 := by
      have := Nat.lt_div_mul_add (a := N) (b := 2 * 10 ^ 54) (by norm_num)
      have h' : (N : ℚ) < ((N / (2 * 10 ^ 54) : Nat) : ℚ) * (2 * 10 ^ 54) + (2 * 10 ^ 54) := by
        exact_mod_cast this
      rw [ge_iff_le, sub_le_iff_le_add, div_le_iff₀ (by norm_num)]
      linarith
    have hN0 : (0 : ℚ) ≤ (N : ℚ) := Nat.cast_nonneg _
    have h1' : 3 * η * (N : ℚ) ≤ 3 * (1 / 10 ^ 55) * (N : ℚ) :=
      mul_le_mul_of_nonneg_right (by linarith) hN0
    have h2' : 3 * ((1 : ℚ) / 10 ^ 55) * (N : ℚ) ≤ 2 * ((N : ℚ) / (2 * 10 ^ 54) - 1) := by
      have e : (N : ℚ) / (2 * 10 ^ 54) = 5 / 10 ^ 55 * (N : ℚ) := by ring
      rw [e]
      have : (7 : ℚ) / 10 ^ 55 * (6 * 10 ^ 56) ≤ 7 / 10 ^ 55 * (N : ℚ) :=
        mul_le_mul_of_nonneg_left hNq (by norm_num)
      have e2 : (7 : ℚ) / 10 ^ 55 * (6 * 10 ^ 56) = 420 := by norm_num
      linarith
    linarith
  · -- (a+1)·1e20·(Cmax+1) < N
    have h1' : N / (2 * 10 ^ 54) * (2 * 10 ^ 54) ≤ N := Nat.div_mul_le_self _ _
    have hC : Spec.Cmax + 1 = 12980742146337069071326240823050240 := by unfold Spec.Cmax; norm_num
    rw [hC]
    generalize N / (2 * 10 ^ 54) = q at h1' ⊢
    omega

/-! ## the hypotheses are satisfiable -/

/-- exact Heron iterates for ν = 2 from the seed 0.259 + 0.819·2 -/
def heronEx : ℕ → ℚ
  | 0 => 1897 / 1000
  | n + 1 => (heronEx n + 2 / heronEx n) / 2

theorem heronEx_pos : ∀ n, 0 < heronEx n
  | 0 => by norm_num [heronEx]
  | n + 1 => by
    have := heronEx_pos n
    unfold heronEx; positivity

/-- the hypotheses of `heron8` are satisfiable (ν = 2, exact steps, η = 0): the conclusion says
`2/x₈² ∈ [1 - 1e-76, 1]` -/
example := heron8 2 0 heronEx (by norm_num) (fun n _ => heronEx_pos n) (le_refl _) (by norm_num)
  (by norm_num [heronEx])
  (fun n _ => by
    have h := heronEx_pos n
    have e : 2 * heronEx n * heronEx (n + 1) = heronEx n ^ 2 + 2 := by
      show 2 * heronEx n * ((heronEx n + 2 / heronEx n) / 2) = _
      field_simp
    rw [e]; constructor <;> linarith)

/-- `sqrt_of_rel` for `d = 2` with the iterate `#eval Root.sqrtCore` reports (hypothesis `hcore`, which the
kernel cannot evaluate): ν = 2, β = 1e-56, η = 0, a = 20 -/
example (g : Globals) (hg : g.DefaultRoundingMode = 0)
    (hcore : sqrtCore ⟨2, 3476778912330022912⟩ =
      .ok (⟨⟨12162708294298129116, 10086727926629614500, 4156000133564589919⟩, -57⟩, 1, 0)) :=
  sqrt_of_rel g .nearestEven ⟨2, 3476778912330022912⟩ _ 1 0 2 0 20 2 (1 / 10 ^ 56) 0
    (by decide) (by decide) (by decide)
    (by rw [Enc.interp_decompose _ (by decide)]
        have : Gen.Decimal.decompose ⟨2, 3476778912330022912⟩ = (⟨2, 0⟩, 6176) := by decide
        rw [this]; rfl)
    hcore (by rw [hg]; rfl) rfl (Or.inr (Or.inl rfl)) (by decide) (by decide)
    (by have : (0 : Int16).toInt = 0 := by decide
        rw [this]; norm_num) (by norm_num) (le_refl _)
    (by simp [D192.val, U192.toNat]; norm_num)
    (by simp [U192.toNat]; norm_num) (by simp [U192.toNat]) (by simp [U192.toNat])
    (by unfold Spec.Cmax; simp [U192.toNat])
end Root
