/-
  D128/Proofs/D192Exp.lean — `decomposed192.epow` (Go: /repo/decomposed.go): `e^x` by argument
  reduction `x = x'·10^o`, a 40-step Horner loop for `e^x'`, and `powexp10`.

  * `PwRes`, `powexp10_qspec`  : `powexp10` as an `@[spec]` triple
  * `EpowPost`, `epow_triple`  : for `EpowPre d l10` (non-zero significand, `-15900 ≤ d.exp ≤ 16000`,
        `|l10| ≤ 100`, `o = max 0 (d.exp + l10 + 1) ≤ 7`, reduced argument `x' ≤ 1`):
        no panic, termination of the two scaling loops and the Horner loop, no `int16` wrap, and
          `R x'·(1 - 10^-56)^118 ≤ val y ≤ R x'`,  `1 ≤ val y`,  flag ∈ {t, 1},
        where `y` is the value handed to `powexp10` and the final result is `powexp10 y o`
        (`PwRes`, see D192Pow.lean).
  * `epow_spec`                : the same as a result equation
  * `R_eq`                     : `R x = Σ_{k=0}^{38} x^k/k! + x^40/40!`  — FINDING: the term `x^39/39!`
        of the 40-term Taylor sum is missing (the loop starts from `d/40` instead of `1 + d/40`);
        `epow_below_taylor`: hence `val y ≤ (Σ_{k≤40} x^k/k!) - x^39/39!`.
        Evaluated evidence: D192ExpEval.lean.
-/
import D128.Proofs.D192ExpMath
import Mathlib.Algebra.BigOperators.Group.Finset.Basic
set_option autoImplicit false
set_option maxRecDepth 8192
set_option exponentiation.threshold 512
set_option linter.unusedVariables false
open Std.Do D128.Proofs.WordsWide
set_option mvcgen.warning false

namespace D192

/-- result of `powexp10` as a predicate -/
def PwRes (d : Gen.decomposed192) (o : Int16) (t : Int8) (x : Gen.decomposed192 × Int8) : Prop :=
  (o = 0 ∧ x = (d, t)) ∨ (o ≠ 0 ∧ PwPost (val d) (10 ^ o.toInt.toNat) t x)

@[spec] theorem powexp10_qspec (d : Gen.decomposed192) (o : Int16) (t : Int8) :
    ⦃⌜1 ≤ val d ∧ 0 ≤ o.toInt ∧ o.toInt ≤ 7⌝⦄ Gen.decomposed192.powexp10 d o t
    ⦃⇓ x => ⌜PwRes d o t x⌝⦄ := by
  generalize hP : (1 ≤ val d ∧ 0 ≤ o.toInt ∧ o.toInt ≤ 7) = P
  by_cases h : P
  · have h' := hP ▸ h
    obtain ⟨x, e, hc⟩ := powexp10_spec d o t h'.1 h'.2.1 h'.2.2
    have := triple_of_eq e (Q := fun x => PwRes d o t x) hc
    simpa [h] using this
  · simp [Triple, h]

/-- what `epow` delivers: `y` is the value of the series before `powexp10` -/
def EpowPost (x : ℚ) (o : Int16) (t : Int8) (z : Gen.decomposed192 × Int8) : Prop :=
  ∃ (y : Gen.decomposed192) (ty : Int8), R x * (1 - theta) ^ 118 ≤ val y ∧ val y ≤ R x ∧ 1 ≤ val y ∧
    (ty = t ∨ ty = 1) ∧ PwRes y o ty z

/-! ### VC wrappers (conclusions determine the anonymous loop variables) -/

theorem w_quo40 {D : Nat} {e : Int16} {d2 : Gen.decomposed192}
    (h : ScUp D e d2 ∧ LIM ≤ d2.sig.toNat) (hD : 1 ≤ D)
    (he : -15900 ≤ e.toInt ∧ e.toInt ≤ 16000) (hx : (D : ℚ) * (10 : ℚ) ^ e.toInt ≤ 1) :
    ¬ d2.sig.toNat = 0 ∧ -16000 ≤ d2.exp.toInt ∧ d2.exp.toInt ≤ 16000 := by
  obtain ⟨-, f2, f3, f4⟩ := scaled_facts h.1 hD he hx h.2
  exact ⟨f2, by omega, by omega⟩

theorem w_quoi {D : Nat} {e : Int16} {d2 : Gen.decomposed192} {i : UInt64}
    (h : ScUp D e d2 ∧ LIM ≤ d2.sig.toNat) (hD : 1 ≤ D)
    (he : -15900 ≤ e.toInt ∧ e.toInt ≤ 16000) (hx : (D : ℚ) * (10 : ℚ) ^ e.toInt ≤ 1)
    (hi : 1 < i) :
    ¬ d2.sig.toNat = 0 ∧ ¬ i.toNat = 0 ∧ -16000 ≤ d2.exp.toInt ∧ d2.exp.toInt ≤ 16000 := by
  obtain ⟨-, f2, f3, f4⟩ := scaled_facts h.1 hD he hx h.2
  rw [UInt64.lt_iff_toNat_lt] at hi
  have : (1 : UInt64).toNat = 1 := rfl
  exact ⟨f2, by omega, by omega, by omega⟩

theorem w_mulpre {D : Nat} {e : Int16} {d2 : Gen.decomposed192} {t : Int8}
    {b : Int8 × Gen.decomposed192 × UInt64} {q : Gen.decomposed192 × Int8} {i : UInt64} {t0 : Int8}
    (h : ScUp D e d2 ∧ LIM ≤ d2.sig.toNat) (hD : 1 ≤ D)
    (he : -15900 ≤ e.toInt ∧ e.toInt ≤ 16000) (hx : (D : ℚ) * (10 : ℚ) ^ e.toInt ≤ 1)
    (hinv : HInv (val d2) d2.exp.toInt t b) (hq : QuoS d2 i t0 q) :
    -32768 ≤ b.2.1.exp.toInt + q.1.exp.toInt ∧ b.2.1.exp.toInt + q.1.exp.toInt + 58 ≤ 32767 := by
  obtain ⟨-, f2, f3, f4⟩ := scaled_facts h.1 hD he hx h.2
  exact hinv.mul_pre ⟨by omega, f4⟩ q i t0 hq

theorem w_step {D : Nat} {e : Int16} {d2 : Gen.decomposed192} {t : Int8}
    {b : Int8 × Gen.decomposed192 × UInt64} {mb : Nat}
    {q m a : Gen.decomposed192 × Int8}
    (h : ScUp D e d2 ∧ LIM ≤ d2.sig.toNat) (hD : 1 ≤ D)
    (he : -15900 ≤ e.toInt ∧ e.toInt ≤ 16000) (hx : (D : ℚ) * (10 : ℚ) ^ e.toInt ≤ 1)
    (hinv : mb = b.2.2.toNat ∧ HInv (val d2) d2.exp.toInt t b) (hi : 1 < b.2.2)
    (hq : QuoS d2 b.2.2 0 q) (hm : MulQ2 b.2.1 q.1 b.1 m) (ha : Add1R m.1 m.2 a) :
    (b.2.2 - 1).toNat < mb ∧ HInv (val d2) d2.exp.toInt t (a.2, a.1, b.2.2 - 1) := by
  obtain ⟨f1, f2, f3, f4⟩ := scaled_facts h.1 hD he hx h.2
  have hx0 : 0 < val d2 := by
    rw [f1]; exact mul_pos (by exact_mod_cast hD) (zpow_pos (by norm_num) _)
  have := hinv.2.step hx0 (by rw [f1]; exact hx) f4 hi q hq m hm a ha
  exact ⟨by rw [hinv.1]; exact this.1, this.2⟩

theorem w_exit {x : ℚ} {e2 : Int} {t : Int8} {b : Int8 × Gen.decomposed192 × UInt64} {mb : Nat}
    (hinv : mb = b.2.2.toNat ∧ HInv x e2 t b) (hi : b.2.2 ≤ 1) :
    HInv x e2 t b ∧ b.2.2.toNat ≤ 1 := by
  rw [UInt64.le_iff_toNat_le] at hi
  exact ⟨hinv.2, hi⟩

theorem w_init {D : Nat} {e : Int16} {d2 : Gen.decomposed192} {t : Int8}
    {r : Gen.decomposed192 × Int8}
    (h : ScUp D e d2 ∧ LIM ≤ d2.sig.toNat) (hD : 1 ≤ D)
    (he : -15900 ≤ e.toInt ∧ e.toInt ≤ 16000) (hx : (D : ℚ) * (10 : ℚ) ^ e.toInt ≤ 1)
    (hq : QuoS d2 40 t r) : HInv (val d2) d2.exp.toInt t (r.2, r.1, 39) := by
  obtain ⟨-, f2, f3, f4⟩ := scaled_facts h.1 hD he hx h.2
  exact HInv.init d2 t r f4 hq

theorem w_finalpre {D : Nat} {e : Int16} {d2 : Gen.decomposed192} {t : Int8}
    {b : Int8 × Gen.decomposed192 × UInt64}
    (h : ScUp D e d2 ∧ LIM ≤ d2.sig.toNat) (hD : 1 ≤ D)
    (he : -15900 ≤ e.toInt ∧ e.toInt ≤ 16000) (hx : (D : ℚ) * (10 : ℚ) ^ e.toInt ≤ 1)
    (hinv : HInv (val d2) d2.exp.toInt t b ∧ b.2.2.toNat ≤ 1) :
    -32768 ≤ b.2.1.exp.toInt + d2.exp.toInt ∧ b.2.1.exp.toInt + d2.exp.toInt + 58 ≤ 32767 := by
  obtain ⟨-, f2, f3, f4⟩ := scaled_facts h.1 hD he hx h.2
  exact hinv.1.final_pre ⟨by omega, f4⟩

theorem w_final {D : Nat} {e : Int16} {d2 : Gen.decomposed192} {t : Int8}
    {b : Int8 × Gen.decomposed192 × UInt64} {m a : Gen.decomposed192 × Int8}
    (h : ScUp D e d2 ∧ LIM ≤ d2.sig.toNat) (hD : 1 ≤ D)
    (he : -15900 ≤ e.toInt ∧ e.toInt ≤ 16000) (hx : (D : ℚ) * (10 : ℚ) ^ e.toInt ≤ 1)
    (hinv : HInv (val d2) d2.exp.toInt t b ∧ b.2.2.toNat ≤ 1)
    (hm : MulQ2 b.2.1 d2 b.1 m) (ha : Add1R m.1 m.2 a) :
    R ((D : ℚ) * (10 : ℚ) ^ e.toInt) * (1 - theta) ^ 118 ≤ val a.1 ∧
      val a.1 ≤ R ((D : ℚ) * (10 : ℚ) ^ e.toInt) ∧ 1 ≤ val a.1 ∧ (a.2 = t ∨ a.2 = 1) := by
  obtain ⟨f1, f2, f3, f4⟩ := scaled_facts h.1 hD he hx h.2
  have hx0 : 0 < val d2 := by
    rw [f1]; exact mul_pos (by exact_mod_cast hD) (zpow_pos (by norm_num) _)
  have := hinv.1.final hx0 hinv.2 m hm a ha
  rw [f1] at this
  exact this

theorem w_one {m a : Gen.decomposed192 × Int8} (ha : Add1R m.1 m.2 a) : 1 ≤ val a.1 := ha.2.2.1

theorem epow_triple (d : Gen.decomposed192) (l10 : Int16) (t : Int8) :
    ⦃⌜EpowPre d l10⌝⦄ Gen.decomposed192.epow d l10 t
    ⦃⇓ z => ⌜EpowPost (epowX d l10) (epowO d l10) t z⌝⦄ := by
  mvcgen [Gen.decomposed192.epow]
  case inv1 | inv3 | inv7 | inv9 => exact fun st => ⟨gap st.sig.toNat⟩
  case inv2 => exact ⇓ x => match x with
    | .inl st => ⌜ScUp d.sig.toNat d.exp st⌝
    | .inr st => ⌜ScUp d.sig.toNat d.exp st⌝
  case inv4 => exact ⇓ x => match x with
    | .inl st => ⌜ScUp d.sig.toNat d.exp st⌝
    | .inr st => ⌜ScUp d.sig.toNat d.exp st ∧ LIM ≤ st.sig.toNat⌝
  case inv8 => exact ⇓ x => match x with
    | .inl st => ⌜ScUp d.sig.toNat (-l10 - 1) st⌝
    | .inr st => ⌜ScUp d.sig.toNat (-l10 - 1) st⌝
  case inv10 => exact ⇓ x => match x with
    | .inl st => ⌜ScUp d.sig.toNat (-l10 - 1) st⌝
    | .inr st => ⌜ScUp d.sig.toNat (-l10 - 1) st ∧ LIM ≤ st.sig.toNat⌝
  case inv5 | inv11 => exact fun st => ⟨st.2.2.toNat⟩
  case inv6 | inv12 =>
    rename_i d2 _ _ _ _ _
    exact ⇓ x => match x with
    | .inl st => ⌜HInv (val d2) d2.exp.toInt t st⌝
    | .inr st => ⌜HInv (val d2) d2.exp.toInt t st ∧ st.2.2.toNat ≤ 1⌝
  all_goals (simp +zetaDelta at *)
  case vc1 =>
    rename_i hw hinv
    have hpre : EpowPre d l10 := by assumption
    have hlt : d.exp + l10 + 1 < 0 := by assumption
    exact vc_up _ _ 10000 4 (by decide) (by norm_num) (hpre.neg hlt).1 (fit4 _ hw) hinv
  case vc19 =>
    rename_i hw hinv
    have hpre : EpowPre d l10 := by assumption
    have hge : 0 ≤ d.exp + l10 + 1 := by assumption
    exact vc_up _ _ 10000 4 (by decide) (by norm_num) (hpre.pos hge).1 (fit4 _ hw) hinv
  case vc4 =>
    rename_i hw hinv
    have hpre : EpowPre d l10 := by assumption
    have hlt : d.exp + l10 + 1 < 0 := by assumption
    exact vc_up _ _ 10 1 (by decide) (by norm_num) (hpre.neg hlt).1 (fit1 _ hw) hinv
  case vc22 =>
    rename_i hw hinv
    have hpre : EpowPre d l10 := by assumption
    have hge : 0 ≤ d.exp + l10 + 1 := by assumption
    exact vc_up _ _ 10 1 (by decide) (by norm_num) (hpre.pos hge).1 (fit1 _ hw) hinv
  case vc2 | vc20 => rename_i hinv; exact hinv.2
  case vc3 => exact ScUp.refl d
  case vc21 => exact ScUp.refl ⟨d.sig, -l10 - 1⟩
  case vc5 | vc23 =>
    rename_i hw hinv
    exact ⟨hinv.2, ge_LIM_of_not_le _ (by rw [UInt64.not_le]; exact hw)⟩
  case vc6 | vc24 => rename_i h _; exact h
  case vc7 =>
    have hpre : EpowPre d l10 := by assumption
    have hlt : d.exp + l10 + 1 < 0 := by assumption
    obtain ⟨b1, b2, b3, -, -⟩ := hpre.neg hlt
    exact w_quo40 (by assumption) b1 b2 b3
  case vc25 =>
    have hpre : EpowPre d l10 := by assumption
    have hge : 0 ≤ d.exp + l10 + 1 := by assumption
    obtain ⟨b1, b2, b3, -, -⟩ := hpre.pos hge
    exact w_quo40 (by assumption) b1 b2 b3
  case vc8 =>
    have hpre : EpowPre d l10 := by assumption
    have hlt : d.exp + l10 + 1 < 0 := by assumption
    obtain ⟨b1, b2, b3, -, -⟩ := hpre.neg hlt
    exact w_quoi (by assumption) b1 b2 b3 (by assumption)
  case vc26 =>
    have hpre : EpowPre d l10 := by assumption
    have hge : 0 ≤ d.exp + l10 + 1 := by assumption
    obtain ⟨b1, b2, b3, -, -⟩ := hpre.pos hge
    exact w_quoi (by assumption) b1 b2 b3 (by assumption)
  case vc9 =>
    rename_i hinv
    have hpre : EpowPre d l10 := by assumption
    have hlt : d.exp + l10 + 1 < 0 := by assumption
    obtain ⟨b1, b2, b3, -, -⟩ := hpre.neg hlt
    exact w_mulpre (by assumption) b1 b2 b3 hinv.2 (by assumption)
  case vc27 =>
    rename_i hinv
    have hpre : EpowPre d l10 := by assumption
    have hge : 0 ≤ d.exp + l10 + 1 := by assumption
    obtain ⟨b1, b2, b3, -, -⟩ := hpre.pos hge
    exact w_mulpre (by assumption) b1 b2 b3 hinv.2 (by assumption)
  case vc10 =>
    rename_i hi hinv
    have hpre : EpowPre d l10 := by assumption
    have hlt : d.exp + l10 + 1 < 0 := by assumption
    obtain ⟨b1, b2, b3, -, -⟩ := hpre.neg hlt
    exact w_step (by assumption) b1 b2 b3 hinv hi (by assumption) (by assumption) (by assumption)
  case vc28 =>
    rename_i hi hinv
    have hpre : EpowPre d l10 := by assumption
    have hge : 0 ≤ d.exp + l10 + 1 := by assumption
    obtain ⟨b1, b2, b3, -, -⟩ := hpre.pos hge
    exact w_step (by assumption) b1 b2 b3 hinv hi (by assumption) (by assumption) (by assumption)
  case vc11 | vc29 => rename_i hi hinv; exact w_exit hinv hi
  case vc12 =>
    have hpre : EpowPre d l10 := by assumption
    have hlt : d.exp + l10 + 1 < 0 := by assumption
    obtain ⟨b1, b2, b3, -, -⟩ := hpre.neg hlt
    exact w_init (by assumption) b1 b2 b3 (by assumption)
  case vc30 =>
    have hpre : EpowPre d l10 := by assumption
    have hge : 0 ≤ d.exp + l10 + 1 := by assumption
    obtain ⟨b1, b2, b3, -, -⟩ := hpre.pos hge
    exact w_init (by assumption) b1 b2 b3 (by assumption)
  case vc13 =>
    have hpre : EpowPre d l10 := by assumption
    have hlt : d.exp + l10 + 1 < 0 := by assumption
    obtain ⟨b1, b2, b3, -, -⟩ := hpre.neg hlt
    exact w_finalpre (by assumption) b1 b2 b3 (by assumption)
  case vc31 =>
    have hpre : EpowPre d l10 := by assumption
    have hge : 0 ≤ d.exp + l10 + 1 := by assumption
    obtain ⟨b1, b2, b3, -, -⟩ := hpre.pos hge
    exact w_finalpre (by assumption) b1 b2 b3 (by assumption)
  case vc14 => exact w_one (by assumption)
  case vc32 =>
    have hpre : EpowPre d l10 := by assumption
    have hge : 0 ≤ d.exp + l10 + 1 := by assumption
    obtain ⟨b1, b2, b3, b4, b5, b6, b7⟩ := hpre.pos hge
    have he := epow_exp_toInt d l10 hpre
    have hb : (d.exp.toInt + l10.toInt + 1).bmod 65536 = epowE d l10 := by
      obtain ⟨-, h1, h2, h3, h4, -, -⟩ := hpre
      unfold epowE; apply Int.bmod_eq_of_le <;> omega
    rw [hb, ← he]
    exact ⟨w_one (by assumption), b6, b7⟩
  case vc15 =>
    intro hpw
    have hpre : EpowPre d l10 := by assumption
    have hlt : d.exp + l10 + 1 < 0 := by assumption
    obtain ⟨b1, b2, b3, b4, b5⟩ := hpre.neg hlt
    have hf := w_final (by assumption) b1 b2 b3 (by assumption) (by assumption) (by assumption)
    rw [b4, b5]
    exact ⟨_, _, hf.1, hf.2.1, hf.2.2.1, hf.2.2.2, hpw⟩
  case vc33 =>
    intro hpw
    have hpre : EpowPre d l10 := by assumption
    have hge : 0 ≤ d.exp + l10 + 1 := by assumption
    obtain ⟨b1, b2, b3, b4, b5, b6, b7⟩ := hpre.pos hge
    have hf := w_final (by assumption) b1 b2 b3 (by assumption) (by assumption) (by assumption)
    rw [b4, b5]
    exact ⟨_, _, hf.1, hf.2.1, hf.2.2.1, hf.2.2.2, hpw⟩


/-- `epow` as a result equation. -/
theorem epow_spec (d : Gen.decomposed192) (l10 : Int16) (t : Int8) (h : EpowPre d l10) :
    ∃ z, Gen.decomposed192.epow d l10 t = .ok z ∧ EpowPost (epowX d l10) (epowO d l10) t z := by
  have h' : ⦃⌜True⌝⦄ Gen.decomposed192.epow d l10 t
      ⦃⇓ z => ⌜EpowPost (epowX d l10) (epowO d l10) t z⌝⦄ := by
    simpa [h] using epow_triple d l10 t
  exact ok_of_triple h'

/-- the polynomial that `epow` evaluates: the 40-term Taylor sum WITHOUT the term `x^39/39!`. -/
theorem R_eq (x : ℚ) :
    R x = (∑ k ∈ Finset.range 39, x ^ k / (Nat.factorial k : ℚ)) + x ^ 40 / (Nat.factorial 40 : ℚ) := by
  unfold R
  simp only [G, Finset.sum_range_succ, Finset.sum_range_zero, Nat.factorial]
  push_cast
  ring

/-- FINDING as a theorem: the value `y` that `epow` hands to `powexp10` is below the 40-term Taylor
polynomial by at least the missing term `x^39/39!`. -/
theorem epow_below_taylor (d : Gen.decomposed192) (l10 : Int16) (t : Int8) (h : EpowPre d l10) :
    ∃ z y ty, Gen.decomposed192.epow d l10 t = .ok z ∧ PwRes y (epowO d l10) ty z ∧
      val y ≤ (∑ k ∈ Finset.range 41, epowX d l10 ^ k / (Nat.factorial k : ℚ))
        - epowX d l10 ^ 39 / (Nat.factorial 39 : ℚ) := by
  obtain ⟨z, e, y, ty, -, h2, -, -, h5⟩ := epow_spec d l10 t h
  refine ⟨z, y, ty, e, h5, le_trans h2 (le_of_eq ?_)⟩
  rw [R_eq]
  have e41 : (∑ k ∈ Finset.range 41, epowX d l10 ^ k / (Nat.factorial k : ℚ))
      = (∑ k ∈ Finset.range 39, epowX d l10 ^ k / (Nat.factorial k : ℚ))
        + epowX d l10 ^ 39 / (Nat.factorial 39 : ℚ) + epowX d l10 ^ 40 / (Nat.factorial 40 : ℚ) := by
    rw [Finset.sum_range_succ (n := 40), Finset.sum_range_succ (n := 39)]
  rw [e41]
  ring

/-- the hypotheses are satisfiable: `x = 0.9` (`d = 9·10^-1`, `l10 = 0`). -/
example : EpowPre ⟨⟨9, 0, 0⟩, -1⟩ 0 := by
  refine ⟨by decide, by decide, by decide, by decide, by decide, by decide, ?_⟩
  have hE : ¬ epowE ⟨⟨9, 0, 0⟩, -1⟩ 0 < 0 := by decide
  unfold epowX
  rw [if_neg hE]
  have h9 : (U192.mk 9 0 0).toNat = 9 := by decide
  have h0 : (0 : Int16).toInt = 0 := by decide
  simp only [h9, h0]
  norm_num

end D192
