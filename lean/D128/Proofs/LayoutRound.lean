/-
  D128/Proofs/LayoutRound.lean — what `Decimal.format` needs to know about the records produced by
  `Decimal.digits` and `digits.round` before they are laid out.

  * `Ly.digits_fin`   : for a finite `d` the record of `Decimal.digits` is well-formed, denotes
        `Spec.sliceOf c e`, has `−6176 ≤ exp`, `exp + ndig ≤ 6146`, and `exp = 0` when it has no digits
  * `Ly.NormS`, `Ly.normS_nslice` : normalised slices; the slice of a well-formed record is one
  * `Ly.roundSlice_of_le`, `Ly.roundSlice_nil`, `Ly.nslice_round` : `Spec.roundSlice` keeps short
        slices, normalises zero, and is what the rounded record denotes
  * `Ly.RoundShape`, `Ly.round_shape` : `round d prec` (`0 ≤ prec`) keeps at most `prec` digits
        (one digit after a carry out of the kept prefix), moves the point by at most one place, and
        keeps at least one digit when `1 ≤ prec`
-/
import D128.Proofs.LayoutSpec
import D128.Proofs.DigitsGen

set_option autoImplicit false
set_option maxRecDepth 4096

namespace Ly
open Dg Gen

/-- the record `Decimal.digits` produces for a finite value -/
theorem digits_fin (d : Decimal) (digs : digits) (hfin : Decimal.isSpecial d = false) :
    ∃ r, Decimal.digits_ d digs = .ok r ∧ WF r ∧ r.neg = Decimal.Signbit d ∧
      slice r = Spec.sliceOf (Decimal.decompose d).1.toNat ((Decimal.decompose d).2.toInt - 6176) ∧
      -6176 ≤ r.exp.toInt ∧ r.exp.toInt + r.ndig.toInt ≤ 6146 ∧
      (r.ndig.toInt = 0 → r.exp.toInt = 0) := by
  obtain ⟨r, hr, hneg, hwf, hs, hv⟩ := digits_ok d digs
  refine ⟨r, hr, hwf, hneg, hs, ?_⟩
  have he0 := Enc.decompose_exp_nonneg d
  have he1 := Enc.decompose_exp_le d hfin
  by_cases hc : (Decimal.decompose d).1.toNat = 0
  · rw [hc] at hs
    have h0 : Spec.sliceOf 0 ((Decimal.decompose d).2.toInt - 6176) = ⟨[], 0⟩ := rfl
    rw [h0] at hs
    have hds : msd r.dig r.ndig.toInt.toNat = [] := congrArg Spec.Slice.ds hs
    have hdp : r.exp.toInt + r.ndig.toInt = 0 := congrArg Spec.Slice.dp hs
    have hlen : r.ndig.toInt.toNat = 0 := by
      rw [← msd_length r.dig r.ndig.toInt.toNat, hds]; rfl
    have := hwf.n0
    omega
  · obtain ⟨k, hk, hexp⟩ := hv hc
    have hn0 := hwf.n0
    have hnpos : 0 < r.ndig.toInt := by
      by_cases h : 0 < r.ndig.toInt
      · exact h
      · exfalso
        have hz : r.ndig.toInt.toNat = 0 := by omega
        apply hc
        rw [hk]
        show ofMsd (msd r.dig r.ndig.toInt.toNat) * 10 ^ k = 0
        rw [hz]; simp [msd]
    obtain ⟨L, hL⟩ := Ly.msd_head r.dig r.ndig.toInt.toNat (by omega)
    have hd0 : dv (at_ r.dig 0) ≠ 0 := dv_ne_zero (hwf.dig 0 (by omega)) (hwf.first hnpos)
    have hLlen : L.length + 1 = r.ndig.toInt.toNat := by
      have := msd_length r.dig r.ndig.toInt.toNat
      rw [hL] at this; simpa using this
    have hpos := ofMsd_pos (dv (at_ r.dig 0)) L hd0
    have hb : L.length + k ≤ 34 := by
      apply pow_bound (L.length + k) _ _ (sig_lt d)
      rw [hk, Nat.pow_add]
      show 10 ^ L.length * 10 ^ k ≤ ofMsd (msd r.dig r.ndig.toInt.toNat) * 10 ^ k
      rw [hL]
      exact Nat.mul_le_mul_right _ hpos
    omega

/-- shape of the record after `round d prec` (`0 ≤ prec`) relative to the record before -/
def RoundShape (d : digits) (prec : Int64) (r : digits) : Prop :=
  ((r.ndig.toInt ≤ prec.toInt ∧ r.exp.toInt + r.ndig.toInt = d.exp.toInt + d.ndig.toInt) ∨
    (r.ndig.toInt = 1 ∧ r.exp.toInt = d.exp.toInt + d.ndig.toInt)) ∧
  r.ndig.toInt ≤ d.ndig.toInt ∧
  (1 ≤ prec.toInt → 1 ≤ d.ndig.toInt → 1 ≤ r.ndig.toInt) ∧
  (d.ndig.toInt = 0 → r = d)

theorem round_shape (d : digits) (prec : Int64) (hwf : WF d) (hexp : ExpOK d)
    (hp : 0 ≤ prec.toInt) :
    ∃ r, digits.round d prec = .ok r ∧ RoundPost d prec r ∧ RoundShape d prec r := by
  obtain ⟨r, hr, hpost⟩ := round_ok d prec hwf hexp
  refine ⟨r, hr, hpost, ?_⟩
  obtain ⟨hx0, hx1⟩ := hexp
  have hn0 := hwf.n0
  have hn39 := hwf.n39
  by_cases hA : d.ndig.toInt ≤ prec.toInt
  · -- nothing to round
    have : digits.round d prec = .ok d := by
      unfold digits.round
      rw [if_pos (by simpa using (i64_le _ _).mpr hA)]; rfl
    rw [this] at hr
    cases hr
    exact ⟨Or.inl ⟨hA, rfl⟩, Int.le_refl _, fun _ h => h, fun _ => rfl⟩
  · have hpn : prec.toInt < d.ndig.toInt := by omega
    obtain ⟨r', hr', hcase⟩ := round_mid d prec hn39 hp hpn
    rw [hr] at hr'
    cases hr'
    have hadd : ∀ j : Int64, -1 ≤ j.toInt → j.toInt < prec.toInt →
        (j + 1).toInt = j.toInt + 1 ∧
        (d.exp + (d.ndig - (j + 1))).toInt = d.exp.toInt + (d.ndig.toInt - (j.toInt + 1)) := by
      intro j h1 h2
      have a : (j + 1).toInt = j.toInt + 1 := by
        rw [i64_add _ _ (by rw [e1]; omega) (by rw [e1]; omega), e1]
      have b : (d.ndig - (j + 1)).toInt = d.ndig.toInt - (j.toInt + 1) := by
        rw [i64_sub _ _ (by rw [a]; omega) (by rw [a]; omega), a]
      exact ⟨a, by rw [i64_add _ _ (by rw [b]; omega) (by rw [b]; omega), b]⟩
    have hsum : (d.exp + d.ndig).toInt = d.exp.toInt + d.ndig.toInt :=
      i64_add _ _ (by omega) (by omega)
    have hne : ¬ d.ndig.toInt = 0 := by omega
    split at hcase
    · obtain ⟨j, hj0, hj1, _, _, _, hc⟩ := hcase
      split at hc
      · obtain ⟨_, he, hn⟩ := hc
        have hn' : r.ndig.toInt = 1 := by rw [hn]; exact e1
        refine ⟨Or.inr ⟨hn', by rw [he, hsum]⟩, by omega, fun _ _ => by omega,
          fun h => absurd h hne⟩
      · obtain ⟨_, he, hn⟩ := hc
        obtain ⟨a, b⟩ := hadd j hj0 hj1
        have hn' : r.ndig.toInt = j.toInt + 1 := by rw [hn, a]
        refine ⟨Or.inl ⟨by omega, by rw [he, b, hn']; omega⟩, by omega, fun _ _ => by omega,
          fun h => absurd h hne⟩
    · obtain ⟨j, hj0, hj1, hall, hnot, _, _, he, hn⟩ := hcase
      obtain ⟨a, b⟩ := hadd j hj0 hj1
      have hn' : r.ndig.toInt = j.toInt + 1 := by rw [hn, a]
      refine ⟨Or.inl ⟨by omega, by rw [he, b, hn']; omega⟩, by omega, ?_, fun h => absurd h hne⟩
      intro hp1 hd1
      by_contra hlt
      have hj : j.toInt = -1 := by omega
      have := hall 0 (by omega) (by omega)
      exact hwf.first (by omega) this

/-- normalised slices: decimal digits, no leading zero, zero is `⟨[], 0⟩` -/
structure NormS (r : Spec.Slice) : Prop where
  lt10 : ∀ x ∈ r.ds, x < 10
  head : r.ds.head? ≠ some 0
  zero : r.ds = [] → r.dp = 0

theorem normS_nslice (r : digits) (hwf : WF r) : NormS (nslice r) := by
  unfold nslice
  by_cases hz : r.ndig.toInt = 0
  · rw [if_pos hz]
    exact ⟨fun x hx => (by cases hx), (by simp), fun _ => rfl⟩
  · rw [if_neg hz]
    have hn0 := hwf.n0
    refine ⟨msd_lt10 r.dig _ hwf.dig, ?_, ?_⟩
    · obtain ⟨L, hL⟩ := Ly.msd_head r.dig r.ndig.toInt.toNat (by omega)
      show (msd r.dig r.ndig.toInt.toNat).head? ≠ some 0
      rw [hL]
      have := dv_ne_zero (hwf.dig 0 (by omega)) (hwf.first (by omega))
      simpa using this
    · intro hnil
      have := congrArg List.length hnil
      rw [show (slice r).ds = msd r.dig r.ndig.toInt.toNat from rfl, msd_length,
        List.length_nil] at this
      omega

/-! ## `Spec.roundSlice` -/

theorem roundSlice_of_le (s : Spec.Slice) (n : Nat) (h : s.ds.length ≤ n) : Spec.roundSlice s n = s := by
  unfold Spec.roundSlice
  rw [if_pos h]

theorem natDigits_has_nonzero (m : Nat) (h : m ≠ 0) : ∃ x ∈ Spec.natDigits m, x ≠ 0 := by
  induction m using Nat.strong_induction_on with
  | _ m ih =>
    by_cases h10 : m < 10
    · rw [natDigits_lt m h h10]; exact ⟨m, by simp, h⟩
    · rw [natDigits_ge m (by omega)]
      obtain ⟨x, hx, hx0⟩ := ih (m / 10) (by omega) (by omega)
      exact ⟨x, by simp [hx], hx0⟩

theorem dropWhile_nil {α : Type} (p : α → Bool) (L : List α) (h : L.dropWhile p = []) :
    ∀ x ∈ L, p x = true := by
  induction L with
  | nil => intro x hx; cases hx
  | cons a t ih =>
    rw [List.dropWhile_cons] at h
    by_cases ha : p a = true
    · rw [if_pos ha] at h
      intro x hx
      rcases List.mem_cons.mp hx with e | e
      · rw [e]; exact ha
      · exact ih h x e
    · rw [if_neg ha] at h; cases h

theorem strip_ne_nil (L : List Nat) (h : ∃ x ∈ L, x ≠ 0) : Spec.stripTrailingZeros L ≠ [] := by
  unfold Spec.stripTrailingZeros
  intro e
  rw [List.reverse_eq_nil_iff] at e
  obtain ⟨x, hx, hx0⟩ := h
  have := dropWhile_nil _ _ e x (by simpa using hx)
  simp at this
  exact hx0 this

/-- a rounded slice without digits is the normalised zero -/
theorem roundSlice_nil (s : Spec.Slice) (n : Nat) (hs : s.ds = [] → s.dp = 0)
    (h : (Spec.roundSlice s n).ds = []) : Spec.roundSlice s n = ⟨[], 0⟩ := by
  cases s with
  | mk M dp =>
    by_cases hn : n ≥ M.length
    · rw [roundSlice_of_le _ _ hn] at h ⊢
      simp only at h hs ⊢; rw [h, hs h]
    · rw [roundSlice_eq M dp n (by omega)] at h ⊢
      simp only at h ⊢
      generalize (if upS M n = true then ofMsd (M.take n) + 1 else ofMsd (M.take n)) = m at h ⊢
      by_cases hm : (m == 0) = true
      · rw [if_pos hm]
      · rw [if_neg hm] at h
        simp only at h
        exact absurd h (strip_ne_nil _ (natDigits_has_nonzero _ (by simpa using hm)))

/-- the record after `round` denotes the rounded slice, zero normalised -/
theorem nslice_round (d : digits) (prec : Int64) (r : digits) (hp : 0 ≤ prec.toInt)
    (hpost : RoundPost d prec r) (hwfd : WF d) (hz : d.ndig.toInt = 0 → d.exp.toInt = 0) :
    nslice r = Spec.roundSlice (slice d) prec.toInt.toNat := by
  obtain ⟨_, hwf, _, h⟩ := hpost
  obtain ⟨h1, h2⟩ := h hp
  have hn0 := hwfd.n0
  have hr0 := hwf.n0
  have hs : (slice d).ds = [] → (slice d).dp = 0 := by
    intro hnil
    have hlen : d.ndig.toInt.toNat = 0 := by
      rw [← msd_length d.dig d.ndig.toInt.toNat]; exact congrArg List.length hnil
    have h0 : d.ndig.toInt = 0 := by omega
    show d.exp.toInt + d.ndig.toInt = 0
    rw [hz h0, h0]; rfl
  unfold nslice
  by_cases hr : r.ndig.toInt = 0
  · rw [if_pos hr]
    have : (slice r).ds = [] := by
      show msd r.dig r.ndig.toInt.toNat = []
      rw [hr]; rfl
    rw [this] at h1
    exact (roundSlice_nil _ _ hs h1.symm).symm
  · rw [if_neg hr]
    have hne : (Spec.roundSlice (slice d) prec.toInt.toNat).ds ≠ [] := by
      rw [← h1]
      intro e
      have := congrArg List.length e
      rw [show (slice r).ds = msd r.dig r.ndig.toInt.toNat from rfl, msd_length,
        List.length_nil] at this
      omega
    rw [if_neg hne] at h2
    cases hsr : slice r with
    | mk ds dp =>
      cases ht : Spec.roundSlice (slice d) prec.toInt.toNat with
      | mk ds' dp' =>
        rw [hsr, ht] at h1 h2
        simp only at h1 h2
        rw [h1, h2]

end Ly
