/-
  D128/Proofs/AddAlignSpec.lean — the specification side of `add`: `Spec.addCore` on two finite non-zero
  values in terms of an exact signed sum given at any exponent not below the smaller one (pure
  mathematics, no generated code).

  Provided (namespace `AD`):
  * `addCore_unfold` : `Spec.addCore m (.fin n c e) (.fin n' c' e') sub` for `c, c' ≠ 0`, unfolded
  * `addCore_fin`    : if `S·10^Eu = ±c·10^e ± c'·10^e'` (any exponent `Eu`) then
                       `addCore … = if S = 0 then ±0 else roundToS m (S < 0) |S| Eu`
  * `trunc_frac`     : `⌊c/10^n⌋ + (c % 10^n)/10^n = c/10^n`, and for `c ≤ Cmax` a non-zero remainder
                       means `n ≥ 1`, `⌊c/10^n⌋ < 2^110`, and a fraction strictly between 0 and 1
-/
import D128.Proofs.SpecRound
import D128.Spec.Arith

set_option autoImplicit false

namespace AD
open Spec

theorem addCore_unfold (m : Mode) (n n' : Bool) (c c' : Nat) (e e' : Int) (sub : Bool) (hc : c ≠ 0)
    (hc' : c' ≠ 0) :
    Spec.addCore m (.fin n c e) (.fin n' c' e') sub =
      (if ((if n then -(((c * 10 ^ (e - (if e ≤ e' then e else e')).toNat : Nat)) : Int)
            else ((c * 10 ^ (e - (if e ≤ e' then e else e')).toNat : Nat) : Int))
          + (if (if sub then !n' else n') then -((c' * 10 ^ (e' - (if e ≤ e' then e else e')).toNat : Nat) : Int)
            else ((c' * 10 ^ (e' - (if e ≤ e' then e else e')).toNat : Nat) : Int)) == 0) then
        Val.fin (m == .toNegInf) 0 0
       else roundToS m
        (decide ((if n then -(((c * 10 ^ (e - (if e ≤ e' then e else e')).toNat : Nat)) : Int)
            else ((c * 10 ^ (e - (if e ≤ e' then e else e')).toNat : Nat) : Int))
          + (if (if sub then !n' else n') then -((c' * 10 ^ (e' - (if e ≤ e' then e else e')).toNat : Nat) : Int)
            else ((c' * 10 ^ (e' - (if e ≤ e' then e else e')).toNat : Nat) : Int)) < 0))
        (((if n then -(((c * 10 ^ (e - (if e ≤ e' then e else e')).toNat : Nat)) : Int)
            else ((c * 10 ^ (e - (if e ≤ e' then e else e')).toNat : Nat) : Int))
          + (if (if sub then !n' else n') then -((c' * 10 ^ (e' - (if e ≤ e' then e else e')).toNat : Nat) : Int)
            else ((c' * 10 ^ (e' - (if e ≤ e' then e else e')).toNat : Nat) : Int))).natAbs : Rat)
        (if e ≤ e' then e else e')) := by
  have hb : (c == 0) = false := by simpa using hc
  have hb' : (c' == 0) = false := by simpa using hc'
  cases sub
  · simp only [Spec.addCore, Spec.negate, hb, hb', Bool.false_and, if_false, Bool.false_eq_true]
  · simp only [Spec.addCore, Spec.negate, hb, hb', Bool.false_and, if_false, Bool.false_eq_true, if_true]

/-- `Spec.addCore` on finite non-zero values, from the exact signed sum `S` in units of `10^Eu` -/
theorem addCore_fin (m : Mode) (n n' : Bool) (c c' : Nat) (e e' : Int) (sub : Bool) (hc : c ≠ 0)
    (hc' : c' ≠ 0) (Eu : Int) (S : ℚ)
    (hS : S * (10 : ℚ) ^ Eu = (if n then -1 else 1) * ((c : ℚ) * (10 : ℚ) ^ e)
      + (if (if sub then !n' else n') then -1 else 1) * ((c' : ℚ) * (10 : ℚ) ^ e')) :
    Spec.addCore m (.fin n c e) (.fin n' c' e') sub =
      if S = 0 then .fin (m == .toNegInf) 0 0 else Spec.roundToS m (decide (S < 0)) |S| Eu := by
  rw [addCore_unfold m n n' c c' e e' sub hc hc']
  generalize (if sub then !n' else n') = n'' at *
  generalize hk : (if e ≤ e' then e else e') = k at *
  have hek : 0 ≤ e - k := by rw [← hk]; split <;> omega
  have hek' : 0 ≤ e' - k := by rw [← hk]; split <;> omega
  have h10 : (10 : ℚ) ≠ 0 := by norm_num
  have hA : (((c * 10 ^ (e - k).toNat : Nat) : Int) : ℚ) = (c : ℚ) * (10 : ℚ) ^ (e - k) := by
    push_cast; rw [← zpow_natCast, Int.toNat_of_nonneg hek]
  have hB : (((c' * 10 ^ (e' - k).toNat : Nat) : Int) : ℚ) = (c' : ℚ) * (10 : ℚ) ^ (e' - k) := by
    push_cast; rw [← zpow_natCast, Int.toNat_of_nonneg hek']
  have hP : (0 : ℚ) < (10 : ℚ) ^ (Eu - k) := zpow_pos (by norm_num) _
  generalize hs : ((if n = true then -(((c * 10 ^ (e - k).toNat : Nat)) : Int)
            else ((c * 10 ^ (e - k).toNat : Nat) : Int))
          + (if n'' = true then -((c' * 10 ^ (e' - k).toNat : Nat) : Int)
            else ((c' * 10 ^ (e' - k).toNat : Nat) : Int))) = s
  have hsQ : (s : ℚ) = S * (10 : ℚ) ^ (Eu - k) := by
    have e1 : S * (10 : ℚ) ^ (Eu - k) = (S * (10 : ℚ) ^ Eu) / (10 : ℚ) ^ k := by
      rw [zpow_sub₀ h10]; ring
    have e2 : (c : ℚ) * (10 : ℚ) ^ (e - k) = (c : ℚ) * (10 : ℚ) ^ e / (10 : ℚ) ^ k := by
      rw [zpow_sub₀ h10]; ring
    have e3 : (c' : ℚ) * (10 : ℚ) ^ (e' - k) = (c' : ℚ) * (10 : ℚ) ^ e' / (10 : ℚ) ^ k := by
      rw [zpow_sub₀ h10]; ring
    rw [e1, hS, ← hs]
    cases n <;> cases n'' <;>
      simp only [if_true, if_false, Bool.false_eq_true, Int.cast_add, Int.cast_neg, hA, hB, e2, e3] <;> ring
  by_cases hS0 : S = 0
  · have hs0 : s = 0 := by
      have : (s : ℚ) = 0 := by rw [hsQ, hS0, zero_mul]
      exact_mod_cast this
    rw [if_pos hS0, if_pos (by rw [hs0]; rfl)]
  · have hs0 : s ≠ 0 := by
      intro h
      have : (s : ℚ) = 0 := by rw [h]; simp
      rw [hsQ] at this
      rcases mul_eq_zero.1 this with h1 | h1
      · exact hS0 h1
      · exact hP.ne' h1
    rw [if_neg hS0, if_neg (by simpa using hs0)]
    have hlt : decide (s < 0) = decide (S < 0) := by
      apply decide_eq_decide.2
      have : (s < 0) ↔ ((s : ℚ) < 0) := by exact_mod_cast Iff.rfl
      rw [this, hsQ]
      constructor
      · intro h; exact (mul_neg_iff.1 h).resolve_left (fun ⟨_, h2⟩ => absurd h2 (not_lt.2 hP.le)) |>.1
      · intro h; exact mul_neg_of_neg_of_pos h hP
    have habs : ((s.natAbs : Nat) : ℚ) = |S| * (10 : ℚ) ^ (Eu - k) := by
      rw [Nat.cast_natAbs, Int.cast_abs, hsQ, abs_mul, abs_of_pos hP]
    have hSpos : 0 < |S| := abs_pos.2 hS0
    rw [hlt, habs, SpecRound.roundToS_scale m _ _ (mul_pos hSpos hP) k,
      SpecRound.roundToS_scale m _ _ hSpos Eu]
    congr 1
    rw [mul_assoc, ← zpow_add₀ h10]
    congr 2
    ring

/-- the truncated operand: quotient plus dropped fraction is the exact quotient; a non-zero remainder
    of a coefficient `c ≤ Cmax` means at least one digit was dropped and the quotient is below `2^110` -/
theorem trunc_frac (c n : Nat) (hc : c ≤ Spec.Cmax) :
    ((c / 10 ^ n : Nat) : ℚ) + ((c % 10 ^ n : Nat) : ℚ) / (10 : ℚ) ^ n = (c : ℚ) / (10 : ℚ) ^ n ∧
    (c % 10 ^ n ≠ 0 → 0 < ((c % 10 ^ n : Nat) : ℚ) / (10 : ℚ) ^ n ∧
      ((c % 10 ^ n : Nat) : ℚ) / (10 : ℚ) ^ n < 1 ∧ 1 ≤ n ∧ c / 10 ^ n < 2 ^ 110) := by
  have hp : (0 : ℚ) < (10 : ℚ) ^ n := by positivity
  have hpn : 0 < 10 ^ n := by positivity
  constructor
  · have h := Nat.div_add_mod c (10 ^ n)
    have hq : (c : ℚ) = (10 : ℚ) ^ n * ((c / 10 ^ n : Nat) : ℚ) + ((c % 10 ^ n : Nat) : ℚ) := by
      exact_mod_cast h.symm
    rw [eq_div_iff hp.ne', add_mul, div_mul_cancel₀ _ hp.ne']
    linarith
  · intro hr
    have hn : 1 ≤ n := by
      by_contra h0
      have : n = 0 := by omega
      rw [this] at hr; simp [Nat.mod_one] at hr
    refine ⟨div_pos (by exact_mod_cast Nat.pos_of_ne_zero hr) hp, ?_, hn, ?_⟩
    · rw [div_lt_one hp]
      exact_mod_cast Nat.mod_lt c hpn
    · have h10 : 10 ^ 1 ≤ 10 ^ n := Nat.pow_le_pow_right (by norm_num) hn
      have : c / 10 ^ n ≤ c / 10 ^ 1 := Nat.div_le_div_left h10 (by norm_num)
      have hCm : Spec.Cmax = 5 * 2 ^ 111 - 1 := rfl
      omega

end AD
