/-
  D128/Proofs/FloatToSpec32.lean — `Gen.Decimal.Float32` against the executable adjacency check
  `Spec.binAdjacent Spec.f32` (the float32 twin of FloatToSpec.lean).

  Provided (namespace `F2`):
  * `F32_fin_form`, `F32_fin_lt_top`, `F32_fin_le_max`, `float32_of_dyadic`, `float32_on_grid`
  * `binNeighbours_f32`  : closed form of `Spec.binNeighbours Spec.f32 v`
  * `neighbours_ok32`    : `Adjacent32 n v r` ⇒ `r` is accepted by the neighbour test
  * `binAdjacent_fin32`, `Float32_binAdjacent` : whatever `d.Float32()` returns passes `Spec.binAdjacent Spec.f32`
-/
import D128.Proofs.FloatToSpec

set_option autoImplicit false
set_option maxRecDepth 8192
set_option linter.unusedVariables false

namespace F2
open Gen Go

local notation "𝔳[" d "]" => Spec.interp (Gen.Decimal.lo d) (Gen.Decimal.hi d)

/-! ## the float32 grid -/

theorem F32_fin_form (y : F32) (hy : y.isFinite = true) :
    ∃ (m : ℕ) (e : ℤ), m < 2 ^ 24 ∧ -149 ≤ e ∧ e ≤ 104 ∧ y.mag = (m : ℚ) * 2 ^ e := by
  have hE := y.expField_lt
  have hM := y.mantField_lt
  have hne : y.expField ≠ 255 := (F32.isFinite_iff y).mp hy
  by_cases h0 : y.expField = 0
  · refine ⟨y.mantField, -149, by omega, by omega, by omega, ?_⟩
    simp [F32.mag, F32.dyadic, h0]
  · refine ⟨2 ^ 23 + y.mantField, (y.expField : ℤ) - 150, by omega, by omega, by omega, ?_⟩
    simp [F32.mag, F32.dyadic, h0]

theorem two_pow_128 : (2 : ℚ) ^ (128 : ℤ) = 2 ^ 24 * 2 ^ (104 : ℤ) := by
  rw [show (128 : ℤ) = 24 + 104 by norm_num, zpow_add₀ (by norm_num)]
  congr 1

theorem maxFinite32_eq : (2 : ℚ) ^ (128 : ℤ) - 2 ^ (104 : ℤ) = ((2 ^ 24 - 1 : ℕ) : ℚ) * 2 ^ (104 : ℤ) := by
  rw [two_pow_128]
  generalize (2 : ℚ) ^ (104 : ℤ) = T
  push_cast; ring

theorem F32_fin_le_max (y : F32) (hy : y.isFinite = true) :
    y.mag ≤ (2 : ℚ) ^ (128 : ℤ) - 2 ^ (104 : ℤ) := by
  obtain ⟨m, e, hm, -, he, hmag⟩ := F32_fin_form y hy
  rw [maxFinite32_eq, hmag]
  have h1 : (m : ℚ) ≤ ((2 ^ 24 - 1 : ℕ) : ℚ) := by
    have : m ≤ 2 ^ 24 - 1 := by omega
    exact_mod_cast this
  have h2 : (2 : ℚ) ^ e ≤ 2 ^ (104 : ℤ) := zpow_le_zpow_right₀ (by norm_num) he
  exact mul_le_mul h1 h2 (zpow_pos (by norm_num) _).le (by positivity)

theorem F32_fin_lt_top (y : F32) (hy : y.isFinite = true) : y.mag < (2 : ℚ) ^ (128 : ℤ) :=
  lt_of_le_of_lt (F32_fin_le_max y hy) (sub_lt_self _ (zpow_pos (by norm_num) _))

theorem float32_of_dyadic (m : ℕ) (e : ℤ) (hm : m ≤ 2 ^ 24) (he : -149 ≤ e)
    (hlt : (m : ℚ) * 2 ^ e < 2 ^ (128 : ℤ)) : ∃ y : F32, y.isFinite = true ∧ y.mag = (m : ℚ) * 2 ^ e := by
  have key : ∀ (m' : ℕ) (e' : ℤ), m' < 2 ^ 24 → -149 ≤ e' → (m' : ℚ) * 2 ^ e' < 2 ^ (128 : ℤ) →
      ∃ y : F32, y.isFinite = true ∧ y.mag = (m' : ℚ) * 2 ^ e' := by
    intro m' e' hm' he' hlt'
    obtain ⟨h1, h2⟩ := roundDyadic_exact_of_bits fmt32 (by decide) m' e' (by rw [fmt32_mb]; exact hm')
      (by rw [fmt32_qmin]; exact he') (by rw [fmt32_emax]; exact hlt')
    refine ⟨F32.ofParts false (roundDyadic fmt32 m' e'), ?_, ?_⟩
    · rw [F32.ofParts_isFinite _ _ (roundDyadic_lt_two_pow_31 _ _)]; simpa using h1
    · rw [F32.ofRound_mag, h2]
  rcases Nat.lt_or_ge m (2 ^ 24) with h | h
  · exact key m e h he hlt
  · have hm24 : m = 2 ^ 24 := by omega
    have e1 : (m : ℚ) * 2 ^ e = ((2 ^ 23 : ℕ) : ℚ) * 2 ^ (e + 1) := by
      rw [hm24, zpow_add₀ (by norm_num)]; push_cast; ring
    rw [e1] at hlt ⊢
    exact key (2 ^ 23) (e + 1) (by norm_num) (by omega) hlt

theorem float32_on_grid (y : F32) (hy : y.isFinite = true) (u : ℤ) (k : ℕ) (hu : -149 ≤ u)
    (hk : u ≠ -149 → 2 ^ 23 ≤ k) (hge : (k : ℚ) * 2 ^ u ≤ y.mag) :
    ∃ j : ℕ, y.mag = (j : ℚ) * 2 ^ u := by
  obtain ⟨m, e, hm, he0, -, hmag⟩ := F32_fin_form y hy
  have hp : ∀ t : ℤ, (0 : ℚ) < 2 ^ t := fun t => zpow_pos (by norm_num) t
  have hue : u ≤ e := by
    by_cases h : u = -149
    · omega
    · by_contra hc
      have hk23 := hk h
      have h1 : (2 : ℚ) ^ e ≤ 2 ^ (u - 1) := zpow_le_zpow_right₀ (by norm_num) (by omega)
      have h2 : (m : ℚ) < 2 ^ 24 := by exact_mod_cast hm
      have h3 : (m : ℚ) * 2 ^ e < 2 ^ 24 * 2 ^ (u - 1) :=
        mul_lt_mul_of_pos_of_nonneg' h2 h1 (hp _) (by positivity)
      have h4 : (2 : ℚ) ^ 24 * 2 ^ (u - 1) = 2 ^ 23 * 2 ^ u := by
        rw [zpow_sub₀ (by norm_num), zpow_one]; ring
      have h5 : ((2 : ℚ) ^ 23) * 2 ^ u ≤ (k : ℚ) * 2 ^ u :=
        mul_le_mul_of_nonneg_right (by exact_mod_cast hk23) (hp u).le
      rw [hmag] at hge
      linarith
  obtain ⟨t, ht⟩ : ∃ t : ℕ, e = u + t := ⟨(e - u).toNat, by omega⟩
  refine ⟨m * 2 ^ t, ?_⟩
  rw [hmag, ht, zpow_add₀ (by norm_num), zpow_natCast]; push_cast; ring

/-! ## the specification's neighbours, float32 -/

theorem binNeighbours_f32 (v : ℚ) (hv : 0 < v) :
    ∃ (u : ℤ) (k : ℕ), -149 ≤ u ∧ k < 2 ^ 24 ∧ (u ≠ -149 → 2 ^ 23 ≤ k) ∧
      (k : ℚ) * 2 ^ u ≤ v ∧ v < ((k : ℚ) + 1) * 2 ^ u ∧
      Spec.binNeighbours Spec.f32 v =
        if (2 : ℚ) ^ (128 : ℤ) ≤ (k : ℚ) * 2 ^ u then ((2 : ℚ) ^ (128 : ℤ) - 2 ^ (104 : ℤ), none)
        else ((k : ℚ) * 2 ^ u,
          if (2 : ℚ) ^ (128 : ℤ) ≤ ((if v = (k : ℚ) * 2 ^ u then k else k + 1 : ℕ) : ℚ) * 2 ^ u then none
          else some (((if v = (k : ℚ) * 2 ^ u then k else k + 1 : ℕ) : ℚ) * 2 ^ u)) := by
  obtain ⟨hb1, hb2⟩ := ilog2_spec v hv
  have hemin : Spec.f32.emin = -149 := by decide
  have htop : Spec.f32.emaxTop = 128 := by decide
  have hmb : (Spec.f32.mantBits : ℤ) = 23 := by decide
  have hp : ∀ k : ℤ, (0 : ℚ) < 2 ^ k := fun k => zpow_pos (by norm_num) k
  set b := Spec.ilog2 v with hb
  obtain ⟨u, hu, hu1, hu2⟩ : ∃ u : ℤ, u = (if b - 23 < -149 then -149 else b - 23) ∧ -149 ≤ u ∧ b - 23 ≤ u := by
    refine ⟨_, rfl, ?_, ?_⟩ <;> split <;> omega
  set s := v / 2 ^ u with hs
  have hs0 : 0 ≤ s := div_nonneg hv.le (hp u).le
  set k := Spec.floorNat s with hk
  have hks : (k : ℚ) ≤ s := RK.floorNat_le s hs0
  have hsk : s < (k : ℚ) + 1 := RK.lt_floorNat_add_one s
  have hvs : v = s * 2 ^ u := by rw [hs]; field_simp
  have hlow : (k : ℚ) * 2 ^ u ≤ v := by rw [hvs]; exact mul_le_mul_of_nonneg_right hks (hp u).le
  have hupp : v < ((k : ℚ) + 1) * 2 ^ u := by rw [hvs]; exact mul_lt_mul_of_pos_right hsk (hp u)
  have hk24 : k < 2 ^ 24 := by
    have h1 : s < 2 ^ (24 : ℤ) := by
      rw [hs, div_lt_iff₀ (hp u), ← zpow_add₀ (by norm_num)]
      exact lt_of_lt_of_le hb2 (zpow_le_zpow_right₀ (by norm_num) (by omega))
    have : (k : ℚ) < 2 ^ (24 : ℤ) := lt_of_le_of_lt hks h1
    have e : (2 : ℚ) ^ (24 : ℤ) = ((2 ^ 24 : ℕ) : ℚ) := by norm_num
    rw [e] at this
    exact_mod_cast this
  have hk23 : u ≠ -149 → 2 ^ 23 ≤ k := by
    intro hne
    have hub : u = b - 23 := by rw [hu]; split <;> omega
    have h1 : (2 : ℚ) ^ (23 : ℤ) ≤ s := by
      rw [hs, le_div_iff₀ (hp u), ← zpow_add₀ (by norm_num)]
      have : (23 : ℤ) + u = b := by omega
      rw [this]; exact hb1
    have : (2 : ℚ) ^ (23 : ℤ) < (k : ℚ) + 1 := lt_of_le_of_lt h1 hsk
    have e : (2 : ℚ) ^ (23 : ℤ) = ((2 ^ 23 : ℕ) : ℚ) := by norm_num
    rw [e] at this
    have : 2 ^ 23 < k + 1 := by exact_mod_cast this
    omega
  have hden : (s.den == 1) = decide (v = (k : ℚ) * 2 ^ u) := by
    rw [Bool.eq_iff_iff, beq_iff_eq, decide_eq_true_eq, den_one_iff_floor s hs0]
    constructor
    · intro h; rw [hvs, ← h]
    · intro h
      have : s * 2 ^ u = (k : ℚ) * 2 ^ u := by rw [← hvs]; exact h
      exact (mul_right_cancel₀ (hp u).ne' this).symm
  refine ⟨u, k, hu1, hk24, hk23, hlow, hupp, ?_⟩
  unfold Spec.binNeighbours
  simp only [pow2_eq, hemin, htop, hmb, ← hb]
  rw [← hu, ← hs, ← hk, hden]
  have e104 : ((128 : ℤ) - 23 - 1) = 104 := by norm_num
  rw [e104]
  simp only [ge_iff_le]
  by_cases hveq : v = (k : ℚ) * 2 ^ u
  · simp only [hveq, decide_true, if_true]
  · simp only [hveq, decide_false, Bool.false_eq_true, if_false]

/-- a faithful float32 result (`Adjacent32`) is accepted by the neighbour test of `Spec.binAdjacent` -/
theorem neighbours_ok32 (n : Bool) (v : ℚ) (hv : 0 < v) (r : F32) (h : Adjacent32 n v r) :
    (r.isFinite = true → r.mag = (Spec.binNeighbours Spec.f32 v).1 ∨
        (Spec.binNeighbours Spec.f32 v).2 = some r.mag) ∧
    (r.isFinite = false → (Spec.binNeighbours Spec.f32 v).2 = none) := by
  obtain ⟨u, k, hu, hk24, hk23, hlow, hupp, hbn⟩ := binNeighbours_f32 v hv
  obtain ⟨hsgn, hnan, hfin, hinf⟩ := h
  have hp : ∀ t : ℤ, (0 : ℚ) < 2 ^ t := fun t => zpow_pos (by norm_num) t
  rw [hbn]
  clear hbn
  generalize hhN : (if v = (k : ℚ) * 2 ^ u then k else k + 1 : ℕ) = hN
  have hNk : k ≤ hN ∧ hN ≤ k + 1 := by rw [← hhN]; split <;> omega
  have hvH : v ≤ (hN : ℚ) * 2 ^ u := by
    rw [← hhN]; split
    · rename_i h; rw [← h]
    · push_cast; exact hupp.le
  by_cases hA : (2 : ℚ) ^ (128 : ℤ) ≤ (k : ℚ) * 2 ^ u
  · simp only [hA, if_true]
    refine ⟨fun hf => Or.inl ?_, fun _ => trivial⟩
    obtain ⟨y, hy, hym⟩ := float32_of_dyadic (2 ^ 24 - 1) 104 (by norm_num) (by norm_num) (by
      rw [← maxFinite32_eq]; exact sub_lt_self _ (hp 104))
    have h1 := (hfin hf).1 y hy (by
      rw [hym, ← maxFinite32_eq]; exact le_trans (sub_le_self _ (hp 104).le) (le_trans hA hlow))
    rw [hym, ← maxFinite32_eq] at h1
    exact le_antisymm (F32_fin_le_max r hf) h1
  · simp only [hA, if_false]
    have hA' : (k : ℚ) * 2 ^ u < (2 : ℚ) ^ (128 : ℤ) := not_le.mp hA
    obtain ⟨yL, hyL, hyLm⟩ := float32_of_dyadic k u (by omega) hu hA'
    constructor
    · intro hf
      obtain ⟨h1, h2⟩ := hfin hf
      have hLq : (k : ℚ) * 2 ^ u ≤ r.mag := by rw [← hyLm]; exact h1 yL hyL (by rw [hyLm]; exact hlow)
      obtain ⟨j, hj⟩ := float32_on_grid r hf u k hu hk23 hLq
      have hkj : k ≤ j := by
        have : (k : ℚ) * 2 ^ u ≤ (j : ℚ) * 2 ^ u := by rw [← hj]; exact hLq
        exact_mod_cast le_of_mul_le_mul_right this (hp u)
      by_cases hB : (2 : ℚ) ^ (128 : ℤ) ≤ (hN : ℚ) * 2 ^ u
      · simp only [hB, if_true]
        left
        have hlt := F32_fin_lt_top r hf
        have : (j : ℚ) * 2 ^ u < (hN : ℚ) * 2 ^ u := by rw [← hj]; exact lt_of_lt_of_le hlt hB
        have hjN : j < hN := by exact_mod_cast lt_of_mul_lt_mul_right this (hp u).le
        have : j = k := by omega
        rw [hj, this]
      · simp only [hB, if_false]
        have hB' := not_le.mp hB
        obtain ⟨yH, hyH, hyHm⟩ := float32_of_dyadic hN u (by omega) hu hB'
        have hqH : r.mag ≤ (hN : ℚ) * 2 ^ u := by
          rw [← hyHm]; exact h2 yH hyH (by rw [hyHm]; exact hvH)
        have hjN : j ≤ hN := by
          have : (j : ℚ) * 2 ^ u ≤ (hN : ℚ) * 2 ^ u := by rw [← hj]; exact hqH
          exact_mod_cast le_of_mul_le_mul_right this (hp u)
        rcases Nat.lt_or_ge k j with hlt | hge
        · right
          have : j = hN := by omega
          rw [hj, this]
        · left
          have : j = k := by omega
          rw [hj, this]
    · intro hnf
      obtain ⟨_, hall⟩ := hinf hnf
      by_cases hB : (2 : ℚ) ^ (128 : ℤ) ≤ (hN : ℚ) * 2 ^ u
      · simp only [hB, if_true]
      · exfalso
        obtain ⟨yH, hyH, hyHm⟩ := float32_of_dyadic hN u (by omega) hu (not_le.mp hB)
        have := hall yH hyH
        rw [hyHm] at this
        linarith

/-! ## `Gen.Decimal.Float32` passes the executable adjacency check -/

theorem binAdjacent_fin32 (n : Bool) (c : ℕ) (x : ℤ) (hc : c ≠ 0) (r : F32)
    (hadj : Adjacent32 n ((c : ℚ) * 10 ^ x) r)
    (hover : (2 : ℚ) ^ (1024 : ℤ) ≤ (c : ℚ) * 10 ^ x → r.isInf = true)
    (hunder : (c : ℚ) * 10 ^ x ≤ (2 : ℚ) ^ (-1075 : ℤ) → r.isInf = false ∧ r.mag = 0) :
    Spec.binAdjacent Spec.f32 (.fin n c x) r.bits.toNat = none := by
  have hc' : (c == 0) = false := by simpa using hc
  obtain ⟨hs, hnan, hfin, hinf⟩ := hadj
  have hcpos : 0 < c := Nat.pos_of_ne_zero hc
  obtain ⟨d1, d2⟩ := RK.ndigits_spec_rat c hcpos
  rw [RK.pow10_eq] at d1 d2
  have hvpos : (0 : ℚ) < (c : ℚ) * 10 ^ x := mul_pos (by exact_mod_cast hcpos) (zpow_pos (by norm_num) _)
  have hp10 : (0 : ℚ) < 10 ^ x := zpow_pos (by norm_num) _
  unfold Spec.binAdjacent
  rw [FF.decodeBin_f32, hnan]
  simp only [Bool.false_eq_true, if_false, hc']
  by_cases h1 : x + (Spec.ndigits c : ℤ) > 400
  · have hv : (2 : ℚ) ^ (1024 : ℤ) ≤ (c : ℚ) * 10 ^ x := by
      have : (10 : ℚ) ^ (400 : ℤ) ≤ (c : ℚ) * 10 ^ x := by
        calc (10 : ℚ) ^ (400 : ℤ) ≤ 10 ^ ((Spec.ndigits c : ℤ) - 1 + x) :=
              zpow_le_zpow_right₀ (by norm_num) (by omega)
          _ = 10 ^ ((Spec.ndigits c : ℤ) - 1) * 10 ^ x := zpow_add₀ (by norm_num) _ _
          _ ≤ (c : ℚ) * 10 ^ x := mul_le_mul_of_nonneg_right d1 hp10.le
      exact le_trans pow10_400_ge this
    have hi := hover hv
    simp only [h1, if_true, hi, hs, beq_self_eq_true]
  · simp only [h1, if_false]
    by_cases h2 : x + (Spec.ndigits c : ℤ) < -400
    · have hv : (c : ℚ) * 10 ^ x ≤ (2 : ℚ) ^ (-1075 : ℤ) := by
        have : (c : ℚ) * 10 ^ x ≤ (10 : ℚ) ^ (-401 : ℤ) := by
          calc (c : ℚ) * 10 ^ x ≤ 10 ^ (Spec.ndigits c : ℤ) * 10 ^ x :=
                mul_le_mul_of_nonneg_right d2.le hp10.le
            _ = 10 ^ ((Spec.ndigits c : ℤ) + x) := (zpow_add₀ (by norm_num) _ _).symm
            _ ≤ 10 ^ (-401 : ℤ) := zpow_le_zpow_right₀ (by norm_num) (by omega)
        exact le_trans this pow10_m401_le
      obtain ⟨hi, hm⟩ := hunder hv
      simp only [h2, if_true, hi, Bool.false_eq_true, if_false, hm, hs, beq_self_eq_true, Bool.and_self]
    · simp only [h2, if_false]
      obtain ⟨g1, g2⟩ := neighbours_ok32 n _ hvpos r ⟨hs, hnan, hfin, hinf⟩
      rw [mag_eq]
      by_cases hf : r.isFinite = true
      · have hi : r.isInf = false := by
          rw [F32.isFinite_eq] at hf
          cases h : r.isInf <;> simp [h, hnan] at hf ⊢
        simp only [hi, Bool.false_eq_true, if_false, hs, bne_self_eq_false]
        rcases g1 hf with h | h
        · simp [h]
        · simp [h]
      · have hf' : r.isFinite = false := by simpa using hf
        have hi : r.isInf = true := (hinf hf').1
        simp only [hi, if_true, hs, bne_self_eq_false, Bool.false_eq_true, if_false, g2 hf', Option.isNone_none]

theorem F32_mag_of_rest_zero (r : F32) (h : r.bits.toNat % 2 ^ 31 = 0) : r.mag = 0 := by
  rw [F32.mag_eq_decode, h, fmt32.decode_zero]

/-- **C09 against the executable specification, float32.**  Whatever `d.Float32()` returns passes
    `Spec.binAdjacent Spec.f32`. -/
theorem Float32_binAdjacent (d : Decimal) (r : F32) (hr : Decimal.Float32 d = .ok r) :
    Spec.binAdjacent Spec.f32 𝔳[d] r.bits.toNat = none := by
  obtain ⟨a, b, c, e, f⟩ := Float32_specials d
  rcases Sp.view d with ⟨h1, h2, h3, h4, hv⟩ | ⟨h1, h2, h3, h4, hv⟩ | ⟨h1, h2, h3, h4, h5, hc, hv⟩ |
    ⟨h1, h2, h3, h4, h5, hc, hb, hv⟩
  · rw [a _ _ hv] at hr; cases hr
    rw [hv]; unfold Spec.binAdjacent; rw [FF.decodeBin_f32]
    have : (⟨0x7fc00000⟩ : F32).isNaN = true := by decide
    simp [this]
  · rw [hv]
    cases hn : Decimal.Signbit d
    · rw [hn] at hv; rw [b hv] at hr; cases hr
      unfold Spec.binAdjacent; rw [FF.decodeBin_f32]
      have h1 : (⟨0x7f800000⟩ : F32).isNaN = false := by decide
      have h2 : (⟨0x7f800000⟩ : F32).isInf = true := by decide
      have h3 : (⟨0x7f800000⟩ : F32).sign = false := by decide
      simp [h1, h2, h3]
    · rw [hn] at hv; rw [c hv] at hr; cases hr
      unfold Spec.binAdjacent; rw [FF.decodeBin_f32]
      have h1 : (⟨0xff800000⟩ : F32).isNaN = false := by decide
      have h2 : (⟨0xff800000⟩ : F32).isInf = true := by decide
      have h3 : (⟨0xff800000⟩ : F32).sign = true := by decide
      simp [h1, h2, h3]
  · rw [hv]
    cases hn : Decimal.Signbit d
    · rw [hn] at hv; rw [e _ hv] at hr; cases hr
      unfold Spec.binAdjacent; rw [FF.decodeBin_f32]
      have h1 : (⟨0⟩ : F32).isNaN = false := by decide
      have h2 : (⟨0⟩ : F32).isInf = false := by decide
      have h3 : (⟨0⟩ : F32).sign = false := by decide
      have h4 : (⟨0⟩ : F32).mag = 0 := F32_mag_of_rest_zero _ (by decide)
      simp [h1, h2, h3, h4]
    · rw [hn] at hv; rw [f _ hv] at hr; cases hr
      unfold Spec.binAdjacent; rw [FF.decodeBin_f32]
      have h1 : (⟨0x80000000⟩ : F32).isNaN = false := by decide
      have h2 : (⟨0x80000000⟩ : F32).isInf = false := by decide
      have h3 : (⟨0x80000000⟩ : F32).sign = true := by decide
      have h4 : (⟨0x80000000⟩ : F32).mag = 0 := F32_mag_of_rest_zero _ (by decide)
      simp [h1, h2, h3, h4]
  · rw [hv]
    obtain ⟨r64, hr64, hadj64⟩ := Float64_adjacent d _ _ _ hv hc
    have hr32 := Float32_of_Float64 d r64 hr64
    rw [hr] at hr32; cases hr32
    apply binAdjacent_fin32 _ _ _ hc _ (toF32_adjacent _ _ _ hadj64)
    · intro hbig
      rw [Float64_overflow d _ _ _ hv hc hbig] at hr64; cases hr64
      cases Decimal.Signbit d <;> decide
    · intro hsmall
      rw [Float64_underflow d _ _ _ hv hc hsmall] at hr64; cases hr64
      cases Decimal.Signbit d
      · exact ⟨by decide, F32_mag_of_rest_zero _ (by decide)⟩
      · exact ⟨by decide, F32_mag_of_rest_zero _ (by decide)⟩

end F2
