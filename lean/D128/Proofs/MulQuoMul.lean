/-
  D128/Proofs/MulQuoMul.lean — the finite, non-zero path of `Gen.Decimal.MulWithMode`
  (Go: /repo/arith.go, `func (d Decimal) MulWithMode`) against `Spec.mul` (property C02).

  Provided (namespace `MQ`):
  * `same_symm`     : `Spec.Val.same` is symmetric
  * `finish`        : the common epilogue `if exp > 12287 then inf neg else compose neg sig exp` applied to
                      a result of the rounding kernel denotes the specified value
  * `u64_or_eq_zero`, `mul_exp` (the biased exponent sum does not wrap in `Int16`)
  * `mul_finite`    : both operands finite and non-zero: `MulWithMode d o rm` does not panic and its result
                      denotes `Spec.mul m 𝔳[d] 𝔳[o]` (64×64 fast path through `reduce128`, general path through
                      the exact 256-bit product and `reduce256`; sticky flag 0, τ = 0)
-/
import D128.Proofs.RoundKernel
import D128.Proofs.Specials
import D128.Proofs.SpecialsZero
import D128.Proofs.Words128
import D128.Proofs.WordsWide
set_option autoImplicit false
set_option maxRecDepth 4096
namespace MQ
open Gen Spec
local notation "𝔳[" d "]" => Spec.interp (Gen.Decimal.lo d) (Gen.Decimal.hi d)

theorem same_symm (x y : Spec.Val) : x.same y = y.same x := by
  cases x <;> cases y <;> simp [Spec.Val.same, Bool.beq_comm]

theorem finish (V : Spec.Val) (neg : Bool) (x : U128 × Int16)
    (h : if x.2.toInt > 12287 then V = .inf neg
         else x.1.toNat ≤ Spec.Cmax ∧ 0 ≤ x.2.toInt ∧
           V.same (.fin neg x.1.toNat (x.2.toInt - 6176)) = true) :
    ∃ r, (if decide (x.2 > 12287) = true then (pure (Gen.inf neg) : Go.GoM Gen.Decimal)
          else pure (Gen.compose neg x.1 x.2)) = .ok r ∧ (𝔳[r]).same V = true := by
  have e : (x.2 > 12287) ↔ x.2.toInt > 12287 := by
    rw [gt_iff_lt, Int16.lt_iff_toInt_lt]; simp
  by_cases hc : x.2.toInt > 12287
  · rw [if_pos hc] at h
    rw [if_pos (by simpa [e] using hc)]
    exact ⟨_, rfl, by rw [Enc.interp_inf, h]; exact Sp.same_refl _⟩
  · rw [if_neg hc] at h
    rw [if_neg (by simpa [e] using hc)]
    refine ⟨_, rfl, ?_⟩
    rw [Sp.interp_compose neg x.1 x.2 h.1 h.2.1 (by omega), same_symm]
    exact h.2.2

theorem u64_or_eq_zero (a b : UInt64) : ((a ||| b) == (0 : UInt64)) = true ↔ a = 0 ∧ b = 0 := by
  rw [beq_iff_eq, UInt64.or_eq_zero_iff]

theorem mul_exp (a b : Int16) (ha0 : 0 ≤ a.toInt) (ha1 : a.toInt ≤ 12287) (hb0 : 0 ≤ b.toInt)
    (hb1 : b.toInt ≤ 12287) :
    (a - 6176 + (b - 6176) + 6176).toInt = a.toInt + b.toInt - 6176 := by
  have h6 : (6176 : Int16).toInt = 6176 := by decide
  have e1 : (a - 6176).toInt = a.toInt - 6176 := by
    rw [Int16.toInt_sub_of] <;> rw [h6] <;> omega
  have e2 : (b - 6176).toInt = b.toInt - 6176 := by
    rw [Int16.toInt_sub_of] <;> rw [h6] <;> omega
  have e3 : (a - 6176 + (b - 6176)).toInt = a.toInt + b.toInt - 12352 := by
    rw [Int16.toInt_add_of] <;> rw [e1, e2] <;> omega
  rw [Int16.toInt_add_of] <;> rw [e3, h6] <;> omega

theorem mul_finite (d o : Gen.Decimal) (rm : UInt8) (m : Spec.Mode)
    (hm : Spec.Mode.ofNat? rm.toNat = some m)
    (hd : Gen.Decimal.isSpecial d = false) (ho : Gen.Decimal.isSpecial o = false)
    (zd : Gen.Decimal.IsZero d = false) (zo : Gen.Decimal.IsZero o = false) :
    ∃ r, Gen.Decimal.MulWithMode d o rm = .ok r ∧ (𝔳[r]).same (Spec.mul m 𝔳[d] 𝔳[o]) = true := by
  unfold Gen.Decimal.MulWithMode
  simp only [hd, ho, Bool.or_self, if_false, Bool.false_eq_true]
  rw [Enc.interp_decompose d hd, Enc.interp_decompose o ho]
  simp only [Spec.mul]
  have hcd : (Gen.Decimal.decompose d).1.toNat ≠ 0 := by
    have := Sp.IsZero_eq_sig d; rw [zd] at this; simpa using this.symm
  have hco : (Gen.Decimal.decompose o).1.toNat ≠ 0 := by
    have := Sp.IsZero_eq_sig o; rw [zo] at this; simpa using this.symm
  have hd0 := Enc.decompose_exp_nonneg d
  have hd1 := Enc.decompose_exp_le d hd
  have ho0 := Enc.decompose_exp_nonneg o
  have ho1 := Enc.decompose_exp_le o ho
  have hexp := mul_exp _ _ hd0 hd1 ho0 ho1
  generalize (Gen.Decimal.decompose d).1 = dS at *
  generalize (Gen.Decimal.decompose o).1 = oS at *
  generalize (Gen.Decimal.decompose d).2 = dE at *
  generalize (Gen.Decimal.decompose o).2 = oE at *
  generalize (Gen.Decimal.Signbit d != Gen.Decimal.Signbit o) = neg
  have hpos : 0 < dS.toNat * oS.toNat := Nat.mul_pos (Nat.pos_of_ne_zero hcd) (Nat.pos_of_ne_zero hco)
  have hek : (dE - 6176 + (oE - 6176) + 6176).toInt - 6176 = dE.toInt - 6176 + (oE.toInt - 6176) := by
    rw [hexp]; omega
  split
  · rename_i hw
    rw [u64_or_eq_zero] at hw
    have hprod := Go.bits.Mul64_spec dS.w0 oS.w0
    have hsig : ({ w0 := (Go.bits.Mul64 dS.w0 oS.w0).2, w1 := (Go.bits.Mul64 dS.w0 oS.w0).1 } : U128).toNat
        = dS.toNat * oS.toNat := by
      have e1 : dS.toNat = dS.w0.toNat := by simp [U128.toNat, hw.1]
      have e2 : oS.toNat = oS.w0.toNat := by simp [U128.toNat, hw.2]
      rw [e1, e2, ← hprod]; simp only [U128.toNat]
    have hnz : ¬ (((Go.bits.Mul64 dS.w0 oS.w0).2 ||| (Go.bits.Mul64 dS.w0 oS.w0).1 == 0) = true) := by
      rw [u64_or_eq_zero]
      rintro ⟨h1, h2⟩
      rw [h1, h2] at hsig
      have h0 : ({ w0 := 0, w1 := 0 } : U128).toNat = 0 := by simp [U128.toNat]
      rw [h0] at hsig
      omega
    rw [if_neg hnz]
    obtain ⟨s', e', hr, hpost⟩ := reduce128_correct rm m neg
      { w0 := (Go.bits.Mul64 dS.w0 oS.w0).2, w1 := (Go.bits.Mul64 dS.w0 oS.w0).1 }
      (dE - 6176 + (oE - 6176) + 6176) 0 0 hm (by rw [hexp]; omega) (by rw [hexp]; omega)
      (Or.inl ⟨by decide, rfl⟩) (by rw [hsig, add_zero]; exact_mod_cast hpos)
      (fun h => absurd h (by decide)) (fun h => absurd h (by decide)) (fun h => absurd h (by decide))
    rw [hr]
    rw [hsig, add_zero, hek] at hpost
    exact finish _ neg (s', e') hpost
  · have hsig : (Gen.U128.mul dS oS).toNat = dS.toNat * oS.toNat := U128_mul_toNat dS oS
    have hnz : ¬ (((((Gen.U128.mul dS oS).w0 ||| (Gen.U128.mul dS oS).w1) ||| (Gen.U128.mul dS oS).w2)
        ||| (Gen.U128.mul dS oS).w3) == (0 : UInt64)) = true := by
      rw [beq_iff_eq, UInt64.or_eq_zero_iff, UInt64.or_eq_zero_iff, UInt64.or_eq_zero_iff]
      rintro ⟨⟨⟨h0, h1⟩, h2⟩, h3⟩
      have : (Gen.U128.mul dS oS).toNat = 0 := by
        simp only [U256.toNat, h0, h1, h2, h3, UInt64.toNat_zero]
      omega
    rw [if_neg hnz]
    obtain ⟨s', e', hr, hpost⟩ := reduce256_correct rm m neg (Gen.U128.mul dS oS)
      (dE - 6176 + (oE - 6176) + 6176) 0 0 hm (by rw [hexp]; omega) (by rw [hexp]; omega)
      (Or.inl ⟨by decide, rfl⟩) (by rw [hsig, add_zero]; exact_mod_cast hpos)
      (fun h => absurd h (by decide)) (fun h => absurd h (by decide)) (fun h => absurd h (by decide))
    rw [hr]
    rw [hsig, add_zero, hek] at hpost
    exact finish _ neg (s', e') hpost
end MQ
