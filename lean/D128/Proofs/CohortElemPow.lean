/-
  D128/Proofs/CohortElemPow.lean — property C19 for `Gen.Decimal.PowWithMode` / `Gen.Decimal.Pow` on the GENERAL
  finite path (Go: /repo/arith.go, `func (d Decimal) PowWithMode`), in its strongest form: bit-identical results.

  The code strips the trailing zeros of BOTH coefficients explicitly
  (`for { sig, rem := oSig.div10(); if rem != 0 {break}; oSig = sig; oExp++ }`, the same for `dSig`); everything
  after that is a function of the stripped pairs, the two sign bits and the mode byte; everything before is a
  class test (`IsZero`, `isOne`, `IsNaN`, `isInf`, `Signbit`), i.e. a function of the denoted value.

  Provided (namespace `CohortElem`):
  * `nozero_unique`          : `n·10^a = n'·10^b` (ℚ), `10 ∤ n`, `10 ∤ n'` ⇒ `a = b ∧ n = n'`
  * `strip_congr`            : two non-zero pairs `U128 × Int16` of one value (exponents ≤ 32000) strip to the SAME
                               pair: `PowPf.strip s = PowPf.strip s'`
  * `strip_decompose_congr`  : … hence `strip (decompose d) = strip (decompose d')` for finite non-zero `d ~ d'`
  * `absOne_same`, `fin_tests` : `absOne` respects `same`; non-special ⇒ `IsNaN = false`, `isInf = false`
  * `afterO_congr`, `stage2_congr` : the stages `PowPf.afterO`, `PowPf.stage2` for two cohort members
  * `pow_general_encoding_independent` : d ~ d', o ~ o' finite (±0 allowed), `o ≠ ±1` ⇒
                               `PowWithMode d o mode = PowWithMode d' o' mode` in `Go.GoM Decimal`, EVERY mode byte
  * `pow_default_general_encoding_independent` : the same for `Pow g`, every `g : Globals`
  * `pow_total_of_not_one`   : `o ≠ ±1` ⇒ `PowWithMode d o mode` returns (no panic), every mode byte
-/
import D128.Proofs.CohortElemBase
import D128.Proofs.PowEarly
import D128.Proofs.TotalPow
set_option autoImplicit false
set_option maxRecDepth 8192
set_option linter.unusedVariables false

namespace CohortElem
open Gen PowPf
local notation "𝔳[" d "]" => Spec.interp (Gen.Decimal.lo d) (Gen.Decimal.hi d)

/-- a non-zero value has ONE representation `n·10^a` with `10 ∤ n` -/
theorem nozero_unique {n n' : Nat} {a b : Int} (hn : n % 10 ≠ 0) (hn' : n' % 10 ≠ 0)
    (h : (n : ℚ) * (10 : ℚ) ^ a = (n' : ℚ) * (10 : ℚ) ^ b) : a = b ∧ n = n' := by
  have key : ∀ (n n' : Nat) (a b : Int), n % 10 ≠ 0 →
      (n : ℚ) * (10 : ℚ) ^ a = (n' : ℚ) * (10 : ℚ) ^ b → ¬ a < b := by
    intro n n' a b hn h hlt
    have hb : (10 : ℚ) ^ b = (10 : ℚ) ^ a * (10 : ℚ) ^ (b - a) := by
      rw [← zpow_add₀ (by norm_num)]; congr 1; ring
    have hp : (0 : ℚ) < (10 : ℚ) ^ a := zpow_pos (by norm_num) _
    rw [hb, ← mul_assoc, mul_comm (n' : ℚ) _, mul_assoc, mul_comm (n : ℚ) _] at h
    have h3 : (n : ℚ) = (n' : ℚ) * (10 : ℚ) ^ (b - a) := mul_left_cancel₀ hp.ne' h
    obtain ⟨k, hk⟩ : ∃ k : Nat, b - a = (k : Int) + 1 := ⟨(b - a - 1).toNat, by omega⟩
    rw [hk, zpow_add₀ (by norm_num), zpow_natCast, zpow_one] at h3
    have h4 : n = n' * 10 ^ k * 10 := by
      have : (n : ℚ) = ((n' * 10 ^ k * 10 : Nat) : ℚ) := by push_cast; rw [h3]; ring
      exact_mod_cast this
    omega
  have hab : a = b := by
    have := key n n' a b hn h
    have := key n' n b a hn' h.symm
    omega
  refine ⟨hab, ?_⟩
  rw [hab] at h
  have := mul_right_cancel₀ (zpow_pos (by norm_num : (0 : ℚ) < 10) b).ne' h
  exact_mod_cast this

/-- **the stripping loop is a function of the value**: two non-zero pairs of one value strip to the same pair -/
theorem strip_congr (s s' : U128 × Int16) (h0 : s.1.toNat ≠ 0) (h0' : s'.1.toNat ≠ 0)
    (he : s.2.toInt ≤ 32000) (he' : s'.2.toInt ≤ 32000)
    (hv : (s.1.toNat : ℚ) * (10 : ℚ) ^ s.2.toInt = (s'.1.toNat : ℚ) * (10 : ℚ) ^ s'.2.toInt) :
    strip s = strip s' := by
  obtain ⟨j, t, ht, hj, hje, hm, -⟩ := strip_spec s h0 he
  obtain ⟨j', t', ht', hj', hje', hm', -⟩ := strip_spec s' h0' he'
  rw [ht, ht']
  have hval : (t.1.toNat : ℚ) * (10 : ℚ) ^ t.2.toInt = (t'.1.toNat : ℚ) * (10 : ℚ) ^ t'.2.toInt := by
    have e1 : (t.1.toNat : ℚ) * (10 : ℚ) ^ t.2.toInt = (s.1.toNat : ℚ) * (10 : ℚ) ^ s.2.toInt := by
      rw [hje, hj, zpow_add₀ (by norm_num), zpow_natCast]; push_cast; ring
    have e2 : (t'.1.toNat : ℚ) * (10 : ℚ) ^ t'.2.toInt = (s'.1.toNat : ℚ) * (10 : ℚ) ^ s'.2.toInt := by
      rw [hje', hj', zpow_add₀ (by norm_num), zpow_natCast]; push_cast; ring
    rw [e1, e2, hv]
  obtain ⟨hexp, hsig⟩ := nozero_unique hm hm' hval
  have e1 : t.1 = t'.1 := U128.toNat_inj hsig
  have e2 : t.2 = t'.2 := Int16.toInt_inj.mp hexp
  cases t; cases t'
  simp only at e1 e2
  rw [e1, e2]

/-! ### the tests before the strips are functions of the value -/

theorem absOne_same {x x' : Spec.Val} (h : x.same x' = true) : absOne x = absOne x' := by
  rcases Cohort.same_cases h with ⟨n, p, rfl, rfl⟩ | ⟨n, rfl, rfl⟩ | ⟨n, c, e, c', e', rfl, rfl, hm⟩
  · rfl
  · rfl
  · have : Spec.mag c e = Spec.mag c' e' := by
      simp only [Spec.mag, SpecRound.pow10_eq_zpow]; exact hm
    simp only [absOne, this]

theorem fin_tests (d : Decimal) (h : Decimal.isSpecial d = false) :
    Decimal.IsNaN d = false ∧ Decimal.isInf d = false := by
  have := Enc.isSpecial_iff d
  rw [h] at this
  cases h1 : Decimal.IsNaN d <;> cases h2 : Decimal.isInf d <;> rw [h1, h2] at this <;>
    first | exact ⟨rfl, rfl⟩ | cases this

/-- the stripped coefficient/exponent pair of a finite non-zero Decimal depends on its value only -/
theorem strip_decompose_congr (d d' : Decimal) (h : (𝔳[d]).same 𝔳[d'] = true)
    (h1 : Decimal.isSpecial d = false) (hz : Decimal.IsZero d = false) :
    strip (Decimal.decompose d) = strip (Decimal.decompose d') := by
  obtain ⟨h1', -, hz', hv⟩ := fin_args d d' h h1
  rw [hz] at hz'
  rw [Sp.IsZero_eq_sig, decide_eq_false_iff_not] at hz hz'
  have he := Enc.decompose_exp_le d h1
  have he' := Enc.decompose_exp_le d' h1'
  refine strip_congr _ _ hz hz' (by omega) (by omega) ?_
  have hp : (10 : ℚ) ^ (6176 : Int) ≠ 0 := (zpow_pos (by norm_num) _).ne'
  have e : ∀ (n : ℚ) (a : Int), n * (10 : ℚ) ^ a = n * (10 : ℚ) ^ (a - 6176) * (10 : ℚ) ^ (6176 : Int) := by
    intro n a
    rw [mul_assoc, ← zpow_add₀ (by norm_num)]; congr 2; ring
  rw [e, e _ (Decimal.decompose d').2.toInt, hv]

/-- from the stripped exponent on, the base enters through its sign bit, its class tests and its stripped pair -/
theorem afterO_congr (mode : UInt8) (d d' : Decimal) (oNeg : Bool) (oSig : U128) (oExp : Int16)
    (h : (𝔳[d]).same 𝔳[d'] = true) (h1 : Decimal.isSpecial d = false) :
    afterO mode d (Decimal.Signbit d) oNeg oSig oExp = afterO mode d' (Decimal.Signbit d') oNeg oSig oExp := by
  obtain ⟨h1', hs, hz', -⟩ := fin_args d d' h h1
  obtain ⟨-, hi⟩ := fin_tests d h1
  obtain ⟨-, hi'⟩ := fin_tests d' h1'
  unfold afterO
  rw [hz', hs, hi, hi']
  cases hz : Decimal.IsZero d
  · simp only [Bool.false_eq_true, if_false]
    rw [strip_decompose_congr d d' h h1 hz]
  · simp only [if_true]

theorem stage2_congr (mode : UInt8) (d d' o o' : Decimal)
    (hd : (𝔳[d]).same 𝔳[d'] = true) (ho : (𝔳[o]).same 𝔳[o'] = true)
    (hds : Decimal.isSpecial d = false) (hos : Decimal.isSpecial o = false)
    (hoz : Decimal.IsZero o = false) (ho1 : absOne 𝔳[o] = false) :
    stage2 mode d o = stage2 mode d' o' := by
  obtain ⟨hds', -, -, -⟩ := fin_args d d' hd hds
  obtain ⟨hos', hso, -, -⟩ := fin_args o o' ho hos
  obtain ⟨hdn, -⟩ := fin_tests d hds
  obtain ⟨hdn', -⟩ := fin_tests d' hds'
  obtain ⟨hon, hoi⟩ := fin_tests o hos
  obtain ⟨hon', hoi'⟩ := fin_tests o' hos'
  rw [stage2_ladder d o mode ho1, stage2_ladder d' o' mode (by rw [← absOne_same ho]; exact ho1),
    ladder_strip d o mode hdn hon hoi, ladder_strip d' o' mode hdn' hon' hoi',
    strip_decompose_congr o o' ho hos hoz, hso]
  congr 1
  funext s
  exact afterO_congr mode d d' _ _ _ hd hds

/-- **C19 for `PowWithMode`, general finite path — bit for bit.**  Finite operands (zero included), exponent not
    `±1`: replacing either operand by another member of its cohort does not change a single bit of the result,
    for EVERY mode byte.  (For `o = ±1` the function returns `d` itself resp. `1/d`: same value, other bits.) -/
theorem pow_general_encoding_independent (d d' o o' : Decimal) (mode : UInt8)
    (hd : (𝔳[d]).same 𝔳[d'] = true) (ho : (𝔳[o]).same 𝔳[o'] = true)
    (hds : Decimal.isSpecial d = false) (hos : Decimal.isSpecial o = false)
    (ho1 : absOne 𝔳[o] = false) :
    Decimal.PowWithMode d o mode = Decimal.PowWithMode d' o' mode := by
  obtain ⟨hds', hsd, -, -⟩ := fin_args d d' hd hds
  obtain ⟨hos', -, hoz', -⟩ := fin_args o o' ho hos
  obtain ⟨-, hoi⟩ := fin_tests o hos
  obtain ⟨-, hoi'⟩ := fin_tests o' hos'
  cases hoz : Decimal.IsZero o
  · have h2 := stage2_congr mode d d' o o' hd ho hds hos hoz ho1
    rw [hoz] at hoz'
    rw [PowWithMode_eq, PowWithMode_eq, staged, staged, isOne_eq, isOne_eq, ← absOne_same hd, hoz, hoz',
      hsd, hoi, hoi', h2]
  · rw [hoz] at hoz'
    rw [pow_yzero d o mode hoz, pow_yzero d' o' mode hoz']

/-- the same for the default-mode entry point `Pow`, every `g : Globals` -/
theorem pow_default_general_encoding_independent (g : Globals) (d d' o o' : Decimal)
    (hd : (𝔳[d]).same 𝔳[d'] = true) (ho : (𝔳[o]).same 𝔳[o'] = true)
    (hds : Decimal.isSpecial d = false) (hos : Decimal.isSpecial o = false)
    (ho1 : absOne 𝔳[o] = false) :
    Decimal.Pow g d o = Decimal.Pow g d' o' := by
  rw [Sp.Pow_eq, Sp.Pow_eq]
  exact pow_general_encoding_independent d d' o o' _ hd ho hds hos ho1

/-- if the exponent is not `±1` (the one case that calls `QuoWithMode`), `PowWithMode` returns for EVERY mode byte -/
theorem pow_total_of_not_one (d o : Decimal) (mode : UInt8) (ho1 : absOne 𝔳[o] = false) :
    ∃ r, Decimal.PowWithMode d o mode = .ok r := by
  cases hoz : Decimal.IsZero o
  · cases h : (absOne 𝔳[d] && ((!(Decimal.Signbit d)) || (Decimal.isInf o)))
    · rw [pow_to_stage2 d o mode hoz h, stage2_ladder d o mode ho1]
      have := D128.Proofs.Total.ladder_triple mode d o
      simp only [hoz] at this
      exact D128.Proofs.Total.total_of_triple this
    · rw [Bool.and_eq_true] at h
      exact ⟨_, pow_xone d o mode hoz h.1 h.2⟩
  · exact ⟨_, pow_yzero d o mode hoz⟩

/-! ### the hypotheses are satisfiable: `2^0.5` with `2 = 2e0 = 2000e-3`, `0.5 = 5e-1 = 50e-2` -/

example : Decimal.PowWithMode (compose false ⟨2, 0⟩ 6176) (compose false ⟨5, 0⟩ 6175) 3
    = Decimal.PowWithMode (compose false ⟨2000, 0⟩ 6173) (compose false ⟨50, 0⟩ 6174) 3 :=
  pow_general_encoding_independent _ _ _ _ 3 (by decide +kernel) (by decide +kernel) (by decide +kernel)
    (by decide +kernel) (by decide +kernel)

example : strip ((⟨1200, 0⟩ : U128), (3 : Int16)) = strip ((⟨12, 0⟩ : U128), (5 : Int16)) :=
  strip_congr _ _ (by decide) (by decide) (by decide) (by decide) (by
    show (((⟨1200, 0⟩ : U128).toNat : ℚ)) * (10 : ℚ) ^ (3 : Int16).toInt
      = (((⟨12, 0⟩ : U128).toNat : ℚ)) * (10 : ℚ) ^ (5 : Int16).toInt
    rw [show (⟨1200, 0⟩ : U128).toNat = 1200 by decide, show (⟨12, 0⟩ : U128).toNat = 12 by decide,
      show (3 : Int16).toInt = 3 by decide, show (5 : Int16).toInt = 5 by decide]
    norm_num)

end CohortElem
