/-
  D128/Proofs/D192AddContract.lean — contract of `decomposed192.add` (Go: /repo/decomposed.go), for ALL
  inputs; built on the Hoare triples of `D192Add.lean` (`add_triple`).

  * `add_spec`     : `Gen.decomposed192.add d o t = .ok (r, t')` (no panic, termination) with `AddPost`:
        with `e = d.exp - o.exp` (wrapping `Int16`), the operand with the larger exponent is scaled by
        `10^j` (`sig·10^j < 2^192`), `k = |e| - j` low digits of the other operand are dropped
        (`k = 0` or the scaled operand is `≥ scaleLim = 25·2^184`), the aligned significands are added and
        the sum loses at most one more digit (`Tr`).  The sticky flag after the alignment is
          - `if 10^k ∣ d.sig then t else 1`                      when digits of `d` are dropped (`e < 0`),
          - `addFlagPos k o.sig t` (values `t`, `1`, **`-1`**)   when digits of `o` are dropped (`e > 0`),
        and becomes `1` if the final normalisation drops a non-zero digit.
  * `add_contract` : rational form under explicit no-wrap hypotheses: `val r ≤ val d + val o < val r + ulp r`
        (the exact sum truncated toward zero at the result's own unit; the nested floors compose),
        exact ⇒ flag passed through; inexact ⇒ flag `1` or `-1`, and always `1` when `d.exp ≤ o.exp`;
        exponent range; precision (`r.exp = min` i.e. nothing dropped, or `scaleLim ≤ r.sig`).
  * `add_flag_defect` : FINDING — `add (2^191·10^4) (1·10^0) 0` returns flag `-1` although the exact sum is
        larger than the returned value (the `exp > 57` shortcut and the `div10000` loop of the branch
        `exp > 0` write `-1`; the mirrored branch and the `div10` loop write `+1`).
  * helper lemmas `nest_div`, `nest_mod`, `add_q`, `Tr.unpack1`, `branch_contract`,
        `addFlagPos_exact`, `addFlagPos_inexact`.
-/
import D128.Proofs.D192Add

set_option autoImplicit false
set_option maxRecDepth 4096
set_option exponentiation.threshold 512
open Std.Do D128.Proofs.WordsWide

namespace D192

theorem nest_div (A B k m : Nat) : (A / 10 ^ k + B) / 10 ^ m = (A + B * 10 ^ k) / 10 ^ (k + m) := by
  rw [Nat.pow_add, ← Nat.div_div_eq_div_mul, Nat.add_mul_div_right _ _ (Nat.pow_pos (by norm_num))]

theorem nest_mod (A B k m : Nat) :
    (A + B * 10 ^ k) % 10 ^ (k + m) = 0 ↔ (A % 10 ^ k = 0 ∧ (A / 10 ^ k + B) % 10 ^ m = 0) := by
  rw [mod_pow_add, Nat.add_mul_mod_self_right, Nat.add_mul_div_right _ _ (Nat.pow_pos (by norm_num))]

theorem add_q (A B0 j k m : Nat) (EA EB : Int) (h : EB = EA + j + k) :
    let r := (A / 10 ^ k + B0 * 10 ^ j) / 10 ^ m
    let er := EA + k + m
    (r : ℚ) * (10 : ℚ) ^ er ≤ (A : ℚ) * (10 : ℚ) ^ EA + (B0 : ℚ) * (10 : ℚ) ^ EB ∧
    (A : ℚ) * (10 : ℚ) ^ EA + (B0 : ℚ) * (10 : ℚ) ^ EB < (r : ℚ) * (10 : ℚ) ^ er + (10 : ℚ) ^ er ∧
    ((r : ℚ) * (10 : ℚ) ^ er = (A : ℚ) * (10 : ℚ) ^ EA + (B0 : ℚ) * (10 : ℚ) ^ EB ↔
      (A % 10 ^ k = 0 ∧ (A / 10 ^ k + B0 * 10 ^ j) % 10 ^ m = 0)) := by
  intro r er
  have hr : r = (A + B0 * 10 ^ j * 10 ^ k) / 10 ^ (k + m) := nest_div _ _ _ _
  have hsum : (A : ℚ) * (10 : ℚ) ^ EA + (B0 : ℚ) * (10 : ℚ) ^ EB =
      ((A + B0 * 10 ^ j * 10 ^ k : Nat) : ℚ) * (10 : ℚ) ^ EA := by
    rw [h, zpow_add₀ (by norm_num), zpow_add₀ (by norm_num), zpow_natCast, zpow_natCast]
    push_cast; ring
  have her : er = EA + ((k + m : Nat) : Int) := by simp only [er]; push_cast; ring
  obtain ⟨h1, h2, h3⟩ := trunc_val (A + B0 * 10 ^ j * 10 ^ k) (k + m) EA
  rw [hsum, hr, her]
  exact ⟨h1, h2, h3.trans (nest_mod _ _ _ _)⟩

theorem scaleLim_le : scaleLim ≤ 2 ^ 192 / 10 := by unfold scaleLim; norm_num

/-- a truncation state of a sum of two 192-bit numbers: at most one digit is dropped. -/
theorem Tr.unpack1 {P : Nat} {t0 t' : Int8} {e0 : Int16} {cur : Nat} {exp : Int16}
    (h : Tr P t0 e0 t' cur exp) (hP : P < 2 ^ 193) (he : e0.toInt + 1 ≤ 32767) :
    ∃ m : Nat, m ≤ 1 ∧ cur = P / 10 ^ m ∧ exp.toInt = e0.toInt + m ∧
      t' = (if P % 10 ^ m = 0 then t0 else 1) ∧ (m = 0 ∨ 2 ^ 192 / 10 ≤ cur) := by
  obtain ⟨m, hc, hexp, ht, hn⟩ := h
  have hm : m ≤ 1 := Tr.k_le' 1 (by calc P < 2 ^ 193 := hP
                                      _ ≤ _ := by norm_num) (hc ▸ hn)
  refine ⟨m, hm, hc, ?_, ht, hn⟩
  rw [hexp, i16_add_nat _ _ (by omega) (by omega)]

/-- common rational contract of the two unequal-exponent branches of `add`.  `A` is the significand
of the operand with the smaller exponent `EA` (it loses `k` digits), `B0` the other one (scaled by
`10^j`), `t1` the flag after the alignment. -/
theorem branch_contract {A B0 j k : Nat} {EA EB : Int} {e0 : Int16} {t t1 t' : Int8}
    {r : Gen.decomposed192} (F : Int8 → Prop) (hF : F 1)
    (hA : A < 2 ^ 192) (hB : B0 * 10 ^ j < 2 ^ 192) (hE : EB = EA + j + k)
    (he0 : e0.toInt = EA + k) (hhi : EB + 1 ≤ 32767)
    (hprec : k = 0 ∨ scaleLim ≤ B0 * 10 ^ j)
    (hex : A % 10 ^ k = 0 → t1 = t) (hin : A % 10 ^ k ≠ 0 → F t1)
    (h : Tr (A / 10 ^ k + B0 * 10 ^ j) t1 e0 t' r.sig.toNat r.exp) :
    let V := (A : ℚ) * (10 : ℚ) ^ EA + (B0 : ℚ) * (10 : ℚ) ^ EB
    val r ≤ V ∧ V < val r + ulp r ∧ (val r = V → t' = t) ∧ (val r ≠ V → F t') ∧
      EA ≤ r.exp.toInt ∧ r.exp.toInt ≤ EB + 1 ∧ (r.exp.toInt = EA ∨ scaleLim ≤ r.sig.toNat) := by
  intro V
  have hS : A / 10 ^ k + B0 * 10 ^ j < 2 ^ 193 := by
    have : A / 10 ^ k ≤ A := Nat.div_le_self _ _
    omega
  obtain ⟨m, hm, hc, hexp, ht, hn⟩ := h.unpack1 hS (by omega)
  obtain ⟨h1, h2, h3⟩ := add_q A B0 j k m EA EB hE
  have hre : r.exp.toInt = EA + k + m := by rw [hexp, he0]
  unfold val ulp
  rw [hre, hc]
  refine ⟨h1, h2, ?_, ?_, by omega, by omega, ?_⟩
  · intro hv
    obtain ⟨ha, hs⟩ := h3.mp hv
    rw [ht, if_pos hs, hex ha]
  · intro hv
    rw [ht]
    by_cases hs : (A / 10 ^ k + B0 * 10 ^ j) % 10 ^ m = 0
    · rw [if_pos hs]
      exact hin (fun ha => hv (h3.mpr ⟨ha, hs⟩))
    · rw [if_neg hs]; exact hF
  · rcases hn with hm0 | hbig
    · rcases hprec with hk0 | hb
      · left; omega
      · right; subst hm0
        rw [Nat.pow_zero, Nat.div_one]
        exact le_trans hb (Nat.le_add_left _ _)
    · right; rw [← hc]; exact le_trans scaleLim_le hbig

theorem addFlagPos_exact (k O : Nat) (t : Int8) (hO : O < 2 ^ 192) (h : O % 10 ^ k = 0) :
    addFlagPos k O t = t := by
  unfold addFlagPos
  split
  · rename_i hk
    have := (drop_all O k hO (by omega)).2
    rw [if_pos (by omega)]
  · unfold flagDiv
    have hk : 4 * (k / 4) + k % 4 = k := Nat.div_add_mod _ _
    have := (mod_pow_add O (4 * (k / 4)) (k % 4)).mp (by rw [hk]; exact h)
    rw [if_pos this.2, if_pos this.1]

theorem addFlagPos_inexact (k O : Nat) (t : Int8) (h : O % 10 ^ k ≠ 0) :
    addFlagPos k O t = 1 ∨ addFlagPos k O t = -1 := by
  unfold addFlagPos
  split
  · right
    rw [if_neg (fun h0 => h (by rw [h0]; simp))]
  · unfold flagDiv
    have hk : 4 * (k / 4) + k % 4 = k := Nat.div_add_mod _ _
    have := mod_pow_add O (4 * (k / 4)) (k % 4)
    rw [hk] at this
    by_cases h2 : (O / 10 ^ (4 * (k / 4))) % 10 ^ (k % 4) = 0
    · right
      rw [if_pos h2, if_neg (fun h1 => h (this.mpr ⟨h1, h2⟩))]
    · left; rw [if_neg h2]

theorem val_eq_zpow (x : Gen.decomposed192) : val x = (x.sig.toNat : ℚ) * (10 : ℚ) ^ x.exp.toInt := rfl

/-- `decomposed192.add`, rational contract. -/
theorem add_contract (d o : Gen.decomposed192) (t : Int8)
    (hlo : -32767 ≤ d.exp.toInt - o.exp.toInt) (hhi : d.exp.toInt - o.exp.toInt ≤ 32767)
    (hd : d.exp.toInt < 32767) (ho : o.exp.toInt < 32767) :
    ∃ r t', Gen.decomposed192.add d o t = .ok (r, t') ∧
      val r ≤ val d + val o ∧ val d + val o < val r + ulp r ∧
      (val r = val d + val o → t' = t) ∧
      (val r ≠ val d + val o → t' = 1 ∨ t' = -1) ∧
      (d.exp.toInt ≤ o.exp.toInt → val r ≠ val d + val o → t' = 1) ∧
      min d.exp.toInt o.exp.toInt ≤ r.exp.toInt ∧ r.exp.toInt ≤ max d.exp.toInt o.exp.toInt + 1 ∧
      (r.exp.toInt = min d.exp.toInt o.exp.toInt ∨ scaleLim ≤ r.sig.toNat) := by
  obtain ⟨⟨r, t'⟩, hr, h⟩ := ok_of_triple (add_triple d o t)
  refine ⟨r, t', hr, ?_⟩
  have he : (d.exp - o.exp).toInt = d.exp.toInt - o.exp.toInt := Int16.toInt_sub_of _ _ (by omega) (by omega)
  have hbd := i16_bounds d.exp
  have hbo := i16_bounds o.exp
  simp only [] at h
  rcases h with ⟨hneg, j, k, hjk, hlt, hprec, htr⟩ | ⟨hpos, j, k, hjk, hlt, hprec, htr⟩ | ⟨hz, htr⟩
  · -- d has the smaller exponent
    rw [he] at hneg
    have hjk' : (j : Int) + k = o.exp.toInt - d.exp.toInt := by
      unfold negNat at hjk; rw [he] at hjk; omega
    have he0 : (o.exp - Int16.ofNat j).toInt = d.exp.toInt + k := by
      rw [i16_sub_nat _ _ (by omega) (by omega)]; omega
    have := branch_contract (t := t) (fun x => x = 1) rfl (U192.toNat_lt d.sig) hlt
      (show o.exp.toInt = d.exp.toInt + j + k by omega) he0 (by omega) hprec
      (fun h => by rw [if_pos h]) (fun h => by rw [if_neg h]) htr
    simp only [← val_eq_zpow] at this
    obtain ⟨h1, h2, h3, h4, h5, h6, h7⟩ := this
    refine ⟨h1, h2, h3, fun h => Or.inl (h4 h), fun _ h => h4 h, ?_, ?_, ?_⟩
    · rw [min_eq_left (by omega)]; exact h5
    · rw [max_eq_right (by omega)]; exact h6
    · rw [min_eq_left (by omega)]; exact h7
  · -- o has the smaller exponent
    rw [he] at hpos
    have hjk' : (j : Int) + k = d.exp.toInt - o.exp.toInt := by
      unfold posNat at hjk; rw [he] at hjk; omega
    have he0 : (d.exp - Int16.ofNat j).toInt = o.exp.toInt + k := by
      rw [i16_sub_nat _ _ (by omega) (by omega)]; omega
    rw [Nat.add_comm] at htr
    have := branch_contract (t := t) (fun x => x = 1 ∨ x = -1) (Or.inl rfl) (U192.toNat_lt o.sig) hlt
      (show d.exp.toInt = o.exp.toInt + j + k by omega) he0 (by omega) hprec
      (addFlagPos_exact k _ t (U192.toNat_lt _)) (addFlagPos_inexact k _ t) htr
    simp only [← val_eq_zpow] at this
    rw [add_comm (val o) (val d)] at this
    obtain ⟨h1, h2, h3, h4, h5, h6, h7⟩ := this
    refine ⟨h1, h2, h3, h4, fun hle => by omega, ?_, ?_, ?_⟩
    · rw [min_eq_right (by omega)]; exact h5
    · rw [max_eq_left (by omega)]; exact h6
    · rw [min_eq_right (by omega)]; exact h7
  · -- equal exponents
    rw [he] at hz
    have htr' : Tr (d.sig.toNat / 10 ^ 0 + o.sig.toNat * 10 ^ 0) t d.exp t' r.sig.toNat r.exp := by
      simpa using htr
    have := branch_contract (t := t) (t1 := t) (k := 0) (j := 0) (fun x => x = 1) rfl
      (U192.toNat_lt d.sig) (by simpa using U192.toNat_lt o.sig)
      (show o.exp.toInt = d.exp.toInt + (0 : Nat) + (0 : Nat) by omega) (by simp) (by omega)
      (Or.inl rfl) (fun _ => rfl) (fun h => absurd (Nat.mod_one _) h) htr'
    simp only [← val_eq_zpow] at this
    obtain ⟨h1, h2, h3, h4, h5, h6, h7⟩ := this
    refine ⟨h1, h2, h3, fun h => Or.inl (h4 h), fun _ h => h4 h, ?_, ?_, ?_⟩
    · rw [min_eq_left (by omega)]; exact h5
    · rw [max_eq_right (by omega)]; exact h6
    · rw [min_eq_left (by omega)]; exact h7


/-- `decomposed192.add`, all inputs (machine level): never panics, terminates, and the result is
described by `AddPost` (see `D192AddMath.lean`). -/
theorem add_spec (d o : Gen.decomposed192) (t : Int8) :
    ∃ r t', Gen.decomposed192.add d o t = .ok (r, t') ∧ AddPost d o t r t' := by
  obtain ⟨⟨r, t'⟩, hr, h⟩ := ok_of_triple (add_triple d o t)
  exact ⟨r, t', hr, h⟩

theorem add_flag_defect_aux (d o : Gen.decomposed192) (hd : d.sig.toNat = 2 ^ 191) (hde : d.exp = 4)
    (ho : o.sig.toNat = 1) (hoe : o.exp = 0) :
    ∃ r, Gen.decomposed192.add d o 0 = .ok (r, -1) ∧ r.sig.toNat = 2 ^ 191 ∧ r.exp.toInt = 4 := by
  obtain ⟨r, t', hr, h⟩ := add_spec d o 0
  have he : ((4 : Int16) - 0).toInt = 4 := by decide
  unfold AddPost AddNegPost AddPosPost at h
  simp only [hde, hoe, he, hd, ho] at h
  rcases h with ⟨h, _⟩ | ⟨_, j, k, hjk, hlt, _, htr⟩ | ⟨h, _⟩
  · omega
  · have hj : j = 0 := by
      by_contra hne
      have : 10 ^ 1 ≤ 10 ^ j := Nat.pow_le_pow_right (by norm_num) (by omega)
      omega
    subst hj
    have hk : k = 4 := by
      have : posNat ((4 : Int16) - 0) = 4 := by decide
      omega
    subst hk
    have hf : addFlagPos 4 1 0 = -1 := by decide
    rw [hf] at htr
    have hP : 2 ^ 191 * 10 ^ 0 + 1 / 10 ^ 4 = 2 ^ 191 := by norm_num
    rw [hP] at htr
    obtain ⟨m, hm, hc, hexp, ht, hn⟩ := htr.unpack1 (by norm_num) (by decide)
    have hm0 : m = 0 := by
      rcases hn with h | h
      · exact h
      · by_contra hne
        have : m = 1 := by omega
        subst this; rw [hc] at h; norm_num at h
    subst hm0
    have ht' : t' = -1 := by rw [ht]; simp
    subst ht'
    exact ⟨r, hr, by rw [hc]; norm_num, by rw [hexp]; decide⟩
  · omega

/-- FINDING (wrong direction of the sticky flag).  `add(2^191·10^4, 1·10^0, trunc = 0)` returns
`2^191·10^4` with flag `-1`, although the exact sum is LARGER than the returned value. -/
theorem add_flag_defect :
    ∃ r, Gen.decomposed192.add ⟨⟨0, 0, 9223372036854775808⟩, 4⟩ ⟨⟨1, 0, 0⟩, 0⟩ 0 = .ok (r, -1) ∧
      val r < val ⟨⟨0, 0, 9223372036854775808⟩, 4⟩ + val ⟨⟨1, 0, 0⟩, 0⟩ := by
  obtain ⟨r, hr, hs, he⟩ := add_flag_defect_aux ⟨⟨0, 0, 9223372036854775808⟩, 4⟩ ⟨⟨1, 0, 0⟩, 0⟩
    (by decide) rfl (by decide) rfl
  refine ⟨r, hr, ?_⟩
  have h4 : (4 : Int16).toInt = 4 := by decide
  have h0 : (0 : Int16).toInt = 0 := by decide
  have hd : (U192.mk 0 0 9223372036854775808).toNat = 2 ^ 191 := by decide
  have ho : (U192.mk 1 0 0).toNat = 1 := by decide
  unfold val
  dsimp only
  rw [hs, he, h4, h0, hd, ho]
  norm_num

/-- the hypotheses of `add_contract` are satisfiable on non-trivial inputs: `(2^192-1)·10^-57 + 12345·10^-3`
(`o` is scaled by `10^53`, one digit of `d` is dropped), and the mirrored call. -/
example := add_contract
    ⟨⟨18446744073709551615, 18446744073709551615, 18446744073709551615⟩, -57⟩ ⟨⟨12345, 0, 0⟩, -3⟩ 0
    (by decide) (by decide) (by decide) (by decide)
example := add_contract
    ⟨⟨12345, 0, 0⟩, -3⟩ ⟨⟨18446744073709551615, 18446744073709551615, 18446744073709551615⟩, -57⟩ 0
    (by decide) (by decide) (by decide) (by decide)

end D192
