/-
  Stage lemmas for `Gen.Decimal.Equal` (same structure as `Cmp`, with `eqSpec` for `tailSpec`).

  * `estep128_ok`, `estep64_ok`, `esw128_ok`, `esw64_ok`, `etail64_ok`, `etail2_ok`, `etail_ok`
  * `ecore_ok` : `ecore dSig oSig dExp oExp = .ok (decide (a·10^(ed-eo) = b·10^(eo-ed)))`
-/
import D128.Proofs.CmpCore
set_option autoImplicit false

namespace CmpPf
open Gen

theorem estep128_ok {dv : U128 → Go.GoM (U128 × UInt64)} (P j : Nat) (hP : P = 10 ^ j)
    (hdv : ∀ n, ∃ q r, dv n = .ok (q, r) ∧ q.toNat = n.toNat / P ∧ r.toNat = n.toNat % P)
    (a k : Nat) (hj : j ≤ k) (oSig : U128) (kont : U128 → Go.GoM Bool)
    (hk : ∀ q, kont q = .ok (eqSpec a q.toNat (k - j))) :
    estep128 dv oSig kont = .ok (eqSpec a oSig.toNat k) := by
  obtain ⟨q, r, he, hq, hr⟩ := hdv oSig
  unfold estep128
  rw [he]
  simp only [bind, Except.bind, u64_ne_zero]
  by_cases h0 : r.toNat = 0
  · simp only [h0, ne_eq, not_true_eq_false, decide_false, Bool.false_eq_true, if_false]
    rw [hk, hq, eqSpec_step a oSig.toNat k j P hP hj (by rw [← hr]; exact h0)]
  · simp only [h0, ne_eq, not_false_eq_true, decide_true, if_true]
    rw [eqSpec_exit a oSig.toNat k j P hP hj (by rw [← hr]; exact h0)]
    rfl

theorem estep64_ok (P : UInt64) (j : Nat) (hP : P.toNat = 10 ^ j)
    (a k : Nat) (hj : j ≤ k) (o : UInt64) (kont : UInt64 → Go.GoM Bool)
    (hk : ∀ q, kont q = .ok (eqSpec a q.toNat (k - j))) :
    estep64 P o kont = .ok (eqSpec a o.toNat k) := by
  unfold estep64
  simp only [u64_ne_zero, UInt64.toNat_mod]
  by_cases h0 : o.toNat % P.toNat = 0
  · simp only [h0, ne_eq, not_true_eq_false, decide_false, Bool.false_eq_true, if_false]
    rw [hk, UInt64.toNat_div, eqSpec_step a o.toNat k j P.toNat hP hj h0]
  · simp only [h0, ne_eq, not_false_eq_true, decide_true, if_true]
    rw [eqSpec_exit a o.toNat k j P.toNat hP hj h0]
    rfl

theorem u128_beq (n o : U128) : (n == o) = decide (n.toNat = o.toNat) := by
  rw [Bool.eq_iff_iff]
  simp [U128_toNat_inj]

theorem efin128_ok (dSig q : U128) (k' : Nat) (h : k' = 0) :
    (pure (dSig == q) : Go.GoM Bool) = .ok (eqSpec dSig.toNat q.toNat k') := by
  subst h
  rw [eqSpec_zero, u128_beq]; rfl

theorem efin64_ok (dSig : U128) (q : UInt64) (k' : Nat) (h : k' = 0) :
    (pure (dSig.w0 == q) : Go.GoM Bool) = .ok (eqSpec dSig.w0.toNat q.toNat k') := by
  subst h
  rw [eqSpec_zero]
  have : (dSig.w0 == q) = decide (dSig.w0.toNat = q.toNat) := by
    rw [Bool.eq_iff_iff]; simp [UInt64.toNat_inj]
  rw [this]; rfl

theorem esw128_ok (dSig oSig : U128) (exp : Int16) (k : Nat) (hk : k ≤ 7) (hexp : exp.toInt = k) :
    esw128 dSig oSig exp = .ok (eqSpec dSig.toNat oSig.toNat k) := by
  have he := i16_eq_of_toInt exp k (by omega) hexp
  have hf := efin128_ok dSig
  subst he
  unfold esw128
  obtain rfl | rfl | rfl | rfl | rfl | rfl | rfl | rfl :
    k = 0 ∨ k = 1 ∨ k = 2 ∨ k = 3 ∨ k = 4 ∨ k = 5 ∨ k = 6 ∨ k = 7 := by omega
  · simp only [Int16.reduceOfNat]; simp
    exact hf _ _ rfl
  · simp
    exact estep128_ok 10 1 (by norm_num) U128_div10_eq _ 1 (by omega) _ _
      (fun q => hf q _ rfl)
  · simp
    exact estep128_ok 10 1 (by norm_num) U128_div10_eq _ 2 (by omega) _ _ (fun q =>
      estep128_ok 10 1 (by norm_num) U128_div10_eq _ (2 - 1) (by omega) _ _
      (fun q => hf q _ rfl))
  · simp
    exact estep128_ok 1000 3 (by norm_num) U128_div1000_eq _ 3 (by omega) _ _
      (fun q => hf q _ rfl)
  · simp
    exact estep128_ok 10000 4 (by norm_num) U128_div10000_eq _ 4 (by omega) _ _
      (fun q => hf q _ rfl)
  · simp
    exact estep128_ok 10 1 (by norm_num) U128_div10_eq _ 5 (by omega) _ _ (fun q =>
      estep128_ok 10000 4 (by norm_num) U128_div10000_eq _ (5 - 1) (by omega) _ _
      (fun q => hf q _ rfl))
  · simp
    exact estep128_ok 1000 3 (by norm_num) U128_div1000_eq _ 6 (by omega) _ _ (fun q =>
      estep128_ok 1000 3 (by norm_num) U128_div1000_eq _ (6 - 3) (by omega) _ _
      (fun q => hf q _ rfl))
  · simp
    exact estep128_ok 10 1 (by norm_num) U128_div10_eq _ 7 (by omega) _ _ (fun q =>
      estep128_ok 1000 3 (by norm_num) U128_div1000_eq _ (7 - 1) (by omega) _ _ (fun q =>
      estep128_ok 1000 3 (by norm_num) U128_div1000_eq _ (7 - 1 - 3) (by omega) _ _
      (fun q => hf q _ rfl)))

theorem esw64_ok (dSig : U128) (o : UInt64) (exp : Int16) (k : Nat) (hk : k ≤ 7)
    (hexp : exp.toInt = k) :
    esw64 dSig o exp = .ok (eqSpec dSig.w0.toNat o.toNat k) := by
  have he := i16_eq_of_toInt exp k (by omega) hexp
  have hf := efin64_ok dSig
  subst he
  unfold esw64
  obtain rfl | rfl | rfl | rfl | rfl | rfl | rfl | rfl :
    k = 0 ∨ k = 1 ∨ k = 2 ∨ k = 3 ∨ k = 4 ∨ k = 5 ∨ k = 6 ∨ k = 7 := by omega
  · simp only [Int16.reduceOfNat]; simp
    exact hf _ _ rfl
  · simp
    exact estep64_ok 10 1 (by decide) _ 1 (by omega) _ _ (fun q => hf q _ rfl)
  · simp
    exact estep64_ok 100 2 (by decide) _ 2 (by omega) _ _ (fun q => hf q _ rfl)
  · simp
    exact estep64_ok 1000 3 (by decide) _ 3 (by omega) _ _ (fun q => hf q _ rfl)
  · simp
    exact estep64_ok 10000 4 (by decide) _ 4 (by omega) _ _ (fun q => hf q _ rfl)
  · simp
    exact estep64_ok 100000 5 (by decide) _ 5 (by omega) _ _ (fun q => hf q _ rfl)
  · simp
    exact estep64_ok 1000000 6 (by decide) _ 6 (by omega) _ _ (fun q => hf q _ rfl)
  · simp
    exact estep64_ok 10000000 7 (by decide) _ 7 (by omega) _ _ (fun q => hf q _ rfl)

theorem etail64_ok (dSig : U128) (o : UInt64) (exp : Int16) (k : Nat) (hk : k ≤ 15)
    (hexp : exp.toInt = k) :
    etail64 dSig o exp = .ok (eqSpec dSig.w0.toNat o.toNat k) := by
  unfold etail64
  by_cases h8 : 8 ≤ k
  · have hc : exp ≥ (8 : Int16) := by rw [i16_ge, i16_lit8, hexp]; omega
    have hs : (exp - (8 : Int16)).toInt = ((k - 8 : Nat) : Int) := by
      rw [i16_sub _ _ (by rw [i16_lit8, hexp]; omega) (by rw [i16_lit8, hexp]; omega),
        i16_lit8, hexp]; omega
    simp only [hc, decide_true, if_true]
    exact estep64_ok 100000000 8 (by decide) _ k h8 _ _
      (fun q => esw64_ok dSig q _ (k - 8) (by omega) hs)
  · have hc : ¬ exp ≥ (8 : Int16) := by rw [i16_ge, i16_lit8, hexp]; omega
    simp only [hc, decide_false, Bool.false_eq_true, if_false]
    exact esw64_ok dSig o exp k (by omega) hexp

theorem etail2_ok (dSig oSig : U128) (exp : Int16) (k : Nat) (hk : k ≤ 15)
    (hexp : exp.toInt = k) :
    etail2 dSig oSig exp = .ok (eqSpec dSig.toNat oSig.toNat k) := by
  unfold etail2
  have := oSig.w0.toNat_lt
  by_cases hw : oSig.w1 = 0
  · have ho : oSig.toNat = oSig.w0.toNat := by simp [U128.toNat, hw]
    by_cases hd : dSig.w1 = 0
    · have hdn : dSig.toNat = dSig.w0.toNat := by simp [U128.toNat, hd]
      simp only [hw, hd, beq_self_eq_true, bne_self_eq_false, if_true, Bool.false_eq_true, if_false]
      rw [hdn, ho]
      exact etail64_ok dSig oSig.w0 exp k hk hexp
    · have hd' : (dSig.w1 != 0) = true := by simpa using hd
      simp only [hw, hd', beq_self_eq_true, if_true]
      have hd1 : 0 < dSig.w1.toNat := by
        rcases Nat.eq_zero_or_pos dSig.w1.toNat with h | h
        · exact absurd (UInt64.toNat_inj.1 (by simpa using h)) hd
        · exact h
      rw [eqSpec_gt]
      · rfl
      · have : oSig.toNat / 10 ^ k ≤ oSig.toNat := Nat.div_le_self _ _
        simp only [U128.toNat] at *
        omega
  · have hw' : (oSig.w1 == 0) = false := by simpa using hw
    simp only [hw', Bool.false_eq_true, if_false]
    by_cases h8 : 8 ≤ k
    · have hc : exp ≥ (8 : Int16) := by rw [i16_ge, i16_lit8, hexp]; omega
      have hs : (exp - (8 : Int16)).toInt = ((k - 8 : Nat) : Int) := by
        rw [i16_sub _ _ (by rw [i16_lit8, hexp]; omega) (by rw [i16_lit8, hexp]; omega),
          i16_lit8, hexp]; omega
      simp only [hc, decide_true, if_true]
      exact estep128_ok 100000000 8 (by norm_num) U128_div1e8_eq _ k h8 _ _
        (fun q => esw128_ok dSig q _ (k - 8) (by omega) hs)
    · have hc : ¬ exp ≥ (8 : Int16) := by rw [i16_ge, i16_lit8, hexp]; omega
      simp only [hc, decide_false, Bool.false_eq_true, if_false]
      exact esw128_ok dSig oSig exp k (by omega) hexp

theorem etail_ok (dSig oSig : U128) (exp : Int16) (k : Nat) (hk : k ≤ 23)
    (hexp : exp.toInt = k) :
    etail dSig oSig exp = .ok (eqSpec dSig.toNat oSig.toNat k) := by
  unfold etail
  by_cases h8 : 8 ≤ k
  · have hc : exp ≥ (8 : Int16) := by rw [i16_ge, i16_lit8, hexp]; omega
    have hs : (exp - (8 : Int16)).toInt = ((k - 8 : Nat) : Int) := by
      rw [i16_sub _ _ (by rw [i16_lit8, hexp]; omega) (by rw [i16_lit8, hexp]; omega),
        i16_lit8, hexp]; omega
    simp only [hc, decide_true, if_true]
    exact estep128_ok 100000000 8 (by norm_num) U128_div1e8_eq _ k h8 _ _
      (fun q => etail2_ok dSig q _ (k - 8) (by omega) hs)
  · have hc : ¬ exp ≥ (8 : Int16) := by rw [i16_ge, i16_lit8, hexp]; omega
    simp only [hc, decide_false, Bool.false_eq_true, if_false]
    exact etail2_ok dSig oSig exp k (by omega) hexp

def eqMag (a ed b eo : Nat) : Bool := decide (a * 10 ^ (ed - eo) = b * 10 ^ (eo - ed))

theorem ecore_ok (dSig oSig : U128) (dExp oExp : Int16) (ed eo : Nat)
    (hd : dExp.toInt = ed) (ho : oExp.toInt = eo) (hed : ed < 16384) (heo : eo < 16384)
    (ha : 0 < dSig.toNat) (ha' : dSig.toNat < 2 ^ 114)
    (hb : 0 < oSig.toNat) (hb' : oSig.toNat < 2 ^ 114) :
    ecore dSig oSig dExp oExp = .ok (eqMag dSig.toNat ed oSig.toNat eo) := by
  obtain ⟨l0, l19, l35, lm19, lm35, lm1⟩ := i16_lits
  have he : (dExp - oExp).toInt = (ed : Int) - eo := by
    rw [i16_sub _ _ (by omega) (by omega), hd, ho]
  unfold ecore eqMag
  generalize dExp - oExp = e at he ⊢
  simp only [Int16.lt_iff_toInt_lt, Int16.le_iff_toInt_le, U128_cmp_ge, he, l0, l19,
    l35, lm19, lm35]
  by_cases hlt : ed < eo
  · have hg : 1 ≤ eo - ed := by omega
    have c1 : (ed : Int) - eo < 0 := by omega
    have c2 : ed - eo = 0 := by omega
    simp only [c1, c2, decide_true, if_true, pow_zero, Nat.mul_one]
    by_cases hc : dSig.toNat ≤ oSig.toNat
    · simp only [hc, decide_true, if_true]
      have := pow_ge_of_le (eo - ed) 1 hg
      have hne : ¬ dSig.toNat = oSig.toNat * 10 ^ (eo - ed) := by nlinarith
      simp only [hne, decide_false]; rfl
    · simp only [hc, decide_false, Bool.false_eq_true, if_false]
      by_cases h19 : 19 ≤ eo - ed
      · have c3 : (ed : Int) - eo ≤ -19 := by omega
        simp only [c3, decide_true, if_true]
        by_cases h35 : 35 < eo - ed
        · have c4 : (ed : Int) - eo < -35 := by omega
          simp only [c4, decide_true, if_true]
          have := pow_ge_of_le (eo - ed) 36 (by omega)
          have : (2:Nat) ^ 114 < 10 ^ 36 := by norm_num
          have hne : ¬ dSig.toNat = oSig.toNat * 10 ^ (eo - ed) := by nlinarith
          simp only [hne, decide_false]; rfl
        · have c4 : ¬ (ed : Int) - eo < -35 := by omega
          simp only [c4, decide_false, Bool.false_eq_true, if_false]
          have hk : (((e + (19 : Int16)) * (-1 : Int16)).toInt) = ((eo - ed - 19 : Nat) : Int) := by
            have h1 : (e + (19 : Int16)).toInt = e.toInt + 19 := by
              rw [i16_add _ _ (by rw [l19, he]; omega) (by rw [l19, he]; omega), l19]
            rw [i16_mul _ _ (by rw [lm1, h1, he]; omega) (by rw [lm1, h1, he]; omega), lm1, h1, he]
            omega
          have := estep128_ok 10000000000000000000 19 (by norm_num) U128_div1e19_eq oSig.toNat
            (eo - ed) h19 dSig (fun q => etail oSig q ((e + (19 : Int16)) * (-1 : Int16)))
            (fun q => etail_ok oSig q _ (eo - ed - 19) (by omega) hk)
          rw [this, eqSpec_eq]
          congr 1
          rw [decide_eq_decide]
          exact eq_comm
      · have c3 : ¬ (ed : Int) - eo ≤ -19 := by omega
        simp only [c3, decide_false, Bool.false_eq_true, if_false]
        have hk : ((e * (-1 : Int16)).toInt) = ((eo - ed : Nat) : Int) := by
          rw [i16_mul _ _ (by rw [lm1, he]; omega) (by rw [lm1, he]; omega), lm1, he]
          omega
        rw [etail_ok oSig dSig _ (eo - ed) (by omega) hk, eqSpec_eq]
        congr 1
        rw [decide_eq_decide]
        exact eq_comm
  · have c1 : ¬ (ed : Int) - eo < 0 := by omega
    have c2 : eo - ed = 0 := by omega
    simp only [c1, c2, decide_false, Bool.false_eq_true, if_false, pow_zero, Nat.mul_one]
    by_cases hgt : eo < ed
    · have hg : 1 ≤ ed - eo := by omega
      have c3 : (0 : Int) < (ed : Int) - eo := by omega
      simp only [c3, decide_true, if_true]
      by_cases hc : oSig.toNat ≤ dSig.toNat
      · simp only [hc, decide_true, if_true]
        have := pow_ge_of_le (ed - eo) 1 hg
        have hne : ¬ dSig.toNat * 10 ^ (ed - eo) = oSig.toNat := by nlinarith
        simp only [hne, decide_false]; rfl
      · simp only [hc, decide_false, Bool.false_eq_true, if_false]
        by_cases h19 : 19 ≤ ed - eo
        · have c4 : (19 : Int) ≤ (ed : Int) - eo := by omega
          simp only [c4, decide_true, if_true]
          by_cases h35 : 35 < ed - eo
          · have c5 : (35 : Int) < (ed : Int) - eo := by omega
            simp only [c5, decide_true, if_true]
            have := pow_ge_of_le (ed - eo) 36 (by omega)
            have : (2:Nat) ^ 114 < 10 ^ 36 := by norm_num
            have hne : ¬ dSig.toNat * 10 ^ (ed - eo) = oSig.toNat := by nlinarith
            simp only [hne, decide_false]; rfl
          · have c5 : ¬ (35 : Int) < (ed : Int) - eo := by omega
            simp only [c5, decide_false, Bool.false_eq_true, if_false]
            have hk : ((e - (19 : Int16)).toInt) = ((ed - eo - 19 : Nat) : Int) := by
              rw [i16_sub _ _ (by rw [l19, he]; omega) (by rw [l19, he]; omega), l19, he]
              omega
            have := estep128_ok 10000000000000000000 19 (by norm_num) U128_div1e19_eq dSig.toNat
              (ed - eo) h19 oSig (fun q => etail dSig q (e - (19 : Int16)))
              (fun q => etail_ok dSig q _ (ed - eo - 19) (by omega) hk)
            rw [this, eqSpec_eq]
        · have c4 : ¬ (19 : Int) ≤ (ed : Int) - eo := by omega
          simp only [c4, decide_false, Bool.false_eq_true, if_false]
          have hk : (e.toInt) = ((ed - eo : Nat) : Int) := by rw [he]; omega
          rw [etail_ok dSig oSig _ (ed - eo) (by omega) hk, eqSpec_eq]
    · have c3 : ¬ (0 : Int) < (ed : Int) - eo := by omega
      simp only [c3, decide_false, Bool.false_eq_true, if_false]
      have hk : (e.toInt) = ((ed - eo : Nat) : Int) := by rw [he]; omega
      rw [etail_ok dSig oSig _ (ed - eo) (by omega) hk, eqSpec_eq]

end CmpPf
