/-
  D128/Proofs/LogAccP1Real.lean — the polynomial of `decomposed192.log1p` against the real logarithm, and
  the combined accuracy statement.

  Provided (namespace `LogAcc`):
  * `P10R neg x`, `P10_cast`       : the polynomial over ℝ; `((P10 neg q : ℚ) : ℝ) = P10R neg q`
  * `log1p_series_real`            : `0 < x ≤ 10^-9`:
        `|log (1+x) - P10R false x| ≤ x^11`  and  `|-(log (1-x)) - P10R true x| ≤ x^11`
  * `log1p_bounds_real`            : `x(1-x) ≤ log (1+x) ≤ x`  and  `x ≤ -log (1-x) ≤ x(1+2x)`  (`0 < x ≤ 1/2`)
  * `logT neg x`, `logT_eq`        : `|log (1 ± x)|` (sign by `neg`) `= log (1+x)` resp. `-log (1-x)`
  * `log1p_real_strong`            : `Gen.decomposed192.log1p d neg = .ok (neg, r, t)` with
        `|val r - logT neg (val d)| ≤ (10·lam + 10^-90)·val d ≤ 2·10^-56 · logT neg (val d)`
  * `log1p_real`                   : the form asked for: `(20·lam + 10^-90)·val d ≤ 4·10^-56 · T`
-/
import D128.Proofs.LogAccP1Code
import Mathlib.Analysis.SpecialFunctions.Log.Deriv
set_option autoImplicit false
set_option maxRecDepth 4096
set_option exponentiation.threshold 512
set_option linter.unusedVariables false

namespace LogAcc
open Gen D192 Root

/-- the polynomial of `log1p` over the reals -/
noncomputable def P10R (neg : Bool) (x : ℝ) : ℝ :=
  if neg then
    x + x ^ 2 / 2 + x ^ 3 / 3 + x ^ 4 / 4 + x ^ 5 / 5 + x ^ 6 / 6 + x ^ 7 / 7 + x ^ 8 / 8 + x ^ 9 / 9
      + x ^ 10 / 10
  else
    x - x ^ 2 / 2 + x ^ 3 / 3 - x ^ 4 / 4 + x ^ 5 / 5 - x ^ 6 / 6 + x ^ 7 / 7 - x ^ 8 / 8 + x ^ 9 / 9
      - x ^ 10 / 10

theorem P10_cast (neg : Bool) (q : ℚ) : ((P10 neg q : ℚ) : ℝ) = P10R neg (q : ℝ) := by
  cases neg
  · rw [P10_false]; unfold P10R; push_cast; simp
  · rw [P10_true]; unfold P10R; push_cast; simp

theorem tail_le (x : ℝ) (hx0 : 0 < x) (hx : x ≤ 1 / 4) : x ^ 12 / (1 - x) ≤ x ^ 11 / 2 := by
  have hA : 0 ≤ x ^ 11 := pow_nonneg hx0.le _
  rw [div_le_iff₀ (by linarith)]
  have : x ^ 12 = x ^ 11 * x := by ring
  rw [this]
  nlinarith [mul_nonneg hA (by linarith : (0 : ℝ) ≤ 1 / 2 - 3 / 2 * x)]

/-- the truncation error of the 10-term series, both signs -/
theorem log1p_series_real (x : ℝ) (hx0 : 0 < x) (hx : x ≤ 1 / 10 ^ 9) :
    |Real.log (1 + x) - P10R false x| ≤ x ^ 11 ∧ |-(Real.log (1 - x)) - P10R true x| ≤ x ^ 11 := by
  have hx4 : x ≤ 1 / 4 := le_trans hx (by norm_num)
  have hA : 0 ≤ x ^ 11 := pow_nonneg hx0.le _
  have ht := tail_le x hx0 hx4
  constructor
  · have h := Real.abs_log_sub_add_sum_range_le (x := -x) (by rw [abs_neg, abs_of_pos hx0]; linarith) 11
    rw [abs_neg, abs_of_pos hx0, sub_neg_eq_add] at h
    have hsum : (∑ i ∈ Finset.range 11, (-x) ^ (i + 1) / ((i : ℝ) + 1))
        = -(P10R false x + x ^ 11 / 11) := by
      simp only [Finset.sum_range_succ, Finset.sum_range_zero, P10R]
      push_cast
      ring
    rw [hsum, abs_le] at h
    rw [abs_le]
    constructor <;> linarith [h.1, h.2]
  · have h := Real.abs_log_sub_add_sum_range_le (x := x) (by rw [abs_of_pos hx0]; linarith) 11
    rw [abs_of_pos hx0] at h
    have hsum : (∑ i ∈ Finset.range 11, x ^ (i + 1) / ((i : ℝ) + 1))
        = P10R true x + x ^ 11 / 11 := by
      simp only [Finset.sum_range_succ, Finset.sum_range_zero, P10R]
      push_cast
      ring
    rw [hsum, abs_le] at h
    rw [abs_le]
    constructor <;> linarith [h.1, h.2]

/-- elementary enclosures of `log (1+x)` and `-log (1-x)` -/
theorem log1p_bounds_real (x : ℝ) (hx0 : 0 < x) (hx : x ≤ 1 / 2) :
    x * (1 - x) ≤ Real.log (1 + x) ∧ Real.log (1 + x) ≤ x ∧
    x ≤ -(Real.log (1 - x)) ∧ -(Real.log (1 - x)) ≤ x * (1 + 2 * x) := by
  have h1 : (0 : ℝ) < 1 + x := by linarith
  have h2 : (0 : ℝ) < 1 - x := by linarith
  refine ⟨?_, ?_, ?_, ?_⟩
  · have h := Real.one_sub_inv_le_log_of_pos h1
    have h3 : (1 + x)⁻¹ ≤ 1 - x + x ^ 2 := by
      rw [inv_le_iff_one_le_mul₀ h1]
      nlinarith [pow_pos hx0 3]
    nlinarith
  · have := Real.log_le_sub_one_of_pos h1; linarith
  · have := Real.log_le_sub_one_of_pos h2; linarith
  · have h := Real.one_sub_inv_le_log_of_pos h2
    have h3 : (1 - x)⁻¹ ≤ 1 + x * (1 + 2 * x) := by
      rw [inv_le_iff_one_le_mul₀ h2]
      nlinarith [mul_nonneg (sq_nonneg x) (by linarith : (0 : ℝ) ≤ 1 - 2 * x)]
    linarith

/-- the exact magnitude that `log1p` approximates: `|log (1 + x)|` for `neg = false`, `|log (1 - x)|` for
`neg = true` (`x = val d` is the magnitude of the argument) -/
noncomputable def logT (neg : Bool) (x : ℝ) : ℝ := |Real.log (if neg then 1 - x else 1 + x)|

theorem logT_eq (neg : Bool) (x : ℝ) (hx0 : 0 < x) (hx : x ≤ 1 / 2) :
    logT neg x = if neg then -(Real.log (1 - x)) else Real.log (1 + x) := by
  obtain ⟨b1, b2, b3, b4⟩ := log1p_bounds_real x hx0 hx
  unfold logT
  cases neg
  · simp only [Bool.false_eq_true, if_false]
    exact abs_of_nonneg (le_trans (mul_nonneg hx0.le (by linarith)) b1)
  · simp only [if_true]
    exact abs_of_nonpos (by linarith)

/-- `logT` against the polynomial and against `x` -/
theorem logT_facts (neg : Bool) (x : ℝ) (hx0 : 0 < x) (hx : x ≤ 1 / 10 ^ 9) :
    |logT neg x - P10R neg x| ≤ x ^ 11 ∧ x * (1 - x) ≤ logT neg x := by
  have hx2 : x ≤ 1 / 2 := le_trans hx (by norm_num)
  obtain ⟨s1, s2⟩ := log1p_series_real x hx0 hx
  obtain ⟨b1, b2, b3, b4⟩ := log1p_bounds_real x hx0 hx2
  rw [logT_eq neg x hx0 hx2]
  cases neg
  · exact ⟨s1, b1⟩
  · refine ⟨s2, le_trans ?_ b3⟩
    nlinarith

theorem lamR_le : ((lam : ℚ) : ℝ) ≤ 1 / (6 * 10 ^ 56) := by
  have := (Rat.cast_le (K := ℝ)).mpr lam_le
  push_cast at this
  exact this

/-- **`decomposed192.log1p` against the real logarithm** (strong form): the returned magnitude is within
`(10·lam + 10^-90)·|x| ≤ 2·10^-56·T` of `T = |log (1 ± |x|)|`. -/
theorem log1p_real_strong (d : Gen.decomposed192) (neg : Bool) (hd : d.sig.toNat ≠ 0)
    (hx : D192.val d ≤ 1 / 10 ^ 9) (he0 : -3264 ≤ d.exp.toInt) :
    ∃ r t, Gen.decomposed192.log1p d neg = .ok (neg, r, t) ∧ (t = 0 ∨ t = 1 ∨ t = -1) ∧
      r.sig.toNat ≠ 0 ∧
      |((D192.val r : ℚ) : ℝ) - logT neg ((D192.val d : ℚ) : ℝ)|
        ≤ (10 * ((Root.lam : ℚ) : ℝ) + 1 / 10 ^ 90) * ((D192.val d : ℚ) : ℝ) ∧
      (10 * ((Root.lam : ℚ) : ℝ) + 1 / 10 ^ 90) * ((D192.val d : ℚ) : ℝ)
        ≤ 2 / 10 ^ 56 * logT neg ((D192.val d : ℚ) : ℝ) ∧
      d.exp.toInt - 58 ≤ r.exp.toInt ∧ r.exp.toInt ≤ d.exp.toInt + 1 := by
  obtain ⟨r, t, h1, h2, h3, h4, h5, h6⟩ := log1p_spec_strong d neg hd hx he0
  have h4' := (Rat.cast_le (K := ℝ)).mpr h4
  rw [Rat.cast_abs] at h4'
  push_cast at h4'
  rw [P10_cast] at h4'
  refine ⟨r, t, h1, h2, h3, ?_, ?_, h5, h6⟩
  all_goals
    have hxq : (0 : ℚ) < val d := val_pos_of_sig d hd
    have hx0 : (0 : ℝ) < ((val d : ℚ) : ℝ) := by exact_mod_cast hxq
    have hx9 : ((val d : ℚ) : ℝ) ≤ 1 / 10 ^ 9 := by
      have := (Rat.cast_le (K := ℝ)).mpr hx
      push_cast at this; exact this
    obtain ⟨f1, f2⟩ := logT_facts neg _ hx0 hx9
    have hl : (0 : ℝ) < ((lam : ℚ) : ℝ) := by exact_mod_cast lam_pos
    have hlR := lamR_le
    generalize ((val d : ℚ) : ℝ) = x at *
  · have h10 : x ^ 10 ≤ (1 / 10 ^ 9) ^ 10 := pow_le_pow_left₀ hx0.le hx9 10
    have h11 : x ^ 11 ≤ 1 / 10 ^ 90 * x := by
      have : x ^ 11 = x ^ 10 * x := by ring
      rw [this]
      exact mul_le_mul_of_nonneg_right (le_trans h10 (by norm_num)) hx0.le
    rw [abs_le] at h4' f1 ⊢
    constructor <;> linarith [h4'.1, h4'.2, f1.1, f1.2]
  · have hT : x * (1 - 1 / 10 ^ 9) ≤ logT neg x := by
      refine le_trans ?_ f2
      exact mul_le_mul_of_nonneg_left (by linarith) hx0.le
    have hc : 10 * ((lam : ℚ) : ℝ) + 1 / 10 ^ 90 ≤ 2 / 10 ^ 56 * (1 - 1 / 10 ^ 9) := by
      have : 10 * ((lam : ℚ) : ℝ) ≤ 10 * (1 / (6 * 10 ^ 56)) := by linarith
      have h6 : 10 * (1 / (6 * 10 ^ 56)) + 1 / 10 ^ 90 ≤ (2 : ℝ) / 10 ^ 56 * (1 - 1 / 10 ^ 9) := by
        norm_num
      linarith
    calc (10 * ((lam : ℚ) : ℝ) + 1 / 10 ^ 90) * x
        ≤ 2 / 10 ^ 56 * (1 - 1 / 10 ^ 9) * x := mul_le_mul_of_nonneg_right hc hx0.le
      _ = 2 / 10 ^ 56 * (x * (1 - 1 / 10 ^ 9)) := by ring
      _ ≤ 2 / 10 ^ 56 * logT neg x := mul_le_mul_of_nonneg_left hT (by norm_num)

/-- **`decomposed192.log1p` against the real logarithm**, in the form asked for
(`T = |log (1 ± val d)|`, sign by `neg`): `|val r − T| ≤ (20·lam + 1e-90)·val d ≤ 4e-56·T`. -/
theorem log1p_real (d : Gen.decomposed192) (neg : Bool) (hd : d.sig.toNat ≠ 0)
    (hx : D192.val d ≤ 1 / 10 ^ 9) (he0 : -3240 ≤ d.exp.toInt) (he1 : d.exp.toInt ≤ 0) :
    ∃ r t, Gen.decomposed192.log1p d neg = .ok (neg, r, t) ∧ (t = 0 ∨ t = 1 ∨ t = -1) ∧
      r.sig.toNat ≠ 0 ∧
      |((D192.val r : ℚ) : ℝ) - logT neg ((D192.val d : ℚ) : ℝ)|
        ≤ (20 * ((Root.lam : ℚ) : ℝ) + 1 / 10 ^ 90) * ((D192.val d : ℚ) : ℝ) ∧
      (20 * ((Root.lam : ℚ) : ℝ) + 1 / 10 ^ 90) * ((D192.val d : ℚ) : ℝ)
        ≤ 4 / 10 ^ 56 * logT neg ((D192.val d : ℚ) : ℝ) ∧
      d.exp.toInt - 60 ≤ r.exp.toInt ∧ r.exp.toInt ≤ d.exp.toInt + 2 := by
  obtain ⟨r, t, h1, h2, h3, h4, h5, h6, h7⟩ := log1p_real_strong d neg hd hx (by omega)
  have hxq : (0 : ℚ) < val d := val_pos_of_sig d hd
  have hx0 : (0 : ℝ) < ((val d : ℚ) : ℝ) := by exact_mod_cast hxq
  have hl : (0 : ℝ) < ((lam : ℚ) : ℝ) := by exact_mod_cast lam_pos
  have hlx : 0 < ((lam : ℚ) : ℝ) * ((val d : ℚ) : ℝ) := mul_pos hl hx0
  have hp : (0 : ℝ) ≤ 1 / 10 ^ 90 * ((val d : ℚ) : ℝ) := by positivity
  refine ⟨r, t, h1, h2, h3, le_trans h4 (by nlinarith), ?_, by omega, by omega⟩
  nlinarith

/-- the hypotheses are satisfiable -/
example := log1p_real ⟨⟨3, 0, 0⟩, -12⟩ true (by decide)
  (by unfold D192.val; rw [show (U192.mk 3 0 0).toNat = 3 from by decide,
        show (-12 : Int16).toInt = -12 from by decide, zpow_neg]; norm_num)
  (by decide) (by decide)

end LogAcc
