/-
  Correctness of the generated comparison routines (property C04) — top-level lemma module.

  Module map (all under `D128/Proofs/`):
  * `CmpDefs`  — names for the stages (join points) of the generated `Cmp`/`CmpAbs`/`Equal`; tied to
                 the generated definitions by `rfl` (`Cmp_eq`, `CmpAbs_eq`, `Equal_eq`)
  * `CmpNat`   — arithmetic of staged division with a sticky flag (`tailSpec`, `eqSpec`)
  * `CmpWords` — `U128_div10_eq … U128_div1e19_eq`, `U128_cmp_eq`, `U128_or_eq_zero`
  * `CmpTail`  — `tail_ok`: the tail of `Cmp`/`CmpAbs` computes `tailSpec`
  * `CmpCore`  — `core_ok`, `coreAbs_ok`: exponent alignment; `magSpec`
  * `CmpEq`    — the same for `Equal`: `etail_ok`, `ecore_ok`
  * `CmpBits`  — bit fields: `isSpecial_eq`, `IsNaN_eq`, `isInf_eq`, `Signbit_eq`, `IsZero_eq`,
                 `decompose_eq`, `interp_nonspecial` (= interp_decompose), `interp_special`
  * `CmpSpec`  — `Spec.cmp` on finite values as natural-number comparisons
  * `CmpMain`  — `classify`, `Cmp_correct`, `CmpAbs_correct`, `Equal_correct`
  * `CmpMisc`  — `Compare_correct`, `IsZero_correct`, `Sign_correct`, `Min_correct`, `Max_correct`
  * `CmpOrder` — `spec_cmp_fin_rat`, `spec_cmp_congr`, `spec_cmp_antisymm`, `spec_cmp_lt_trans`

  This file adds the corollaries at the level of the generated code:
  * `ofInt_inj4`          — `Int8.ofInt` is injective on {-2,-1,0,1}
  * `Cmp_congr`           — encoding independence of `Gen.Decimal.Cmp`
  * `Cmp_swap`            — `Cmp o d` from `Cmp d o`
  * `Cmp_eq_iff`          — `Cmp d o = .ok (Int8.ofInt v) ↔ Spec.cmp ⟦d⟧ ⟦o⟧ = v` for v ∈ {-2,-1,0,1}
  * `Cmp_lt_trans`        — transitivity of "less"
  * `Sign_error_iff`      — `Sign` panics exactly on NaN
-/
import D128.Proofs.CmpMain
import D128.Proofs.CmpMisc
import D128.Proofs.CmpOrder
set_option autoImplicit false

namespace CmpPf
open Gen

theorem ofInt_inj4 (v w : Int) (hv : v = -2 ∨ v = -1 ∨ v = 0 ∨ v = 1)
    (hw : w = -2 ∨ w = -1 ∨ w = 0 ∨ w = 1) : Int8.ofInt v = Int8.ofInt w ↔ v = w := by
  rcases hv with rfl | rfl | rfl | rfl <;> rcases hw with rfl | rfl | rfl | rfl <;> decide

theorem Cmp_eq_iff (d o : Decimal) (v : Int) (hv : v = -2 ∨ v = -1 ∨ v = 0 ∨ v = 1) :
    Gen.Decimal.Cmp d o = .ok (Int8.ofInt v) ↔ Spec.cmp (den d) (den o) = v := by
  rw [Cmp_correct]
  constructor
  · intro h
    exact (ofInt_inj4 _ _ (spec_cmp_range _ _) hv).1 (Except.ok.inj h)
  · intro h; rw [h]

theorem Cmp_congr (d d' o o' : Decimal)
    (hd : Spec.Val.same (den d) (den d') = true) (ho : Spec.Val.same (den o) (den o') = true) :
    Gen.Decimal.Cmp d o = Gen.Decimal.Cmp d' o' := by
  rw [Cmp_correct, Cmp_correct, spec_cmp_congr _ _ _ _ hd ho]

theorem Cmp_swap (d o : Decimal) :
    Gen.Decimal.Cmp o d =
      .ok (Int8.ofInt (if Spec.cmp (den d) (den o) = -2 then -2 else -(Spec.cmp (den d) (den o)))) := by
  rw [Cmp_correct, spec_cmp_antisymm]

theorem Cmp_lt_trans (d o p : Decimal)
    (h1 : Gen.Decimal.Cmp d o = .ok (-1)) (h2 : Gen.Decimal.Cmp o p = .ok (-1)) :
    Gen.Decimal.Cmp d p = .ok (-1) := by
  have e : (-1 : Int8) = Int8.ofInt (-1) := by decide
  rw [e] at h1 h2 ⊢
  rw [Cmp_eq_iff _ _ _ (by decide)] at h1 h2 ⊢
  exact spec_cmp_lt_trans _ _ _ h1 h2

theorem Sign_error_iff (d : Decimal) :
    (∃ msg, Gen.Decimal.Sign d = .error (.explicit msg)) ↔ (den d).isNaN = true := by
  rw [Sign_correct]
  cases h : den d <;> simp [Spec.sign, signResult, Spec.Val.isNaN]

end CmpPf
