/-
  D128/Proofs/SpecMeaningArith.lean — what `Spec.add`, `Spec.sub`, `Spec.mul`, `Spec.quo` MEAN on
  finite operands, as plain statements about the rationals `x.toRat`, `y.toRat` (the scaled-integer
  formulation of the executable specification is unfolded with `SpecRound.roundToS_eq_roundTo` /
  `SpecRound.flushOrRoundS_eq`).  Together with `D128/Proofs/SpecRoundMain.lean` (what `roundTo` /
  `flushOrRound` select) this reads: "the result is the member of the format that the mode selects
  for the exact sum / difference / product / quotient".  Pure mathematics; no generated code.

  Provided (namespace `SpecMeaning`):
  * `toRat_fin'`, `abs_toRat_fin`, `toRat_negate`, `toRat_eq_zero_iff`, `toRat_scaled`
  * `add_fin_fin`      : non-zero finite x, y:  `add m x y = if x+y = 0 then (+0, −0 under toNegInf)
                          else roundTo m (x+y < 0) |x+y|`
  * `add_exact_ne_zero`, `add_cancel` : the two branches separately
  * `add_zero_zero`, `add_zero_left`, `add_zero_right` : the zero-operand rules (−0 only if both are −0;
                          a single zero operand returns the other operand unchanged)
  * `sub_eq_add_negate` : for finite y, `sub m x y = add m x (negate y)`; `sub_fin_fin`, `sub_cancel`,
                          `sub_zero_zero`, `sub_zero_left`, `sub_zero_right`
  * `mul_fin_fin`      : finite x, y: `mul m x y = flushOrRound m (x.neg xor y.neg) |x·y|`
  * `quo_fin_fin`      : finite x, finite non-zero y: `quo m x y = flushOrRound m (x.neg xor y.neg) |x/y|`
  * `mul_sign`, `quo_sign` : for non-zero operands the sign bit is the sign of the exact result
  * `mul_zero_left`, `mul_zero_right`, `quo_zero_left` : a zero operand gives the zero with the xor of the signs
  * `quo_fin_zero`, `quo_zero_zero` : finite/0 = ±Inf, 0/0 = NaN; `mul_regimes`, `quo_regimes` : zero / flush / roundTo
  * special operands: `add_nan_left`, `add_nan_right`, `add_inf_inf_same`, `add_inf_inf_opp`, `add_inf_fin`,
    `add_fin_inf`, `mul_nan_left`, `mul_nan_right`, `mul_inf_inf`, `mul_inf_fin`, `mul_inf_zero`,
    `quo_inf_inf`, `quo_inf_fin`, `quo_fin_inf`
-/
import D128.Proofs.SpecRound
import D128.Proofs.CmpOrder
import D128.Spec.Arith

set_option autoImplicit false

namespace SpecMeaning
open Spec SpecRound

/-! ## the rational denoted by a finite value -/

theorem toRat_fin' (n : Bool) (c : Nat) (e : Int) :
    (Val.fin n c e).toRat = if n then -((c : ℚ) * (10 : ℚ) ^ e) else (c : ℚ) * (10 : ℚ) ^ e :=
  toRat_fin n c e

theorem mag_nonneg (c : Nat) (e : Int) : (0 : ℚ) ≤ (c : ℚ) * (10 : ℚ) ^ e :=
  mul_nonneg (Nat.cast_nonneg _) (zpow_pos (by norm_num) _).le

theorem mag_pos {c : Nat} (hc : c ≠ 0) (e : Int) : (0 : ℚ) < (c : ℚ) * (10 : ℚ) ^ e :=
  mul_pos (by exact_mod_cast Nat.pos_of_ne_zero hc) (zpow_pos (by norm_num) _)

theorem abs_toRat_fin (n : Bool) (c : Nat) (e : Int) :
    |(Val.fin n c e).toRat| = (c : ℚ) * (10 : ℚ) ^ e := by
  rw [toRat_fin']
  cases n
  · simp only [Bool.false_eq_true, if_false]; exact abs_of_nonneg (mag_nonneg c e)
  · simp only [if_true, abs_neg]; exact abs_of_nonneg (mag_nonneg c e)

theorem toRat_eq_zero_iff (n : Bool) (c : Nat) (e : Int) : (Val.fin n c e).toRat = 0 ↔ c = 0 := by
  rw [← abs_eq_zero, abs_toRat_fin]
  constructor
  · intro h
    by_contra hc
    exact (mag_pos hc e).ne' h
  · rintro rfl; simp

theorem toRat_neg_iff (n : Bool) (c : Nat) (e : Int) (hc : c ≠ 0) :
    (Val.fin n c e).toRat < 0 ↔ n = true := by
  rw [toRat_fin']
  have := mag_pos hc e
  cases n
  · simp only [Bool.false_eq_true, if_false, iff_false, not_lt]; exact this.le
  · simp only [if_true, iff_true]; linarith

theorem toRat_negate (x : Val) : (Spec.negate x).toRat = -x.toRat := by
  cases x with
  | nan n p => simp [Spec.negate, Val.toRat]
  | inf n => simp [Spec.negate, Val.toRat]
  | fin n c e => cases n <;> simp [Spec.negate, Val.toRat]

/-- a finite value as a signed integer times `10^k`, for any `k` at most its exponent -/
theorem toRat_scaled (n : Bool) (c : Nat) (e k : Int) (hk : k ≤ e) :
    (Val.fin n c e).toRat =
      (((if n then -((c * 10 ^ (e - k).toNat : Nat) : Int) else ((c * 10 ^ (e - k).toNat : Nat) : Int)) : Int) : ℚ)
        * (10 : ℚ) ^ k := by
  have h := CmpPf.mag_scaled c e k hk
  rw [pow10_eq_zpow] at h
  simp only [Val.toRat, h]
  cases n <;> simp

/-! ## addition -/

/-- `Spec.add` on two non-zero finite values: exact cancellation gives +0 (−0 under `toNegInf`);
    otherwise the result is `roundTo` of the exact sum (sign and magnitude) -/
theorem add_fin_fin (m : Mode) (n n' : Bool) (c c' : Nat) (e e' : Int) (hc : c ≠ 0) (hc' : c' ≠ 0) :
    Spec.add m (.fin n c e) (.fin n' c' e') =
      if (Val.fin n c e).toRat + (Val.fin n' c' e').toRat = 0 then .fin (m == .toNegInf) 0 0
      else Spec.roundTo m (decide ((Val.fin n c e).toRat + (Val.fin n' c' e').toRat < 0))
            |(Val.fin n c e).toRat + (Val.fin n' c' e').toRat| := by
  have h1 : (c == 0) = false := by simpa using hc
  have h2 : (c' == 0) = false := by simpa using hc'
  unfold Spec.add Spec.addCore
  simp only [Bool.false_eq_true, if_false, h1, h2, Bool.and_self]
  generalize hk : (if e ≤ e' then e else e') = k
  have hke : k ≤ e := by rw [← hk]; split <;> omega
  have hke' : k ≤ e' := by rw [← hk]; split <;> omega
  rw [toRat_scaled n c e k hke, toRat_scaled n' c' e' k hke']
  generalize (if n = true then -((c * 10 ^ (e - k).toNat : Nat) : Int)
    else ((c * 10 ^ (e - k).toNat : Nat) : Int)) = A
  generalize (if n' = true then -((c' * 10 ^ (e' - k).toNat : Nat) : Int)
    else ((c' * 10 ^ (e' - k).toNat : Nat) : Int)) = B
  have hp : (0 : ℚ) < (10 : ℚ) ^ k := zpow_pos (by norm_num) _
  have hsum : (A : ℚ) * (10 : ℚ) ^ k + (B : ℚ) * (10 : ℚ) ^ k = ((A + B : Int) : ℚ) * (10 : ℚ) ^ k := by
    push_cast; ring
  rw [hsum]
  have hz : ((A + B : Int) : ℚ) * (10 : ℚ) ^ k = 0 ↔ A + B = 0 := by
    rw [mul_eq_zero]
    simp only [hp.ne', or_false]
    exact_mod_cast Iff.rfl
  have hneg : ((A + B : Int) : ℚ) * (10 : ℚ) ^ k < 0 ↔ A + B < 0 := by
    rw [mul_neg_iff]
    constructor
    · rintro (⟨-, h⟩ | ⟨h, -⟩)
      · exact absurd h (not_lt.2 hp.le)
      · exact_mod_cast h
    · intro h; right; exact ⟨by exact_mod_cast h, hp⟩
  simp only [beq_iff_eq, hz, hneg]
  by_cases h0 : A + B = 0
  · rw [if_pos h0, if_pos h0]
  · rw [if_neg h0, if_neg h0]
    have hq : (0 : ℚ) < (((A + B).natAbs : Nat) : ℚ) := by
      exact_mod_cast Int.natAbs_pos.2 h0
    rw [roundToS_eq_roundTo m _ _ hq k]
    congr 1
    rw [abs_mul, abs_of_pos hp, Nat.cast_natAbs, Int.cast_abs]

/-- non-zero operands with a non-zero exact sum `r`: `add` is `roundTo` of `|r|` with the sign of `r` -/
theorem add_exact_ne_zero (m : Mode) (n n' : Bool) (c c' : Nat) (e e' : Int) (hc : c ≠ 0) (hc' : c' ≠ 0)
    (h : (Val.fin n c e).toRat + (Val.fin n' c' e').toRat ≠ 0) :
    Spec.add m (.fin n c e) (.fin n' c' e') =
      Spec.roundTo m (decide ((Val.fin n c e).toRat + (Val.fin n' c' e').toRat < 0))
        |(Val.fin n c e).toRat + (Val.fin n' c' e').toRat| := by
  rw [add_fin_fin m n n' c c' e e' hc hc', if_neg h]

/-- exact cancellation of non-zero operands: +0, and −0 exactly under `toNegInf` -/
theorem add_cancel (m : Mode) (n n' : Bool) (c c' : Nat) (e e' : Int) (hc : c ≠ 0) (hc' : c' ≠ 0)
    (h : (Val.fin n c e).toRat + (Val.fin n' c' e').toRat = 0) :
    Spec.add m (.fin n c e) (.fin n' c' e') = .fin (m == .toNegInf) 0 0 := by
  rw [add_fin_fin m n n' c c' e e' hc hc', if_pos h]

/-- two zero operands: −0 only when both are −0 -/
theorem add_zero_zero (m : Mode) (n n' : Bool) (e e' : Int) :
    Spec.add m (.fin n 0 e) (.fin n' 0 e') = .fin (n && n') 0 0 := by
  simp [Spec.add, Spec.addCore]

/-- a single zero operand leaves the other operand unchanged (value, sign and exponent) -/
theorem add_zero_left (m : Mode) (n n' : Bool) (c' : Nat) (e e' : Int) (hc' : c' ≠ 0) :
    Spec.add m (.fin n 0 e) (.fin n' c' e') = .fin n' c' e' := by
  have h2 : (c' == 0) = false := by simpa using hc'
  simp [Spec.add, Spec.addCore, h2]

theorem add_zero_right (m : Mode) (n n' : Bool) (c : Nat) (e e' : Int) (hc : c ≠ 0) :
    Spec.add m (.fin n c e) (.fin n' 0 e') = .fin n c e := by
  have h1 : (c == 0) = false := by simpa using hc
  simp [Spec.add, Spec.addCore, h1]

example : Spec.add .nearestEven (.fin false 1 0) (.fin true 1 0) = .fin false 0 0 := by decide
example : Spec.add .toNegInf (.fin false 1 0) (.fin true 10 (-1)) = .fin true 0 0 := by decide
example : (Val.fin false 1 0).toRat + (Val.fin true 10 (-1)).toRat = 0 := by
  simp [Val.toRat, Spec.mag, Spec.pow10]

/-! ## subtraction -/

/-- for a finite subtrahend, `x − y` is `x + (−y)` -/
theorem sub_eq_add_negate (m : Mode) (x : Val) (n' : Bool) (c' : Nat) (e' : Int) :
    Spec.sub m x (.fin n' c' e') = Spec.add m x (Spec.negate (.fin n' c' e')) := by
  cases x <;> rfl

theorem sub_fin_fin (m : Mode) (n n' : Bool) (c c' : Nat) (e e' : Int) (hc : c ≠ 0) (hc' : c' ≠ 0) :
    Spec.sub m (.fin n c e) (.fin n' c' e') =
      if (Val.fin n c e).toRat - (Val.fin n' c' e').toRat = 0 then .fin (m == .toNegInf) 0 0
      else Spec.roundTo m (decide ((Val.fin n c e).toRat - (Val.fin n' c' e').toRat < 0))
            |(Val.fin n c e).toRat - (Val.fin n' c' e').toRat| := by
  rw [sub_eq_add_negate]
  have hneg := toRat_negate (.fin n' c' e')
  simp only [Spec.negate] at hneg ⊢
  rw [add_fin_fin m n (!n') c c' e e' hc hc', hneg]
  simp only [sub_eq_add_neg]

theorem sub_exact_ne_zero (m : Mode) (n n' : Bool) (c c' : Nat) (e e' : Int) (hc : c ≠ 0) (hc' : c' ≠ 0)
    (h : (Val.fin n c e).toRat - (Val.fin n' c' e').toRat ≠ 0) :
    Spec.sub m (.fin n c e) (.fin n' c' e') =
      Spec.roundTo m (decide ((Val.fin n c e).toRat - (Val.fin n' c' e').toRat < 0))
        |(Val.fin n c e).toRat - (Val.fin n' c' e').toRat| := by
  rw [sub_fin_fin m n n' c c' e e' hc hc', if_neg h]

theorem sub_cancel (m : Mode) (n n' : Bool) (c c' : Nat) (e e' : Int) (hc : c ≠ 0) (hc' : c' ≠ 0)
    (h : (Val.fin n c e).toRat = (Val.fin n' c' e').toRat) :
    Spec.sub m (.fin n c e) (.fin n' c' e') = .fin (m == .toNegInf) 0 0 := by
  rw [sub_fin_fin m n n' c c' e e' hc hc', if_pos (sub_eq_zero.2 h)]

/-- two zero operands: −0 only when both effective signs (`n`, `¬n'`) are negative -/
theorem sub_zero_zero (m : Mode) (n n' : Bool) (e e' : Int) :
    Spec.sub m (.fin n 0 e) (.fin n' 0 e') = .fin (n && !n') 0 0 := by
  rw [sub_eq_add_negate]; exact add_zero_zero m n (!n') e e'

/-- `0 − y = −y` exactly (sign flipped, same coefficient and exponent) -/
theorem sub_zero_left (m : Mode) (n n' : Bool) (c' : Nat) (e e' : Int) (hc' : c' ≠ 0) :
    Spec.sub m (.fin n 0 e) (.fin n' c' e') = .fin (!n') c' e' := by
  rw [sub_eq_add_negate]; exact add_zero_left m n (!n') c' e e' hc'

/-- `x − 0 = x` unchanged -/
theorem sub_zero_right (m : Mode) (n n' : Bool) (c : Nat) (e e' : Int) (hc : c ≠ 0) :
    Spec.sub m (.fin n c e) (.fin n' 0 e') = .fin n c e := by
  rw [sub_eq_add_negate]; exact add_zero_right m n (!n') c e e' hc

example : Spec.sub .nearestEven (.fin true 0 0) (.fin false 0 0) = .fin true 0 0 := by decide
example : Spec.sub .nearestEven (.fin true 0 0) (.fin true 0 0) = .fin false 0 0 := by decide

/-! ## multiplication and division -/

/-- `Spec.mul` on finite operands: `flushOrRound` of the exact product's magnitude, sign = xor -/
theorem mul_fin_fin (m : Mode) (n n' : Bool) (c c' : Nat) (e e' : Int) :
    Spec.mul m (.fin n c e) (.fin n' c' e') =
      Spec.flushOrRound m (n != n') |(Val.fin n c e).toRat * (Val.fin n' c' e').toRat| := by
  unfold Spec.mul
  simp only
  rw [flushOrRoundS_eq m _ _ (by positivity) _, abs_mul, abs_toRat_fin, abs_toRat_fin]
  congr 1
  rw [zpow_add₀ (by norm_num : (10 : ℚ) ≠ 0)]
  push_cast; ring

/-- `Spec.quo` on a finite dividend and a finite non-zero divisor: `flushOrRound` of the exact
    quotient's magnitude, sign = xor -/
theorem quo_fin_fin (m : Mode) (n n' : Bool) (c c' : Nat) (e e' : Int) (hc' : c' ≠ 0) :
    Spec.quo m (.fin n c e) (.fin n' c' e') =
      Spec.flushOrRound m (n != n') |(Val.fin n c e).toRat / (Val.fin n' c' e').toRat| := by
  have h2 : (c' == 0) = false := by simpa using hc'
  unfold Spec.quo
  simp only [h2, Bool.false_eq_true, if_false]
  rw [flushOrRoundS_eq m _ _ (by positivity) _, abs_div, abs_toRat_fin, abs_toRat_fin]
  congr 1
  have h10 : (10 : ℚ) ^ e' ≠ 0 := zpow_ne_zero _ (by norm_num)
  have hcq : (c' : ℚ) ≠ 0 := by exact_mod_cast hc'
  rw [zpow_sub₀ (by norm_num : (10 : ℚ) ≠ 0)]
  field_simp

/-- for non-zero operands the xor of the sign bits is the sign of the exact product -/
theorem mul_sign (n n' : Bool) (c c' : Nat) (e e' : Int) (hc : c ≠ 0) (hc' : c' ≠ 0) :
    (n != n') = decide ((Val.fin n c e).toRat * (Val.fin n' c' e').toRat < 0) := by
  have h1 := mag_pos hc e
  have h2 := mag_pos hc' e'
  have h3 := mul_pos h1 h2
  rw [toRat_fin', toRat_fin']
  cases n <;> cases n' <;> simp <;> linarith

/-- for non-zero operands the xor of the sign bits is the sign of the exact quotient -/
theorem quo_sign (n n' : Bool) (c c' : Nat) (e e' : Int) (hc : c ≠ 0) (hc' : c' ≠ 0) :
    (n != n') = decide ((Val.fin n c e).toRat / (Val.fin n' c' e').toRat < 0) := by
  have h1 := mag_pos hc e
  have h2 := mag_pos hc' e'
  have h3 := div_pos h1 h2
  rw [toRat_fin', toRat_fin']
  cases n <;> cases n' <;> simp [neg_div, div_neg] <;> linarith

/-- a zero factor: the zero whose sign is the xor of the operand signs -/
theorem mul_zero_left (m : Mode) (n n' : Bool) (c' : Nat) (e e' : Int) :
    Spec.mul m (.fin n 0 e) (.fin n' c' e') = .fin (n != n') 0 0 := by
  rw [mul_fin_fin, (toRat_eq_zero_iff n 0 e).2 rfl, zero_mul, abs_zero, flushOrRound_zero]

theorem mul_zero_right (m : Mode) (n n' : Bool) (c : Nat) (e e' : Int) :
    Spec.mul m (.fin n c e) (.fin n' 0 e') = .fin (n != n') 0 0 := by
  rw [mul_fin_fin, (toRat_eq_zero_iff n' 0 e').2 rfl, mul_zero, abs_zero, flushOrRound_zero]

/-- a zero dividend over a non-zero divisor: the zero whose sign is the xor of the operand signs -/
theorem quo_zero_left (m : Mode) (n n' : Bool) (c' : Nat) (e e' : Int) (hc' : c' ≠ 0) :
    Spec.quo m (.fin n 0 e) (.fin n' c' e') = .fin (n != n') 0 0 := by
  rw [quo_fin_fin m n n' 0 c' e e' hc', (toRat_eq_zero_iff n 0 e).2 rfl, zero_div, abs_zero,
    flushOrRound_zero]

/-- finite non-zero / 0 = ±Inf with the xor of the signs; 0/0 = NaN -/
theorem quo_fin_zero (m : Mode) (n n' : Bool) (c : Nat) (e e' : Int) (hc : c ≠ 0) :
    Spec.quo m (.fin n c e) (.fin n' 0 e') = .inf (n != n') := by
  have h1 : (c == 0) = false := by simpa using hc
  simp [Spec.quo, h1]

theorem quo_zero_zero (m : Mode) (n n' : Bool) (e e' : Int) :
    (Spec.quo m (.fin n 0 e) (.fin n' 0 e')).isNaN = true := by
  simp [Spec.quo, Spec.invalid2, Spec.invalid, Val.isNaN]

/-- the three regimes of `flushOrRound` for a product: zero, flush (below `10^(Emin-1) = 1e-6177`), and
    `roundTo` (which includes gradual underflow down to `1e-6176`) -/
theorem mul_regimes (m : Mode) (n n' : Bool) (c c' : Nat) (e e' : Int) :
    let r := |(Val.fin n c e).toRat * (Val.fin n' c' e').toRat|
    (r = 0 → Spec.mul m (.fin n c e) (.fin n' c' e') = .fin (n != n') 0 0) ∧
    (0 < r → r < (10 : ℚ) ^ (Spec.Emin - 1) →
      Spec.mul m (.fin n c e) (.fin n' c' e') = .fin (n != n') 0 Spec.Emin) ∧
    ((10 : ℚ) ^ (Spec.Emin - 1) ≤ r →
      Spec.mul m (.fin n c e) (.fin n' c' e') = Spec.roundTo m (n != n') r) := by
  intro r
  rw [mul_fin_fin]
  refine ⟨fun h => ?_, fun h1 h2 => ?_, fun h => ?_⟩
  · show Spec.flushOrRound m (n != n') r = _
    rw [h, flushOrRound_zero]
  · exact flushOrRound_tiny m _ h1 h2
  · exact flushOrRound_eq_roundTo m _ h

theorem quo_regimes (m : Mode) (n n' : Bool) (c c' : Nat) (e e' : Int) (hc' : c' ≠ 0) :
    let r := |(Val.fin n c e).toRat / (Val.fin n' c' e').toRat|
    (r = 0 → Spec.quo m (.fin n c e) (.fin n' c' e') = .fin (n != n') 0 0) ∧
    (0 < r → r < (10 : ℚ) ^ (Spec.Emin - 1) →
      Spec.quo m (.fin n c e) (.fin n' c' e') = .fin (n != n') 0 Spec.Emin) ∧
    ((10 : ℚ) ^ (Spec.Emin - 1) ≤ r →
      Spec.quo m (.fin n c e) (.fin n' c' e') = Spec.roundTo m (n != n') r) := by
  intro r
  rw [quo_fin_fin m n n' c c' e e' hc']
  refine ⟨fun h => ?_, fun h1 h2 => ?_, fun h => ?_⟩
  · show Spec.flushOrRound m (n != n') r = _
    rw [h, flushOrRound_zero]
  · exact flushOrRound_tiny m _ h1 h2
  · exact flushOrRound_eq_roundTo m _ h

example : Spec.mul .nearestEven (.fin true 2 0) (.fin false 0 5) = .fin true 0 0 := by decide
example : Spec.quo .toZero (.fin false 1 0) (.fin true 0 0) = .inf true := by decide

/-! ## special operands (by `rfl` / case analysis) -/

theorem add_nan_left (m : Mode) (n : Bool) (p : UInt64) (y : Val) :
    Spec.add m (.nan n p) y = .nan n p := by cases y <;> rfl
theorem add_nan_right (m : Mode) (x : Val) (hx : x.isNaN = false) (n : Bool) (p : UInt64) :
    Spec.add m x (.nan n p) = .nan n p := by
  cases x with
  | nan a b => simp [Val.isNaN] at hx
  | inf a => rfl
  | fin a c e => rfl
theorem sub_nan_left (m : Mode) (n : Bool) (p : UInt64) (y : Val) :
    Spec.sub m (.nan n p) y = .nan n p := by cases y <;> rfl
/-- the NaN subtrahend is propagated itself (not negated) -/
theorem sub_nan_right (m : Mode) (x : Val) (hx : x.isNaN = false) (n : Bool) (p : UInt64) :
    Spec.sub m x (.nan n p) = .nan n p := by
  cases x with
  | nan a b => simp [Val.isNaN] at hx
  | inf a => rfl
  | fin a c e => rfl
theorem add_inf_inf_same (m : Mode) (n : Bool) : Spec.add m (.inf n) (.inf n) = .inf n := by
  simp [Spec.add, Spec.addCore]
theorem add_inf_inf_opp (m : Mode) (n : Bool) : (Spec.add m (.inf n) (.inf !n)).isNaN = true := by
  cases n <;> simp [Spec.add, Spec.addCore, Spec.invalid2, Spec.invalid, Val.isNaN]
theorem sub_inf_inf_same (m : Mode) (n : Bool) : (Spec.sub m (.inf n) (.inf n)).isNaN = true := by
  cases n <;> simp [Spec.sub, Spec.addCore, Spec.negate, Spec.invalid2, Spec.invalid, Val.isNaN]
theorem sub_inf_inf_opp (m : Mode) (n : Bool) : Spec.sub m (.inf n) (.inf !n) = .inf n := by
  cases n <;> simp [Spec.sub, Spec.addCore, Spec.negate]
theorem add_inf_fin (m : Mode) (n n' : Bool) (c : Nat) (e : Int) :
    Spec.add m (.inf n) (.fin n' c e) = .inf n := rfl
theorem add_fin_inf (m : Mode) (n n' : Bool) (c : Nat) (e : Int) :
    Spec.add m (.fin n c e) (.inf n') = .inf n' := rfl
theorem sub_inf_fin (m : Mode) (n n' : Bool) (c : Nat) (e : Int) :
    Spec.sub m (.inf n) (.fin n' c e) = .inf n := rfl
theorem sub_fin_inf (m : Mode) (n n' : Bool) (c : Nat) (e : Int) :
    Spec.sub m (.fin n c e) (.inf n') = .inf (!n') := rfl

theorem mul_nan_left (m : Mode) (n : Bool) (p : UInt64) (y : Val) :
    Spec.mul m (.nan n p) y = .nan n p := by cases y <;> rfl
theorem mul_nan_right (m : Mode) (x : Val) (hx : x.isNaN = false) (n : Bool) (p : UInt64) :
    Spec.mul m x (.nan n p) = .nan n p := by
  cases x with
  | nan a b => simp [Val.isNaN] at hx
  | inf a => rfl
  | fin a c e => rfl
theorem mul_inf_inf (m : Mode) (n n' : Bool) : Spec.mul m (.inf n) (.inf n') = .inf (n != n') := rfl
theorem mul_inf_fin (m : Mode) (n n' : Bool) (c : Nat) (e : Int) (hc : c ≠ 0) :
    Spec.mul m (.inf n) (.fin n' c e) = .inf (n != n') := by
  have h1 : (c == 0) = false := by simpa using hc
  simp [Spec.mul, h1]
theorem mul_fin_inf (m : Mode) (n n' : Bool) (c : Nat) (e : Int) (hc : c ≠ 0) :
    Spec.mul m (.fin n c e) (.inf n') = .inf (n != n') := by
  have h1 : (c == 0) = false := by simpa using hc
  simp [Spec.mul, h1]
theorem mul_inf_zero (m : Mode) (n n' : Bool) (e : Int) :
    (Spec.mul m (.inf n) (.fin n' 0 e)).isNaN = true := by
  simp [Spec.mul, Spec.invalid2, Spec.invalid, Val.isNaN]
theorem mul_zero_inf (m : Mode) (n n' : Bool) (e : Int) :
    (Spec.mul m (.fin n 0 e) (.inf n')).isNaN = true := by
  simp [Spec.mul, Spec.invalid2, Spec.invalid, Val.isNaN]

theorem quo_nan_left (m : Mode) (n : Bool) (p : UInt64) (y : Val) :
    Spec.quo m (.nan n p) y = .nan n p := by cases y <;> rfl
theorem quo_nan_right (m : Mode) (x : Val) (hx : x.isNaN = false) (n : Bool) (p : UInt64) :
    Spec.quo m x (.nan n p) = .nan n p := by
  cases x with
  | nan a b => simp [Val.isNaN] at hx
  | inf a => rfl
  | fin a c e => rfl
theorem quo_inf_inf (m : Mode) (n n' : Bool) : (Spec.quo m (.inf n) (.inf n')).isNaN = true := by
  simp [Spec.quo, Spec.invalid2, Spec.invalid, Val.isNaN]
theorem quo_inf_fin (m : Mode) (n n' : Bool) (c : Nat) (e : Int) :
    Spec.quo m (.inf n) (.fin n' c e) = .inf (n != n') := rfl
theorem quo_fin_inf (m : Mode) (n n' : Bool) (c : Nat) (e : Int) :
    Spec.quo m (.fin n c e) (.inf n') = .fin (n != n') 0 0 := rfl

end SpecMeaning
