/-
  D128/Proofs/D192RootFinish.lean — the finish stage of `Gen.Sqrt` / `Gen.Cbrt` (final rounding
  `reduce192` + overflow test + `compose`) against `Spec.rootOk` (property C17).

  Provided (namespace `Root`):
  * `finishK rm neg sig exp trunc`   : the common end of both functions; `sqrtFinish_eq`, `cbrtFinish_eq` (rfl)
  * `exists_tau`                     : every flag value in {0,1,-1} has a compatible remainder τ, |τ| < 1
  * `finishK_rootOk`                 : nearest mode, ANY flag value, iterate within `a` working units of the exact
                                       k-th root of `c·10^e` and `(a+1)·1e20·(Cmax+1) < sig`:
                                       `finishK … = .ok r`, `𝔳[r] = .fin neg rc re`, `Spec.rootOk k c e rc re = true`
  * `finishK_within`                 : the same for every valid mode byte with the weaker conclusion
                                       "within (1 + 1e-20) spacings" (the two polynomial inequalities)
  * `i16_half`, `sqrt_exp`           : `(res.exp + dExp/2 + 6176).toInt = res.exp.toInt + dExp.toInt.tdiv 2 + 6176`
  * `sqrtFinish_rootOk`, `cbrtFinish_rootOk` : the two instances
  * `Sqrt_rootOk_of_core`, `Cbrt_rootOk_of_core` : corollaries for `Gen.Sqrt` / `Gen.Cbrt` themselves, given the
                                       triple/pair returned by `sqrtCore` / `cbrtCore`
  * `Signbit_compose_true`, `finishK_sign_neg` : whatever the finish stage returns for `neg = true` has the sign
                                       bit set (no hypotheses); `finishK_shape` : the result is `inf neg` or
                                       `compose neg …` (never NaN)
  * three `example`s instantiating the hypotheses on the iterates that reach the finish stage for `Sqrt(2)`,
    `Cbrt(-2)`
-/
import D128.Proofs.D192RootDefs
import D128.Proofs.D192RootMath
import D128.Proofs.RoundKernelWide
import D128.Proofs.Specials
set_option autoImplicit false
set_option maxRecDepth 4096
namespace Root
open Gen Spec SpecRound
local notation "𝔳[" d "]" => Spec.interp (Gen.Decimal.lo d) (Gen.Decimal.hi d)

/-- the common end of `Sqrt` and `Cbrt`: final rounding, overflow test, `compose` -/
def finishK (rm : UInt8) (neg : Bool) (sig : U192) (exp : Int16) (trunc : Int8) : Go.GoM Decimal := do
  let x ← RoundingMode.reduce192 rm neg sig exp trunc
  if decide (x.2 > 12287) = true then pure (inf neg) else pure (compose neg x.1 x.2)

theorem sqrtFinish_eq (g : Globals) (res : decomposed192) (trunc : Int8) (dExp : Int16) :
    sqrtFinish g res trunc dExp
      = finishK g.DefaultRoundingMode false res.sig (res.exp + dExp / 2 + 6176) trunc := rfl

theorem cbrtFinish_eq (g : Globals) (neg : Bool) (res : decomposed192) (trunc : Int8) :
    cbrtFinish g neg res trunc = finishK g.DefaultRoundingMode neg res.sig (res.exp + 6176) trunc := rfl

/-- a remainder compatible with a flag value -/
theorem exists_tau (trunc : Int8) (ht : trunc = 0 ∨ trunc = 1 ∨ trunc = -1) :
    ∃ τ : ℚ, RK.TruncRel trunc.toInt τ ∧ -1 < τ ∧ τ < 1 ∧ (trunc = -1 → -1 / 10 < τ) := by
  rcases ht with h | h | h
  · exact ⟨0, Or.inl ⟨by rw [h]; decide, rfl⟩, by norm_num, by norm_num, fun _ => by norm_num⟩
  · exact ⟨1 / 2, Or.inr (Or.inl ⟨by rw [h]; decide, by norm_num, by norm_num⟩), by norm_num, by norm_num,
      fun _ => by norm_num⟩
  · exact ⟨-1 / 20, Or.inr (Or.inr ⟨by rw [h]; decide, by norm_num, by norm_num⟩), by norm_num,
      by norm_num, fun _ => by norm_num⟩

/-- **The final step of both root functions.**  If the last iterate `sig·10^(exp-6176)` is within `a`
working units of the exact k-th root of `c·10^e` (stated in ℚ by k-th powers), `sig` is so long that
`(a+1)` working units are below `1e-20` of a Decimal spacing, the flag has any of its three values and
the mode byte denotes a nearest mode, then the final rounding returns a finite Decimal of the given sign
that `Spec.rootOk` accepts. -/
theorem finishK_rootOk (rm : UInt8) (m : Spec.Mode) (neg : Bool) (sig : U192) (exp : Int16)
    (trunc : Int8) (k c : Nat) (e : Int) (a : Nat)
    (hm : Spec.Mode.ofNat? rm.toNat = some m) (hn : isNearest m = true)
    (hk2 : 2 ≤ k) (hk3 : k ≤ 3)
    (ht : trunc = 0 ∨ trunc = 1 ∨ trunc = -1)
    (he0' : -20000 ≤ exp.toInt) (he1' : exp.toInt ≤ 20000)
    (hc0 : 0 < c) (hc : c ≤ Spec.Cmax) (he0 : Spec.Emin ≤ e) (he1 : e ≤ Spec.Emax)
    (hN : (a + 1) * 10 ^ 20 * (Spec.Cmax + 1) < sig.toNat)
    (hlo : (((sig.toNat : ℚ) - a) * (10 : ℚ) ^ (exp.toInt - 6176)) ^ k ≤ (c : ℚ) * (10 : ℚ) ^ e)
    (hhi : (c : ℚ) * (10 : ℚ) ^ e ≤ (((sig.toNat : ℚ) + a) * (10 : ℚ) ^ (exp.toInt - 6176)) ^ k) :
    ∃ r rc re, finishK rm neg sig exp trunc = .ok r ∧ 𝔳[r] = .fin neg rc re ∧
      Spec.rootOk k c e rc re = true := by
  obtain ⟨τ, hrel, hτ0, hτ1, hτm⟩ := exists_tau trunc ht
  obtain ⟨c0, e0, hfl, hflush, hall⟩ := nearest_rootOk m hn k hk2 hk3 c e sig.toNat a τ
    (exp.toInt - 6176) neg hc0 hc he0 he1 hτ0 hτ1 hN hlo hhi
  have hCm : Spec.Cmax < sig.toNat := by
    have : 1 * 1 * (Spec.Cmax + 1) ≤ (a + 1) * 10 ^ 20 * (Spec.Cmax + 1) :=
      Nat.mul_le_mul_right _ (Nat.mul_le_mul (by omega) (by norm_num))
    omega
  obtain ⟨sig', exp', hred, hpost⟩ := reduce192_correct rm m neg sig exp trunc τ hm he0' he1' hrel
    (by have : (0 : ℚ) ≤ (sig.toNat : ℚ) := Nat.cast_nonneg _
        have : (1 : ℚ) ≤ (sig.toNat : ℚ) := by exact_mod_cast (by omega : 1 ≤ sig.toNat)
        linarith)
    (fun _ => hCm) (fun h => ⟨hCm, Or.inr (hτm h)⟩) (fun _ => hflush)
  rw [hfl] at hpost
  unfold finishK
  rw [hred]
  have e12 : (exp' > 12287) ↔ exp'.toInt > 12287 := by
    rw [gt_iff_lt, Int16.lt_iff_toInt_lt]; simp
  by_cases hgt : exp'.toInt > 12287
  · rw [if_pos hgt] at hpost; cases hpost
  · rw [if_neg hgt] at hpost
    obtain ⟨hs', he', hsame⟩ := hpost
    refine ⟨compose neg sig' exp', sig'.toNat, exp'.toInt - 6176, ?_, ?_, ?_⟩
    · show (if decide (exp' > 12287) = true then _ else _) = _
      rw [if_neg (by simpa [e12] using hgt)]; rfl
    · exact Sp.interp_compose neg sig' exp' hs' he' (by omega)
    · apply hall _ _ hs'
      simp only [Spec.Val.same, Bool.and_eq_true, beq_iff_eq, Spec.mag, pow10_eq_zpow] at hsame
      exact hsame.2.symm

/-- the same for every valid mode byte: the result is within `(1 + 1e-20)` spacings of the root (not
`rootOk` in general: the directed modes are off by up to one spacing). -/
theorem finishK_within (rm : UInt8) (m : Spec.Mode) (neg : Bool) (sig : U192) (exp : Int16)
    (trunc : Int8) (k c : Nat) (e : Int) (a : Nat)
    (hm : Spec.Mode.ofNat? rm.toNat = some m)
    (hk2 : 2 ≤ k) (hk3 : k ≤ 3)
    (ht : trunc = 0 ∨ trunc = 1 ∨ trunc = -1)
    (he0' : -20000 ≤ exp.toInt) (he1' : exp.toInt ≤ 20000)
    (hc0 : 0 < c) (hc : c ≤ Spec.Cmax) (he0 : Spec.Emin ≤ e) (he1 : e ≤ Spec.Emax)
    (hN : (a + 1) * 10 ^ 20 * (Spec.Cmax + 1) < sig.toNat)
    (hlo : (((sig.toNat : ℚ) - a) * (10 : ℚ) ^ (exp.toInt - 6176)) ^ k ≤ (c : ℚ) * (10 : ℚ) ^ e)
    (hhi : (c : ℚ) * (10 : ℚ) ^ e ≤ (((sig.toNat : ℚ) + a) * (10 : ℚ) ^ (exp.toInt - 6176)) ^ k) :
    ∃ r rc re, finishK rm neg sig exp trunc = .ok r ∧ 𝔳[r] = .fin neg rc re ∧ rc ≠ 0 ∧ rc ≤ Spec.Cmax ∧
      ((rc : ℚ) * (10 : ℚ) ^ re - (1 + (10 : ℚ) ^ (-20 : Int)) * (10 : ℚ) ^ (Spec.spacingExpS (rc : ℚ) re) ≤ 0 ∨
        ((rc : ℚ) * (10 : ℚ) ^ re - (1 + (10 : ℚ) ^ (-20 : Int)) * (10 : ℚ) ^ (Spec.spacingExpS (rc : ℚ) re)) ^ k
          ≤ (c : ℚ) * (10 : ℚ) ^ e) ∧
      (c : ℚ) * (10 : ℚ) ^ e ≤
        ((rc : ℚ) * (10 : ℚ) ^ re + (1 + (10 : ℚ) ^ (-20 : Int)) * (10 : ℚ) ^ (Spec.spacingExpS (rc : ℚ) re)) ^ k := by
  obtain ⟨τ, hrel, hτ0, hτ1, hτm⟩ := exists_tau trunc ht
  obtain ⟨c0, e0, hfl, hflush, hall⟩ := anymode_near m k hk2 hk3 c e sig.toNat a τ
    (exp.toInt - 6176) neg hc0 hc he0 he1 hτ0 hτ1 hN hlo hhi
  have hCm : Spec.Cmax < sig.toNat := by
    have : 1 * 1 * (Spec.Cmax + 1) ≤ (a + 1) * 10 ^ 20 * (Spec.Cmax + 1) :=
      Nat.mul_le_mul_right _ (Nat.mul_le_mul (by omega) (by norm_num))
    omega
  obtain ⟨sig', exp', hred, hpost⟩ := reduce192_correct rm m neg sig exp trunc τ hm he0' he1' hrel
    (by have : (1 : ℚ) ≤ (sig.toNat : ℚ) := by exact_mod_cast (by omega : 1 ≤ sig.toNat)
        linarith)
    (fun _ => hCm) (fun h => ⟨hCm, Or.inr (hτm h)⟩) (fun _ => hflush)
  rw [hfl] at hpost
  unfold finishK
  rw [hred]
  have e12 : (exp' > 12287) ↔ exp'.toInt > 12287 := by
    rw [gt_iff_lt, Int16.lt_iff_toInt_lt]; simp
  by_cases hgt : exp'.toInt > 12287
  · rw [if_pos hgt] at hpost; cases hpost
  · rw [if_neg hgt] at hpost
    obtain ⟨hs', he', hsame⟩ := hpost
    have hmag : (sig'.toNat : ℚ) * (10 : ℚ) ^ (exp'.toInt - 6176) = (c0 : ℚ) * (10 : ℚ) ^ e0 := by
      simp only [Spec.Val.same, Bool.and_eq_true, beq_iff_eq, Spec.mag, pow10_eq_zpow] at hsame
      exact hsame.2.symm
    obtain ⟨g0, -, -, g3, g4⟩ := hall _ _ hs' hmag
    refine ⟨compose neg sig' exp', sig'.toNat, exp'.toInt - 6176, ?_, ?_, g0, hs', g3, g4⟩
    · show (if decide (exp' > 12287) = true then _ else _) = _
      rw [if_neg (by simpa [e12] using hgt)]; rfl
    · exact Sp.interp_compose neg sig' exp' hs' he' (by omega)

/-! ## exponents -/

theorem tdiv2_bounds (x : Int) : 2 * x.tdiv 2 ≤ x + 1 ∧ x - 1 ≤ 2 * x.tdiv 2 := by
  rcases le_or_gt 0 x with h | h
  · rw [Int.tdiv_eq_ediv_of_nonneg h]; omega
  · have : x.tdiv 2 = -((-x).tdiv 2) := by rw [Int.neg_tdiv]; omega
    rw [this, Int.tdiv_eq_ediv_of_nonneg (by omega)]; omega

theorem i16_half (x : Int16) : (x / 2).toInt = x.toInt.tdiv 2 := by
  have h2 : (2 : Int16).toInt = 2 := by decide
  have hx := x.toInt_lt
  have hx' := x.le_toInt
  have hb := tdiv2_bounds x.toInt
  rw [Int16.toInt_div, h2]
  apply Int.bmod_eq_of_le <;> omega

/-- the biased exponent handed to the final rounding of `Sqrt` does not wrap -/
theorem sqrt_exp (rexp dExp : Int16) (h0 : -9000 ≤ rexp.toInt) (h1 : rexp.toInt ≤ 9000)
    (h2 : -9000 ≤ dExp.toInt) (h3 : dExp.toInt ≤ 9000) :
    (rexp + dExp / 2 + 6176).toInt = rexp.toInt + dExp.toInt.tdiv 2 + 6176 := by
  have h6 : (6176 : Int16).toInt = 6176 := by decide
  have hh := i16_half dExp
  have hb := tdiv2_bounds dExp.toInt
  have e1 : (rexp + dExp / 2).toInt = rexp.toInt + dExp.toInt.tdiv 2 := by
    rw [Int16.toInt_add_of] <;> rw [hh] <;> omega
  rw [Int16.toInt_add_of] <;> rw [e1, h6] <;> omega

theorem cbrt_exp (rexp : Int16) (h0 : -20000 ≤ rexp.toInt) (h1 : rexp.toInt ≤ 20000) :
    (rexp + 6176).toInt = rexp.toInt + 6176 := by
  have h6 : (6176 : Int16).toInt = 6176 := by decide
  rw [Int16.toInt_add_of] <;> rw [h6] <;> omega

/-! ## the two instances -/

/-- **Final step of `Sqrt`.**  `E = res.exp + dExp/2` (Go's truncating division; `dExp` is even on every
path of `sqrtCore`) is the decimal exponent of the last iterate. -/
theorem sqrtFinish_rootOk (g : Globals) (m : Spec.Mode) (res : decomposed192) (trunc : Int8)
    (dExp : Int16) (c : Nat) (e : Int) (a : Nat)
    (hm : Spec.Mode.ofNat? g.DefaultRoundingMode.toNat = some m) (hn : isNearest m = true)
    (ht : trunc = 0 ∨ trunc = 1 ∨ trunc = -1)
    (hr0 : -9000 ≤ res.exp.toInt) (hr1 : res.exp.toInt ≤ 9000)
    (hd0 : -9000 ≤ dExp.toInt) (hd1 : dExp.toInt ≤ 9000)
    (hc0 : 0 < c) (hc : c ≤ Spec.Cmax) (he0 : Spec.Emin ≤ e) (he1 : e ≤ Spec.Emax)
    (hN : (a + 1) * 10 ^ 20 * (Spec.Cmax + 1) < res.sig.toNat)
    (hlo : (((res.sig.toNat : ℚ) - a) * (10 : ℚ) ^ (res.exp.toInt + dExp.toInt.tdiv 2)) ^ 2
      ≤ (c : ℚ) * (10 : ℚ) ^ e)
    (hhi : (c : ℚ) * (10 : ℚ) ^ e
      ≤ (((res.sig.toNat : ℚ) + a) * (10 : ℚ) ^ (res.exp.toInt + dExp.toInt.tdiv 2)) ^ 2) :
    ∃ r rc re, sqrtFinish g res trunc dExp = .ok r ∧ 𝔳[r] = .fin false rc re ∧
      Spec.rootOk 2 c e rc re = true := by
  rw [sqrtFinish_eq]
  have hE := sqrt_exp res.exp dExp hr0 hr1 hd0 hd1
  have hb := tdiv2_bounds dExp.toInt
  have hE' : (res.exp + dExp / 2 + 6176).toInt - 6176 = res.exp.toInt + dExp.toInt.tdiv 2 := by omega
  exact finishK_rootOk _ m false res.sig _ trunc 2 c e a hm hn (by norm_num) (by norm_num) ht
    (by omega) (by omega) hc0 hc he0 he1 hN (by rw [hE']; exact hlo) (by rw [hE']; exact hhi)

/-- **Final step of `Cbrt`.** -/
theorem cbrtFinish_rootOk (g : Globals) (m : Spec.Mode) (neg : Bool) (res : decomposed192)
    (trunc : Int8) (c : Nat) (e : Int) (a : Nat)
    (hm : Spec.Mode.ofNat? g.DefaultRoundingMode.toNat = some m) (hn : isNearest m = true)
    (ht : trunc = 0 ∨ trunc = 1 ∨ trunc = -1)
    (hr0 : -20000 ≤ res.exp.toInt) (hr1 : res.exp.toInt ≤ 13000)
    (hc0 : 0 < c) (hc : c ≤ Spec.Cmax) (he0 : Spec.Emin ≤ e) (he1 : e ≤ Spec.Emax)
    (hN : (a + 1) * 10 ^ 20 * (Spec.Cmax + 1) < res.sig.toNat)
    (hlo : (((res.sig.toNat : ℚ) - a) * (10 : ℚ) ^ res.exp.toInt) ^ 3 ≤ (c : ℚ) * (10 : ℚ) ^ e)
    (hhi : (c : ℚ) * (10 : ℚ) ^ e ≤ (((res.sig.toNat : ℚ) + a) * (10 : ℚ) ^ res.exp.toInt) ^ 3) :
    ∃ r rc re, cbrtFinish g neg res trunc = .ok r ∧ 𝔳[r] = .fin neg rc re ∧
      Spec.rootOk 3 c e rc re = true := by
  rw [cbrtFinish_eq]
  have hE := cbrt_exp res.exp hr0 (by omega)
  have hE' : (res.exp + 6176).toInt - 6176 = res.exp.toInt := by omega
  exact finishK_rootOk _ m neg res.sig _ trunc 3 c e a hm hn (by norm_num) (by norm_num) ht
    (by omega) (by omega) hc0 hc he0 he1 hN (by rw [hE']; exact hlo) (by rw [hE']; exact hhi)

/-! ## corollaries for the functions themselves -/

/-- **`Gen.Sqrt` from its core.**  `d` finite, non-zero, non-negative with value `c·10^e`; if the core
returns an iterate satisfying the closeness and length hypotheses then `Sqrt` returns a Decimal that
`Spec.rootOk 2` accepts (and does not panic). -/
theorem Sqrt_rootOk_of_core (g : Globals) (m : Spec.Mode) (d : Decimal) (res : decomposed192)
    (trunc : Int8) (dExp : Int16) (c : Nat) (e : Int) (a : Nat)
    (h1 : Decimal.isSpecial d = false) (h2 : Decimal.IsZero d = false) (h3 : Decimal.Signbit d = false)
    (hv : 𝔳[d] = .fin false c e)
    (hcore : sqrtCore d = .ok (res, trunc, dExp))
    (hm : Spec.Mode.ofNat? g.DefaultRoundingMode.toNat = some m) (hn : isNearest m = true)
    (ht : trunc = 0 ∨ trunc = 1 ∨ trunc = -1)
    (hr0 : -9000 ≤ res.exp.toInt) (hr1 : res.exp.toInt ≤ 9000)
    (hd0 : -9000 ≤ dExp.toInt) (hd1 : dExp.toInt ≤ 9000)
    (hN : (a + 1) * 10 ^ 20 * (Spec.Cmax + 1) < res.sig.toNat)
    (hlo : (((res.sig.toNat : ℚ) - a) * (10 : ℚ) ^ (res.exp.toInt + dExp.toInt.tdiv 2)) ^ 2
      ≤ (c : ℚ) * (10 : ℚ) ^ e)
    (hhi : (c : ℚ) * (10 : ℚ) ^ e
      ≤ (((res.sig.toNat : ℚ) + a) * (10 : ℚ) ^ (res.exp.toInt + dExp.toInt.tdiv 2)) ^ 2) :
    ∃ r rc re, Gen.Sqrt g d = .ok r ∧ 𝔳[r] = .fin false rc re ∧ Spec.rootOk 2 c e rc re = true := by
  rw [Enc.interp_decompose d h1] at hv
  injection hv with _ hcv hev
  have hc0 : 0 < c := by
    have := Sp.IsZero_eq_sig d; rw [h2] at this
    have : (Gen.Decimal.decompose d).1.toNat ≠ 0 := by simpa using this.symm
    omega
  have hc : c ≤ Spec.Cmax := by rw [← hcv]; exact Enc.decompose_sig_le d
  have he0 : Spec.Emin ≤ e := by
    have := Enc.decompose_exp_nonneg d; unfold Spec.Emin; omega
  have he1 : e ≤ Spec.Emax := by
    have := Enc.decompose_exp_le d h1; unfold Spec.Emax; omega
  rw [Sqrt_eq g d h1 h2 h3, hcore]
  exact sqrtFinish_rootOk g m res trunc dExp c e a hm hn ht hr0 hr1 hd0 hd1 hc0 hc he0 he1 hN hlo hhi

/-- **`Gen.Cbrt` from its core.**  `d` finite, non-zero with value `±c·10^e`. -/
theorem Cbrt_rootOk_of_core (g : Globals) (m : Spec.Mode) (d : Decimal) (res : decomposed192)
    (trunc : Int8) (n : Bool) (c : Nat) (e : Int) (a : Nat)
    (h1 : Decimal.isSpecial d = false) (h2 : Decimal.IsZero d = false)
    (hv : 𝔳[d] = .fin n c e)
    (hcore : cbrtCore d = .ok (res, trunc))
    (hm : Spec.Mode.ofNat? g.DefaultRoundingMode.toNat = some m) (hn : isNearest m = true)
    (ht : trunc = 0 ∨ trunc = 1 ∨ trunc = -1)
    (hr0 : -20000 ≤ res.exp.toInt) (hr1 : res.exp.toInt ≤ 13000)
    (hN : (a + 1) * 10 ^ 20 * (Spec.Cmax + 1) < res.sig.toNat)
    (hlo : (((res.sig.toNat : ℚ) - a) * (10 : ℚ) ^ res.exp.toInt) ^ 3 ≤ (c : ℚ) * (10 : ℚ) ^ e)
    (hhi : (c : ℚ) * (10 : ℚ) ^ e ≤ (((res.sig.toNat : ℚ) + a) * (10 : ℚ) ^ res.exp.toInt) ^ 3) :
    ∃ r rc re, Gen.Cbrt g d = .ok r ∧ 𝔳[r] = .fin n rc re ∧ Spec.rootOk 3 c e rc re = true := by
  rw [Enc.interp_decompose d h1] at hv
  injection hv with hnv hcv hev
  have hc0 : 0 < c := by
    have := Sp.IsZero_eq_sig d; rw [h2] at this
    have : (Gen.Decimal.decompose d).1.toNat ≠ 0 := by simpa using this.symm
    omega
  have hc : c ≤ Spec.Cmax := by rw [← hcv]; exact Enc.decompose_sig_le d
  have he0 : Spec.Emin ≤ e := by
    have := Enc.decompose_exp_nonneg d; unfold Spec.Emin; omega
  have he1 : e ≤ Spec.Emax := by
    have := Enc.decompose_exp_le d h1; unfold Spec.Emax; omega
  rw [Cbrt_eq g d h1 h2, hcore, hnv]
  exact cbrtFinish_rootOk g m n res trunc c e a hm hn ht hr0 hr1 hc0 hc he0 he1 hN hlo hhi

/-! ## sign -/

theorem or_hi63_bit (x : UInt64) : (x ||| 9223372036854775808).toNat / 2 ^ 63 % 2 = 1 := by
  rw [UInt64.toNat_or]
  have hx := x.toNat_lt
  have h : (9223372036854775808 : UInt64).toNat = 2 ^ 63 := by decide
  rw [h]
  have : (x.toNat ||| 2 ^ 63).testBit 63 = true := by
    rw [Nat.testBit_or, Nat.testBit_two_pow_self, Bool.or_true]
  rw [Nat.testBit, Nat.shiftRight_eq_div_pow] at this
  simp at this
  omega

/-- `compose true …` always has the sign bit set (no range hypothesis) -/
theorem Signbit_compose_true (sig : U128) (exp : Int16) :
    Gen.Decimal.Signbit (Gen.compose true sig exp) = true := by
  rw [Enc.Signbit_eq, decide_eq_true_eq]
  unfold Gen.compose
  simp only [Id.run, pure, if_true]
  split <;> exact or_hi63_bit _

/-- whatever the finish stage returns for a negative argument has the sign bit set -/
theorem finishK_sign_neg (rm : UInt8) (sig : U192) (exp : Int16) (trunc : Int8) (r : Decimal)
    (h : finishK rm true sig exp trunc = .ok r) : Gen.Decimal.Signbit r = true := by
  unfold finishK at h
  cases hred : RoundingMode.reduce192 rm true sig exp trunc with
  | error e => rw [hred] at h; cases h
  | ok x =>
    rw [hred] at h
    change (if decide (x.2 > 12287) = true then (pure (inf true) : Go.GoM Decimal)
      else pure (compose true x.1 x.2)) = .ok r at h
    split at h
    · cases h; exact Enc.Signbit_inf true
    · cases h; exact Signbit_compose_true _ _

/-- the finish stage returns an infinity of the given sign or a `compose` of the given sign flag;
in particular never a NaN -/
theorem finishK_shape (rm : UInt8) (neg : Bool) (sig : U192) (exp : Int16) (trunc : Int8) (r : Decimal)
    (h : finishK rm neg sig exp trunc = .ok r) :
    r = inf neg ∨ ∃ s e, RoundingMode.reduce192 rm neg sig exp trunc = .ok (s, e) ∧ ¬ e > 12287 ∧
      r = compose neg s e := by
  unfold finishK at h
  cases hred : RoundingMode.reduce192 rm neg sig exp trunc with
  | error e => rw [hred] at h; cases h
  | ok x =>
    rw [hred] at h
    change (if decide (x.2 > 12287) = true then (pure (inf neg) : Go.GoM Decimal)
      else pure (compose neg x.1 x.2)) = .ok r at h
    split at h
    · cases h; exact Or.inl rfl
    · rename_i hc
      cases h; exact Or.inr ⟨x.1, x.2, rfl, by simpa using hc, rfl⟩

/-! ## the hypotheses are satisfiable -/

/-- the hypotheses of `sqrtFinish_rootOk` are satisfiable: the iterate, flag and exponent that reach the
finish stage for `Sqrt(2)` (`#eval Root.sqrtCore`: sig = 1414213562373095048801688724209698078569671875376948073180,
exp = -57, trunc = 1, dExp = 0; the exact root is 3.3 working units below), tolerance a = 4 -/
example (g : Globals) (hg : g.DefaultRoundingMode = 0) :=
  sqrtFinish_rootOk g .nearestEven
    ⟨⟨12162708294298129116, 10086727926629614500, 4156000133564589919⟩, -57⟩ 1 0 2 0 4
    (by rw [hg]; rfl) rfl (Or.inr (Or.inl rfl)) (by decide) (by decide) (by decide) (by decide)
    (by norm_num) (by unfold Spec.Cmax; norm_num) (by unfold Spec.Emin; norm_num)
    (by unfold Spec.Emax; norm_num)
    (by unfold Spec.Cmax; simp [U192.toNat])
    (by simp [U192.toNat]; norm_num)
    (by simp [U192.toNat]; norm_num)

/-- the hypotheses of `cbrtFinish_rootOk` are satisfiable: the iterate reaching the finish stage for
`Cbrt(-2)` (sig = 1259921049894873164767210607278228350570251464701507980083, exp = -57, trunc = 1; the
exact root is 1.03 working units below), tolerance a = 2, mode nearest-away -/
example (g : Globals) (hg : g.DefaultRoundingMode = 1) :=
  cbrtFinish_rootOk g .nearestAway true
    ⟨⟨13785962329056660275, 14106435297053484570, 3702575191583772098⟩, -57⟩ 1 2 0 2
    (by rw [hg]; rfl) rfl (Or.inr (Or.inl rfl)) (by decide) (by decide)
    (by norm_num) (by unfold Spec.Cmax; norm_num) (by unfold Spec.Emin; norm_num)
    (by unfold Spec.Emax; norm_num)
    (by unfold Spec.Cmax; simp [U192.toNat])
    (by simp [U192.toNat]; norm_num)
    (by simp [U192.toNat]; norm_num)

/-- `finishK_within` at a directed mode (ToPositiveInf), the `Sqrt(2)` iterate, flag -1 -/
example :=
  finishK_within 5 .toPosInf false ⟨12162708294298129116, 10086727926629614500, 4156000133564589919⟩
    (6176 - 57) (-1) 2 2 0 4 rfl (by norm_num) (by norm_num) (Or.inr (Or.inr rfl)) (by decide) (by decide)
    (by norm_num) (by unfold Spec.Cmax; norm_num) (by unfold Spec.Emin; norm_num)
    (by unfold Spec.Emax; norm_num)
    (by unfold Spec.Cmax; simp [U192.toNat])
    (by simp [U192.toNat]; norm_num)
    (by simp [U192.toNat]; norm_num)
end Root
