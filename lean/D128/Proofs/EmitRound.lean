/-
  D128/Proofs/EmitRound.lean — text is a lossless interchange form: reading the emitted numeral back gives a
  Decimal with the same sign and the same value (`Spec.Val.same`), for every finite bit pattern.

  The value theorem of the parser (`Props.C05.parse_value` / `Props.C05.parseNumber_value`,
  D128/Props/C05Value.lean) enters as the hypothesis `hparse` (that module is being adapted to a change of the
  Go source while this one is written); it is used only on the one emitted string.

  * `Emit.flushS_member'`, `Emit.literalValue_member` : the literal value of a numeral that denotes a member
        of the format is that member (every rounding mode), without a range error
  * `Emit.fin_member`              : the coefficient/exponent of a finite bit pattern is a member
  * `Emit.same_of_literal`         : transport of `Val.same` along equal magnitudes
  * `Emit.string_parse_roundtrip`  : `parse (String d)` has the sign and value of `d`, error `nil`
  * `Emit.marshalText_parse_roundtrip`
  * `Emit.json_roundtrip`          : `UnmarshalJSON (MarshalJSON d)` has the sign and value of `d`, error `nil`
-/
import D128.Proofs.EmitMain
import D128.Proofs.EmitDenote
import D128.Proofs.EmitJson
import D128.Proofs.SpecRoundMain
import D128.Gen.Scan
set_option autoImplicit false
namespace Emit
open Spec SpecRound

/-- the value a bit pattern denotes -/
local notation "𝔳[" d "]" => Spec.interp (Gen.Decimal.lo d) (Gen.Decimal.hi d)

/-- a representable magnitude is returned exactly, in every mode (as `NL.flushS_member`) -/
theorem flushS_member' (m : Mode) (neg : Bool) {q : Rat} (hq : 0 < q) (k : Int)
    (hM : Member (q * (10 : Rat) ^ k)) :
    ∃ c' e', Spec.flushOrRoundS m neg q k = .fin neg c' e' ∧
      (c' : Rat) * (10 : Rat) ^ e' = q * (10 : Rat) ^ k := by
  obtain ⟨c, e, hc, he1, he2, hx⟩ := hM
  have hqk : 0 < q * (10 : Rat) ^ k := mul_pos hq (zpow_pos (by norm_num) _)
  have hpe : (0 : Rat) < (10 : Rat) ^ e := zpow_pos (by norm_num) _
  have hc0 : 0 < c := by
    rcases Nat.eq_zero_or_pos c with h | h
    · subst h; rw [Nat.cast_zero, zero_mul] at hx; linarith
    · exact h
  have h2 : (1 : Rat) ≤ (c : Rat) := by exact_mod_cast hc0
  rw [flushOrRoundS_eq m neg q hq.le k, hx, flushOrRound_eq_roundTo]
  · obtain ⟨c', e', hr, hv, -⟩ := roundTo_exact m neg hc0 hc he1 he2
    exact ⟨c', e', hr, hv⟩
  · have h1 : (10 : Rat) ^ (Spec.Emin - 1) ≤ (10 : Rat) ^ e :=
      zpow_le_zpow_right₀ (by norm_num) (by omega)
    nlinarith

theorem mag_eq_zpow (c : Nat) (e : Int) : Spec.mag c e = (c : Rat) * (10 : Rat) ^ e := by
  unfold Spec.mag; rw [pow10_eq_zpow]

/-- **The literal value of a numeral denoting a member of the format is that member**: same sign, same
magnitude, no range error — whatever the rounding mode. -/
theorem literalValue_member (m : Mode) (neg : Bool) (n : Nat) (sc : Int) (c : Nat) (e : Int)
    (hval : (n : Rat) * (10 : Rat) ^ sc = (c : Rat) * (10 : Rat) ^ e)
    (hc : c ≤ Spec.Cmax) (he1 : Spec.Emin ≤ e) (he2 : e ≤ Spec.Emax) :
    ∃ c' e', Spec.literalValue m neg n sc = (.fin neg c' e', false) ∧ Spec.mag c' e' = Spec.mag c e := by
  unfold Spec.literalValue
  by_cases hn : n = 0
  · subst hn
    refine ⟨0, 0, by simp, ?_⟩
    rw [mag_eq_zpow, mag_eq_zpow]
    have hpe : (0 : Rat) < (10 : Rat) ^ e := zpow_pos (by norm_num) _
    simp only [Nat.cast_zero, zero_mul] at hval ⊢
    exact hval
  · have hn' : (n == 0) = false := by simpa using hn
    have hq : (0 : Rat) < (n : Rat) := by exact_mod_cast Nat.pos_of_ne_zero hn
    obtain ⟨c', e', hf, hv⟩ := flushS_member' m neg hq sc ⟨c, e, hc, he1, he2, hval⟩
    refine ⟨c', e', ?_, ?_⟩
    · simp only [hn', Bool.false_eq_true, if_false, hf]
      rfl
    · rw [mag_eq_zpow, mag_eq_zpow, hv, hval]

/-- the coefficient/exponent pair of a finite bit pattern is a member of the format -/
theorem fin_member (d : Gen.Decimal) (neg : Bool) (c : Nat) (e : Int) (hfin : 𝔳[d] = .fin neg c e) :
    c ≤ Spec.Cmax ∧ Spec.Emin ≤ e ∧ e ≤ Spec.Emax := by
  obtain ⟨hs, _, h2, h3⟩ := fin_fields d neg c e hfin
  have h1 := Enc.decompose_sig_le d
  have he0 := Enc.decompose_exp_nonneg d
  have he1 := Enc.decompose_exp_le d hs
  rw [h2] at h1
  unfold Spec.Emin Spec.Emax
  exact ⟨h1, by omega, by omega⟩

theorem same_of_literal (v : Spec.Val) (neg : Bool) (c' c : Nat) (e' e : Int)
    (h : v.same (.fin neg c' e') = true) (hm : Spec.mag c' e' = Spec.mag c e) :
    v.same (.fin neg c e) = true := by
  cases v with
  | nan n p => simp [Spec.Val.same] at h
  | inf n => simp [Spec.Val.same] at h
  | fin n c0 e0 =>
    simp only [Spec.Val.same, Bool.and_eq_true, beq_iff_eq] at h ⊢
    exact ⟨h.1, h.2.trans hm⟩

/-- **Round trip through `parse`** (Parse, MustParse, UnmarshalText, Scan all end in `parse`).  `hparse` is
`Props.C05.parse_value g out op m hm _`. -/
theorem string_parse_roundtrip (g : Globals) (op : UInt64) (m : Mode) (d : Gen.Decimal) (neg : Bool)
    (c : Nat) (e : Int) (hfin : 𝔳[d] = .fin neg c e)
    (hparse : ∀ (s : Go.Bytes) (neg : Bool) (n : Nat) (sc : Int), s.size + 6216 ≤ 2 ^ 58 →
      Spec.readLiteral true true (chars s) = some (.num neg n sc) →
      ∃ v err, Gen.parse g s op = .ok (v, err) ∧
        (𝔳[v]).same (Spec.literalValue m neg n sc).1 = true ∧
        err = (if (Spec.literalValue m neg n sc).2 then Go.Err.parseRangeError else Go.Err.nil)) :
    ∃ out v, Gen.Decimal.String d = .ok out ∧ Gen.parse g out op = .ok (v, Go.Err.nil) ∧
      (𝔳[v]).same (𝔳[d]) = true := by
  obtain ⟨out, ho, hco, hos⟩ := string_fin d neg c e hfin
  obtain ⟨hc, he1, he2⟩ := fin_member d neg c e hfin
  rw [shortestG_eq] at hco
  obtain ⟨n, sc, hread, hval⟩ := shortest_readLiteral true true (-4) 6 2 neg c e 'e' (Or.inl rfl)
  obtain ⟨c', e', hlit, hmag⟩ := literalValue_member m neg n sc c e hval hc he1 he2
  obtain ⟨v, err, hp, hsame, herr⟩ := hparse out neg n sc (by omega) (by rw [hco]; exact hread)
  rw [hlit] at hsame herr
  refine ⟨out, v, ho, ?_, ?_⟩
  · rw [hp, herr]; rfl
  · rw [hfin]; exact same_of_literal _ neg c' c e' e hsame hmag

/-- the same for `MarshalText` -/
theorem marshalText_parse_roundtrip (g : Globals) (op : UInt64) (m : Mode) (d : Gen.Decimal) (neg : Bool)
    (c : Nat) (e : Int) (hfin : 𝔳[d] = .fin neg c e)
    (hparse : ∀ (s : Go.Bytes) (neg : Bool) (n : Nat) (sc : Int), s.size + 6216 ≤ 2 ^ 58 →
      Spec.readLiteral true true (chars s) = some (.num neg n sc) →
      ∃ v err, Gen.parse g s op = .ok (v, err) ∧
        (𝔳[v]).same (Spec.literalValue m neg n sc).1 = true ∧
        err = (if (Spec.literalValue m neg n sc).2 then Go.Err.parseRangeError else Go.Err.nil)) :
    ∃ out v, Gen.Decimal.MarshalText d = .ok (out, Go.Err.nil) ∧
      Gen.parse g out op = .ok (v, Go.Err.nil) ∧ (𝔳[v]).same (𝔳[d]) = true := by
  obtain ⟨out, ho, hco, hos⟩ := marshalText_fin d neg c e hfin
  obtain ⟨out', v, ho', hp, hs⟩ := string_parse_roundtrip g op m d neg c e hfin hparse
  obtain ⟨out'', ho'', hco'', _⟩ := string_fin d neg c e hfin
  rw [ho'] at ho''
  cases ho''
  have : out = out' := chars_inj (by rw [hco, hco''])
  subst this
  exact ⟨out, v, ho, hp, hs⟩

/-! ## JSON -/

theorem toChar_minus : toChar 45 = '-' := rfl

theorem chars_cons_head (out : Go.Bytes) (c : Char) (rest : List Char) (h : chars out = c :: rest) :
    ∃ h0 : 0 < out.size, toChar (out[0]'h0) = c ∧ chars (out.extract 1 out.size) = rest := by
  have hl := chars_length out
  rw [h] at hl
  have h0 : 0 < out.size := by simp at hl; omega
  refine ⟨h0, ?_, ?_⟩
  · have := congrArg List.head? h
    simp only [chars, List.head?_map, List.head?_cons] at this
    rw [List.head?_eq_getElem?, List.getElem?_eq_getElem (by simpa using h0)] at this
    simpa using this
  · have := congrArg (List.drop 1) h
    simp only [chars, List.drop_succ_cons, List.drop_zero] at this ⊢
    rw [← this, ← List.map_drop]
    congr 1
    simp

/-- **Round trip through JSON.**  `hpn` is `Props.C05.parseNumber_value g _ _ false m hm _`. -/
theorem json_roundtrip (g : Globals) (m : Mode) (d d0 : Gen.Decimal) (neg : Bool)
    (c : Nat) (e : Int) (hfin : 𝔳[d] = .fin neg c e)
    (hpn : ∀ (s : Go.Bytes) (neg : Bool) (n : Nat) (sc : Int), s.size + 6216 ≤ 2 ^ 58 →
      Spec.readNumber false (chars s) = some (n, sc) →
      ∃ v err, Gen.parseNumber g s neg false = .ok (v, err) ∧
        (𝔳[v]).same (Spec.literalValue m neg n sc).1 = true ∧
        err = (if (Spec.literalValue m neg n sc).2 then Go.Err.parseNumberRangeError else Go.Err.nil)) :
    ∃ out v, Gen.Decimal.MarshalJSON d = .ok (out, Go.Err.nil) ∧
      Gen.Decimal.UnmarshalJSON g d0 out = .ok (v, Go.Err.nil) ∧ (𝔳[v]).same (𝔳[d]) = true := by
  obtain ⟨out, ho, hco, hos⟩ := marshalJSON_fin d neg c e hfin
  obtain ⟨hc, he1, he2⟩ := fin_member d neg c e hfin
  obtain ⟨n, sc, hread, hval⟩ := shortest_readNumber false (-6) 20 1 c e 'e' (Or.inl rfl)
  obtain ⟨c', e', hlit, hmag⟩ := literalValue_member m neg n sc c e hval hc he1 he2
  -- the body starts with a digit
  obtain ⟨A, B, EP, hasDot, hasExp, eneg, hbody, hA, _, _, hAne, _⟩ := shortest_canon (-6) 20 1 c e 'e'
  obtain ⟨a0, A', rfl⟩ : ∃ a0 A', A = a0 :: A' := by
    cases A with
    | nil => exact absurd rfl hAne
    | cons a0 A' => exact ⟨a0, A', rfl⟩
  have ha0 := hA a0 (by simp)
  generalize hT : Spec.digitsStr A' ++ ((if hasDot then '.' :: Spec.digitsStr B else []) ++
      (if hasExp then 'e' :: (if eneg then '-' else '+') :: Spec.digitsStr EP else [])) = T at hbody
  have hbody' : shortest (-6) 20 1 false (Spec.sliceOf c e) 'e' = Spec.digitChar a0 :: T := by
    rw [hbody, ← hT]; rfl
  rw [shortest_neg, hbody'] at hco
  rw [hbody'] at hread
  have hsz : out.size < 2 ^ 63 := by omega
  have hnull : out ≠ Go.str "null" := by
    intro h
    rw [h] at hco
    cases neg
    · have := congrArg List.head? hco
      simp only [Bool.false_eq_true, if_false, List.nil_append, List.head?_cons] at this
      have h1 : (chars (Go.str "null")).head? = some 'n' := by decide
      rw [h1] at this
      have := Option.some.inj this
      have h2 := isDigit_digitChar a0 ha0
      rw [← this] at h2
      exact absurd h2 (by decide)
    · have := congrArg List.head? hco
      have h1 : (chars (Go.str "null")).head? = some 'n' := by decide
      rw [h1] at this
      simp at this
  refine ⟨out, ?_⟩
  rw [unmarshalJSON_eq g d0 out hsz, if_neg hnull]
  cases neg
  · -- no sign: the first byte is a digit
    simp only [Bool.false_eq_true, if_false, List.nil_append] at hco
    obtain ⟨h0, hc0, _⟩ := chars_cons_head out _ _ hco
    rw [dif_neg (by omega)]
    have hne43 : out[0] ≠ 43 := by
      intro h; rw [h] at hc0
      exact digitChar_ne_plus a0 ha0 hc0.symm
    have hne45 : out[0] ≠ 45 := by
      intro h; rw [h] at hc0
      exact digitChar_ne_minus a0 ha0 hc0.symm
    have hst : jsonStart out[0] = (false, 0) := by
      unfold jsonStart; rw [if_neg hne43, if_neg hne45]
    simp only [hst]
    have hex : out.extract 0 out.size = out := by simp
    rw [hex]
    obtain ⟨v, err, hp, hsame, herr⟩ := hpn out false n sc (by omega) (by rw [hco]; exact hread)
    rw [hlit] at hsame herr
    refine ⟨v, ho, ?_, ?_⟩
    · rw [hp, herr]; rfl
    · rw [hfin]; exact same_of_literal _ false c' c e' e hsame hmag
  · -- minus sign, then the digits
    simp only [if_true, List.singleton_append] at hco
    obtain ⟨h0, hc0, hrest⟩ := chars_cons_head out _ _ hco
    rw [dif_neg (by omega)]
    have h45 : out[0] = 45 := toChar_inj (by rw [hc0]; rfl)
    have hst : jsonStart out[0] = (true, 1) := by
      unfold jsonStart; rw [h45]; rfl
    simp only [hst]
    obtain ⟨v, err, hp, hsame, herr⟩ := hpn (out.extract 1 out.size) true n sc
      (by simp; omega) (by rw [hrest]; exact hread)
    rw [hlit] at hsame herr
    refine ⟨v, ho, ?_, ?_⟩
    · rw [hp, herr]; rfl
    · rw [hfin]; exact same_of_literal _ true c' c e' e hsame hmag

end Emit
