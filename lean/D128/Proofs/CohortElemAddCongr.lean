/-
  D128/Proofs/CohortElemAddCongr.lean — property C19 for the elementary functions: `decomposed192.add` on two pairs of
  operands of equal values (cohort members), in the dichotomy form  "both runs exact  ∨  same register, both inexact".

  Method: both runs are put into the normal form of CohortElemAddNF.lean (`add_nf`).  The alignment exponent is
  `E = max(min d.exp o.exp, f_d, f_o)` with `f_x` value-determined (`FullAt.congr`), so for two runs either `E = E'`
  — then aligned sum, final truncation, register and exactness coincide — or one run aligns at its own smaller
  exponent and the other one strictly below: then nothing but zeros is dropped in either run (`nf_E_cases`, `nf_congr`).

  SIDE CONDITION.  Each operand pair must be identical or have both significands below `10·LIM = 250·2^184`.  Without it
  `add` is NOT a function of the values: OBSERVATION 1 below (`#guard`, by evaluation of the generated code):
  `d = ⟨10·LIM, 5⟩`, `d' = ⟨LIM, 6⟩` (same value), `o = ⟨7, 5⟩`: `add d o 0 = (10·LIM + 7, 5, 0)` exact, but
  `add d' o 0 = (LIM, 6, 1)` drops the `7` (an over-full significand is not scaled, its shorter twin is ≥ LIM and not
  scaled either, so the two runs align one digit apart).
  FLAGS (finding D20).  In the inexact alternative both flags are `±1`; they can differ only when digits of `o ≠ o'` are
  dropped in the branch `d.exp > o.exp` (`-1` from the `div10000` loop / the `exp > 57` shortcut, `+1` from the `div10`
  loop): OBSERVATION 2: `d = ⟨LIM, 1⟩`, `o = ⟨12, 0⟩` gives flag `+1`, `o' = ⟨12000, -3⟩` gives `-1`, same register.
  Zero significands are allowed everywhere (no `≠ 0` hypotheses).

  Provided (namespace `CohortElem`; `val = D192.val`; exponents of all operands in `[-16000, 16000]`):
  * `addFlagPos_indep`, `cross_contra`, `m_unique`, `AddNF.align_inexact`, `swapS`, `nf_E_cases`, `nf_congr_aux`, `nf_congr`
  * `add_congr`        : the dichotomy, with the flag clause and the windows `min ≤ r.exp ≤ max + 1`
  * `add_congr_val`    : `val r = val r' ∧ (r = r' ∨ (exact ∧ t1 = t ∧ t1' = t'))`
  * `add_congr_o_id`   : `o` identical, same incoming flag: `val r = val r'`, EQUAL flags, `r = r' ∨ (exact ∧ t1 = t)`
  * `add_congr_o_full` : `o` identical with `LIM ≤ o.sig` (any size), same flag:  `add d o t = add d' o t`  outright
  * `add_congr_d_full` : `d` identical with `LIM ≤ d.sig`: the same register outright; flags as in `add_congr`
  * `add_congr_d_id`   : `d` identical: `val r = val r'` and the dichotomy
  * `add_congr_dom`    : `FullAt d f` with `o.exp, o'.exp < f` (`d` dominates): the same register outright; flags as in `add_congr`
  * `nf_same_S`, `AddNF.val_le`, `add_congr_dom_far` : … and `o.exp + 58 ≤ f`, `o'.exp + 58 ≤ f`, `o.sig, o'.sig ≠ 0`: the same
                         register AND the same flag for any incoming flags (the `exp > 57` shortcut writes `-1`); inexact
  * `add_exact_of_fit` : `val d = A·10^E`, `val o = B·10^E`, `A + B < LIM` ⇒ `add d o t = .ok (r, t)`, `val r = val d + val o`
                         for ANY representations (over-full included)
  * `runAdd` + `#guard`s : the two observations; `example`s: the hypotheses of every main theorem are satisfiable
-/
import D128.Proofs.CohortElemAddNF
set_option autoImplicit false
set_option maxRecDepth 4096
set_option exponentiation.threshold 512
set_option linter.unusedVariables false
open D128.Proofs.WordsWide

namespace CohortElem
open Gen D192

/-! ### small arithmetic -/

/-- when a non-zero digit of `O` is dropped the flag written by the branch `exp > 0` does not depend on the incoming flag -/
theorem addFlagPos_indep (k O : Nat) (t t' : Int8) (h : O % 10 ^ k ≠ 0) :
    addFlagPos k O t = addFlagPos k O t' := by
  unfold addFlagPos
  split
  · have h0 : O ≠ 0 := fun h0 => h (by rw [h0]; simp)
    rw [if_neg h0, if_neg h0]
  · unfold flagDiv
    have hk : 4 * (k / 4) + k % 4 = k := Nat.div_add_mod _ _
    have := mod_pow_add O (4 * (k / 4)) (k % 4)
    rw [hk] at this
    by_cases h2 : (O / 10 ^ (4 * (k / 4))) % 10 ^ (k % 4) = 0
    · have h1 : O % 10 ^ (4 * (k / 4)) ≠ 0 := fun h1 => h (this.mpr ⟨h1, h2⟩)
      rw [if_pos h2, if_pos h2, if_neg h1, if_neg h1]
    · rw [if_neg h2, if_neg h2]

/-- a representation with exponent `≥ ed + a` of the value of `d` forces `10^a ∣ d.sig` -/
theorem cross_contra {d d' : decomposed192} {a : Nat} (hv : val d = val d')
    (hD : d.sig.toNat % 10 ^ a ≠ 0) (hE : d.exp.toInt + a ≤ d'.exp.toInt) : False := by
  unfold val at hv
  have := q_eq_nat hv.symm (show d.exp.toInt ≤ d'.exp.toInt by omega)
  obtain ⟨c, hc⟩ : ∃ c, (d'.exp.toInt - d.exp.toInt).toNat = a + c :=
    ⟨(d'.exp.toInt - d.exp.toInt).toNat - a, by omega⟩
  apply hD
  rw [this, hc, Nat.pow_add, ← Nat.mul_assoc, Nat.mul_comm _ (10 ^ a), Nat.mul_assoc]
  exact Nat.mul_mod_right _ _

theorem m_unique {S m m' : Nat} (hm : m ≤ 1) (hm' : m' ≤ 1) (h : m = 0 ∨ 2 ^ 192 ≤ S)
    (h' : m' = 0 ∨ 2 ^ 192 ≤ S) (hl : S / 10 ^ m < 2 ^ 192) (hl' : S / 10 ^ m' < 2 ^ 192) : m = m' := by
  by_contra hne
  rcases Nat.eq_zero_or_pos m with h0 | h0
  · subst h0
    rw [Nat.pow_zero, Nat.div_one] at hl
    rcases h' with h' | h'
    · omega
    · omega
  · rcases Nat.eq_zero_or_pos m' with h0' | h0'
    · subst h0'
      rw [Nat.pow_zero, Nat.div_one] at hl'
      rcases h with h | h <;> omega
    · omega

/-- an inexact alignment: which operand lost digits, and the flag it left -/
theorem AddNF.align_inexact {d o : decomposed192} {t : Int8} {r : decomposed192} {t1 : Int8} {a m : Nat}
    (h : AddNF d o t r t1 a m) (hz : NN d o % 10 ^ a ≠ 0) :
    (d.exp.toInt < o.exp.toInt ∧ d.sig.toNat % 10 ^ a ≠ 0 ∧ alFlag d o a t = 1) ∨
    (o.exp.toInt < d.exp.toInt ∧ o.sig.toNat % 10 ^ a ≠ 0 ∧
      alFlag d o a t = addFlagPos a o.sig.toNat t ∧ (LIM : ℚ) * (10 : ℚ) ^ (o.exp.toInt + 1) ≤ val d) := by
  obtain ⟨hm, hs, he, hS, hn, hmax, hlow, hud, huo, ht⟩ := h
  rw [NN_mod d o a hmax] at hz
  have ha : a ≠ 0 := fun h0 => hz (by rw [h0, Nat.pow_zero, Nat.mod_one])
  rcases lt_trichotomy d.exp.toInt o.exp.toInt with hlt | heq | hgt
  · left
    rw [if_pos hlt] at hz
    refine ⟨hlt, hz, ?_⟩
    unfold alFlag; rw [if_pos hlt, if_neg hz]
  · exfalso; unfold mu at hmax; omega
  · right
    rw [if_neg (by omega)] at hz
    have hmu : mu d o = o.exp.toInt := by unfold mu; omega
    refine ⟨hgt, hz, by unfold alFlag; rw [if_neg (by omega)], ?_⟩
    rcases hlow with h0 | hf | hf
    · exact absurd h0 ha
    · refine le_trans ?_ hf.val_ge
      have hL : (0 : ℚ) ≤ (LIM : ℚ) := by positivity
      exact mul_le_mul_of_nonneg_left (zpow_le_zpow_right₀ (by norm_num) (by rw [hmu]; omega)) hL
    · have := hf.le_exp; rw [hmu] at this; omega

/-! ### two runs on operands of equal values -/

theorem swapS {x x' : decomposed192} (h : x = x' ∨ (x.sig.toNat < 10 * LIM ∧ x'.sig.toNat < 10 * LIM)) :
    x' = x ∨ (x'.sig.toNat < 10 * LIM ∧ x.sig.toNat < 10 * LIM) :=
  h.imp Eq.symm And.symm

/-- the alignment exponents of two runs on operands of equal values: equal, or one run aligns at its own smaller
exponent (nothing dropped) and the other one below -/
theorem nf_E_cases {d d' o o' : decomposed192} {t t' : Int8} {r r' : decomposed192} {t1 t1' : Int8}
    {a m a' m' : Nat} (h1 : AddNF d o t r t1 a m) (h2 : AddNF d' o' t' r' t1' a' m')
    (hd : val d = val d') (ho : val o = val o')
    (hdS : d = d' ∨ (d.sig.toNat < 10 * LIM ∧ d'.sig.toNat < 10 * LIM))
    (hoS : o = o' ∨ (o.sig.toNat < 10 * LIM ∧ o'.sig.toNat < 10 * LIM)) :
    mu d o + a = mu d' o' + a' ∨ (mu d' o' + a' < mu d o + a ∧ a = 0) ∨
      (mu d o + a < mu d' o' + a' ∧ a' = 0) := by
  obtain ⟨-, -, -, -, -, -, hlow, hud, huo, -⟩ := h1
  obtain ⟨-, -, -, -, -, -, hlow', hud', huo', -⟩ := h2
  rcases lt_trichotomy (mu d o + a) (mu d' o' + a') with hlt | heq | hgt
  · right; right
    refine ⟨hlt, ?_⟩
    rcases hlow' with h0 | hf | hf
    · exact h0
    · have := hud _ (hf.congr hd.symm (swapS hdS)); omega
    · have := huo _ (hf.congr ho.symm (swapS hoS)); omega
  · exact Or.inl heq
  · right; left
    refine ⟨hgt, ?_⟩
    rcases hlow with h0 | hf | hf
    · exact h0
    · have := hud' _ (hf.congr hd hdS); omega
    · have := huo' _ (hf.congr ho hoS); omega

/-- comparison of two normal forms, one orientation of the smaller exponents -/
theorem nf_congr_aux {d d' o o' : decomposed192} {t t' : Int8} {r r' : decomposed192} {t1 t1' : Int8}
    {a m a' m' : Nat} (h1 : AddNF d o t r t1 a m) (h2 : AddNF d' o' t' r' t1' a' m')
    (hd : val d = val d') (ho : val o = val o')
    (hdS : d = d' ∨ (d.sig.toNat < 10 * LIM ∧ d'.sig.toNat < 10 * LIM))
    (hoS : o = o' ∨ (o.sig.toNat < 10 * LIM ∧ o'.sig.toNat < 10 * LIM))
    (hle : mu d' o' ≤ mu d o) :
    ((val r = val d + val o ∧ val r' = val d + val o ∧ t1 = t ∧ t1' = t') ∨
     (r = r' ∧ (t1 = 1 ∨ t1 = -1) ∧ (t1' = 1 ∨ t1' = -1) ∧
        (t1 = t1' ∨ (o ≠ o' ∧ (LIM : ℚ) * (10 : ℚ) ^ (o.exp.toInt + 1) ≤ val d ∧
          (LIM : ℚ) * (10 : ℚ) ^ (o'.exp.toInt + 1) ≤ val d')))) ∧
    (mu d o + a = mu d' o' + a' → r = r') := by
  have hV : ((NN d o : Nat) : ℚ) * (10 : ℚ) ^ mu d o = ((NN d' o' : Nat) : ℚ) * (10 : ℚ) ^ mu d' o' := by
    rw [NN_val, NN_val, hd, ho]
  have hP := q_eq_nat hV hle
  obtain ⟨c, hc⟩ : ∃ c : Nat, c = (mu d o - mu d' o').toNat := ⟨_, rfl⟩
  rw [← hc] at hP
  have hcI : (c : Int) = mu d o - mu d' o' := by omega
  -- the alignment exponents: equal, or the first run aligns at its own smaller exponent
  have hE : mu d o + a = mu d' o' + a' ∨ (mu d' o' + a' < mu d o + a ∧ a = 0) := by
    rcases nf_E_cases h1 h2 hd ho hdS hoS with h | h | ⟨h, h0⟩
    · exact Or.inl h
    · exact Or.inr h
    · omega
  have h1' := h1
  have h2' := h2
  obtain ⟨hm, hs, he, hS, hn, hmax, hlow, hud, huo, ht⟩ := h1
  obtain ⟨hm', hs', he', hS', hn', hmax', hlow', hud', huo', ht'⟩ := h2
  rcases hE with hEq | ⟨hElt, ha0⟩
  · -- same alignment exponent: same sum, same final truncation
    have haa : a' = a + c := by omega
    have hSS : NN d' o' / 10 ^ a' = NN d o / 10 ^ a := by
      rw [hP, haa, Nat.pow_add, Nat.mul_div_mul_right _ _ (by positivity)]
    have hlt : NN d o / 10 ^ a / 10 ^ m < 2 ^ 192 := by
      rw [Nat.div_div_eq_div_mul, ← Nat.pow_add, ← hs]; exact U192.toNat_lt _
    have hlt' : NN d o / 10 ^ a / 10 ^ m' < 2 ^ 192 := by
      rw [← hSS, Nat.div_div_eq_div_mul, ← Nat.pow_add, ← hs']; exact U192.toNat_lt _
    rw [hSS] at hn' ht'
    have hmm : m = m' := m_unique hm hm' hn hn' hlt hlt'
    subst hmm
    have hrr : r = r' := by
      refine d192_ext ?_ ?_
      · rw [hs, hs', Nat.pow_add, Nat.pow_add, ← Nat.div_div_eq_div_mul, ← Nat.div_div_eq_div_mul, hSS]
      · rw [he, he']; omega
    have hmod : NN d' o' % 10 ^ (a' + m) = 0 ↔ NN d o % 10 ^ (a + m) = 0 := by
      rw [hP, haa, show a + c + m = (a + m) + c by ring]; exact mul_pow_mod _ _ _
    refine ⟨?_, fun _ => hrr⟩
    by_cases hz : NN d o % 10 ^ (a + m) = 0
    · left
      have hvr : val r = val d + val o := h1'.exact_iff.mpr hz
      exact ⟨hvr, hrr ▸ hvr, h1'.flag_exact hz, h2'.flag_exact (hmod.mpr hz)⟩
    · right
      have hz' : NN d' o' % 10 ^ (a' + m) ≠ 0 := fun h => hz (hmod.mp h)
      refine ⟨hrr, h1'.flag_inexact hz, h2'.flag_inexact hz', ?_⟩
      by_cases h2 : NN d o / 10 ^ a % 10 ^ m = 0
      · rw [if_pos h2] at ht ht'
        have hza : NN d o % 10 ^ a ≠ 0 := fun h => hz ((mod_pow_add _ _ _).mpr ⟨h, h2⟩)
        have hza' : NN d' o' % 10 ^ a' ≠ 0 := by
          intro h
          apply hza
          rw [hP, haa] at h
          exact (mul_pow_mod _ _ _).mp h
        rcases h1'.align_inexact hza with ⟨hlt1, hD, hf⟩ | ⟨hlt1, hO, hf, hB⟩
        · rcases h2'.align_inexact hza' with ⟨hlt2, hD', hf'⟩ | ⟨hlt2, hO', hf', hB'⟩
          · left; rw [ht, ht', hf, hf']
          · exfalso
            refine cross_contra hd hD ?_
            unfold mu at hEq hmax'
            omega
        · rcases h2'.align_inexact hza' with ⟨hlt2, hD', hf'⟩ | ⟨hlt2, hO', hf', hB'⟩
          · exfalso
            refine cross_contra hd.symm hD' ?_
            unfold mu at hEq hmax
            omega
          · by_cases hoo : o = o'
            · left
              subst hoo
              have : a = a' := by unfold mu at hEq; omega
              subst this
              rw [ht, ht', hf, hf']
              exact addFlagPos_indep _ _ _ _ hO
            · right; exact ⟨hoo, hB, hB'⟩
      · left; rw [if_neg h2] at ht ht'; rw [ht, ht']
  · -- the first run aligns at its smaller exponent, the second one below: both are exact
    subst ha0
    obtain ⟨e, hce⟩ : ∃ e, c = a' + e + 1 := ⟨c - a' - 1, by omega⟩
    have hSS : NN d' o' / 10 ^ a' = NN d o * 10 ^ (e + 1) := by
      rw [hP, hce, show a' + e + 1 = (e + 1) + a' by ring, Nat.pow_add, ← Nat.mul_assoc,
        Nat.mul_div_cancel _ (by positivity)]
    have hsmall : NN d o < 2 ^ 192 := by
      rw [hSS] at hS'
      have : NN d o * 10 ≤ NN d o * 10 ^ (e + 1) :=
        Nat.mul_le_mul_left _ (by rw [Nat.pow_succ]; exact Nat.le_mul_of_pos_left _ (by positivity))
      omega
    have hm0 : m = 0 := by
      rcases hn with h | h
      · exact h
      · rw [Nat.pow_zero, Nat.div_one] at h; omega
    subst hm0
    have hz : NN d o % 10 ^ (0 + 0) = 0 := by simp [Nat.mod_one]
    have hz' : NN d' o' % 10 ^ (a' + m') = 0 := by
      rw [hP]
      exact Nat.mod_eq_zero_of_dvd (Dvd.dvd.mul_left (Nat.pow_dvd_pow _ (by omega)) _)
    refine ⟨Or.inl ⟨h1'.exact_iff.mpr hz, ?_, h1'.flag_exact hz, h2'.flag_exact hz'⟩, fun h => by omega⟩
    rw [hd, ho]
    exact h2'.exact_iff.mpr hz'

/-- **comparison of two normal forms** (operands of equal values, identical or not over-full): both runs exact,
or the same register with both flags `±1`; the same register whenever the alignment exponents agree -/
theorem nf_congr {d d' o o' : decomposed192} {t t' : Int8} {r r' : decomposed192} {t1 t1' : Int8}
    {a m a' m' : Nat} (h1 : AddNF d o t r t1 a m) (h2 : AddNF d' o' t' r' t1' a' m')
    (hd : val d = val d') (ho : val o = val o')
    (hdS : d = d' ∨ (d.sig.toNat < 10 * LIM ∧ d'.sig.toNat < 10 * LIM))
    (hoS : o = o' ∨ (o.sig.toNat < 10 * LIM ∧ o'.sig.toNat < 10 * LIM)) :
    ((val r = val d + val o ∧ val r' = val d + val o ∧ t1 = t ∧ t1' = t') ∨
     (r = r' ∧ (t1 = 1 ∨ t1 = -1) ∧ (t1' = 1 ∨ t1' = -1) ∧
        (t1 = t1' ∨ (o ≠ o' ∧ (LIM : ℚ) * (10 : ℚ) ^ (o.exp.toInt + 1) ≤ val d ∧
          (LIM : ℚ) * (10 : ℚ) ^ (o'.exp.toInt + 1) ≤ val d')))) ∧
    (mu d o + a = mu d' o' + a' → r = r') := by
  rcases le_total (mu d' o') (mu d o) with hle | hle
  · exact nf_congr_aux h1 h2 hd ho hdS hoS hle
  · obtain ⟨h, hE⟩ := nf_congr_aux h2 h1 hd.symm ho.symm (swapS hdS) (swapS hoS) hle
    refine ⟨?_, fun he => (hE he.symm).symm⟩
    rcases h with ⟨a, b, c, e⟩ | ⟨a, b, c, e⟩
    · left; exact ⟨by rw [hd, ho]; exact b, by rw [hd, ho]; exact a, e, c⟩
    · right
      refine ⟨a.symm, c, b, ?_⟩
      rcases e with e | ⟨e1, e2, e3⟩
      · exact Or.inl e.symm
      · exact Or.inr ⟨fun h => e1 h.symm, e3, e2⟩

/-- **`add` on cohort members** (`val d = val d'`, `val o = val o'`; each pair identical or both significands
below `10·LIM`; zero significands allowed): both runs are exact (value `val d + val o`, flags passed through) or
both return the same register and flags `±1`; these flags agree unless digits of `o ≠ o'` were dropped in the
branch `d.exp > o.exp` (then `d` is at least `LIM` units of the next decade above `o`'s unit).  `int16` does not
wrap for exponents in `[-16000, 16000]`. -/
theorem add_congr (d d' o o' : decomposed192) (t t' : Int8)
    (hd : val d = val d') (ho : val o = val o')
    (hdS : d = d' ∨ (d.sig.toNat < 10 * LIM ∧ d'.sig.toNat < 10 * LIM))
    (hoS : o = o' ∨ (o.sig.toNat < 10 * LIM ∧ o'.sig.toNat < 10 * LIM))
    (h1 : -16000 ≤ d.exp.toInt ∧ d.exp.toInt ≤ 16000) (h2 : -16000 ≤ o.exp.toInt ∧ o.exp.toInt ≤ 16000)
    (h1' : -16000 ≤ d'.exp.toInt ∧ d'.exp.toInt ≤ 16000)
    (h2' : -16000 ≤ o'.exp.toInt ∧ o'.exp.toInt ≤ 16000) :
    ∃ r t1 r' t1', decomposed192.add d o t = .ok (r, t1) ∧ decomposed192.add d' o' t' = .ok (r', t1') ∧
      ((val r = val d + val o ∧ val r' = val d + val o ∧ t1 = t ∧ t1' = t') ∨
       (r = r' ∧ (t1 = 1 ∨ t1 = -1) ∧ (t1' = 1 ∨ t1' = -1) ∧
          (t1 = t1' ∨ (o ≠ o' ∧ (LIM : ℚ) * (10 : ℚ) ^ (o.exp.toInt + 1) ≤ val d ∧
            (LIM : ℚ) * (10 : ℚ) ^ (o'.exp.toInt + 1) ≤ val d')))) ∧
      (min d.exp.toInt o.exp.toInt ≤ r.exp.toInt ∧ r.exp.toInt ≤ max d.exp.toInt o.exp.toInt + 1) ∧
      (min d'.exp.toInt o'.exp.toInt ≤ r'.exp.toInt ∧ r'.exp.toInt ≤ max d'.exp.toInt o'.exp.toInt + 1) := by
  obtain ⟨r, t1, a, m, hr, hn⟩ := add_nf d o t h1 h2
  obtain ⟨r', t1', a', m', hr', hn'⟩ := add_nf d' o' t' h1' h2'
  exact ⟨r, t1, r', t1', hr, hr', (nf_congr hn hn' hd ho hdS hoS).1, hn.exp_window, hn'.exp_window⟩

/-! ### corollaries used by the callers -/

theorem AddNF.ub_d {d o : decomposed192} {t : Int8} {r : decomposed192} {t1 : Int8} {a m : Nat}
    (h : AddNF d o t r t1 a m) : ∀ f, FullAt d f → f ≤ mu d o + a := h.2.2.2.2.2.2.2.1

theorem AddNF.ub_o {d o : decomposed192} {t : Int8} {r : decomposed192} {t1 : Int8} {a m : Nat}
    (h : AddNF d o t r t1 a m) : ∀ f, FullAt o f → f ≤ mu d o + a := h.2.2.2.2.2.2.2.2.1

/-- the weak form: results of equal value; identical registers unless both runs are exact -/
theorem add_congr_val (d d' o o' : decomposed192) (t t' : Int8)
    (hd : val d = val d') (ho : val o = val o')
    (hdS : d = d' ∨ (d.sig.toNat < 10 * LIM ∧ d'.sig.toNat < 10 * LIM))
    (hoS : o = o' ∨ (o.sig.toNat < 10 * LIM ∧ o'.sig.toNat < 10 * LIM))
    (h1 : -16000 ≤ d.exp.toInt ∧ d.exp.toInt ≤ 16000) (h2 : -16000 ≤ o.exp.toInt ∧ o.exp.toInt ≤ 16000)
    (h1' : -16000 ≤ d'.exp.toInt ∧ d'.exp.toInt ≤ 16000)
    (h2' : -16000 ≤ o'.exp.toInt ∧ o'.exp.toInt ≤ 16000) :
    ∃ r t1 r' t1', decomposed192.add d o t = .ok (r, t1) ∧ decomposed192.add d' o' t' = .ok (r', t1') ∧
      val r = val r' ∧ (r = r' ∨ (val r = val d + val o ∧ t1 = t ∧ t1' = t')) ∧
      (min d.exp.toInt o.exp.toInt ≤ r.exp.toInt ∧ r.exp.toInt ≤ max d.exp.toInt o.exp.toInt + 1) ∧
      (min d'.exp.toInt o'.exp.toInt ≤ r'.exp.toInt ∧ r'.exp.toInt ≤ max d'.exp.toInt o'.exp.toInt + 1) := by
  obtain ⟨r, t1, r', t1', hr, hr', h, w, w'⟩ := add_congr d d' o o' t t' hd ho hdS hoS h1 h2 h1' h2'
  refine ⟨r, t1, r', t1', hr, hr', ?_, ?_, w, w'⟩
  · rcases h with ⟨a, b, -⟩ | ⟨a, -⟩
    · rw [a, b]
    · rw [a]
  · rcases h with ⟨a, b, c, e⟩ | ⟨a, -⟩
    · exact Or.inr ⟨a, c, e⟩
    · exact Or.inl a

/-- **second operand identical**, same incoming flag: equal values, EQUAL FLAGS, identical registers unless exact -/
theorem add_congr_o_id (d d' o : decomposed192) (t : Int8) (hd : val d = val d')
    (hdS : d = d' ∨ (d.sig.toNat < 10 * LIM ∧ d'.sig.toNat < 10 * LIM))
    (h1 : -16000 ≤ d.exp.toInt ∧ d.exp.toInt ≤ 16000) (h2 : -16000 ≤ o.exp.toInt ∧ o.exp.toInt ≤ 16000)
    (h1' : -16000 ≤ d'.exp.toInt ∧ d'.exp.toInt ≤ 16000) :
    ∃ r r' t1, decomposed192.add d o t = .ok (r, t1) ∧ decomposed192.add d' o t = .ok (r', t1) ∧
      val r = val r' ∧ (r = r' ∨ (val r = val d + val o ∧ t1 = t)) ∧
      (min d.exp.toInt o.exp.toInt ≤ r.exp.toInt ∧ r.exp.toInt ≤ max d.exp.toInt o.exp.toInt + 1) ∧
      (min d'.exp.toInt o.exp.toInt ≤ r'.exp.toInt ∧ r'.exp.toInt ≤ max d'.exp.toInt o.exp.toInt + 1) := by
  obtain ⟨r, t1, r', t1', hr, hr', h, w, w'⟩ :=
    add_congr d d' o o t t hd rfl hdS (Or.inl rfl) h1 h2 h1' h2
  rcases h with ⟨a, b, c, e⟩ | ⟨a, b, c, e⟩
  · exact ⟨r, r', t1, hr, by rw [hr', c, e], by rw [a, b], Or.inr ⟨a, c⟩, w, w'⟩
  · have : t1 = t1' := e.resolve_right (fun h => h.1 rfl)
    exact ⟨r, r', t1, hr, by rw [hr', this], by rw [a], Or.inl a, w, w'⟩

/-- **second operand identical and at least `LIM`** (any size up to `2^192`): `o` cannot be scaled, so the operands are
aligned at `o`'s unit or at the full-width form of `d` — `add` does not see the representation of `d` at all -/
theorem add_congr_o_full (d d' o : decomposed192) (t : Int8) (hd : val d = val d')
    (hdS : d = d' ∨ (d.sig.toNat < 10 * LIM ∧ d'.sig.toNat < 10 * LIM)) (hO : LIM ≤ o.sig.toNat)
    (h1 : -16000 ≤ d.exp.toInt ∧ d.exp.toInt ≤ 16000) (h2 : -16000 ≤ o.exp.toInt ∧ o.exp.toInt ≤ 16000)
    (h1' : -16000 ≤ d'.exp.toInt ∧ d'.exp.toInt ≤ 16000) :
    decomposed192.add d o t = decomposed192.add d' o t := by
  obtain ⟨r, t1, a, m, hr, hn⟩ := add_nf d o t h1 h2
  obtain ⟨r', t1', a', m', hr', hn'⟩ := add_nf d' o t h1' h2
  have hf : FullAt o o.exp.toInt := FullAt.of_ge hO
  have b1 := hn.ub_o _ hf
  have b2 := hn'.ub_o _ hf
  have hE : mu d o + a = mu d' o + a' := by
    rcases nf_E_cases hn hn' hd rfl hdS (Or.inl rfl) with h | ⟨h, h0⟩ | ⟨h, h0⟩
    · exact h
    · unfold mu at *; omega
    · unfold mu at *; omega
  obtain ⟨h, hrr⟩ := nf_congr hn hn' hd rfl hdS (Or.inl rfl)
  have hrr := hrr hE
  have htt : t1 = t1' := by
    rcases h with ⟨_, _, c, e⟩ | ⟨_, _, _, e⟩
    · rw [c, e]
    · exact e.resolve_right (fun h => h.1 rfl)
  rw [hr, hr', hrr, htt]

/-- **first operand identical and at least `LIM`**: the same register outright; flags as in `add_congr` -/
theorem add_congr_d_full (d o o' : decomposed192) (t t' : Int8) (ho : val o = val o')
    (hoS : o = o' ∨ (o.sig.toNat < 10 * LIM ∧ o'.sig.toNat < 10 * LIM)) (hD : LIM ≤ d.sig.toNat)
    (h1 : -16000 ≤ d.exp.toInt ∧ d.exp.toInt ≤ 16000) (h2 : -16000 ≤ o.exp.toInt ∧ o.exp.toInt ≤ 16000)
    (h2' : -16000 ≤ o'.exp.toInt ∧ o'.exp.toInt ≤ 16000) :
    ∃ r t1 t1', decomposed192.add d o t = .ok (r, t1) ∧ decomposed192.add d o' t' = .ok (r, t1') ∧
      ((val r = val d + val o ∧ t1 = t ∧ t1' = t') ∨
       ((t1 = 1 ∨ t1 = -1) ∧ (t1' = 1 ∨ t1' = -1) ∧
          (t1 = t1' ∨ (o ≠ o' ∧ (LIM : ℚ) * (10 : ℚ) ^ (o.exp.toInt + 1) ≤ val d ∧
            (LIM : ℚ) * (10 : ℚ) ^ (o'.exp.toInt + 1) ≤ val d)))) ∧
      (min d.exp.toInt o.exp.toInt ≤ r.exp.toInt ∧ r.exp.toInt ≤ max d.exp.toInt o.exp.toInt + 1) ∧
      (min d.exp.toInt o'.exp.toInt ≤ r.exp.toInt ∧ r.exp.toInt ≤ max d.exp.toInt o'.exp.toInt + 1) := by
  obtain ⟨r, t1, a, m, hr, hn⟩ := add_nf d o t h1 h2
  obtain ⟨r', t1', a', m', hr', hn'⟩ := add_nf d o' t' h1 h2'
  have hf : FullAt d d.exp.toInt := FullAt.of_ge hD
  have b1 := hn.ub_d _ hf
  have b2 := hn'.ub_d _ hf
  have hE : mu d o + a = mu d o' + a' := by
    rcases nf_E_cases hn hn' rfl ho (Or.inl rfl) hoS with h | ⟨h, h0⟩ | ⟨h, h0⟩
    · exact h
    · unfold mu at *; omega
    · unfold mu at *; omega
  obtain ⟨h, hrr⟩ := nf_congr hn hn' rfl ho (Or.inl rfl) hoS
  have hrr := hrr hE
  subst hrr
  refine ⟨r, t1, t1', hr, hr', ?_, hn.exp_window, hn'.exp_window⟩
  rcases h with ⟨a, _, c, e⟩ | ⟨_, b, c, e⟩
  · exact Or.inl ⟨a, c, e⟩
  · exact Or.inr ⟨b, c, e⟩

/-- **first operand identical**: equal values; identical registers unless both runs are exact -/
theorem add_congr_d_id (d o o' : decomposed192) (t t' : Int8) (ho : val o = val o')
    (hoS : o = o' ∨ (o.sig.toNat < 10 * LIM ∧ o'.sig.toNat < 10 * LIM))
    (h1 : -16000 ≤ d.exp.toInt ∧ d.exp.toInt ≤ 16000) (h2 : -16000 ≤ o.exp.toInt ∧ o.exp.toInt ≤ 16000)
    (h2' : -16000 ≤ o'.exp.toInt ∧ o'.exp.toInt ≤ 16000) :
    ∃ r t1 r' t1', decomposed192.add d o t = .ok (r, t1) ∧ decomposed192.add d o' t' = .ok (r', t1') ∧
      val r = val r' ∧
      ((val r = val d + val o ∧ val r' = val d + val o ∧ t1 = t ∧ t1' = t') ∨
       (r = r' ∧ (t1 = 1 ∨ t1 = -1) ∧ (t1' = 1 ∨ t1' = -1) ∧
          (t1 = t1' ∨ (o ≠ o' ∧ (LIM : ℚ) * (10 : ℚ) ^ (o.exp.toInt + 1) ≤ val d ∧
            (LIM : ℚ) * (10 : ℚ) ^ (o'.exp.toInt + 1) ≤ val d)))) ∧
      (min d.exp.toInt o.exp.toInt ≤ r.exp.toInt ∧ r.exp.toInt ≤ max d.exp.toInt o.exp.toInt + 1) ∧
      (min d.exp.toInt o'.exp.toInt ≤ r'.exp.toInt ∧ r'.exp.toInt ≤ max d.exp.toInt o'.exp.toInt + 1) := by
  obtain ⟨r, t1, r', t1', hr, hr', h, w, w'⟩ :=
    add_congr d d o o' t t' rfl ho (Or.inl rfl) hoS h1 h2 h1 h2'
  refine ⟨r, t1, r', t1', hr, hr', ?_, h, w, w'⟩
  rcases h with ⟨a, b, -⟩ | ⟨a, -⟩
  · rw [a, b]
  · rw [a]

/-- **`d` dominates**: the scaling loops bring `d` to full width at an exponent `f` above both `o.exp` and `o'.exp`
(`FullAt d f`; by `FullAt.congr` the same `f` serves `d'`).  Then both runs align at the same exponent and return the SAME
register outright; flags as in `add_congr`. -/
theorem add_congr_dom (d d' o o' : decomposed192) (t t' : Int8)
    (hd : val d = val d') (ho : val o = val o')
    (hdS : d = d' ∨ (d.sig.toNat < 10 * LIM ∧ d'.sig.toNat < 10 * LIM))
    (hoS : o = o' ∨ (o.sig.toNat < 10 * LIM ∧ o'.sig.toNat < 10 * LIM))
    (f : Int) (hf : FullAt d f) (hfo : o.exp.toInt < f) (hfo' : o'.exp.toInt < f)
    (h1 : -16000 ≤ d.exp.toInt ∧ d.exp.toInt ≤ 16000) (h2 : -16000 ≤ o.exp.toInt ∧ o.exp.toInt ≤ 16000)
    (h1' : -16000 ≤ d'.exp.toInt ∧ d'.exp.toInt ≤ 16000)
    (h2' : -16000 ≤ o'.exp.toInt ∧ o'.exp.toInt ≤ 16000) :
    ∃ r t1 t1', decomposed192.add d o t = .ok (r, t1) ∧ decomposed192.add d' o' t' = .ok (r, t1') ∧
      ((val r = val d + val o ∧ t1 = t ∧ t1' = t') ∨
       ((t1 = 1 ∨ t1 = -1) ∧ (t1' = 1 ∨ t1' = -1) ∧
          (t1 = t1' ∨ (o ≠ o' ∧ (LIM : ℚ) * (10 : ℚ) ^ (o.exp.toInt + 1) ≤ val d ∧
            (LIM : ℚ) * (10 : ℚ) ^ (o'.exp.toInt + 1) ≤ val d')))) ∧
      (f ≤ r.exp.toInt ∧ r.exp.toInt ≤ max d.exp.toInt o.exp.toInt + 1 ∧
        r.exp.toInt ≤ max d'.exp.toInt o'.exp.toInt + 1) := by
  obtain ⟨r, t1, a, m, hr, hn⟩ := add_nf d o t h1 h2
  obtain ⟨r', t1', a', m', hr', hn'⟩ := add_nf d' o' t' h1' h2'
  have b1 := hn.ub_d _ hf
  have b2 := hn'.ub_d _ (hf.congr hd hdS)
  have hE : mu d o + a = mu d' o' + a' := by
    rcases nf_E_cases hn hn' hd ho hdS hoS with h | ⟨h, h0⟩ | ⟨h, h0⟩
    · exact h
    · unfold mu at *; omega
    · unfold mu at *; omega
  obtain ⟨h, hrr⟩ := nf_congr hn hn' hd ho hdS hoS
  have hrr := hrr hE
  subst hrr
  refine ⟨r, t1, t1', hr, hr', ?_, ?_⟩
  · rcases h with ⟨a, _, c, e⟩ | ⟨_, b, c, e⟩
    · exact Or.inl ⟨a, c, e⟩
    · exact Or.inr ⟨b, c, e⟩
  · have w := hn.exp_window
    have w' := hn'.exp_window
    refine ⟨?_, w.2, w'.2⟩
    have := hn.2.2.1
    omega

/-- equal alignment exponents: the same aligned sum -/
theorem nf_same_S {d d' o o' : decomposed192} {a a' : Nat} (hd : val d = val d') (ho : val o = val o')
    (hE : mu d o + a = mu d' o' + a') : NN d' o' / 10 ^ a' = NN d o / 10 ^ a := by
  have hV : ((NN d o : Nat) : ℚ) * (10 : ℚ) ^ mu d o = ((NN d' o' : Nat) : ℚ) * (10 : ℚ) ^ mu d' o' := by
    rw [NN_val, NN_val, hd, ho]
  rcases le_total (mu d' o') (mu d o) with hle | hle
  · have hP := q_eq_nat hV hle
    have ha : a' = a + (mu d o - mu d' o').toNat := by omega
    rw [hP, ha, Nat.pow_add, Nat.mul_div_mul_right _ _ (by positivity)]
  · have hP := q_eq_nat hV.symm hle
    have ha : a = a' + (mu d' o' - mu d o).toNat := by omega
    rw [hP, ha, Nat.pow_add, Nat.mul_div_mul_right _ _ (by positivity)]

/-- the result of `add` never exceeds the exact sum -/
theorem AddNF.val_le {d o : decomposed192} {t : Int8} {r : decomposed192} {t1 : Int8} {a m : Nat}
    (h : AddNF d o t r t1 a m) : val r ≤ val d + val o := by
  obtain ⟨hm, hs, he, -⟩ := h
  rw [← NN_val]
  unfold val
  rw [hs, he, show mu d o + (a : Int) + (m : Int) = mu d o + ((a + m : Nat) : Int) by push_cast; ring]
  exact (trunc_val (NN d o) (a + m) (mu d o)).1

/-- **`d` dominates from far**: `FullAt d f` with `o.exp + 58 ≤ f`, `o'.exp + 58 ≤ f`, `o`, `o'` non-zero: all digits of
`o` (resp. `o'`) are dropped by the `exp > 57` shortcut, which writes `-1` whatever the incoming flag: the same register
AND the same flag, for any `t`, `t'`, also for `o ≠ o'`. -/
theorem add_congr_dom_far (d d' o o' : decomposed192) (t t' : Int8)
    (hd : val d = val d') (ho : val o = val o')
    (hdS : d = d' ∨ (d.sig.toNat < 10 * LIM ∧ d'.sig.toNat < 10 * LIM))
    (hoS : o = o' ∨ (o.sig.toNat < 10 * LIM ∧ o'.sig.toNat < 10 * LIM))
    (f : Int) (hf : FullAt d f) (ho0 : o.sig.toNat ≠ 0) (ho0' : o'.sig.toNat ≠ 0)
    (hfar : o.exp.toInt + 58 ≤ f) (hfar' : o'.exp.toInt + 58 ≤ f)
    (h1 : -16000 ≤ d.exp.toInt ∧ d.exp.toInt ≤ 16000) (h2 : -16000 ≤ o.exp.toInt ∧ o.exp.toInt ≤ 16000)
    (h1' : -16000 ≤ d'.exp.toInt ∧ d'.exp.toInt ≤ 16000)
    (h2' : -16000 ≤ o'.exp.toInt ∧ o'.exp.toInt ≤ 16000) :
    ∃ r t1, decomposed192.add d o t = .ok (r, t1) ∧ decomposed192.add d' o' t' = .ok (r, t1) ∧
      (t1 = 1 ∨ t1 = -1) ∧ val r ≤ val d + val o ∧ val r ≠ val d + val o ∧
      (f ≤ r.exp.toInt ∧ r.exp.toInt ≤ max d.exp.toInt o.exp.toInt + 1 ∧
        r.exp.toInt ≤ max d'.exp.toInt o'.exp.toInt + 1) := by
  obtain ⟨r, t1, a, m, hr, hn⟩ := add_nf d o t h1 h2
  obtain ⟨r', t1', a', m', hr', hn'⟩ := add_nf d' o' t' h1' h2'
  have hf' := hf.congr hd hdS
  have b1 := hn.ub_d _ hf
  have b2 := hn'.ub_d _ hf'
  have e1 := hf.le_exp
  have e2 := hf'.le_exp
  have hE : mu d o + a = mu d' o' + a' := by
    rcases nf_E_cases hn hn' hd ho hdS hoS with h | ⟨h, h0⟩ | ⟨h, h0⟩
    · exact h
    · unfold mu at *; omega
    · unfold mu at *; omega
  have hrr := (nf_congr hn hn' hd ho hdS hoS).2 hE
  subst hrr
  have hmm : m = m' := by have := hn.2.2.1; have := hn'.2.2.1; omega
  subst hmm
  have hSS := nf_same_S (a := a) (a' := a') hd ho hE
  -- the flag left by the alignment is `-1` in both runs
  have key : ∀ (x y : decomposed192) (c : Nat) (s : Int8), y.sig.toNat ≠ 0 → y.exp.toInt < x.exp.toInt →
      mu x y + 58 ≤ mu x y + c → alFlag x y c s = -1 ∧ y.sig.toNat % 10 ^ c ≠ 0 := by
    intro x y c s hy hlt hc
    have hc' : 58 ≤ c := by omega
    refine ⟨?_, ?_⟩
    · unfold alFlag addFlagPos
      rw [if_neg (by omega), if_pos (by omega), if_neg hy]
    · rw [(drop_all _ c (U192.toNat_lt _) hc').2]; exact hy
  have hmu : mu d o = o.exp.toInt := by unfold mu; omega
  have hmu' : mu d' o' = o'.exp.toInt := by unfold mu; omega
  obtain ⟨k1, z1⟩ := key d o a t ho0 (by omega) (by omega)
  obtain ⟨k2, z2⟩ := key d' o' a' t' ho0' (by omega) (by omega)
  have ht := hn.2.2.2.2.2.2.2.2.2
  have ht' := hn'.2.2.2.2.2.2.2.2.2
  rw [k1] at ht
  rw [k2, hSS] at ht'
  have hz : NN d o % 10 ^ (a + m) ≠ 0 := by
    intro h
    have := ((mod_pow_add _ _ _).mp h).1
    rw [NN_mod d o a hn.2.2.2.2.2.1, if_neg (by omega)] at this
    exact z1 this
  refine ⟨r, t1, hr, by rw [hr', ht', ← ht], hn.flag_inexact hz, hn.val_le,
    fun h => hz (hn.exact_iff.mp h), ?_, hn.exp_window.2, hn'.exp_window.2⟩
  have := hn.2.2.1
  omega

/-! ### two values that fit jointly into the working precision are added exactly -/

theorem lim_exp_lt {v : ℚ} {x y : Int} (h1 : (LIM : ℚ) * (10 : ℚ) ^ x ≤ v) (h2 : v < (LIM : ℚ) * (10 : ℚ) ^ y) :
    x < y := by
  by_contra hc
  have h10 : (10 : ℚ) ^ y ≤ (10 : ℚ) ^ x := zpow_le_zpow_right₀ (by norm_num) (by omega)
  have hL : (0 : ℚ) < (LIM : ℚ) := by exact_mod_cast (show 0 < LIM by unfold LIM; norm_num)
  nlinarith

/-- **exact addition**: if `val d = A·10^E`, `val o = B·10^E` with `A + B < LIM`, then for ANY representations of the two
operands (over-full ones included) `add` returns the exact sum and passes the flag through: only zeros are dropped -/
theorem add_exact_of_fit (d o : decomposed192) (t : Int8) (E0 : Int) (A B : Nat)
    (hA : val d = (A : ℚ) * (10 : ℚ) ^ E0) (hB : val o = (B : ℚ) * (10 : ℚ) ^ E0) (hfit : A + B < LIM)
    (h1 : -16000 ≤ d.exp.toInt ∧ d.exp.toInt ≤ 16000) (h2 : -16000 ≤ o.exp.toInt ∧ o.exp.toInt ≤ 16000) :
    ∃ r, decomposed192.add d o t = .ok (r, t) ∧ val r = val d + val o ∧
      (min d.exp.toInt o.exp.toInt ≤ r.exp.toInt ∧ r.exp.toInt ≤ max d.exp.toInt o.exp.toInt + 1) := by
  obtain ⟨r, t1, a, m, hr, hn⟩ := add_nf d o t h1 h2
  have hV : ((NN d o : Nat) : ℚ) * (10 : ℚ) ^ mu d o = ((A + B : Nat) : ℚ) * (10 : ℚ) ^ E0 := by
    rw [NN_val, hA, hB]; push_cast; ring
  have hp : (0 : ℚ) < (10 : ℚ) ^ E0 := zpow_pos (by norm_num) _
  have hdlt : val d < (LIM : ℚ) * (10 : ℚ) ^ E0 := by
    rw [hA]; exact mul_lt_mul_of_pos_right (by exact_mod_cast (show A < LIM by omega)) hp
  have holt : val o < (LIM : ℚ) * (10 : ℚ) ^ E0 := by
    rw [hB]; exact mul_lt_mul_of_pos_right (by exact_mod_cast (show B < LIM by omega)) hp
  have ha : a = 0 ∨ mu d o + a < E0 := by
    rcases hn.2.2.2.2.2.2.1 with h0 | hf | hf
    · exact Or.inl h0
    · exact Or.inr (lim_exp_lt hf.val_ge hdlt)
    · exact Or.inr (lim_exp_lt hf.val_ge holt)
  have hm : m ≤ 1 := hn.1
  have hz : NN d o % 10 ^ (a + m) = 0 := by
    rcases lt_or_ge (mu d o) E0 with hlt | hge
    · have hP := q_eq_nat hV.symm (le_of_lt hlt)
      rw [hP]
      refine Nat.mod_eq_zero_of_dvd (Dvd.dvd.mul_left (Nat.pow_dvd_pow _ ?_) _)
      rcases ha with h0 | h0 <;> omega
    · have hP := q_eq_nat hV hge
      have ha0 : a = 0 := by rcases ha with h0 | h0 <;> omega
      subst ha0
      have hle : NN d o ≤ A + B := by
        rw [hP]; exact Nat.le_mul_of_pos_right _ (by positivity)
      have hL : LIM < 2 ^ 192 := by unfold LIM; norm_num
      have hm0 : m = 0 := by
        rcases hn.2.2.2.2.1 with h0 | h0
        · exact h0
        · rw [Nat.pow_zero, Nat.div_one] at h0; omega
      subst hm0
      simp [Nat.mod_one]
  exact ⟨r, by rw [hr, hn.flag_exact hz], hn.exact_iff.mpr hz, hn.exp_window⟩

/-! ### observations by evaluation, and the hypotheses are satisfiable -/

/-- run `add`, return `(sig, exp, flag)` -/
def runAdd (d o : decomposed192) (t : Int8) : Option (Nat × Int × Int) :=
  match decomposed192.add d o t with
  | .ok (r, t') => some (r.sig.toNat, r.exp.toInt, t'.toInt)
  | .error _ => none

-- OBSERVATION 1 (over-full operand): `d = ⟨10·LIM, 5⟩` and `d' = ⟨LIM, 6⟩` have the same value, `o = ⟨7, 5⟩`:
-- the first run is the exact sum, the second one drops the `7` — `add` is not a function of the values.
#guard (U192.mk 0 0 18014398509481984000).toNat = 10 * LIM ∧ (U192.mk 0 0 1801439850948198400).toNat = LIM
#guard runAdd ⟨⟨0, 0, 18014398509481984000⟩, 5⟩ ⟨⟨7, 0, 0⟩, 5⟩ 0 = some (10 * LIM + 7, 5, 0)
#guard runAdd ⟨⟨0, 0, 1801439850948198400⟩, 6⟩ ⟨⟨7, 0, 0⟩, 5⟩ 0 = some (LIM, 6, 1)
-- OBSERVATION 2 (flags): `o = ⟨12, 0⟩` and `o' = ⟨12000, -3⟩` against the full-width `d = ⟨LIM, 1⟩`: the same register,
-- flag `+1` (one digit cut by the `div10` loop) against `-1` (four digits cut by the `div10000` loop)
#guard runAdd ⟨⟨0, 0, 1801439850948198400⟩, 1⟩ ⟨⟨12, 0, 0⟩, 0⟩ 0 = some (LIM + 1, 1, 1)
#guard runAdd ⟨⟨0, 0, 1801439850948198400⟩, 1⟩ ⟨⟨12000, 0, 0⟩, -3⟩ 0 = some (LIM + 1, 1, -1)

theorem ex_val : val ⟨⟨15, 0, 0⟩, -1⟩ = val ⟨⟨150, 0, 0⟩, -2⟩ := by
  show ((15 : ℕ) : ℚ) * (10 : ℚ) ^ (-1 : Int) = ((150 : ℕ) : ℚ) * (10 : ℚ) ^ (-2 : Int); norm_num

theorem ex_val' : val ⟨⟨12, 0, 0⟩, 0⟩ = val ⟨⟨12000, 0, 0⟩, -3⟩ := by
  show ((12 : ℕ) : ℚ) * (10 : ℚ) ^ (0 : Int) = ((12000 : ℕ) : ℚ) * (10 : ℚ) ^ (-3 : Int); norm_num

theorem ex_small (n : UInt64) : (U192.mk n 0 0).toNat < 10 * LIM := by
  have := n.toNat_lt
  simp only [U192.toNat, LIM, UInt64.toNat_zero]
  omega

/-- `1.5 + 12` against `1.50 + 12.000` -/
example := add_congr ⟨⟨15, 0, 0⟩, -1⟩ ⟨⟨150, 0, 0⟩, -2⟩ ⟨⟨12, 0, 0⟩, 0⟩ ⟨⟨12000, 0, 0⟩, -3⟩ 0 1 ex_val ex_val'
  (Or.inr ⟨ex_small _, ex_small _⟩) (Or.inr ⟨ex_small _, ex_small _⟩)
  (by decide) (by decide) (by decide) (by decide)
example := add_congr_val ⟨⟨15, 0, 0⟩, -1⟩ ⟨⟨150, 0, 0⟩, -2⟩ ⟨⟨12, 0, 0⟩, 0⟩ ⟨⟨12000, 0, 0⟩, -3⟩ 0 1 ex_val ex_val'
  (Or.inr ⟨ex_small _, ex_small _⟩) (Or.inr ⟨ex_small _, ex_small _⟩)
  (by decide) (by decide) (by decide) (by decide)
example := add_congr_o_id ⟨⟨15, 0, 0⟩, -1⟩ ⟨⟨150, 0, 0⟩, -2⟩ ⟨⟨12, 0, 0⟩, 0⟩ 0 ex_val
  (Or.inr ⟨ex_small _, ex_small _⟩) (by decide) (by decide) (by decide)
/-- `1.5 + LIM·10^-3` against `1.50 + LIM·10^-3` -/
example := add_congr_o_full ⟨⟨15, 0, 0⟩, -1⟩ ⟨⟨150, 0, 0⟩, -2⟩ ⟨⟨0, 0, 1801439850948198400⟩, -3⟩ 0 ex_val
  (Or.inr ⟨ex_small _, ex_small _⟩) (by decide) (by decide) (by decide) (by decide)
/-- the pair of OBSERVATION 2 -/
example := add_congr_d_full ⟨⟨0, 0, 1801439850948198400⟩, 1⟩ ⟨⟨12, 0, 0⟩, 0⟩ ⟨⟨12000, 0, 0⟩, -3⟩ 0 0 ex_val'
  (Or.inr ⟨ex_small _, ex_small _⟩) (by decide) (by decide) (by decide) (by decide)
example := add_congr_d_id ⟨⟨15, 0, 0⟩, -1⟩ ⟨⟨12, 0, 0⟩, 0⟩ ⟨⟨12000, 0, 0⟩, -3⟩ 0 1 ex_val'
  (Or.inr ⟨ex_small _, ex_small _⟩) (by decide) (by decide) (by decide)
/-- `1.50 + 12.000 = 13.5`, exactly, whatever the representations: `A = 150`, `B = 1200`, `E = -2` -/
example := add_exact_of_fit ⟨⟨150, 0, 0⟩, -2⟩ ⟨⟨12000, 0, 0⟩, -3⟩ 0 (-2) 150 1200
  (by show ((150 : ℕ) : ℚ) * (10 : ℚ) ^ (-2 : Int) = _; norm_num)
  (by show ((12000 : ℕ) : ℚ) * (10 : ℚ) ^ (-3 : Int) = _; norm_num)
  (by unfold LIM; norm_num) (by decide) (by decide)

/-- the pair of OBSERVATION 2 again: `d = ⟨LIM, 1⟩` dominates `12 = 12.000` -/
example := add_congr_dom ⟨⟨0, 0, 1801439850948198400⟩, 1⟩ ⟨⟨0, 0, 1801439850948198400⟩, 1⟩
  ⟨⟨12, 0, 0⟩, 0⟩ ⟨⟨12000, 0, 0⟩, -3⟩ 0 0 rfl ex_val' (Or.inl rfl) (Or.inr ⟨ex_small _, ex_small _⟩)
  _ (FullAt.of_ge (by decide)) (by decide) (by decide) (by decide) (by decide) (by decide) (by decide)

/-- `LIM·10^60 + 12` against `LIM·10^60 + 12.000`: all of `o` is below `d`'s last digit -/
example := add_congr_dom_far ⟨⟨0, 0, 1801439850948198400⟩, 60⟩ ⟨⟨0, 0, 1801439850948198400⟩, 60⟩
  ⟨⟨12, 0, 0⟩, 0⟩ ⟨⟨12000, 0, 0⟩, -3⟩ 0 1 rfl ex_val' (Or.inl rfl) (Or.inr ⟨ex_small _, ex_small _⟩)
  _ (FullAt.of_ge (by decide)) (by decide) (by decide) (by decide) (by decide)
  (by decide) (by decide) (by decide) (by decide)

end CohortElem
