/-
  D128/Proofs/Digits.lean — common layer for the digit-string core of the text formatting
  (Go source /repo/format.go, generated `D128/Gen/Format.lean`).  Used by `DigitsGen.lean`
  (`Decimal.digits`), `DigitsRound.lean` (`digits.round`), `DigitsParse.lean` (`parseFormat`) and by
  `D128/Props/C06.lean`, `D128/Props/C07.lean`.

  Part A (arrays / monad / fixed-width integers):
  * `Dg.at_`           : total read `v[t]?.getD 0` of a byte vector; `Dg.at_eq`, `Dg.at_set`
  * `Dg.vget_eq`, `Dg.vset_eq` : in-range `Go.vget`/`Go.vset` are `.ok …`
  * `Dg.vget_triple`, `Dg.vset_triple` (`@[spec]`)
  * `Dg.ok_of_triple`  : a triple `⦃True⦄ f ⦃⇓ r => Q r⦄` over `Go.GoM` gives `∃ r, f = .ok r ∧ Q r`
  * `Dg.bmod64`, `Dg.i64_add`, `Dg.i64_sub`, `Dg.i64_beq_zero`, `Dg.i64_eq_iff`, `Dg.u8_beq`
  * `Dg.pairs_tab`, `Dg.vget_pairs_eq`, `Dg.vget_pairs_triple` : the table `Gen.digitPairs`
  Part B (digit lists, the link to `Spec.natDigits` / `Spec.stripTrailingZeros`):
  * `Dg.ofMsd`         : value of a most-significant-first digit list (the fold used by `Spec.roundSlice`)
  * `Dg.foldl_msd`, `Dg.ofMsd_cons`, `Dg.ofMsd_append`, `Dg.ofMsd_snoc`, `Dg.ofMsd_lt`, `Dg.ofMsd_pos`,
    `Dg.ofMsd_replicate_zero`
  * `Dg.digitVal_digitChar`, `Dg.natDigits_eq`, `Dg.natDigits_zero`, `Dg.natDigits_lt`,
    `Dg.natDigits_ge` : unfolding of `Spec.natDigits` (= `toString`)
  * `Dg.natDigits_ofMsd` : a digit list without leading zero is the `natDigits` of its value
  * `Dg.strip_append_zeros`, `Dg.strip_id` : `Spec.stripTrailingZeros`
  * `Dg.sliceOf_of_msd` : `Spec.sliceOf (ofMsd M * 10^k) e = ⟨M, |M| + k + e⟩` for a normalised `M ≠ []`
  Part C (records):
  * `Dg.dv`, `Dg.isDig`, `Dg.msd` : digit value of a byte, ASCII digit, digit list of `dig[0..n)`
  * `Dg.WF`            : well-formed record; `Dg.slice` : the `Spec.Slice` a record denotes;
    `Dg.ExpOK` : exponent far from the `int` boundary
  * `Dg.msd_length`, `Dg.msd_getElem`, `Dg.msd_succ`, `Dg.msd_lt10`, `Dg.msd_congr`
  * `Dg.msd_eq_toList`, `Dg.slice_eq_toList` : the same in plain `Vector.toList` terms
-/
import Std.Tactic.Do
import Mathlib.Tactic.Ring
import Mathlib.Tactic.Linarith
import Mathlib.Data.List.Induction
import D128.Gen.Format
import D128.Spec.Text
import D128.Proofs.Words128

set_option autoImplicit false
set_option maxRecDepth 4096
open Std.Do

namespace Dg

/-! ## A. arrays and the monad -/

/-- total read of a byte array (0 outside) -/
def at_ {n : Nat} (v : Vector UInt8 n) (t : Nat) : UInt8 := v[t]?.getD 0

theorem at_eq {n : Nat} (v : Vector UInt8 n) (t : Nat) (h : t < n) : at_ v t = v[t] := by
  simp [at_, h]

theorem at_set {n : Nat} (v : Vector UInt8 n) (i : Nat) (x : UInt8) (h : i < n) (t : Nat) :
    at_ (v.set i x h) t = if t = i then x else at_ v t := by
  unfold at_
  rw [Vector.getElem?_set]
  by_cases e : i = t
  · subst e; simp
  · have : ¬ t = i := fun h => e h.symm
    simp [e, this]

theorem vget_eq {n : Nat} (v : Vector UInt8 n) (i : Int) (h0 : 0 ≤ i) (h1 : i.toNat < n) :
    Go.vget v i = .ok (at_ v i.toNat) := by
  unfold Go.vget at_
  rw [dif_pos ⟨h0, h1⟩]
  simp [h1]; rfl

theorem vset_eq {n : Nat} (v : Vector UInt8 n) (i : Int) (x : UInt8) (h0 : 0 ≤ i)
    (h1 : i.toNat < n) : Go.vset v i x = .ok (v.set i.toNat x h1) := by
  unfold Go.vset
  rw [dif_pos ⟨h0, h1⟩]; rfl

@[spec] theorem vget_triple {n : Nat} (v : Vector UInt8 n) (i : Int) :
    ⦃⌜0 ≤ i ∧ i.toNat < n⌝⦄ Go.vget v i ⦃⇓ r => ⌜r = at_ v i.toNat⌝⦄ := by
  mintro ⌜h⌝
  rw [vget_eq v i h.1 h.2]
  exact Triple.pure (m := Go.GoM) _ (by simp)

@[spec] theorem vset_triple {n : Nat} (v : Vector UInt8 n) (i : Int) (x : UInt8) :
    ⦃⌜0 ≤ i ∧ i.toNat < n⌝⦄ Go.vset v i x
    ⦃⇓ r => ⌜∀ t, at_ r t = if t = i.toNat then x else at_ v t⌝⦄ := by
  mintro ⌜h⌝
  rw [vset_eq v i x h.1 h.2]
  exact Triple.pure (m := Go.GoM) _ (by simp [at_set])

/-- A total-correctness triple over `Go.GoM` yields the result equation. -/
theorem ok_of_triple {α : Type} {f : Go.GoM α} {Q : α → Prop}
    (h : ⦃⌜True⌝⦄ f ⦃⇓ r => ⌜Q r⌝⦄) : ∃ r, f = .ok r ∧ Q r := by
  cases f with
  | error e => exact (h trivial).elim
  | ok v => exact ⟨v, rfl, h trivial⟩

/-! ## B. digit lists -/

/-- value of a most-significant-first digit list -/
def ofMsd (L : List Nat) : Nat := L.foldl (fun a d => a * 10 + d) 0

theorem foldl_msd (L : List Nat) (a : Nat) :
    L.foldl (fun a d => a * 10 + d) a = a * 10 ^ L.length + ofMsd L := by
  induction L generalizing a with
  | nil => simp [ofMsd]
  | cons x xs ih =>
    simp only [List.foldl_cons, List.length_cons, ofMsd]
    rw [ih (a * 10 + x), ih (0 * 10 + x)]
    ring

@[simp] theorem ofMsd_nil : ofMsd [] = 0 := rfl

theorem ofMsd_cons (x : Nat) (L : List Nat) : ofMsd (x :: L) = x * 10 ^ L.length + ofMsd L := by
  unfold ofMsd; rw [List.foldl_cons, foldl_msd]; simp [ofMsd]

theorem ofMsd_append (L M : List Nat) : ofMsd (L ++ M) = ofMsd L * 10 ^ M.length + ofMsd M := by
  unfold ofMsd; rw [List.foldl_append, foldl_msd]; rfl

theorem ofMsd_snoc (L : List Nat) (x : Nat) : ofMsd (L ++ [x]) = ofMsd L * 10 + x := by
  rw [ofMsd_append]; simp [ofMsd_cons]

theorem ofMsd_lt (L : List Nat) (h : ∀ x ∈ L, x < 10) : ofMsd L < 10 ^ L.length := by
  induction L with
  | nil => simp
  | cons x xs ih =>
    have hx : x < 10 := h x (by simp)
    have := ih (fun y hy => h y (by simp [hy]))
    rw [ofMsd_cons, List.length_cons, Nat.pow_succ]
    nlinarith [Nat.pow_pos (n := xs.length) (show 0 < 10 by decide)]

theorem ofMsd_pos (x : Nat) (L : List Nat) (hx : x ≠ 0) : 10 ^ L.length ≤ ofMsd (x :: L) := by
  rw [ofMsd_cons]
  have : 1 ≤ x := Nat.pos_of_ne_zero hx
  nlinarith [Nat.pow_pos (n := L.length) (show 0 < 10 by decide)]

theorem ofMsd_replicate_zero (k : Nat) : ofMsd (List.replicate k 0) = 0 := by
  induction k with
  | zero => rfl
  | succ k ih => rw [List.replicate_succ, ofMsd_cons, ih]; simp

theorem digitVal_digitChar (d : Nat) (h : d < 10) : Spec.digitVal d.digitChar = d := by
  unfold Spec.digitVal; exact Nat.toNat_digitChar_sub_48_of_lt_ten h

theorem natDigits_eq (n : Nat) (h : n ≠ 0) :
    Spec.natDigits n = (Nat.toDigits 10 n).map Spec.digitVal := by
  unfold Spec.natDigits
  simp [h]

theorem natDigits_zero : Spec.natDigits 0 = [] := by
  unfold Spec.natDigits; simp

theorem natDigits_lt (n : Nat) (h0 : n ≠ 0) (h : n < 10) : Spec.natDigits n = [n] := by
  rw [natDigits_eq n h0, Nat.toDigits_of_lt_base h]
  simp [digitVal_digitChar n h]

theorem natDigits_ge (n : Nat) (h : 10 ≤ n) :
    Spec.natDigits n = Spec.natDigits (n / 10) ++ [n % 10] := by
  have h1 : n ≠ 0 := by omega
  have h2 : n / 10 ≠ 0 := by omega
  rw [natDigits_eq n h1, natDigits_eq _ h2, Nat.toDigits_of_base_le (by decide) h]
  simp [digitVal_digitChar (n % 10) (Nat.mod_lt _ (by decide))]

/-- A digit list without leading zero is the decimal representation of its value. -/
theorem natDigits_ofMsd (L : List Nat) (h10 : ∀ x ∈ L, x < 10) (hh : L.head? ≠ some 0) :
    Spec.natDigits (ofMsd L) = L := by
  induction L using List.reverseRecOn with
  | nil => exact natDigits_zero
  | append_singleton L x ih =>
    have hx : x < 10 := h10 x (by simp)
    rw [ofMsd_snoc]
    cases L with
    | nil =>
      simp only [ofMsd_nil, Nat.zero_mul, Nat.zero_add, List.nil_append]
      have : x ≠ 0 := by simpa using hh
      exact natDigits_lt x this hx
    | cons y ys =>
      have hy : y ≠ 0 := by simpa using hh
      have hpos := ofMsd_pos y ys hy
      have h1 : 1 ≤ ofMsd (y :: ys) := Nat.le_trans (Nat.pow_pos (by decide)) hpos
      rw [natDigits_ge _ (by omega)]
      have e1 : (ofMsd (y :: ys) * 10 + x) / 10 = ofMsd (y :: ys) := by omega
      have e2 : (ofMsd (y :: ys) * 10 + x) % 10 = x := by omega
      rw [e1, e2, ih (fun z hz => h10 z (List.mem_append_left _ hz)) (by simpa using hy)]

theorem strip_append_zeros (M : List Nat) (k : Nat) (hl : M.getLast? ≠ some 0) :
    Spec.stripTrailingZeros (M ++ List.replicate k 0) = M := by
  unfold Spec.stripTrailingZeros
  rw [List.reverse_append, List.reverse_replicate]
  have h1 : ∀ (R : List Nat), R.head? ≠ some 0 →
      List.dropWhile (· == 0) (List.replicate k 0 ++ R) = R := by
    intro R hR
    induction k with
    | zero =>
      cases R with
      | nil => rfl
      | cons r rs =>
        have : r ≠ 0 := by simpa using hR
        simp [this]
    | succ k ih => simpa [List.replicate_succ, List.dropWhile_cons] using ih
  rw [h1 _ (by simpa [List.head?_reverse] using hl), List.reverse_reverse]

theorem strip_id (M : List Nat) (hl : M.getLast? ≠ some 0) : Spec.stripTrailingZeros M = M := by
  simpa using strip_append_zeros M 0 hl

/-- The slice of a coefficient given by a normalised digit list and a number of stripped zeros. -/
theorem sliceOf_of_msd (M : List Nat) (k : Nat) (e : Int) (hne : M ≠ []) (h10 : ∀ x ∈ M, x < 10)
    (hh : M.head? ≠ some 0) (hl : M.getLast? ≠ some 0) :
    Spec.sliceOf (ofMsd M * 10 ^ k) e = ⟨M, (M.length : Int) + k + e⟩ := by
  have hv : ofMsd (M ++ List.replicate k 0) = ofMsd M * 10 ^ k := by
    rw [ofMsd_append, ofMsd_replicate_zero]; simp
  have hpos : 0 < ofMsd M := by
    cases M with
    | nil => exact absurd rfl hne
    | cons y ys =>
      have hy : y ≠ 0 := by simpa using hh
      exact Nat.lt_of_lt_of_le (Nat.pow_pos (by decide)) (ofMsd_pos y ys hy)
  have hc : ofMsd M * 10 ^ k ≠ 0 :=
    Nat.ne_of_gt (Nat.mul_pos hpos (Nat.pow_pos (by decide)))
  have hnd : Spec.natDigits (ofMsd M * 10 ^ k) = M ++ List.replicate k 0 := by
    rw [← hv]
    apply natDigits_ofMsd
    · intro x hx
      rcases List.mem_append.mp hx with h | h
      · exact h10 x h
      · rw [(List.mem_replicate.mp h).2]; decide
    · cases M with
      | nil => exact absurd rfl hne
      | cons y ys => simpa using hh
  unfold Spec.sliceOf
  simp only [beq_iff_eq, hc, if_false, hnd, strip_append_zeros M k hl, List.length_append,
    List.length_replicate]
  congr 1

/-! ## fixed-width helpers -/

theorem bmod64 (x : Int) (h : -2^63 ≤ x) (h' : x < 2^63) : Int.bmod x (2^64) = x := by
  rw [Int.bmod_eq_emod]; split <;> omega

theorem i64_add (a b : Int64) (h : -2^63 ≤ a.toInt + b.toInt) (h' : a.toInt + b.toInt < 2^63) :
    (a + b).toInt = a.toInt + b.toInt := by
  rw [Int64.toInt_add]; exact bmod64 _ h h'

theorem i64_sub (a b : Int64) (h : -2^63 ≤ a.toInt - b.toInt) (h' : a.toInt - b.toInt < 2^63) :
    (a - b).toInt = a.toInt - b.toInt := by
  rw [Int64.toInt_sub]; exact bmod64 _ h h'

theorem i64_beq_zero (n : Int64) : (n == 0) = true ↔ n.toInt = 0 := by
  rw [beq_iff_eq, ← Int64.toInt_inj]; simp

theorem i64_eq_iff (a b : Int64) : a = b ↔ a.toInt = b.toInt := Int64.toInt_inj.symm

theorem u8_beq (x : UInt8) (v : Nat) (hv : v < 256) : (x == UInt8.ofNat v) = decide (x.toNat = v) := by
  by_cases h : x = UInt8.ofNat v
  · subst h; simp [Nat.mod_eq_of_lt hv]
  · have : x.toNat ≠ v := by
      intro e; apply h; apply UInt8.toNat_inj.mp; simp [e, Nat.mod_eq_of_lt hv]
    simp [h, this]

/-- the table of two-digit ASCII pairs -/
theorem pairs_tab : ∀ i : Fin 100, (Gen.digitPairs[i.val])[0].toNat = 48 + i.val / 10 ∧
    (Gen.digitPairs[i.val])[1].toNat = 48 + i.val % 10 := by decide

theorem vget_pairs_eq (rem : UInt64) (h : rem.toNat < 100) :
    ∃ a, Go.vget Gen.digitPairs (Go.idx rem) = .ok a ∧
      a[0].toNat = 48 + rem.toNat / 10 ∧ a[1].toNat = 48 + rem.toNat % 10 := by
  have h0 : (0 : Int) ≤ Go.idx rem := by
    show (0 : Int) ≤ (rem.toNat : Int); omega
  have h1 : (Go.idx rem).toNat < 100 := by
    show ((rem.toNat : Int)).toNat < 100; omega
  refine ⟨Gen.digitPairs[(Go.idx rem).toNat], ?_, ?_⟩
  · unfold Go.vget; rw [dif_pos ⟨h0, h1⟩]; rfl
  · have e : (Go.idx rem).toNat = rem.toNat := by
      show ((rem.toNat : Int)).toNat = rem.toNat; omega
    have := pairs_tab ⟨(Go.idx rem).toNat, h1⟩
    simpa [e] using this

@[spec] theorem vget_pairs_triple (rem : UInt64) :
    ⦃⌜rem.toNat < 100⌝⦄ Go.vget Gen.digitPairs (Go.idx rem)
    ⦃⇓ a => ⌜a[0].toNat = 48 + rem.toNat / 10 ∧ a[1].toNat = 48 + rem.toNat % 10⌝⦄ := by
  mintro ⌜h⌝
  obtain ⟨a, e, h0, h1⟩ := vget_pairs_eq rem h
  rw [e]
  exact Triple.pure (m := Go.GoM) _ (by simp [h0, h1])

/-! ## C. records -/

/-- digit value of an ASCII byte -/
def dv (b : UInt8) : Nat := b.toNat - 48

/-- ASCII digit -/
def isDig (b : UInt8) : Prop := 48 ≤ b.toNat ∧ b.toNat ≤ 57

/-- most-significant-first digit values of `dig[0..n)` -/
def msd {m : Nat} (dig : Vector UInt8 m) (n : Nat) : List Nat :=
  (List.range n).map (fun t => dv (at_ dig t))

/-- well-formed digit record: `0 ≤ ndig ≤ 39`, ASCII digits, no leading and no trailing zero -/
structure WF (r : Gen.digits) : Prop where
  n0 : 0 ≤ r.ndig.toInt
  n39 : r.ndig.toInt ≤ 39
  dig : ∀ t, t < r.ndig.toInt.toNat → isDig (at_ r.dig t)
  first : 0 < r.ndig.toInt → at_ r.dig 0 ≠ 48
  last : 0 < r.ndig.toInt → at_ r.dig (r.ndig.toInt.toNat - 1) ≠ 48

/-- the decimal slice a record denotes: digits `dig[0..ndig)`, point position `exp + ndig` -/
def slice (r : Gen.digits) : Spec.Slice :=
  ⟨msd r.dig r.ndig.toInt.toNat, r.exp.toInt + r.ndig.toInt⟩

/-- exponent far from the `int` boundary, so that `exp ± ndig` cannot wrap around (records produced
by `Decimal.digits` have `-6176 ≤ exp ≤ 10241`) -/
def ExpOK (d : Gen.digits) : Prop := -2 ^ 62 ≤ d.exp.toInt ∧ d.exp.toInt ≤ 2 ^ 62

theorem msd_length {m : Nat} (dig : Vector UInt8 m) (n : Nat) : (msd dig n).length = n := by
  simp [msd]

theorem msd_getElem {m : Nat} (dig : Vector UInt8 m) (n t : Nat) (h : t < (msd dig n).length) :
    (msd dig n)[t] = dv (at_ dig t) := by
  simp [msd]

theorem msd_succ {m : Nat} (dig : Vector UInt8 m) (n : Nat) :
    msd dig (n + 1) = msd dig n ++ [dv (at_ dig n)] := by
  simp [msd, List.range_succ]

theorem msd_lt10 {m : Nat} (dig : Vector UInt8 m) (n : Nat) (h : ∀ t, t < n → isDig (at_ dig t)) :
    ∀ x ∈ msd dig n, x < 10 := by
  intro x hx
  simp only [msd, List.mem_map, List.mem_range] at hx
  obtain ⟨t, ht, rfl⟩ := hx
  have := h t ht
  unfold isDig at this; unfold dv; omega

theorem msd_congr {m : Nat} (a b : Vector UInt8 m) (n : Nat) (h : ∀ t, t < n → at_ a t = at_ b t) :
    msd a n = msd b n := by
  unfold msd
  apply List.map_congr_left
  intro t ht
  rw [h t (List.mem_range.mp ht)]

/-- `msd` in plain list terms: the first `n` bytes of the array, minus `'0'` -/
theorem msd_eq_toList (dig : Vector UInt8 39) (n : Nat) (h : n ≤ 39) :
    msd dig n = (dig.toList.take n).map (fun b => b.toNat - 48) := by
  apply List.ext_getElem
  · simp [msd, h]
  · intro i h1 h2
    have hi : i < n := by simpa [msd] using h1
    simp only [msd, List.getElem_map, List.getElem_range, List.getElem_take, Vector.getElem_toList]
    rw [at_eq dig i (by omega)]; rfl

/-- the slice of a record in plain list terms -/
theorem slice_eq_toList (r : Gen.digits) (h0 : 0 ≤ r.ndig.toInt) (h : r.ndig.toInt ≤ 39) :
    slice r = ⟨(r.dig.toList.take r.ndig.toInt.toNat).map (fun b => b.toNat - 48),
      r.exp.toInt + r.ndig.toInt⟩ := by
  unfold slice
  rw [msd_eq_toList r.dig _ (by omega)]

end Dg
