/-
  D128/Proofs/EmitPad.lean — `Gen.digits.pad` (Go: `func (d *digits) pad(...)`, /repo/format.go) and the
  emitters `fmtE` / `fmtF` for EVERY width (used by `Decimal.format`, property C07).

  The generated `pad` is cut into `Emit.P.fill`, `grow`, `left`, `right`, `body` (text copied from the
  generated source, tied to it by `Emit.P.pad_eq : … := rfl`).

  * `Emit.P.fill_loop`, `fill_eq`, `grow_eq`, `right_eq` : the stages (`for i < p { buf[i] = padChar }`,
        `copy(buf[p:], buf[i:])`, growing the buffer with `make` + `copy`)
  * `Emit.P.padL`, `Emit.P.pad_spec`     : `pad` at byte level: no panic, loops terminate
  * `Emit.P.padS`, `Emit.P.padL_chars`   : the same on `sign ++ body` at character level
  * `Emit.P.fmtE_pad`, `Emit.P.fmtF_pad` : the emitters end in `pad` applied to `buf ++ eBytes/fBytes`
  * `Emit.P.fmtE_spec_pad`, `Emit.P.fmtF_spec_pad` : for every width `chars out = chars buf ++
        padS sign (Spec.layoutE/F …) width padRight padZero` — the padding of `Spec.fmtSpec`
        (`fmtSpec_pad_eq`) except that `-` together with `0` pads zeros on the right
-/
import D128.Proofs.EmitFmt
set_option autoImplicit false
namespace Emit
namespace P

def fill (d : Gen.digits) (padChar : UInt8) (buf : Go.Bytes) (p i_1 : Int64) :
    Go.GoM (Gen.digits × Go.Bytes) := do
  let t_3 ← Go.bsliceFrom buf (Go.idx p)
  let t_4 ← Go.bsliceFrom buf (Go.idx i_1)
  let __s ←
    forIn Lean.Loop.mk (Go.copyInto buf (Go.idx p) t_3 t_4, i_1)
      fun (_ : Unit) (__s : Go.Bytes × Int64) =>
        if decide (__s.snd < p) = true then do
          let t_5 ← Go.bset __s.fst (Go.idx __s.snd) padChar
          pure (ForInStep.yield (t_5, __s.snd + 1))
        else pure (ForInStep.done (__s.fst, __s.snd))
  pure (d, __s.fst)

def grow (d : Gen.digits) (padChar : UInt8) (buf : Go.Bytes) (width p i_1 : Int64) :
    Go.GoM (Gen.digits × Go.Bytes) :=
  if decide (Go.len buf < width) = true then
    if decide (Go.len buf < width) = true then do
      let t_1 ← Go.makeBytes (Go.idx width) (Go.idx width)
      fill d padChar (Go.copyInto t_1 0 t_1 buf) p i_1
    else do
      let t_2 ← Go.bslice buf 0 (Go.idx width)
      fill d padChar t_2 p i_1
  else fill d padChar buf p i_1

def left (d : Gen.digits) (padChar : UInt8) (buf : Go.Bytes) (start width p : Int64)
    (printSign padSign padZero : Bool) : Go.GoM (Gen.digits × Go.Bytes) :=
  if (padZero && (d.neg || printSign || padSign)) = true then
    grow d padChar buf (width + start) (p + start + 1) (start + 1)
  else grow d padChar buf (width + start) (p + start) start

def right (d : Gen.digits) (padChar : UInt8) (buf : Go.Bytes) (p : Int64) :
    Go.GoM (Gen.digits × Go.Bytes) := do
  let __s ←
    forIn Lean.Loop.mk (buf, (0 : Int64)) fun (_ : Unit) (__s : Go.Bytes × Int64) =>
        if decide (__s.snd < p) = true then
          pure (ForInStep.yield (Array.push __s.fst padChar, __s.snd + 1))
        else pure (ForInStep.done (__s.fst, __s.snd))
  pure (d, __s.fst)

def body (d : Gen.digits) (padChar : UInt8) (buf : Go.Bytes) (start width p : Int64)
    (printSign padSign padRight padZero : Bool) : Go.GoM (Gen.digits × Go.Bytes) :=
  if padRight = true then right d padChar buf p
  else left d padChar buf start width p printSign padSign padZero

theorem pad_eq (d : Gen.digits) (buf : Go.Bytes) (start width : Int64)
    (printSign padSign padRight padZero : Bool) :
    Gen.digits.pad d buf start width printSign padSign padRight padZero =
      if decide (width - (Go.len buf - start) ≤ 0) = true then pure (d, buf)
      else if padZero = true then
        body d 48 buf start width (width - (Go.len buf - start)) printSign padSign padRight padZero
      else body d 32 buf start width (width - (Go.len buf - start)) printSign padSign padRight padZero := rfl


/-! ## list lemmas -/

theorem set_take_succ (l : List UInt8) (i : Nat) (c : UInt8) (h : i < l.length) :
    (l.set i c).take (i + 1) = l.take i ++ [c] := by
  apply List.ext_getElem?
  intro j
  simp only [List.getElem?_take, List.getElem?_set, List.getElem?_append, List.length_take]
  by_cases h1 : j < i
  · have : j < i + 1 := by omega
    have h2 : ¬ i = j := by omega
    simp [h1, this, h2]; omega
  · by_cases h2 : j = i
    · subst h2
      have : j - min j l.length = 0 := by omega
      simp [h, this]
    · have : ¬ j < i + 1 := by omega
      simp [h1, this]
      have : j - min i l.length ≠ 0 := by omega
      cases hk : j - min i l.length with
      | zero => exact absurd hk this
      | succ k => simp

theorem set_drop (l : List UInt8) (i P : Nat) (c : UInt8) (h : i < P) :
    (l.set i c).drop P = l.drop P := by
  apply List.ext_getElem?
  intro j
  simp only [List.getElem?_drop, List.getElem?_set]
  have : ¬ i = P + j := by omega
  simp [this]

theorem bset_eq (b : Go.Bytes) (i : Int) (x : UInt8) (h0 : 0 ≤ i) (h1 : i.toNat < b.size) :
    Go.bset b i x = .ok (b.set i.toNat x h1) := by
  unfold Go.bset
  rw [dif_pos ⟨h0, h1⟩]; rfl

/-- body of `for i < p { buf[i] = padChar; i++ }` -/
def fillBody (c : UInt8) (P : Int64) : Unit → Go.Bytes × Int64 → Go.GoM (ForInStep (Go.Bytes × Int64)) :=
  fun _ s =>
    if decide (s.snd < P) = true then do
      let t_5 ← Go.bset s.fst (Go.idx s.snd) c
      pure (ForInStep.yield (t_5, s.snd + 1))
    else pure (ForInStep.done (s.fst, s.snd))

theorem fill_loop (c : UInt8) (P : Int64) (buf : Go.Bytes) (i : Int64) (h0 : 0 ≤ i.toInt)
    (hiP : i.toInt ≤ P.toInt) (hP : P.toInt.toNat ≤ buf.size) :
    ∃ out, forIn Lean.Loop.mk (buf, i) (fillBody c P) = .ok (out, P) ∧
      out.toList = buf.toList.take i.toInt.toNat ++ List.replicate (P.toInt - i.toInt).toNat c ++
        buf.toList.drop P.toInt.toNat := by
  generalize hm : (P.toInt - i.toInt).toNat = m
  induction m generalizing buf i with
  | zero =>
    have hi : i = P := Int64.toInt_inj.mp (by omega)
    have h : ¬ i < P := by rw [i64_lt_iff]; omega
    refine ⟨buf, ?_, ?_⟩
    · rw [loop_unfold]
      simp [fillBody, h]
      rw [hi]; rfl
    · rw [hi]; simp
  | succ m ih =>
    have h : i < P := by rw [i64_lt_iff]; omega
    have hlt := (i64_lt_iff i P).mp h
    have hN := P.toInt_lt
    have e1 : (i + 1).toInt = i.toInt + 1 := by
      rw [Dg.i64_add _ _ (by rw [i64_one]; omega) (by rw [i64_one]; omega), i64_one]
    have hlt' : i.toInt.toNat < buf.size := by omega
    have hb : fillBody c P () (buf, i) =
        .ok (ForInStep.yield (buf.set i.toInt.toNat c hlt', i + 1)) := by
      unfold fillBody
      simp only [h, decide_true, if_true]
      rw [bset_eq buf (Go.idx i) c h0 hlt']
      rfl
    obtain ⟨out, ho, hl⟩ := ih (buf.set i.toInt.toNat c hlt') (i + 1) (by omega) (by omega)
      (by rw [Array.size_set]; exact hP) (by omega)
    refine ⟨out, ?_, ?_⟩
    · rw [loop_unfold, hb]
      exact ho
    · rw [hl, e1]
      have e2 : (i.toInt + 1).toNat = i.toInt.toNat + 1 := by omega
      rw [e2, Array.toList_set, set_take_succ _ _ _ (by simpa using hlt'),
        set_drop _ _ _ _ (by omega), List.replicate_succ]
      simp


theorem shift_list (l : List UInt8) (I P : Nat) (hIP : I ≤ P) (hP : P ≤ l.length) (c : UInt8) :
    (l.take P ++ (l.drop I).take (l.length - P) ++ l.drop (P + (l.length - P))).take I ++
        List.replicate (P - I) c ++
      (l.take P ++ (l.drop I).take (l.length - P) ++ l.drop (P + (l.length - P))).drop P =
    l.take I ++ List.replicate (P - I) c ++ (l.drop I).take (l.length - P) := by
  have hlen : (l.take P).length = P := by simp; omega
  have hnil : l.drop (P + (l.length - P)) = [] := List.drop_of_length_le (by omega)
  rw [hnil, List.append_nil]
  congr 1
  · congr 1
    rw [List.take_append_of_le_length (by omega), List.take_take]
    congr 1; omega
  · rw [List.drop_append_of_le_length (by omega), List.drop_of_length_le (by omega), List.nil_append]

theorem extract_toList_from (b : Go.Bytes) (lo : Nat) :
    (b.extract lo b.size).toList = b.toList.drop lo := by
  rw [Array.toList_extract, List.extract_eq_take_drop, List.take_of_length_le (by simp)]

theorem extract_toList_to (b : Go.Bytes) (hi : Nat) :
    (b.extract 0 hi).toList = b.toList.take hi := by
  rw [Array.toList_extract, List.extract_eq_take_drop]; simp

theorem copyInto_shift (buf : Go.Bytes) (I P : Nat) (hIP : I ≤ P) (hP : P ≤ buf.size) :
    (Go.copyInto buf (P : Int) (buf.extract P buf.size) (buf.extract I buf.size)).toList =
      buf.toList.take P ++ (buf.toList.drop I).take (buf.toList.length - P) ++
        buf.toList.drop (P + (buf.toList.length - P)) := by
  unfold Go.copyInto
  have h1 : (buf.extract P buf.size).size = buf.size - P := by simp
  have h2 : (buf.extract I buf.size).size = buf.size - I := by simp
  rw [h1, h2, show min (buf.size - P) (buf.size - I) = buf.size - P by omega, Int.toNat_natCast,
    Array.toList_append, Array.toList_append, extract_toList_to, extract_toList_from,
    Array.length_toList]
  congr 2
  rw [extract_toList_to, extract_toList_from]

theorem bsliceFrom_eq' (b : Go.Bytes) (lo : Int) (h0 : 0 ≤ lo) (h1 : lo.toNat ≤ b.size) :
    Go.bsliceFrom b lo = .ok (b.extract lo.toNat b.size) := by
  unfold Go.bsliceFrom Go.bslice
  rw [if_pos ⟨h0, by omega, by simp⟩]
  simp
  rfl

/-- shifting the text right and filling the gap -/
theorem fill_eq (d : Gen.digits) (c : UInt8) (buf : Go.Bytes) (p i : Int64) (h0 : 0 ≤ i.toInt)
    (hip : i.toInt ≤ p.toInt) (hp : p.toInt.toNat ≤ buf.size) :
    ∃ out, fill d c buf p i = .ok (d, out) ∧
      out.toList = buf.toList.take i.toInt.toNat ++ List.replicate (p.toInt - i.toInt).toNat c ++
        (buf.toList.drop i.toInt.toNat).take (buf.size - p.toInt.toNat) := by
  have hpI : Go.idx p = ((p.toInt.toNat : Nat) : Int) := by show p.toInt = _; omega
  unfold fill
  rw [bsliceFrom_eq' buf (Go.idx p) (by show 0 ≤ p.toInt; omega) hp,
    bsliceFrom_eq' buf (Go.idx i) h0 (by show i.toInt.toNat ≤ _; omega)]
  simp only [Dg.ok_bind]
  have hX := copyInto_shift buf i.toInt.toNat p.toInt.toNat (by omega) hp
  have hXlen : (Go.copyInto buf (Go.idx p) (buf.extract (Go.idx p).toNat buf.size)
      (buf.extract (Go.idx i).toNat buf.size)).size = buf.size := by
    rw [← Array.length_toList, hpI]
    show (Go.copyInto buf _ (buf.extract p.toInt.toNat buf.size) (buf.extract i.toInt.toNat buf.size)).toList.length = _
    rw [hX]
    simp only [List.length_append, List.length_take, List.length_drop, Array.length_toList]; omega
  obtain ⟨out, ho, hl⟩ := fill_loop c p _ i h0 hip (by rw [hXlen]; exact hp)
  refine ⟨out, ?_, ?_⟩
  · show (forIn Lean.Loop.mk _ (fillBody c p) >>= fun __s => pure (d, __s.fst)) = _
    rw [ho]; rfl
  · rw [hl, hpI]
    show List.take _ (Go.copyInto buf _ (buf.extract p.toInt.toNat buf.size)
        (buf.extract i.toInt.toNat buf.size)).toList ++ _ ++ List.drop _ (Go.copyInto buf _
        (buf.extract p.toInt.toNat buf.size) (buf.extract i.toInt.toNat buf.size)).toList = _
    rw [hX]
    have := shift_list buf.toList i.toInt.toNat p.toInt.toNat (by omega) (by simpa using hp) c
    rw [Array.length_toList] at this ⊢
    have e : (p.toInt - i.toInt).toNat = p.toInt.toNat - i.toInt.toNat := by omega
    rw [e]; exact this

theorem makeBytes_eq (n : Int) (h : 0 ≤ n) : Go.makeBytes n n = .ok (Array.replicate n.toNat 0) := by
  unfold Go.makeBytes
  rw [if_pos ⟨h, Int.le_refl _⟩]; rfl

/-- growing the buffer to the final width, then shifting -/
theorem grow_eq (d : Gen.digits) (c : UInt8) (buf : Go.Bytes) (W p i : Int64) (h0 : 0 ≤ i.toInt)
    (hip : i.toInt ≤ p.toInt) (hiL : i.toInt.toNat ≤ buf.size) (hpW : p.toInt ≤ W.toInt)
    (hbW : buf.size < W.toInt.toNat) (hsz : buf.size < 2 ^ 62)
    (hshift : W.toInt.toNat - p.toInt.toNat = buf.size - i.toInt.toNat) :
    ∃ out, grow d c buf W p i = .ok (d, out) ∧
      out.toList = buf.toList.take i.toInt.toNat ++ List.replicate (p.toInt - i.toInt).toNat c ++
        buf.toList.drop i.toInt.toNat := by
  unfold grow
  have hlt : Go.len buf < W := by
    rw [i64_lt_iff, len_toInt buf (by omega)]; omega
  simp only [hlt, decide_true, if_true]
  rw [makeBytes_eq _ (by show 0 ≤ W.toInt; omega), Dg.ok_bind]
  generalize hB : Go.copyInto (Array.replicate (Go.idx W).toNat 0) 0 (Array.replicate (Go.idx W).toNat 0) buf = B
  have hBl : B.toList = buf.toList ++ List.replicate (W.toInt.toNat - buf.size) 0 := by
    rw [← hB]
    unfold Go.copyInto
    have : (Go.idx W).toNat = W.toInt.toNat := rfl
    simp only [this, Array.size_replicate, show min W.toInt.toNat buf.size = buf.size by omega,
      Int.toNat_zero, Nat.zero_add, Array.toList_append, extract_toList_to]
    rw [List.take_zero, List.nil_append, List.take_of_length_le (by simp), Array.toList_extract,
      List.extract_eq_take_drop, Array.toList_replicate, List.drop_replicate, List.take_replicate,
      Nat.min_self]
  have hBs : B.size = W.toInt.toNat := by
    rw [← Array.length_toList, hBl]
    simp only [List.length_append, List.length_replicate, Array.length_toList]; omega
  obtain ⟨out, ho, hl⟩ := fill_eq d c B p i h0 hip (by rw [hBs]; omega)
  refine ⟨out, ho, ?_⟩
  rw [hl, hBl, hBs, hshift]
  congr 1
  · congr 1
    rw [List.take_append_of_le_length (by simpa using hiL)]
  · rw [List.drop_append_of_le_length (by simpa using hiL), List.take_append_of_le_length (by simp),
      List.take_of_length_le (by simp)]


/-- what `pad` makes of the byte list `l` whose last `l.length - s` bytes are the text -/
def padL (l : List UInt8) (s w : Nat) (skip right : Bool) (c : UInt8) : List UInt8 :=
  if w ≤ l.length - s then l
  else if right then l ++ List.replicate (w - (l.length - s)) c
  else l.take (s + (if skip then 1 else 0)) ++ List.replicate (w - (l.length - s)) c ++
    l.drop (s + (if skip then 1 else 0))

theorem right_eq (d : Gen.digits) (c : UInt8) (buf : Go.Bytes) (p : Int64) :
    right d c buf p = .ok (d, buf ++ Array.replicate p.toInt.toNat c) := by
  unfold right
  rw [loop_up, i64_zero, Int.sub_zero]
  rfl

/-- **`digits.pad`**: nothing when the text is wide enough; otherwise `width − len` pad bytes (`0` with
`padZero`, else a space) on the right (`padRight`), or on the left — after the sign when padding with
zeros. -/
theorem pad_spec (d : Gen.digits) (buf : Go.Bytes) (start width : Int64)
    (printSign padSign padRight padZero : Bool)
    (hs0 : 0 ≤ start.toInt) (hsL : start.toInt.toNat ≤ buf.size)
    (hskip : (padZero && (d.neg || printSign || padSign)) = true → start.toInt.toNat + 1 ≤ buf.size)
    (hw0 : 0 ≤ width.toInt) (hsz : buf.size < 2 ^ 61) (hw : width.toInt < 2 ^ 61) :
    ∃ out, Gen.digits.pad d buf start width printSign padSign padRight padZero = .ok (d, out) ∧
      out.toList = padL buf.toList start.toInt.toNat width.toInt.toNat
        (padZero && (d.neg || printSign || padSign)) padRight (if padZero then 48 else 32) := by
  have hlen := len_toInt buf (by omega)
  have hsub : (Go.len buf - start).toInt = buf.size - start.toInt := by
    rw [Dg.i64_sub _ _ (by rw [hlen]; omega) (by rw [hlen]; omega), hlen]
  have hp : (width - (Go.len buf - start)).toInt = width.toInt - (buf.size - start.toInt) := by
    rw [Dg.i64_sub _ _ (by rw [hsub]; omega) (by rw [hsub]; omega), hsub]
  rw [pad_eq]
  unfold padL
  rw [Array.length_toList]
  by_cases hle : width - (Go.len buf - start) ≤ 0
  · have hle' := (i64_le_iff _ _).mp hle
    rw [i64_zero, hp] at hle'
    rw [if_pos (by simpa using hle),
      if_pos (show width.toInt.toNat ≤ buf.size - start.toInt.toNat by omega)]
    exact ⟨buf, rfl, rfl⟩
  · have hle' := hle
    rw [i64_le_iff, i64_zero, hp] at hle'
    rw [if_neg (by simpa using hle),
      if_neg (show ¬ width.toInt.toNat ≤ buf.size - start.toInt.toNat by omega)]
    -- the pad byte
    have hbody : ∀ c : UInt8, ∃ out,
        body d c buf start width (width - (Go.len buf - start)) printSign padSign padRight padZero =
          .ok (d, out) ∧
        out.toList = (if padRight then buf.toList ++
            List.replicate (width.toInt.toNat - (buf.size - start.toInt.toNat)) c
          else buf.toList.take (start.toInt.toNat +
              (if (padZero && (d.neg || printSign || padSign)) then 1 else 0)) ++
            List.replicate (width.toInt.toNat - (buf.size - start.toInt.toNat)) c ++
            buf.toList.drop (start.toInt.toNat +
              (if (padZero && (d.neg || printSign || padSign)) then 1 else 0))) := by
      intro c
      unfold body
      cases padRight
      · simp only [Bool.false_eq_true, if_false]
        unfold left
        have hW : (width + start).toInt = width.toInt + start.toInt :=
          Dg.i64_add _ _ (by omega) (by omega)
        have hps : (width - (Go.len buf - start) + start).toInt =
            width.toInt - (buf.size - start.toInt) + start.toInt := by
          rw [Dg.i64_add _ _ (by rw [hp]; omega) (by rw [hp]; omega), hp]
        by_cases hsk : (padZero && (d.neg || printSign || padSign)) = true
        · have hsk' := hskip hsk
          rw [if_pos hsk]
          simp only [hsk, if_true]
          have hs1 : (start + 1).toInt = start.toInt + 1 := by
            rw [Dg.i64_add _ _ (by rw [i64_one]; omega) (by rw [i64_one]; omega), i64_one]
          have hps1 : (width - (Go.len buf - start) + start + 1).toInt =
              width.toInt - (buf.size - start.toInt) + start.toInt + 1 := by
            rw [Dg.i64_add _ _ (by rw [hps, i64_one]; omega) (by rw [hps, i64_one]; omega), hps, i64_one]
          obtain ⟨out, ho, hl⟩ := grow_eq d c buf (width + start)
            (width - (Go.len buf - start) + start + 1) (start + 1)
            (by rw [hs1]; omega) (by rw [hs1, hps1]; omega) (by rw [hs1]; omega)
            (by rw [hps1, hW]; omega) (by rw [hW]; omega) (by omega) (by rw [hW, hps1, hs1]; omega)
          refine ⟨out, ho, ?_⟩
          rw [hl, hs1, hps1]
          have e1 : (start.toInt + 1).toNat = start.toInt.toNat + 1 := by omega
          have e2 : (width.toInt - (↑buf.size - start.toInt) + start.toInt + 1 - (start.toInt + 1)).toNat =
              width.toInt.toNat - (buf.size - start.toInt.toNat) := by omega
          rw [e1, e2]
        · rw [if_neg hsk]
          simp only [hsk, Bool.false_eq_true, if_false, Nat.add_zero]
          obtain ⟨out, ho, hl⟩ := grow_eq d c buf (width + start)
            (width - (Go.len buf - start) + start) start
            hs0 (by rw [hps]; omega) hsL
            (by rw [hps, hW]; omega) (by rw [hW]; omega) (by omega) (by rw [hW, hps]; omega)
          refine ⟨out, ho, ?_⟩
          rw [hl, hps]
          have e2 : (width.toInt - (↑buf.size - start.toInt) + start.toInt - start.toInt).toNat =
              width.toInt.toNat - (buf.size - start.toInt.toNat) := by omega
          rw [e2]
      · simp only [if_true]
        rw [right_eq]
        refine ⟨_, rfl, ?_⟩
        rw [Array.toList_append, Array.toList_replicate, hp]
        congr 2; omega
    cases padZero
    · simp only [Bool.false_eq_true, if_false] at hbody ⊢
      exact hbody 32
    · simp only [if_true] at hbody ⊢
      exact hbody 48


/-- padding of `sign ++ body` to `w` characters: spaces on the right (`right`), zeros between sign and
body (`zero`), or spaces in front; `right` with `zero` pads with zeros on the right, as the Go code does -/
def padS (sign body : Spec.Str) (w : Nat) (right zero : Bool) : Spec.Str :=
  if w ≤ sign.length + body.length then sign ++ body
  else if right then
    sign ++ body ++ List.replicate (w - (sign.length + body.length)) (if zero then '0' else ' ')
  else if zero then sign ++ List.replicate (w - (sign.length + body.length)) '0' ++ body
  else List.replicate (w - (sign.length + body.length)) ' ' ++ sign ++ body

theorem padL_chars (bufL signL bodyL : List UInt8) (w : Nat) (right zero : Bool)
    (hs : signL.length ≤ 1) :
    (padL (bufL ++ signL ++ bodyL) bufL.length w (zero && !signL.isEmpty) right
        (if zero then 48 else 32)).map toChar =
      bufL.map toChar ++ padS (signL.map toChar) (bodyL.map toChar) w right zero := by
  unfold padL padS
  have hl : (bufL ++ signL ++ bodyL).length - bufL.length = signL.length + bodyL.length := by
    simp only [List.length_append]; omega
  rw [hl]
  simp only [List.length_map]
  have t48 : toChar 48 = '0' := rfl
  have t32 : toChar 32 = ' ' := rfl
  by_cases h1 : w ≤ signL.length + bodyL.length
  · rw [if_pos h1, if_pos h1]; simp
  · rw [if_neg h1, if_neg h1]
    cases right
    · simp only [Bool.false_eq_true, if_false]
      cases zero
      · simp only [Bool.false_and, Bool.false_eq_true, if_false, Nat.add_zero]
        have e : bufL ++ signL ++ bodyL = bufL ++ (signL ++ bodyL) := List.append_assoc _ _ _
        rw [e, List.take_left' rfl, List.drop_left' rfl]
        simp [t32]
      · simp only [Bool.true_and, if_true]
        cases signL with
        | nil =>
          simp only [List.isEmpty_nil, Bool.not_true, Bool.false_eq_true, if_false, Nat.add_zero,
            List.append_nil]
          rw [List.take_left' rfl, List.drop_left' rfl]
          simp [t48]
        | cons x xs =>
          have : xs = [] := by
            cases xs with
            | nil => rfl
            | cons _ _ => simp at hs
          subst this
          simp only [List.isEmpty_cons, Bool.not_false, if_true]
          have e : bufL ++ [x] ++ bodyL = (bufL ++ [x]) ++ bodyL := rfl
          rw [e, List.take_left' (by simp), List.drop_left' (by simp)]
          simp [t48]
    · simp only [if_true]
      cases zero <;> simp [t48, t32]


/-! ## the emitters for every width -/

theorem fmtE_pad (d : Gen.digits) (buf : Go.Bytes) (prec width : Int64)
    (forceDP printSign padSign padExp padRight padZero : Bool) (e : UInt8)
    (h0 : 0 ≤ d.ndig.toInt) (h39 : d.ndig.toInt ≤ 39) (hw0 : 0 ≤ width.toInt) (hb : buf.size < 2 ^ 63) :
    Gen.digits.fmtE d buf prec width forceDP printSign padSign padExp padRight padZero e =
      E.k6 d width printSign padSign padRight padZero (Go.len buf)
        (buf ++ E.eBytes d prec forceDP printSign padSign padExp e) := by
  rw [E.fmtE_eq]
  unfold E.kA
  rw [len_beq_zero buf hb]
  by_cases hbz : buf.size = 0
  · have hbuf : buf = #[] := Array.eq_empty_of_size_eq_zero hbz
    have e9 : (9 + d.ndig).toInt = 9 + d.ndig.toInt := by
      have : (9 : Int64).toInt = 9 := by decide
      rw [Dg.i64_add _ _ (by rw [this]; omega) (by rw [this]; omega), this]
    rw [if_pos (by simp [hbz]), makeBytes_zero _ (by show 0 ≤ width.toInt; exact hw0),
      makeBytes_zero _ (by show 0 ≤ (9 + d.ndig).toInt; omega)]
    have hk : E.k0 d prec width forceDP printSign padSign padExp padRight padZero e #[] =
        E.k6 d width printSign padSign padRight padZero (Go.len buf)
          (buf ++ E.eBytes d prec forceDP printSign padSign padExp e) := by
      rw [← hbuf, E.k0_eq _ _ _ _ _ _ _ _ _ _ _ h0 h39]
    split <;> exact hk
  · rw [if_neg (by simp [hbz]), E.k0_eq _ _ _ _ _ _ _ _ _ _ _ h0 h39]

theorem fmtF_pad (d : Gen.digits) (buf : Go.Bytes) (prec width : Int64)
    (forceDP printSign padSign padRight padZero : Bool)
    (h0 : 0 ≤ d.ndig.toInt) (h39 : d.ndig.toInt ≤ 39) (hw0 : 0 ≤ width.toInt) (hb : buf.size < 2 ^ 63) :
    Gen.digits.fmtF d buf prec width forceDP printSign padSign padRight padZero =
      F.k6 d width printSign padSign padRight padZero (Go.len buf)
        (buf ++ F.fBytes d prec forceDP printSign padSign) := by
  rw [F.fmtF_eq]
  unfold F.kA
  rw [len_beq_zero buf hb]
  by_cases hbz : buf.size = 0
  · have hbuf : buf = #[] := Array.eq_empty_of_size_eq_zero hbz
    have hk : F.k0 d prec width forceDP printSign padSign padRight padZero #[] =
        F.k6 d width printSign padSign padRight padZero (Go.len buf)
          (buf ++ F.fBytes d prec forceDP printSign padSign) := by
      rw [← hbuf, F.k0_eq _ _ _ _ _ _ _ _ _ h0 h39]
    rw [if_pos (by simp [hbz]), makeBytes_zero _ (by show 0 ≤ width.toInt; exact hw0)]
    split
    · exact hk
    · rename_i h
      have h' : ¬ width > 2 + d.ndig + d.exp := by simpa using h
      rw [i64_gt_iff] at h'
      rw [makeBytes_zero _ (by show 0 ≤ (2 + d.ndig + d.exp).toInt; omega)]
      exact hk
  · rw [if_neg (by simp [hbz]), F.k0_eq _ _ _ _ _ _ _ _ _ h0 h39]

theorem signB_toList (neg printSign padSign : Bool) :
    (E.signB neg printSign padSign).toList.length ≤ 1 ∧
      (!(E.signB neg printSign padSign).toList.isEmpty) = (neg || printSign || padSign) := by
  cases neg <;> cases printSign <;> cases padSign <;> exact ⟨by decide, by decide⟩

/-- `pad` applied to `buf ++ sign ++ rest`, at character level -/
theorem pad_text (d : Gen.digits) (buf rest : Go.Bytes) (width : Int64)
    (printSign padSign padRight padZero : Bool) (hw0 : 0 ≤ width.toInt) (hw : width.toInt < 2 ^ 61)
    (hsz : buf.size + (E.signB d.neg printSign padSign).size + rest.size < 2 ^ 61)
    (hrest : 0 < rest.size) :
    ∃ out, Gen.digits.pad d (buf ++ (E.signB d.neg printSign padSign ++ rest)) (Go.len buf) width
        printSign padSign padRight padZero = .ok (d, out) ∧
      chars out = chars buf ++ padS (chars (E.signB d.neg printSign padSign)) (chars rest)
        width.toInt.toNat padRight padZero := by
  have hlen := len_toInt buf (by omega)
  obtain ⟨hs1, hs2⟩ := signB_toList d.neg printSign padSign
  have hs1' : (E.signB d.neg printSign padSign).size ≤ 1 := by simpa using hs1
  obtain ⟨out, ho, hl⟩ := pad_spec d (buf ++ (E.signB d.neg printSign padSign ++ rest)) (Go.len buf) width
    printSign padSign padRight padZero (by rw [hlen]; omega)
    (by rw [hlen]; simp) (by intro _; rw [hlen]; simp; omega) hw0
    (by simp only [Array.size_append]; omega) hw
  refine ⟨out, ho, ?_⟩
  unfold chars
  rw [hl, hlen]
  have e1 : (buf ++ (E.signB d.neg printSign padSign ++ rest)).toList =
      buf.toList ++ (E.signB d.neg printSign padSign).toList ++ rest.toList := by simp
  have e2 : ((buf.size : Int)).toNat = buf.toList.length := by simp
  rw [e1, e2, ← hs2]
  exact padL_chars buf.toList (E.signB d.neg printSign padSign).toList rest.toList width.toInt.toNat
    padRight padZero hs1

/-- **`fmtE` for every width**: the text of `fmtE_spec`, padded to `width`. -/
theorem fmtE_spec_pad (d : Gen.digits) (buf : Go.Bytes) (prec width : Int64)
    (forceDP printSign padSign padExp padRight padZero : Bool) (e : UInt8)
    (hwf : Dg.WF d) (hz : d.ndig.toInt = 0 → d.exp.toInt = 0)
    (hx : -9999 ≤ d.exp.toInt ∧ d.exp.toInt + d.ndig.toInt ≤ 10000)
    (hfit : d.ndig.toInt ≤ prec.toInt + 1 ∨ prec.toInt ≤ 0)
    (hw0 : 0 ≤ width.toInt) (hw : width.toInt < 2 ^ 61)
    (hsz : buf.size + (signS d.neg printSign padSign ++ Spec.layoutE (Dg.slice d) prec.toInt.toNat
      forceDP (toChar e) (if padExp then 2 else 1)).length < 2 ^ 61) :
    ∃ out, Gen.digits.fmtE d buf prec width forceDP printSign padSign padExp padRight padZero e =
        .ok (d, out) ∧
      chars out = chars buf ++ padS (signS d.neg printSign padSign)
        (Spec.layoutE (Dg.slice d) prec.toInt.toNat forceDP (toChar e) (if padExp then 2 else 1))
        width.toInt.toNat padRight padZero := by
  have hc := eBytes_chars d prec forceDP printSign padSign padExp e hwf hz hx hfit
  have hlen := chars_length (E.eBytes d prec forceDP printSign padSign padExp e)
  rw [hc] at hlen
  -- split the emitted bytes into sign and rest
  obtain ⟨rest, hrest⟩ : ∃ rest, E.eBytes d prec forceDP printSign padSign padExp e =
      E.signB d.neg printSign padSign ++ rest :=
    ⟨#[E.firstB d] ++ E.fracB d prec forceDP ++ #[e] ++ E.expB padExp (E.expOf d), by
      simp [E.eBytes, Array.append_assoc]⟩
  have hcr : chars rest = Spec.layoutE (Dg.slice d) prec.toInt.toNat forceDP (toChar e)
      (if padExp then 2 else 1) := by
    rw [hrest, chars_append, signB_chars] at hc
    exact List.append_cancel_left hc
  have hrs : rest.size = (Spec.layoutE (Dg.slice d) prec.toInt.toNat forceDP (toChar e)
      (if padExp then 2 else 1)).length := by rw [← hcr, chars_length]
  have hss : (E.signB d.neg printSign padSign).size = (signS d.neg printSign padSign).length := by
    rw [← signB_chars, chars_length]
  have hpos : 0 < rest.size := by
    rw [hrs]; unfold Spec.layoutE; simp
  rw [List.length_append] at hsz
  obtain ⟨out, ho, hco⟩ := pad_text d buf rest width printSign padSign padRight padZero hw0 hw
    (by rw [hss, hrs]; omega) hpos
  refine ⟨out, ?_, ?_⟩
  · rw [fmtE_pad d buf prec width forceDP printSign padSign padExp padRight padZero e hwf.n0 hwf.n39 hw0
      (by omega), hrest]
    unfold E.k6
    rw [ho]; rfl
  · rw [hco, signB_chars, hcr]

/-- **`fmtF` for every width**: the text of `fmtF_spec`, padded to `width`. -/
theorem fmtF_spec_pad (d : Gen.digits) (buf : Go.Bytes) (prec width : Int64)
    (forceDP printSign padSign padRight padZero : Bool)
    (hwf : Dg.WF d) (hexp : Dg.ExpOK d) (hz : d.ndig.toInt = 0 → d.exp.toInt = 0)
    (hp62 : prec.toInt ≤ 2 ^ 62)
    (hfit : 0 < d.ndig.toInt → 0 < prec.toInt → -d.exp.toInt ≤ prec.toInt)
    (hw0 : 0 ≤ width.toInt) (hw : width.toInt < 2 ^ 61)
    (hsz : buf.size + (signS d.neg printSign padSign ++
      Spec.layoutF (Dg.slice d) prec.toInt.toNat forceDP).length < 2 ^ 61) :
    ∃ out, Gen.digits.fmtF d buf prec width forceDP printSign padSign padRight padZero = .ok (d, out) ∧
      chars out = chars buf ++ padS (signS d.neg printSign padSign)
        (Spec.layoutF (Dg.slice d) prec.toInt.toNat forceDP) width.toInt.toNat padRight padZero := by
  have hc := fBytes_chars d prec forceDP printSign padSign hwf hexp hz hp62 hfit
  obtain ⟨rest, hrest⟩ : ∃ rest, F.fBytes d prec forceDP printSign padSign =
      E.signB d.neg printSign padSign ++ rest :=
    ⟨F.intB d ++ F.fracB d prec forceDP, by simp [F.fBytes, Array.append_assoc]⟩
  have hcr : chars rest = Spec.layoutF (Dg.slice d) prec.toInt.toNat forceDP := by
    rw [hrest, chars_append, signB_chars] at hc
    exact List.append_cancel_left hc
  have hrs : rest.size = (Spec.layoutF (Dg.slice d) prec.toInt.toNat forceDP).length := by
    rw [← hcr, chars_length]
  have hss : (E.signB d.neg printSign padSign).size = (signS d.neg printSign padSign).length := by
    rw [← signB_chars, chars_length]
  have hpos : 0 < rest.size := by
    rw [hrs, layoutF_eq]
    simp only [List.length_append]
    have : 0 < (if (Dg.slice d).dp > 0 then
        Spec.digitsStr ((Dg.slice d).ds.take (Dg.slice d).dp.toNat) ++
          Spec.zeros ((Dg.slice d).dp.toNat - (Dg.slice d).ds.length) else ['0']).length := by
      split
      · rename_i h
        simp only [List.length_append, Spec.digitsStr, Spec.zeros, List.length_map, List.length_take,
          List.length_replicate]
        omega
      · simp
    omega
  rw [List.length_append] at hsz
  obtain ⟨out, ho, hco⟩ := pad_text d buf rest width printSign padSign padRight padZero hw0 hw
    (by rw [hss, hrs]; omega) hpos
  refine ⟨out, ?_, ?_⟩
  · rw [fmtF_pad d buf prec width forceDP printSign padSign padRight padZero hwf.n0 hwf.n39 hw0
      (by omega), hrest]
    unfold F.k6
    rw [ho]; rfl
  · rw [hco, signB_chars, hcr]

/-- `padS` is the padding of `Spec.fmtSpec` (whenever `-` and `0` are not both set) -/
theorem fmtSpec_pad_eq (fl : Spec.Flags) (verb : Char) (prec width : Option Nat) (neg : Bool)
    (s : Spec.Slice) (h : ¬ (fl.minus = true ∧ fl.zero = true)) :
    Spec.fmtSpec fl verb prec width neg s =
      padS (if neg then ['-'] else if fl.plus then ['+'] else if fl.space then [' '] else [])
        (if fl.sharp then Spec.sharpFix (Spec.bodyOf s verb prec) verb prec else Spec.bodyOf s verb prec)
        (width.getD 0) fl.minus fl.zero := by
  unfold Spec.fmtSpec padS
  simp only
  generalize (if neg then ['-'] else if fl.plus then ['+'] else if fl.space then [' '] else []) = sign
  generalize (if fl.sharp then Spec.sharpFix (Spec.bodyOf s verb prec) verb prec
    else Spec.bodyOf s verb prec) = body
  by_cases h1 : width.getD 0 ≤ sign.length + body.length
  · rw [if_pos h1, if_pos h1]
  · rw [if_neg h1, if_neg h1]
    cases hm : fl.minus <;> cases hz : fl.zero <;> simp_all [Spec.zeros]

end P
end Emit
