/-
  D128/Proofs/FloatFromSmall.lean — the `mul64(10)`/`rsh` loops of `FromFloat64` for |f| < 2^52.

  Provided (namespace `FF`):
  * `ApproxS`, `approxS_mul10`, `approxS_shr`, `approxS_to_approx` : the relation between the exact scaled value
      `X = V·2^sh·10^K`, the register, the number of right shifts and the sticky flag, and its steps
  * `K_bound`        : the decimal scale stays below 500
  * `smallInner_spec`: the inner loop (multiply by ten until the top four bits are reached)
-/
import D128.Proofs.FloatFromBigPath

set_option autoImplicit false
set_option maxRecDepth 8192
set_option exponentiation.threshold 2000

namespace FF
open Gen

/-- as `Approx`, with `2^-247` per right shift -/
def ApproxS (X : ℚ) (sig k : Nat) (t : Int) : Prop :=
  (sig : ℚ) ≤ X ∧ X * 2 ^ 247 ≤ (sig : ℚ) * (2 ^ 247 + k) ∧
    ((t = 0 ∧ X = sig) ∨ (t = 1 ∧ (sig : ℚ) < X))

theorem approxS_mul10 (X : ℚ) (sig k : Nat) (t : Int) (h : ApproxS X sig k t) :
    ApproxS (X * 10) (sig * 10) k t := by
  unfold ApproxS at h ⊢
  obtain ⟨h1, h2, h3⟩ := h
  push_cast
  refine ⟨by linarith, by nlinarith, ?_⟩
  rcases h3 with ⟨ht, hX⟩ | ⟨ht, hX⟩
  · left; exact ⟨ht, by rw [hX]⟩
  · right; exact ⟨ht, by linarith⟩

theorem approxS_to_approx (X : ℚ) (sig k : Nat) (t : Int) (h : ApproxS X sig k t) :
    Approx X sig (8 * k) t := by
  unfold ApproxS at h
  unfold Approx
  obtain ⟨h1, h2, h3⟩ := h
  refine ⟨h1, ?_, h3⟩
  have e : (2 : ℚ) ^ 250 = 2 ^ 247 * 8 := by norm_num
  push_cast
  rw [e]
  nlinarith

/-- one right shift by `mx ≤ 4` bits (`r` the bits shifted out) -/
theorem approxS_shr (X : ℚ) (q r k mx : Nat) (t : Int) (hmx : mx ≤ 4) (hr : r < 2 ^ mx)
    (hbig : 2 ^ 252 ≤ 2 ^ mx * q + r) (hk : k ≤ 2 ^ 20) (h : ApproxS X (2 ^ mx * q + r) k t) :
    ApproxS (X / 2 ^ mx) q (k + 1) (if r ≠ 0 then 1 else t) := by
  unfold ApproxS at h ⊢
  obtain ⟨h1, h2, h3⟩ := h
  have hP : (0 : ℚ) < 2 ^ mx := by positivity
  have hP16 : (2 : ℚ) ^ mx ≤ 16 := by
    have : (2 : ℕ) ^ mx ≤ 2 ^ 4 := Nat.pow_le_pow_right (by norm_num) hmx
    exact_mod_cast this
  have hr' : (r : ℚ) + 1 ≤ 2 ^ mx := by exact_mod_cast hr
  have hbig' : (2 : ℚ) ^ 252 ≤ 2 ^ mx * q + r := by exact_mod_cast hbig
  have hk' : (k : ℚ) ≤ 2 ^ 20 := by exact_mod_cast hk
  have hr0 : (0 : ℚ) ≤ r := by positivity
  have hk0 : (0 : ℚ) ≤ k := by positivity
  push_cast at h1 h2 h3 ⊢
  have hrk : (r : ℚ) * k ≤ 15 * 2 ^ 20 := by
    calc (r : ℚ) * k ≤ 15 * k := mul_le_mul_of_nonneg_right (by linarith) hk0
      _ ≤ 15 * 2 ^ 20 := by linarith
  refine ⟨?_, ?_, ?_⟩
  · rw [le_div_iff₀ hP]; linarith
  · have e1 : X / 2 ^ mx * 2 ^ 247 = (X * 2 ^ 247) / 2 ^ mx := by ring
    rw [e1, div_le_iff₀ hP]
    have : ((2 : ℚ) ^ mx * q + r) * (2 ^ 247 + k)
        = 2 ^ mx * q * (2 ^ 247 + k) + r * 2 ^ 247 + r * k := by ring
    rw [this] at h2
    have : (r : ℚ) * 2 ^ 247 ≤ 15 * 2 ^ 247 := mul_le_mul_of_nonneg_right (by linarith) (by positivity)
    nlinarith
  · by_cases hr0' : r = 0
    · subst hr0'
      simp only [ne_eq, not_true_eq_false, if_false]
      rcases h3 with ⟨ht, hX⟩ | ⟨ht, hX⟩
      · left; refine ⟨ht, ?_⟩
        rw [hX]; push_cast; rw [add_zero, mul_div_cancel_left₀ _ hP.ne']
      · right; refine ⟨ht, ?_⟩
        rw [lt_div_iff₀ hP]
        push_cast at hX; linarith
    · simp only [ne_eq, hr0', not_false_eq_true, if_true]
      right; refine ⟨trivial, ?_⟩
      rw [lt_div_iff₀ hP]
      have hrpos : (0 : ℚ) < r := by
        have : 0 < r := Nat.pos_of_ne_zero hr0'
        exact_mod_cast this
      linarith

/-- the decimal scale is bounded: `X = V·2^sh·10^K < 2^257` with `V ≥ 2^-1100` forces `K ≤ 500` -/
theorem K_bound (V X : ℚ) (sh K : Nat) (hV : 1 ≤ V * 2 ^ 1100) (hX : X = V * 2 ^ sh * 10 ^ K)
    (hlt : X < 2 ^ 257) : K ≤ 500 := by
  by_contra hc
  have hK : 501 ≤ K := by omega
  have h10 : (10 : ℚ) ^ 501 ≤ 10 ^ K := pow_le_pow_right₀ (by norm_num) hK
  have hVpos : 0 < V := by
    by_contra h
    have : V * 2 ^ 1100 ≤ 0 := mul_nonpos_of_nonpos_of_nonneg (not_lt.1 h) (by positivity)
    exact absurd (le_trans hV this) (by norm_num)
  have h2 : (1 : ℚ) ≤ 2 ^ sh := one_le_pow₀ (by norm_num)
  have h3 : V * 10 ^ 501 ≤ X := by
    rw [hX]
    calc V * 10 ^ 501 = V * 1 * 10 ^ 501 := by ring
      _ ≤ V * 2 ^ sh * 10 ^ K := by
          apply mul_le_mul _ h10 (by positivity) (by positivity)
          exact mul_le_mul_of_nonneg_left h2 hVpos.le
  have h4 : V * 10 ^ 501 * 2 ^ 1100 < 2 ^ 257 * 2 ^ 1100 := by
    apply mul_lt_mul_of_pos_right (lt_of_le_of_lt h3 hlt) (by positivity)
  have h5 : (10 : ℚ) ^ 501 ≤ V * 10 ^ 501 * 2 ^ 1100 := by
    calc (10 : ℚ) ^ 501 = 1 * 10 ^ 501 := by ring
      _ ≤ (V * 2 ^ 1100) * 10 ^ 501 := mul_le_mul_of_nonneg_right hV (by positivity)
      _ = V * 10 ^ 501 * 2 ^ 1100 := by ring
  have h6 : (2 : ℚ) ^ 257 * 2 ^ 1100 < 10 ^ 501 := by norm_num
  exact absurd (lt_of_le_of_lt h5 h4) (not_lt.2 h6.le)

/-- `X ≤ 2·sig` from the error bound -/
theorem approxS_lt (X : ℚ) (sig k : Nat) (t : Int) (h : ApproxS X sig k t) (hk : k ≤ 2 ^ 20)
    (hs : sig < 2 ^ 256) : X < 2 ^ 257 := by
  obtain ⟨h1, h2, _⟩ := h
  have hk' : (k : ℚ) ≤ 2 ^ 20 := by exact_mod_cast hk
  have hs' : (sig : ℚ) < 2 ^ 256 := by exact_mod_cast hs
  have hs0 : (0 : ℚ) ≤ sig := by positivity
  have : (sig : ℚ) * (2 ^ 247 + k) ≤ sig * (2 * 2 ^ 247) :=
    mul_le_mul_of_nonneg_left (by linarith) hs0
  have h3 : X * 2 ^ 247 < 2 ^ 257 * 2 ^ 247 := by
    calc X * 2 ^ 247 ≤ sig * (2 * 2 ^ 247) := le_trans h2 this
      _ < 2 ^ 256 * (2 * 2 ^ 247) := mul_lt_mul_of_pos_right hs' (by positivity)
      _ = 2 ^ 257 * 2 ^ 247 := by norm_num
  exact lt_of_mul_lt_mul_right h3 (by positivity)

/-- invariant of the inner loop `for zeros >= 4 { sig256 = sig256.mul64(10); exp--; … }` -/
def InnerInv (V : ℚ) (sh n : Nat) (t : Int) (s : Int16 × U256 × Int64) : Prop :=
  ∃ K : Nat, s.1.toInt = 6176 - K ∧ s.2.2 = Go.bits.LeadingZeros64 s.2.1.w3 ∧ 1 ≤ s.2.1.toNat ∧
    ApproxS (V * 2 ^ sh * 10 ^ K) s.2.1.toNat n t

def InnerPost (V : ℚ) (sh n : Nat) (t : Int) (s : Int16 × U256 × Int64) : Prop :=
  InnerInv V sh n t s ∧ 2 ^ 252 ≤ s.2.1.toNat

theorem smallInner_step (V : ℚ) (sh n : Nat) (t : Int) (hV : 1 ≤ V * 2 ^ 1100) (hn : n ≤ 2 ^ 20)
    (b : Int16 × U256 × Int64) (hb : InnerInv V sh n t b) :
    (∃ b', smallInner () b = .ok (.yield b') ∧ InnerInv V sh n t b' ∧
        2 ^ 256 - b'.2.1.toNat < 2 ^ 256 - b.2.1.toNat) ∨
    (∃ b', smallInner () b = .ok (.done b') ∧ InnerPost V sh n t b') := by
  obtain ⟨K, he, hzeq, hpos, happ⟩ := hb
  have h256 := D128.Proofs.WordsWide.U256.toNat_lt b.2.1
  obtain ⟨z, hz, hz64, hzlt, hzbig, hzsmall⟩ := lz_w3 b.2.1
  have h4 : (4 : Int64).toInt = 4 := by decide
  by_cases hge : 4 ≤ z
  · left
    have hc : decide (b.2.2 ≥ 4) = true := by
      rw [i64_ge, hzeq, hz, h4]; simp; omega
    have hlt252 : b.2.1.toNat < 2 ^ 252 := by
      have : b.2.1.toNat * 2 ^ 4 ≤ b.2.1.toNat * 2 ^ z :=
        Nat.mul_le_mul_left _ (Nat.pow_le_pow_right (by norm_num) hge)
      omega
    have hK : K ≤ 500 := K_bound V _ sh K hV rfl (approxS_lt _ _ _ _ happ hn h256)
    have hmul : (U256.mul64 b.2.1 10).toNat = b.2.1.toNat * 10 := by
      rw [D128.Proofs.WordsWide.U256_mul64_toNat_of_lt]
      · rfl
      · have : (10 : UInt64).toNat = 10 := by decide
        rw [this]; omega
    refine ⟨(b.1 - 1, U256.mul64 b.2.1 10, Go.bits.LeadingZeros64 (U256.mul64 b.2.1 10).w3), ?_,
      ⟨K + 1, ?_, rfl, ?_, ?_⟩, ?_⟩
    · simp only [smallInner, hc, if_true]; rfl
    · show (b.1 - 1).toInt = 6176 - ((K + 1 : Nat) : Int)
      rw [Int16.toInt_sub_of] <;> simp <;> omega
    · show 1 ≤ (U256.mul64 b.2.1 10).toNat
      rw [hmul]; omega
    · show ApproxS _ (U256.mul64 b.2.1 10).toNat n t
      rw [hmul]
      have : V * 2 ^ sh * 10 ^ (K + 1) = V * 2 ^ sh * 10 ^ K * 10 := by rw [pow_succ]; ring
      rw [this]
      exact approxS_mul10 _ _ _ _ happ
    · show 2 ^ 256 - (U256.mul64 b.2.1 10).toNat < 2 ^ 256 - b.2.1.toNat
      rw [hmul]; omega
  · right
    have hc : decide (b.2.2 ≥ 4) = false := by
      rw [i64_ge, hzeq, hz, h4]; simp; omega
    refine ⟨(b.1, b.2.1, b.2.2), ?_, ⟨K, he, hzeq, hpos, happ⟩, ?_⟩
    · simp only [smallInner, hc]; rfl
    · show 2 ^ 252 ≤ b.2.1.toNat
      have hbig : 2 ^ 192 ≤ b.2.1.toNat := by
        by_contra h
        have := hzsmall (by omega)
        omega
      obtain ⟨_, h255⟩ := hzbig hbig
      have : b.2.1.toNat * 2 ^ z ≤ b.2.1.toNat * 2 ^ 3 :=
        Nat.mul_le_mul_left _ (Nat.pow_le_pow_right (by norm_num) (by omega))
      omega

theorem smallInner_spec (V : ℚ) (sh n : Nat) (t : Int) (hV : 1 ≤ V * 2 ^ 1100) (hn : n ≤ 2 ^ 20)
    (st : Int16 × U256 × Int64) (hst : InnerInv V sh n t st) :
    ∃ st', forIn (m := Go.GoM) Lean.Loop.mk st smallInner = .ok st' ∧ InnerPost V sh n t st' :=
  RK.loop_inv smallInner (InnerInv V sh n t) (InnerPost V sh n t) (fun s => 2 ^ 256 - s.2.1.toNat)
    (fun b hb => smallInner_step V sh n t hV hn b hb) st hst

end FF
