/-
  D128/Proofs/CohortElemQuoStage.lean — property C19 for the elementary functions: `Gen.decomposed192.quo` cut into its three
  stages, and what follows from the cut alone.

  Provided (namespace `CohortElem`):
  * `quoTrunc`, `quoDiv`, `quo_stage` : `quo d o t = if d.sig = 0 then (0, t) else
        logScale d >>= fun d1 => quoTrunc o t >>= fun p => quoDiv d1 p.1 p.2`   (`LogAcc.logScale`: the head of `log` is the
        same three loops)
  * `logScale_id`, `quoTrunc_id`   : a numerator `≥ LIM` / a divisor `< OLIM` passes its stage unchanged
  * `quoTrunc_triple`, `quoTrunc_spec` : stage (T) with the sharp state `TrO'`
  * `quo_norm`        : `quo d o t = quo d1 o1 t1` for the normalised operands — the long division is `quo` itself on
                        normalised operands, so `quo_sharp` (with `a = b = 0`) describes it
  * `quo_congr_left`  : `val d = val d'`, both significands below `10·LIM` (or both not) ⇒ `quo d o t = quo d' o t`
                        (bit-identical, any divisor, zero divisor included: the numerator is normalised first)
-/
import D128.Proofs.CohortElemQuoSharp
import D128.Proofs.CohortElemEpow
set_option autoImplicit false
set_option maxRecDepth 4096
set_option exponentiation.threshold 512
set_option linter.unusedVariables false
open Std.Do D128.Proofs.WordsWide
set_option mvcgen.warning false

namespace CohortElem
open Gen D192 LogAcc

/-- stage (T) of `quo`: drop low digits of the divisor while it is `≥ OLIM` -/
def quoTrunc (o : decomposed192) (trunc : Int8) : Go.GoM (decomposed192 × Int8) := do
  let mut o : decomposed192 := o
  let mut trunc : Int8 := trunc
  while (decide (o.sig.w2 ≥ (1801439850948198399 : UInt64))) do
    let mut rem : UInt64 := (0 : UInt64)
    let (r_1, r_2) ← U192.div10 o.sig
    o := { o with sig := r_1 }
    rem := r_2
    o := { o with exp := (o.exp + (1 : Int16)) }
    if (rem != (0 : UInt64)) then
      trunc := (1 : Int8)
  return (o, trunc)

/-- stage (Q) of `quo`: the long division of a normalised numerator by a truncated divisor -/
def quoDiv (d o : decomposed192) (trunc : Int8) : Go.GoM (decomposed192 × Int8) := do
  let mut trunc : Int8 := trunc
  let (r_3, r_4) ← U192.div d.sig o.sig
  let mut sig : U192 := r_3
  let mut rem_1 : U192 := r_4
  let mut exp : Int16 := (d.exp - o.exp)
  while ((((rem_1.w0 ||| rem_1.w1) ||| rem_1.w2) != (0 : UInt64)) && (decide (sig.w2 ≤ (1801439850948198399 : UInt64)))) do
    while ((decide (rem_1.w2 ≤ (703687441776639 : UInt64))) && (decide (sig.w2 ≤ (703687441776639 : UInt64)))) do
      rem_1 := (U192.mul64 rem_1 (10000 : UInt64))
      sig := (U192.mul64 sig (10000 : UInt64))
      exp := (exp - (4 : Int16))
    while ((decide (rem_1.w2 ≤ (1801439850948198399 : UInt64))) && (decide (sig.w2 ≤ (1801439850948198399 : UInt64)))) do
      rem_1 := (U192.mul64 rem_1 (10 : UInt64))
      sig := (U192.mul64 sig (10 : UInt64))
      exp := (exp - (1 : Int16))
    let mut tmp : U192 := (default : U192)
    let (r_5, r_6) ← U192.div rem_1 o.sig
    tmp := r_5
    rem_1 := r_6
    let mut sig256 : U256 := (U192.add sig tmp)
    while (sig256.w3 != (0 : UInt64)) do
      let mut rem_2 : UInt64 := (0 : UInt64)
      let (r_7, r_8) ← U256.div10 sig256
      sig256 := r_7
      rem_2 := r_8
      exp := (exp + (1 : Int16))
      if (rem_2 != (0 : UInt64)) then
        trunc := (1 : Int8)
    sig := (U192.mk sig256.w0 sig256.w1 sig256.w2)
  if (((rem_1.w0 ||| rem_1.w1) ||| rem_1.w2) != (0 : UInt64)) then
    trunc := (1 : Int8)
  return (({ (default : decomposed192) with sig := sig, exp := exp } : decomposed192), trunc)

/-- `quo` in stages -/
theorem quo_stage (d o : decomposed192) (t : Int8) :
    decomposed192.quo d o t =
      if (((d.sig.w0 ||| d.sig.w1) ||| d.sig.w2) == (0 : UInt64)) then
        pure (({ (default : decomposed192) with sig := (default : U192), exp := (0 : Int16) } : decomposed192), t)
      else logScale d >>= fun d1 => quoTrunc o t >>= fun p => quoDiv d1 p.1 p.2 := by
  unfold decomposed192.quo logScale quoTrunc quoDiv
  by_cases h : (((d.sig.w0 ||| d.sig.w1) ||| d.sig.w2) == (0 : UInt64)) = true
  · simp only [h, if_true]
  · simp only [h, if_false, Bool.false_eq_true, bind_assoc, pure_bind]

theorem sig_zero_iff (d : decomposed192) :
    ((((d.sig.w0 ||| d.sig.w1) ||| d.sig.w2) == (0 : UInt64)) = true) ↔ d.sig.toNat = 0 := by
  have := d.sig.w0.toNat_lt; have := d.sig.w1.toNat_lt
  rw [beq_iff_eq, UInt64.or_eq_zero_iff, UInt64.or_eq_zero_iff,
    ← UInt64.toNat_inj, ← UInt64.toNat_inj, ← UInt64.toNat_inj]
  simp only [U192.toNat, UInt64.toNat_zero]
  omega

/-- a significand `≥ LIM` is left alone by the three scaling loops -/
theorem logScale_id (d : decomposed192) (h : LIM ≤ d.sig.toNat) : logScale d = .ok d := by
  have h2 : ¬ d.sig.w2 ≤ 1801439850948198399 := by
    intro hc
    have := lt_LIM_of_le _ hc
    omega
  have e1 : (703687441776639 : UInt64).toNat = 703687441776639 := by decide
  have e2 : (1801439850948198399 : UInt64).toNat = 1801439850948198399 := by decide
  have h1 : ¬ d.sig.w2 ≤ 703687441776639 := by
    intro hc
    apply h2
    rw [UInt64.le_iff_toNat_le] at hc ⊢
    omega
  have h0 : ¬ d.sig.w2 = 0 := by
    intro hc
    apply h2
    rw [hc, UInt64.le_iff_toNat_le]
    simp
  unfold logScale
  zeta_except_jp
  rw [Go.loop_unfold]
  simp only [beq_iff_eq, h0, if_false, pure_bind]
  rw [Go.loop_unfold]
  simp only [h1, decide_false, Bool.false_eq_true, if_false, pure_bind]
  rw [Go.loop_unfold]
  simp only [h2, decide_false, Bool.false_eq_true, if_false, pure_bind]
  rfl

/-- a divisor `< OLIM` is left alone by the truncation loop -/
theorem quoTrunc_id (o : decomposed192) (t : Int8) (h : o.sig.toNat < OLIM) : quoTrunc o t = .ok (o, t) := by
  have h1 : ¬ o.sig.w2 ≥ 1801439850948198399 := by
    intro hc
    have := ge_OLIM_of_le _ hc
    omega
  unfold quoTrunc
  zeta_except_jp
  rw [Go.loop_unfold]
  simp only [h1, decide_false, Bool.false_eq_true, if_false, pure_bind]
  rfl

theorem quoTrunc_triple (o : decomposed192) (t : Int8) :
    ⦃⌜True⌝⦄ quoTrunc o t
    ⦃⇓ x => ⌜TrO' o.sig.toNat t o.exp x ∧ x.1.sig.toNat < OLIM⌝⦄ := by
  mvcgen [quoTrunc]
  case inv1 => exact fun st => ⟨st.1.sig.toNat⟩
  case inv2 => exact ⇓ x => match x with
    | .inl st => ⌜TrO' o.sig.toNat t o.exp st⌝
    | .inr st => ⌜TrO' o.sig.toNat t o.exp st ∧ st.1.sig.toNat < OLIM⌝
  all_goals (simp +zetaDelta at *)
  case vc1 =>
    rename_i hdiv hg hinv hnz
    have := TrO'.step hinv.2 _ _ hdiv hg
    rw [if_neg hnz] at this
    exact ⟨by rw [hinv.1]; exact this.1, this.2⟩
  case vc2 =>
    rename_i hdiv hg hinv hz
    have := TrO'.step hinv.2 _ _ hdiv hg
    rw [if_pos hz] at this
    exact ⟨by rw [hinv.1]; exact this.1, this.2⟩
  case vc3 => rename_i hlt hinv; exact ⟨hinv.2, lt_OLIM_of_lt _ hlt⟩
  case vc4 => exact TrO'.refl o t
  all_goals assumption

/-- stage (T): no panic, termination, minimal number of dropped digits -/
theorem quoTrunc_spec (o : decomposed192) (t : Int8) :
    ∃ (o1 : decomposed192) (t1 : Int8) (b : Nat), quoTrunc o t = .ok (o1, t1) ∧ b ≤ 2 ∧
      o1.sig.toNat = o.sig.toNat / 10 ^ b ∧ o1.exp = o.exp + Int16.ofNat b ∧
      t1 = (if o.sig.toNat % 10 ^ b = 0 then t else 1) ∧
      (b = 0 ∨ OLIM ≤ o.sig.toNat / 10 ^ (b - 1)) ∧ o1.sig.toNat < OLIM ∧
      (o.sig.toNat ≠ 0 → o1.sig.toNat ≠ 0) := by
  obtain ⟨⟨o1, t1⟩, hr, hT, hlt⟩ := ok_of_triple (quoTrunc_triple o t)
  obtain ⟨b, hb, -⟩ := hT.toTrO.bounds (U192.toNat_lt _)
  have hne := fun h0 => TrO.ne_zero hT.toTrO h0
  obtain ⟨b', h1, h2, h3, h4⟩ := hT
  refine ⟨o1, t1, b', hr, ?_, h1, h2, h3, h4, hlt, hne⟩
  rcases h4 with h4 | h4
  · omega
  · by_contra hc
    have h3' : 10 ^ 2 ≤ 10 ^ (b' - 1) := Nat.pow_le_pow_right (by norm_num) (by omega)
    have : o.sig.toNat / 10 ^ (b' - 1) ≤ o.sig.toNat / 10 ^ 2 := Nat.div_le_div_left h3' (by norm_num)
    have := U192.toNat_lt o.sig
    unfold OLIM lim at h4
    omega

/-- **the long division is `quo` on normalised operands** -/
theorem quo_norm (d o d1 o1 : decomposed192) (t t1 : Int8) (hd : d.sig.toNat ≠ 0)
    (h1 : logScale d = .ok d1) (h2 : quoTrunc o t = .ok (o1, t1))
    (hL : LIM ≤ d1.sig.toNat) (hO : o1.sig.toNat < OLIM) :
    decomposed192.quo d o t = decomposed192.quo d1 o1 t1 := by
  have hd1 : d1.sig.toNat ≠ 0 := by unfold LIM at hL; omega
  rw [quo_stage, quo_stage, if_neg (fun h => hd ((sig_zero_iff d).mp h)),
    if_neg (fun h => hd1 ((sig_zero_iff d1).mp h)), h1, h2, logScale_id d1 hL, quoTrunc_id o1 t1 hO]

/-- the scaling loops do not see the representation (both significands below `10·LIM`, or both not) -/
theorem logScale_congr' (d d' : decomposed192) (hd : d.sig.toNat ≠ 0) (hd' : d'.sig.toNat ≠ 0)
    (hU : d.sig.toNat < 10 * LIM ↔ d'.sig.toNat < 10 * LIM)
    (he : -32000 ≤ d.exp.toInt) (he' : -32000 ≤ d'.exp.toInt) (hv : val d = val d') :
    logScale d = logScale d' := by
  by_cases hu : d.sig.toNat < 10 * LIM
  · exact logScale_congr d d' hd hd' hu (hU.mp hu) he he' hv
  · have hu' : ¬ d'.sig.toNat < 10 * LIM := fun h => hu (hU.mpr h)
    rw [big_unique (by omega) (by omega) hv]

/-- **`quo` does not see the representation of its numerator**: bit-identical results for numerators of one value, both
below `10·LIM` or both not (then they coincide), any divisor (a zero divisor panics in both runs) and flag. -/
theorem quo_congr_left (d d' o : decomposed192) (t : Int8) (hv : val d = val d')
    (hU : d.sig.toNat < 10 * LIM ↔ d'.sig.toNat < 10 * LIM)
    (he : -32000 ≤ d.exp.toInt) (he' : -32000 ≤ d'.exp.toInt) :
    decomposed192.quo d o t = decomposed192.quo d' o t := by
  have hz : d.sig.toNat = 0 ↔ d'.sig.toNat = 0 := by
    unfold val at hv
    have hp : ∀ e : Int, (0 : ℚ) < (10 : ℚ) ^ e := fun e => zpow_pos (by norm_num) _
    constructor
    · intro h
      rw [h] at hv
      have : (d'.sig.toNat : ℚ) * 10 ^ d'.exp.toInt = 0 := by rw [← hv]; simp
      rcases mul_eq_zero.mp this with h | h
      · exact_mod_cast h
      · exact absurd h (hp _).ne'
    · intro h
      rw [h] at hv
      have : (d.sig.toNat : ℚ) * 10 ^ d.exp.toInt = 0 := by rw [hv]; simp
      rcases mul_eq_zero.mp this with h | h
      · exact_mod_cast h
      · exact absurd h (hp _).ne'
  by_cases h0 : d.sig.toNat = 0
  · rw [quo_zero d o t h0, quo_zero d' o t (hz.mp h0)]
  · have h0' : d'.sig.toNat ≠ 0 := fun h => h0 (hz.mpr h)
    rw [quo_stage, quo_stage, if_neg (fun h => h0 ((sig_zero_iff d).mp h)),
      if_neg (fun h => h0' ((sig_zero_iff d').mp h)), logScale_congr' d d' h0 h0' hU he he' hv]

end CohortElem
