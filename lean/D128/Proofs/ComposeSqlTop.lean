/-
  D128/Proofs/ComposeSqlTop.lean — `Gen.Decimal.Compose` as a whole: the leading-zero scan, the
  zero coefficient, `sig[i:]`, and the three forms.

  Provided (namespace `CS`):
  * `Scan`, `scan_triple`, `scan_ok` : `CS.scan sig` returns the index of the first non-zero byte
      (or `len sig`), never panics
  * `Res0 d neg n x r`   : contract of form 0 for the coefficient `n` and exponent `x`
      (`n = 0` ⇒ `r = (zero neg, nil)`; otherwise `Res d neg (n·10^x) r`)
  * `fin0_ok`            : `∃ r, fin0 d neg sig exp = .ok r ∧ Res0 d neg (beNat sig) exp r`
  * `Compose_form0`, `Compose_form1`, `Compose_form2`, `Compose_formOther` : the generated
      `Gen.Decimal.Compose` by form
-/
import D128.Proofs.ComposeSqlBig
set_option autoImplicit false
set_option maxRecDepth 4096
open Std.Do
set_option mvcgen.warning false

namespace CS
open SpecRound (Member)
open CanonPf (ok_of_triple)

local notation "𝔳[" d "]" => Spec.interp (Gen.Decimal.lo d) (Gen.Decimal.hi d)

/-! ## the leading-zero scan -/

structure Scan (sig : Go.Bytes) (i : Int64) : Prop where
  lo : 0 ≤ i.toInt
  hi : i.toInt ≤ sig.size
  zeros : sig.toList.take i.toInt.toNat = List.replicate i.toInt.toNat 0

theorem u8_ne_zero_iff (x : UInt8) : (x != 0) = true ↔ x ≠ 0 := by
  rw [bne_iff_ne]

theorem Scan_init (sig : Go.Bytes) : Scan sig 0 := by
  refine ⟨by decide, ?_, ?_⟩
  · have : (0 : Int64).toInt = 0 := by decide
    rw [this]; exact Int.natCast_nonneg _
  · have : (0 : Int64).toInt.toNat = 0 := by decide
    rw [this]; rfl

theorem Scan_idx (sig : Go.Bytes) (hsz : sig.size < 2 ^ 63) (i : Int64) (h : Scan sig i)
    (hc : decide (i < Go.len sig) = true) : 0 ≤ Go.idx i ∧ (Go.idx i).toNat < sig.size := by
  rw [i64_lt_lit, len_toInt sig hsz] at hc
  have := h.lo
  show 0 ≤ i.toInt ∧ i.toInt.toNat < sig.size
  omega

theorem Scan_step (sig : Go.Bytes) (hsz : sig.size < 2 ^ 63) (i : Int64) (h : Scan sig i)
    (hc : decide (i < Go.len sig) = true) (r : UInt8) (hr : ¬ (r != 0) = true)
    (hq : r = sig.toList.getD (Go.idx i).toNat 0) :
    Scan sig (i + 1) ∧ (sig.size - (i + 1).toInt.toNat) < (sig.size - i.toInt.toNat) := by
  rw [i64_lt_lit, len_toInt sig hsz] at hc
  rw [u8_ne_zero_iff, not_not] at hr
  obtain ⟨lo, hi, zeros⟩ := h
  have hs : (i + 1).toInt = i.toInt + 1 := i64_add_one _ (by simp only [Int.reducePow]; omega)
  refine ⟨⟨by rw [hs]; omega, by rw [hs]; omega, ?_⟩, by rw [hs]; omega⟩
  have e1 : (i.toInt + 1).toNat = i.toInt.toNat + 1 := by omega
  rw [hs, e1, List.take_add_one, zeros]
  have hl : sig.toList.length = sig.size := Array.length_toList
  have hlt : i.toInt.toNat < sig.toList.length := by omega
  have e2 : sig.toList[i.toInt.toNat]?.toList = [sig.toList.getD i.toInt.toNat 0] := by
    rw [List.getD_eq_getElem?_getD, List.getElem?_eq_getElem hlt]; rfl
  have e3 : sig.toList.getD i.toInt.toNat 0 = 0 := hq.symm.trans hr
  rw [e2, e3, List.replicate_succ']

theorem scan_triple (sig : Go.Bytes) (hsz : sig.size < 2 ^ 63) :
    ⦃⌜True⌝⦄ scan sig
    ⦃⇓ i => ⌜Scan sig i ∧ (i.toInt = sig.size ∨ sig.toList.getD i.toInt.toNat 0 ≠ 0)⌝⦄ := by
  mvcgen [scan]
  case inv1 => exact fun i => ⟨sig.size - i.toInt.toNat⟩
  case inv2 =>
    exact ⇓ x => match x with
      | .inl i => ⌜Scan sig i⌝
      | .inr i => ⌜Scan sig i ∧ (i.toInt = sig.size ∨ sig.toList.getD i.toInt.toNat 0 ≠ 0)⌝
  case vc1 =>
    rename_i b mb hc hinv
    exact Scan_idx sig hsz b hinv.2 hc
  case vc2 =>
    rename_i b mb hc hinv r hr hq
    rw [u8_ne_zero_iff] at hr
    refine ⟨hinv.2, Or.inr ?_⟩
    rw [hq] at hr
    exact hr
  case vc3 =>
    rename_i b mb hc hinv r hr hq
    have hv : mb = sig.size - b.toInt.toNat := congrArg ULift.down hinv.1
    obtain ⟨h1, h2⟩ := Scan_step sig hsz b hinv.2 hc r hr hq
    exact ⟨_, rfl, by rw [hv]; exact h2, h1⟩
  case vc4 =>
    rename_i b mb hc hinv
    rw [i64_lt_lit, len_toInt sig hsz] at hc
    have := hinv.2.hi
    exact ⟨hinv.2, Or.inl (by omega)⟩
  case vc5 => exact Scan_init sig
  case vc6 => intro h; exact h
  all_goals exact ExceptConds.entails.refl _

theorem scan_ok (sig : Go.Bytes) (hsz : sig.size < 2 ^ 63) :
    ∃ i, scan sig = .ok i ∧ Scan sig i ∧
      (i.toInt = sig.size ∨ sig.toList.getD i.toInt.toNat 0 ≠ 0) :=
  ok_of_triple (scan_triple sig hsz)

/-! ## form 0 as a whole -/

/-- contract of form 0 for the coefficient `n` and the exponent `x` -/
def Res0 (d : Gen.Decimal) (neg : Bool) (n : Nat) (x : Int) (r : Gen.Decimal × Go.Err) : Prop :=
  if n = 0 then r = (Gen.zero neg, Go.Err.nil) else Res d neg ((n : ℚ) * (10 : ℚ) ^ x) r

theorem extract_toList (sig : Go.Bytes) (a : Nat) :
    (sig.extract a sig.size).toList = sig.toList.drop a := by
  rw [Array.toList_extract, List.extract_eq_take_drop]
  apply List.take_of_length_le
  rw [List.length_drop, Array.length_toList]

theorem bsliceFrom_eq (sig : Go.Bytes) (i : Int) (h0 : 0 ≤ i) (h1 : i ≤ sig.size) :
    Go.bsliceFrom sig i = .ok (sig.extract i.toNat sig.size) := by
  unfold Go.bsliceFrom Go.bslice
  rw [if_pos ⟨h0, h1, by simp⟩]
  simp only [Int.toNat_natCast]
  rfl

theorem fin0_ok (d : Gen.Decimal) (neg : Bool) (sig : Go.Bytes) (exp : Int32)
    (hsz : sig.size < 2 ^ 60) :
    ∃ r, fin0 d neg sig exp = .ok r ∧ Res0 d neg (Spec.beNat sig) exp.toInt r := by
  have hsz' : sig.size < 2 ^ 63 := by omega
  obtain ⟨i, hi, hS, hend⟩ := scan_ok sig hsz'
  have hl : sig.toList.length = sig.size := Array.length_toList
  have hsplit : Spec.beNat sig = beL (sig.toList.drop i.toInt.toNat) := by
    rw [beNat_eq]
    conv_lhs => rw [← List.take_append_drop i.toInt.toNat sig.toList, hS.zeros]
    exact beL_replicate_zero _ _
  unfold fin0
  rw [hi, D128.Proofs.WordsWide.ok_bind]
  by_cases hz : (i == Go.len sig) = true
  · rw [if_pos hz]
    refine ⟨_, rfl, ?_⟩
    have hi' : i.toInt = sig.size := by
      rw [beq_iff_eq] at hz
      rw [hz, len_toInt sig hsz']
    have h0 : Spec.beNat sig = 0 := by
      rw [hsplit, List.drop_of_length_le (by omega)]
      rfl
    unfold Res0
    rw [if_pos h0]
  · rw [if_neg hz]
    have hne : i.toInt ≠ sig.size := by
      intro he
      apply hz
      rw [beq_iff_eq, ← Int64.toInt_inj, len_toInt sig hsz']
      exact he
    have hlt : i.toInt < sig.size := by have := hS.hi; omega
    have hlo := hS.lo
    have hd0 : sig.toList.getD i.toInt.toNat 0 ≠ 0 := by
      rcases hend with h | h
      · exact absurd h hne
      · exact h
    rw [show Go.idx i = i.toInt from rfl, bsliceFrom_eq sig i.toInt hlo hS.hi,
      D128.Proofs.WordsWide.ok_bind]
    have htl : (sig.extract i.toInt.toNat sig.size).toList = sig.toList.drop i.toInt.toNat :=
      extract_toList sig _
    have hts : (sig.extract i.toInt.toNat sig.size).size = sig.size - i.toInt.toNat := by
      rw [← Array.length_toList, htl, List.length_drop, hl]
    have hhead : (sig.extract i.toInt.toNat sig.size).toList.getD 0 0 ≠ 0 := by
      rw [htl, List.getD_eq_getElem?_getD, List.getElem?_drop, Nat.add_zero,
        ← List.getD_eq_getElem?_getD]
      exact hd0
    have hbe : Spec.beNat (sig.extract i.toInt.toNat sig.size) = Spec.beNat sig := by
      rw [hsplit, beNat_eq, htl]
    obtain ⟨r, hr, hres⟩ := big_ok d neg (sig.extract i.toInt.toNat sig.size) exp
      (by rw [hts]; omega) (by rw [hts]; omega) hhead
    refine ⟨r, hr, ?_⟩
    have hpos := beNat_pos _ (by rw [hts]; omega) hhead
    rw [hbe] at hres hpos
    unfold Res0
    rw [if_neg (by omega)]
    exact hres

/-! ## `Gen.Decimal.Compose` by form -/

theorem Compose_form0 (d : Gen.Decimal) (neg : Bool) (sig : Go.Bytes) (exp : Int32)
    (hsz : sig.size < 2 ^ 60) :
    ∃ r, Gen.Decimal.Compose d 0 neg sig exp = .ok r ∧ Res0 d neg (Spec.beNat sig) exp.toInt r := by
  rw [Compose_eq]
  exact fin0_ok d neg sig exp hsz

theorem Compose_form1 (d : Gen.Decimal) (neg : Bool) (sig : Go.Bytes) (exp : Int32) :
    Gen.Decimal.Compose d 1 neg sig exp = .ok (Gen.inf neg, Go.Err.nil) := by
  rw [Compose_eq]; rfl

theorem Compose_form2 (d : Gen.Decimal) (neg : Bool) (sig : Go.Bytes) (exp : Int32) :
    Gen.Decimal.Compose d 2 neg sig exp = .ok (Gen.nan 1 0 0, Go.Err.nil) := by
  rw [Compose_eq]; rfl

theorem Compose_formOther (d : Gen.Decimal) (form : UInt8) (neg : Bool) (sig : Go.Bytes) (exp : Int32)
    (h0 : form ≠ 0) (h1 : form ≠ 1) (h2 : form ≠ 2) :
    Gen.Decimal.Compose d form neg sig exp = .ok (d, Go.Err.composeFormError) := by
  rw [Compose_eq]
  unfold staged
  rw [if_neg (by simpa using h0), if_neg (by simpa using h1), if_neg (by simpa using h2)]
  rfl

end CS
