/-
  D128/Proofs/ComposeSqlMid.lean — the middle stage of `Decimal.Compose` (`CS.mid`, see
  ComposeSqlDefs.lean): a coefficient of at most 32 bytes (first byte non-zero) is assembled into a
  `uint256` (more than 16 bytes; then divided by 10^19 while above 2^192 and by 10^4 while above 2^128,
  every remainder having to be zero) or directly into a `uint128`, and handed to `CS.tail`.

  Provided (namespace `CS`):
  * `len_toInt`, Int64 helpers, `bget_triple` (spec of `Go.bget`), `tail_spec` (spec form of `tail_triple`)
  * `Asm`, `Asm_init/_idx/_step/_exit/_lt` : the byte-assembly loops; `U256_push`, `U128_push`
  * `DL`, `DL_rem/_div/_ovf/_step`          : exact division by 10^k above a threshold (ℕ level);
    `I256_*`, `I192_*` the two word-level loops
  * `beNat_ge`, `beNat_pos`
  * `mid_triple`, `mid_ok` : for `1 ≤ sig.size ≤ 32`, `sig[0] ≠ 0`:
        `∃ r, mid d neg sig exp = .ok r ∧ Res d neg (beNat sig · 10^exp) r`
-/
import D128.Proofs.ComposeSqlTail
import D128.Proofs.ComposeSqlBytes
import D128.Proofs.WordsWide
import D128.Proofs.WordsWideShift
import Std.Tactic.Do
set_option autoImplicit false
set_option maxRecDepth 4096
open Std.Do
set_option mvcgen.warning false

namespace CS
open SpecRound (Member)
open CanonPf (ok_of_triple w1_gt_iff mul10_toNat)
open D128.Proofs.WordsWide

local notation "𝔳[" d "]" => Spec.interp (Gen.Decimal.lo d) (Gen.Decimal.hi d)

theorem len_toInt (b : Go.Bytes) (h : b.size < 2 ^ 63) : (Go.len b).toInt = (b.size : Int) := by
  unfold Go.len
  rw [Int64.toInt_ofNat_of_lt h]

theorem i64_lt_lit (e k : Int64) : (decide (e < k) = true) ↔ e.toInt < k.toInt := by
  simp only [decide_eq_true_eq, Int64.lt_iff_toInt_lt]

theorem i64_gt_lit (e k : Int64) : (decide (e > k) = true) ↔ k.toInt < e.toInt := by
  simp only [decide_eq_true_eq, gt_iff_lt, Int64.lt_iff_toInt_lt]

theorem i64_add_one (a : Int64) (h : a.toInt < 2 ^ 63 - 1) : (a + 1).toInt = a.toInt + 1 := by
  have h1 := a.le_toInt
  have e1 : (1 : Int64).toInt = 1 := by decide
  rw [Int64.toInt_add, e1]
  apply Int.bmod_eq_of_le <;> simp only [Nat.reducePow, Int.reducePow] at * <;> omega

/-- the accumulated value after reading `i` bytes -/
structure Asm (sig : Go.Bytes) (n : Nat) (i : Int64) : Prop where
  lo : 1 ≤ i.toInt
  hi : i.toInt ≤ sig.size
  val : n = beL (sig.toList.take i.toInt.toNat)

theorem Asm_init (sig : Go.Bytes) (h1 : 1 ≤ sig.size) : Asm sig (sig.toList.getD 0 0).toNat 1 := by
  refine ⟨by decide, by simpa using h1, ?_⟩
  have e1 : (1 : Int64).toInt.toNat = 1 := by decide
  rw [e1]
  have hl : sig.toList.length = sig.size := Array.length_toList
  cases hs : sig.toList with
  | nil => rw [hs] at hl; simp at hl; omega
  | cons x t => simp [beL]

theorem Asm_idx (sig : Go.Bytes) (hsz : sig.size < 2 ^ 63) (n : Nat) (i : Int64) (h : Asm sig n i)
    (hc : decide (i < Go.len sig) = true) : 0 ≤ Go.idx i ∧ (Go.idx i).toNat < sig.size := by
  rw [i64_lt_lit, len_toInt sig hsz] at hc
  have := h.lo
  show 0 ≤ i.toInt ∧ i.toInt.toNat < sig.size
  omega

theorem Asm_step (sig : Go.Bytes) (hsz : sig.size < 2 ^ 63) (n : Nat) (i : Int64) (h : Asm sig n i)
    (hc : decide (i < Go.len sig) = true) :
    Asm sig (n * 256 + (sig.toList.getD (Go.idx i).toNat 0).toNat) (i + 1) ∧
      (sig.size - (i + 1).toInt.toNat) < (sig.size - i.toInt.toNat) := by
  rw [i64_lt_lit, len_toInt sig hsz] at hc
  obtain ⟨lo, hi, val⟩ := h
  have hs : (i + 1).toInt = i.toInt + 1 := i64_add_one _ (by simp only [Int.reducePow]; omega)
  refine ⟨⟨by rw [hs]; omega, by rw [hs]; omega, ?_⟩, by rw [hs]; omega⟩
  have e1 : (i.toInt + 1).toNat = i.toInt.toNat + 1 := by omega
  show _ = beL (sig.toList.take (i + 1).toInt.toNat)
  rw [hs, e1, List.take_add_one, val]
  have hl : sig.toList.length = sig.size := Array.length_toList
  have hlt : i.toInt.toNat < sig.toList.length := by omega
  have e2 : sig.toList[i.toInt.toNat]?.toList = [sig.toList.getD i.toInt.toNat 0] := by
    rw [List.getD_eq_getElem?_getD, List.getElem?_eq_getElem hlt]; rfl
  rw [e2, beL_append_one]
  rfl

theorem Asm_exit (sig : Go.Bytes) (hsz : sig.size < 2 ^ 63) (n : Nat) (i : Int64) (h : Asm sig n i)
    (hc : ¬ decide (i < Go.len sig) = true) : n = Spec.beNat sig := by
  rw [i64_lt_lit, len_toInt sig hsz] at hc
  obtain ⟨lo, hi, val⟩ := h
  have hl : sig.toList.length = sig.size := Array.length_toList
  rw [val, beNat_eq, List.take_of_length_le (by omega)]

theorem Asm_lt (sig : Go.Bytes) (n : Nat) (i : Int64) (h : Asm sig n i) : n < 256 ^ i.toInt.toNat := by
  obtain ⟨lo, hi, val⟩ := h
  have hl : sig.toList.length = sig.size := Array.length_toList
  rw [val]
  refine Nat.lt_of_lt_of_le (beL_lt _) (Nat.pow_le_pow_right (by norm_num) ?_)
  rw [List.length_take]; omega


theorem u8_u64 (t : UInt8) : (Go.conv t : UInt64).toNat = t.toNat := Enc.conv_u8_u64 t

theorem U256_push (s : U256) (t : UInt8) (h : s.toNat * 256 < 2 ^ 256) :
    (U256.mk ((Gen.U256.lsh s 8).w0 ||| (Go.conv t : UInt64)) (Gen.U256.lsh s 8).w1
      (Gen.U256.lsh s 8).w2 (Gen.U256.lsh s 8).w3).toNat = s.toNat * 256 + t.toNat := by
  have hl := U256_lsh_toNat s 8
  have e8 : (8 : UInt64).toNat = 8 := rfl
  rw [e8, Nat.mod_eq_of_lt (by simpa using h)] at hl
  have ht := t.toNat_lt
  have hw0 : (Gen.U256.lsh s 8).w0.toNat % 2 ^ 8 = 0 := by
    have := (Gen.U256.lsh s 8).w0.toNat_lt
    have := (Gen.U256.lsh s 8).w1.toNat_lt
    simp only [U256.toNat] at hl
    omega
  have hor := UInt64.toNat_or_of_disjoint (Gen.U256.lsh s 8).w0 (Go.conv t : UInt64) 8 hw0
    (by rw [u8_u64]; simpa using ht)
  simp only [U256.toNat] at hl ⊢
  rw [hor, u8_u64]
  omega

theorem U128_push (s : U128) (t : UInt8) (h : s.toNat * 256 < 2 ^ 128) :
    (U128.mk ((Gen.U128.lsh s 8).w0 ||| (Go.conv t : UInt64)) (Gen.U128.lsh s 8).w1).toNat
      = s.toNat * 256 + t.toNat := by
  have hl := U128_lsh_toNat s 8
  have e8 : (8 : UInt64).toNat = 8 := rfl
  rw [e8, Nat.mod_eq_of_lt (by simpa using h)] at hl
  have ht := t.toNat_lt
  have hw0 : (Gen.U128.lsh s 8).w0.toNat % 2 ^ 8 = 0 := by
    have := (Gen.U128.lsh s 8).w0.toNat_lt
    simp only [U128.toNat] at hl
    omega
  have hor := UInt64.toNat_or_of_disjoint (Gen.U128.lsh s 8).w0 (Go.conv t : UInt64) 8 hw0
    (by rw [u8_u64]; simpa using ht)
  simp only [U128.toNat] at hl ⊢
  rw [hor, u8_u64]
  omega


/-! ## the exact-division loops (natural-number level) -/

structure DL (V0 : ℚ) (e : Int) (n : Nat) : Prop where
  big : Spec.Cmax < n
  val : (n : ℚ) * (10 : ℚ) ^ e = V0
  rng : e ≤ 6111

theorem DL_rem {V0 : ℚ} {e : Int} {n : Nat} (k T : Nat) (hk : 1 ≤ k)
    (hT : Spec.Cmax * 10 ^ (k - 1) < T) (h : DL V0 e n) (hn : T ≤ n) (hr : n % 10 ^ k ≠ 0) :
    ¬ Member V0 := by
  intro hm
  rw [← h.val] at hm
  have := member_dvd k hk (by omega) hm
  exact hr (Nat.mod_eq_zero_of_dvd this)

theorem DL_div {V0 : ℚ} {e : Int} {n : Nat} (k T : Nat)
    (hT : (Spec.Cmax + 1) * 10 ^ k ≤ T) (h : DL V0 e n) (hn : T ≤ n) (hr : n % 10 ^ k = 0) :
    Spec.Cmax < n / 10 ^ k ∧ ((n / 10 ^ k : Nat) : ℚ) * (10 : ℚ) ^ (e + (k : Int)) = V0 := by
  have hp : 0 < 10 ^ k := by positivity
  refine ⟨?_, ?_⟩
  · have : Spec.Cmax + 1 ≤ n / 10 ^ k := (Nat.le_div_iff_mul_le hp).2 (by omega)
    omega
  · rw [← h.val]
    exact val_div n k e (Nat.dvd_of_mod_eq_zero hr)

theorem DL_ovf {V0 : ℚ} {e : Int} {n : Nat} (k T : Nat)
    (hT : (Spec.Cmax + 1) * 10 ^ k ≤ T) (h : DL V0 e n) (hn : T ≤ n) (hr : n % 10 ^ k = 0)
    (ho : 6111 < e + (k : Int)) : ¬ Member V0 := by
  obtain ⟨h1, h2⟩ := DL_div k T hT h hn hr
  intro hm
  rw [← h2] at hm
  have := member_hi (by rw [Emax_val]; exact ho) hm
  omega

theorem DL_step {V0 : ℚ} {e : Int} {n : Nat} (k T : Nat) (hk : 1 ≤ k)
    (hT : (Spec.Cmax + 1) * 10 ^ k ≤ T) (h : DL V0 e n) (hn : T ≤ n) (hr : n % 10 ^ k = 0)
    (ho : ¬ 6111 < e + (k : Int)) : DL V0 (e + (k : Int)) (n / 10 ^ k) ∧ n / 10 ^ k < n := by
  obtain ⟨h1, h2⟩ := DL_div k T hT h hn hr
  refine ⟨⟨h1, h2, by omega⟩, ?_⟩
  have hb := h.big
  apply Nat.div_lt_self (by omega)
  exact Nat.one_lt_pow (by omega) (by norm_num)

theorem T192 : (Spec.Cmax + 1) * 10 ^ 19 ≤ 2 ^ 192 := by rw [Cmax_val]; norm_num
theorem T128 : (Spec.Cmax + 1) * 10 ^ 4 ≤ 2 ^ 128 := by rw [Cmax_val]; norm_num

/-! ## the `div1e19` loop on 256 bits -/

theorem u64_gt_zero_iff (x : UInt64) : (decide (x > 0) = true) ↔ 0 < x.toNat := by
  simp only [decide_eq_true_eq, gt_iff_lt, UInt64.lt_iff_toNat_lt]; rfl

def I256 (V0 : ℚ) (s : Int32 × U256) : Prop := DL V0 s.1.toInt s.2.toNat

theorem w3_pos (x : U256) (h : decide (x.w3 > 0) = true) : 2 ^ 192 ≤ x.toNat := by
  rw [u64_gt_zero_iff] at h
  simp only [U256.toNat]; omega

theorem I256_rem (V0 : ℚ) (s : Int32 × U256) (h : I256 V0 s) (q : U256 × UInt64)
    (hq : q.1.toNat = s.2.toNat / 10000000000000000000 ∧ q.2.toNat = s.2.toNat % 10000000000000000000)
    (hc : decide (s.2.w3 > 0) = true) (hr : (q.2 != 0) = true) : ¬ Member V0 := by
  rw [u64_ne_zero_iff] at hr
  exact DL_rem 19 (2 ^ 192) (by norm_num) two192_gt h (w3_pos _ hc)
    (by rw [show (10 : Nat) ^ 19 = 10000000000000000000 by norm_num, ← hq.2]; omega)

theorem add19 (e : Int32) (h : e.toInt ≤ 6111) : (e + 19).toInt = e.toInt + 19 := by
  have := e.le_toInt
  apply i32_add <;> rw [i32_19] <;> simp only [Int.reducePow] at * <;> omega

theorem add4 (e : Int32) (h : e.toInt ≤ 6111) : (e + 4).toInt = e.toInt + 4 := by
  have := e.le_toInt
  apply i32_add <;> rw [i32_4] <;> simp only [Int.reducePow] at * <;> omega

theorem I256_ovf (V0 : ℚ) (s : Int32 × U256) (h : I256 V0 s) (q : U256 × UInt64)
    (hq : q.1.toNat = s.2.toNat / 10000000000000000000 ∧ q.2.toNat = s.2.toNat % 10000000000000000000)
    (hc : decide (s.2.w3 > 0) = true) (hr : ¬ (q.2 != 0) = true)
    (ho : decide (s.1 + 19 > (6111 : Int32)) = true) : ¬ Member V0 := by
  rw [u64_ne_zero_iff] at hr
  rw [i32_gt_lit, i32_6111, add19 _ h.rng] at ho
  exact DL_ovf 19 (2 ^ 192) T192 h (w3_pos _ hc)
    (by rw [show (10 : Nat) ^ 19 = 10000000000000000000 by norm_num, ← hq.2]; omega) (by simpa using ho)

theorem I256_step (V0 : ℚ) (s : Int32 × U256) (h : I256 V0 s) (q : U256 × UInt64)
    (hq : q.1.toNat = s.2.toNat / 10000000000000000000 ∧ q.2.toNat = s.2.toNat % 10000000000000000000)
    (hc : decide (s.2.w3 > 0) = true) (hr : ¬ (q.2 != 0) = true)
    (ho : ¬ decide (s.1 + 19 > (6111 : Int32)) = true) :
    I256 V0 (s.1 + 19, q.1) ∧ q.1.toNat < s.2.toNat := by
  rw [u64_ne_zero_iff] at hr
  rw [i32_gt_lit, i32_6111, add19 _ h.rng] at ho
  have := DL_step 19 (2 ^ 192) (by norm_num) T192 h (w3_pos _ hc)
    (by rw [show (10 : Nat) ^ 19 = 10000000000000000000 by norm_num, ← hq.2]; omega) (by simpa using ho)
  unfold I256
  show DL V0 (s.1 + 19).toInt q.1.toNat ∧ _
  rw [add19 _ h.rng, hq.1]
  simpa using this

/-! ## the `div10000` loop on 192 bits -/

def I192 (V0 : ℚ) (s : Int32 × U192) : Prop := DL V0 s.1.toInt s.2.toNat

theorem I256_exit (V0 : ℚ) (s : Int32 × U256) (h : I256 V0 s) (hc : ¬ decide (s.2.w3 > 0) = true) :
    I192 V0 (s.1, U192.mk s.2.w0 s.2.w1 s.2.w2) := by
  rw [u64_gt_zero_iff] at hc
  have e : (U192.mk s.2.w0 s.2.w1 s.2.w2).toNat = s.2.toNat := by
    simp only [U192.toNat, U256.toNat]; omega
  unfold I192
  show DL V0 s.1.toInt (U192.mk s.2.w0 s.2.w1 s.2.w2).toNat
  rw [e]; exact h

theorem w2_pos (x : U192) (h : decide (x.w2 > 0) = true) : 2 ^ 128 ≤ x.toNat := by
  rw [u64_gt_zero_iff] at h
  simp only [U192.toNat]; omega

theorem I192_rem (V0 : ℚ) (s : Int32 × U192) (h : I192 V0 s) (q : U192 × UInt64)
    (hq : q.1.toNat = s.2.toNat / 10000 ∧ q.2.toNat = s.2.toNat % 10000)
    (hc : decide (s.2.w2 > 0) = true) (hr : (q.2 != 0) = true) : ¬ Member V0 := by
  rw [u64_ne_zero_iff] at hr
  exact DL_rem 4 (2 ^ 128) (by norm_num) two128_gt h (w2_pos _ hc)
    (by rw [show (10 : Nat) ^ 4 = 10000 by norm_num, ← hq.2]; omega)

theorem I192_ovf (V0 : ℚ) (s : Int32 × U192) (h : I192 V0 s) (q : U192 × UInt64)
    (hq : q.1.toNat = s.2.toNat / 10000 ∧ q.2.toNat = s.2.toNat % 10000)
    (hc : decide (s.2.w2 > 0) = true) (hr : ¬ (q.2 != 0) = true)
    (ho : decide (s.1 + 4 > (6111 : Int32)) = true) : ¬ Member V0 := by
  rw [u64_ne_zero_iff] at hr
  rw [i32_gt_lit, i32_6111, add4 _ h.rng] at ho
  exact DL_ovf 4 (2 ^ 128) T128 h (w2_pos _ hc)
    (by rw [show (10 : Nat) ^ 4 = 10000 by norm_num, ← hq.2]; omega) (by simpa using ho)

theorem I192_step (V0 : ℚ) (s : Int32 × U192) (h : I192 V0 s) (q : U192 × UInt64)
    (hq : q.1.toNat = s.2.toNat / 10000 ∧ q.2.toNat = s.2.toNat % 10000)
    (hc : decide (s.2.w2 > 0) = true) (hr : ¬ (q.2 != 0) = true)
    (ho : ¬ decide (s.1 + 4 > (6111 : Int32)) = true) :
    I192 V0 (s.1 + 4, q.1) ∧ q.1.toNat < s.2.toNat := by
  rw [u64_ne_zero_iff] at hr
  rw [i32_gt_lit, i32_6111, add4 _ h.rng] at ho
  have := DL_step 4 (2 ^ 128) (by norm_num) T128 h (w2_pos _ hc)
    (by rw [show (10 : Nat) ^ 4 = 10000 by norm_num, ← hq.2]; omega) (by simpa using ho)
  unfold I192
  show DL V0 (s.1 + 4).toInt q.1.toNat ∧ _
  rw [add4 _ h.rng, hq.1]
  simpa using this

/-- after the `div10000` loop the coefficient fits 128 bits -/
theorem I192_exit (V0 : ℚ) (s : Int32 × U192) (h : I192 V0 s) (hc : ¬ decide (s.2.w2 > 0) = true) :
    0 < (U128.mk s.2.w0 s.2.w1).toNat ∧
      ((U128.mk s.2.w0 s.2.w1).toNat : ℚ) * (10 : ℚ) ^ s.1.toInt = V0 := by
  rw [u64_gt_zero_iff] at hc
  have e : (U128.mk s.2.w0 s.2.w1).toNat = s.2.toNat := by
    simp only [U192.toNat, U128.toNat]; omega
  rw [e]
  exact ⟨by have := h.big; omega, h.val⟩


/-! ## specs of the callees -/

theorem bget_eq (b : Go.Bytes) (i : Int) (h0 : 0 ≤ i) (h1 : i.toNat < b.size) :
    Go.bget b i = .ok (b[i.toNat]'h1) := by
  unfold Go.bget; rw [dif_pos ⟨h0, h1⟩]; rfl

@[spec] theorem bget_triple (b : Go.Bytes) (i : Int) :
    ⦃⌜0 ≤ i ∧ i.toNat < b.size⌝⦄ Go.bget b i ⦃⇓ r => ⌜r = b.toList.getD i.toNat 0⌝⦄ := by
  mintro ⌜h⌝
  rw [bget_eq b i h.1 h.2]
  exact Triple.pure (m := Go.GoM) _ (by simp [h.2])

@[spec] theorem tail_spec (d : Gen.Decimal) (neg : Bool) (exp : Int32) (sig : U128) :
    ⦃⌜0 < sig.toNat⌝⦄ tail d neg exp sig
    ⦃⇓ r => ⌜Res d neg ((sig.toNat : ℚ) * (10 : ℚ) ^ exp.toInt) r⌝⦄ := by
  by_cases h : 0 < sig.toNat
  · simpa [h] using tail_triple d neg exp sig h _ rfl
  · simp [Triple, h]

/-! ## size of the assembled value -/

theorem beNat_ge (sig : Go.Bytes) (h1 : 1 ≤ sig.size) (hd : sig.toList.getD 0 0 ≠ 0) :
    256 ^ (sig.size - 1) ≤ Spec.beNat sig := by
  have hl : sig.toList.length = sig.size := Array.length_toList
  rw [beNat_eq]
  cases hs : sig.toList with
  | nil => rw [hs] at hl; simp at hl; omega
  | cons x t =>
    rw [hs] at hd hl
    simp only [List.getD_cons_zero] at hd
    have : sig.size - 1 = t.length := by simp at hl; omega
    rw [this]
    exact beL_ge x t hd

theorem beNat_pos (sig : Go.Bytes) (h1 : 1 ≤ sig.size) (hd : sig.toList.getD 0 0 ≠ 0) :
    0 < Spec.beNat sig :=
  Nat.lt_of_lt_of_le (by positivity) (beNat_ge sig h1 hd)

theorem i64_16 : (16 : Int64).toInt = 16 := by decide
theorem i64_32 : (32 : Int64).toInt = 32 := by decide

/-- exit condition of the `div1e19` loop -/
def X256 (V0 : ℚ) (s : Int32 × U256) : Prop := I192 V0 (s.1, U192.mk s.2.w0 s.2.w1 s.2.w2)

/-- exit condition of the `div10000` loop -/
def X192 (V0 : ℚ) (s : Int32 × U192) : Prop :=
  0 < (U128.mk s.2.w0 s.2.w1).toNat ∧ ((U128.mk s.2.w0 s.2.w1).toNat : ℚ) * (10 : ℚ) ^ s.1.toInt = V0

theorem U256_init_toNat (r : UInt8) :
    (U256.mk (Go.conv r : UInt64) (default : U256).w1 (default : U256).w2 (default : U256).w3).toNat
      = r.toNat := by
  have e1 : (default : U256).w1 = 0 := rfl
  have e2 : (default : U256).w2 = 0 := rfl
  have e3 : (default : U256).w3 = 0 := rfl
  simp only [U256.toNat, e1, e2, e3, u8_u64]
  simp

theorem U128_init_toNat (r : UInt8) :
    (U128.mk (Go.conv r : UInt64) (default : U128).w1).toNat = r.toNat := by
  have e1 : (default : U128).w1 = 0 := rfl
  simp only [U128.toNat, e1, u8_u64]
  simp

theorem A256_step (sig : Go.Bytes) (hsz : sig.size < 2 ^ 63) (hle : sig.size ≤ 32) (b : U256 × Int64)
    (h : Asm sig b.1.toNat b.2) (hc : decide (b.2 < Go.len sig) = true) (r : UInt8)
    (hr : r = sig.toList.getD (Go.idx b.2).toNat 0) :
    Asm sig (U256.mk ((Gen.U256.lsh b.1 8).w0 ||| (Go.conv r : UInt64)) (Gen.U256.lsh b.1 8).w1
      (Gen.U256.lsh b.1 8).w2 (Gen.U256.lsh b.1 8).w3).toNat (b.2 + 1) ∧
      (sig.size - (b.2 + 1).toInt.toNat) < (sig.size - b.2.toInt.toNat) := by
  have hlt := Asm_lt sig _ _ h
  have hc' := hc
  rw [i64_lt_lit, len_toInt sig hsz] at hc'
  have hlo := h.lo
  have hb : b.1.toNat * 256 < 2 ^ 256 := by
    have h31 : 256 ^ b.2.toInt.toNat ≤ 256 ^ 31 := Nat.pow_le_pow_right (by norm_num) (by omega)
    have e : (256 : Nat) ^ 31 * 256 = 2 ^ 256 := by norm_num
    omega
  rw [U256_push _ _ hb, hr]
  exact Asm_step sig hsz _ _ h hc

theorem A128_step (sig : Go.Bytes) (hsz : sig.size < 2 ^ 63) (hle : sig.size ≤ 16) (b : U128 × Int64)
    (h : Asm sig b.1.toNat b.2) (hc : decide (b.2 < Go.len sig) = true) (r : UInt8)
    (hr : r = sig.toList.getD (Go.idx b.2).toNat 0) :
    Asm sig (U128.mk ((Gen.U128.lsh b.1 8).w0 ||| (Go.conv r : UInt64)) (Gen.U128.lsh b.1 8).w1).toNat
      (b.2 + 1) ∧ (sig.size - (b.2 + 1).toInt.toNat) < (sig.size - b.2.toInt.toNat) := by
  have hlt := Asm_lt sig _ _ h
  have hc' := hc
  rw [i64_lt_lit, len_toInt sig hsz] at hc'
  have hlo := h.lo
  have hb : b.1.toNat * 256 < 2 ^ 128 := by
    have h15 : 256 ^ b.2.toInt.toNat ≤ 256 ^ 15 := Nat.pow_le_pow_right (by norm_num) (by omega)
    have e : (256 : Nat) ^ 15 * 256 = 2 ^ 128 := by norm_num
    omega
  rw [U128_push _ _ hb, hr]
  exact Asm_step sig hsz _ _ h hc

/-- more than 16 bytes: the coefficient exceeds `Cmax` -/
theorem long_big (sig : Go.Bytes) (hsz : sig.size < 2 ^ 63) (h1 : 1 ≤ sig.size)
    (hd : sig.toList.getD 0 0 ≠ 0) (hc : decide (Go.len sig > (16 : Int64)) = true) :
    2 ^ 128 ≤ Spec.beNat sig := by
  rw [i64_gt_lit, len_toInt sig hsz, i64_16] at hc
  have h16 : 16 ≤ sig.size - 1 := by omega
  have := beNat_ge sig h1 hd
  have e : (2 : Nat) ^ 128 = 256 ^ 16 := by norm_num
  rw [e]
  exact Nat.le_trans (Nat.pow_le_pow_right (by norm_num) h16) this

theorem long_ovf (sig : Go.Bytes) (hsz : sig.size < 2 ^ 63) (h1 : 1 ≤ sig.size)
    (hd : sig.toList.getD 0 0 ≠ 0) (exp : Int32) (V0 : ℚ)
    (hV : (Spec.beNat sig : ℚ) * (10 : ℚ) ^ exp.toInt = V0)
    (hc : decide (Go.len sig > (16 : Int64)) = true) (ho : decide (exp > (6111 : Int32)) = true) :
    ¬ Member V0 := by
  have hb := long_big sig hsz h1 hd hc
  rw [i32_gt_lit, i32_6111] at ho
  intro hm
  rw [← hV] at hm
  have := member_hi (by rw [Emax_val]; exact ho) hm
  have := Cmax_val
  omega

theorem long_init (sig : Go.Bytes) (hsz : sig.size < 2 ^ 63) (h1 : 1 ≤ sig.size)
    (hd : sig.toList.getD 0 0 ≠ 0) (exp : Int32) (V0 : ℚ)
    (hV : (Spec.beNat sig : ℚ) * (10 : ℚ) ^ exp.toInt = V0)
    (hc : decide (Go.len sig > (16 : Int64)) = true) (ho : ¬ decide (exp > (6111 : Int32)) = true)
    (x : U256) (hx : x.toNat = Spec.beNat sig) : I256 V0 (exp, x) := by
  have hb := long_big sig hsz h1 hd hc
  rw [i32_gt_lit, i32_6111] at ho
  have := Cmax_val
  exact ⟨by show Spec.Cmax < x.toNat; omega, by show (x.toNat : ℚ) * _ = V0; rw [hx]; exact hV,
    by show exp.toInt ≤ 6111; omega⟩

theorem mid_triple (d : Gen.Decimal) (neg : Bool) (sig : Go.Bytes) (exp : Int32)
    (hsz : sig.size < 2 ^ 63) (h1 : 1 ≤ sig.size) (hle : sig.size ≤ 32)
    (hd : sig.toList.getD 0 0 ≠ 0)
    (V0 : ℚ) (hV : (Spec.beNat sig : ℚ) * (10 : ℚ) ^ exp.toInt = V0) :
    ⦃⌜True⌝⦄ mid d neg sig exp ⦃⇓ r => ⌜Res d neg V0 r⌝⦄ := by
  mvcgen [mid]
  case inv1 => exact fun s => ⟨sig.size - s.2.toInt.toNat⟩
  case inv2 =>
    exact ⇓ x => match x with
      | .inl s => ⌜Asm sig s.1.toNat s.2⌝
      | .inr s => ⌜s.1.toNat = Spec.beNat sig⌝
  case inv3 => exact fun s => ⟨s.2.2.toNat⟩
  case inv4 =>
    exact ⇓ x => match x with
      | .inl s => ⌜InvSt (I256 V0) s⌝
      | .inr s => ⌜ExitSt d V0 (X256 V0) s⌝
  case inv5 => exact fun s => ⟨s.2.2.toNat⟩
  case inv6 =>
    exact ⇓ x => match x with
      | .inl s => ⌜InvSt (I192 V0) s⌝
      | .inr s => ⌜ExitSt d V0 (X192 V0) s⌝
  case inv7 => exact fun s => ⟨sig.size - s.2.toInt.toNat⟩
  case inv8 =>
    exact ⇓ x => match x with
      | .inl s => ⌜Asm sig s.1.toNat s.2⌝
      | .inr s => ⌜s.1.toNat = Spec.beNat sig⌝
  case vc1 =>
    rename_i hlong hexp
    exact Res.err (long_ovf sig hsz h1 hd exp V0 hV hlong hexp)
  case vc3 =>
    rename_i b mb _ _ hc _ hinv
    exact Asm_idx sig hsz _ b.2 hinv.2 hc
  case vc4 =>
    rename_i b mb _ _ hc _ hinv r _ _ hr
    have hv : mb = sig.size - b.2.toInt.toNat := congrArg ULift.down hinv.1
    obtain ⟨h1', h2'⟩ := A256_step sig hsz hle b hinv.2 hc r hr
    exact ⟨_, rfl, by rw [hv]; exact h2', h1'⟩
  case vc5 =>
    rename_i b mb _ _ hc hinv
    exact Asm_exit sig hsz _ b.2 hinv.2 hc
  case vc6 =>
    rename_i r _ hr
    show Asm sig (U256.mk (Go.conv r : UInt64) (default : U256).w1 (default : U256).w2
      (default : U256).w3).toNat 1
    rw [U256_init_toNat, hr]
    exact Asm_init sig h1
  case vc7 =>
    rename_i b mb _ e _ hc hinv r sg _ hr hq
    exact ExitSt.ret d V0 (X256 V0) (e, sg) (I256_rem V0 b.2 hinv.2.2 r hq hc hr)
  case vc8 =>
    rename_i b mb _ _ _ hc hinv r sg _ hr e ho hq
    exact ExitSt.ret d V0 (X256 V0) (e, sg) (I256_ovf V0 b.2 hinv.2.2 r hq hc hr ho)
  case vc9 =>
    rename_i b mb _ _ _ hc hinv r sg _ hr e ho hq
    have hv : mb = b.2.2.toNat := congrArg ULift.down hinv.1
    obtain ⟨h1', h2'⟩ := I256_step V0 b.2 hinv.2.2 r hq hc hr ho
    exact ⟨_, rfl, by rw [hv]; exact h2', rfl, h1'⟩
  case vc10 =>
    rename_i b mb _ _ _ hc hinv
    exact I256_exit V0 b.2 hinv.2.2 hc
  case vc11 =>
    rename_i hlong hexp _ _ _ _ r _ h
    exact ⟨rfl, long_init sig hsz h1 hd exp V0 hV hlong hexp r.1 h⟩
  case vc12 =>
    rename_i r _ _ _ _ a x h
    exact ExitSt.of_some (h : ExitSt d V0 (X256 V0) r) x
  case vc13 =>
    rename_i b mb _ e _ hc hinv r sg _ hr hq
    exact ExitSt.ret d V0 (X192 V0) (e, sg) (I192_rem V0 b.2 hinv.2.2 r hq hc hr)
  case vc14 =>
    rename_i b mb _ _ _ hc hinv r sg _ hr e ho hq
    exact ExitSt.ret d V0 (X192 V0) (e, sg) (I192_ovf V0 b.2 hinv.2.2 r hq hc hr ho)
  case vc15 =>
    rename_i b mb _ _ _ hc hinv r sg _ hr e ho hq
    have hv : mb = b.2.2.toNat := congrArg ULift.down hinv.1
    obtain ⟨h1', h2'⟩ := I192_step V0 b.2 hinv.2.2 r hq hc hr ho
    exact ⟨_, rfl, by rw [hv]; exact h2', rfl, h1'⟩
  case vc16 =>
    rename_i b mb _ _ _ hc hinv
    exact I192_exit V0 b.2 hinv.2.2 hc
  case vc17 =>
    rename_i r _ _ _ _ x _ h
    have hx := ExitSt.of_none (h : ExitSt d V0 (X256 V0) r) x
    exact ⟨rfl, hx⟩
  case vc18 =>
    rename_i r _ _ _ _ a x h
    exact ExitSt.of_some (h : ExitSt d V0 (X192 V0) r) x
  case vc19 =>
    rename_i r _ _ _ _ x _ h
    exact (ExitSt.of_none (h : ExitSt d V0 (X192 V0) r) x).1
  case vc20 =>
    rename_i r1 _ _ _ _ x _ h r
    intro hres
    have hx := ExitSt.of_none (h : ExitSt d V0 (X192 V0) r1) x
    rw [← hx.2]
    exact hres
  case vc25 =>
    rename_i b mb _ _ hc _ hinv
    exact Asm_idx sig hsz _ b.2 hinv.2 hc
  case vc26 =>
    rename_i hshort _ _ _ b mb _ _ hc _ hinv r _ _ hr
    have hle16 : sig.size ≤ 16 := by
      rw [i64_gt_lit, len_toInt sig hsz, i64_16] at hshort; omega
    have hv : mb = sig.size - b.2.toInt.toNat := congrArg ULift.down hinv.1
    obtain ⟨h1', h2'⟩ := A128_step sig hsz hle16 b hinv.2 hc r hr
    exact ⟨_, rfl, by rw [hv]; exact h2', h1'⟩
  case vc27 =>
    rename_i b mb _ _ hc hinv
    exact Asm_exit sig hsz _ b.2 hinv.2 hc
  case vc28 =>
    rename_i r _ hr
    show Asm sig (U128.mk (Go.conv r : UInt64) (default : U128).w1).toNat 1
    rw [U128_init_toNat, hr]
    exact Asm_init sig h1
  case vc29 =>
    rename_i r _ h
    have h' : r.1.toNat = Spec.beNat sig := h
    show 0 < r.1.toNat
    rw [h']
    exact beNat_pos sig h1 hd
  case vc30 =>
    rename_i r1 _ h r
    intro hres
    have h' : r1.1.toNat = Spec.beNat sig := h
    rw [← hV, ← h']
    exact hres
  all_goals exact ExceptConds.entails.refl _

theorem mid_ok (d : Gen.Decimal) (neg : Bool) (sig : Go.Bytes) (exp : Int32)
    (hsz : sig.size < 2 ^ 63) (h1 : 1 ≤ sig.size) (hle : sig.size ≤ 32)
    (hd : sig.toList.getD 0 0 ≠ 0) :
    ∃ r, mid d neg sig exp = .ok r ∧
      Res d neg ((Spec.beNat sig : ℚ) * (10 : ℚ) ^ exp.toInt) r :=
  ok_of_triple (mid_triple d neg sig exp hsz h1 hle hd _ rfl)

end CS
