/-
  D128/Proofs/D192QuoContract.lean — result equations and rational contracts of
  `decomposed192.quo` and `decomposed192.rcp` (Go: /repo/decomposed.go).

  * `floor_div_val`, `QFin.contract`, `truncO_val`, `ScUp.bounds`, `TrO.bounds` : bridging lemmas
  * `quo_ok`       : `o.sig ≠ 0 ⇒ ∃ x, quo d o t = .ok x ∧ QuoPost d o t x`   (all exponents, wrapping)
  * `quo_zero`     : `d.sig = 0 ⇒ quo d o t = .ok (⟨0,0⟩, t)` — also when `o.sig = 0`
  * `quo_contract` : `d.sig, o.sig ≠ 0`, exponents within ±16000:  with `o'` the divisor ACTUALLY USED
        (`o' = val o` if `o.sig < 0x18ff…ffff·2^128`; otherwise `o` with one or two low digits dropped,
        `o' ≤ val o ≤ o'·(1 + 2^-185)`):
          `val r ≤ val d / o' < val r + ulp r`,   flag `t' = t` iff nothing non-zero was dropped
          anywhere (`val r = val d / o' ∧ o' = val o`), else `t' = 1`;
          `val r = val d / o' ∨ 25·2^184 ≤ r.sig` (57 digits unless the division terminates);
          exponent range of the result.
        Hence w.r.t. the true quotient `Q`:  `Q - ulp r < val r ≤ Q·(1 + 2^-185)`.
  * `rcp_ok`, `rcp_contract` : the same for `rcp` (`1 / d'`).
  * FINDING (checked by `#guard` below): because the divisor is truncated, `quo`/`rcp` can return a
    value ABOVE the exact quotient, by up to ≈ 1.6e-56 relative — e.g. 24 units of the returned
    58-digit significand for `1 / (2^192-1)` — while the flag `1` claims the opposite direction
    ("exact value larger than the result").  A zero divisor with a non-zero numerator panics
    (`divZero`); `rcp` of zero panics.
-/
import D128.Proofs.D192Rcp
import Mathlib.Tactic.FieldSimp
set_option autoImplicit false
set_option maxRecDepth 4096
set_option exponentiation.threshold 512
set_option linter.unusedVariables false
open D128.Proofs.WordsWide

namespace D192

/-- rational reading of a floored quotient scaled by a power of ten. -/
theorem floor_div_val (Y Z : Nat) (hZ : 0 < Z) (F : Int) :
    ((Y / Z : Nat) : ℚ) * (10 : ℚ) ^ F ≤ (Y : ℚ) / Z * (10 : ℚ) ^ F ∧
    (Y : ℚ) / Z * (10 : ℚ) ^ F < ((Y / Z : Nat) : ℚ) * (10 : ℚ) ^ F + (10 : ℚ) ^ F ∧
    (((Y / Z : Nat) : ℚ) * (10 : ℚ) ^ F = (Y : ℚ) / Z * (10 : ℚ) ^ F ↔ Y % Z = 0) := by
  have hF : (0 : ℚ) < (10 : ℚ) ^ F := zpow_pos (by norm_num) _
  have hZq : (0 : ℚ) < (Z : ℚ) := by exact_mod_cast hZ
  have hdm : (Y : ℚ) = (Z : ℚ) * ((Y / Z : Nat) : ℚ) + ((Y % Z : Nat) : ℚ) := by
    have := Nat.div_add_mod Y Z
    exact_mod_cast this.symm
  have hr0 : (0 : ℚ) ≤ ((Y % Z : Nat) : ℚ) := Nat.cast_nonneg _
  have hr1 : ((Y % Z : Nat) : ℚ) < (Z : ℚ) := by
    have := Nat.mod_lt Y hZ
    exact_mod_cast this
  have hq : (Y : ℚ) / Z = ((Y / Z : Nat) : ℚ) + ((Y % Z : Nat) : ℚ) / Z := by
    rw [hdm]; field_simp
  generalize ((Y / Z : Nat) : ℚ) = s at *
  generalize hR : ((Y % Z : Nat) : ℚ) = R at *
  have hRZ0 : 0 ≤ R / Z := div_nonneg hr0 hZq.le
  have hRZ1 : R / Z < 1 := by rw [div_lt_one hZq]; exact hr1
  rw [hq]
  refine ⟨?_, ?_, ?_⟩
  · nlinarith
  · nlinarith
  · constructor
    · intro h
      have h1 : R / Z * 10 ^ F = 0 := by nlinarith
      have h2 : R / Z = 0 := by
        rcases mul_eq_zero.mp h1 with h | h
        · exact h
        · exact absurd h (ne_of_gt hF)
      have h3 : R = 0 := by
        rcases div_eq_zero_iff.mp h2 with h | h
        · exact h
        · exact absurd h (ne_of_gt hZq)
      rw [← hR] at h3
      exact_mod_cast h3
    · intro h
      have : R = 0 := by rw [← hR, h]; simp
      rw [this]; simp

theorem i16_sub_add_toInt (e0 : Int16) (c tt : Nat) (hc : c ≤ 59) (htt : tt ≤ 1)
    (hlo : -32700 ≤ e0.toInt) (hhi : e0.toInt ≤ 32700) :
    (e0 - Int16.ofNat c + Int16.ofNat tt).toInt = e0.toInt - c + tt := by
  have h1 : (Int16.ofNat c).toInt = c := Int16.toInt_ofNat_of_lt (by omega)
  have h2 : (Int16.ofNat tt).toInt = tt := Int16.toInt_ofNat_of_lt (by omega)
  have h3 : (e0 - Int16.ofNat c).toInt = e0.toInt - c := by
    rw [Int16.toInt_sub_of] <;> rw [h1] <;> omega
  rw [Int16.toInt_add_of] <;> rw [h3, h2] <;> omega

/-- rational reading of the result of the long division. -/
theorem QFin.contract {Dn On : Nat} {e0 : Int16} {t1 t' : Int8} {r : Gen.decomposed192}
    (h : QFin Dn On e0 t1 r t') (hOn : 0 < On) (hDn1 : LIM ≤ Dn) (hOnlt : On < 2 ^ 192)
    (hlo : -32700 ≤ e0.toInt) (hhi : e0.toInt ≤ 32700) :
    val r ≤ (Dn : ℚ) / On * (10 : ℚ) ^ e0.toInt ∧
    (Dn : ℚ) / On * (10 : ℚ) ^ e0.toInt < val r + ulp r ∧
    (val r = (Dn : ℚ) / On * (10 : ℚ) ^ e0.toInt → t' = t1) ∧
    (val r ≠ (Dn : ℚ) / On * (10 : ℚ) ^ e0.toInt → t' = 1) ∧
    (val r = (Dn : ℚ) / On * (10 : ℚ) ^ e0.toInt ∨ LIM ≤ r.sig.toNat) ∧
    e0.toInt - 59 ≤ r.exp.toInt ∧ r.exp.toInt ≤ e0.toInt + 1 ∧ 1 ≤ r.sig.toNat := by
  obtain ⟨c, tt, htt, hs, he, ht, hx, hL, h1⟩ := h
  have hZ : 0 < On * 10 ^ tt := Nat.mul_pos hOn (Nat.pow_pos (by norm_num))
  rw [Nat.div_div_eq_div_mul] at hs
  have hc : c ≤ 59 := by
    by_contra hcc
    have h60 : 10 ^ 60 ≤ 10 ^ c := Nat.pow_le_pow_right (by norm_num) (by omega)
    have hsl := U192.toNat_lt r.sig
    rw [hs, Nat.div_lt_iff_lt_mul hZ] at hsl
    have h10 : 10 ^ tt ≤ 10 := by
      calc 10 ^ tt ≤ 10 ^ 1 := Nat.pow_le_pow_right (by norm_num) htt
        _ = 10 := by norm_num
    have hZ' : On * 10 ^ tt ≤ 2 ^ 192 * 10 := Nat.mul_le_mul hOnlt.le h10
    have h2 : LIM * 10 ^ 60 ≤ Dn * 10 ^ c := Nat.mul_le_mul hDn1 h60
    have h3 : 2 ^ 192 * (On * 10 ^ tt) ≤ 2 ^ 192 * (2 ^ 192 * 10) := Nat.mul_le_mul_left _ hZ'
    unfold LIM at h2
    omega
  have hexp : r.exp.toInt = e0.toInt - c + tt := by
    rw [he]; exact i16_sub_add_toInt e0 c tt hc htt hlo hhi
  obtain ⟨f1, f2, f3⟩ := floor_div_val (Dn * 10 ^ c) (On * 10 ^ tt) hZ (e0.toInt - c + tt)
  have hOnq : (On : ℚ) ≠ 0 := by exact_mod_cast (Nat.pos_iff_ne_zero.mp hOn)
  have hX : ((Dn * 10 ^ c : Nat) : ℚ) / ((On * 10 ^ tt : Nat) : ℚ) * (10 : ℚ) ^ (e0.toInt - c + tt)
      = (Dn : ℚ) / On * (10 : ℚ) ^ e0.toInt := by
    have e1 : (10 : ℚ) ^ (e0.toInt - c + tt)
        = (10 : ℚ) ^ e0.toInt * ((10 : ℚ) ^ c)⁻¹ * (10 : ℚ) ^ tt := by
      rw [zpow_add₀ (by norm_num), zpow_sub₀ (by norm_num), zpow_natCast, zpow_natCast]
      rfl
    rw [e1]
    push_cast
    have hc0 : ((10 : ℚ) ^ c) ≠ 0 := pow_ne_zero _ (by norm_num)
    have ht0 : ((10 : ℚ) ^ tt) ≠ 0 := pow_ne_zero _ (by norm_num)
    field_simp
  rw [hX] at f1 f2 f3
  unfold val ulp
  rw [hexp, hs]
  refine ⟨f1, f2, ?_, ?_, ?_, by omega, by omega, by rw [← hs]; exact h1⟩
  · intro h; rw [ht, if_pos (f3.mp h)]
  · intro h; rw [ht, if_neg (fun h' => h (f3.mpr h'))]
  · rcases Nat.eq_zero_or_pos tt with h0 | h0
    · rcases hx with hx | hx
      · left
        apply f3.mpr
        rw [h0]; simpa using hx
      · right; rw [← hs]; exact hx
    · right; rw [← hs]; exact hL (by omega)

theorem ScUp.bounds {D : Nat} {e : Int16} {x : Gen.decomposed192} (h : ScUp D e x) (hD : 1 ≤ D) :
    ∃ a : Nat, a ≤ 57 ∧ x.sig.toNat = D * 10 ^ a ∧ x.exp = e - Int16.ofNat a := by
  obtain ⟨a, h1, h2⟩ := h
  refine ⟨a, ?_, h1, h2⟩
  by_contra hc
  have h58 : 10 ^ 58 ≤ 10 ^ a := Nat.pow_le_pow_right (by norm_num) (by omega)
  have := U192.toNat_lt x.sig
  have : 1 * 10 ^ 58 ≤ D * 10 ^ a := Nat.mul_le_mul hD h58
  omega

theorem TrO.bounds {O : Nat} {t0 : Int8} {e0 : Int16} {x : Gen.decomposed192 × Int8}
    (h : TrO O t0 e0 x) (hO : O < 2 ^ 192) :
    ∃ b : Nat, b ≤ 2 ∧ x.1.sig.toNat = O / 10 ^ b ∧ x.1.exp = e0 + Int16.ofNat b ∧
      x.2 = (if O % 10 ^ b = 0 then t0 else 1) ∧ (b = 0 ∨ (2 ^ 185 ≤ O / 10 ^ b ∧ OLIM ≤ O)) := by
  obtain ⟨b, h1, h2, h3, h4⟩ := h
  refine ⟨b, ?_, h1, h2, h3, by rw [← h1]; exact h4⟩
  rcases h4 with h4 | h4
  · omega
  · by_contra hc
    have h3' : 10 ^ 3 ≤ 10 ^ b := Nat.pow_le_pow_right (by norm_num) (by omega)
    have : O / 10 ^ b ≤ O / 10 ^ 3 := Nat.div_le_div_left h3' (by norm_num)
    omega

/-- the truncated divisor as a rational, and how far it is from the divisor itself -/
theorem truncO_val (O b : Nat) (E : Int) (hb : b = 0 ∨ 2 ^ 185 ≤ O / 10 ^ b) :
    ((O / 10 ^ b : Nat) : ℚ) * (10 : ℚ) ^ (E + b) ≤ (O : ℚ) * (10 : ℚ) ^ E ∧
    (O : ℚ) * (10 : ℚ) ^ E ≤ ((O / 10 ^ b : Nat) : ℚ) * (10 : ℚ) ^ (E + b) * (1 + 1 / 2 ^ 185) ∧
    (((O / 10 ^ b : Nat) : ℚ) * (10 : ℚ) ^ (E + b) = (O : ℚ) * (10 : ℚ) ^ E ↔ O % 10 ^ b = 0) := by
  obtain ⟨h1, h2, h3⟩ := trunc_val O b E
  refine ⟨h1, ?_, h3⟩
  have hE : (0 : ℚ) < (10 : ℚ) ^ (E + b) := zpow_pos (by norm_num) _
  rcases hb with hb | hb
  · subst hb
    simp only [Nat.pow_zero, Nat.div_one, Nat.cast_zero, add_zero]
    have : (0 : ℚ) ≤ (O : ℚ) * 10 ^ E := mul_nonneg (Nat.cast_nonneg _) (zpow_pos (by norm_num) _).le
    nlinarith
  · have hq : ((2 : ℚ) ^ 185) ≤ ((O / 10 ^ b : Nat) : ℚ) := by exact_mod_cast hb
    have : (10 : ℚ) ^ (E + b) ≤ ((O / 10 ^ b : Nat) : ℚ) * (10 : ℚ) ^ (E + b) * (1 / 2 ^ 185) := by
      have h2p : (0 : ℚ) < (2 : ℚ) ^ 185 := by positivity
      rw [mul_one_div, le_div_iff₀ h2p]
      nlinarith
    linarith

open Std.Do in
theorem quo_ok (d o : Gen.decomposed192) (t : Int8) (ho : o.sig.toNat ≠ 0) :
    ∃ x, Gen.decomposed192.quo d o t = .ok x ∧ QuoPost d o t x := by
  have h := quo_triple d o t
  have h' : ⦃⌜True⌝⦄ Gen.decomposed192.quo d o t ⦃⇓ x => ⌜QuoPost d o t x⌝⦄ := by
    simpa [ho] using h
  exact ok_of_triple h'

/-- `decomposed192.quo`, rational contract.  Hypotheses: both significands non-zero, exponents
within ±16000 (far inside the `int16` range; the callers stay within a few thousand).
`o'` is the divisor actually used: `o` itself if `o.sig < 0x18ff…ffff·2^128`, else `o` with its last
one or two digits dropped.  The result is `val d / o'` truncated toward zero at the result's own unit;
so relative to the true quotient `Q = val d / val o`: `Q - ulp r < val r ≤ Q·(1 + 2^-185)`. -/
theorem quo_contract (d o : Gen.decomposed192) (t : Int8) (hd : d.sig.toNat ≠ 0)
    (ho : o.sig.toNat ≠ 0) (hde : -16000 ≤ d.exp.toInt ∧ d.exp.toInt ≤ 16000)
    (hoe : -16000 ≤ o.exp.toInt ∧ o.exp.toInt ≤ 16000) :
    ∃ (r : Gen.decomposed192) (t' : Int8) (o' : ℚ), Gen.decomposed192.quo d o t = .ok (r, t') ∧
      0 < o' ∧ o' ≤ val o ∧ val o ≤ o' * (1 + 1 / 2 ^ 185) ∧ (o.sig.toNat < OLIM → o' = val o) ∧
      val r ≤ val d / o' ∧ val d / o' < val r + ulp r ∧
      ((val r = val d / o' ∧ o' = val o) → t' = t) ∧
      (¬ (val r = val d / o' ∧ o' = val o) → t' = 1) ∧
      (val r = val d / o' ∨ LIM ≤ r.sig.toNat) ∧ 1 ≤ r.sig.toNat ∧
      d.exp.toInt - o.exp.toInt - 118 ≤ r.exp.toInt ∧ r.exp.toInt ≤ d.exp.toInt - o.exp.toInt + 1 := by
  obtain ⟨⟨r, t'⟩, hr, hpost⟩ := quo_ok d o t ho
  rcases hpost with ⟨h0, -⟩ | ⟨-, d', o1, hfin, ⟨hsc, hdL⟩, ⟨htr, hoL⟩, ho1⟩
  · exact absurd h0 hd
  obtain ⟨a, ha, hds, hdexp⟩ := hsc.bounds (Nat.pos_of_ne_zero hd)
  obtain ⟨b, hb, hos, hoexp, hot, hob⟩ := htr.bounds (U192.toNat_lt _)
  have hka : (Int16.ofNat a).toInt = a := Int16.toInt_ofNat_of_lt (by omega)
  have hkb : (Int16.ofNat b).toInt = b := Int16.toInt_ofNat_of_lt (by omega)
  have hde' : d'.exp.toInt = d.exp.toInt - a := by
    rw [hdexp, Int16.toInt_sub_of] <;> rw [hka] <;> omega
  have hoe' : o1.1.exp.toInt = o.exp.toInt + b := by
    rw [hoexp, Int16.toInt_add_of] <;> rw [hkb] <;> omega
  have he0 : (d'.exp - o1.1.exp).toInt = d.exp.toInt - a - (o.exp.toInt + b) := by
    rw [Int16.toInt_sub_of] <;> rw [hde', hoe'] <;> omega
  have hOnpos : 0 < o1.1.sig.toNat := Nat.pos_of_ne_zero ho1
  obtain ⟨c1, c2, c3, c4, c5, c6, c7, c8⟩ := hfin.contract hOnpos hdL (U192.toNat_lt _)
    (by rw [he0]; omega) (by rw [he0]; omega)
  dsimp only at c1 c2 c3 c4 c5 c6 c7 c8
  -- the divisor actually used
  obtain ⟨u1, u2, u3⟩ := truncO_val o.sig.toNat b o.exp.toInt (by
    rcases hob with h | h
    · exact Or.inl h
    · exact Or.inr h.1)
  have hE2 : (0 : ℚ) < (10 : ℚ) ^ (o.exp.toInt + b) := zpow_pos (by norm_num) _
  have hOq : (0 : ℚ) < ((o.sig.toNat / 10 ^ b : Nat) : ℚ) := by
    rw [← hos]; exact_mod_cast hOnpos
  have ho'pos : (0 : ℚ) < ((o.sig.toNat / 10 ^ b : Nat) : ℚ) * (10 : ℚ) ^ (o.exp.toInt + b) :=
    mul_pos hOq hE2
  -- the exact quotient by the truncated divisor
  have hX : (d'.sig.toNat : ℚ) / o1.1.sig.toNat * (10 : ℚ) ^ (d'.exp - o1.1.exp).toInt
      = val d / (((o.sig.toNat / 10 ^ b : Nat) : ℚ) * (10 : ℚ) ^ (o.exp.toInt + b)) := by
    rw [he0, hds, hos]
    unfold val
    have e1 : (10 : ℚ) ^ (d.exp.toInt - a - (o.exp.toInt + b))
        = (10 : ℚ) ^ d.exp.toInt * ((10 : ℚ) ^ a)⁻¹ * ((10 : ℚ) ^ (o.exp.toInt + b))⁻¹ := by
      rw [zpow_sub₀ (by norm_num), zpow_sub₀ (by norm_num), zpow_natCast]
      rfl
    rw [e1]
    push_cast
    have ha0 : ((10 : ℚ) ^ a) ≠ 0 := pow_ne_zero _ (by norm_num)
    field_simp
  rw [hX] at c1 c2 c3 c4 c5
  rw [he0] at c6 c7
  refine ⟨r, t', _, hr, ho'pos, u1, u2, ?_, c1, c2, ?_, ?_, c5, c8, by omega, by omega⟩
  · intro hlt
    rcases hob with h | h
    · subst h; simp [val]
    · omega
  · rintro ⟨h1, h2⟩
    rw [c3 h1, hot, if_pos (u3.mp h2)]
  · intro hn
    by_cases h1 : val r = val d / (((o.sig.toNat / 10 ^ b : Nat) : ℚ) * (10 : ℚ) ^ (o.exp.toInt + b))
    · have h2 : ¬ (((o.sig.toNat / 10 ^ b : Nat) : ℚ) * (10 : ℚ) ^ (o.exp.toInt + b) = val o) :=
        fun h2 => hn ⟨h1, h2⟩
      rw [c3 h1, hot, if_neg (fun h => h2 (u3.mpr h))]
    · exact c4 h1

/-- a zero numerator returns zero with the flag passed through — also for a zero divisor. -/
theorem quo_zero (d o : Gen.decomposed192) (t : Int8) (hd : d.sig.toNat = 0) :
    Gen.decomposed192.quo d o t = .ok (⟨⟨0, 0, 0⟩, 0⟩, t) := by
  have hb := U192.bounds d.sig
  have h0 : d.sig.w0 = 0 := by
    apply UInt64.toNat_inj.mp; simp only [U192.toNat] at hd; simp; omega
  have h1 : d.sig.w1 = 0 := by
    apply UInt64.toNat_inj.mp; simp only [U192.toNat] at hd; simp; omega
  have h2 : d.sig.w2 = 0 := by
    apply UInt64.toNat_inj.mp; simp only [U192.toNat] at hd; simp; omega
  unfold Gen.decomposed192.quo
  simp -zeta only []
  rw [if_pos (by rw [h0, h1, h2]; rfl)]
  rfl

open Std.Do in
theorem rcp_ok (d : Gen.decomposed192) (t : Int8) (hd : d.sig.toNat ≠ 0) :
    ∃ x, Gen.decomposed192.rcp d t = .ok x ∧ RcpPost d t x := by
  have h := rcp_triple d t
  have h' : ⦃⌜True⌝⦄ Gen.decomposed192.rcp d t ⦃⇓ x => ⌜RcpPost d t x⌝⦄ := by
    simpa [hd] using h
  exact ok_of_triple h'

/-- `decomposed192.rcp`, rational contract (`d.sig ≠ 0`, exponent within ±16000): with `d'` the
operand after dropping at most two low digits (`d' = d` if `d.sig < 0x18ff…ffff·2^128`),
the result is `1 / d'` truncated toward zero at the result's own unit. -/
theorem rcp_contract (d : Gen.decomposed192) (t : Int8) (hd : d.sig.toNat ≠ 0)
    (hde : -16000 ≤ d.exp.toInt ∧ d.exp.toInt ≤ 16000) :
    ∃ (r : Gen.decomposed192) (t' : Int8) (d' : ℚ), Gen.decomposed192.rcp d t = .ok (r, t') ∧
      0 < d' ∧ d' ≤ val d ∧ val d ≤ d' * (1 + 1 / 2 ^ 185) ∧ (d.sig.toNat < OLIM → d' = val d) ∧
      val r ≤ 1 / d' ∧ 1 / d' < val r + ulp r ∧
      ((val r = 1 / d' ∧ d' = val d) → t' = t) ∧
      (¬ (val r = 1 / d' ∧ d' = val d) → t' = 1) ∧
      (val r = 1 / d' ∨ LIM ≤ r.sig.toNat) ∧ 1 ≤ r.sig.toNat ∧
      -57 - d.exp.toInt - 61 ≤ r.exp.toInt ∧ r.exp.toInt ≤ -57 - d.exp.toInt + 1 := by
  obtain ⟨⟨r, t'⟩, hr, o1, hfin, ⟨htr, hoL⟩, ho1⟩ := rcp_ok d t hd
  obtain ⟨b, hb, hos, hoexp, hot, hob⟩ := htr.bounds (U192.toNat_lt _)
  have hkb : (Int16.ofNat b).toInt = b := Int16.toInt_ofNat_of_lt (by omega)
  have hoe' : o1.1.exp.toInt = d.exp.toInt + b := by
    rw [hoexp, Int16.toInt_add_of] <;> rw [hkb] <;> omega
  have h57 : (-57 : Int16).toInt = -57 := by decide
  have he0 : (-57 - o1.1.exp).toInt = -57 - (d.exp.toInt + b) := by
    rw [Int16.toInt_sub_of] <;> rw [h57, hoe'] <;> omega
  have hOnpos : 0 < o1.1.sig.toNat := Nat.pos_of_ne_zero ho1
  obtain ⟨c1, c2, c3, c4, c5, c6, c7, c8⟩ := hfin.contract hOnpos (by unfold LIM; norm_num)
    (U192.toNat_lt _) (by rw [he0]; omega) (by rw [he0]; omega)
  dsimp only at c1 c2 c3 c4 c5 c6 c7 c8
  obtain ⟨u1, u2, u3⟩ := truncO_val d.sig.toNat b d.exp.toInt (by
    rcases hob with h | h
    · exact Or.inl h
    · exact Or.inr h.1)
  have hE2 : (0 : ℚ) < (10 : ℚ) ^ (d.exp.toInt + b) := zpow_pos (by norm_num) _
  have hOq : (0 : ℚ) < ((d.sig.toNat / 10 ^ b : Nat) : ℚ) := by
    rw [← hos]; exact_mod_cast hOnpos
  have ho'pos : (0 : ℚ) < ((d.sig.toNat / 10 ^ b : Nat) : ℚ) * (10 : ℚ) ^ (d.exp.toInt + b) :=
    mul_pos hOq hE2
  have hX : ((10 ^ 57 : Nat) : ℚ) / o1.1.sig.toNat * (10 : ℚ) ^ (-57 - o1.1.exp).toInt
      = 1 / (((d.sig.toNat / 10 ^ b : Nat) : ℚ) * (10 : ℚ) ^ (d.exp.toInt + b)) := by
    rw [he0, hos]
    have e1 : (10 : ℚ) ^ (-57 - (d.exp.toInt + b))
        = ((10 : ℚ) ^ 57)⁻¹ * ((10 : ℚ) ^ (d.exp.toInt + b))⁻¹ := by
      rw [zpow_sub₀ (by norm_num), zpow_neg]
      rfl
    rw [e1]
    push_cast
    field_simp
    norm_num
  rw [hX] at c1 c2 c3 c4 c5
  rw [he0] at c6 c7
  refine ⟨r, t', _, hr, ho'pos, u1, u2, ?_, c1, c2, ?_, ?_, c5, c8, by omega, by omega⟩
  · intro hlt
    rcases hob with h | h
    · subst h; simp [val]
    · omega
  · rintro ⟨h1, h2⟩
    rw [c3 h1, hot, if_pos (u3.mp h2)]
  · intro hn
    by_cases h1 : val r = 1 / (((d.sig.toNat / 10 ^ b : Nat) : ℚ) * (10 : ℚ) ^ (d.exp.toInt + b))
    · have h2 : ¬ (((d.sig.toNat / 10 ^ b : Nat) : ℚ) * (10 : ℚ) ^ (d.exp.toInt + b) = val d) :=
        fun h2 => hn ⟨h1, h2⟩
      rw [c3 h1, hot, if_neg (fun h => h2 (u3.mpr h))]
    · exact c4 h1


/-! ### the hypotheses are satisfiable -/

example := quo_contract ⟨⟨1, 0, 0⟩, 0⟩ ⟨⟨3, 0, 0⟩, 0⟩ 0 (by decide) (by decide) (by decide) (by decide)
example := rcp_contract ⟨⟨3, 0, 0⟩, -5⟩ 0 (by decide) (by decide)

/-! ### findings, evaluated on the generated code -/

/-- `decomposed192{sig: 2^192-96, exp: 0}.quo({sig: 2^192-1, exp: 0}, 0)` returns `100e-2` with flag 1:
the result `1.00` is LARGER than the exact quotient `(2^192-96)/(2^192-1) < 1` (the divisor lost its
last two digits `…95`), and the flag `1` says the exact value is larger than the result. -/
example : True := trivial
#guard (Gen.decomposed192.quo ⟨⟨18446744073709551520, 18446744073709551615, 18446744073709551615⟩, 0⟩
    ⟨⟨18446744073709551615, 18446744073709551615, 18446744073709551615⟩, 0⟩ 0).toOption.map
    (fun x => (x.1.sig.toNat, x.1.exp, x.2)) == some (100, -2, 1)

/-- `{sig: 1, exp: 0}.quo({sig: 2^192-1, exp: 0}, 0)` (and `rcp` of the same divisor) return
`1593091911132452277028880397767711805591104555192618786098e-115`; the exact quotient truncated to the
same 58 digits is `…786074`: 24 units too large, flag `1`. -/
example : True := trivial
#guard (Gen.decomposed192.quo ⟨⟨1, 0, 0⟩, 0⟩
    ⟨⟨18446744073709551615, 18446744073709551615, 18446744073709551615⟩, 0⟩ 0).toOption.map
    (fun x => (x.1.sig.toNat, x.1.exp, x.2))
  == some (1593091911132452277028880397767711805591104555192618786098, -115, 1)
#guard (Gen.decomposed192.rcp
    ⟨⟨18446744073709551615, 18446744073709551615, 18446744073709551615⟩, 0⟩ 0).toOption.map
    (fun x => (x.1.sig.toNat, x.1.exp, x.2))
  == some (1593091911132452277028880397767711805591104555192618786098, -115, 1)
#guard 10 ^ 115 / (2 ^ 192 - 1) == 1593091911132452277028880397767711805591104555192618786074

/-- a zero divisor with a non-zero numerator, and `rcp` of zero, panic with `divZero`. -/
example : True := trivial
#guard (Gen.decomposed192.quo ⟨⟨1, 0, 0⟩, 0⟩ ⟨⟨0, 0, 0⟩, 0⟩ 0) == .error .divZero
#guard (Gen.decomposed192.rcp ⟨⟨0, 0, 0⟩, 0⟩ 0) == .error .divZero

end D192
