/-
  D128/Proofs/NewLdexpLdexp.lean — `Gen.Ldexp` (Go: /repo/decimal.go `func Ldexp(frac Decimal, exp int) Decimal`)
  against `Spec.ldexp` (property C11), for all bit patterns and all `exp : Int64`.

  Provided (namespace `NL`):
  * `Ldexp_eq`        : join-point free normal form of `Gen.Ldexp`
  * `Ldexp_trivial`   : specials and zeros are returned unchanged
  * `ldexp_rexp`      : `int(fexp) + exp` does not wrap for `|exp| ≤ 24574`
  * `ldexp_mid`       : the path through `reduce128` and `compose`
  * `ldexp_finite`    : finite non-zero `frac`: the result denotes `flushOrRoundS m neg c (e + exp)`
  * `ldexp_correct`   : `Ldexp g d exp` does not panic and denotes `Spec.ldexp m 𝔳[d] exp`
-/
import D128.Proofs.NewLdexpNew
set_option autoImplicit false
set_option maxRecDepth 4096
namespace NL
open Gen Spec
local notation "𝔳[" d "]" => Spec.interp (Gen.Decimal.lo d) (Gen.Decimal.hi d)

theorem Ldexp_eq (g : Globals) (frac : Gen.Decimal) (exp : Int64) : Gen.Ldexp g frac exp =
    (if (Gen.Decimal.isSpecial frac || Gen.Decimal.IsZero frac) = true then pure frac else
     if decide (exp < (-24574 : Int64)) = true then pure (Gen.zero (Gen.Decimal.Signbit frac))
     else if decide (exp > (24574 : Int64)) = true then pure (Gen.inf (Gen.Decimal.Signbit frac))
     else if decide ((Go.conv (Gen.Decimal.decompose frac).2 : Int64) + exp < (-70 : Int64)) = true then
       pure (Gen.zero (Gen.Decimal.Signbit frac))
     else if decide ((Go.conv (Gen.Decimal.decompose frac).2 : Int64) + exp > (12357 : Int64)) = true then
       pure (Gen.inf (Gen.Decimal.Signbit frac))
     else do
       let r ← Gen.RoundingMode.reduce128 g.DefaultRoundingMode (Gen.Decimal.Signbit frac)
          (Gen.Decimal.decompose frac).1
          (Go.conv ((Go.conv (Gen.Decimal.decompose frac).2 : Int64) + exp) : Int16) (0 : Int8)
       if decide (r.2 > (12287 : Int16)) = true then pure (Gen.inf (Gen.Decimal.Signbit frac))
       else pure (Gen.compose (Gen.Decimal.Signbit frac) r.1 r.2)) := by
  unfold Gen.Ldexp
  by_cases h0 : (Gen.Decimal.isSpecial frac || Gen.Decimal.IsZero frac) = true
  · simp [h0]
  · simp [h0]

/-- specials and zeros are returned unchanged (bit for bit), for every `exp` -/
theorem Ldexp_trivial (g : Globals) (d : Gen.Decimal) (exp : Int64)
    (h : (Gen.Decimal.isSpecial d || Gen.Decimal.IsZero d) = true) : Gen.Ldexp g d exp = .ok d := by
  rw [Ldexp_eq, if_pos h]; rfl

theorem ldexp_rexp (fexp : Int16) (exp : Int64) (h0 : 0 ≤ fexp.toInt) (h1 : fexp.toInt ≤ 12287)
    (h2 : -24574 ≤ exp.toInt) (h3 : exp.toInt ≤ 24574) :
    ((Go.conv fexp : Int64) + exp).toInt = fexp.toInt + exp.toInt := by
  rw [Int64.toInt_add, FrexpPf.i16_conv_i64]
  exact FrexpPf.i64_bmod _ (by simp only [Int.reducePow]; omega) (by simp only [Int.reducePow]; omega)

/-- the path through the rounding kernel -/
theorem ldexp_mid (rm : UInt8) (sg : U128) (neg : Bool) (rexp : Int64) (m : Spec.Mode)
    (hm : Spec.Mode.ofNat? rm.toNat = some m) (hs : 0 < sg.toNat) (h1 : ¬ rexp.toInt < -70)
    (h2 : ¬ 12357 < rexp.toInt) :
    ∃ r, (do
        let r ← RoundingMode.reduce128 rm neg sg (Go.conv rexp : Int16) (0 : Int8)
        if decide (r.2 > (12287 : Int16)) = true then pure (Gen.inf neg)
        else pure (Gen.compose neg r.1 r.2) : Go.GoM Gen.Decimal) = .ok r ∧
      (𝔳[r]).same (Spec.flushOrRoundS m neg (sg.toNat : ℚ) (rexp.toInt - 6176)) = true := by
  have hE : (Go.conv rexp : Int16).toInt = rexp.toInt :=
    FrexpPf.i64_conv_i16 rexp (by simp only [Int.reducePow]; omega) (by simp only [Int.reducePow]; omega)
  have hpos : (0 : ℚ) < (sg.toNat : ℚ) := by exact_mod_cast hs
  obtain ⟨s', e', hr, hpost⟩ := reduce128_correct rm m neg sg (Go.conv rexp : Int16) 0 0 hm
    (by rw [hE]; omega) (by rw [hE]; omega) (Or.inl ⟨by decide, rfl⟩) (by rw [add_zero]; exact hpos)
    (fun h => absurd h (by decide)) (fun h => absurd h (by decide)) (fun h => absurd h (by decide))
  rw [hr]
  rw [add_zero, hE] at hpost
  exact MQ.finish _ neg (s', e') hpost

/-- finite non-zero operand: the result denotes the rounded (flushed, overflowed) `c·10^(e+exp)` -/
theorem ldexp_finite (g : Globals) (d : Gen.Decimal) (exp : Int64) (m : Spec.Mode)
    (hm : Spec.Mode.ofNat? g.DefaultRoundingMode.toNat = some m)
    (hd : Gen.Decimal.isSpecial d = false) (zd : Gen.Decimal.IsZero d = false) :
    ∃ r, Gen.Ldexp g d exp = .ok r ∧
      (𝔳[r]).same (Spec.flushOrRoundS m (Gen.Decimal.Signbit d) ((Gen.Decimal.decompose d).1.toNat : ℚ)
        ((Gen.Decimal.decompose d).2.toInt - 6176 + exp.toInt)) = true := by
  rw [Ldexp_eq]
  simp only [hd, zd, Bool.or_self, Bool.false_eq_true, if_false]
  have hc0 : (Gen.Decimal.decompose d).1.toNat ≠ 0 := by
    have := Sp.IsZero_eq_sig d; rw [zd] at this; simpa using this.symm
  have hc1 := Enc.decompose_sig_le d
  have he0 := Enc.decompose_exp_nonneg d
  have he1 := Enc.decompose_exp_le d hd
  generalize (Gen.Decimal.decompose d).1 = sg at *
  generalize (Gen.Decimal.decompose d).2 = fexp at *
  generalize Gen.Decimal.Signbit d = neg
  have hN1 : 1 ≤ sg.toNat := by omega
  have hN2 : sg.toNat < 10 ^ 35 := lt_of_le_of_lt hc1 SpecRound.Cmax_upper
  have hq : (0 : ℚ) < (sg.toNat : ℚ) := by exact_mod_cast hN1
  have hlo : (10 : ℚ) ^ ((0 : Nat) : Int) ≤ (sg.toNat : ℚ) := zpow_le_nat (by simpa using hN1)
  have hhi := nat_lt_zpow hN2
  have l1 : (-24574 : Int64).toInt = -24574 := by decide
  have l2 : (24574 : Int64).toInt = 24574 := by decide
  have l3 : (-70 : Int64).toInt = -70 := by decide
  have l4 : (12357 : Int64).toInt = 12357 := by decide
  by_cases h1 : exp.toInt < -24574
  · rw [if_pos ((i64_lt_lit _ _).2 (by rw [l1]; exact h1))]
    refine ⟨_, rfl, ?_⟩
    rw [Enc.interp_zero, flushS_tiny_of_lt m neg hq hhi (by push_cast; omega)]
    exact Sp.same_zero _ _ _
  · rw [if_neg (fun h => h1 (by have := (i64_lt_lit _ _).1 h; rwa [l1] at this))]
    by_cases h2 : 24574 < exp.toInt
    · rw [if_pos ((i64_gt_lit _ _).2 (by rw [l2]; exact h2))]
      refine ⟨_, rfl, ?_⟩
      rw [Enc.interp_inf, flushS_huge_of_le m neg hq hlo (by push_cast; omega)]
      exact Sp.same_refl _
    · rw [if_neg (fun h => h2 (by have := (i64_gt_lit _ _).1 h; rwa [l2] at this))]
      have hR := ldexp_rexp fexp exp he0 he1 (by omega) (by omega)
      have hk : fexp.toInt - 6176 + exp.toInt = ((Go.conv fexp : Int64) + exp).toInt - 6176 := by
        rw [hR]; omega
      rw [hk]
      generalize (Go.conv fexp : Int64) + exp = rexp at *
      by_cases h3 : rexp.toInt < -70
      · rw [if_pos ((i64_lt_lit _ _).2 (by rw [l3]; exact h3))]
        refine ⟨_, rfl, ?_⟩
        rw [Enc.interp_zero, flushS_tiny_of_lt m neg hq hhi (by push_cast; omega)]
        exact Sp.same_zero _ _ _
      · rw [if_neg (fun h => h3 (by have := (i64_lt_lit _ _).1 h; rwa [l3] at this))]
        by_cases h4 : 12357 < rexp.toInt
        · rw [if_pos ((i64_gt_lit _ _).2 (by rw [l4]; exact h4))]
          refine ⟨_, rfl, ?_⟩
          rw [Enc.interp_inf, flushS_huge_of_le m neg hq hlo (by push_cast; omega)]
          exact Sp.same_refl _
        · rw [if_neg (fun h => h4 (by have := (i64_gt_lit _ _).1 h; rwa [l4] at this))]
          exact ldexp_mid g.DefaultRoundingMode sg neg rexp m hm (by omega) h3 h4

/-- **C11, `Ldexp`.**  For every bit pattern `d`, every `exp : Int64` and every valid default rounding
mode, `Ldexp` does not panic and returns a Decimal denoting `Spec.ldexp m 𝔳[d] exp`: NaN, ±Inf and
zeros unchanged, otherwise the member of the format the mode selects for `d·10^exp` (signed zero
below `10^-6177`, `±Inf` above the range). -/
theorem ldexp_correct (g : Globals) (d : Gen.Decimal) (exp : Int64) (m : Spec.Mode)
    (hm : Spec.Mode.ofNat? g.DefaultRoundingMode.toNat = some m) :
    ∃ r, Gen.Ldexp g d exp = .ok r ∧ (𝔳[r]).same (Spec.ldexp m 𝔳[d] exp.toInt) = true := by
  by_cases hd : Gen.Decimal.isSpecial d = false
  · by_cases zd : Gen.Decimal.IsZero d = false
    · obtain ⟨r, hr, hv⟩ := ldexp_finite g d exp m hm hd zd
      refine ⟨r, hr, ?_⟩
      have hc0 : (Gen.Decimal.decompose d).1.toNat ≠ 0 := by
        have := Sp.IsZero_eq_sig d; rw [zd] at this; simpa using this.symm
      rw [Enc.interp_decompose d hd]
      have hb : ((Gen.Decimal.decompose d).1.toNat == 0) = false := by simpa using hc0
      simp only [Spec.ldexp, hb, Bool.false_eq_true, if_false]
      exact hv
    · simp only [Bool.not_eq_false] at zd
      refine ⟨d, Ldexp_trivial g d exp (by rw [zd]; simp), ?_⟩
      have hc0 : (Gen.Decimal.decompose d).1.toNat = 0 := by
        have := Sp.IsZero_eq_sig d; rw [zd] at this; simpa using this.symm
      rw [Enc.interp_decompose d hd, hc0]
      exact Sp.same_zero _ _ _
  · simp only [Bool.not_eq_false] at hd
    refine ⟨d, Ldexp_trivial g d exp (by rw [hd]; simp), ?_⟩
    have hf : (𝔳[d]).isFin = false := by rw [Enc.interp_isFin, hd]; rfl
    have : Spec.ldexp m 𝔳[d] exp.toInt = 𝔳[d] := by
      cases h : 𝔳[d] <;> simp [Spec.Val.isFin, h] at hf <;> rfl
    rw [this]
    exact Sp.same_refl _

/-- `ldexp_correct` on a non-trivial input: `Ldexp(-1, -6200)` under AwayFromZero -/
example := ldexp_correct ⟨3⟩ (Gen.one true) (-6200) .awayFromZero rfl

/-- `ldexp_finite`: its hypotheses hold for `1` -/
example := ldexp_finite ⟨0⟩ (Gen.one false) 6000 .nearestEven rfl (Enc.isSpecial_one false)
  (Enc.IsZero_one false)

end NL
