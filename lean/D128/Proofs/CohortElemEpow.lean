/-
  D128/Proofs/CohortElemEpow.lean — property C19 for the exponential family: `decomposed192.epow` and
  `decomposed192.epowm1` (Go: /repo/decomposed.go) do not see the REPRESENTATION of their argument.

  Both functions start with the same prologue
      exp := d.exp + l10 + 1;  if exp < 0 { exp = 0 } else { d.exp = -l10 - 1 }
      for d.sig[2] <= 0x0002_7fff_ffff_ffff { d.sig *= 10^4; d.exp -= 4 }
      for d.sig[2] <= 0x18ff_ffff_ffff_ffff { d.sig *= 10;   d.exp-- }
  after which everything is a function of `(d, exp, trunc[, neg])`.  With `l10 = ⌊log₁₀ sig⌋`, `exp` is
  `max 0 (⌊log₁₀ value⌋ + 1)` and the reduced argument has the value `value` (if `exp = 0`) or the mantissa
  `value·10^-(⌊log₁₀ value⌋+1) ∈ [0.1, 1)` — functions of the VALUE.  The loops scale up maximally and never overshoot
  `10·LIM = 250·2^184`, so they return the unique `Full` representation of that value.

  Provided (namespace `CohortElem`):
  * `epowArg`, `epowExp`, `epowScale`, `hornerRest`, `hornerK_stage` : the staged form
        `ExpAcc.hornerK d l10 t k = epowScale (epowArg d l10) >>= fun d2 => hornerRest d2 (epowExp d l10) t k`
        (`hornerK` is the common head of `epow`/`epowm1`: `ExpAcc.epow_eq`, `ExpAcc.epowm1_eq`, both `rfl`)
  * `epowScale_triple`, `epowScale_ub_triple`, `epowScale_id`, `epowScale_spec` : the two scaling loops — no panic,
        termination, value preserved, `LIM ≤ sig`; `sig < 10·LIM` if the input was; input returned unchanged if `LIM ≤ sig`
  * `window_unique`, `big_unique` : one representation per value with `L ≤ sig < 10·L`, resp. with `10·LIM ≤ sig (< 2^192)`
  * `epowScale_congr`  : the loops return the same register contents for two arguments of one value
  * `log_le_57`, `decade_of_val`, `reduce_toInt`, `reduce_congr` : the argument reduction is a function of the value
  * `hornerK_congr`, **`epow_congr`**, **`epowm1_congr`** :
        `val a = val a'` ⇒ `epow a l10 t = epow a' l10' t` and `epowm1 a neg l10 t = epowm1 a' neg l10' t`.
    ASSUMED: non-zero significands; exponents in `[-32000, 32000]`; `l10.toInt = Nat.log 10 a.sig.toNat` (both);
    and `a.sig < 10·LIM ↔ a'.sig < 10·LIM`.  The last hypothesis cannot be dropped: a significand `≥ LIM` is not touched by
    the loops, so for `10·LIM ≤ a.sig < 2^192 = 10.24·LIM`, `10 ∣ a.sig` and `a' = ⟨a.sig/10, a.exp+1⟩` (`LIM ≤ a'.sig < 1.024·LIM`)
    the series is run on two different registers.  It holds trivially when both significands are below `2^128` (arguments
    built from `Decimal.decompose`) and, for results of `decomposed192.mul`, whenever both are below `10·LIM`; if both are
    `≥ 10·LIM` then `a = a'` anyway (`big_unique`).
-/
import D128.Proofs.CohortElemBase
import D128.Proofs.ExpAccHornerM1
set_option autoImplicit false
set_option maxRecDepth 8192
set_option linter.unusedVariables false
open Std.Do D128.Proofs.WordsWide
set_option mvcgen.warning false

namespace CohortElem
open Gen D192 ExpAcc

/-- the argument handed to the scaling loops -/
def epowArg (d : decomposed192) (l10 : Int16) : decomposed192 :=
  if d.exp + l10 + 1 < 0 then d else { d with exp := -l10 - 1 }

/-- the power of ten handed to `powexp10` -/
def epowExp (d : decomposed192) (l10 : Int16) : Int16 :=
  if d.exp + l10 + 1 < 0 then 0 else d.exp + l10 + 1

/-- the two scaling loops of `epow`/`epowm1` -/
def epowScale (d : decomposed192) : Go.GoM decomposed192 := do
  let mut d : decomposed192 := d
  while (decide (d.sig.w2 ≤ (703687441776639 : UInt64))) do
    d := { d with sig := (U192.mul64 d.sig (10000 : UInt64)) }
    d := { d with exp := (d.exp - (4 : Int16)) }
  while (decide (d.sig.w2 ≤ (1801439850948198399 : UInt64))) do
    d := { d with sig := (U192.mul64 d.sig (10 : UInt64)) }
    d := { d with exp := (d.exp - (1 : Int16)) }
  return d

/-- everything after the scaling loops -/
def hornerRest {α : Type} (d : decomposed192) (exp : Int16) (trunc : Int8)
    (k : decomposed192 → decomposed192 → Int8 → Int16 → Go.GoM α) : Go.GoM α := do
  let mut trunc : Int8 := trunc
  let (r_1, r_2) ← decomposed192.quo d ({ (default : decomposed192) with sig := (U192.mk (40 : UInt64) (0 : UInt64) (0 : UInt64)), exp := (0 : Int16) } : decomposed192) trunc
  let mut res : decomposed192 := r_1
  trunc := r_2
  let mut i : UInt64 := (39 : UInt64)
  while (decide (i > (1 : UInt64))) do
    let (r_3, r_4) ← decomposed192.quo d ({ (default : decomposed192) with sig := (U192.mk i (0 : UInt64) (0 : UInt64)), exp := (0 : Int16) } : decomposed192) (0 : Int8)
    let mut tmp : decomposed192 := r_3
    let (r_5, r_6) ← decomposed192.mul res tmp trunc
    res := r_5
    trunc := r_6
    let (r_7, r_8) ← decomposed192.add1 res trunc
    res := r_7
    trunc := r_8
    i := (i - (1 : UInt64))
  k d res trunc exp

theorem hornerK_stage {α : Type} (d : decomposed192) (l10 : Int16) (t : Int8)
    (k : decomposed192 → decomposed192 → Int8 → Int16 → Go.GoM α) :
    hornerK d l10 t k = epowScale (epowArg d l10) >>= fun d2 => hornerRest d2 (epowExp d l10) t k := by
  unfold hornerK epowScale hornerRest epowArg epowExp
  by_cases h : d.exp + l10 + 1 < 0
  · simp only [h, decide_true, if_true, bind_assoc, pure_bind]
  · simp only [h, decide_false, if_false, Bool.false_eq_true, bind_assoc, pure_bind]


/-! ### the two scaling loops -/

theorem epowScale_triple (d : decomposed192) :
    ⦃⌜d.sig.toNat ≠ 0⌝⦄ epowScale d
    ⦃⇓ x => ⌜ScUp d.sig.toNat d.exp x ∧ LIM ≤ x.sig.toNat⌝⦄ := by
  mvcgen [epowScale]
  case inv1 | inv3 => exact fun st => ⟨gap st.sig.toNat⟩
  case inv2 => exact ⇓ x => match x with
    | .inl st => ⌜ScUp d.sig.toNat d.exp st⌝
    | .inr st => ⌜ScUp d.sig.toNat d.exp st⌝
  case inv4 => exact ⇓ x => match x with
    | .inl st => ⌜ScUp d.sig.toNat d.exp st⌝
    | .inr st => ⌜ScUp d.sig.toNat d.exp st ∧ LIM ≤ st.sig.toNat⌝
  all_goals (simp +zetaDelta at *)
  case vc1 =>
    rename_i hD b mb _ _ hz hinv
    exact vc_up _ _ 10000 4 (by decide) (by norm_num) (by omega) (fit4 _ hz) hinv
  case vc4 =>
    rename_i hD _ _ b mb _ _ hz hinv
    exact vc_up _ _ 10 1 (by decide) (by norm_num) (by omega) (fit1 _ hz) hinv
  case vc2 => rename_i hinv; exact hinv.2
  case vc3 => exact ScUp.refl d
  case vc5 =>
    rename_i hz hinv
    exact ⟨hinv.2, ge_LIM_of_not_le _ (by rw [UInt64.not_le]; exact hz)⟩
  case vc6 | vc7 => assumption

theorem epowScale_ub_triple (d : decomposed192) :
    ⦃⌜1 ≤ d.sig.toNat ∧ d.sig.toNat < 10 * LIM⌝⦄ epowScale d
    ⦃⇓ x => ⌜x.sig.toNat < 10 * LIM⌝⦄ := by
  mvcgen [epowScale]
  case inv1 | inv3 => exact fun st => ⟨gap st.sig.toNat⟩
  case inv2 | inv4 => exact ⇓ x => match x with
    | .inl st => ⌜1 ≤ st.sig.toNat ∧ st.sig.toNat < 10 * LIM⌝
    | .inr st => ⌜1 ≤ st.sig.toNat ∧ st.sig.toNat < 10 * LIM⌝
  all_goals (simp +zetaDelta at *)
  case vc1 =>
    rename_i b mb _ _ hz hinv
    exact vc_ub b mb 10000 4 (by decide) (by norm_num) (lt4 _ hz) hinv.1 hinv.2.1
  case vc4 =>
    rename_i b mb _ _ hz hinv
    exact vc_ub b mb 10 1 (by decide) (by norm_num) (lt1 _ hz) hinv.1 hinv.2.1
  case vc2 | vc5 => rename_i hinv; exact hinv.2
  case vc7 => rename_i h; exact h.2
  all_goals assumption

/-- a significand `≥ LIM` is left alone: no loop iteration runs -/
theorem epowScale_id (d : decomposed192) (h : LIM ≤ d.sig.toNat) : epowScale d = .ok d := by
  have h2 : ¬ d.sig.w2 ≤ 1801439850948198399 := by
    intro hc
    have := lt_LIM_of_le _ hc
    omega
  have h1 : ¬ d.sig.w2 ≤ 703687441776639 := by
    intro hc
    apply h2
    rw [UInt64.le_iff_toNat_le] at hc ⊢
    have e1 : (703687441776639 : UInt64).toNat = 703687441776639 := by decide
    have e2 : (1801439850948198399 : UInt64).toNat = 1801439850948198399 := by decide
    omega
  unfold epowScale
  zeta_except_jp
  rw [Go.loop_unfold]
  simp only [h1, decide_false, Bool.false_eq_true, if_false, pure_bind]
  rw [Go.loop_unfold]
  simp only [h2, decide_false, Bool.false_eq_true, if_false, pure_bind]
  rfl

/-- **the scaling loops**: no panic, termination; the value is preserved, the significand is at least `LIM`,
stays below `10·LIM` if it was, and is not touched at all if it was `≥ LIM` already. -/
theorem epowScale_spec (d : decomposed192) (hd : d.sig.toNat ≠ 0) (he : -32000 ≤ d.exp.toInt) :
    ∃ d1, epowScale d = .ok d1 ∧ val d1 = val d ∧ LIM ≤ d1.sig.toNat ∧
      (d.sig.toNat < 10 * LIM → d1.sig.toNat < 10 * LIM) ∧ (LIM ≤ d.sig.toNat → d1 = d) := by
  have h' : ⦃⌜True⌝⦄ epowScale d ⦃⇓ x => ⌜ScUp d.sig.toNat d.exp x ∧ LIM ≤ x.sig.toNat⌝⦄ := by
    simpa [hd] using epowScale_triple d
  obtain ⟨d1, hr, hsc, hL⟩ := ok_of_triple h'
  obtain ⟨a, ha, h1, h2⟩ := hsc.bounds (Nat.pos_of_ne_zero hd)
  have hka : (Int16.ofNat a).toInt = a := Int16.toInt_ofNat_of_lt (by omega)
  have hexp : d1.exp.toInt = d.exp.toInt - a := by
    rw [h2, Int16.toInt_sub_of] <;> rw [hka] <;> have := i16_bounds d.exp <;> omega
  refine ⟨d1, hr, ?_, hL, ?_, ?_⟩
  · unfold val
    rw [h1, hexp, zpow_sub₀ (by norm_num), zpow_natCast]
    push_cast
    have : ((10 : ℚ) ^ a) ≠ 0 := pow_ne_zero _ (by norm_num)
    field_simp
  · intro hu
    have h'' : ⦃⌜True⌝⦄ epowScale d ⦃⇓ x => ⌜x.sig.toNat < 10 * LIM⌝⦄ := by
      have := epowScale_ub_triple d
      simpa [Nat.one_le_iff_ne_zero, hd, hu] using this
    obtain ⟨d2, hr2, hu2⟩ := ok_of_triple h''
    rw [hr] at hr2
    cases hr2
    exact hu2
  · intro hl
    rw [epowScale_id d hl] at hr
    cases hr
    rfl

/-! ### uniqueness inside one decade of significands -/

/-- a value has at most one representation with `L ≤ sig < 10·L` (`full_unique` is `L = LIM`) -/
theorem window_unique (L : Nat) (hL0 : 0 < L) {x y : decomposed192}
    (hx : L ≤ x.sig.toNat ∧ x.sig.toNat < 10 * L) (hy : L ≤ y.sig.toNat ∧ y.sig.toNat < 10 * L)
    (h : val x = val y) : x = y := by
  have key : ∀ (x y : decomposed192), (L ≤ x.sig.toNat ∧ x.sig.toNat < 10 * L) →
      (L ≤ y.sig.toNat ∧ y.sig.toNat < 10 * L) → val x = val y → ¬ x.exp.toInt < y.exp.toInt := by
    intro x y hx hy h hlt
    unfold val at h
    have hb : (10 : ℚ) ^ y.exp.toInt = (10 : ℚ) ^ x.exp.toInt * (10 : ℚ) ^ (y.exp.toInt - x.exp.toInt) := by
      rw [← zpow_add₀ (by norm_num)]; congr 1; ring
    have h10 : (10 : ℚ) ^ (1 : Int) ≤ (10 : ℚ) ^ (y.exp.toInt - x.exp.toInt) :=
      zpow_le_zpow_right₀ (by norm_num) (by omega)
    have hp : (0 : ℚ) < (10 : ℚ) ^ x.exp.toInt := zpow_pos (by norm_num) _
    rw [hb, ← mul_assoc, mul_comm ((y.sig.toNat : ℚ)) _, mul_assoc] at h
    have h2 : (x.sig.toNat : ℚ) = (y.sig.toNat : ℚ) * (10 : ℚ) ^ (y.exp.toInt - x.exp.toInt) :=
      mul_left_cancel₀ hp.ne' (by rw [mul_comm]; exact h)
    have hyl : ((L : Nat) : ℚ) ≤ (y.sig.toNat : ℚ) := by exact_mod_cast hy.1
    have hxu : (x.sig.toNat : ℚ) < ((10 * L : Nat) : ℚ) := by exact_mod_cast hx.2
    have hL : (0 : ℚ) < ((L : Nat) : ℚ) := by exact_mod_cast hL0
    have : ((L : Nat) : ℚ) * 10 ≤ (y.sig.toNat : ℚ) * (10 : ℚ) ^ (y.exp.toInt - x.exp.toInt) := by
      have h10' : (10 : ℚ) ≤ (10 : ℚ) ^ (y.exp.toInt - x.exp.toInt) := by simpa using h10
      exact mul_le_mul hyl h10' (by norm_num) (le_trans hL.le hyl)
    push_cast at hxu
    linarith
  have he : x.exp.toInt = y.exp.toInt := by
    have := key x y hx hy h
    have := key y x hy hx h.symm
    omega
  refine d192_ext ?_ he
  unfold val at h
  rw [he] at h
  have hp : (0 : ℚ) < (10 : ℚ) ^ y.exp.toInt := zpow_pos (by norm_num) _
  have := mul_right_cancel₀ hp.ne' h
  exact_mod_cast this

/-- two representations of one value with significands `≥ 10·LIM` (= `250·2^184`; a 192-bit significand is
below `256·2^184`) coincide -/
theorem big_unique {x y : decomposed192} (hx : 10 * LIM ≤ x.sig.toNat) (hy : 10 * LIM ≤ y.sig.toNat)
    (h : val x = val y) : x = y := by
  have := U192.toNat_lt x.sig
  have := U192.toNat_lt y.sig
  have hL : 2 ^ 192 ≤ 10 * (10 * LIM) := by unfold LIM; norm_num
  exact window_unique (10 * LIM) (by unfold LIM; norm_num) ⟨hx, by omega⟩ ⟨hy, by omega⟩ h

/-- **the scaling loops do not see the representation**: two arguments of one value, both below `10·LIM` or both
`≥ 10·LIM`, leave the loops with identical register contents. -/
theorem epowScale_congr (x y : decomposed192) (hx : x.sig.toNat ≠ 0) (hy : y.sig.toNat ≠ 0)
    (hU : x.sig.toNat < 10 * LIM ↔ y.sig.toNat < 10 * LIM)
    (hex : -32000 ≤ x.exp.toInt) (hey : -32000 ≤ y.exp.toInt) (hv : val x = val y) :
    epowScale x = epowScale y := by
  obtain ⟨x1, e1, v1, l1, u1, i1⟩ := epowScale_spec x hx hex
  obtain ⟨y1, e2, v2, l2, u2, i2⟩ := epowScale_spec y hy hey
  rw [e1, e2]
  congr 1
  by_cases hu : x.sig.toNat < 10 * LIM
  · exact full_unique ⟨l1, u1 hu⟩ ⟨l2, u2 (hU.mp hu)⟩ (by rw [v1, v2, hv])
  · have hu' : ¬ y.sig.toNat < 10 * LIM := fun h => hu (hU.mpr h)
    have hLL : LIM ≤ 10 * LIM := by omega
    rw [i1 (by omega), i2 (by omega)]
    exact big_unique (by omega) (by omega) hv

/-! ### the argument reduction is a function of the value -/

theorem log_le_57 (n : U192) : Nat.log 10 n.toNat ≤ 57 := by
  have := U192.toNat_lt n
  by_contra hc
  have h0 : n.toNat ≠ 0 := by
    intro h0; rw [h0] at hc; simp at hc
  have h1 : 10 ^ 58 ≤ 10 ^ Nat.log 10 n.toNat := Nat.pow_le_pow_right (by norm_num) (by omega)
  have h2 := Nat.pow_log_le_self 10 h0
  omega

/-- decimal exponent `⌊log₁₀ value⌋` and mantissa are functions of the value -/
theorem decade_of_val (a a' : decomposed192) (hd : a.sig.toNat ≠ 0) (hd' : a'.sig.toNat ≠ 0)
    (hv : val a = val a') :
    a.exp.toInt + (Nat.log 10 a.sig.toNat : Int) = a'.exp.toInt + (Nat.log 10 a'.sig.toNat : Int) ∧
    (a.sig.toNat : ℚ) * (10 : ℚ) ^ (-(Nat.log 10 a.sig.toNat : Int) - 1)
      = (a'.sig.toNat : ℚ) * (10 : ℚ) ^ (-(Nat.log 10 a'.sig.toNat : Int) - 1) := by
  have mant : ∀ (n : Nat), n ≠ 0 →
      1 ≤ (n : ℚ) * (10 : ℚ) ^ (-(Nat.log 10 n : Int)) ∧ (n : ℚ) * (10 : ℚ) ^ (-(Nat.log 10 n : Int)) < 10 := by
    intro n hn
    have h1 : ((10 ^ Nat.log 10 n : Nat) : ℚ) ≤ (n : ℚ) := by exact_mod_cast Nat.pow_log_le_self 10 hn
    have h2 : (n : ℚ) < ((10 ^ (Nat.log 10 n + 1) : Nat) : ℚ) := by
      exact_mod_cast Nat.lt_pow_succ_log_self (by norm_num) n
    have hp : (0 : ℚ) < (10 : ℚ) ^ Nat.log 10 n := pow_pos (by norm_num) _
    rw [zpow_neg, zpow_natCast, ← div_eq_mul_inv]
    push_cast at h1 h2
    rw [pow_succ] at h2
    exact ⟨by rw [le_div_iff₀ hp]; linarith, by rw [div_lt_iff₀ hp]; linarith⟩
  have split : ∀ (x : decomposed192), val x =
      ((x.sig.toNat : ℚ) * (10 : ℚ) ^ (-(Nat.log 10 x.sig.toNat : Int))) *
        (10 : ℚ) ^ (x.exp.toInt + (Nat.log 10 x.sig.toNat : Int)) := by
    intro x
    unfold val
    rw [mul_assoc, ← zpow_add₀ (by norm_num)]
    congr 2; ring
  obtain ⟨m1, m2⟩ := mant _ hd
  obtain ⟨m1', m2'⟩ := mant _ hd'
  rw [split a, split a'] at hv
  obtain ⟨he, hm⟩ := val_eq_decade m1 m2 m1' m2' hv
  refine ⟨he, ?_⟩
  have e1 : ∀ (k : Int), (10 : ℚ) ^ (-k - 1) = (10 : ℚ) ^ (-k) * (10 : ℚ) ^ (-1 : Int) := by
    intro k; rw [← zpow_add₀ (by norm_num)]; congr 1
  rw [e1, e1, ← mul_assoc, ← mul_assoc, hm]

theorem i16_one : (1 : Int16).toInt = 1 := by decide

/-- the `int16` arithmetic of the argument reduction does not wrap -/
theorem reduce_toInt (a : decomposed192) (l10 : Int16)
    (he : -32000 ≤ a.exp.toInt ∧ a.exp.toInt ≤ 32000)
    (hl : l10.toInt = (Nat.log 10 a.sig.toNat : Int)) :
    (a.exp + l10 + 1).toInt = a.exp.toInt + (Nat.log 10 a.sig.toNat : Int) + 1 ∧
    (-l10 - 1).toInt = -(Nat.log 10 a.sig.toNat : Int) - 1 := by
  have hL := log_le_57 a.sig
  have e1 : (a.exp + l10).toInt = a.exp.toInt + l10.toInt := by
    rw [Int16.toInt_add_of] <;> omega
  have eneg : (-l10).toInt = -l10.toInt := by
    rw [Int16.toInt_neg]
    apply Int.bmod_eq_of_le <;> omega
  constructor
  · rw [Int16.toInt_add_of] <;> rw [e1, i16_one] <;> omega
  · rw [Int16.toInt_sub_of] <;> rw [eneg, i16_one] <;> omega

/-- **the argument reduction does not see the representation** -/
theorem reduce_congr (a a' : decomposed192) (l10 l10' : Int16)
    (hv : val a = val a') (hd : a.sig.toNat ≠ 0) (hd' : a'.sig.toNat ≠ 0)
    (he : -32000 ≤ a.exp.toInt ∧ a.exp.toInt ≤ 32000) (he' : -32000 ≤ a'.exp.toInt ∧ a'.exp.toInt ≤ 32000)
    (hl : l10.toInt = (Nat.log 10 a.sig.toNat : Int)) (hl' : l10'.toInt = (Nat.log 10 a'.sig.toNat : Int)) :
    epowExp a l10 = epowExp a' l10' ∧ val (epowArg a l10) = val (epowArg a' l10') ∧
      (epowArg a l10).sig = a.sig ∧ (epowArg a' l10').sig = a'.sig ∧
      -32000 ≤ (epowArg a l10).exp.toInt ∧ -32000 ≤ (epowArg a' l10').exp.toInt := by
  obtain ⟨hE, hM⟩ := decade_of_val a a' hd hd' hv
  obtain ⟨r1, r2⟩ := reduce_toInt a l10 he hl
  obtain ⟨r1', r2'⟩ := reduce_toInt a' l10' he' hl'
  have hL := log_le_57 a.sig
  have hL' := log_le_57 a'.sig
  have hsum : a.exp + l10 + 1 = a'.exp + l10' + 1 := Int16.toInt_inj.mp (by rw [r1, r1']; omega)
  have z0 : (0 : Int16).toInt = 0 := by decide
  unfold epowExp epowArg
  rw [← hsum]
  by_cases hlt : a.exp + l10 + 1 < 0
  · simp only [hlt, if_true]
    exact ⟨trivial, hv, trivial, trivial, he.1, he'.1⟩
  · simp only [hlt, if_false]
    refine ⟨trivial, ?_, trivial, trivial, ?_, ?_⟩
    · unfold val
      simp only [r2, r2']
      exact hM
    · simp only [r2]; omega
    · simp only [r2']; omega

/-- **the common head of `epow`/`epowm1` does not see the representation** (any continuation `k`) -/
theorem hornerK_congr {α : Type} (a a' : decomposed192) (l10 l10' : Int16) (t : Int8)
    (k : decomposed192 → decomposed192 → Int8 → Int16 → Go.GoM α)
    (hv : val a = val a') (hd : a.sig.toNat ≠ 0) (hd' : a'.sig.toNat ≠ 0)
    (hU : a.sig.toNat < 10 * LIM ↔ a'.sig.toNat < 10 * LIM)
    (he : -32000 ≤ a.exp.toInt ∧ a.exp.toInt ≤ 32000) (he' : -32000 ≤ a'.exp.toInt ∧ a'.exp.toInt ≤ 32000)
    (hl : l10.toInt = (Nat.log 10 a.sig.toNat : Int)) (hl' : l10'.toInt = (Nat.log 10 a'.sig.toNat : Int)) :
    hornerK a l10 t k = hornerK a' l10' t k := by
  obtain ⟨c1, c2, c3, c4, c5, c6⟩ := reduce_congr a a' l10 l10' hv hd hd' he he' hl hl'
  rw [hornerK_stage, hornerK_stage, c1,
    epowScale_congr (epowArg a l10) (epowArg a' l10') (by rw [c3]; exact hd) (by rw [c4]; exact hd')
      (by rw [c3, c4]; exact hU) c5 c6 c2]

/-- **`epow` does not see the representation of its argument.**  Assumed: equal values, non-zero significands,
both significands below `10·LIM = 250·2^184` or both not (see the header), exponents in `[-32000, 32000]`,
`l10 = ⌊log₁₀ sig⌋`. -/
theorem epow_congr (a a' : decomposed192) (l10 l10' : Int16) (t : Int8)
    (hv : val a = val a') (hd : a.sig.toNat ≠ 0) (hd' : a'.sig.toNat ≠ 0)
    (hU : a.sig.toNat < 10 * LIM ↔ a'.sig.toNat < 10 * LIM)
    (he : -32000 ≤ a.exp.toInt ∧ a.exp.toInt ≤ 32000) (he' : -32000 ≤ a'.exp.toInt ∧ a'.exp.toInt ≤ 32000)
    (hl : l10.toInt = (Nat.log 10 a.sig.toNat : Int)) (hl' : l10'.toInt = (Nat.log 10 a'.sig.toNat : Int)) :
    Gen.decomposed192.epow a l10 t = Gen.decomposed192.epow a' l10' t := by
  rw [epow_eq, epow_eq]
  exact hornerK_congr a a' l10 l10' t epowK hv hd hd' hU he he' hl hl'

/-- **`epowm1` does not see the representation of its argument** (same `neg`); hypotheses as for `epow_congr`. -/
theorem epowm1_congr (a a' : decomposed192) (neg : Bool) (l10 l10' : Int16) (t : Int8)
    (hv : val a = val a') (hd : a.sig.toNat ≠ 0) (hd' : a'.sig.toNat ≠ 0)
    (hU : a.sig.toNat < 10 * LIM ↔ a'.sig.toNat < 10 * LIM)
    (he : -32000 ≤ a.exp.toInt ∧ a.exp.toInt ≤ 32000) (he' : -32000 ≤ a'.exp.toInt ∧ a'.exp.toInt ≤ 32000)
    (hl : l10.toInt = (Nat.log 10 a.sig.toNat : Int)) (hl' : l10'.toInt = (Nat.log 10 a'.sig.toNat : Int)) :
    Gen.decomposed192.epowm1 a neg l10 t = Gen.decomposed192.epowm1 a' neg l10' t := by
  rw [epowm1_eq, epowm1_eq]
  exact hornerK_congr a a' l10 l10' t (epowm1K neg) hv hd hd' hU he he' hl hl'

/-- `epow_congr`/`epowm1_congr` on `2 = 2·10^0 = 20·10^-1` -/
example : Gen.decomposed192.epow ⟨⟨2, 0, 0⟩, 0⟩ 0 0 = Gen.decomposed192.epow ⟨⟨20, 0, 0⟩, -1⟩ 1 0 ∧
    Gen.decomposed192.epowm1 ⟨⟨2, 0, 0⟩, 0⟩ true 0 0 = Gen.decomposed192.epowm1 ⟨⟨20, 0, 0⟩, -1⟩ true 1 0 := by
  have s1 : (U192.mk 2 0 0).toNat = 2 := by decide
  have s2 : (U192.mk 20 0 0).toNat = 20 := by decide
  have hv : val ⟨⟨2, 0, 0⟩, 0⟩ = val ⟨⟨20, 0, 0⟩, -1⟩ := by
    unfold val
    have e1 : (0 : Int16).toInt = 0 := by decide
    have e2 : (-1 : Int16).toInt = -1 := by decide
    simp only [s1, s2, e1, e2]
    norm_num
  have l1 : Nat.log 10 2 = 0 := Nat.log_of_lt (by norm_num)
  have l2 : Nat.log 10 20 = 1 := Nat.log_eq_of_pow_le_of_lt_pow (by norm_num) (by norm_num)
  have hU : (U192.mk 2 0 0).toNat < 10 * LIM ↔ (U192.mk 20 0 0).toNat < 10 * LIM := by
    rw [s1, s2]; unfold LIM; constructor <;> intro <;> norm_num
  exact ⟨epow_congr _ _ 0 1 0 hv (by rw [s1]; norm_num) (by rw [s2]; norm_num) hU
      ⟨by decide, by decide⟩ ⟨by decide, by decide⟩ (by rw [s1, l1]; decide) (by rw [s2, l2]; decide),
    epowm1_congr _ _ true 0 1 0 hv (by rw [s1]; norm_num) (by rw [s2]; norm_num) hU
      ⟨by decide, by decide⟩ ⟨by decide, by decide⟩ (by rw [s1, l1]; decide) (by rw [s2, l2]; decide)⟩

end CohortElem
