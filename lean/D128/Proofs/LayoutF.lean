/-
  D128/Proofs/LayoutF.lean — `Gen.digits.fmtF` (Go: `func (d *digits) fmtF`, /repo/format.go:651) at the
  byte level, for every precision, width and flag combination.

  * `Ly.fmtF_t3`, `Ly.fmtF_t2`, `Ly.fmtF_t1`, `Ly.fmtF_unfold` : the function cut into stages (text
        copied from the generated source, tied to it by `fmtF_unfold : … := rfl`)
  * `Ly.push3_loop_down` : `for ; i > 2; i -= 3 { buf = append(buf, '0', '0', '0') }`
  * `Ly.lead_loop`       : `for ; dp < 0; dp++ { prec--; buf = append(buf, '0') }`
  * `Ly.dpF`, `Ly.intF`, `Ly.fracF`, `Ly.bodyF` : the bytes each stage appends
  * `Ly.fmtF_t3_eq`, `Ly.fmtF_t2_eq`, `Ly.fmtF_t1_eq`, `Ly.intF_length`, `Ly.fracF_length`,
    `Ly.bodyF_length`
  * `Ly.fmtF_eq`   : `fmtF d buf prec width … = .ok (d, padOut d.neg (buf ++ bodyF …) |buf| width …)` —
        no panic (width ≥ 0), termination, `d` unchanged
-/
import D128.Proofs.LayoutE

set_option autoImplicit false
set_option maxRecDepth 4096
set_option linter.unusedVariables false

namespace Ly
open Dg Gen

/-- point, fraction digits and padding of `fmtF` (text copied from the generated source) -/
def fmtF_t3 (d : digits) (buf : Go.Bytes) (prec dp start width : Int64) (forceDP printSign padSign padRight padZero : Bool) : Go.GoM (digits × Go.Bytes) := do
  let mut d : digits := d
  let mut buf : Go.Bytes := buf
  let mut prec : Int64 := prec
  let mut dp : Int64 := dp
  if (decide (prec > (0 : Int64))) then
    buf := (buf.push (46 : UInt8))
    while (decide (dp < (0 : Int64))) do
      prec := (prec - (1 : Int64))
      buf := (buf.push (48 : UInt8))
      dp := (dp + (1 : Int64))
    let mut i_1 : Int64 := (0 : Int64)
    if (decide (d.ndig > dp)) then
      let t_4 ← Go.vslice d.dig (Go.idx dp) (Go.idx d.ndig)
      buf := (buf ++ t_4)
      i_1 := (d.ndig - dp)
    while (decide (i_1 < prec)) do
      buf := (buf.push (48 : UInt8))
      i_1 := (i_1 + (1 : Int64))
  else
    if forceDP then
      buf := (buf.push (46 : UInt8))
  let (r_5, r_6) ← digits.pad d buf start width printSign padSign padRight padZero
  d := r_5
  buf := r_6
  return (d, buf)

/-- integer digits of `fmtF`, then `fmtF_t3` -/
def fmtF_t2 (d : digits) (buf : Go.Bytes) (prec start width : Int64) (forceDP printSign padSign padRight padZero : Bool) : Go.GoM (digits × Go.Bytes) := do
  let mut buf : Go.Bytes := buf
  let mut dp : Int64 := (0 : Int64)
  if (d.ndig == (0 : Int64)) then
    buf := (buf.push (48 : UInt8))
  else
    dp := (d.ndig + d.exp)
    if (decide (dp > (0 : Int64))) then
      if (decide (d.ndig > dp)) then
        let t_2 ← Go.vslice d.dig (0 : Int) (Go.idx dp)
        buf := (buf ++ t_2)
      else
        let t_3 ← Go.vslice d.dig (0 : Int) (Go.idx d.ndig)
        buf := (buf ++ t_3)
        let mut i : Int64 := (dp - d.ndig)
        while (decide (i > (2 : Int64))) do
          buf := (((buf.push (48 : UInt8)).push (48 : UInt8)).push (48 : UInt8))
          i := (i - (3 : Int64))
        while (decide (i > (0 : Int64))) do
          buf := (buf.push (48 : UInt8))
          i := (i - (1 : Int64))
    else
      buf := (buf.push (48 : UInt8))
  fmtF_t3 d buf prec dp start width forceDP printSign padSign padRight padZero

/-- sign of `fmtF`, then `fmtF_t2` -/
def fmtF_t1 (d : digits) (buf : Go.Bytes) (prec width : Int64) (forceDP printSign padSign padRight padZero : Bool) : Go.GoM (digits × Go.Bytes) := do
  let mut buf : Go.Bytes := buf
  let mut start : Int64 := (Go.len buf)
  if d.neg then
    buf := (buf.push (45 : UInt8))
  else
    if printSign then
      buf := (buf.push (43 : UInt8))
    else
      if padSign then
        buf := (buf.push (32 : UInt8))
  fmtF_t2 d buf prec start width forceDP printSign padSign padRight padZero

theorem fmtF_unfold (d : digits) (buf : Go.Bytes) (prec width : Int64) (forceDP printSign padSign padRight padZero : Bool) :
    Gen.digits.fmtF d buf prec width forceDP printSign padSign padRight padZero = (do
      let mut buf : Go.Bytes := buf
      if ((Go.len buf) == (0 : Int64)) then
        let mut sizeHint : Int64 := (((2 : Int64) + d.ndig) + d.exp)
        if (decide (width > sizeHint)) then
          sizeHint := width
        let t_1 ← Go.makeBytes (0 : Int) (Go.idx sizeHint)
        buf := t_1
      fmtF_t1 d buf prec width forceDP printSign padSign padRight padZero) := by
  rfl

/-- `for ; i > 2; i -= 3 { buf = append(buf, c, c, c) }` -/
theorem push3_loop_down (c : UInt8)
    (f : Unit → Go.Bytes × Int64 → Go.GoM (ForInStep (Go.Bytes × Int64)))
    (hf : ∀ s, f () s = if decide (s.2 > 2) = true then
        pure (ForInStep.yield (((s.1.push c).push c).push c, s.2 - 3))
        else pure (ForInStep.done (s.1, s.2)))
    (buf : Go.Bytes) (i : Int64) (h0 : 0 ≤ i.toInt) :
    forIn Lean.Loop.mk (buf, i) f =
      .ok (buf ++ Array.replicate (3 * (i.toInt.toNat / 3)) c, i % 3) := by
  have e2 : (2 : Int64).toInt = 2 := by decide
  have e3 : (3 : Int64).toInt = 3 := by decide
  generalize hm : i.toInt.toNat / 3 = m
  induction m generalizing buf i with
  | zero =>
    rw [loop_unfold, hf]
    have : ¬ i > 2 := by
      show ¬ (2 : Int64) < i
      rw [i64_lt, e2]; omega
    simp only [this, decide_false, Bool.false_eq_true, if_false]
    have : i % 3 = i := by
      apply Int64.toInt_inj.mp
      rw [Int64.toInt_mod, e3, Int.tmod_eq_emod_of_nonneg h0]; omega
    rw [this]
    simp; rfl
  | succ m ih =>
    have hlt : i > 2 := by
      show (2 : Int64) < i
      rw [i64_lt, e2]; omega
    have hi := i.toInt_lt
    have e : (i - 3).toInt = i.toInt - 3 := by
      rw [i64_sub _ _ (by rw [e3]; omega) (by rw [e3]; omega), e3]
    have hj := ih (((buf.push c).push c).push c) (i - 3) (by omega) (by omega)
    rw [loop_unfold, hf]
    simp only [hlt, decide_true, if_true]
    show forIn Lean.Loop.mk (((buf.push c).push c).push c, i - 3) f = _
    rw [hj]
    have : (i - 3) % 3 = i % 3 := by
      apply Int64.toInt_inj.mp
      rw [Int64.toInt_mod, Int64.toInt_mod, e3, e, Int.tmod_eq_emod_of_nonneg h0,
        Int.tmod_eq_emod_of_nonneg (by omega)]
      omega
    rw [this]
    congr 2
    apply Array.ext'
    have : 3 * (m + 1) = 3 * m + 1 + 1 + 1 := by omega
    rw [this]
    simp [List.replicate_succ]

/-- `for ; dp < 0; dp++ { prec--; buf = append(buf, '0') }` -/
theorem lead_loop (c : UInt8)
    (f : Unit → Go.Bytes × Int64 × Int64 → Go.GoM (ForInStep (Go.Bytes × Int64 × Int64)))
    (hf : ∀ s, f () s = if decide (s.2.2 < 0) = true then
        pure (ForInStep.yield (s.1.push c, s.2.1 - 1, s.2.2 + 1))
        else pure (ForInStep.done (s.1, s.2.1, s.2.2)))
    (buf : Go.Bytes) (prec dp : Int64) :
    forIn Lean.Loop.mk (buf, prec, dp) f =
      .ok (buf ++ Array.replicate (-dp.toInt).toNat c, prec - Int64.ofNat (-dp.toInt).toNat,
        if dp.toInt < 0 then 0 else dp) := by
  have z0 : (0 : Int64).toInt = 0 := by decide
  generalize hm : (-dp.toInt).toNat = m
  induction m generalizing buf prec dp with
  | zero =>
    rw [loop_unfold, hf]
    have : ¬ dp < 0 := by rw [i64_lt, z0]; omega
    simp only [this, decide_false, Bool.false_eq_true, if_false]
    rw [if_neg (by omega)]
    simp; rfl
  | succ m ih =>
    have hlt : dp < 0 := by rw [i64_lt, z0]; omega
    have e := i64_succ dp 0 (by rw [z0]; omega)
    have h := ih (buf.push c) (prec - 1) (dp + 1) (by rw [e]; omega)
    rw [loop_unfold, hf]
    simp only [hlt, decide_true, if_true]
    show forIn Lean.Loop.mk (buf.push c, prec - 1, dp + 1) f = _
    rw [h, e]
    have h1 : prec - 1 - Int64.ofNat m = prec - Int64.ofNat (m + 1) := by
      rw [Int64.ofNat_add, Int64.sub_sub, Int64.add_comm]; rfl
    have h2 : (if dp.toInt + 1 < 0 then (0 : Int64) else dp + 1) = 0 := by
      split
      · rfl
      · apply Int64.toInt_inj.mp; rw [e, z0]; omega
    rw [h1, h2, if_pos (by omega)]
    congr 2
    apply Array.ext'
    simp [List.replicate_succ]

/-! ## the bytes each stage appends -/

/-- position of the decimal point after the first digit as `fmtF` computes it (0 for no digits) -/
def dpF (d : digits) : Int := if d.ndig.toInt = 0 then 0 else d.ndig.toInt + d.exp.toInt

/-- integer digits of `fmtF` -/
def intF (d : digits) : List UInt8 :=
  if d.ndig.toInt = 0 then [48]
  else if 0 < dpF d then
    (if dpF d < d.ndig.toInt then digs d 0 (dpF d).toNat
     else digs d 0 d.ndig.toInt.toNat ++ List.replicate (dpF d - d.ndig.toInt).toNat 48)
  else [48]

/-- point and fraction digits of `fmtF` (`dp` = point position) -/
def fracF (d : digits) (dp prec : Int) (fdp : Bool) : List UInt8 :=
  if 0 < prec then
    46 :: (List.replicate (-dp).toNat 48 ++
      (if max dp 0 < d.ndig.toInt then digs d (max dp 0).toNat d.ndig.toInt.toNat else []) ++
      List.replicate (prec - (-dp).toNat -
        (if max dp 0 < d.ndig.toInt then d.ndig.toInt - max dp 0 else 0)).toNat 48)
  else if fdp then [46] else []

theorem fmtF_t3_eq (d : digits) (buf : Go.Bytes) (prec dp start width : Int64)
    (fdp ps pds pr pz : Bool) (h0 : 0 ≤ d.ndig.toInt) (h39 : d.ndig.toInt ≤ 39)
    (hp : -2 ^ 62 ≤ prec.toInt) (hd : -2 ^ 62 ≤ dp.toInt) :
    fmtF_t3 d buf prec dp start width fdp ps pds pr pz =
      Gen.digits.pad d (buf ++ (fracF d dp.toInt prec.toInt fdp).toArray) start width ps pds pr pz := by
  have hpgt : (prec > 0) ↔ 0 < prec.toInt := by
    show (0 : Int64) < prec ↔ _
    rw [i64_lt]; rfl
  have z0 : (0 : Int64).toInt = 0 := by decide
  unfold fmtF_t3 fracF
  by_cases hpp : 0 < prec.toInt
  · simp only [hpgt, hpp, decide_true, if_true]
    rw [lead_loop 48 _ (fun s => rfl)]
    simp only [ok_bind]
    generalize hp'e : prec - Int64.ofNat (-dp.toInt).toNat = p'
    generalize hdp'e : (if dp.toInt < 0 then (0 : Int64) else dp) = dp'
    have hdp' : dp'.toInt = max dp.toInt 0 := by
      rw [← hdp'e]; split
      · rw [z0]; omega
      · omega
    have hp' : p'.toInt = prec.toInt - (-dp.toInt).toNat := by
      have hpl := prec.toInt_lt
      have hdl := dp.le_toInt
      rw [← hp'e, i64_sub _ _ (by rw [i64_ofNat _ (by omega)]; omega)
        (by rw [i64_ofNat _ (by omega)]; omega), i64_ofNat _ (by omega)]
    have hgt : (d.ndig > dp') ↔ max dp.toInt 0 < d.ndig.toInt := by
      show dp' < d.ndig ↔ _
      rw [i64_lt, hdp']
    by_cases hn : max dp.toInt 0 < d.ndig.toInt
    · simp only [hgt, hn, decide_true, if_true]
      rw [vslice_digs d (Go.idx dp') (Go.idx d.ndig) (max dp.toInt 0).toNat d.ndig.toInt.toNat
        (by show dp'.toInt = _; omega) (by show d.ndig.toInt = _; omega) (by omega) (by omega)]
      simp only [ok_bind]
      have hsub : (d.ndig - dp').toInt = d.ndig.toInt - max dp.toInt 0 := by
        rw [i64_sub _ _ (by omega) (by omega), hdp']
      rw [push_loop 48 p' _ (fun s => rfl), ok_bind, hsub, hp']
      show (digits.pad d _ start width ps pds pr pz >>= fun p => pure (p.1, p.2)) = _
      rw [bind_pair_eta]
      congr 1
      apply Array.ext'
      simp
    · simp only [hgt, hn, decide_false, Bool.false_eq_true, if_false]
      rw [push_loop 48 p' _ (fun s => rfl), ok_bind, z0, hp']
      show (digits.pad d _ start width ps pds pr pz >>= fun p => pure (p.1, p.2)) = _
      rw [bind_pair_eta]
      congr 1
      apply Array.ext'
      simp
  · simp only [hpgt, hpp, decide_false, Bool.false_eq_true, if_false]
    cases fdp
    · simp only [Bool.false_eq_true, if_false]
      show (digits.pad d _ start width ps pds pr pz >>= fun p => pure (p.1, p.2)) = _
      rw [bind_pair_eta]
      simp
    · simp only [if_true]
      show (digits.pad d _ start width ps pds pr pz >>= fun p => pure (p.1, p.2)) = _
      rw [bind_pair_eta, push1]

/-- everything `fmtF` appends before padding -/
def bodyF (d : digits) (prec : Int) (fdp ps pds : Bool) : List UInt8 :=
  signBytes d.neg ps pds ++ (intF d ++ fracF d (dpF d) prec fdp)

theorem app_app (b : Go.Bytes) (S I L : List UInt8) :
    b ++ S.toArray ++ I.toArray ++ L.toArray = b ++ (S ++ (I ++ L)).toArray := by
  apply Array.ext'; simp

theorem fmtF_t2_eq (d : digits) (buf : Go.Bytes) (prec start width : Int64)
    (fdp ps pds pr pz : Bool) (hexp : ExpOK d) (h0 : 0 ≤ d.ndig.toInt)
    (h39 : d.ndig.toInt ≤ 39) (hp : -2 ^ 62 ≤ prec.toInt) :
    fmtF_t2 d buf prec start width fdp ps pds pr pz =
      Gen.digits.pad d (buf ++ (intF d ++ fracF d (dpF d) prec.toInt fdp).toArray)
        start width ps pds pr pz := by
  obtain ⟨hx0, hx1⟩ := hexp
  have z0 : (0 : Int64).toInt = 0 := by decide
  have hz : (d.ndig == 0) = decide (d.ndig.toInt = 0) := by
    by_cases h : d.ndig.toInt = 0
    · rw [(i64_beq_zero d.ndig).mpr h]; simp [h]
    · have : ¬ (d.ndig == 0) = true := fun e => h ((i64_beq_zero d.ndig).mp e)
      simp [h, this]
  have hdp : (d.ndig + d.exp).toInt = d.ndig.toInt + d.exp.toInt :=
    i64_add _ _ (by omega) (by omega)
  unfold fmtF_t2 intF
  rw [hz]
  by_cases hn : d.ndig.toInt = 0
  · have hdpF : dpF d = 0 := by unfold dpF; rw [if_pos hn]
    simp only [hn, decide_true, if_true]
    rw [fmtF_t3_eq _ _ _ _ _ _ _ _ _ _ _ h0 h39 hp (by rw [z0]; omega), z0, hdpF, push1,
      Array.append_assoc]
    congr 1; apply Array.ext'; simp
  · have hdpF : dpF d = d.ndig.toInt + d.exp.toInt := by unfold dpF; rw [if_neg hn]
    simp only [hn, decide_false, Bool.false_eq_true, if_false]
    have hgt0 : (d.ndig + d.exp > 0) ↔ 0 < dpF d := by
      show (0 : Int64) < d.ndig + d.exp ↔ _
      rw [i64_lt, hdp, hdpF, z0]
    have hgt1 : (d.ndig > d.ndig + d.exp) ↔ dpF d < d.ndig.toInt := by
      show d.ndig + d.exp < d.ndig ↔ _
      rw [i64_lt, hdp, hdpF]
    by_cases hpos : 0 < dpF d
    · simp only [hgt0, hpos, decide_true, if_true]
      by_cases hlt : dpF d < d.ndig.toInt
      · simp only [hgt1, hlt, decide_true, if_true]
        rw [vslice_digs d 0 (Go.idx (d.ndig + d.exp)) 0 (dpF d).toNat rfl
          (by show (d.ndig + d.exp).toInt = _; omega) (by omega) (by omega)]
        simp only [ok_bind]
        rw [fmtF_t3_eq _ _ _ _ _ _ _ _ _ _ _ h0 h39 hp (by omega), hdp, ← hdpF, Array.append_assoc]
        congr 1; apply Array.ext'; simp
      · simp only [hgt1, hlt, decide_false, Bool.false_eq_true, if_false]
        rw [vslice_digs d 0 (Go.idx d.ndig) 0 d.ndig.toInt.toNat rfl
          (by show d.ndig.toInt = _; omega) (by omega) (by omega)]
        simp only [ok_bind]
        have hsub : (d.ndig + d.exp - d.ndig).toInt = dpF d - d.ndig.toInt := by
          rw [i64_sub _ _ (by omega) (by omega), hdp, hdpF]
        rw [push3_loop_down 48 _ (fun s => rfl) _ _ (by omega)]
        simp only [ok_bind]
        rw [push_loop_down 48 _ (fun s => rfl)]
        simp only [ok_bind]
        rw [fmtF_t3_eq _ _ _ _ _ _ _ _ _ _ _ h0 h39 hp (by omega), hdp, ← hdpF]
        have e3 : (3 : Int64).toInt = 3 := by decide
        have hmod : ((d.ndig + d.exp - d.ndig) % 3).toInt = (dpF d - d.ndig.toInt) % 3 := by
          rw [Int64.toInt_mod, hsub, e3, Int.tmod_eq_emod_of_nonneg (by omega)]
        rw [hmod, hsub]
        congr 1
        apply Array.ext'
        have : (dpF d - d.ndig.toInt).toNat =
            3 * ((dpF d - d.ndig.toInt).toNat / 3) + ((dpF d - d.ndig.toInt) % 3).toNat := by omega
        simp only [Array.toList_append, Array.toList_replicate, List.append_assoc]
        congr 2
        rw [← List.append_assoc]
        congr 1
        rw [List.replicate_append_replicate, ← this]
    · simp only [hgt0, hpos, decide_false, Bool.false_eq_true, if_false]
      rw [fmtF_t3_eq _ _ _ _ _ _ _ _ _ _ _ h0 h39 hp (by omega), hdp, ← hdpF, push1,
        Array.append_assoc]
      congr 1; apply Array.ext'; simp

theorem fmtF_t1_eq (d : digits) (buf : Go.Bytes) (prec width : Int64)
    (fdp ps pds pr pz : Bool) (hexp : ExpOK d) (h0 : 0 ≤ d.ndig.toInt)
    (h39 : d.ndig.toInt ≤ 39) (hp : -2 ^ 62 ≤ prec.toInt) :
    fmtF_t1 d buf prec width fdp ps pds pr pz =
      Gen.digits.pad d (buf ++ (bodyF d prec.toInt fdp ps pds).toArray)
        (Go.len buf) width ps pds pr pz := by
  have key : ∀ S : List UInt8,
      fmtF_t2 d (buf ++ S.toArray) prec (Go.len buf) width fdp ps pds pr pz =
      Gen.digits.pad d (buf ++ (S ++ (intF d ++ fracF d (dpF d) prec.toInt fdp)).toArray)
        (Go.len buf) width ps pds pr pz := by
    intro S
    rw [fmtF_t2_eq _ _ _ _ _ _ _ _ _ _ hexp h0 h39 hp]
    congr 1
    apply Array.ext'; simp
  have e0 : buf = buf ++ ([] : List UInt8).toArray := by simp
  unfold fmtF_t1 bodyF signBytes
  cases hneg : d.neg
  · cases ps
    · cases pds
      · simp only [Bool.false_eq_true, if_false]
        have := key []
        rw [← e0] at this
        exact this
      · simp only [Bool.false_eq_true, if_false, if_true]
        rw [push1]; exact key [32]
    · simp only [Bool.false_eq_true, if_false, if_true]
      rw [push1]; exact key [43]
  · simp only [if_true]
    rw [push1]; exact key [45]

theorem intF_length (d : digits) (h0 : 0 ≤ d.ndig.toInt) (h39 : d.ndig.toInt ≤ 39) :
    1 ≤ (intF d).length ∧ (intF d).length ≤ 1 + (dpF d).toNat := by
  unfold intF
  have hd := digs_length d 0 d.ndig.toInt.toNat (by omega)
  have hd' := digs_length d 0 (dpF d).toNat
  split_ifs <;>
    (try simp only [List.length_cons, List.length_append, List.length_replicate, List.length_nil]) <;>
    omega

theorem fracF_length (d : digits) (dp prec : Int) (fdp : Bool) (h0 : 0 ≤ d.ndig.toInt)
    (h39 : d.ndig.toInt ≤ 39) : (fracF d dp prec fdp).length ≤ 40 + (-dp).toNat + prec.toNat := by
  unfold fracF
  have hd := digs_length d (max dp 0).toNat d.ndig.toInt.toNat (by omega)
  split_ifs <;>
    simp only [List.length_cons, List.length_append, List.length_replicate, List.length_nil, hd] <;>
    omega

theorem bodyF_length (d : digits) (prec : Int) (fdp ps pds : Bool)
    (h0 : 0 ≤ d.ndig.toInt) (h39 : d.ndig.toInt ≤ 39) :
    (bodyF d prec fdp ps pds).length ≤ 42 + (dpF d).natAbs + prec.toNat ∧
    (signBytes d.neg ps pds).length + 1 ≤ (bodyF d prec fdp ps pds).length := by
  unfold bodyF
  have h1 := fracF_length d (dpF d) prec fdp h0 h39
  have h2 := intF_length d h0 h39
  have h3 := signBytes_length d.neg ps pds
  simp only [List.length_append]
  split_ifs at h3 <;> omega

/-- **`fmtF` at the byte level**: never panics (for a non-negative width), terminates, leaves `d`
alone and returns the buffer with `bodyF` appended and padded to `width` by `padOut`. -/
theorem fmtF_eq (d : digits) (buf : Go.Bytes) (prec width : Int64)
    (fdp ps pds pr pz : Bool) (hx0 : -2 ^ 58 ≤ d.exp.toInt) (hx1 : d.exp.toInt ≤ 2 ^ 58)
    (h0 : 0 ≤ d.ndig.toInt) (h39 : d.ndig.toInt ≤ 39) (W : Nat) (hW : width.toInt = W)
    (hW' : W < 2 ^ 62) (hb : buf.size < 2 ^ 61) (hp0 : -2 ^ 62 ≤ prec.toInt)
    (hp : prec.toInt < 2 ^ 58) :
    Gen.digits.fmtF d buf prec width fdp ps pds pr pz =
      .ok (d, padOut d.neg (buf ++ (bodyF d prec.toInt fdp ps pds).toArray) buf.size W
        ps pds pr pz) := by
  have hexp : ExpOK d := ⟨by omega, by omega⟩
  have hlen := len_toInt buf (by omega)
  obtain ⟨hl1, hl2⟩ := bodyF_length d prec.toInt fdp ps pds h0 h39
  have hsl := signBytes_length d.neg ps pds
  have hdpb : (dpF d).natAbs ≤ 39 + 2 ^ 58 := by
    unfold dpF; split <;> omega
  have main : fmtF_t1 d buf prec width fdp ps pds pr pz =
      .ok (d, padOut d.neg (buf ++ (bodyF d prec.toInt fdp ps pds).toArray) buf.size W
        ps pds pr pz) := by
    rw [fmtF_t1_eq _ _ _ _ _ _ _ _ _ hexp h0 h39 hp0]
    apply pad_eq _ _ _ _ _ _ _ _ buf.size W hlen hW
    · simp
    · intro hs
      have : (d.neg || ps || pds) = true := by
        simp only [Bool.and_eq_true] at hs; exact hs.2
      rw [if_pos this] at hsl
      simp; omega
    · simp; omega
    · exact hW'
  rw [fmtF_unfold]
  by_cases hz : (Go.len buf == 0) = true
  · have hsz : buf.size = 0 := by
      have := (i64_beq_zero _).mp hz
      rw [hlen] at this; omega
    have hbuf : buf = #[] := Array.eq_empty_of_size_eq_zero hsz
    have e2 : (2 : Int64).toInt = 2 := by decide
    have h2 : ((2 : Int64) + d.ndig).toInt = 2 + d.ndig.toInt := by
      rw [i64_add _ _ (by omega) (by omega), e2]
    have h9 : ((2 : Int64) + d.ndig + d.exp).toInt = 2 + d.ndig.toInt + d.exp.toInt := by
      rw [i64_add _ _ (by omega) (by omega), h2]
    simp only [hz, if_true]
    by_cases hw : width > 2 + d.ndig + d.exp
    · simp only [hw, decide_true, if_true]
      have : (0 : Int) ≤ Go.idx width := by
        show 0 ≤ width.toInt; omega
      rw [makeBytes_eq _ _ (by omega) this]
      simp only [ok_bind, Int.toNat_zero, Array.replicate_zero]
      rw [← hbuf]; exact main
    · simp only [hw, decide_false, Bool.false_eq_true, if_false]
      have : (0 : Int) ≤ Go.idx (2 + d.ndig + d.exp) := by
        have : ¬ (2 + d.ndig + d.exp).toInt < width.toInt := fun h => hw ((i64_lt _ _).mpr h)
        show 0 ≤ (2 + d.ndig + d.exp).toInt; omega
      rw [makeBytes_eq _ _ (by omega) this]
      simp only [ok_bind, Int.toNat_zero, Array.replicate_zero]
      rw [← hbuf]; exact main
  · simp only [hz, Bool.false_eq_true, if_false]
    exact main

end Ly
