import D128.Proofs.SpecRoundMono

/-! Concrete instances: the hypotheses of the theorems of `SpecRound*` are satisfiable with
    non-trivial values.  Closed evaluations of the executable specification use `decide +kernel`
    (kernel evaluation, no extra axioms). -/

namespace SpecRound
open Spec

/-! ### 1–5 -/
example : Spec.pow10 (-3 + 5) = Spec.pow10 (-3) * Spec.pow10 5 := pow10_add _ _
example : Spec.pow10 (-3) ≤ Spec.pow10 5 := pow10_mono (by norm_num)
example : Spec.ndigits 99999 = Spec.ndigitsSlow 99999 := ndigits_eq_ndigitsSlow _
example : Spec.spacingExpRaw (1 / 3 * (10 : Rat) ^ (7 : Int)) = Spec.spacingExpRaw (1 / 3) + 7 :=
  spacingExpRaw_scale _ (by norm_num) _
example : Spec.spacingExpRaw (1 / 3) = -34 := by decide +kernel
example : coef (1 / 3) (Spec.spacingExpRaw (1 / 3)) ≤ Spec.Cmax ∧
    Spec.Cmax < coef (1 / 3) (Spec.spacingExpRaw (1 / 3) - 1) := spacingExpRaw_spec _ (by norm_num)
example : Spec.spacingExpS (1 / 3) (-6200) = Spec.Emin := by decide +kernel

/-! ### 6 -/
example : Spec.roundToS .nearestEven false (1 / 3) 5 =
    Spec.roundToS .nearestEven false (1 / 3 * (10 : Rat) ^ (5 : Int)) 0 :=
  roundToS_scale _ _ _ (by norm_num) _
example : Spec.roundToS .nearestEven false (1 / 3) 5 =
    .fin false 3333333333333333333333333333333333 (-29) := by decide +kernel
example : Spec.flushOrRoundS .toZero true (2 / 7) (-6190) =
    Spec.flushOrRoundS .toZero true (2 / 7 * (10 : Rat) ^ (-6190 : Int)) 0 :=
  flushOrRoundS_scale _ _ _ (by norm_num) _
example : Spec.exactOrInfS false (5 / 4) 3 = Spec.exactOrInfS false (5 / 4 * (10 : Rat) ^ (3 : Int)) 0 :=
  exactOrInfS_scale _ _ (by norm_num) _
example : Spec.exactOrInfS false (5 / 4) 3 = .fin false 12500000000000000000000000000000000 (-31) := by
  decide +kernel

/-! ### 7 -/
theorem ex_nearestEven_two_thirds :
    Spec.roundTo .nearestEven true (2 / 3) = .fin true 6666666666666666666666666666666667 (-34) := by
  decide +kernel
theorem ex_toZero_two_thirds :
    Spec.roundTo .toZero true (2 / 3) = .fin true 6666666666666666666666666666666666 (-34) := by
  decide +kernel
theorem ex_toNegInf_two_thirds :
    Spec.roundTo .toNegInf true (2 / 3) = .fin true 6666666666666666666666666666666667 (-34) := by
  decide +kernel
theorem ex_toPosInf_two_thirds :
    Spec.roundTo .toPosInf true (2 / 3) = .fin true 6666666666666666666666666666666666 (-34) := by
  decide +kernel
theorem ex_away_two_thirds :
    Spec.roundTo .awayFromZero false (2 / 3) = .fin false 6666666666666666666666666666666667 (-34) := by
  decide +kernel

-- 7a
example : Spec.roundTo .toPosInf false (22 / 7) = .inf false ∨
    ∃ c e, Spec.roundTo .toPosInf false (22 / 7) = .fin false c e ∧ c ≤ Spec.Cmax ∧
      Spec.Emin ≤ e ∧ e ≤ Spec.Emax := roundTo_member _ _ _ (by norm_num)
example : |((6666666666666666666666666666666667 : Nat) : Rat) * (10 : Rat) ^ (-34 : Int) - 2 / 3| <
    (10 : Rat) ^ (Spec.spacingExp (2 / 3)) :=
  roundTo_within_spacing (by norm_num) ex_nearestEven_two_thirds
-- 7b
example : ((6666666666666666666666666666666666 : Nat) : Rat) * (10 : Rat) ^ (-34 : Int) ≤ 2 / 3 :=
  roundTo_down_le (m := .toZero) rfl (by norm_num) ex_toZero_two_thirds
example : (2 / 3 : Rat) ≤ ((6666666666666666666666666666666667 : Nat) : Rat) * (10 : Rat) ^ (-34 : Int) :=
  roundTo_up_ge (m := .awayFromZero) rfl (by norm_num) ex_away_two_thirds
example : (Spec.Val.fin true 6666666666666666666666666666666666 (-34)).abs ≤ 2 / 3 :=
  roundTo_toZero_le (by norm_num) ex_toZero_two_thirds
example : (2 / 3 : Rat) ≤ (Spec.Val.fin false 6666666666666666666666666666666667 (-34)).abs :=
  roundTo_awayFromZero_ge (by norm_num) ex_away_two_thirds
example : (Spec.Val.fin true 6666666666666666666666666666666667 (-34)).toRat ≤ -(2 / 3) := by
  simpa using roundTo_toNegInf_le (by norm_num) ex_toNegInf_two_thirds
example : -(2 / 3 : Rat) ≤ (Spec.Val.fin true 6666666666666666666666666666666666 (-34)).toRat := by
  simpa using roundTo_toPosInf_ge (by norm_num) ex_toPosInf_two_thirds
-- 7c
example : |((6666666666666666666666666666666667 : Nat) : Rat) * (10 : Rat) ^ (-34 : Int) - 2 / 3| ≤
    (10 : Rat) ^ (Spec.spacingExp (2 / 3)) / 2 :=
  roundTo_nearest_half (m := .nearestEven) rfl (by norm_num) ex_nearestEven_two_thirds

/-- a tie: 10^34 + 1/2 lies midway between the members 10^34 and 10^34 + 1 -/
theorem ex_tie_even : Spec.roundTo .nearestEven false (10 ^ 34 + 1 / 2) = .fin false (10 ^ 34) 0 := by
  decide +kernel
theorem ex_tie_away : Spec.roundTo .nearestAway false (10 ^ 34 + 1 / 2) = .fin false (10 ^ 34 + 1) 0 := by
  decide +kernel
theorem ex_tie_spacing : Spec.spacingExp (10 ^ 34 + 1 / 2) = 0 := by decide +kernel

example : (10 ^ 34 : Nat) % 2 = 0 :=
  roundTo_nearestEven_tie (by norm_num) ex_tie_even (by
    rw [ex_tie_spacing]; norm_num [abs_of_neg])
example : ((10 ^ 34 + 1 : Nat) : Rat) * (10 : Rat) ^ (0 : Int) =
    (10 ^ 34 + 1 / 2) + (10 : Rat) ^ (Spec.spacingExp (10 ^ 34 + 1 / 2)) / 2 :=
  roundTo_nearestAway_tie (by norm_num) ex_tie_away (by
    rw [ex_tie_spacing]; norm_num [abs_of_pos])

theorem ex_member : Member ((2 : Nat) * (10 : Rat) ^ (-1 : Int)) :=
  ⟨2, -1, by unfold Spec.Cmax; norm_num, by unfold Spec.Emin; norm_num, by unfold Spec.Emax; norm_num, rfl⟩

example : |((6666666666666666666666666666666667 : Nat) : Rat) * (10 : Rat) ^ (-34 : Int) - 2 / 3| ≤
    |((2 : Nat) : Rat) * (10 : Rat) ^ (-1 : Int) - 2 / 3| :=
  roundTo_nearest_member (m := .nearestEven) rfl (by norm_num) ex_nearestEven_two_thirds ex_member
-- 7d
example : ∃ c' e', Spec.roundTo .toNegInf true ((12345 : Nat) * (10 : Rat) ^ (-3 : Int)) = .fin true c' e' ∧
    (c' : Rat) * (10 : Rat) ^ e' = (12345 : Nat) * (10 : Rat) ^ (-3 : Int) ∧
    c' ≤ Spec.Cmax ∧ Spec.Emin ≤ e' ∧ e' ≤ -3 :=
  roundTo_exact _ _ (by norm_num) (by unfold Spec.Cmax; norm_num) (by unfold Spec.Emin; norm_num)
    (by unfold Spec.Emax; norm_num)
example : Spec.roundTo .toNegInf true (12345 / 1000) = .fin true 12345000000000000000000000000000000 (-33) := by
  decide +kernel
-- 7e
example : ((2 : Nat) : Rat) * (10 : Rat) ^ (-1 : Int) ≤
    ((6666666666666666666666666666666666 : Nat) : Rat) * (10 : Rat) ^ (-34 : Int) :=
  roundTo_down_greatest (m := .toZero) rfl (by norm_num) ex_toZero_two_thirds ex_member (by norm_num)

theorem ex_member7 : Member ((7 : Nat) * (10 : Rat) ^ (-1 : Int)) :=
  ⟨7, -1, by unfold Spec.Cmax; norm_num, by unfold Spec.Emin; norm_num, by unfold Spec.Emax; norm_num, rfl⟩
example : ((6666666666666666666666666666666667 : Nat) : Rat) * (10 : Rat) ^ (-34 : Int) ≤
    ((7 : Nat) : Rat) * (10 : Rat) ^ (-1 : Int) :=
  roundTo_up_least (m := .awayFromZero) rfl (by norm_num) ex_away_two_thirds ex_member7 (by norm_num)

/-- overflow: 10^6200 is above every member -/
theorem ex_inf : Spec.roundTo .toZero false ((10 : Rat) ^ (6200 : Nat)) = .inf false := by decide +kernel
example : (Spec.Cmax : Rat) * (10 : Rat) ^ Spec.Emax < (10 : Rat) ^ (6200 : Nat) :=
  roundTo_inf_gt_max (by positivity) ex_inf
example : ((7 : Nat) : Rat) * (10 : Rat) ^ (-1 : Int) < (10 : Rat) ^ (6200 : Nat) :=
  roundTo_inf_no_member (by positivity) ex_inf ex_member7
-- 7f
example : ∃ c1 e1, Spec.roundTo .nearestEven true (1 / 3) = .fin true c1 e1 ∧
    (c1 : Rat) * (10 : Rat) ^ e1 ≤
      ((6666666666666666666666666666666667 : Nat) : Rat) * (10 : Rat) ^ (-34 : Int) :=
  roundTo_mono _ _ (by norm_num) (by norm_num) ex_nearestEven_two_thirds

/-! ### 8 -/
example : Spec.flushOrRound .awayFromZero true ((10 : Rat) ^ (-6200 : Int)) = .fin true 0 Spec.Emin :=
  flushOrRound_tiny _ _ (zpow_pos (by norm_num) _)
    (zpow_lt_zpow_right₀ (by norm_num) (by unfold Spec.Emin; norm_num))
example : Spec.flushOrRound .awayFromZero true ((10 : Rat) ^ (-6177 : Int)) =
    Spec.roundTo .awayFromZero true ((10 : Rat) ^ (-6177 : Int)) :=
  flushOrRound_eq_roundTo _ _ (zpow_le_zpow_right₀ (by norm_num) (by unfold Spec.Emin; norm_num))
example : Spec.roundTo .awayFromZero true (1 / (10 : Rat) ^ (6177 : Nat)) = .fin true 1 (-6176) := by
  decide +kernel

/-! ### membership test -/
example : Spec.isMember (5 / 4) = true := (isMember_iff (by norm_num)).2
  ⟨125, -2, by unfold Spec.Cmax; norm_num, by unfold Spec.Emin; norm_num, by unfold Spec.Emax; norm_num,
    by norm_num⟩
example : Spec.isMember (1 / 3) = false := by decide +kernel

end SpecRound
