/-
  D128/Proofs/CohortFloat.lean — `Gen.Decimal.Float64` / `Float32` (Go: /repo/convert.go) on special and
  zero operands depend on the class and sign of the operand only (property C19, first clause, PARTIAL:
  the finite non-zero path, which is only specified up to one binary ulp, is not covered).

  * `Float64_trivial` : NaN ↦ `math.NaN()`, ±Inf ↦ `math.Inf(∓1)`, ±0 (any exponent) ↦ ±0
  * `Float64_congr_trivial`, `Float32_congr_trivial` : operands related by `sameNum`, one of them special or
    zero: identical results (bit for bit, the same NaN pattern included)
-/
import D128.Proofs.FloatToCode
import D128.Proofs.Specials
import D128.Proofs.CmpWords
import D128.Proofs.CohortBase
set_option autoImplicit false

namespace Cohort
open Gen

local notation "𝔳[" d "]" => Spec.interp (Gen.Decimal.lo d) (Gen.Decimal.hi d)

theorem Float64_trivial (d : Decimal)
    (h : Decimal.isSpecial d = true ∨ Decimal.IsZero d = true) :
    Decimal.Float64 d = .ok (if Decimal.isSpecial d = true then
        (if Decimal.IsNaN d = true then Go.math.NaN else F2.infRes (Decimal.Signbit d))
      else F2.zeroRes (Decimal.Signbit d)) := by
  by_cases hs : Decimal.isSpecial d = true
  · rw [if_pos hs, F2.Float64_special d hs]
  · have hs' : Decimal.isSpecial d = false := by simpa using hs
    have hz : Decimal.IsZero d = true := h.resolve_left hs
    rw [if_neg hs, F2.Float64_zero d hs']
    rw [CmpPf.U128_or_eq_zero, ← Sp.IsZero_eq_sig]; exact hz

/-- class tests and sign of `sameNum` patterns agree -/
theorem class_congr (d d' : Decimal) (h : (𝔳[d]).sameNum 𝔳[d'] = true) :
    Decimal.isSpecial d = Decimal.isSpecial d' ∧ Decimal.IsNaN d = Decimal.IsNaN d' ∧
    Decimal.IsZero d = Decimal.IsZero d' ∧
    (Decimal.IsNaN d = false → Decimal.Signbit d = Decimal.Signbit d') := by
  have h1 : (𝔳[d]).isFin = (𝔳[d']).isFin := by
    rcases sameNum_cases h with ⟨_, _, _, _, a, b⟩ | ⟨_, a, b⟩ | ⟨_, _, _, _, _, a, b, _⟩ <;>
      rw [a, b] <;> rfl
  rw [Enc.interp_isFin, Enc.interp_isFin] at h1
  refine ⟨by simpa using h1, ?_, ?_, ?_⟩
  · rw [← Enc.interp_isNaN, ← Enc.interp_isNaN, isNaN_congr h]
  · rw [← Enc.interp_isZero, ← Enc.interp_isZero, isZero_congr h]
  · intro hn
    rw [← Enc.interp_isNaN] at hn
    rw [← Enc.interp_neg, ← Enc.interp_neg, neg_congr (same_of_sameNum h hn)]

theorem Float64_congr_trivial (d d' : Decimal) (h : (𝔳[d]).sameNum 𝔳[d'] = true)
    (ht : Decimal.isSpecial d = true ∨ Decimal.IsZero d = true) :
    Decimal.Float64 d = Decimal.Float64 d' := by
  obtain ⟨c1, c2, c3, c4⟩ := class_congr d d' h
  rw [Float64_trivial d ht, Float64_trivial d' (by rw [← c1, ← c3]; exact ht), ← c1, ← c2]
  cases hn : Decimal.IsNaN d
  · rw [← c4 hn]
  · have hsp : Decimal.isSpecial d = true := by
      have a := Enc.interp_isFin d
      have b := Enc.interp_isNaN d
      rw [hn] at b
      cases hv : Spec.interp d.lo d.hi <;> rw [hv] at a b <;>
        simp_all [Spec.Val.isFin, Spec.Val.isNaN]
    simp [hsp]

theorem Float32_congr_trivial (d d' : Decimal) (h : (𝔳[d]).sameNum 𝔳[d'] = true)
    (ht : Decimal.isSpecial d = true ∨ Decimal.IsZero d = true) :
    Decimal.Float32 d = Decimal.Float32 d' := by
  rw [F2.Float32_eq, F2.Float32_eq, Float64_congr_trivial d d' h ht]

end Cohort
