/-
  The executable specification `D128/Spec/Val.lean` is the mathematical notion "correctly rounded
  member of the decimal128 format" (coefficient 0..Cmax, exponent Emin..Emax).  Umbrella module.

  * `SpecRoundBase`     1 pow10 = zpow; 2 ndigits; 3 ilog10; 4 splitAt; 5 spacing exponent
  * `SpecRoundScale`    6 the scale parameter k is only an optimisation
  * `SpecRoundAt`       roundAt per mode, shape of roundTo, members vs. the grid
  * `SpecRoundMain`     7a–7e characterisation of roundTo, 8 flushOrRound
  * `SpecRoundMono`     7f monotonicity, isMember ↔ Member, nearest overflow threshold
  * `SpecRoundExamples` concrete instances of every theorem's hypotheses
-/
import D128.Proofs.SpecRoundExamples
