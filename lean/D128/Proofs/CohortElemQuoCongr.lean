/-
  D128/Proofs/CohortElemQuoCongr.lean — property C19 for the elementary functions: `decomposed192.quo` on two pairs of
  operands of equal values (cohort members `⟨c, e⟩`, `⟨c·10^k, e−k⟩`).

  `quo d o t` normalises the numerator (S), truncates a divisor `≥ OLIM` (T) and runs a schoolbook long division (Q)
  (CohortElemQuoSharp.lean, CohortElemQuoStage.lean).  (S) and (T) are value-congruent (`logScale_congr'`, `trunc_congr`).
  (Q) visits positions `c` with quotient `⌊Dn·10^c/On⌋` and stops at the first VISITED position with remainder `0` or
  quotient `≥ LIM`; the positions visited depend on the sizes of quotient and remainder, i.e. on the representation.

  OBSERVATION 1 (`#guard`s below) — `quo` is not a function of the values when a run STARTS BEYOND the stopping point:
  an over-full numerator (`10·LIM ≤ sig < 2^192`, not touched by (S)) divided by `⟨1, 3⟩` is returned as it is (58 digits,
  exact), divided by `⟨1000, 0⟩` it loses its last digit (57 digits, inexact).

  OBSERVATION 2 / FINDING (`#guard`s below) — nor when a round of the long division STEPS OVER the stopping point.  The
  inner loops multiply quotient and remainder by `10` while `quotient·10^(m−1) < LIM`, where `quotient = ⌊Dn·10^c0/On⌋` is
  the value at the START of the round, not `⌊Dn·10^(c0+m−1)/On⌋`.  `LIM = 25·2^184` is a multiple of `100`, but
  `LIM % 1000 = 400`: a round of `m ≥ 4` digits can pass a position `p*` with `⌊Dn·10^p*/On⌋ ∈ [LIM, LIM + 10^(m−1))` and stop
  at `p* + 1` (never later, `QPath.over`) with an over-full, inexact quotient in `[10·LIM, 10·LIM + 10^m)`; another
  representation of the same divisor (larger remainders, shorter rounds) stops at `p*`.  Instance: numerator
  `⟨⌊LIM/1000⌋·1001 + 500, 0⟩` (`Full`), divisors `⟨1001, 0⟩` and `⟨1001·10^50, −50⟩`: quotients `…8704995e−4` (58 digits) and
  `…870499e−3` — different values, both flags `1`.  So the belief "`Dn < 10·LIM ⇒ r.sig < 10·LIM`, an inexact quotient is
  `Full`" is FALSE, and `quo_congr` needs a hypothesis excluding the step-over (`hns`); three sufficient conditions are
  proved: short last round, long divisor (`LIM ≤ 400·On`), quotient not within `10^56` above `LIM·10^n` (`NoSkip`).
  (The reduction loop `for sig256[3] != 0` on the other hand never runs: `quo_sum_lt`.)

  Provided (namespace `CohortElem`):
  * `quo_norm_run`     : `quo` on normalised operands (numerator `≥ LIM`, divisor `< OLIM`), `toInt` exponents
  * `pair_core`, `quo_pair_aux`, `quo_pair` : two runs with one normalised numerator and two divisors of one value
  * `TruncRes`, `quoTrunc_res`, `trunc_congr` : stage (T) is value-congruent: the same register with both flags raised, or
                         exact in both runs
  * `noskip_run`       : the two value-level criteria give the no-step-over property of a run
  * **`quo_congr`**    : the dichotomy for `quo d o t`, `quo d' o' t'` (statement below)
  * `quo_run`          : one run: `.ok`, `QuoSharp`, `toInt` exponent, `a ≤ 57`, `b ≤ 2`, `c ≤ 57`
  * `quo_congr1`       : ONE incoming flag; divisors identical, or `hns`: equal values, equal flags, and `r = r'` unless both
                         quotients are exact (then both significands are below `10·LIM`)
  * `quo_same_div`, `quo_congr_same` : identical divisors, TWO incoming flags: the quotient register does not depend on the
                         flag (the stopping position is a function of numerator and divisor: `QReach.final_unique`)
  * `quo_congr2`       : two flags, side condition `o = o' ∨ NoSkip Q ∨ two long divisors`; conclusion: the dichotomy, and
                         `r = r'` or both significands below `10·LIM`
  * `quo_congr_left` (CohortElemQuoStage.lean) : `o = o'`, `t = t'`: `quo d o t = quo d' o t`, no side condition on the divisor
-/
import D128.Proofs.CohortElemQuoStage
import D128.Proofs.CohortElemQuoMath
set_option autoImplicit false
set_option maxRecDepth 4096
set_option exponentiation.threshold 512
set_option linter.unusedVariables false
open D128.Proofs.WordsWide

namespace CohortElem
open Gen D192 LogAcc

/-! ### one run on normalised operands -/

/-- `quo` on a normalised numerator (`LIM ≤ sig`) and a short divisor (`sig < OLIM`): only the long division runs -/
theorem quo_norm_run (D o : decomposed192) (t : Int8) (hL : LIM ≤ D.sig.toNat)
    (hO : o.sig.toNat < OLIM) (ho0 : o.sig.toNat ≠ 0)
    (hDe : -16100 ≤ D.exp.toInt ∧ D.exp.toInt ≤ 16100) (hoe : -16100 ≤ o.exp.toInt ∧ o.exp.toInt ≤ 16100) :
    ∃ (r : decomposed192) (s : Int8) (c : Nat), decomposed192.quo D o t = .ok (r, s) ∧ c ≤ 57 ∧
      r.sig.toNat = D.sig.toNat * 10 ^ c / o.sig.toNat ∧
      r.exp.toInt = D.exp.toInt - o.exp.toInt - c ∧
      s = (if D.sig.toNat * 10 ^ c % o.sig.toNat = 0 then t else 1) ∧
      (D.sig.toNat * 10 ^ c % o.sig.toNat = 0 ∨ LIM ≤ r.sig.toNat) ∧ 1 ≤ r.sig.toNat ∧
      QPath D.sig.toNat o.sig.toNat c ∧ ∃ i, QReach D.sig.toNat o.sig.toNat i c := by
  have hD0 : D.sig.toNat ≠ 0 := by unfold LIM at hL; omega
  obtain ⟨r, s, a, b, c, hr, H⟩ := quo_sharp D o t hD0 ho0
  have ha : a = 0 := by
    rcases H.a_min with h | h
    · exact h
    · have : D.sig.toNat * 1 ≤ D.sig.toNat * 10 ^ (a - 1) := Nat.mul_le_mul_left _ (Nat.one_le_pow _ _ (by norm_num))
      omega
  have hb : b = 0 := by
    rcases H.b_min with h | h
    · exact h
    · have : o.sig.toNat / 10 ^ (b - 1) ≤ o.sig.toNat := Nat.div_le_self _ _
      omega
  have hc := H.c_le
  have h1 := H.sig; have h2 := H.exp; have h3 := H.flag; have h4 := H.stop; have h5 := H.path
  have h6 := H.reach
  subst ha; subst hb
  simp only [Nat.pow_zero, Nat.mul_one, Nat.div_one, Nat.mod_one, true_and] at h1 h2 h3 h4 h5 h6
  refine ⟨r, s, c, hr, hc, h1, ?_, h3, h4, H.pos, h5, h6⟩
  have z : (Int16.ofNat 0) = 0 := rfl
  rw [h2, z, Int16.sub_zero, Int16.add_zero]
  have hkc : (Int16.ofNat c).toInt = c := Int16.toInt_ofNat_of_lt (by omega)
  have e1 : (D.exp - o.exp).toInt = D.exp.toInt - o.exp.toInt := by
    rw [Int16.toInt_sub_of] <;> omega
  rw [Int16.toInt_sub_of] <;> rw [e1, hkc] <;> omega

/-- an exact quotient in ℚ -/
theorem exact_quot_val {r : decomposed192} {N M c : Nat} {eD eO : Int} (hM : 0 < M)
    (hs : r.sig.toNat = N * 10 ^ c / M) (he : r.exp.toInt = eD - eO - c) (hz : N * 10 ^ c % M = 0) :
    val r * ((M : ℚ) * (10 : ℚ) ^ eO) = (N : ℚ) * (10 : ℚ) ^ eD := by
  have hdm := Nat.div_add_mod (N * 10 ^ c) M
  rw [hz, Nat.add_zero, ← hs] at hdm
  have hq : ((M : ℚ)) * (r.sig.toNat : ℚ) = (N : ℚ) * (10 : ℚ) ^ c := by exact_mod_cast hdm
  unfold val
  rw [he]
  have e1 : (10 : ℚ) ^ (eD - eO - (c : Int)) = (10 : ℚ) ^ eD * ((10 : ℚ) ^ eO)⁻¹ * ((10 : ℚ) ^ c)⁻¹ := by
    rw [zpow_sub₀ (by norm_num), zpow_sub₀ (by norm_num), zpow_natCast]
    rfl
  rw [e1]
  have hc0 : ((10 : ℚ) ^ c) ≠ 0 := pow_ne_zero _ (by norm_num)
  have ho0 : ((10 : ℚ) ^ eO) ≠ 0 := (zpow_pos (by norm_num) _).ne'
  field_simp
  linarith

/-- the quotient at the start is below `10·LIM` unless the numerator is over-full and the divisor is `1` -/
theorem start_lt (N M : Nat) (hN : N < 2 ^ 192) (h : N < 10 * LIM ∨ 2 ≤ M) : N / M < 10 * LIM := by
  rcases h with h | h
  · exact Nat.lt_of_le_of_lt (Nat.div_le_self _ _) h
  · rw [Nat.div_lt_iff_lt_mul (by omega)]
    unfold LIM; omega

/-! ### two runs on normalised operands -/

/-- the arithmetic core: divisors `M` and `M·10^k`, stopping positions `c` and `c'` -/
theorem pair_core (N M k c c' : Nat) (hM : 0 < M) (hN : N < 2 ^ 192)
    (hstart : N < 10 * LIM ∨ (2 ≤ M ∧ 2 ≤ M * 10 ^ k))
    (g4 : N * 10 ^ c % M = 0 ∨ LIM ≤ N * 10 ^ c / M)
    (g4' : N * 10 ^ c' % (M * 10 ^ k) = 0 ∨ LIM ≤ N * 10 ^ c' / (M * 10 ^ k))
    (hns : c = 0 ∨ N * 10 ^ (c - 1) / M < LIM)
    (hns' : c' = 0 ∨ N * 10 ^ (c' - 1) / (M * 10 ^ k) < LIM) :
    N * 10 ^ c / M < 10 * LIM ∧ N * 10 ^ c' / (M * 10 ^ k) < 10 * LIM ∧
      (c + k = c' ∨ (N * 10 ^ c % M = 0 ∧ N * 10 ^ c' % (M * 10 ^ k) = 0)) := by
  have hM' : 0 < M * 10 ^ k := Nat.mul_pos hM (by positivity)
  have f1 : ∀ p, N * 10 ^ (p + k) / (M * 10 ^ k) = N * 10 ^ p / M := fun p => qf_shift N M p k
  have f2 : ∀ p, N * 10 ^ (p + k) % (M * 10 ^ k) = 0 ↔ N * 10 ^ p % M = 0 := fun p => qr_shift N M p k
  have q1 : (c + k = k ∧ N * 10 ^ k / (M * 10 ^ k) < 10 * LIM) ∨
      (k < c + k ∧ N * 10 ^ (c + k - 1) / (M * 10 ^ k) < LIM) := by
    rcases Nat.eq_zero_or_pos c with h0 | h0
    · left
      refine ⟨by omega, ?_⟩
      have := f1 0
      rw [Nat.zero_add, Nat.pow_zero, Nat.mul_one] at this
      rw [this]
      exact start_lt N M hN (by tauto)
    · right
      refine ⟨by omega, ?_⟩
      have e : c + k - 1 = (c - 1) + k := by omega
      rw [e, f1]
      exact hns.resolve_left (by omega)
  have q2 : (c' = 0 ∧ N * 10 ^ 0 / (M * 10 ^ k) < 10 * LIM) ∨
      (0 < c' ∧ N * 10 ^ (c' - 1) / (M * 10 ^ k) < LIM) := by
    rcases Nat.eq_zero_or_pos c' with h0 | h0
    · left
      refine ⟨h0, ?_⟩
      rw [Nat.pow_zero, Nat.mul_one]
      exact start_lt N _ hN (by tauto)
    · right
      exact ⟨h0, hns'.resolve_left (by omega)⟩
  refine ⟨?_, ?_, ?_⟩
  · rw [← f1]
    rcases q1 with ⟨h0, h⟩ | ⟨h0, h⟩
    · have : c = 0 := by omega
      subst this; rw [Nat.zero_add]; exact h
    · exact qf_lt_ten N _ (c + k) hM' (by omega) h
  · rcases q2 with ⟨h0, h⟩ | ⟨h0, h⟩
    · subst h0; exact h
    · exact qf_lt_ten N _ c' hM' (by omega) h
  · have s1 : N * 10 ^ (c + k) % (M * 10 ^ k) = 0 ∨ LIM ≤ N * 10 ^ (c + k) / (M * 10 ^ k) := by
      rw [f1, f2]; exact g4
    rcases stop_unique N (M * 10 ^ k) k 0 (c + k) c' hM' s1 g4' q1
        (by rcases q2 with ⟨h0, h⟩ | ⟨h0, h⟩
            · exact Or.inl ⟨h0, h⟩
            · exact Or.inr ⟨h0, h⟩) with heq | ⟨z, z'⟩
    · exact Or.inl heq
    · exact Or.inr ⟨(f2 c).mp z, z'⟩

/-- two runs with the same normalised numerator and divisors `o1`, `o1' = o1` with `k` zeros appended -/
theorem quo_pair_aux (D o1 o1' : decomposed192) (t1 t1' : Int8) (k : Nat) (hSc : Sc k o1 o1')
    (hL : LIM ≤ D.sig.toNat) (hO : o1.sig.toNat < OLIM) (hO' : o1'.sig.toNat < OLIM) (ho0 : o1.sig.toNat ≠ 0)
    (hDe : -16100 ≤ D.exp.toInt ∧ D.exp.toInt ≤ 16100) (hoe : -16100 ≤ o1.exp.toInt ∧ o1.exp.toInt ≤ 16100)
    (hoe' : -16100 ≤ o1'.exp.toInt ∧ o1'.exp.toInt ≤ 16100)
    (hstart : D.sig.toNat < 10 * LIM ∨ (o1.sig.toNat ≠ 1 ∧ o1'.sig.toNat ≠ 1))
    (hns : ∀ c, QPath D.sig.toNat o1.sig.toNat c → c = 0 ∨ D.sig.toNat * 10 ^ (c - 1) / o1.sig.toNat < LIM)
    (hns' : ∀ c, QPath D.sig.toNat o1'.sig.toNat c → c = 0 ∨ D.sig.toNat * 10 ^ (c - 1) / o1'.sig.toNat < LIM) :
    ∃ r s r' s', decomposed192.quo D o1 t1 = .ok (r, s) ∧ decomposed192.quo D o1' t1' = .ok (r', s') ∧
      ((r = r' ∧ s = 1 ∧ s' = 1 ∧ Full r) ∨
       (val r * val o1 = val D ∧ val r' * val o1 = val D ∧ s = t1 ∧ s' = t1')) ∧
      1 ≤ r.sig.toNat ∧ 1 ≤ r'.sig.toNat ∧ r.sig.toNat < 10 * LIM ∧ r'.sig.toNat < 10 * LIM ∧
      D.exp.toInt - o1.exp.toInt - 57 ≤ r.exp.toInt ∧ r.exp.toInt ≤ D.exp.toInt - o1.exp.toInt ∧
      D.exp.toInt - o1'.exp.toInt - 57 ≤ r'.exp.toInt ∧ r'.exp.toInt ≤ D.exp.toInt - o1'.exp.toInt := by
  obtain ⟨hs1, hs2⟩ := hSc
  have hM : 0 < o1.sig.toNat := Nat.pos_of_ne_zero ho0
  have ho0' : o1'.sig.toNat ≠ 0 := by
    rw [hs1]; exact Nat.mul_ne_zero ho0 (by positivity)
  have hM' : 0 < o1'.sig.toNat := Nat.pos_of_ne_zero ho0'
  obtain ⟨r, s, c, hr, hc, g1, g2, g3, g4, g5, g6, -⟩ := quo_norm_run D o1 t1 hL hO ho0 hDe hoe
  obtain ⟨r', s', c', hr', hc', g1', g2', g3', g4', g5', g6', -⟩ := quo_norm_run D o1' t1' hL hO' ho0' hDe hoe'
  refine ⟨r, s, r', s', hr, hr', ?_⟩
  have hst : D.sig.toNat < 10 * LIM ∨ (2 ≤ o1.sig.toNat ∧ 2 ≤ o1.sig.toNat * 10 ^ k) := by
    rcases hstart with h | h
    · exact Or.inl h
    · right
      refine ⟨Nat.lt_of_le_of_ne hM (Ne.symm h.1), ?_⟩
      rw [← hs1]
      exact Nat.lt_of_le_of_ne hM' (Ne.symm h.2)
  have core := pair_core D.sig.toNat o1.sig.toNat k c c' hM (U192.toNat_lt _) hst
    (by rw [← g1]; exact g4) (by rw [← hs1, ← g1']; exact g4') (hns c g6) (by rw [← hs1]; exact hns' c' g6')
  rw [← g1, ← hs1, ← g1'] at core
  obtain ⟨hlt, hlt', hcc⟩ := core
  refine ⟨?_, g5, g5', hlt, hlt', by omega, by omega, by omega, by omega⟩
  have hVo' : val o1 = val o1' := by
    unfold val
    rw [hs1, hs2, zpow_add₀ (by norm_num), zpow_natCast]; push_cast; ring
  have exact_case : D.sig.toNat * 10 ^ c % o1.sig.toNat = 0 → D.sig.toNat * 10 ^ c' % o1'.sig.toNat = 0 →
      (val r * val o1 = val D ∧ val r' * val o1 = val D ∧ s = t1 ∧ s' = t1') := by
    intro z z'
    refine ⟨exact_quot_val hM g1 g2 z, ?_, by rw [g3, if_pos z], by rw [g3', if_pos z']⟩
    rw [hVo']
    exact exact_quot_val hM' g1' g2' z'
  rcases hcc with heq | ⟨z, z'⟩
  · by_cases z : D.sig.toNat * 10 ^ c % o1.sig.toNat = 0
    · right
      exact exact_case z (by rw [hs1, ← heq]; exact (qr_shift _ _ c k).mpr z)
    · left
      have z' : ¬ D.sig.toNat * 10 ^ c' % o1'.sig.toNat = 0 := by
        rw [hs1, ← heq, qr_shift]; exact z
      refine ⟨d192_ext ?_ ?_, by rw [g3, if_neg z], by rw [g3', if_neg z'], g4.resolve_left z, hlt⟩
      · rw [g1, g1', hs1, ← heq, qf_shift]
      · rw [g2, g2', hs2, ← heq]; push_cast; ring
  · right
    exact exact_case z z'

/-- two runs with the same normalised numerator and divisors of one value -/
theorem quo_pair (D o1 o1' : decomposed192) (t1 t1' : Int8) (hv : val o1 = val o1')
    (hL : LIM ≤ D.sig.toNat) (hO : o1.sig.toNat < OLIM) (hO' : o1'.sig.toNat < OLIM)
    (ho0 : o1.sig.toNat ≠ 0) (ho0' : o1'.sig.toNat ≠ 0)
    (hDe : -16100 ≤ D.exp.toInt ∧ D.exp.toInt ≤ 16100) (hoe : -16100 ≤ o1.exp.toInt ∧ o1.exp.toInt ≤ 16100)
    (hoe' : -16100 ≤ o1'.exp.toInt ∧ o1'.exp.toInt ≤ 16100)
    (hstart : D.sig.toNat < 10 * LIM ∨ (o1.sig.toNat ≠ 1 ∧ o1'.sig.toNat ≠ 1))
    (hns : ∀ c, QPath D.sig.toNat o1.sig.toNat c → c = 0 ∨ D.sig.toNat * 10 ^ (c - 1) / o1.sig.toNat < LIM)
    (hns' : ∀ c, QPath D.sig.toNat o1'.sig.toNat c → c = 0 ∨ D.sig.toNat * 10 ^ (c - 1) / o1'.sig.toNat < LIM) :
    ∃ r s r' s', decomposed192.quo D o1 t1 = .ok (r, s) ∧ decomposed192.quo D o1' t1' = .ok (r', s') ∧
      ((r = r' ∧ s = 1 ∧ s' = 1 ∧ Full r) ∨
       (val r * val o1 = val D ∧ val r' * val o1 = val D ∧ s = t1 ∧ s' = t1')) ∧
      1 ≤ r.sig.toNat ∧ 1 ≤ r'.sig.toNat ∧ r.sig.toNat < 10 * LIM ∧ r'.sig.toNat < 10 * LIM ∧
      D.exp.toInt - o1.exp.toInt - 57 ≤ r.exp.toInt ∧ r.exp.toInt ≤ D.exp.toInt - o1.exp.toInt ∧
      D.exp.toInt - o1'.exp.toInt - 57 ≤ r'.exp.toInt ∧ r'.exp.toInt ≤ D.exp.toInt - o1'.exp.toInt := by
  obtain ⟨k, hk | hk⟩ := val_eq_nat hv
  · exact quo_pair_aux D o1 o1' t1 t1' k hk hL hO hO' ho0 hDe hoe hoe' hstart hns hns'
  · obtain ⟨r', s', r, s, hr', hr, hdi, p1, p2, p3, p4, p5, p6, p7, p8⟩ :=
      quo_pair_aux D o1' o1 t1' t1 k hk hL hO' hO ho0' hDe hoe' hoe (hstart.imp id And.symm) hns' hns
    refine ⟨r, s, r', s', hr, hr', ?_, p2, p1, p4, p3, p7, p8, p5, p6⟩
    rcases hdi with ⟨a, b, c, e⟩ | ⟨a, b, c, e⟩
    · exact Or.inl ⟨a.symm, c, b, a ▸ e⟩
    · exact Or.inr ⟨hv ▸ b, hv ▸ a, e, c⟩

/-! ### the divisor truncation on two representations of one value -/

/-- what stage (T) returns -/
structure TruncRes (o : decomposed192) (t : Int8) (o1 : decomposed192) (t1 : Int8) (b : Nat) : Prop where
  b_le : b ≤ 2
  sig : o1.sig.toNat = o.sig.toNat / 10 ^ b
  exp : o1.exp = o.exp + Int16.ofNat b
  flag : t1 = (if o.sig.toNat % 10 ^ b = 0 then t else 1)
  b_min : b = 0 ∨ OLIM ≤ o.sig.toNat / 10 ^ (b - 1)
  lt : o1.sig.toNat < OLIM

theorem quoTrunc_res (o : decomposed192) (t : Int8) :
    ∃ o1 t1 b, quoTrunc o t = .ok (o1, t1) ∧ TruncRes o t o1 t1 b := by
  obtain ⟨o1, t1, b, hr, h1, h2, h3, h4, h5, h6, -⟩ := quoTrunc_spec o t
  exact ⟨o1, t1, b, hr, ⟨h1, h2, h3, h4, h5, h6⟩⟩

theorem TruncRes.exp_toInt {o : decomposed192} {t : Int8} {o1 : decomposed192} {t1 : Int8} {b : Nat}
    (h : TruncRes o t o1 t1 b) (he : -16000 ≤ o.exp.toInt ∧ o.exp.toInt ≤ 16000) :
    o1.exp.toInt = o.exp.toInt + b := by
  have hb := h.b_le
  have hkb : (Int16.ofNat b).toInt = b := Int16.toInt_ofNat_of_lt (by omega)
  rw [h.exp, Int16.toInt_add_of] <;> rw [hkb] <;> omega

/-- a divisor that lost digits is long -/
theorem TruncRes.big {o : decomposed192} {t : Int8} {o1 : decomposed192} {t1 : Int8} {b : Nat}
    (h : TruncRes o t o1 t1 b) (hb : b ≠ 0) : LIM ≤ 400 * o1.sig.toNat ∧ OLIM ≤ o.sig.toNat := by
  have h4 := h.b_min.resolve_left hb
  have h5 : o.sig.toNat / 10 ^ (b - 1) ≤ o.sig.toNat := Nat.div_le_self _ _
  refine ⟨?_, by omega⟩
  rw [h.sig, pow_pred_mul b (by omega), ← Nat.div_div_eq_div_mul]
  unfold OLIM lim at h4; unfold LIM
  omega

theorem TruncRes.big' {o : decomposed192} {t : Int8} {o1 : decomposed192} {t1 : Int8} {b : Nat}
    (h : TruncRes o t o1 t1 b) (hbig : LIM ≤ 400 * o.sig.toNat) : LIM ≤ 400 * o1.sig.toNat := by
  rcases Nat.eq_zero_or_pos b with h0 | h0
  · rw [h.sig, h0, Nat.pow_zero, Nat.div_one]; exact hbig
  · exact (h.big (by omega)).1

theorem TruncRes.ne_one {o : decomposed192} {t : Int8} {o1 : decomposed192} {t1 : Int8} {b : Nat}
    (h : TruncRes o t o1 t1 b) (h1 : o.sig.toNat ≠ 1) : o1.sig.toNat ≠ 1 := by
  rcases Nat.eq_zero_or_pos b with h0 | h0
  · rw [h.sig, h0, Nat.pow_zero, Nat.div_one]; exact h1
  · have := (h.big (by omega)).1
    unfold LIM at this
    omega

/-- an exact truncation keeps the value -/
theorem TruncRes.val_eq {o : decomposed192} {t : Int8} {o1 : decomposed192} {t1 : Int8} {b : Nat}
    (h : TruncRes o t o1 t1 b) (he : -16000 ≤ o.exp.toInt ∧ o.exp.toInt ≤ 16000)
    (hz : o.sig.toNat % 10 ^ b = 0) : val o1 = val o :=
  exact_val h.sig (h.exp_toInt he) hz

/-- the divisor truncation on `o` and on `o` with `j` zeros appended -/
theorem trunc_congr_aux (o o' : decomposed192) (t t' : Int8) (o1 o1' : decomposed192) (t1 t1' : Int8) (b b' j : Nat)
    (h : TruncRes o t o1 t1 b) (h' : TruncRes o' t' o1' t1' b') (hSc : Sc j o o')
    (he : -16000 ≤ o.exp.toInt ∧ o.exp.toInt ≤ 16000) (he' : -16000 ≤ o'.exp.toInt ∧ o'.exp.toInt ≤ 16000) :
    (o1 = o1' ∧ t1 = 1 ∧ t1' = 1 ∧ b ≠ 0 ∧ b' ≠ 0) ∨
    (val o1 = val o ∧ val o1' = val o ∧ t1 = t ∧ t1' = t') := by
  obtain ⟨hs1, hs2⟩ := hSc
  have hvo : val o = val o' := Sc.val ⟨hs1, hs2⟩
  have hlt := h.lt; have hlt' := h'.lt
  rw [h.sig] at hlt; rw [h'.sig, hs1] at hlt'
  have hbm' := h'.b_min; rw [hs1] at hbm'
  rcases trunc_min_congr o.sig.toNat j b b' h.b_min hlt hbm' hlt' with hbb | ⟨hb0, hbj⟩
  · have hmod : o'.sig.toNat % 10 ^ b' = 0 ↔ o.sig.toNat % 10 ^ b = 0 := by
      rw [hs1, hbb]; exact mul_pow_mod _ b j
    have hoo : o1 = o1' := by
      refine d192_ext ?_ ?_
      · rw [h.sig, h'.sig, hs1, hbb, Nat.pow_add, Nat.mul_comm (10 ^ b) _, ← Nat.div_div_eq_div_mul,
          Nat.mul_div_cancel _ (by positivity)]
      · rw [h.exp_toInt he, h'.exp_toInt he', hbb]; push_cast; omega
    by_cases hz : o.sig.toNat % 10 ^ b = 0
    · right
      have hv1 := h.val_eq he hz
      refine ⟨hv1, hoo ▸ hv1, ?_, ?_⟩
      · rw [h.flag, if_pos hz]
      · rw [h'.flag, if_pos (hmod.mpr hz)]
    · left
      refine ⟨hoo, ?_, ?_, ?_, ?_⟩
      · rw [h.flag, if_neg hz]
      · rw [h'.flag, if_neg (fun hh => hz (hmod.mp hh))]
      · intro h0; apply hz; rw [h0, Nat.pow_zero, Nat.mod_one]
      · intro h0
        have : b = 0 := by omega
        apply hz; rw [this, Nat.pow_zero, Nat.mod_one]
  · right
    have hz : o.sig.toNat % 10 ^ b = 0 := by rw [hb0, Nat.pow_zero, Nat.mod_one]
    have hz' : o'.sig.toNat % 10 ^ b' = 0 := by
      rw [hs1]
      exact Nat.mod_eq_zero_of_dvd (Dvd.dvd.mul_left (Nat.pow_dvd_pow _ hbj) _)
    refine ⟨h.val_eq he hz, ?_, ?_, ?_⟩
    · rw [hvo]; exact h'.val_eq he' hz'
    · rw [h.flag, if_pos hz]
    · rw [h'.flag, if_pos hz']

/-- **the divisor truncation is value-congruent**: on two divisors of one value it returns the same register with both
flags raised (then both divisors had `≥ OLIM`), or it is exact in both runs -/
theorem trunc_congr (o o' : decomposed192) (t t' : Int8) (o1 o1' : decomposed192) (t1 t1' : Int8) (b b' : Nat)
    (h : TruncRes o t o1 t1 b) (h' : TruncRes o' t' o1' t1' b') (hv : val o = val o')
    (he : -16000 ≤ o.exp.toInt ∧ o.exp.toInt ≤ 16000) (he' : -16000 ≤ o'.exp.toInt ∧ o'.exp.toInt ≤ 16000) :
    (o1 = o1' ∧ t1 = 1 ∧ t1' = 1 ∧ b ≠ 0 ∧ b' ≠ 0) ∨
    (val o1 = val o ∧ val o1' = val o ∧ t1 = t ∧ t1' = t') := by
  obtain ⟨j, hj | hj⟩ := val_eq_nat hv
  · exact trunc_congr_aux o o' t t' o1 o1' t1 t1' b b' j h h' hj he he'
  · rcases trunc_congr_aux o' o t' t o1' o1 t1' t1 b' b j h' h hj he' he with ⟨a, b1, c, e, f⟩ | ⟨a, b1, c, e⟩
    · exact Or.inl ⟨a.symm, c, b1, f, e⟩
    · exact Or.inr ⟨hv ▸ b1, hv ▸ a, e, c⟩

/-! ### the main theorem -/

theorem sig_ne_zero_of_val {x y : decomposed192} (h : val x = val y) (hx : x.sig.toNat ≠ 0) : y.sig.toNat ≠ 0 := by
  intro hy
  unfold val at h
  rw [hy] at h
  have hp : (0 : ℚ) < (10 : ℚ) ^ x.exp.toInt := zpow_pos (by norm_num) _
  have : (x.sig.toNat : ℚ) * 10 ^ x.exp.toInt = 0 := by rw [h]; simp
  rcases mul_eq_zero.mp this with h | h
  · exact hx (by exact_mod_cast h)
  · exact absurd h hp.ne'

/-- the long division of a run does not step over `LIM`, from either criterion -/
theorem noskip_run (D o1 : decomposed192) (Q : ℚ) (hL : LIM ≤ D.sig.toNat) (hO : o1.sig.toNat < OLIM)
    (ho0 : o1.sig.toNat ≠ 0) (hQ : Q = val D / val o1) (hns : NoSkip Q ∨ LIM ≤ 400 * o1.sig.toNat) :
    ∀ c, QPath D.sig.toNat o1.sig.toNat c → c = 0 ∨ D.sig.toNat * 10 ^ (c - 1) / o1.sig.toNat < LIM := by
  intro c hp
  have hM : 0 < o1.sig.toNat := Nat.pos_of_ne_zero ho0
  rcases hns with h | h
  · refine hp.noskip_window hM ?_ (h.nat _ _ (D.exp.toInt - o1.exp.toInt) hM ?_)
    · unfold OLIM lim at hO; unfold LIM at hL; omega
    · rw [hQ]; unfold val
      rw [zpow_sub₀ (by norm_num)]
      have hMq : (o1.sig.toNat : ℚ) ≠ 0 := by exact_mod_cast ho0
      have h10 : (10 : ℚ) ^ o1.exp.toInt ≠ 0 := (zpow_pos (by norm_num) _).ne'
      field_simp
  · exact hp.noskip_big hM h

/-- **`quo` on cohort members** (`val d = val d'`, `val o = val o'`).

Both runs return the SAME register with both flags raised, or both quotients are exact (`val r · val o = val d`, flags passed
through; the representations may differ).  Moreover both significands are non-zero and below `10·LIM`.

Hypotheses beyond equal values, non-zero significands and exponents within `±16000`:
* `hsafe`: both numerators below `10·LIM`, or the same (possibly over-full) numerator and no divisor significand `1`
  (otherwise one run starts beyond the stopping point of the other — the header's first observation);
* `hns`: the long division does not step over `LIM` (the header's second observation): the quotient is not within `10^56`
  above `LIM·10^n` (`NoSkip`, e.g. from `noskip_of_window`), or both divisors have at least 55 digits. -/
theorem quo_congr (d d' o o' : decomposed192) (t t' : Int8)
    (hd : val d = val d') (ho : val o = val o') (hd0 : d.sig.toNat ≠ 0) (ho0 : o.sig.toNat ≠ 0)
    (hsafe : (d.sig.toNat < 10 * LIM ∧ d'.sig.toNat < 10 * LIM) ∨
      (d = d' ∧ o.sig.toNat ≠ 1 ∧ o'.sig.toNat ≠ 1))
    (hns : NoSkip (val d / val o) ∨ (LIM ≤ 400 * o.sig.toNat ∧ LIM ≤ 400 * o'.sig.toNat))
    (h1 : -16000 ≤ d.exp.toInt ∧ d.exp.toInt ≤ 16000) (h2 : -16000 ≤ o.exp.toInt ∧ o.exp.toInt ≤ 16000)
    (h1' : -16000 ≤ d'.exp.toInt ∧ d'.exp.toInt ≤ 16000)
    (h2' : -16000 ≤ o'.exp.toInt ∧ o'.exp.toInt ≤ 16000) :
    ∃ r s r' s', decomposed192.quo d o t = .ok (r, s) ∧ decomposed192.quo d' o' t' = .ok (r', s') ∧
      ((r = r' ∧ s = 1 ∧ s' = 1 ∧ (o.sig.toNat < OLIM → Full r)) ∨
       (val r * val o = val d ∧ val r' * val o = val d ∧ s = t ∧ s' = t')) ∧
      r.sig.toNat ≠ 0 ∧ r'.sig.toNat ≠ 0 ∧ r.sig.toNat < 10 * LIM ∧ r'.sig.toNat < 10 * LIM ∧
      d.exp.toInt - o.exp.toInt - 116 ≤ r.exp.toInt ∧ r.exp.toInt ≤ d.exp.toInt - o.exp.toInt ∧
      d'.exp.toInt - o'.exp.toInt - 116 ≤ r'.exp.toInt ∧ r'.exp.toInt ≤ d'.exp.toInt - o'.exp.toInt := by
  have hd0' : d'.sig.toNat ≠ 0 := sig_ne_zero_of_val hd hd0
  have ho0' : o'.sig.toNat ≠ 0 := sig_ne_zero_of_val ho ho0
  -- stage (S)
  obtain ⟨D, a, hD, ha, hDs, hDe, hDv, hDL⟩ := logScale_spec d hd0 (by omega)
  obtain ⟨D', a', hD', ha', hDs', hDe', hDv', hDL'⟩ := logScale_spec d' hd0' (by omega)
  have hU : d.sig.toNat < 10 * LIM ↔ d'.sig.toNat < 10 * LIM := by
    rcases hsafe with h | h
    · exact ⟨fun _ => h.2, fun _ => h.1⟩
    · rw [h.1]
  have hDD : D = D' := by
    have := logScale_congr' d d' hd0 hd0' hU (by omega) (by omega) hd
    rw [hD, hD'] at this
    cases this; rfl
  subst hDD
  -- stage (T)
  obtain ⟨o1, t1, b, hT, T⟩ := quoTrunc_res o t
  obtain ⟨o1', t1', b', hT', T'⟩ := quoTrunc_res o' t'
  have ho1 : o1.sig.toNat ≠ 0 := by
    obtain ⟨_, _, _, hr, _, _, _, _, _, _, hne⟩ := quoTrunc_spec o t
    rw [hT] at hr; cases hr; exact hne ho0
  have ho1' : o1'.sig.toNat ≠ 0 := by
    obtain ⟨_, _, _, hr, _, _, _, _, _, _, hne⟩ := quoTrunc_spec o' t'
    rw [hT'] at hr; cases hr; exact hne ho0'
  have hq := quo_norm d o D o1 t t1 hd0 hD hT hDL T.lt
  have hq' := quo_norm d' o' D o1' t' t1' hd0' hD' hT' hDL T'.lt
  rw [hq, hq']
  have eo := T.exp_toInt h2
  have eo' := T'.exp_toInt h2'
  have hb := T.b_le; have hb' := T'.b_le
  rcases trunc_congr o o' t t' o1 o1' t1 t1' b b' T T' ho h2 h2' with ⟨e1, e2, e3, e4, e5⟩ | ⟨e1, e2, e3, e4⟩
  · -- the same truncated divisor, both flags raised: one and the same call
    subst e1; subst e2; subst e3
    obtain ⟨r, s, c, hr, hc, g1, g2, g3, g4, g5, g6, -⟩ :=
      quo_norm_run D o1 1 hDL T.lt ho1 (by omega) (by omega)
    have hbig := (T.big e4).1
    have hM : 0 < o1.sig.toNat := Nat.pos_of_ne_zero ho1
    have hlt : r.sig.toNat < 10 * LIM := by
      rw [g1]
      rcases g6.noskip_big hM hbig with h0 | h0
      · subst h0
        rw [Nat.pow_zero, Nat.mul_one]
        exact start_lt _ _ (U192.toNat_lt _) (Or.inr (by unfold LIM at hbig; omega))
      · by_cases hc0 : c = 0
        · subst hc0
          rw [Nat.pow_zero, Nat.mul_one]
          exact start_lt _ _ (U192.toNat_lt _) (Or.inr (by unfold LIM at hbig; omega))
        · exact qf_lt_ten _ _ c hM hc0 h0
    refine ⟨r, s, r, s, hr, hr, Or.inl ⟨rfl, ?_, ?_, ?_⟩, by omega, by omega, hlt, hlt,
      by omega, by omega, by omega, by omega⟩
    · rw [g3]; split <;> rfl
    · rw [g3]; split <;> rfl
    · intro hlo
      have := (T.big e4).2
      omega
  · -- both truncations exact
    subst e3; subst e4
    have hvo : val o1 = val o1' := by rw [e1, e2]
    have hstart : D.sig.toNat < 10 * LIM ∨ (o1.sig.toNat ≠ 1 ∧ o1'.sig.toNat ≠ 1) := by
      rcases hsafe with h | h
      · left
        obtain ⟨D2, hD2, hF, -⟩ := logScale_full d hd0 h.1 (by omega)
        rw [hD] at hD2; cases hD2
        exact hF.2
      · exact Or.inr ⟨T.ne_one h.2.1, T'.ne_one h.2.2⟩
    have hn1 := noskip_run D o1 (val d / val o) hDL T.lt ho1 (by rw [hDv, e1])
      (hns.imp id (fun h => T.big' h.1))
    have hn2 := noskip_run D o1' (val d / val o) hDL T'.lt ho1' (by rw [hDv, e2])
      (hns.imp id (fun h => T'.big' h.2))
    obtain ⟨r, s, r', s', hr, hr', hdi, p1, p2, p3, p4, p5, p6, p7, p8⟩ :=
      quo_pair D o1 o1' t1 t1' hvo hDL T.lt T'.lt ho1 ho1' (by omega) (by omega) (by omega) hstart hn1 hn2
    refine ⟨r, s, r', s', hr, hr', ?_, by omega, by omega, p3, p4, by omega, by omega, by omega, by omega⟩
    rcases hdi with ⟨a1, a2, a3, a4⟩ | ⟨a1, a2, a3, a4⟩
    · exact Or.inl ⟨a1, a2, a3, fun _ => a4⟩
    · right
      rw [e1, hDv] at a1 a2
      exact ⟨a1, a2, a3, a4⟩

/-! ### one run; one incoming flag -/

/-- one run of `quo`: result equation with `toInt` exponents -/
theorem quo_run (d o : decomposed192) (t : Int8) (hd0 : d.sig.toNat ≠ 0) (ho0 : o.sig.toNat ≠ 0)
    (h1 : -16000 ≤ d.exp.toInt ∧ d.exp.toInt ≤ 16000) (h2 : -16000 ≤ o.exp.toInt ∧ o.exp.toInt ≤ 16000) :
    ∃ (r : decomposed192) (s : Int8) (a b c : Nat), decomposed192.quo d o t = .ok (r, s) ∧ QuoSharp d o t r s a b c ∧
      r.exp.toInt = d.exp.toInt - a - (o.exp.toInt + b) - c ∧ a ≤ 57 ∧ b ≤ 2 ∧ c ≤ 57 := by
  obtain ⟨r, s, a, b, c, hr, H⟩ := quo_sharp d o t hd0 ho0
  have ha := H.a_le hd0; have hb := H.b_le; have hc := H.c_le
  refine ⟨r, s, a, b, c, hr, H, ?_, ha, hb, hc⟩
  have hka : (Int16.ofNat a).toInt = a := Int16.toInt_ofNat_of_lt (by omega)
  have hkb : (Int16.ofNat b).toInt = b := Int16.toInt_ofNat_of_lt (by omega)
  have hkc : (Int16.ofNat c).toInt = c := Int16.toInt_ofNat_of_lt (by omega)
  have e1 : (d.exp - Int16.ofNat a).toInt = d.exp.toInt - a := by
    rw [Int16.toInt_sub_of] <;> rw [hka] <;> omega
  have e2 : (o.exp + Int16.ofNat b).toInt = o.exp.toInt + b := by
    rw [Int16.toInt_add_of] <;> rw [hkb] <;> omega
  have e3 : (d.exp - Int16.ofNat a - (o.exp + Int16.ofNat b)).toInt = d.exp.toInt - a - (o.exp.toInt + b) := by
    rw [Int16.toInt_sub_of] <;> rw [e1, e2] <;> omega
  rw [H.exp, Int16.toInt_sub_of] <;> rw [e3, hkc] <;> omega

/-- **`quo` on cohort members, one incoming flag**: the divisors are identical, or the long division does not step over
(`NoSkip`, or two long divisors).  Then the results have equal values and equal flags; they are the same register unless
both quotients are exact, in which case both significands are below `10·LIM`. -/
theorem quo_congr1 (d d' o o' : decomposed192) (t : Int8)
    (hd : val d = val d') (ho : val o = val o') (hd0 : d.sig.toNat ≠ 0) (ho0 : o.sig.toNat ≠ 0)
    (hsafe : (d.sig.toNat < 10 * LIM ∧ d'.sig.toNat < 10 * LIM) ∨
      (d = d' ∧ o.sig.toNat ≠ 1 ∧ o'.sig.toNat ≠ 1))
    (hns : o = o' ∨ NoSkip (val d / val o) ∨ (LIM ≤ 400 * o.sig.toNat ∧ LIM ≤ 400 * o'.sig.toNat))
    (h1 : -16000 ≤ d.exp.toInt ∧ d.exp.toInt ≤ 16000) (h2 : -16000 ≤ o.exp.toInt ∧ o.exp.toInt ≤ 16000)
    (h1' : -16000 ≤ d'.exp.toInt ∧ d'.exp.toInt ≤ 16000)
    (h2' : -16000 ≤ o'.exp.toInt ∧ o'.exp.toInt ≤ 16000) :
    ∃ r r' s, decomposed192.quo d o t = .ok (r, s) ∧ decomposed192.quo d' o' t = .ok (r', s) ∧
      val r = val r' ∧
      (r = r' ∨ (val r * val o = val d ∧ s = t ∧ r.sig.toNat < 10 * LIM ∧ r'.sig.toNat < 10 * LIM)) ∧
      r.sig.toNat ≠ 0 ∧ r'.sig.toNat ≠ 0 ∧
      d.exp.toInt - o.exp.toInt - 116 ≤ r.exp.toInt ∧ r.exp.toInt ≤ d.exp.toInt - o.exp.toInt ∧
      d'.exp.toInt - o'.exp.toInt - 116 ≤ r'.exp.toInt ∧ r'.exp.toInt ≤ d'.exp.toInt - o'.exp.toInt := by
  rcases hns with hoo | hns
  · subst hoo
    have hU : d.sig.toNat < 10 * LIM ↔ d'.sig.toNat < 10 * LIM := by
      rcases hsafe with h | h
      · exact ⟨fun _ => h.2, fun _ => h.1⟩
      · rw [h.1]
    have heq := quo_congr_left d d' o t hd hU (by omega) (by omega)
    obtain ⟨r, s, a, b, c, hr, H, he, ha, hb, hc⟩ := quo_run d o t hd0 ho0 h1 h2
    obtain ⟨r', s', a', b', c', hr', H', he', ha', hb', hc'⟩ :=
      quo_run d' o t (sig_ne_zero_of_val hd hd0) ho0 h1' h2
    have : r' = r ∧ s' = s := by
      rw [heq, hr'] at hr
      cases hr; exact ⟨rfl, rfl⟩
    obtain ⟨rfl, rfl⟩ := this
    have := H.pos
    exact ⟨r', r', s', hr, hr', rfl, Or.inl rfl, by omega, by omega, by omega, by omega, by omega, by omega⟩
  · obtain ⟨r, s, r', s', hr, hr', hdi, p1, p2, p3, p4, p5, p6, p7, p8⟩ :=
      quo_congr d d' o o' t t hd ho hd0 ho0 hsafe hns h1 h2 h1' h2'
    have hvo : val o ≠ 0 := by
      unfold val
      exact mul_ne_zero (by exact_mod_cast ho0) (zpow_pos (by norm_num) _).ne'
    rcases hdi with ⟨a1, a2, a3, a4⟩ | ⟨a1, a2, a3, a4⟩
    · subst a1
      refine ⟨r, r, s, hr, ?_, rfl, Or.inl rfl, p1, p1, p5, p6, p7, p8⟩
      rw [hr', a2, a3]
    · refine ⟨r, r', s, hr, ?_, ?_, Or.inr ⟨a1, a3, p3, p4⟩, p1, p2, p5, p6, p7, p8⟩
      · rw [hr', a3, a4]
      · exact mul_right_cancel₀ hvo (a1.trans a2.symm)

/-! ### identical divisors, two incoming flags: the quotient register does not depend on the flag -/

/-- two runs on the same normalised operands with different incoming flags -/
theorem quo_same_div (D o1 : decomposed192) (t1 t1' : Int8) (hL : LIM ≤ D.sig.toNat)
    (hO : o1.sig.toNat < OLIM) (ho0 : o1.sig.toNat ≠ 0)
    (hDe : -16100 ≤ D.exp.toInt ∧ D.exp.toInt ≤ 16100) (hoe : -16100 ≤ o1.exp.toInt ∧ o1.exp.toInt ≤ 16100) :
    ∃ r s s', decomposed192.quo D o1 t1 = .ok (r, s) ∧ decomposed192.quo D o1 t1' = .ok (r, s') ∧
      ((s = 1 ∧ s' = 1 ∧ LIM ≤ r.sig.toNat) ∨ (val r * val o1 = val D ∧ s = t1 ∧ s' = t1')) ∧
      1 ≤ r.sig.toNat ∧
      D.exp.toInt - o1.exp.toInt - 57 ≤ r.exp.toInt ∧ r.exp.toInt ≤ D.exp.toInt - o1.exp.toInt := by
  obtain ⟨r, s, c, hr, hc, g1, g2, g3, g4, g5, -, i, g7⟩ := quo_norm_run D o1 t1 hL hO ho0 hDe hoe
  obtain ⟨r', s', c', hr', hc', g1', g2', g3', g4', g5', -, i', g7'⟩ := quo_norm_run D o1 t1' hL hO ho0 hDe hoe
  have hcc : c = c' := g7.final_unique g7' (by rw [← g1]; exact g4) (by rw [← g1']; exact g4')
  subst hcc
  have hrr : r' = r := d192_ext (by rw [g1, g1']) (by rw [g2, g2'])
  subst hrr
  refine ⟨r', s, s', hr, hr', ?_, g5, by omega, by omega⟩
  by_cases z : D.sig.toNat * 10 ^ c % o1.sig.toNat = 0
  · right
    exact ⟨exact_quot_val (Nat.pos_of_ne_zero ho0) g1 g2 z, by rw [g3, if_pos z], by rw [g3', if_pos z]⟩
  · left
    exact ⟨by rw [g3, if_neg z], by rw [g3', if_neg z], g4.resolve_left z⟩

/-- **identical divisors, two incoming flags**: the same register in both runs; both flags raised, or the quotient is exact
and the flags are passed through.  No hypothesis on the divisor beyond `o.sig ≠ 0`. -/
theorem quo_congr_same (d d' o : decomposed192) (t t' : Int8) (hd : val d = val d')
    (hd0 : d.sig.toNat ≠ 0) (ho0 : o.sig.toNat ≠ 0)
    (hU : d.sig.toNat < 10 * LIM ↔ d'.sig.toNat < 10 * LIM)
    (h1 : -16000 ≤ d.exp.toInt ∧ d.exp.toInt ≤ 16000) (h2 : -16000 ≤ o.exp.toInt ∧ o.exp.toInt ≤ 16000)
    (h1' : -16000 ≤ d'.exp.toInt ∧ d'.exp.toInt ≤ 16000) :
    ∃ r s s', decomposed192.quo d o t = .ok (r, s) ∧ decomposed192.quo d' o t' = .ok (r, s') ∧
      ((s = 1 ∧ s' = 1 ∧ (o.sig.toNat < OLIM → LIM ≤ r.sig.toNat)) ∨
       (val r * val o = val d ∧ s = t ∧ s' = t')) ∧
      r.sig.toNat ≠ 0 ∧
      d.exp.toInt - o.exp.toInt - 116 ≤ r.exp.toInt ∧ r.exp.toInt ≤ d.exp.toInt - o.exp.toInt := by
  rw [← quo_congr_left d d' o t' hd hU (by omega) (by omega)]
  obtain ⟨D, a, hD, ha, hDs, hDe, hDv, hDL⟩ := logScale_spec d hd0 (by omega)
  obtain ⟨o1, t1, b, hT, T⟩ := quoTrunc_res o t
  obtain ⟨o1', t1', b', hT', T'⟩ := quoTrunc_res o t'
  have ho1 : o1.sig.toNat ≠ 0 := by
    obtain ⟨_, _, _, hr, _, _, _, _, _, _, hne⟩ := quoTrunc_spec o t
    rw [hT] at hr; cases hr; exact hne ho0
  have hbb : b' = b := by
    have l1 := T.lt; have l2 := T'.lt
    rw [T.sig] at l1; rw [T'.sig] at l2
    exact minK_unique l2 T'.b_min l1 T.b_min
  subst hbb
  have hoo : o1' = o1 := d192_ext (by rw [T.sig, T'.sig]) (by rw [T.exp, T'.exp])
  subst hoo
  rw [quo_norm d o D o1' t t1 hd0 hD hT hDL T.lt, quo_norm d o D o1' t' t1' hd0 hD hT' hDL T.lt]
  have eo := T.exp_toInt h2
  have hb := T.b_le
  by_cases hz : o.sig.toNat % 10 ^ b' = 0
  · have e1 : t1 = t := by rw [T.flag, if_pos hz]
    have e2 : t1' = t' := by rw [T'.flag, if_pos hz]
    subst e1; subst e2
    have hv := T.val_eq h2 hz
    obtain ⟨r, s, s', hr, hr', hdi, p1, p2, p3⟩ :=
      quo_same_div D o1' t1 t1' hDL T.lt ho1 (by omega) (by omega)
    refine ⟨r, s, s', hr, hr', ?_, by omega, by omega, by omega⟩
    rcases hdi with ⟨a1, a2, a3⟩ | ⟨a1, a2, a3⟩
    · exact Or.inl ⟨a1, a2, fun _ => a3⟩
    · right
      rw [hv, hDv] at a1
      exact ⟨a1, a2, a3⟩
  · have e1 : t1 = 1 := by rw [T.flag, if_neg hz]
    have e2 : t1' = 1 := by rw [T'.flag, if_neg hz]
    subst e1; subst e2
    obtain ⟨r, s, c, hr, hc, g1, g2, g3, g4, g5, -, -⟩ :=
      quo_norm_run D o1' 1 hDL T.lt ho1 (by omega) (by omega)
    have hb0 : b' ≠ 0 := by
      intro h0; apply hz; rw [h0, Nat.pow_zero, Nat.mod_one]
    refine ⟨r, s, s, hr, hr, Or.inl ⟨?_, ?_, ?_⟩, by omega, by omega, by omega⟩
    · rw [g3]; split <;> rfl
    · rw [g3]; split <;> rfl
    · intro hlo
      have := (T.big hb0).2
      omega

/-- **`quo` on cohort members, two incoming flags, all three side conditions**: the divisors are identical, or the long
division does not step over.  The dichotomy of `quo_congr`, and `r = r'` or both significands below `10·LIM`. -/
theorem quo_congr2 (d d' o o' : decomposed192) (t t' : Int8)
    (hd : val d = val d') (ho : val o = val o') (hd0 : d.sig.toNat ≠ 0) (ho0 : o.sig.toNat ≠ 0)
    (hsafe : (d.sig.toNat < 10 * LIM ∧ d'.sig.toNat < 10 * LIM) ∨
      (d = d' ∧ o.sig.toNat ≠ 1 ∧ o'.sig.toNat ≠ 1))
    (hns : o = o' ∨ NoSkip (val d / val o) ∨ (LIM ≤ 400 * o.sig.toNat ∧ LIM ≤ 400 * o'.sig.toNat))
    (h1 : -16000 ≤ d.exp.toInt ∧ d.exp.toInt ≤ 16000) (h2 : -16000 ≤ o.exp.toInt ∧ o.exp.toInt ≤ 16000)
    (h1' : -16000 ≤ d'.exp.toInt ∧ d'.exp.toInt ≤ 16000)
    (h2' : -16000 ≤ o'.exp.toInt ∧ o'.exp.toInt ≤ 16000) :
    ∃ r s r' s', decomposed192.quo d o t = .ok (r, s) ∧ decomposed192.quo d' o' t' = .ok (r', s') ∧
      ((r = r' ∧ s = 1 ∧ s' = 1 ∧ (o.sig.toNat < OLIM → LIM ≤ r.sig.toNat)) ∨
       (val r * val o = val d ∧ val r' * val o = val d ∧ s = t ∧ s' = t')) ∧
      (r = r' ∨ (r.sig.toNat < 10 * LIM ∧ r'.sig.toNat < 10 * LIM)) ∧
      r.sig.toNat ≠ 0 ∧ r'.sig.toNat ≠ 0 ∧
      d.exp.toInt - o.exp.toInt - 116 ≤ r.exp.toInt ∧ r.exp.toInt ≤ d.exp.toInt - o.exp.toInt ∧
      d'.exp.toInt - o'.exp.toInt - 116 ≤ r'.exp.toInt ∧ r'.exp.toInt ≤ d'.exp.toInt - o'.exp.toInt := by
  rcases hns with hoo | hns
  · subst hoo
    have hU : d.sig.toNat < 10 * LIM ↔ d'.sig.toNat < 10 * LIM := by
      rcases hsafe with h | h
      · exact ⟨fun _ => h.2, fun _ => h.1⟩
      · rw [h.1]
    obtain ⟨r, s, s', hr, hr', hdi, p1, p2, p3⟩ := quo_congr_same d d' o t t' hd hd0 ho0 hU h1 h2 h1'
    have hexp : d'.exp.toInt - o.exp.toInt - 116 ≤ r.exp.toInt ∧ r.exp.toInt ≤ d'.exp.toInt - o.exp.toInt := by
      obtain ⟨r2, s2, a, b, c, hr2, H, he, ha, hb, hc⟩ := quo_run d' o t' (sig_ne_zero_of_val hd hd0) ho0 h1' h2
      rw [hr'] at hr2; cases hr2
      omega
    refine ⟨r, s, r, s', hr, hr', ?_, Or.inl rfl, p1, p1, p2, p3, hexp.1, hexp.2⟩
    rcases hdi with ⟨a1, a2, a3⟩ | ⟨a1, a2, a3⟩
    · exact Or.inl ⟨rfl, a1, a2, a3⟩
    · exact Or.inr ⟨a1, a1, a2, a3⟩
  · obtain ⟨r, s, r', s', hr, hr', hdi, p1, p2, p3, p4, p5, p6, p7, p8⟩ :=
      quo_congr d d' o o' t t' hd ho hd0 ho0 hsafe hns h1 h2 h1' h2'
    refine ⟨r, s, r', s', hr, hr', ?_, Or.inr ⟨p3, p4⟩, p1, p2, p5, p6, p7, p8⟩
    rcases hdi with ⟨a1, a2, a3, a4⟩ | h
    · exact Or.inl ⟨a1, a2, a3, fun h => (a4 h).1⟩
    · exact Or.inr h

/-! ### the observations of the header, evaluated on the generated code -/

/-- a 192-bit significand from a natural number -/
def u192 (n : Nat) : U192 := ⟨UInt64.ofNat n, UInt64.ofNat (n / 2 ^ 64), UInt64.ofNat (n / 2 ^ 128)⟩

/-- readable result of a run -/
def runOf (x : Go.GoM (decomposed192 × Int8)) : Option (Nat × Int × Int) :=
  x.toOption.map (fun x => (x.1.sig.toNat, x.1.exp.toInt, x.2.toInt))

/-- OBSERVATION 1: the over-full numerator `(252·2^184 + 7)e5` divided by `1000e0` and by `1e3` (one value):
57 digits, last digit `9` lost, flag `1` — against 58 digits, exact. -/
example : True := trivial
#guard 10 * LIM ≤ 252 * 2 ^ 184 + 7 ∧ 252 * 2 ^ 184 + 7 < 2 ^ 192
#guard runOf (decomposed192.quo ⟨u192 (252 * 2 ^ 184 + 7), 5⟩ ⟨u192 1000, 0⟩ 0)
  == some (617902202077126387690085521347004662835075614064428397363, 3, 1)
#guard runOf (decomposed192.quo ⟨u192 (252 * 2 ^ 184 + 7), 5⟩ ⟨u192 1, 3⟩ 0)
  == some (6179022020771263876900855213470046628350756140644283973639, 2, 0)

/-- OBSERVATION 2 (finding): the `Full` numerator `(⌊LIM/1000⌋·1001 + 500)e0` divided by `1001e0` and by `1001·10^50 e−50`
(one value, both below `OLIM`): the first run steps over the 57-digit quotient `…870499e−3` and returns the over-full
`…8704995e−4 = 10·LIM + 995`; the values differ, both flags are `1`. -/
example : True := trivial
#guard LIM ≤ LIM / 1000 * 1001 + 500 ∧ LIM / 1000 * 1001 + 500 < 10 * LIM ∧ 1001 * 10 ^ 50 < OLIM
#guard runOf (decomposed192.quo ⟨u192 (LIM / 1000 * 1001 + 500), 0⟩ ⟨u192 1001, 0⟩ 0)
  == some (10 * LIM + 995, -4, 1)
#guard runOf (decomposed192.quo ⟨u192 (LIM / 1000 * 1001 + 500), 0⟩ ⟨u192 (1001 * 10 ^ 50), -50⟩ 0)
  == some (LIM + 99, -3, 1)

/-- for comparison: exact quotients keep representation-dependent registers (second alternative of `quo_congr`),
inexact ones coincide (first alternative) -/
example : True := trivial
#guard runOf (decomposed192.quo ⟨u192 854, -3⟩ ⟨u192 2293760, -6⟩ 0)
  == some (372314453125 * 10 ^ 39, -51, 0)
#guard runOf (decomposed192.quo ⟨u192 854000, -6⟩ ⟨u192 22937600000, -10⟩ 0)
  == some (372314453125 * 10 ^ 35, -47, 0)
#guard runOf (decomposed192.quo ⟨u192 1078, -3⟩ ⟨u192 3, 0⟩ 0) == runOf (decomposed192.quo ⟨u192 107800, -5⟩ ⟨u192 30, -1⟩ 0)

/-! ### the hypotheses are satisfiable

`1.078 / 3` against `1.07800 / 3.0`: inexact; the quotient `0.3593…` has its leading digits outside `[6.129, 7.13)`. -/

namespace Ex
def d : decomposed192 := ⟨⟨1078, 0, 0⟩, -3⟩
def d' : decomposed192 := ⟨⟨107800, 0, 0⟩, -5⟩
def o : decomposed192 := ⟨⟨3, 0, 0⟩, 0⟩
def o' : decomposed192 := ⟨⟨30, 0, 0⟩, -1⟩

theorem vd : val d = (1078 : ℚ) / 1000 := by
  have s1 : d.sig.toNat = 1078 := by decide
  have e1 : d.exp.toInt = -3 := by decide
  unfold val; rw [s1, e1]; norm_num
theorem vd' : val d' = (1078 : ℚ) / 1000 := by
  have s1 : d'.sig.toNat = 107800 := by decide
  have e1 : d'.exp.toInt = -5 := by decide
  unfold val; rw [s1, e1]; norm_num
theorem vo : val o = 3 := by
  have s1 : o.sig.toNat = 3 := by decide
  have e1 : o.exp.toInt = 0 := by decide
  unfold val; rw [s1, e1]; norm_num
theorem vo' : val o' = 3 := by
  have s1 : o'.sig.toNat = 30 := by decide
  have e1 : o'.exp.toInt = -1 := by decide
  unfold val; rw [s1, e1]; norm_num
theorem hd : val d = val d' := by rw [vd, vd']
theorem ho : val o = val o' := by rw [vo, vo']
theorem hns : NoSkip (val d / val o) := by
  rw [vd, vo]
  exact noskip_of_decade _ (-1) (by norm_num) (by norm_num)
theorem hsafe : d.sig.toNat < 10 * LIM ∧ d'.sig.toNat < 10 * LIM := by
  have s1 : d.sig.toNat = 1078 := by decide
  have s2 : d'.sig.toNat = 107800 := by decide
  rw [s1, s2]; unfold LIM; norm_num
end Ex

example := quo_congr Ex.d Ex.d' Ex.o Ex.o' 0 1 Ex.hd Ex.ho (by decide) (by decide) (Or.inl Ex.hsafe) (Or.inl Ex.hns)
  (by decide) (by decide) (by decide) (by decide)
example := quo_congr1 Ex.d Ex.d' Ex.o Ex.o' 0 Ex.hd Ex.ho (by decide) (by decide) (Or.inl Ex.hsafe)
  (Or.inr (Or.inl Ex.hns)) (by decide) (by decide) (by decide) (by decide)
example := quo_congr2 Ex.d Ex.d' Ex.o Ex.o' 0 1 Ex.hd Ex.ho (by decide) (by decide) (Or.inl Ex.hsafe)
  (Or.inr (Or.inl Ex.hns)) (by decide) (by decide) (by decide) (by decide)
example := quo_congr_same Ex.d Ex.d' Ex.o 0 1 Ex.hd (by decide) (by decide)
  ⟨fun _ => Ex.hsafe.2, fun _ => Ex.hsafe.1⟩ (by decide) (by decide) (by decide)
example : decomposed192.quo Ex.d Ex.o 0 = decomposed192.quo Ex.d' Ex.o 0 :=
  quo_congr_left _ _ _ 0 Ex.hd ⟨fun _ => Ex.hsafe.2, fun _ => Ex.hsafe.1⟩ (by decide) (by decide)
example := quo_run Ex.d Ex.o 0 (by decide) (by decide) (by decide) (by decide)
example := quo_sharp Ex.d Ex.o 0 (by decide) (by decide)

end CohortElem
