/-
  D128/Proofs/SpecMeaningSelect.lean — "the member of the format that mode m selects for the exact
  value r", as ONE declarative predicate on SIGNED rationals, and the proof that
  `Spec.roundTo m (r < 0) |r|` satisfies it (assembled from SpecRoundMain.lean / SpecRoundMono.lean,
  which work on magnitudes).  Also: exactly when the flush-to-zero clause of `Spec.flushOrRound`
  changes the result.  Pure mathematics; no generated code.

  Provided (namespace `SpecMeaning`):
  * `IsValue x`            : the rational x is the value of some finite Decimal (`Member |x|`)
  * `signed_eq`            : `r = if r < 0 then -|r| else |r|`
  * `Selected m r v`       : the declarative predicate (structure; one field per clause):
       shape      v is ±Inf with the sign of r, or finite with the sign bit of r and the value of a member
       toNegInf   finite v: the GREATEST value ≤ r          toPosInf  finite v: the LEAST value ≥ r
       toZero     finite v: the value of greatest magnitude with |·| ≤ |r|
       away       finite v: the value of least magnitude with |·| ≥ |r|
       nearest    finite v: no value is nearer to r
       tieEven    nearestEven, distance exactly half the spacing: |v| is an EVEN multiple of the spacing
       tieAway    nearestAway, distance exactly half the spacing: |v| > |r|
       within     finite v: |v − r| < 10^(spacing exponent)
       infUp / infDown / infNearest   v = ±Inf ↔ |r| beyond the overflow threshold of the mode:
                  magnitude-raising modes `Cmax·10^Emax < |r|`; truncating modes `(Cmax+1)·10^Emax ≤ |r|`;
                  nearest modes `(Cmax+1/2)·10^Emax ≤ |r|`
     (every clause depends only on class, sign and value of v: `Selected.of_same`)
  * `roundTo_selected`     : `r ≠ 0 → Selected m r (Spec.roundTo m (r < 0) |r|)`
  * `selected_exact`       : if r itself is a value, every mode returns a finite value equal to r
  * `spacingExp_tiny`      : `0 < q < 10^Emin → spacingExp q = Emin`
  * `flushOrRound_eq_roundTo_of_not_up` : the flush clause of `flushOrRound` (exact magnitude below
       `10^(Emin-1)` ↦ signed zero) changes nothing unless the mode rounds the magnitude up
       (awayFromZero; toNegInf on negatives; toPosInf on positives) — there plain rounding would give
       the smallest subnormal ±1e-6176 (`roundTo_tiny_up`)
-/
import D128.Proofs.SpecMeaningArith

set_option autoImplicit false

namespace SpecMeaning
open Spec SpecRound

/-- the rational x is the value of some finite Decimal -/
def IsValue (x : ℚ) : Prop := Member |x|

theorem isValue_fin {n : Bool} {c : Nat} {e : Int} (hc : c ≤ Spec.Cmax) (he1 : Spec.Emin ≤ e)
    (he2 : e ≤ Spec.Emax) : IsValue (Val.fin n c e).toRat := by
  unfold IsValue; rw [abs_toRat_fin]; exact ⟨c, e, hc, he1, he2, rfl⟩

theorem signed_eq (r : ℚ) : r = if r < 0 then -|r| else |r| := by
  split
  · rename_i h; rw [abs_of_neg h, neg_neg]
  · rename_i h; rw [abs_of_nonneg (not_lt.1 h)]

/-- "v is the member of the format that mode m selects for the exact non-zero value r" -/
structure Selected (m : Mode) (r : ℚ) (v : Val) : Prop where
  shape : v = .inf (decide (r < 0)) ∨
    (v.isFin = true ∧ v.neg = decide (r < 0) ∧ IsValue v.toRat)
  toNegInf : m = .toNegInf → v.isFin = true →
    v.toRat ≤ r ∧ ∀ x, IsValue x → x ≤ r → x ≤ v.toRat
  toPosInf : m = .toPosInf → v.isFin = true →
    r ≤ v.toRat ∧ ∀ x, IsValue x → r ≤ x → v.toRat ≤ x
  toZero : m = .toZero → v.isFin = true →
    |v.toRat| ≤ |r| ∧ ∀ x, IsValue x → |x| ≤ |r| → |x| ≤ |v.toRat|
  away : m = .awayFromZero → v.isFin = true →
    |r| ≤ |v.toRat| ∧ ∀ x, IsValue x → |r| ≤ |x| → |v.toRat| ≤ |x|
  nearest : (m = .nearestEven ∨ m = .nearestAway) → v.isFin = true →
    ∀ x, IsValue x → |v.toRat - r| ≤ |x - r|
  tieEven : m = .nearestEven → v.isFin = true →
    |v.toRat - r| = (10 : ℚ) ^ (Spec.spacingExp |r|) / 2 →
    ∃ C : Nat, |v.toRat| = (C : ℚ) * (10 : ℚ) ^ (Spec.spacingExp |r|) ∧ C % 2 = 0
  tieAway : m = .nearestAway → v.isFin = true →
    |v.toRat - r| = (10 : ℚ) ^ (Spec.spacingExp |r|) / 2 → |r| < |v.toRat|
  within : v.isFin = true → |v.toRat - r| < (10 : ℚ) ^ (Spec.spacingExp |r|)
  infUp : isUp m (decide (r < 0)) = true →
    (v.isInf = true ↔ (Spec.Cmax : ℚ) * (10 : ℚ) ^ Spec.Emax < |r|)
  infDown : isDown m (decide (r < 0)) = true →
    (v.isInf = true ↔ ((Spec.Cmax : ℚ) + 1) * (10 : ℚ) ^ Spec.Emax ≤ |r|)
  infNearest : isNearest m = true →
    (v.isInf = true ↔ ((Spec.Cmax : ℚ) + 1 / 2) * (10 : ℚ) ^ Spec.Emax ≤ |r|)

theorem isInf_iff_of_member {m : Mode} {neg : Bool} {q : ℚ} (hq : 0 < q) :
    (Spec.roundTo m neg q).isInf = true ↔ Spec.roundTo m neg q = .inf neg := by
  rcases roundTo_member m neg q hq with h | ⟨c, e, h, -⟩
  · rw [h]; simp [Val.isInf]
  · rw [h]; simp [Val.isInf]

/-- `Spec.roundTo` on sign and magnitude of a non-zero r returns the member the mode selects for r -/
theorem roundTo_selected (m : Mode) {r : ℚ} (hr : r ≠ 0) :
    Selected m r (Spec.roundTo m (decide (r < 0)) |r|) := by
  have hq : 0 < |r| := abs_pos.2 hr
  have hsg := signed_eq r
  generalize hneg : decide (r < 0) = neg at *
  generalize hqd : |r| = q at *
  have hrq : r = if neg = true then -q else q := by
    rw [← hneg]; simpa using hsg
  -- facts about a finite result
  have fin_facts : ∀ {n : Bool} {c : Nat} {e : Int}, Spec.roundTo m neg q = .fin n c e →
      n = neg ∧ 0 ≤ (c : ℚ) * (10 : ℚ) ^ e ∧
      (Val.fin n c e).toRat = (if neg = true then -((c : ℚ) * (10 : ℚ) ^ e) else (c : ℚ) * (10 : ℚ) ^ e) ∧
      |(Val.fin n c e).toRat| = (c : ℚ) * (10 : ℚ) ^ e ∧
      |(Val.fin n c e).toRat - r| = |(c : ℚ) * (10 : ℚ) ^ e - q| := by
    intro n c e h
    obtain ⟨hn, -⟩ := roundTo_fin hq h
    subst hn
    refine ⟨rfl, mag_nonneg c e, toRat_fin' n c e, abs_toRat_fin n c e, ?_⟩
    rw [toRat_fin', hrq]
    cases n
    · simp
    · simp only [if_true]
      rw [show -((c : ℚ) * (10 : ℚ) ^ e) - -q = -((c : ℚ) * (10 : ℚ) ^ e - q) by ring, abs_neg]
  have of_isFin : (Spec.roundTo m neg q).isFin = true →
      ∃ n c e, Spec.roundTo m neg q = .fin n c e := by
    intro h
    rcases roundTo_member m neg q hq with h' | ⟨c, e, h', -⟩
    · rw [h'] at h; simp [Val.isFin] at h
    · exact ⟨neg, c, e, h'⟩
  refine
    { shape := by
        rw [hneg]
        rcases roundTo_member m neg q hq with h | ⟨c, e, h, h1, h2, h3⟩
        · exact Or.inl h
        · right; rw [h]; exact ⟨rfl, rfl, isValue_fin h1 h2 h3⟩
      toNegInf := ?_
      toPosInf := ?_
      toZero := ?_
      away := ?_
      nearest := ?_
      tieEven := ?_
      tieAway := ?_
      within := ?_
      infUp := ?_
      infDown := ?_
      infNearest := ?_ }
  · -- toNegInf
    rintro rfl hf
    obtain ⟨n, c, e, h⟩ := of_isFin hf
    obtain ⟨hn, hy0, hy, -, -⟩ := fin_facts h
    rw [h, hy]
    cases neg
    · simp only [Bool.false_eq_true, if_false] at hrq ⊢
      have hd : isDown .toNegInf false = true := rfl
      refine ⟨by rw [hrq]; exact roundTo_down_le hd hq h, fun x hx hxr => ?_⟩
      rcases le_or_gt x 0 with hx0 | hx0
      · linarith
      · unfold IsValue at hx; rw [abs_of_pos hx0] at hx
        exact roundTo_down_greatest hd hq h hx (by rw [← hrq]; exact hxr)
    · simp only [if_true] at hrq ⊢
      have hu : isUp .toNegInf true = true := rfl
      refine ⟨by rw [hrq]; have := roundTo_up_ge hu hq h; linarith, fun x hx hxr => ?_⟩
      have hx0 : x < 0 := by linarith
      unfold IsValue at hx
      have := roundTo_up_least hu hq h hx (by rw [abs_of_neg hx0]; linarith)
      rw [abs_of_neg hx0] at this; linarith
  · -- toPosInf
    rintro rfl hf
    obtain ⟨n, c, e, h⟩ := of_isFin hf
    obtain ⟨hn, hy0, hy, -, -⟩ := fin_facts h
    rw [h, hy]
    cases neg
    · simp only [Bool.false_eq_true, if_false] at hrq ⊢
      have hu : isUp .toPosInf false = true := rfl
      refine ⟨by rw [hrq]; exact roundTo_up_ge hu hq h, fun x hx hxr => ?_⟩
      have hx0 : 0 < x := by linarith
      unfold IsValue at hx; rw [abs_of_pos hx0] at hx
      exact roundTo_up_least hu hq h hx (by rw [← hrq]; exact hxr)
    · simp only [if_true] at hrq ⊢
      have hd : isDown .toPosInf true = true := rfl
      refine ⟨by rw [hrq]; have := roundTo_down_le hd hq h; linarith, fun x hx hxr => ?_⟩
      rcases le_or_gt 0 x with hx0 | hx0
      · linarith
      · unfold IsValue at hx
        have := roundTo_down_greatest hd hq h hx (by rw [abs_of_neg hx0]; linarith)
        rw [abs_of_neg hx0] at this; linarith
  · -- toZero
    rintro rfl hf
    obtain ⟨n, c, e, h⟩ := of_isFin hf
    obtain ⟨-, -, -, habs, -⟩ := fin_facts h
    rw [h, habs, hqd]
    have hd : isDown .toZero neg = true := rfl
    exact ⟨roundTo_down_le hd hq h, fun x hx hxr => roundTo_down_greatest hd hq h hx hxr⟩
  · -- awayFromZero
    rintro rfl hf
    obtain ⟨n, c, e, h⟩ := of_isFin hf
    obtain ⟨-, -, -, habs, -⟩ := fin_facts h
    rw [h, habs, hqd]
    have hu : isUp .awayFromZero neg = true := rfl
    exact ⟨roundTo_up_ge hu hq h, fun x hx hxr => roundTo_up_least hu hq h hx hxr⟩
  · -- nearest
    intro hm hf x hx
    obtain ⟨n, c, e, h⟩ := of_isFin hf
    obtain ⟨-, -, -, -, hdist⟩ := fin_facts h
    have hn : isNearest m = true := by rcases hm with rfl | rfl <;> rfl
    rw [h, hdist]
    calc |(c : ℚ) * (10 : ℚ) ^ e - q| ≤ |(|x|) - q| := roundTo_nearest_member hn hq h hx
      _ = |(|x|) - (|r|)| := by rw [hqd]
      _ ≤ |x - r| := abs_abs_sub_abs_le_abs_sub x r
  · -- tieEven
    rintro rfl hf ht
    obtain ⟨n, c, e, h⟩ := of_isFin hf
    obtain ⟨-, -, -, habs, hdist⟩ := fin_facts h
    rw [h, hdist, hqd] at ht
    have hev := roundTo_nearestEven_tie hq h ht
    obtain ⟨-, -, -, -, hval, hshape⟩ := roundTo_fin hq h
    rw [h, habs, hqd]
    rcases hshape with ⟨h1, h2⟩ | ⟨-, h2, -⟩
    · exact ⟨c, by rw [h1], hev⟩
    · refine ⟨Spec.Cmax + 1, by rw [hval, h2], ?_⟩
      have := Cmax_odd; omega
  · -- tieAway
    rintro rfl hf ht
    obtain ⟨n, c, e, h⟩ := of_isFin hf
    obtain ⟨-, -, -, habs, hdist⟩ := fin_facts h
    rw [h] at ht ⊢
    rw [hdist, hqd] at ht
    rw [habs, hqd, roundTo_nearestAway_tie hq h ht]
    have : (0 : ℚ) < (10 : ℚ) ^ (Spec.spacingExp q) := zpow_pos (by norm_num) _
    linarith
  · -- within
    intro hf
    obtain ⟨n, c, e, h⟩ := of_isFin hf
    obtain ⟨-, -, -, -, hdist⟩ := fin_facts h
    rw [h, hdist, hqd]; exact roundTo_within_spacing hq h
  · rw [hneg, hqd]; intro hu; rw [isInf_iff_of_member hq]; exact roundTo_up_inf_iff hu hq
  · rw [hneg, hqd]; intro hd; rw [isInf_iff_of_member hq]; exact roundTo_down_inf_iff hd hq
  · rw [hqd]; intro hn; rw [isInf_iff_of_member hq]; exact roundTo_nearest_inf_iff hn neg hq

/-- what `Val.same` preserves -/
theorem same_facts {v' v : Val} (h : v'.same v = true) :
    v'.isFin = v.isFin ∧ v'.isInf = v.isInf ∧ v'.neg = v.neg ∧ v'.toRat = v.toRat ∧
    (∀ n, v = .inf n → v' = .inf n) := by
  cases v' with
  | nan a b =>
    cases v with
    | nan a' b' =>
      simp only [Val.same, Bool.and_eq_true, beq_iff_eq] at h
      simp [Val.isFin, Val.isInf, Val.neg, Val.toRat, h.1]
    | inf a' => simp [Val.same] at h
    | fin a' c' e' => simp [Val.same] at h
  | inf a =>
    cases v with
    | nan a' b' => simp [Val.same] at h
    | inf a' =>
      have : a = a' := by simpa [Val.same] using h
      subst this; simp
    | fin a' c' e' => simp [Val.same] at h
  | fin a c e =>
    cases v with
    | nan a' b' => simp [Val.same] at h
    | inf a' => simp [Val.same] at h
    | fin a' c' e' =>
      simp only [Val.same, Bool.and_eq_true, beq_iff_eq] at h
      obtain ⟨rfl, h2⟩ := h
      refine ⟨rfl, rfl, rfl, by simp only [Val.toRat, h2], fun n hn => by cases hn⟩

/-- `Selected` only looks at class, sign and value: it transfers along `Val.same` (so it applies to the
    Decimal a generated function returns, which is proved `same` as the Spec value) -/
theorem Selected.of_same {m : Mode} {r : ℚ} {v v' : Val} (hs : Selected m r v) (h : v'.same v = true) :
    Selected m r v' := by
  obtain ⟨h1, h2, h3, h4, h5⟩ := same_facts h
  exact
    { shape := by
        rcases hs.shape with hi | ⟨a, b, c⟩
        · exact Or.inl (h5 _ hi)
        · exact Or.inr ⟨by rw [h1]; exact a, by rw [h3]; exact b, by rw [h4]; exact c⟩
      toNegInf := by rw [h1, h4]; exact hs.toNegInf
      toPosInf := by rw [h1, h4]; exact hs.toPosInf
      toZero := by rw [h1, h4]; exact hs.toZero
      away := by rw [h1, h4]; exact hs.away
      nearest := by rw [h1, h4]; exact hs.nearest
      tieEven := by rw [h1, h4]; exact hs.tieEven
      tieAway := by rw [h1, h4]; exact hs.tieAway
      within := by rw [h1, h4]; exact hs.within
      infUp := by rw [h2]; exact hs.infUp
      infDown := by rw [h2]; exact hs.infDown
      infNearest := by rw [h2]; exact hs.infNearest }

/-- exactness: a non-zero r that is itself a value is returned (as some cohort member) in every mode -/
theorem selected_exact (m : Mode) {r : ℚ} (hr : r ≠ 0) (hv : IsValue r) :
    ∃ c e, Spec.roundTo m (decide (r < 0)) |r| = .fin (decide (r < 0)) c e ∧
      (Val.fin (decide (r < 0)) c e).toRat = r := by
  have hq : 0 < |r| := abs_pos.2 hr
  obtain ⟨c0, e0, hc0, he1, he2, hval⟩ := hv
  have hc0pos : 0 < c0 := by
    rcases Nat.eq_zero_or_pos c0 with h | h
    · subst h; simp at hval; exact absurd hval hr
    · exact h
  obtain ⟨c, e, h1, h2, -⟩ := roundTo_exact m (decide (r < 0)) hc0pos hc0 he1 he2
  rw [← hval] at h1 h2
  refine ⟨c, e, h1, ?_⟩
  rw [toRat_fin', h2]
  conv_rhs => rw [signed_eq r]
  by_cases h : r < 0 <;> simp [h]

/-! ## when does the flush clause of `flushOrRound` matter -/

theorem spacingExp_tiny {q : ℚ} (hq : 0 < q) (h : q < (10 : ℚ) ^ Spec.Emin) :
    Spec.spacingExp q = Spec.Emin := by
  obtain ⟨h1, -, h3⟩ := spacingExp_spec q hq
  by_contra hne
  have hlt : Spec.Emin < Spec.spacingExp q := lt_of_le_of_ne h1 (Ne.symm hne)
  have := h3 hlt
  have hz : coef q (Spec.spacingExp q - 1) = 0 := by
    unfold coef
    rw [Nat.floor_eq_zero, div_lt_one (zpow_pos (by norm_num) _)]
    exact lt_of_lt_of_le h (zpow_le_zpow_right₀ (by norm_num) (by omega))
  rw [hz] at this
  exact absurd this (by omega)

/-- below `10^(Emin-1)` every mode that does not round the magnitude up returns the zero with exponent
    `Emin` by plain rounding … -/
theorem roundTo_tiny_not_up {m : Mode} {neg : Bool} (hu : isUp m neg = false) {q : ℚ} (hq : 0 < q)
    (h : q < (10 : ℚ) ^ (Spec.Emin - 1)) : Spec.roundTo m neg q = .fin neg 0 Spec.Emin := by
  have hp : (0 : ℚ) < (10 : ℚ) ^ Spec.Emin := zpow_pos (by norm_num) _
  have h10 : (10 : ℚ) ^ (Spec.Emin - 1) = (10 : ℚ) ^ Spec.Emin / 10 := by
    rw [zpow_sub₀ (by norm_num : (10 : ℚ) ≠ 0), zpow_one]
  have hlt : q < (10 : ℚ) ^ Spec.Emin := by rw [h10] at h; linarith
  have hE := spacingExp_tiny hq hlt
  have hs : q / (10 : ℚ) ^ Spec.Emin < 1 / 10 := by
    rw [div_lt_iff₀ hp]; rw [h10] at h; linarith
  have hR : Spec.roundAt m neg q Spec.Emin = 0 := by
    have hs0 : 0 ≤ q / (10 : ℚ) ^ Spec.Emin := div_nonneg hq.le hp.le
    have hfl : ⌊q / (10 : ℚ) ^ Spec.Emin⌋₊ = 0 := Nat.floor_eq_zero.2 (by linarith)
    rcases mode_cases m neg with hd | hu' | hn
    · rw [roundAt_of_isDown hd q hq.le, hfl]
    · rw [hu'] at hu; cases hu
    · rcases roundAt_nearest hn neg q hq.le Spec.Emin with ⟨h1, -⟩ | ⟨-, h2⟩
      · rw [h1, hfl]
      · rw [hfl] at h2; norm_num at h2; linarith
  rcases roundTo_cases m neg q hq with ⟨-, hc⟩ | ⟨c', e', hfin, -, -, -, -, hshape⟩
  · rw [hE, hR] at hc
    unfold Spec.Emin Spec.Emax Spec.Cmax at hc
    omega
  · rw [hE, hR] at hshape
    rcases hshape with ⟨h1, h2⟩ | ⟨-, h2, -⟩
    · rw [hfin, h1, h2]
    · unfold Spec.Cmax at h2; omega

/-- … so the flush clause changes nothing for those modes: `flushOrRound = roundTo` for every q > 0 -/
theorem flushOrRound_eq_roundTo_of_not_up {m : Mode} {neg : Bool} (hu : isUp m neg = false) {q : ℚ}
    (hq : 0 < q) : Spec.flushOrRound m neg q = Spec.roundTo m neg q := by
  rcases lt_or_ge q ((10 : ℚ) ^ (Spec.Emin - 1)) with h | h
  · rw [flushOrRound_tiny m neg hq h, roundTo_tiny_not_up hu hq h]
  · exact flushOrRound_eq_roundTo m neg h

/-- for the modes that round the magnitude up, plain rounding of a tiny non-zero magnitude would give
    the smallest subnormal `1·10^Emin`, whereas `flushOrRound` (per the property text) gives the signed zero -/
theorem roundTo_tiny_up {m : Mode} {neg : Bool} (hu : isUp m neg = true) {q : ℚ} (hq : 0 < q)
    (h : q < (10 : ℚ) ^ Spec.Emin) : Spec.roundTo m neg q = .fin neg 1 Spec.Emin := by
  have hp : (0 : ℚ) < (10 : ℚ) ^ Spec.Emin := zpow_pos (by norm_num) _
  have hE := spacingExp_tiny hq h
  have hR : Spec.roundAt m neg q Spec.Emin = 1 := by
    rw [roundAt_of_isUp hu q hq.le, Nat.ceil_eq_iff (by norm_num)]
    norm_num
    exact ⟨div_pos hq hp, by rw [div_le_one hp]; exact h.le⟩
  rcases roundTo_cases m neg q hq with ⟨-, hc⟩ | ⟨c', e', hfin, -, -, -, -, hshape⟩
  · rw [hE, hR] at hc
    unfold Spec.Emin Spec.Emax Spec.Cmax at hc
    omega
  · rw [hE, hR] at hshape
    rcases hshape with ⟨h1, h2⟩ | ⟨-, h2, -⟩
    · rw [hfin, h1, h2]
    · unfold Spec.Cmax at h2; omega

example : Spec.flushOrRound .awayFromZero false (1 / 10 ^ 6178) = .fin false 0 (-6176) := by
  decide +kernel
example : Spec.roundTo .awayFromZero false (1 / 10 ^ 6178) = .fin false 1 (-6176) := by
  decide +kernel

end SpecMeaning
