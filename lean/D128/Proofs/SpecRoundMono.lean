/-
  7f monotonicity, the membership test, and the overflow threshold of the nearest modes.

  * `spacingExp_mono`, `roundAt_mono`, `roundedMag_mono`,
    `roundTo_mono` (q1 ≤ q2, result for q2 finite → result for q1 finite and not larger)
  * `exactOrInf_unfold`, `member_scaled`, `exactOrInf_of_member`, `exactOrInf_of_not_member`,
    `isMember_iff : isMember q = true ↔ Member q` (q ≥ 0)
  * `roundTo_nearest_inf_iff` (overflow ↔ (Cmax + 1/2)·10^Emax ≤ q; uses `Cmax_odd`)
-/
import D128.Proofs.SpecRoundMain
namespace SpecRound
open Spec

/-! ## 7f monotonicity -/

theorem coef_mono_q {q1 q2 : Rat} (h12 : q1 ≤ q2) (e : Int) : coef q1 e ≤ coef q2 e := by
  unfold coef
  apply Nat.floor_le_floor
  exact div_le_div_of_nonneg_right h12 (zpow_pos (by norm_num) _).le

theorem spacingExp_mono {q1 q2 : Rat} (h1 : 0 < q1) (h12 : q1 ≤ q2) :
    Spec.spacingExp q1 ≤ Spec.spacingExp q2 := by
  have h2 : 0 < q2 := lt_of_lt_of_le h1 h12
  rw [spacingExp_eq, spacingExp_eq]
  apply max_le_max (le_refl _)
  rw [← coef_le_Cmax_iff q1 h1]
  exact le_trans (coef_mono_q h12 _) (spacingExpRaw_spec q2 h2).1

theorem roundAt_mono (m : Mode) (neg : Bool) {q1 q2 : Rat} (h1 : 0 ≤ q1) (h12 : q1 ≤ q2) (E : Int) :
    Spec.roundAt m neg q1 E ≤ Spec.roundAt m neg q2 E := by
  have h2 : 0 ≤ q2 := le_trans h1 h12
  have hs : q1 / (10 : Rat) ^ E ≤ q2 / (10 : Rat) ^ E :=
    div_le_div_of_nonneg_right h12 (zpow_pos (by norm_num) _).le
  have hfl : ⌊q1 / (10 : Rat) ^ E⌋₊ ≤ ⌊q2 / (10 : Rat) ^ E⌋₊ := Nat.floor_le_floor hs
  have hce : ⌈q1 / (10 : Rat) ^ E⌉₊ ≤ ⌈q2 / (10 : Rat) ^ E⌉₊ := Nat.ceil_le_ceil hs
  rcases mode_cases m neg with h | h | h
  · rw [roundAt_of_isDown h q1 h1, roundAt_of_isDown h q2 h2]; exact hfl
  · rw [roundAt_of_isUp h q1 h1, roundAt_of_isUp h q2 h2]; exact hce
  · rcases lt_or_eq_of_le hfl with hlt | heq
    · calc Spec.roundAt m neg q1 E ≤ ⌊q1 / (10 : Rat) ^ E⌋₊ + 1 := roundAt_le_floor_add_one m neg q1 h1 E
        _ ≤ ⌊q2 / (10 : Rat) ^ E⌋₊ := hlt
        _ ≤ Spec.roundAt m neg q2 E := floor_le_roundAt m neg q2 h2 E
    · cases m <;> simp [isNearest] at h
      · rw [roundAt_nearestEven neg q1 h1, roundAt_nearestEven neg q2 h2, ← heq]
        generalize q1 / (10 : Rat) ^ E = s1 at *
        generalize q2 / (10 : Rat) ^ E = s2 at *
        generalize (⌊s1⌋₊ : Nat) = a at *
        split
        · rename_i hP
          have : 1 / 2 < s2 - (a : Rat) ∨ s2 - (a : Rat) = 1 / 2 ∧ a % 2 = 1 := by
            rcases hP with hP | ⟨hP, ho⟩
            · left; linarith
            · rcases eq_or_lt_of_le hs with he | hl
              · right; exact ⟨by rw [← he]; exact hP, ho⟩
              · left; linarith
          rw [if_pos this]
        · split <;> omega
      · rw [roundAt_nearestAway neg q1 h1, roundAt_nearestAway neg q2 h2, ← heq]
        generalize q1 / (10 : Rat) ^ E = s1 at *
        generalize q2 / (10 : Rat) ^ E = s2 at *
        generalize (⌊s1⌋₊ : Nat) = a at *
        split
        · rename_i hP
          rw [if_pos (by linarith)]
        · split <;> omega

/-- the rounded magnitude `roundAt … · 10^spacingExp` is monotone in q -/
theorem roundedMag_mono (m : Mode) (neg : Bool) {q1 q2 : Rat} (h1 : 0 < q1) (h12 : q1 ≤ q2) :
    (Spec.roundAt m neg q1 (Spec.spacingExp q1) : Rat) * (10 : Rat) ^ (Spec.spacingExp q1) ≤
    (Spec.roundAt m neg q2 (Spec.spacingExp q2) : Rat) * (10 : Rat) ^ (Spec.spacingExp q2) := by
  have h2 : 0 < q2 := lt_of_lt_of_le h1 h12
  have hE := spacingExp_mono h1 h12
  rcases eq_or_lt_of_le hE with heq | hlt
  · rw [← heq]
    apply mul_le_mul_of_nonneg_right _ (zpow_pos (by norm_num) _).le
    exact_mod_cast roundAt_mono m neg h1.le h12 _
  · have hC1 := roundAt_le_Cmax_succ m neg q1 h1
    have hEmin := (spacingExp_spec q1 h1).1
    obtain ⟨-, hb⟩ := member_below q2 h2 (le_refl Spec.Cmax) hEmin hlt
    have hfl := floor_le_roundAt m neg q2 h2.le (Spec.spacingExp q2)
    generalize Spec.roundAt m neg q1 (Spec.spacingExp q1) = C1 at *
    generalize Spec.roundAt m neg q2 (Spec.spacingExp q2) = C2 at *
    generalize Spec.spacingExp q1 = E1 at *
    generalize Spec.spacingExp q2 = E2 at *
    have hC1' : (C1 : Rat) ≤ 10 * 2 ^ 110 := by
      rw [Cmax_succ] at hC1; exact_mod_cast hC1
    have hC2' : (2 ^ 110 : Rat) ≤ (C2 : Rat) := by
      have : 2 ^ 110 ≤ C2 := le_trans hb hfl
      exact_mod_cast this
    have hp : (10 : Rat) ^ E1 ≤ (10 : Rat) ^ (E2 - 1) := zpow_le_zpow_right₀ (by norm_num) (by omega)
    have hE21 : (10 : Rat) ^ (E2 - 1) = (10 : Rat) ^ E2 / 10 := by
      rw [zpow_sub₀ (by norm_num : (10 : Rat) ≠ 0)]; simp
    have hp2 : (0 : Rat) < (10 : Rat) ^ E2 := zpow_pos (by norm_num) _
    calc (C1 : Rat) * (10 : Rat) ^ E1 ≤ (10 * 2 ^ 110) * ((10 : Rat) ^ E2 / 10) := by
          rw [← hE21]
          exact mul_le_mul hC1' hp (zpow_pos (by norm_num) _).le (by positivity)
      _ = 2 ^ 110 * (10 : Rat) ^ E2 := by ring
      _ ≤ (C2 : Rat) * (10 : Rat) ^ E2 := mul_le_mul_of_nonneg_right hC2' hp2.le

/-- 7f: for fixed mode and sign the result is monotone in q (±Inf counts as the top element):
    if the result for the larger q is finite, so is the result for the smaller, and it is not larger -/
theorem roundTo_mono (m : Mode) (neg : Bool) {q1 q2 : Rat} (h1 : 0 < q1) (h12 : q1 ≤ q2)
    {n : Bool} {c2 : Nat} {e2 : Int} (hr2 : Spec.roundTo m neg q2 = .fin n c2 e2) :
    ∃ c1 e1, Spec.roundTo m neg q1 = .fin neg c1 e1 ∧
      (c1 : Rat) * (10 : Rat) ^ e1 ≤ (c2 : Rat) * (10 : Rat) ^ e2 := by
  have h2 : 0 < q2 := lt_of_lt_of_le h1 h12
  obtain ⟨-, hc2, -, he2, hval2, hshape2⟩ := roundTo_fin h2 hr2
  have hE := spacingExp_mono h1 h12
  have hmag := roundedMag_mono m neg h1 h12
  rcases roundTo_cases m neg q1 h1 with ⟨-, hE1 | ⟨hE1, hC1⟩⟩ | ⟨c1, e1, hfin, -, -, -, hval1, -⟩
  · exfalso
    rcases hshape2 with ⟨h, -⟩ | ⟨h, -⟩ <;> omega
  · exfalso
    have hEq : Spec.spacingExp q2 = Spec.spacingExp q1 := by
      rcases hshape2 with ⟨h, -⟩ | ⟨h, -⟩ <;> omega
    have hC := roundAt_mono m neg h1.le h12 (Spec.spacingExp q1)
    rw [← hEq] at hC hC1
    have hC1' : Spec.roundAt m neg q1 (Spec.spacingExp q2) = Spec.Cmax + 1 := hC1
    rcases hshape2 with ⟨-, h⟩ | ⟨h, -⟩ <;> omega
  · exact ⟨c1, e1, hfin, by rw [hval1, hval2]; exact hmag⟩


/-! ## exactOrInf / isMember -/

theorem exactOrInf_unfold (neg : Bool) (q : Rat) (hq : 0 < q) :
    Spec.exactOrInf neg q =
      if Spec.spacingExp q ≤ Spec.Emax ∧
         q / (10 : Rat) ^ (Spec.spacingExp q) - (⌊q / (10 : Rat) ^ (Spec.spacingExp q)⌋₊ : Rat) = 0
      then .fin neg ⌊q / (10 : Rat) ^ (Spec.spacingExp q)⌋₊ (Spec.spacingExp q) else .inf neg := by
  have hc := (spacingExp_spec q hq).2.1
  unfold coef at hc
  unfold Spec.spacingExp at hc ⊢
  unfold Spec.exactOrInf Spec.exactOrInfS
  have h0 : ¬ q = 0 := hq.ne'
  simp only [beq_iff_eq, h0, ↓reduceIte, sub_zero]
  rw [splitAt_eq_splitOf q hq.le]
  show (if (decide (Spec.spacingExpS q 0 ≤ Spec.Emax) && (splitOf _).2.2 && decide ((splitOf _).1 ≤ Spec.Cmax)) = true
    then _ else _) = _
  obtain ⟨h1, -, -, -, h5⟩ := splitOf_spec (q / (10 : Rat) ^ (Spec.spacingExpS q 0))
  simp only [h1, Bool.and_eq_true, decide_eq_true_eq, h5, hc, and_true]


/-- for a member q = c·10^e the spacing exponent is at most e and q/10^spacingExp is a natural number -/
theorem member_scaled {q : Rat} (hq : 0 < q) (hm : Member q) :
    Spec.spacingExp q ≤ Spec.Emax ∧
    ∃ N : Nat, q / (10 : Rat) ^ (Spec.spacingExp q) = (N : Rat) := by
  obtain ⟨c, e, hc, he1, he2, rfl⟩ := hm
  have hpe : (0 : Rat) < (10 : Rat) ^ e := zpow_pos (by norm_num) _
  have hEe : Spec.spacingExp ((c : Rat) * (10 : Rat) ^ e) ≤ e := by
    rw [spacingExp_eq]
    apply max_le he1
    apply (coef_le_Cmax_iff _ hq e).1
    unfold coef
    rw [mul_div_assoc, div_self hpe.ne', mul_one, Nat.floor_natCast]; exact hc
  refine ⟨le_trans hEe he2, ?_⟩
  obtain ⟨N, hN⟩ := scaled_nat c hEe
  refine ⟨N, ?_⟩
  rw [div_eq_iff (zpow_ne_zero _ (by norm_num))]; exact hN

/-- `exactOrInf` returns q itself when q is a member of the format -/
theorem exactOrInf_of_member (neg : Bool) {q : Rat} (hq : 0 < q) (hm : Member q) :
    ∃ c e, Spec.exactOrInf neg q = .fin neg c e ∧ (c : Rat) * (10 : Rat) ^ e = q ∧
      c ≤ Spec.Cmax ∧ Spec.Emin ≤ e ∧ e ≤ Spec.Emax := by
  obtain ⟨hE, N, hN⟩ := member_scaled hq hm
  obtain ⟨hEmin, hc, -⟩ := spacingExp_spec q hq
  unfold coef at hc
  rw [exactOrInf_unfold neg q hq, if_pos ⟨hE, by rw [hN, Nat.floor_natCast]; ring⟩]
  refine ⟨_, _, rfl, ?_, hc, hEmin, hE⟩
  rw [hN, Nat.floor_natCast, ← hN]; exact div_mul_zpow q _

/-- `exactOrInf` returns ±Inf when q is not a member -/
theorem exactOrInf_of_not_member (neg : Bool) {q : Rat} (hq : 0 < q) (hm : ¬ Member q) :
    Spec.exactOrInf neg q = .inf neg := by
  rw [exactOrInf_unfold neg q hq, if_neg]
  rintro ⟨hE, hf⟩
  obtain ⟨hEmin, hc, -⟩ := spacingExp_spec q hq
  unfold coef at hc
  apply hm
  refine ⟨_, _, hc, hEmin, hE, ?_⟩
  have : (⌊q / (10 : Rat) ^ (Spec.spacingExp q)⌋₊ : Rat) = q / (10 : Rat) ^ (Spec.spacingExp q) := by
    linarith
  rw [this]; exact (div_mul_zpow q _).symm

/-- the executable membership test decides `Member` -/
theorem isMember_iff {q : Rat} (hq : 0 ≤ q) : Spec.isMember q = true ↔ Member q := by
  unfold Spec.isMember Spec.isMemberS
  rcases eq_or_lt_of_le hq with h | h
  · subst h
    simp only [beq_self_eq_true, Bool.true_or, true_iff]
    exact ⟨0, 0, by unfold Spec.Cmax; norm_num, by unfold Spec.Emin; norm_num,
      by unfold Spec.Emax; norm_num, by simp⟩
  · have h0 : ¬ q = 0 := h.ne'
    simp only [beq_iff_eq, h0, Bool.or_eq_true, false_or]
    change (Spec.exactOrInf false q).isFin = true ↔ _
    by_cases hm : Member q
    · obtain ⟨c, e, hce, -⟩ := exactOrInf_of_member false h hm
      rw [hce]; simp [Spec.Val.isFin, hm]
    · rw [exactOrInf_of_not_member false h hm]; simp [Spec.Val.isFin, hm]


/-! ## overflow threshold of the nearest modes -/

theorem div_div_ten (q p : Rat) (hp : p ≠ 0) : q / (p / 10) = q / p * 10 := by field_simp

theorem Cmax_odd : Spec.Cmax % 2 = 1 := by unfold Spec.Cmax; norm_num

/-- a nearest mode overflows exactly from (Cmax + 1/2)·10^Emax on (the midpoint itself overflows in
    both modes: Cmax is odd) -/
theorem roundTo_nearest_inf_iff {m : Mode} (hn : isNearest m = true) (neg : Bool) {q : Rat} (hq : 0 < q) :
    Spec.roundTo m neg q = .inf neg ↔ ((Spec.Cmax : Rat) + 1 / 2) * (10 : Rat) ^ Spec.Emax ≤ q := by
  have hp : (0 : Rat) < (10 : Rat) ^ Spec.Emax := zpow_pos (by norm_num) _
  have hEmm : Spec.Emin ≤ Spec.Emax := by unfold Spec.Emin Spec.Emax; omega
  have hCs : ((Spec.Cmax : Rat) + 1) = 10 * 2 ^ 110 := by
    have : ((Spec.Cmax + 1 : Nat) : Rat) = ((10 * 2 ^ 110 : Nat) : Rat) := by rw [Cmax_succ]
    push_cast at this; exact this.trans (by norm_num)
  obtain ⟨hs, hpE, hqs, h1, h2, h3, h4, h5, h6⟩ := scaled_facts m neg q hq (Spec.spacingExp q)
  have hnr := roundAt_nearest hn neg q hq.le (Spec.spacingExp q)
  obtain ⟨hEmin, hcoef, -⟩ := spacingExp_spec q hq
  unfold coef at hcoef
  rcases roundTo_cases m neg q hq with ⟨hinf, hE | ⟨hE, hC⟩⟩ | ⟨c', e', hfin, hc', -, he', -, hshape⟩
  · refine ⟨fun _ => ?_, fun _ => hinf⟩
    obtain ⟨-, hb⟩ := member_below q hq (le_refl Spec.Cmax) hEmm hE
    have hb' : (2 ^ 110 : Rat) ≤ (⌊q / (10 : Rat) ^ (Spec.spacingExp q)⌋₊ : Rat) := by exact_mod_cast hb
    have hpow : (10 : Rat) ^ (Spec.Emax + 1) ≤ (10 : Rat) ^ (Spec.spacingExp q) :=
      zpow_le_zpow_right₀ (by norm_num) (by omega)
    rw [zpow_add₀ (by norm_num : (10 : Rat) ≠ 0), zpow_one] at hpow
    calc ((Spec.Cmax : Rat) + 1 / 2) * (10 : Rat) ^ Spec.Emax
        ≤ ((Spec.Cmax : Rat) + 1) * (10 : Rat) ^ Spec.Emax := by
          apply mul_le_mul_of_nonneg_right (by linarith) hp.le
      _ = 2 ^ 110 * ((10 : Rat) ^ Spec.Emax * 10) := by rw [hCs]; ring
      _ ≤ 2 ^ 110 * (10 : Rat) ^ (Spec.spacingExp q) := by
          apply mul_le_mul_of_nonneg_left hpow (by positivity)
      _ ≤ q / (10 : Rat) ^ (Spec.spacingExp q) * (10 : Rat) ^ (Spec.spacingExp q) :=
          mul_le_mul_of_nonneg_right (le_trans hb' h3) hpE.le
      _ = q := div_mul_zpow q _
  · refine ⟨fun _ => ?_, fun _ => hinf⟩
    rw [hE] at hnr hcoef h3 hqs
    rw [hE] at hC
    rcases hnr with ⟨hCf, -⟩ | ⟨hCf, hf⟩
    · omega
    · have hfl : ⌊q / (10 : Rat) ^ Spec.Emax⌋₊ = Spec.Cmax := by omega
      rw [hfl] at hf
      calc ((Spec.Cmax : Rat) + 1 / 2) * (10 : Rat) ^ Spec.Emax
          ≤ q / (10 : Rat) ^ Spec.Emax * (10 : Rat) ^ Spec.Emax :=
            mul_le_mul_of_nonneg_right (by linarith) hp.le
        _ = q := div_mul_zpow q _
  · rw [hfin]
    refine ⟨fun h => (by cases h), fun hge => ?_⟩
    exfalso
    have hsE : (Spec.Cmax : Rat) + 1 / 2 ≤ q / (10 : Rat) ^ Spec.Emax := by
      rw [le_div_iff₀ hp]; exact hge
    by_cases hE : Spec.spacingExp q < Spec.Emax
    · have hco := coef_antitone hq.le (show Spec.spacingExp q ≤ Spec.Emax - 1 by omega)
      unfold coef at hco
      have hlt : q / (10 : Rat) ^ (Spec.Emax - 1) < (Spec.Cmax : Rat) + 1 := by
        have := Nat.lt_floor_add_one (q / (10 : Rat) ^ (Spec.Emax - 1))
        have hh : (⌊q / (10 : Rat) ^ (Spec.Emax - 1)⌋₊ : Rat) ≤ (Spec.Cmax : Rat) := by
          exact_mod_cast le_trans hco hcoef
        linarith
      have hE1 : (10 : Rat) ^ (Spec.Emax - 1) = (10 : Rat) ^ Spec.Emax / 10 := by
        rw [zpow_sub₀ (by norm_num : (10 : Rat) ≠ 0)]; simp
      have := div_div_ten q _ hp.ne'
      rw [hE1, this] at hlt
      have hCpos : (0 : Rat) ≤ (Spec.Cmax : Rat) := Nat.cast_nonneg _
      linarith
    · have hEe : Spec.spacingExp q = Spec.Emax := by
        rcases hshape with ⟨h, -⟩ | ⟨h, -⟩ <;> omega
      have hCle : Spec.roundAt m neg q (Spec.spacingExp q) ≤ Spec.Cmax := by
        rcases hshape with ⟨-, h⟩ | ⟨h, -⟩
        · rw [← h]; exact hc'
        · omega
      rw [hEe] at hnr hcoef h3 hCle
      have hflge : Spec.Cmax ≤ ⌊q / (10 : Rat) ^ Spec.Emax⌋₊ := Nat.le_floor (by linarith)
      have hfl : ⌊q / (10 : Rat) ^ Spec.Emax⌋₊ = Spec.Cmax := by omega
      cases m <;> simp [isNearest] at hn
      · rw [roundAt_nearestEven neg q hq.le, hfl] at hCle
        by_cases hhalf : (1 : Rat) / 2 < q / (10 : Rat) ^ Spec.Emax - (Spec.Cmax : Rat)
        · rw [if_pos (Or.inl hhalf)] at hCle; omega
        · have : q / (10 : Rat) ^ Spec.Emax - (Spec.Cmax : Rat) = 1 / 2 := by linarith
          rw [if_pos (Or.inr ⟨this, Cmax_odd⟩)] at hCle; omega
      · rw [roundAt_nearestAway neg q hq.le, hfl, if_pos (by linarith)] at hCle; omega

end SpecRound
