/-
  D128/Proofs/PowLadderInf.lean — property C18, ladder rung "y = ±Inf" of `Gen.Decimal.PowWithMode`
  (stage `PowPf.infY` of D128/Proofs/PowCode.lean) against `Spec.powSpecial` (its sub-term `psInf`) and
  against the `math.Pow` table stated directly on the magnitude |x| ⋚ 1.
  All bit patterns of x, both signs of y, every mode byte; none of the calls can panic.

  Provided (namespace `PowPf`):
  * `to_ladder`      : outside cases (a)–(c) the call continues at `ladder`, the spec at `psLate`
  * `absGtOne`       : `1 < |x|` on abstract values (±Inf counts as > 1)
  * `infTable`       : the `math.Pow` table for y = ±Inf, |x| ≠ 1: `+Inf` when (|x| > 1) ≠ (y < 0), else `+0`
  * `nat_gt_pow_of_log`, `nat_not_gt_pow_of_log` : `c ⋚ 10^n` from `10^k ≤ c < 10^(k+1)`
  * `infY_eq`        : `infY d oNeg = .ok (infTable (absGtOne 𝔳[d]) oNeg)` for every non-NaN x with |x| ≠ 1
                        (the decision the code takes from the exponent and `U128.log10` is |x| > 1)
  * `psInf_eq`       : `psInf x yn` is the same table (the spec's digit-count test `big` is |x| > 1)
  * `case_yinf`      : both sides for y = ±Inf
-/
import D128.Proofs.PowCasesA
import D128.Proofs.Words128Log

set_option autoImplicit false
set_option maxRecDepth 8192
set_option linter.unusedVariables false
set_option linter.unusedSimpArgs false

namespace PowPf
open Gen Sp Spec
local notation "𝔳[" d "]" => Spec.interp (Gen.Decimal.lo d) (Gen.Decimal.hi d)

/-- outside the cases (a) y = ±0, (b) x = +1 / x = −1 with y = ±Inf, (c) y = ±1 the call continues at
    `ladder` and the specification at `psLate` -/
theorem to_ladder (d o : Decimal) (rm : UInt8) (m : Mode) (h0 : Decimal.IsZero o = false)
    (hb : (absOne 𝔳[d] && ((!(Decimal.Signbit d)) || (Decimal.isInf o))) = false)
    (hy : absOne 𝔳[o] = false) :
    Decimal.PowWithMode d o rm = ladder rm d o ∧ powSpecial m 𝔳[d] 𝔳[o] = psLate m 𝔳[d] 𝔳[o] := by
  obtain ⟨h1, h2⟩ := case_late d o rm m h0 hb
  exact ⟨by rw [h1, stage2_ladder d o rm hy], h2⟩

/-- `1 < |x|` (±Inf included, NaN excluded) -/
def absGtOne : Spec.Val → Bool
  | .fin _ c e => decide (1 < Spec.mag c e)
  | .inf _ => true
  | .nan _ _ => false

/-- the `math.Pow` table for y = ±Inf and |x| ≠ 1 -/
def infTable (gt yn : Bool) : Decimal := if (gt != yn) = true then Gen.inf false else Gen.zero false

theorem nat_gt_pow_of_log (c k n : Nat) (h1 : 10 ^ k ≤ c) (hk : n ≤ k) (hne : c ≠ 10 ^ n) : 10 ^ n < c := by
  have : 10 ^ n ≤ 10 ^ k := Nat.pow_le_pow_right (by norm_num) hk
  omega

theorem nat_not_gt_pow_of_log (c k n : Nat) (h2 : c < 10 ^ (k + 1)) (hk : k < n) : ¬ 10 ^ n < c := by
  have : 10 ^ (k + 1) ≤ 10 ^ n := Nat.pow_le_pow_right (by norm_num) hk
  omega

/-- `1 < mag c e` on naturals -/
theorem mag_gt_one_dec (c : Nat) (e : Int) (hc : c ≠ 0) :
    decide (1 < Spec.mag c e) = decide (0 < e ∨ 10 ^ (-e).toNat < c) := by
  apply decide_eq_decide.2
  by_cases he : 0 < e
  · simp only [he, true_or, iff_true]; exact mag_pos_exp c e hc he
  · have := mag_gt_one_iff c e (by omega)
    simp only [he, false_or]; exact this

/-- y = ±Inf in the code: the table, for every x that is neither NaN nor of magnitude 1 -/
theorem infY_eq (d : Decimal) (oNeg : Bool) (hn : Decimal.IsNaN d = false)
    (h1 : absOne 𝔳[d] = false) :
    infY d oNeg = .ok (infTable (absGtOne 𝔳[d]) oNeg) := by
  rcases view d with ⟨a1, a2, a3, a4, av⟩ | ⟨a1, a2, a3, a4, av⟩ | ⟨a1, a2, a3, a4, a5, ac, av⟩ | ⟨a1, a2, a3, a4, a5, ac, ab, av⟩
  · rw [hn] at a1; cases a1
  · rw [av]; unfold infY infTable absGtOne
    simp only [a4, a2, if_true, if_false, Bool.false_eq_true]
    cases oNeg <;> rfl
  · rw [av]; unfold infY infTable absGtOne
    simp only [a4, if_true, mag_zero]
    cases oNeg <;> rfl
  · rw [av] at h1 ⊢
    unfold infY infTable absGtOne
    simp only [a4, a2, if_false, Bool.false_eq_true]
    simp only [mag_gt_one_dec _ _ ac]
    simp only [absOne, mag_one_iff] at h1
    have hd := dExp_toInt d a3
    have h0 := Enc.decompose_exp_nonneg d
    have h12 := Enc.decompose_exp_le d a3
    have hC : cf d ≤ Spec.Cmax := Enc.decompose_sig_le d
    have hC35 := SpecRound.Cmax_upper
    obtain ⟨k, hk, elog, hki, -, hk1⟩ := U128_log10_spec (Decimal.decompose d).1
    obtain ⟨hk1, hk2⟩ := hk1 ac
    simp only [i16_lt_iff, i16_le_iff, gt_iff_lt, ge_iff_le, hd]
    have z0 : (0 : Int16).toInt = 0 := by decide
    have z35 : (-35 : Int16).toInt = -35 := by decide
    rw [z0, z35]
    generalize hE : ex d = e at *
    by_cases c1 : 0 < e
    · simp only [c1, decide_true, if_true, true_or]
      cases oNeg <;> rfl
    · simp only [c1, decide_false, if_false, Bool.false_eq_true, false_or]
      have hneq : ¬ cf d = 10 ^ (-e).toNat := by
        intro h; rw [decide_eq_false_iff_not] at h1; exact h1 ⟨by omega, h⟩
      by_cases c2 : -35 < e
      · simp only [c2, decide_true, if_true, elog, RK.ok_bind]
        have hconv : (Go.conv (Int64.ofNat k) : Int16).toInt = k := by
          show (Int64.ofNat k).toInt16.toInt = k
          rw [Int64.toInt_toInt16, hki, bmod16_small] <;> omega
        have hneg : (-((Decimal.decompose d).2 - 6176)).toInt = -e := by
          rw [i16_neg _ (by rw [hd]; omega), hd]
        rw [hconv, hneg]
        by_cases c3 : -e ≤ (k : Int)
        · have hgt : 10 ^ (-e).toNat < cf d :=
            nat_gt_pow_of_log _ k _ hk1 (by omega) hneq
          simp only [c3, hgt, decide_true, if_true]
          cases oNeg <;> rfl
        · have hgt : ¬ 10 ^ (-e).toNat < cf d :=
            nat_not_gt_pow_of_log _ k _ hk2 (by omega)
          simp only [c3, hgt, decide_false, if_false, Bool.false_eq_true]
          cases oNeg <;> rfl
      · have hgt : ¬ 10 ^ (-e).toNat < cf d := by
          have : 10 ^ 35 ≤ 10 ^ (-e).toNat := Nat.pow_le_pow_right (by norm_num) (by omega)
          omega
        simp only [c2, hgt, decide_false, if_false, Bool.false_eq_true]
        cases oNeg <;> rfl

/-- the specification's digit-count test is `1 < |x|` -/
theorem big_eq (c : Nat) (e : Int) (hc : c ≠ 0) (h1 : ¬ (e ≤ 0 ∧ c = 10 ^ (-e).toNat)) :
    (decide (e + (ndigits c : Int) > 0) && !(c == 10 ^ (ndigits c - 1) && e + (ndigits c : Int) == 1)) =
      decide (0 < e ∨ 10 ^ (-e).toNat < c) := by
  obtain ⟨s1, s2⟩ := SpecRound.ndigits_spec c hc
  have hp := SpecRound.ndigits_pos c
  generalize ndigits c = nd at *
  by_cases he : 0 < e
  · have a1 : e + (nd : Int) > 0 := by omega
    have a2 : ¬ e + (nd : Int) = 1 := by omega
    simp [he, a1, a2]
  · simp only [he, false_or]
    have hn : ((-e).toNat : Int) = -e := Int.toNat_of_nonneg (by omega)
    generalize (-e).toNat = n at *
    have hne : c ≠ 10 ^ n := fun h => h1 ⟨by omega, h⟩
    by_cases c1 : n + 2 ≤ nd
    · have a1 : e + (nd : Int) > 0 := by omega
      have a2 : ¬ e + (nd : Int) = 1 := by omega
      have a3 : 10 ^ n < c := by
        have : 10 ^ (n + 1) ≤ 10 ^ (nd - 1) := Nat.pow_le_pow_right (by norm_num) (by omega)
        have : 10 ^ n < 10 ^ (n + 1) := Nat.pow_lt_pow_right (by norm_num) (by omega)
        omega
      simp [a1, a2, a3]
    · by_cases c2 : nd = n + 1
      · subst c2
        have a1 : e + ((n + 1 : Nat) : Int) > 0 := by omega
        have a2 : e + ((n + 1 : Nat) : Int) = 1 := by omega
        have a3 : 10 ^ n < c := by
          simp only [Nat.add_sub_cancel] at s1; omega
        simp [a2, a3, hne]
        omega
      · have a1 : ¬ e + (nd : Int) > 0 := by omega
        have a3 : ¬ 10 ^ n < c := by
          have : 10 ^ nd ≤ 10 ^ n := Nat.pow_le_pow_right (by norm_num) (by omega)
          omega
        simp [a1, a3]

theorem isOne_false (c : Nat) (e : Int) (hc : c ≠ 0) (h1 : ¬ (e ≤ 0 ∧ c = 10 ^ (-e).toNat)) :
    (powerOfTen c e == some 0) = false := by
  unfold powerOfTen
  have hp := SpecRound.ndigits_pos c
  by_cases h : (c != 0 && c == 10 ^ (ndigits c - 1)) = true
  · rw [if_pos h]
    simp only [Bool.and_eq_true, bne_iff_ne, beq_iff_eq] at h
    rw [beq_eq_false_iff_ne]
    intro hk
    have hk' : (ndigits c : Int) - 1 + e = 0 := by simpa using hk
    apply h1
    refine ⟨by omega, ?_⟩
    have : (-e).toNat = ndigits c - 1 := by omega
    rw [this]; exact h.2
  · rw [if_neg h]; rfl

/-- y = ±Inf in the specification: the same table -/
theorem psInf_eq (x : Val) (yn : Bool) (hn : x.isNaN = false) (h1 : absOne x = false) :
    psInf x yn = some (if (absGtOne x != yn) = true then .inf false else .fin false 0 0) := by
  rcases x with ⟨n, p⟩ | ⟨n⟩ | ⟨n, c, e⟩
  · cases hn
  · cases yn <;> rfl
  · by_cases hc : c = 0
    · subst hc
      simp only [psInf, absGtOne, mag_zero]
      cases yn <;> rfl
    · simp only [absOne, mag_one_iff, decide_eq_false_iff_not] at h1
      have hcb : (c == 0) = false := by simpa using hc
      simp only [psInf, hcb, if_false, Bool.false_eq_true, isOne_false c e hc h1, big_eq c e hc h1,
        absGtOne, mag_gt_one_dec c e hc]
      cases decide (0 < e ∨ 10 ^ (-e).toNat < c) <;> cases yn <;> rfl

/-- the table denotes what the specification's table says -/
theorem interp_infTable (gt yn : Bool) :
    (𝔳[infTable gt yn]).same (if (gt != yn) = true then .inf false else .fin false 0 0) = true := by
  cases gt <;> cases yn <;>
    simp only [infTable, bne_self_eq_false, Bool.true_bne, Bool.false_bne, Bool.not_true, Bool.not_false,
      if_true, if_false, Bool.false_eq_true, Enc.interp_inf, Enc.interp_zero, same_refl, same_zero]

/-- y = ±Inf, both sides (x not NaN, |x| ≠ 1) -/
theorem case_yinf (d o : Decimal) (rm : UInt8) (m : Mode) (hd : Decimal.IsNaN d = false)
    (ho : Decimal.isInf o = true) (h1 : absOne 𝔳[d] = false) :
    ladder rm d o = .ok (infTable (absGtOne 𝔳[d]) (Decimal.Signbit o)) ∧
      psLate m 𝔳[d] 𝔳[o] =
        some (if (absGtOne 𝔳[d] != Decimal.Signbit o) = true then .inf false else .fin false 0 0) := by
  have hon : Decimal.IsNaN o = false := by
    rcases view o with ⟨b1, b2, b3, b4, bv⟩ | ⟨b1, b2, b3, b4, bv⟩ | ⟨b1, b2, b3, b4, b5, bc, bv⟩ | ⟨b1, b2, b3, b4, b5, bc, bb, bv⟩
    · rw [ho] at b2; cases b2
    all_goals exact b1
  refine ⟨by rw [ladder_infY d o rm hd hon ho, infY_eq d _ hd h1], ?_⟩
  rw [view_inf o ho]
  show psInf 𝔳[d] (Decimal.Signbit o) = _
  apply psInf_eq _ _ _ h1
  rw [Enc.interp_isNaN, hd]

end PowPf
