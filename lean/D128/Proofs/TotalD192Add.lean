/-
  D128.Proofs.TotalD192Add — totality (termination, no panic) of `decomposed192.add` and
  `decomposed192.sub` for every input (C20).

  The generated functions are cut into three stages each (alignment for `d.exp < o.exp`, alignment
  for `d.exp > o.exp`, combination); the stages are copies of the generated statements in
  continuation-passing form and are tied to the generated definitions by `add_eq` / `sub_eq`
  (proved by unfolding — they break if the generated code changes).

  * `addNeg/addPos/addFin`, `add_eq`;  `subNeg/subPos/subFin`, `sub_eq`
  * `addNeg_triple`, `addPos_triple`, `addFin_triple`
  * `d192_add_strong_triple` : `⦃True⦄ add d o t ⦃r => (d.sig + o.sig ≠ 0 → r.1.sig ≠ 0) ∧
                                              (r.1.sig ≠ 0 ∨ r.2 = t ∨ r.2 = 1)⦄`
      (a sticky flag `-1` is only ever produced together with a non-zero significand; the sum is non-zero
      as soon as one operand is: a zero operand is rescaled freely, nothing is shifted out)
  * `d192_add_triple` (`@[spec]`): the same with `d.sig ≠ 0 → o.sig ≠ 0 → r.1.sig ≠ 0`
  * `d192_sub_triple` : `⦃True⦄ sub d o t ⦃r => True⦄`
  * `d192_add_total`, `d192_sub_total`
-/
import D128.Proofs.TotalBase
set_option autoImplicit false
set_option mvcgen.warning false
set_option exponentiation.threshold 512
set_option linter.unusedVariables false
set_option linter.unusedSimpArgs false
namespace D128.Proofs.Total
open Std.Do
open D128.Proofs.WordsWide

section
open Gen

/-- `decomposed192.add`, branch `exp = d.exp - o.exp < 0` (alignment only, continuation-passing) -/
def addNeg {α : Type} (d o : decomposed192) (trunc : Int8) (exp : Int16)
    (k : decomposed192 → decomposed192 → Int8 → Go.GoM α) : Go.GoM α := do
  let mut d : decomposed192 := d
  let mut o : decomposed192 := o
  let mut trunc : Int8 := trunc
  let mut exp : Int16 := exp
  while ((decide (exp ≤ (-19 : Int16))) && (o.sig.w2 == (0 : UInt64))) do
    o := { o with sig := (U192.mul64 o.sig (10000000000000000000 : UInt64)) }
    o := { o with exp := (o.exp - (19 : Int16)) }
    exp := (exp + (19 : Int16))
  while ((decide (exp ≤ (-4 : Int16))) && (decide (o.sig.w2 ≤ (703687441776639 : UInt64)))) do
    o := { o with sig := (U192.mul64 o.sig (10000 : UInt64)) }
    o := { o with exp := (o.exp - (4 : Int16)) }
    exp := (exp + (4 : Int16))
  while ((decide (exp < (0 : Int16))) && (decide (o.sig.w2 ≤ (1801439850948198399 : UInt64)))) do
    o := { o with sig := (U192.mul64 o.sig (10 : UInt64)) }
    o := { o with exp := (o.exp - (1 : Int16)) }
    exp := (exp + (1 : Int16))
  if (decide (exp < (-57 : Int16))) then
    if (((d.sig.w0 ||| d.sig.w1) ||| d.sig.w2) != (0 : UInt64)) then
      d := { d with sig := (default : U192) }
      trunc := (1 : Int8)
    d := { d with exp := o.exp }
    exp := (0 : Int16)
  while (decide (exp ≤ (-4 : Int16))) do
    let mut rem : UInt64 := (0 : UInt64)
    let (r_1, r_2) ← U192.div10000 d.sig
    d := { d with sig := r_1 }
    rem := r_2
    if (rem != (0 : UInt64)) then
      trunc := (1 : Int8)
    if (((d.sig.w0 ||| d.sig.w1) ||| d.sig.w2) == (0 : UInt64)) then
      d := { d with exp := o.exp }
      exp := (0 : Int16)
    else
      d := { d with exp := (d.exp + (4 : Int16)) }
      exp := (exp + (4 : Int16))
  while (decide (exp < (0 : Int16))) do
    let mut rem_1 : UInt64 := (0 : UInt64)
    let (r_3, r_4) ← U192.div10 d.sig
    d := { d with sig := r_3 }
    rem_1 := r_4
    d := { d with exp := (d.exp + (1 : Int16)) }
    exp := (exp + (1 : Int16))
    if (rem_1 != (0 : UInt64)) then
      trunc := (1 : Int8)
  k d o trunc

/-- `decomposed192.add`, branch `exp = d.exp - o.exp > 0` (alignment only, continuation-passing) -/
def addPos {α : Type} (d o : decomposed192) (trunc : Int8) (exp : Int16)
    (k : decomposed192 → decomposed192 → Int8 → Go.GoM α) : Go.GoM α := do
  let mut d : decomposed192 := d
  let mut o : decomposed192 := o
  let mut trunc : Int8 := trunc
  let mut exp : Int16 := exp
  while ((decide (exp ≥ (19 : Int16))) && (d.sig.w2 == (0 : UInt64))) do
    d := { d with sig := (U192.mul64 d.sig (10000000000000000000 : UInt64)) }
    d := { d with exp := (d.exp - (19 : Int16)) }
    exp := (exp - (19 : Int16))
  while ((decide (exp ≥ (4 : Int16))) && (decide (d.sig.w2 ≤ (703687441776639 : UInt64)))) do
    d := { d with sig := (U192.mul64 d.sig (10000 : UInt64)) }
    d := { d with exp := (d.exp - (4 : Int16)) }
    exp := (exp - (4 : Int16))
  while ((decide (exp > (0 : Int16))) && (decide (d.sig.w2 ≤ (1801439850948198399 : UInt64)))) do
    d := { d with sig := (U192.mul64 d.sig (10 : UInt64)) }
    d := { d with exp := (d.exp - (1 : Int16)) }
    exp := (exp - (1 : Int16))
  if (decide (exp > (57 : Int16))) then
    if (((o.sig.w0 ||| o.sig.w1) ||| o.sig.w2) != (0 : UInt64)) then
      o := { o with sig := (default : U192) }
      trunc := (-1 : Int8)
    exp := (0 : Int16)
  while (decide (exp ≥ (4 : Int16))) do
    let mut rem_2 : UInt64 := (0 : UInt64)
    let (r_5, r_6) ← U192.div10000 o.sig
    o := { o with sig := r_5 }
    rem_2 := r_6
    if (rem_2 != (0 : UInt64)) then
      trunc := (-1 : Int8)
    if (((o.sig.w0 ||| o.sig.w1) ||| o.sig.w2) == (0 : UInt64)) then
      exp := (0 : Int16)
    else
      exp := (exp - (4 : Int16))
  while (decide (exp > (0 : Int16))) do
    let mut rem_3 : UInt64 := (0 : UInt64)
    let (r_7, r_8) ← U192.div10 o.sig
    o := { o with sig := r_7 }
    rem_3 := r_8
    exp := (exp - (1 : Int16))
    if (rem_3 != (0 : UInt64)) then
      trunc := (1 : Int8)
  k d o trunc

/-- `decomposed192.add`, the combination of the aligned significands -/
def addFin (d o : decomposed192) (trunc : Int8) : Go.GoM (decomposed192 × Int8) := do
  let mut trunc : Int8 := trunc
  let mut exp : Int16 := (0 : Int16)
  let mut sig256 : U256 := (U192.add d.sig o.sig)
  exp := d.exp
  while (decide (sig256.w3 ≥ (65535 : UInt64))) do
    let mut rem_4 : UInt64 := (0 : UInt64)
    let (r_9, r_10) ← U256.div10000 sig256
    sig256 := r_9
    rem_4 := r_10
    exp := (exp + (4 : Int16))
    if (rem_4 != (0 : UInt64)) then
      trunc := (1 : Int8)
  while (decide (sig256.w3 > (0 : UInt64))) do
    let mut rem_5 : UInt64 := (0 : UInt64)
    let (r_11, r_12) ← U256.div10 sig256
    sig256 := r_11
    rem_5 := r_12
    exp := (exp + (1 : Int16))
    if (rem_5 != (0 : UInt64)) then
      trunc := (1 : Int8)
  return (({ (default : decomposed192) with sig := (U192.mk sig256.w0 sig256.w1 sig256.w2), exp := exp } : decomposed192), trunc)

theorem add_eq (d o : decomposed192) (trunc : Int8) :
    decomposed192.add d o trunc =
      if d.exp - o.exp < 0 then addNeg d o trunc (d.exp - o.exp) addFin
      else if d.exp - o.exp > 0 then addPos d o trunc (d.exp - o.exp) addFin
      else addFin d o trunc := by
  by_cases h1 : d.exp - o.exp < 0
  · rw [if_pos h1]
    unfold decomposed192.add
    simp only [h1, decide_true, if_true]
    rfl
  · rw [if_neg h1]
    by_cases h2 : d.exp - o.exp > 0
    · rw [if_pos h2]
      unfold decomposed192.add
      simp only [h1, h2, decide_true, decide_false, if_true, if_false, Bool.false_eq_true]
      rfl
    · rw [if_neg h2]
      unfold decomposed192.add
      simp only [h1, h2, decide_false, if_false, Bool.false_eq_true]
      rfl

end

def AlignN (d o : Gen.decomposed192) (t : Int8) (d' o' : Gen.decomposed192) (t' : Int8) : Prop :=
  (o.sig.toNat ≠ 0 → o'.sig.toNat ≠ 0) ∧ (t' = t ∨ t' = 1) ∧
  (o.sig.toNat = 0 → d'.sig.toNat = d.sig.toNat)

set_option maxHeartbeats 1000000 in
theorem addNeg_triple {α : Type} (d o : Gen.decomposed192) (trunc : Int8) (exp : Int16)
    (k : Gen.decomposed192 → Gen.decomposed192 → Int8 → Go.GoM α) (Q : α → Prop)
    (hk : ∀ d' o' t', ⦃⌜AlignN d o trunc d' o' t'⌝⦄ k d' o' t' ⦃⇓ r => ⌜Q r⌝⦄) :
    ⦃⌜True⌝⦄ addNeg d o trunc exp k ⦃⇓ r => ⌜Q r⌝⦄ := by
  mvcgen [addNeg, hk]
  case inv1 | inv3 | inv5 => exact fun st => ⟨dn16 st.2⟩
  case inv2 | inv4 => exact ⇓ x => match x with
    | .inl st => ⌜(o.sig.toNat ≠ 0 → st.1.sig.toNat ≠ 0) ∧ (o.sig.toNat = 0 → st.1.sig.toNat = 0)⌝
    | .inr st => ⌜(o.sig.toNat ≠ 0 → st.1.sig.toNat ≠ 0) ∧ (o.sig.toNat = 0 → st.1.sig.toNat = 0)⌝
  case inv6 => exact ⇓ x => match x with
    | .inl st => ⌜(o.sig.toNat ≠ 0 → st.1.sig.toNat ≠ 0) ∧ (o.sig.toNat = 0 → st.1.sig.toNat = 0)⌝
    | .inr st => ⌜(o.sig.toNat ≠ 0 → st.1.sig.toNat ≠ 0) ∧ (o.sig.toNat = 0 → 0 ≤ st.2)⌝
  case inv7 | inv9 | inv11 | inv13 | inv15 | inv17 => exact fun st => ⟨dn16 st.2.2⟩
  case inv8 | inv10 | inv12 | inv14 | inv16 | inv18 => exact ⇓ x => match x with
    | .inl st => ⌜(st.2.1 = trunc ∨ st.2.1 = 1) ∧
        (o.sig.toNat = 0 → 0 ≤ st.2.2 ∧ st.1.sig.toNat = d.sig.toNat)⌝
    | .inr st => ⌜(st.2.1 = trunc ∨ st.2.1 = 1) ∧
        (o.sig.toNat = 0 → 0 ≤ st.2.2 ∧ st.1.sig.toNat = d.sig.toNat)⌝
  all_goals (simp +zetaDelta [AlignN] at *)
  all_goals d192_prep
  all_goals d192_fin
def AlignP (d o : Gen.decomposed192) (t : Int8) (d' o' : Gen.decomposed192) (t' : Int8) : Prop :=
  (d.sig.toNat ≠ 0 → d'.sig.toNat ≠ 0) ∧ (t' = t ∨ t' = 1 ∨ d'.sig.toNat ≠ 0) ∧
  (d.sig.toNat = 0 → o'.sig.toNat = o.sig.toNat)

set_option maxHeartbeats 1000000 in
theorem addPos_triple {α : Type} (d o : Gen.decomposed192) (trunc : Int8) (exp : Int16)
    (k : Gen.decomposed192 → Gen.decomposed192 → Int8 → Go.GoM α) (Q : α → Prop)
    (hk : ∀ d' o' t', ⦃⌜AlignP d o trunc d' o' t'⌝⦄ k d' o' t' ⦃⇓ r => ⌜Q r⌝⦄) :
    ⦃⌜True⌝⦄ addPos d o trunc exp k ⦃⇓ r => ⌜Q r⌝⦄ := by
  mvcgen [addPos, hk]
  case inv1 | inv3 | inv5 => exact fun st => ⟨up16 st.2⟩
  case inv2 | inv4 => exact ⇓ x => match x with
    | .inl st => ⌜(d.sig.toNat ≠ 0 → st.1.sig.toNat ≠ 0) ∧ (d.sig.toNat = 0 → st.1.sig.toNat = 0)⌝
    | .inr st => ⌜(d.sig.toNat ≠ 0 → st.1.sig.toNat ≠ 0) ∧ (d.sig.toNat = 0 → st.1.sig.toNat = 0)⌝
  case inv6 => exact ⇓ x => match x with
    | .inl st => ⌜(d.sig.toNat ≠ 0 → st.1.sig.toNat ≠ 0) ∧ (d.sig.toNat = 0 → st.1.sig.toNat = 0)⌝
    | .inr st => ⌜(d.sig.toNat ≠ 0 → st.1.sig.toNat ≠ 0) ∧ (st.2 ≤ 0 ∨ st.1.sig.toNat ≠ 0) ∧
        (d.sig.toNat = 0 → st.1.sig.toNat = 0)⌝
  case inv7 | inv9 | inv11 | inv13 | inv15 | inv17 => exact fun st => ⟨up16 st.2.2⟩
  case inv8 | inv10 | inv12 | inv14 | inv16 | inv18 => exact ⇓ x => match x with
    | .inl st => ⌜(st.2.1 = trunc ∨ st.2.1 = 1 ∨ (‹Gen.decomposed192 × Int16›).1.sig.toNat ≠ 0) ∧
        (0 < st.2.2 → (‹Gen.decomposed192 × Int16›).1.sig.toNat ≠ 0) ∧
        (d.sig.toNat = 0 → st.1.sig.toNat = o.sig.toNat)⌝
    | .inr st => ⌜(st.2.1 = trunc ∨ st.2.1 = 1 ∨ (‹Gen.decomposed192 × Int16›).1.sig.toNat ≠ 0) ∧
        (0 < st.2.2 → (‹Gen.decomposed192 × Int16›).1.sig.toNat ≠ 0) ∧
        (d.sig.toNat = 0 → st.1.sig.toNat = o.sig.toNat)⌝
  all_goals (simp +zetaDelta [AlignP] at *)
  all_goals d192_prep
  all_goals d192_fin

theorem addFin_triple (d o : Gen.decomposed192) (trunc : Int8) :
    ⦃⌜True⌝⦄ addFin d o trunc
    ⦃⇓ r => ⌜(d.sig.toNat + o.sig.toNat ≠ 0 → r.1.sig.toNat ≠ 0) ∧ (r.2 = trunc ∨ r.2 = 1)⌝⦄ := by
  mvcgen [addFin]
  case inv1 | inv3 => exact fun st => ⟨st.2.2.toNat⟩
  case inv2 => exact ⇓ x => match x with
    | .inl st => ⌜(d.sig.toNat + o.sig.toNat ≠ 0 → st.2.2.toNat ≠ 0) ∧ (st.1 = trunc ∨ st.1 = 1)⌝
    | .inr st => ⌜(d.sig.toNat + o.sig.toNat ≠ 0 → st.2.2.toNat ≠ 0) ∧ (st.1 = trunc ∨ st.1 = 1)⌝
  case inv4 => exact ⇓ x => match x with
    | .inl st => ⌜(d.sig.toNat + o.sig.toNat ≠ 0 → st.2.2.toNat ≠ 0) ∧ (st.1 = trunc ∨ st.1 = 1)⌝
    | .inr st => ⌜(d.sig.toNat + o.sig.toNat ≠ 0 → st.2.2.toNat ≠ 0) ∧ (st.1 = trunc ∨ st.1 = 1) ∧
        st.2.2.toNat < 2^192⌝
  all_goals (simp +zetaDelta at *)
  all_goals d192_prep
  all_goals d192_fin

/-- strong form: the sum is non-zero as soon as ONE operand is (a zero operand is always rescaled to the
exponent of the other one, so nothing is shifted out) -/
theorem d192_add_strong_triple (d o : Gen.decomposed192) (trunc : Int8) :
    ⦃⌜True⌝⦄ Gen.decomposed192.add d o trunc
    ⦃⇓ r => ⌜(d.sig.toNat + o.sig.toNat ≠ 0 → r.1.sig.toNat ≠ 0) ∧
      (r.1.sig.toNat ≠ 0 ∨ r.2 = trunc ∨ r.2 = 1)⌝⦄ := by
  rw [add_eq]
  split
  · apply addNeg_triple
    intro d' o' t'
    refine triple_conseq (addFin_triple d' o' t') ?_
    simp only [AlignN]
    intro h r hr
    refine ⟨fun h2 => hr.1 (by have := h.1; have := h.2.2; omega), ?_⟩
    rcases hr.2 with e | e <;> rcases h.2.1 with e' | e' <;> simp [e, e']
  split
  · apply addPos_triple
    intro d' o' t'
    refine triple_conseq (addFin_triple d' o' t') ?_
    simp only [AlignP]
    intro h r hr
    refine ⟨fun h1 => hr.1 (by have := h.1; have := h.2.2; omega), ?_⟩
    rcases hr.2 with e | e
    · rcases h.2.1 with e' | e' | e'
      · right; left; rw [e, e']
      · right; right; rw [e, e']
      · left; exact hr.1 (by omega)
    · right; right; exact e
  · refine triple_conseq (P := True) (addFin_triple d o trunc) ?_
    intro _ r hr
    exact ⟨fun h1 => hr.1 h1, Or.inr hr.2⟩

@[spec] theorem d192_add_triple (d o : Gen.decomposed192) (trunc : Int8) :
    ⦃⌜True⌝⦄ Gen.decomposed192.add d o trunc
    ⦃⇓ r => ⌜(d.sig.toNat ≠ 0 → o.sig.toNat ≠ 0 → r.1.sig.toNat ≠ 0) ∧
      (r.1.sig.toNat ≠ 0 ∨ r.2 = trunc ∨ r.2 = 1)⌝⦄ := by
  refine triple_conseq (P := True) (d192_add_strong_triple d o trunc) ?_
  intro _ r hr
  exact ⟨fun h1 _ => hr.1 (by omega), hr.2⟩

theorem d192_add_total (d o : Gen.decomposed192) (trunc : Int8) :
    ∃ r, Gen.decomposed192.add d o trunc = .ok r ∧
      (d.sig.toNat + o.sig.toNat ≠ 0 → r.1.sig.toNat ≠ 0) ∧
      (r.1.sig.toNat ≠ 0 ∨ r.2 = trunc ∨ r.2 = 1) :=
  ok_of_triple (d192_add_strong_triple d o trunc)

example : ∃ r, Gen.decomposed192.add Gen.ln10 Gen.ln2 0 = .ok r ∧ r.1.sig.toNat ≠ 0 := by
  obtain ⟨r, h, h1, _⟩ := d192_add_total Gen.ln10 Gen.ln2 0
  exact ⟨r, h, h1 (by decide)⟩

/-! ## sub -/

section
open Gen

/-- `decomposed192.sub`, branch `exp = d.exp - o.exp < 0` (alignment only, continuation-passing) -/
def subNeg {α : Type} (d o : decomposed192) (trunc : Int8) (exp : Int16)
    (k : decomposed192 → decomposed192 → Int8 → Go.GoM α) : Go.GoM α := do
  let mut d : decomposed192 := d
  let mut o : decomposed192 := o
  let mut trunc : Int8 := trunc
  let mut exp : Int16 := exp
  while ((decide (exp ≤ (-19 : Int16))) && (o.sig.w2 == (0 : UInt64))) do
    o := { o with sig := (U192.mul64 o.sig (10000000000000000000 : UInt64)) }
    o := { o with exp := (o.exp - (19 : Int16)) }
    exp := (exp + (19 : Int16))
  while ((decide (exp ≤ (-4 : Int16))) && (decide (o.sig.w2 ≤ (703687441776639 : UInt64)))) do
    o := { o with sig := (U192.mul64 o.sig (10000 : UInt64)) }
    o := { o with exp := (o.exp - (4 : Int16)) }
    exp := (exp + (4 : Int16))
  while ((decide (exp < (0 : Int16))) && (decide (o.sig.w2 ≤ (1801439850948198399 : UInt64)))) do
    o := { o with sig := (U192.mul64 o.sig (10 : UInt64)) }
    o := { o with exp := (o.exp - (1 : Int16)) }
    exp := (exp + (1 : Int16))
  if (decide (exp < (-57 : Int16))) then
    if (((d.sig.w0 ||| d.sig.w1) ||| d.sig.w2) != (0 : UInt64)) then
      d := { d with sig := (default : U192) }
      trunc := (1 : Int8)
    d := { d with exp := o.exp }
    exp := (0 : Int16)
  while (decide (exp ≤ (-4 : Int16))) do
    let mut rem : UInt64 := (0 : UInt64)
    let (r_1, r_2) ← U192.div10000 d.sig
    d := { d with sig := r_1 }
    rem := r_2
    if (rem != (0 : UInt64)) then
      trunc := (1 : Int8)
    if (((d.sig.w0 ||| d.sig.w1) ||| d.sig.w2) == (0 : UInt64)) then
      d := { d with exp := o.exp }
      exp := (0 : Int16)
    else
      d := { d with exp := (d.exp + (4 : Int16)) }
      exp := (exp + (4 : Int16))
  while (decide (exp < (0 : Int16))) do
    let mut rem_1 : UInt64 := (0 : UInt64)
    let (r_3, r_4) ← U192.div10 d.sig
    d := { d with sig := r_3 }
    rem_1 := r_4
    if (rem_1 != (0 : UInt64)) then
      trunc := (1 : Int8)
    if (((d.sig.w0 ||| d.sig.w1) ||| d.sig.w2) == (0 : UInt64)) then
      d := { d with exp := o.exp }
      break
    d := { d with exp := (d.exp + (1 : Int16)) }
    exp := (exp + (1 : Int16))
  k d o trunc

/-- `decomposed192.sub`, branch `exp = d.exp - o.exp > 0` (alignment only, continuation-passing) -/
def subPos {α : Type} (d o : decomposed192) (trunc : Int8) (exp : Int16)
    (k : decomposed192 → decomposed192 → Int8 → Go.GoM α) : Go.GoM α := do
  let mut d : decomposed192 := d
  let mut o : decomposed192 := o
  let mut trunc : Int8 := trunc
  let mut exp : Int16 := exp
  while ((decide (exp ≥ (19 : Int16))) && (d.sig.w2 == (0 : UInt64))) do
    d := { d with sig := (U192.mul64 d.sig (10000000000000000000 : UInt64)) }
    d := { d with exp := (d.exp - (19 : Int16)) }
    exp := (exp - (19 : Int16))
  while ((decide (exp ≥ (4 : Int16))) && (decide (d.sig.w2 ≤ (703687441776639 : UInt64)))) do
    d := { d with sig := (U192.mul64 d.sig (10000 : UInt64)) }
    d := { d with exp := (d.exp - (4 : Int16)) }
    exp := (exp - (4 : Int16))
  while ((decide (exp > (0 : Int16))) && (decide (d.sig.w2 ≤ (1801439850948198399 : UInt64)))) do
    d := { d with sig := (U192.mul64 d.sig (10 : UInt64)) }
    d := { d with exp := (d.exp - (1 : Int16)) }
    exp := (exp - (1 : Int16))
  if (decide (exp > (57 : Int16))) then
    if (((o.sig.w0 ||| o.sig.w1) ||| o.sig.w2) != (0 : UInt64)) then
      o := { o with sig := (default : U192) }
      trunc := (-1 : Int8)
    exp := (0 : Int16)
  while (decide (exp ≥ (4 : Int16))) do
    let mut rem_2 : UInt64 := (0 : UInt64)
    let (r_5, r_6) ← U192.div10000 o.sig
    o := { o with sig := r_5 }
    rem_2 := r_6
    if (rem_2 != (0 : UInt64)) then
      trunc := (-1 : Int8)
    if (((o.sig.w0 ||| o.sig.w1) ||| o.sig.w2) == (0 : UInt64)) then
      exp := (0 : Int16)
    else
      exp := (exp - (4 : Int16))
  while (decide (exp > (0 : Int16))) do
    let mut rem_3 : UInt64 := (0 : UInt64)
    let (r_7, r_8) ← U192.div10 o.sig
    o := { o with sig := r_7 }
    rem_3 := r_8
    if (rem_3 != (0 : UInt64)) then
      trunc := (-1 : Int8)
    if (((o.sig.w0 ||| o.sig.w1) ||| o.sig.w2) == (0 : UInt64)) then
      break
    exp := (exp - (1 : Int16))
  k d o trunc

/-- `decomposed192.sub`, the combination of the aligned significands -/
def subFin (d o : decomposed192) (trunc : Int8) : Go.GoM (Bool × decomposed192 × Int8) := do
  let mut trunc : Int8 := trunc
  let mut exp : Int16 := (0 : Int16)
  let mut neg : Bool := false
  let (r_9, r_10) := U192.sub d.sig o.sig
  let mut sig : U192 := r_9
  let mut brw : UInt64 := r_10
  exp := d.exp
  if (brw != (0 : UInt64)) then
    sig := (U192.twos sig)
    neg := true
    trunc := (trunc * (-1 : Int8))
  return (neg, ({ (default : decomposed192) with sig := sig, exp := exp } : decomposed192), trunc)

theorem sub_eq (d o : decomposed192) (trunc : Int8) :
    decomposed192.sub d o trunc =
      if d.exp - o.exp < 0 then subNeg d o trunc (d.exp - o.exp) subFin
      else if d.exp - o.exp > 0 then subPos d o trunc (d.exp - o.exp) subFin
      else subFin d o trunc := by
  by_cases h1 : d.exp - o.exp < 0
  · rw [if_pos h1]
    unfold decomposed192.sub
    simp only [h1, decide_true, if_true]
    rfl
  · rw [if_neg h1]
    by_cases h2 : d.exp - o.exp > 0
    · rw [if_pos h2]
      unfold decomposed192.sub
      simp only [h1, h2, decide_true, decide_false, if_true, if_false, Bool.false_eq_true]
      rfl
    · rw [if_neg h2]
      unfold decomposed192.sub
      simp only [h1, h2, decide_false, if_false, Bool.false_eq_true]
      rfl

end

theorem subNeg_triple {α : Type} (d o : Gen.decomposed192) (trunc : Int8) (exp : Int16)
    (k : Gen.decomposed192 → Gen.decomposed192 → Int8 → Go.GoM α) (Q : α → Prop)
    (hk : ∀ d' o' t', ⦃⌜True⌝⦄ k d' o' t' ⦃⇓ r => ⌜Q r⌝⦄) :
    ⦃⌜True⌝⦄ subNeg d o trunc exp k ⦃⇓ r => ⌜Q r⌝⦄ := by
  mvcgen [subNeg, hk]
  case inv1 | inv3 | inv5 => exact fun st => ⟨dn16 st.2⟩
  case inv2 | inv4 | inv6 => exact ⇓ _ => ⌜True⌝
  case inv7 | inv9 | inv11 | inv13 | inv15 | inv17 => exact fun st => ⟨dn16 st.2.2⟩
  case inv8 | inv10 | inv12 | inv14 | inv16 | inv18 => exact ⇓ _ => ⌜True⌝
  all_goals (simp +zetaDelta at *)
  all_goals d192_prep
  all_goals d192_fin

theorem subPos_triple {α : Type} (d o : Gen.decomposed192) (trunc : Int8) (exp : Int16)
    (k : Gen.decomposed192 → Gen.decomposed192 → Int8 → Go.GoM α) (Q : α → Prop)
    (hk : ∀ d' o' t', ⦃⌜True⌝⦄ k d' o' t' ⦃⇓ r => ⌜Q r⌝⦄) :
    ⦃⌜True⌝⦄ subPos d o trunc exp k ⦃⇓ r => ⌜Q r⌝⦄ := by
  mvcgen [subPos, hk]
  case inv1 | inv3 | inv5 => exact fun st => ⟨up16 st.2⟩
  case inv2 | inv4 | inv6 => exact ⇓ _ => ⌜True⌝
  case inv7 | inv9 | inv11 | inv13 | inv15 | inv17 => exact fun st => ⟨up16 st.2.2⟩
  case inv8 | inv10 | inv12 | inv14 | inv16 | inv18 => exact ⇓ _ => ⌜True⌝
  all_goals (simp +zetaDelta at *)
  all_goals d192_prep
  all_goals d192_fin

theorem subFin_triple (d o : Gen.decomposed192) (trunc : Int8) :
    ⦃⌜True⌝⦄ subFin d o trunc ⦃⇓ _ => ⌜True⌝⦄ := by
  mvcgen [subFin]

@[spec] theorem d192_sub_triple (d o : Gen.decomposed192) (trunc : Int8) :
    ⦃⌜True⌝⦄ Gen.decomposed192.sub d o trunc ⦃⇓ _ => ⌜True⌝⦄ := by
  rw [sub_eq]
  split
  · exact subNeg_triple d o trunc _ _ _ (fun d' o' t' => subFin_triple d' o' t')
  split
  · exact subPos_triple d o trunc _ _ _ (fun d' o' t' => subFin_triple d' o' t')
  · exact subFin_triple d o trunc

theorem d192_sub_total (d o : Gen.decomposed192) (trunc : Int8) :
    ∃ r, Gen.decomposed192.sub d o trunc = .ok r :=
  let ⟨r, h, _⟩ := ok_of_triple (d192_sub_triple d o trunc); ⟨r, h⟩

end D128.Proofs.Total
