/-
  D128/Proofs/NeverNaNPayload.lean — property C15, clause "a NaN created by an invalid operation reports,
  through Payload, the operation and the operand classes that caused it".

  Specification side (all `Spec.Val`, every mode): whenever the specified result of an operation is a NaN
  although no operand is, it is exactly `Spec.invalid2 op x y` (resp. `invalid1 op x`):
    `add_created`, `sub_created`, `mul_created`, `quo_created`, `quoRem_fst_created`, `quoRem_snd_created`,
    `special_created` (the ten unary functions), `powSpecial_created`.
  Generated code (ALL bit patterns; valid mode byte for the arithmetic operations because their correctness
  theorems are used; every `Globals` for the unary functions): the universal form
    `AddWithMode_payload`, `SubWithMode_payload`, `MulWithMode_payload`, `QuoWithMode_payload`,
    `QuoRemWithMode_payload`  : non-NaN operands, result `r`: `IsNaN r = true → Payload r = op | cls d << 8 | cls o << 16`
    `elem_payload`            : the ten unary functions: non-NaN operand, NaN result ⇒ `Payload r = op | cls d << 8`
    `Log_invalid`, `Log2_invalid`, `Log10_invalid`, `Log1p_invalid` : negative arguments (−Inf included; for
                                Log1p: below −1) DO give that NaN
    `QuoRem_invalid`          : division by zero / of an infinity: remainder (and for Inf/Inf, 0/0 the quotient)
    `PowWithMode_payload`     : valid mode, operands on which `Spec.powSpecial` decides
  and `cls d` (`NN.cls`): the class code computed from the predicates `IsNaN/isInf/IsZero/Signbit`,
  `classCode_interp : Spec.classCode 𝔳[d] = cls d`.
-/
import D128.Proofs.NeverNaNArith
import D128.Props.C18b
set_option autoImplicit false

namespace NN
open Spec

local notation "𝔳[" d "]" => Spec.interp (Gen.Decimal.lo d) (Gen.Decimal.hi d)

/-! ## operand classes from the predicates -/

/-- operand class of a bit pattern, from the exported predicates: 0 NaN, 1 +0, 2 −0, 3 +finite,
    4 −finite, 5 +Inf, 6 −Inf (the `payloadVal…` constants of payload.go) -/
def cls (d : Gen.Decimal) : UInt64 :=
  if Gen.Decimal.IsNaN d then 0
  else if Gen.Decimal.isInf d then (if Gen.Decimal.Signbit d then 6 else 5)
  else if Gen.Decimal.IsZero d then (if Gen.Decimal.Signbit d then 2 else 1)
  else (if Gen.Decimal.Signbit d then 4 else 3)

theorem classCode_interp (d : Gen.Decimal) : classCode 𝔳[d] = cls d := by
  unfold cls
  rcases Sp.view d with ⟨a1, a2, a3, a4, av⟩ | ⟨a1, a2, a3, a4, av⟩ | ⟨a1, a2, a3, a4, a5, ac, av⟩ |
    ⟨a1, a2, a3, a4, a5, ac, ab, av⟩
  · rw [av, a1]; rfl
  · rw [av, a1, a2]; rfl
  · rw [av, a1, a2, a4]; rfl
  · rw [av, a1, a2, a4, Sp.classCode_fin _ _ _ ac]; rfl

/-! ## specification side: a NaN that is not propagated is `invalid…` -/

theorem add_created (m : Mode) (x y : Val) (hx : x.isNaN = false) (hy : y.isNaN = false)
    (h : (add m x y).isNaN = true) : add m x y = invalid2 .add x y := by
  cases x with
  | nan n p => cases hx
  | inf n =>
    cases y with
    | nan n' p' => cases hy
    | inf n' =>
      cases n <;> cases n' <;> simp [add, addCore, Val.isNaN] at h ⊢
    | fin n' c' e' => simp [add, addCore, Val.isNaN] at h
  | fin n c e =>
    cases y with
    | nan n' p' => cases hy
    | inf n' => simp [add, addCore, Val.isNaN] at h
    | fin n' c' e' => rw [add_fin] at h; cases h

theorem sub_created (m : Mode) (x y : Val) (hx : x.isNaN = false) (hy : y.isNaN = false)
    (h : (sub m x y).isNaN = true) : sub m x y = invalid2 .sub x y := by
  cases x with
  | nan n p => cases hx
  | inf n =>
    cases y with
    | nan n' p' => cases hy
    | inf n' =>
      cases n <;> cases n' <;> simp [sub, addCore, negate, Val.isNaN] at h ⊢
    | fin n' c' e' => simp [sub, addCore, negate, Val.isNaN] at h
  | fin n c e =>
    cases y with
    | nan n' p' => cases hy
    | inf n' => simp [sub, addCore, negate, Val.isNaN] at h
    | fin n' c' e' => rw [sub_fin] at h; cases h

theorem mul_created (m : Mode) (x y : Val) (hx : x.isNaN = false) (hy : y.isNaN = false)
    (h : (mul m x y).isNaN = true) : mul m x y = invalid2 .mul x y := by
  cases x with
  | nan n p => cases hx
  | inf n =>
    cases y with
    | nan n' p' => cases hy
    | inf n' => simp [mul, Val.isNaN] at h
    | fin n' c' e' =>
      cases c' with
      | zero => simp [mul]
      | succ k => simp [mul, Val.isNaN] at h
  | fin n c e =>
    cases y with
    | nan n' p' => cases hy
    | inf n' =>
      cases c with
      | zero => simp [mul]
      | succ k => simp [mul, Val.isNaN] at h
    | fin n' c' e' => rw [mul_fin] at h; cases h

theorem quo_created (m : Mode) (x y : Val) (hx : x.isNaN = false) (hy : y.isNaN = false)
    (h : (quo m x y).isNaN = true) : quo m x y = invalid2 .quo x y := by
  cases x with
  | nan n p => cases hx
  | inf n =>
    cases y with
    | nan n' p' => cases hy
    | inf n' => simp [quo]
    | fin n' c' e' => simp [quo, Val.isNaN] at h
  | fin n c e =>
    cases y with
    | nan n' p' => cases hy
    | inf n' => simp [quo, Val.isNaN] at h
    | fin n' c' e' =>
      cases c' with
      | zero =>
        cases c with
        | zero => simp [quo]
        | succ k => simp [quo, Val.isNaN] at h
      | succ k' => rw [quo_fin m n n' c (k' + 1) e e' (Or.inr (by omega))] at h; cases h

theorem quoRem_fst_created (m : Mode) (x y : Val) (hx : x.isNaN = false) (hy : y.isNaN = false)
    (h : (quoRem m x y).1.isNaN = true) : (quoRem m x y).1 = invalid2 .quoRem x y := by
  rw [quoRem_fst_isNaN, hx, hy] at h
  cases x with
  | nan n p => cases hx
  | inf n =>
    cases y with
    | nan n' p' => cases hy
    | inf n' => simp [quoRem]
    | fin n' c' e' => simp [Val.isInf, Val.isZero] at h
  | fin n c e =>
    cases y with
    | nan n' p' => cases hy
    | inf n' => simp [Val.isInf, Val.isZero] at h
    | fin n' c' e' =>
      cases c' with
      | zero =>
        cases c with
        | zero => simp [quoRem]
        | succ k => simp [Val.isInf, Val.isZero] at h
      | succ k' => simp [Val.isInf, Val.isZero] at h

theorem quoRem_snd_created (m : Mode) (x y : Val) (hx : x.isNaN = false) (hy : y.isNaN = false)
    (h : (quoRem m x y).2.isNaN = true) : (quoRem m x y).2 = invalid2 .quoRem x y := by
  rw [quoRem_snd_isNaN, hx, hy] at h
  cases x with
  | nan n p => cases hx
  | inf n =>
    cases y with
    | nan n' p' => cases hy
    | inf n' => simp [quoRem]
    | fin n' c' e' => simp [quoRem]
  | fin n c e =>
    cases y with
    | nan n' p' => cases hy
    | inf n' => simp [Val.isInf, Val.isZero] at h
    | fin n' c' e' =>
      cases c' with
      | zero =>
        cases c with
        | zero => simp [quoRem]
        | succ k => simp [quoRem]
      | succ k' => simp [Val.isInf, Val.isZero] at h

/-- the table of the unary functions: a NaN entry for a non-NaN operand is `invalid1 f.op x` -/
theorem special_created (f : Fn) (x w : Val) (hx : x.isNaN = false)
    (h : specialCase f x = some w) (hw : w.isNaN = true) : w = invalid1 f.op x := by
  cases x with
  | nan n p => cases hx
  | inf n =>
    cases n <;> cases f <;> simp only [specialCase, if_true, Bool.false_eq_true, if_false,
      Option.some.injEq] at h <;> subst h <;> first | rfl | cases hw
  | fin n c e =>
    simp only [specialCase] at h
    split at h
    · cases f <;> simp only [Option.some.injEq] at h <;> subst h <;> cases hw
    · split at h
      · cases f
        case log1p =>
          simp only at h
          split at h
          · simp only [Option.some.injEq] at h; subst h; cases hw
          · split at h
            · simp only [Option.some.injEq] at h; subst h; rfl
            · cases h
        all_goals first
          | (simp only [Option.some.injEq] at h; subst h; rfl)
          | cases h
      · cases h

/-! ## generated code: the arithmetic operations -/

theorem payload_of_created (r : Gen.Decimal) (op : Op) (d o : Gen.Decimal) (w : Val)
    (hs : (𝔳[r]).same w = true) (hw : w = invalid2 op 𝔳[d] 𝔳[o]) :
    Gen.Decimal.Payload_ r = .ok (op.code ||| cls d <<< 8 ||| cls o <<< 16) := by
  rw [← classCode_interp, ← classCode_interp]
  apply Sp.payload_of_same r false
  rw [hw] at hs; exact hs

theorem AddWithMode_payload (d o : Gen.Decimal) (rm : UInt8) (m : Mode)
    (hm : Mode.ofNat? rm.toNat = some m)
    (hd : Gen.Decimal.IsNaN d = false) (ho : Gen.Decimal.IsNaN o = false) :
    ∃ r, Gen.Decimal.AddWithMode d o rm = .ok r ∧
      (Gen.Decimal.IsNaN r = true →
        Gen.Decimal.Payload_ r = .ok (Op.add.code ||| cls d <<< 8 ||| cls o <<< 16)) := by
  obtain ⟨r, hr, hs⟩ := Props.C01.add_correct d o rm m hm
  refine ⟨r, hr, fun hn => payload_of_created r .add d o _ hs ?_⟩
  exact add_created m _ _ (by rw [Enc.interp_isNaN, hd]) (by rw [Enc.interp_isNaN, ho])
    (by rw [← nan_of_same r _ hs, hn])

theorem SubWithMode_payload (d o : Gen.Decimal) (rm : UInt8) (m : Mode)
    (hm : Mode.ofNat? rm.toNat = some m)
    (hd : Gen.Decimal.IsNaN d = false) (ho : Gen.Decimal.IsNaN o = false) :
    ∃ r, Gen.Decimal.SubWithMode d o rm = .ok r ∧
      (Gen.Decimal.IsNaN r = true →
        Gen.Decimal.Payload_ r = .ok (Op.sub.code ||| cls d <<< 8 ||| cls o <<< 16)) := by
  obtain ⟨r, hr, hs⟩ := Props.C01.sub_correct d o rm m hm
  refine ⟨r, hr, fun hn => payload_of_created r .sub d o _ hs ?_⟩
  exact sub_created m _ _ (by rw [Enc.interp_isNaN, hd]) (by rw [Enc.interp_isNaN, ho])
    (by rw [← nan_of_same r _ hs, hn])

theorem MulWithMode_payload (d o : Gen.Decimal) (rm : UInt8) (m : Mode)
    (hm : Mode.ofNat? rm.toNat = some m)
    (hd : Gen.Decimal.IsNaN d = false) (ho : Gen.Decimal.IsNaN o = false) :
    ∃ r, Gen.Decimal.MulWithMode d o rm = .ok r ∧
      (Gen.Decimal.IsNaN r = true →
        Gen.Decimal.Payload_ r = .ok (Op.mul.code ||| cls d <<< 8 ||| cls o <<< 16)) := by
  obtain ⟨r, hr, hs⟩ := Props.C02.mul_correct d o rm m hm
  refine ⟨r, hr, fun hn => payload_of_created r .mul d o _ hs ?_⟩
  exact mul_created m _ _ (by rw [Enc.interp_isNaN, hd]) (by rw [Enc.interp_isNaN, ho])
    (by rw [← nan_of_same r _ hs, hn])

theorem QuoWithMode_payload (d o : Gen.Decimal) (rm : UInt8) (m : Mode)
    (hm : Mode.ofNat? rm.toNat = some m)
    (hd : Gen.Decimal.IsNaN d = false) (ho : Gen.Decimal.IsNaN o = false) :
    ∃ r, Gen.Decimal.QuoWithMode d o rm = .ok r ∧
      (Gen.Decimal.IsNaN r = true →
        Gen.Decimal.Payload_ r = .ok (Op.quo.code ||| cls d <<< 8 ||| cls o <<< 16)) := by
  obtain ⟨r, hr, hs⟩ := Props.C02.quo_correct d o rm m hm
  refine ⟨r, hr, fun hn => payload_of_created r .quo d o _ hs ?_⟩
  exact quo_created m _ _ (by rw [Enc.interp_isNaN, hd]) (by rw [Enc.interp_isNaN, ho])
    (by rw [← nan_of_same r _ hs, hn])

theorem QuoRemWithMode_payload (d o : Gen.Decimal) (rm : UInt8) (m : Mode)
    (hm : Mode.ofNat? rm.toNat = some m)
    (hd : Gen.Decimal.IsNaN d = false) (ho : Gen.Decimal.IsNaN o = false) :
    ∃ q r, Gen.Decimal.QuoRemWithMode d o rm = .ok (q, r) ∧
      (Gen.Decimal.IsNaN q = true →
        Gen.Decimal.Payload_ q = .ok (Op.quoRem.code ||| cls d <<< 8 ||| cls o <<< 16)) ∧
      (Gen.Decimal.IsNaN r = true →
        Gen.Decimal.Payload_ r = .ok (Op.quoRem.code ||| cls d <<< 8 ||| cls o <<< 16)) := by
  obtain ⟨q, r, hr, hq, hs⟩ := Props.C03.quoRem_correct d o rm m hm
  have hx : (𝔳[d]).isNaN = false := by rw [Enc.interp_isNaN, hd]
  have hy : (𝔳[o]).isNaN = false := by rw [Enc.interp_isNaN, ho]
  refine ⟨q, r, hr, fun hn => payload_of_created q .quoRem d o _ hq ?_,
    fun hn => payload_of_created r .quoRem d o _ hs ?_⟩
  · exact quoRem_fst_created m _ _ hx hy (by rw [← nan_of_same q _ hq, hn])
  · exact quoRem_snd_created m _ _ hx hy (by rw [← nan_of_same r _ hs, hn])

/-- `QuoRem` of an infinity or by a zero, EVERY mode byte (these are prologue branches): the remainder is
    the NaN of the invalid operation; for Inf ÷ Inf and 0 ÷ 0 so is the quotient -/
theorem QuoRem_invalid (d o : Gen.Decimal) (rm : UInt8)
    (hd : Gen.Decimal.IsNaN d = false) (ho : Gen.Decimal.IsNaN o = false)
    (h : Gen.Decimal.isInf d = true ∨ Gen.Decimal.IsZero o = true) :
    ∃ q r, Gen.Decimal.QuoRemWithMode d o rm = .ok (q, r) ∧
      Gen.Decimal.IsNaN r = true ∧
      Gen.Decimal.Payload_ r = .ok (Op.quoRem.code ||| cls d <<< 8 ||| cls o <<< 16) ∧
      (((Gen.Decimal.isInf d = true ∧ Gen.Decimal.isInf o = true) ∨
        (Gen.Decimal.IsZero d = true ∧ Gen.Decimal.IsZero o = true)) →
        Gen.Decimal.IsNaN q = true ∧
        Gen.Decimal.Payload_ q = .ok (Op.quoRem.code ||| cls d <<< 8 ||| cls o <<< 16)) := by
  have hpro : Gen.Decimal.isSpecial d = true ∨ Gen.Decimal.isSpecial o = true ∨
      Gen.Decimal.IsZero d = true ∨ Gen.Decimal.IsZero o = true := by
    rcases h with h | h
    · left; rw [Enc.isSpecial_iff, h, Bool.or_true]
    · right; right; right; exact h
  obtain ⟨q, r, hr, hq, hs⟩ := Props.C15.quoRem_prologue d o rm .nearestEven hpro
  have hx : (𝔳[d]).isNaN = false := by rw [Enc.interp_isNaN, hd]
  have hy : (𝔳[o]).isNaN = false := by rw [Enc.interp_isNaN, ho]
  have hrn : (quoRem .nearestEven 𝔳[d] 𝔳[o]).2.isNaN = true := by
    rw [quoRem_snd_isNaN, Enc.interp_isInf, Enc.interp_isZero]
    rcases h with h | h <;> rw [h] <;> simp
  refine ⟨q, r, hr, by rw [nan_of_same r _ hs, hrn],
    payload_of_created r .quoRem d o _ hs (quoRem_snd_created _ _ _ hx hy hrn), fun h2 => ?_⟩
  have hqn : (quoRem .nearestEven 𝔳[d] 𝔳[o]).1.isNaN = true := by
    rw [quoRem_fst_isNaN, Enc.interp_isInf, Enc.interp_isInf, Enc.interp_isZero, Enc.interp_isZero]
    rcases h2 with ⟨h3, h4⟩ | ⟨h3, h4⟩ <;> rw [h3, h4] <;> simp
  exact ⟨by rw [nan_of_same q _ hq, hqn],
    payload_of_created q .quoRem d o _ hq (quoRem_fst_created _ _ _ hx hy hqn)⟩

/-! ## generated code: the unary elementary functions -/

theorem payload1_of_created (r : Gen.Decimal) (op : Op) (d : Gen.Decimal) (w : Val)
    (hs : (𝔳[r]).same w = true) (hw : w = invalid1 op 𝔳[d]) :
    Gen.Decimal.Payload_ r = .ok (op.code ||| cls d <<< 8 ||| (0 : UInt64) <<< 16) := by
  rw [← classCode_interp]
  apply Sp.payload_of_same r false
  rw [hw] at hs; exact hs

/-- all ten functions, every `Globals`, every bit pattern decided by the table `Spec.specialCase`: if the
    operand is not a NaN but the result is, the payload is `op | cls d << 8` with `op` the code of the
    function (`Spec.Fn.op`) -/
theorem elem_payload (fn : Fn) (g : Globals) (d : Gen.Decimal) (w : Val)
    (hd : Gen.Decimal.IsNaN d = false) (h : specialCase fn 𝔳[d] = some w) (hw : w.isNaN = true) :
    ∃ r, Props.C15.impl fn g d = .ok r ∧ Gen.Decimal.IsNaN r = true ∧
      Gen.Decimal.Payload_ r = .ok (fn.op.code ||| cls d <<< 8 ||| (0 : UInt64) <<< 16) := by
  have hz : fn = .expm1 → ¬ (Gen.Decimal.IsZero d = true ∧ Gen.Decimal.Signbit d = true) := by
    rintro rfl ⟨hz, hs⟩
    rcases Sp.view d with ⟨_, _, _, a4, _⟩ | ⟨_, _, _, a4, _⟩ | ⟨_, _, _, _, _, _, av⟩ | ⟨_, _, _, a4, _, _, _, _⟩
    all_goals try (rw [hz] at a4; cases a4)
    rw [av] at h
    simp only [specialCase, beq_self_eq_true, if_true, Option.some.injEq] at h
    subst h; cases hw
  obtain ⟨r, hr, hs⟩ := Props.C15.elem_special fn g d w hz h
  exact ⟨r, hr, by rw [nan_of_same r _ hs, hw],
    payload1_of_created r fn.op d w hs
      (special_created fn _ w (by rw [Enc.interp_isNaN, hd]) h hw)⟩

/-- a negative non-zero argument (−Inf included) of `Log`, `Log2`, `Log10`: the NaN of the invalid
    operation with payload `op | cls d << 8` -/
theorem log_family_invalid (fn : Fn) (hf : fn = .log ∨ fn = .log2 ∨ fn = .log10) (g : Globals)
    (d : Gen.Decimal) (hd : Gen.Decimal.IsNaN d = false) (hs : Gen.Decimal.Signbit d = true)
    (hz : Gen.Decimal.IsZero d = false) :
    ∃ r, Props.C15.impl fn g d = .ok r ∧ Gen.Decimal.IsNaN r = true ∧
      Gen.Decimal.Payload_ r = .ok (fn.op.code ||| cls d <<< 8 ||| (0 : UInt64) <<< 16) := by
  have key : specialCase fn 𝔳[d] = some (invalid1 fn.op 𝔳[d]) := by
    rcases Sp.view d with ⟨a1, _, _, _, _⟩ | ⟨_, _, _, _, av⟩ | ⟨_, _, _, a4, _, _, _⟩ | ⟨_, _, _, _, _, _, ab, av⟩
    · rw [hd] at a1; cases a1
    · rw [av, hs]; rcases hf with rfl | rfl | rfl <;> rfl
    · rw [hz] at a4; cases a4
    · rw [av, hs]
      rcases hf with rfl | rfl | rfl <;> simp only [specialCase, ab, Bool.false_eq_true, if_false, if_true]
  exact elem_payload fn g d _ hd key rfl

theorem Log_invalid (g : Globals) (d : Gen.Decimal) (hd : Gen.Decimal.IsNaN d = false)
    (hs : Gen.Decimal.Signbit d = true) (hz : Gen.Decimal.IsZero d = false) :
    ∃ r, Gen.Log g d = .ok r ∧ Gen.Decimal.IsNaN r = true ∧
      Gen.Decimal.Payload_ r = .ok (Op.log.code ||| cls d <<< 8 ||| (0 : UInt64) <<< 16) :=
  log_family_invalid .log (Or.inl rfl) g d hd hs hz
theorem Log2_invalid (g : Globals) (d : Gen.Decimal) (hd : Gen.Decimal.IsNaN d = false)
    (hs : Gen.Decimal.Signbit d = true) (hz : Gen.Decimal.IsZero d = false) :
    ∃ r, Gen.Log2 g d = .ok r ∧ Gen.Decimal.IsNaN r = true ∧
      Gen.Decimal.Payload_ r = .ok (Op.log2.code ||| cls d <<< 8 ||| (0 : UInt64) <<< 16) :=
  log_family_invalid .log2 (Or.inr (Or.inl rfl)) g d hd hs hz
theorem Log10_invalid (g : Globals) (d : Gen.Decimal) (hd : Gen.Decimal.IsNaN d = false)
    (hs : Gen.Decimal.Signbit d = true) (hz : Gen.Decimal.IsZero d = false) :
    ∃ r, Gen.Log10 g d = .ok r ∧ Gen.Decimal.IsNaN r = true ∧
      Gen.Decimal.Payload_ r = .ok (Op.log10.code ||| cls d <<< 8 ||| (0 : UInt64) <<< 16) :=
  log_family_invalid .log10 (Or.inr (Or.inr rfl)) g d hd hs hz

/-- `Log1p` below −1 (−Inf included) -/
theorem Log1p_invalid (g : Globals) (d : Gen.Decimal)
    (h : 𝔳[d] = .inf true ∨ ∃ c e, 𝔳[d] = .fin true c e ∧ 1 < mag c e) :
    ∃ r, Gen.Log1p g d = .ok r ∧ Gen.Decimal.IsNaN r = true ∧
      Gen.Decimal.Payload_ r = .ok (Op.log1p.code ||| cls d <<< 8 ||| (0 : UInt64) <<< 16) := by
  have hd : Gen.Decimal.IsNaN d = false := by
    rw [← Enc.interp_isNaN]
    rcases h with h | ⟨c, e, h, -⟩ <;> rw [h] <;> rfl
  have key : specialCase .log1p 𝔳[d] = some (invalid1 Fn.log1p.op 𝔳[d]) := by
    rcases h with h | ⟨c, e, h, hm⟩
    · rw [h]; rfl
    · rw [h]
      have hc : (c == 0) = false := by
        cases c with
        | zero => exfalso; simp [mag] at hm; linarith
        | succ k => simp
      have h1 : (mag c e == 1) = false := by
        rw [beq_eq_false_iff_ne]; exact ne_of_gt hm
      simp only [specialCase, hc, Bool.false_eq_true, if_false, if_true, h1]
      rw [if_pos (by simpa using hm)]
      rfl
  exact elem_payload .log1p g d _ hd key rfl

/-! ## Pow -/

theorem isNaN_fin (n : Bool) (c : Nat) (e : Int) : (Val.fin n c e).isNaN = false := rfl
theorem isNaN_inf (n : Bool) : (Val.inf n).isNaN = false := rfl
theorem isNaN_posOne : posOne.isNaN = false := rfl
theorem isInf_posOne : posOne.isInf = false := rfl
theorem isZero_posOne : posOne.isZero = false := rfl
theorem isInf_fin (n : Bool) (c : Nat) (e : Int) : (Val.fin n c e).isInf = false := rfl
theorem isInf_inf (n : Bool) : (Val.inf n).isInf = true := rfl
theorem isZero_inf (n : Bool) : (Val.inf n).isZero = false := rfl

set_option hygiene false in
/-- a leaf of `powSpecial`: either the invalid-operation NaN itself or a value that is not a NaN -/
local macro "pow_leaf" : tactic => `(tactic|
  (first
    | rfl
    | (exfalso; revert hw;
       simp only [apply_ite Val.isNaN, isNaN_fin, isNaN_inf, isNaN_posOne, ite_self, quo_isNaN,
         flushOrRoundS_not_nan, exactOrInfS_not_nan, isInf_posOne, isZero_posOne, isInf_fin, isInf_inf,
         isZero_inf, Bool.false_or, Bool.or_false,
         Bool.false_and, Bool.and_false, Bool.false_eq_true, not_false_eq_true, imp_self, reduceCtorEq]
       )))

set_option hygiene false in
local macro "pow_split" : tactic => `(tactic|
  (unfold powSpecial at h
   dsimp only at h
   repeat' split at h
   all_goals first | cases h | (simp only [Option.some.injEq] at h; subst h)
   all_goals pow_leaf))

theorem pc_inf_inf (m : Mode) (xn yn : Bool) (w : Val)
    (h : powSpecial m (.inf xn) (.inf yn) = some w) (hw : w.isNaN = true) :
    w = invalid2 .pow (.inf xn) (.inf yn) := by pow_split
theorem pc_inf_fin (m : Mode) (xn yn : Bool) (yc : Nat) (ye : Int) (w : Val)
    (h : powSpecial m (.inf xn) (.fin yn yc ye) = some w) (hw : w.isNaN = true) :
    w = invalid2 .pow (.inf xn) (.fin yn yc ye) := by pow_split
theorem pc_fin_inf (m : Mode) (xn yn : Bool) (xc : Nat) (xe : Int) (w : Val)
    (h : powSpecial m (.fin xn xc xe) (.inf yn) = some w) (hw : w.isNaN = true) :
    w = invalid2 .pow (.fin xn xc xe) (.inf yn) := by cases xn <;> pow_split
set_option maxHeartbeats 1000000 in
theorem pc_fin_fin_pos (m : Mode) (yn : Bool) (xc : Nat) (xe : Int) (yc : Nat) (ye : Int) (w : Val)
    (h : powSpecial m (.fin false xc xe) (.fin yn yc ye) = some w) (hw : w.isNaN = true) :
    w = invalid2 .pow (.fin false xc xe) (.fin yn yc ye) := by pow_split
set_option maxHeartbeats 1000000 in
theorem pc_fin_fin_neg (m : Mode) (yn : Bool) (xc : Nat) (xe : Int) (yc : Nat) (ye : Int) (w : Val)
    (h : powSpecial m (.fin true xc xe) (.fin yn yc ye) = some w) (hw : w.isNaN = true) :
    w = invalid2 .pow (.fin true xc xe) (.fin yn yc ye) := by pow_split

/-- wherever `Spec.powSpecial` decides: a NaN result from non-NaN operands is `invalid2 .pow x y` -/
theorem powSpecial_created (m : Mode) (x y w : Val) (hx : x.isNaN = false) (hy : y.isNaN = false)
    (h : powSpecial m x y = some w) (hw : w.isNaN = true) : w = invalid2 .pow x y := by
  cases x with
  | nan n p => cases hx
  | inf xn =>
    cases y with
    | nan n p => cases hy
    | inf yn => exact pc_inf_inf m xn yn w h hw
    | fin yn yc ye => exact pc_inf_fin m xn yn yc ye w h hw
  | fin xn xc xe =>
    cases y with
    | nan n p => cases hy
    | inf yn => exact pc_fin_inf m xn yn xc xe w h hw
    | fin yn yc ye =>
      cases xn
      · exact pc_fin_fin_pos m yn xc xe yc ye w h hw
      · exact pc_fin_fin_neg m yn xc xe yc ye w h hw

/-- `PowWithMode`, valid mode byte, all operands on which `Spec.powSpecial` decides (in particular a
    negative finite base with a non-integer exponent, the only invalid case): a NaN result from non-NaN
    operands carries the payload `pow | cls d << 8 | cls o << 16` -/
theorem PowWithMode_payload (d o : Gen.Decimal) (rm : UInt8) (m : Mode) (w : Val)
    (hm : Mode.ofNat? rm.toNat = some m)
    (hd : Gen.Decimal.IsNaN d = false) (ho : Gen.Decimal.IsNaN o = false)
    (hw : powSpecial m 𝔳[d] 𝔳[o] = some w) :
    ∃ r, Gen.Decimal.PowWithMode d o rm = .ok r ∧
      (Gen.Decimal.IsNaN r = true →
        Gen.Decimal.Payload_ r = .ok (Op.pow.code ||| cls d <<< 8 ||| cls o <<< 16)) := by
  obtain ⟨r, hr, hs⟩ := Props.C18b.pow_special_correct d o rm m w hm hw
  refine ⟨r, hr, fun hn => payload_of_created r .pow d o _ hs ?_⟩
  exact powSpecial_created m _ _ w (by rw [Enc.interp_isNaN, hd]) (by rw [Enc.interp_isNaN, ho]) hw
    (by rw [← nan_of_same r _ hs, hn])

/-- negative finite base, non-integer finite exponent — EVERY mode byte: the NaN with payload
    `pow | 4 << 8 | cls o << 16` (re-export of `Props.C18b.pow_neg_base_nonint` with the decoded payload) -/
theorem Pow_invalid (d o : Gen.Decimal) (rm : UInt8) (xc : Nat) (xe : Int) (yn : Bool) (yc : Nat)
    (ye : Int) (hx : 𝔳[d] = .fin true xc xe) (hx0 : xc ≠ 0) (hy : 𝔳[o] = .fin yn yc ye) (hy0 : yc ≠ 0)
    (hni : PowPf.isIntQ (mag yc ye) = false) :
    ∃ r, Gen.Decimal.PowWithMode d o rm = .ok r ∧ Gen.Decimal.IsNaN r = true ∧
      Gen.Decimal.Payload_ r = .ok (Op.pow.code ||| cls d <<< 8 ||| cls o <<< 16) ∧
      𝔳[r] = invalid2 .pow 𝔳[d] 𝔳[o] := by
  obtain ⟨h1, -, h3⟩ := Props.C18b.pow_neg_base_nonint d o rm .nearestEven xc xe yn yc ye hx hx0 hy hy0 hni
  refine ⟨_, h1, Enc.IsNaN_nan _ _ _, ?_, h3⟩
  exact payload_of_created _ .pow d o _ (by rw [h3]; exact Sp.same_refl _) rfl

end NN
