/-
  D128/Proofs/Specials.lean — special operands (NaN, ±Inf, ±0) of the binary arithmetic
  prologues (property C15): foundations, case-analysis tactics, the special-operand branches of
  `AddWithMode`, `SubWithMode`, `MulWithMode`, `QuoWithMode`, `QuoRemWithMode`, and the wrappers.
  Everything is about the generated definitions `Gen.*`, for ALL bit patterns.

  Notation: 𝔳[d] = Spec.interp d.lo d.hi.

  Foundations
  * `mag_zero`, `or_beq_zero` (the `(w0 ||| w1) == 0` test is `toNat = 0`), `IsZero_eq_sig`, `sigz_eq`
  * `view_nan`, `view_inf`, `View`, `view` : every pattern is NaN / Inf / zero / non-zero finite, with the
    values of all class tests of the code and the constructor form of 𝔳[d]
  * `classCode_fin`, `classCode_zero`, `classCode_inf`, `same_refl`, `same_zero`
  * `interp_compose` : 𝔳[compose neg sig exp] = .fin neg sig.toNat (exp - 6176) for in-range fields
  * tactics `view2`, `tests2`, `signs2`, `specs2 [...]`
  Target 1 (binary operation with a special operand, every mode byte, every Spec.Mode)
  * `AddWithMode_special`, `SubWithMode_special`, `MulWithMode_special`, `QuoWithMode_special`,
    `QuoRemWithMode_special` : ∃ r, op d o m = .ok r ∧ 𝔳[r].same (Spec.op m' 𝔳[d] 𝔳[o])
  * NaN propagation bit for bit: `AddWithMode_nan_left/right`, `SubWithMode_nan_left/right`,
    `MulWithMode_nan_left/right`, `QuoWithMode_nan_left/right`, `QuoRemWithMode_nan_left/right`
  Wrappers
  * `bind_pure_eq`, `Add_eq`, `Sub_eq`, `Mul_eq`, `Quo_eq`, `QuoRem_eq`, `Pow_eq`
-/
import D128.Proofs.Encoding
import D128.Gen.Arith2
import D128.Gen.Exp
import D128.Gen.Compare2
import D128.Spec.Elem
set_option autoImplicit false
set_option linter.unusedSimpArgs false

namespace Sp
local notation "𝔳[" d "]" => Spec.interp (Gen.Decimal.lo d) (Gen.Decimal.hi d)

theorem mag_zero (e : Int) : Spec.mag 0 e = 0 := by
  simp [Spec.mag]

theorem or_beq_zero (s : U128) : ((s.w0 ||| s.w1) == (0 : UInt64)) = decide (s.toNat = 0) := by
  rw [Enc.beq_iff_toNat, UInt64.toNat_or]
  simp only [UInt64.toNat_ofNat, U128.toNat]
  congr 1; apply propext
  constructor
  · intro h
    have h0 : s.w0.toNat = 0 := Nat.or_eq_zero_iff.mp h |>.1
    have h1 : s.w1.toNat = 0 := Nat.or_eq_zero_iff.mp h |>.2
    omega
  · intro h
    have h0 : s.w0.toNat = 0 := by omega
    have h1 : s.w1.toNat = 0 := by omega
    rw [h0, h1]; rfl

theorem view_nan (d : Gen.Decimal) (h : Gen.Decimal.IsNaN d = true) :
    𝔳[d] = .nan (Gen.Decimal.Signbit d) d.lo := by
  rw [Enc.IsNaN_eq] at h
  simp only [decide_eq_true_eq] at h
  rw [Enc.interp_eq, Enc.Signbit_eq, if_pos h]

theorem view_inf (d : Gen.Decimal) (h : Gen.Decimal.isInf d = true) :
    𝔳[d] = .inf (Gen.Decimal.Signbit d) := by
  rw [Enc.isInf_eq] at h
  simp only [decide_eq_true_eq] at h
  rw [Enc.interp_eq, Enc.Signbit_eq, if_neg (by omega), if_pos h]

theorem IsZero_eq_sig (d : Gen.Decimal) :
    Gen.Decimal.IsZero d = decide ((Gen.Decimal.decompose d).1.toNat = 0) := by
  rw [Enc.IsZero_eq, Enc.decompose_sig_toNat]
  have := d.lo.toNat_lt
  congr 1; apply propext
  split <;> omega

/-- coefficient and exponent of a finite pattern -/
abbrev cf (d : Gen.Decimal) : Nat := (Gen.Decimal.decompose d).1.toNat
abbrev ex (d : Gen.Decimal) : Int := (Gen.Decimal.decompose d).2.toInt - 6176
/-- the zero test the finite paths use -/
abbrev sigz (d : Gen.Decimal) : Bool :=
  (((Gen.Decimal.decompose d).1.w0 ||| (Gen.Decimal.decompose d).1.w1) == (0 : UInt64))

theorem sigz_eq (d : Gen.Decimal) : sigz d = Gen.Decimal.IsZero d := by
  rw [sigz, or_beq_zero, IsZero_eq_sig]

/-- the four operand classes, each with the boolean tests the code uses and the denoted value -/
inductive View (d : Gen.Decimal) : Prop
  | nan (h1 : Gen.Decimal.IsNaN d = true) (h2 : Gen.Decimal.isInf d = false)
      (h3 : Gen.Decimal.isSpecial d = true) (h4 : Gen.Decimal.IsZero d = false)
      (hv : 𝔳[d] = .nan (Gen.Decimal.Signbit d) d.lo)
  | inf (h1 : Gen.Decimal.IsNaN d = false) (h2 : Gen.Decimal.isInf d = true)
      (h3 : Gen.Decimal.isSpecial d = true) (h4 : Gen.Decimal.IsZero d = false)
      (hv : 𝔳[d] = .inf (Gen.Decimal.Signbit d))
  | zero (h1 : Gen.Decimal.IsNaN d = false) (h2 : Gen.Decimal.isInf d = false)
      (h3 : Gen.Decimal.isSpecial d = false) (h4 : Gen.Decimal.IsZero d = true)
      (h5 : sigz d = true) (hc : cf d = 0)
      (hv : 𝔳[d] = .fin (Gen.Decimal.Signbit d) 0 (ex d))
  | fin (h1 : Gen.Decimal.IsNaN d = false) (h2 : Gen.Decimal.isInf d = false)
      (h3 : Gen.Decimal.isSpecial d = false) (h4 : Gen.Decimal.IsZero d = false)
      (h5 : sigz d = false) (hc : cf d ≠ 0) (hb : (cf d == 0) = false)
      (hv : 𝔳[d] = .fin (Gen.Decimal.Signbit d) (cf d) (ex d))

theorem view (d : Gen.Decimal) : View d := by
  rcases Enc.classify_partition d with ⟨a, b, c, e⟩ | ⟨a, b, c, e⟩ | ⟨a, b, c, e⟩ | ⟨a, b, c, e⟩
  · exact .nan a b c e (view_nan d a)
  · exact .inf a b c e (view_inf d b)
  · have hc : cf d = 0 := by
      have := IsZero_eq_sig d; rw [e] at this; simpa using this.symm
    refine .zero a b c e (by rw [sigz_eq, e]) hc ?_
    rw [Enc.interp_decompose d c]; show Spec.Val.fin _ (cf d) _ = _; rw [hc]
  · have hc : cf d ≠ 0 := by
      have := IsZero_eq_sig d; rw [e] at this; simpa using this.symm
    exact .fin a b c e (by rw [sigz_eq, e]) hc (by simpa using hc) (Enc.interp_decompose d c)

theorem classCode_fin (n : Bool) (c : Nat) (e : Int) (h : c ≠ 0) :
    Spec.classCode (.fin n c e) = if n then 4 else 3 := by
  cases c with
  | zero => exact absurd rfl h
  | succ k => rfl

theorem classCode_zero (n : Bool) (e : Int) :
    Spec.classCode (.fin n 0 e) = if n then 2 else 1 := rfl

theorem beq_tf : (true == false) = false := rfl
theorem beq_ft : (false == true) = false := rfl

theorem classCode_inf (n : Bool) : Spec.classCode (.inf n) = if n then 6 else 5 := rfl

theorem same_refl (x : Spec.Val) : x.same x = true := by
  cases x <;> simp [Spec.Val.same]

theorem same_zero (n : Bool) (e e' : Int) : (Spec.Val.fin n 0 e).same (.fin n 0 e') = true := by
  simp [Spec.Val.same, mag_zero]



/-- the value of a composed finite pattern -/
theorem interp_compose (neg : Bool) (sig : U128) (exp : Int16)
    (hs : sig.toNat ≤ Spec.Cmax) (h0 : 0 ≤ exp.toInt) (h1 : exp.toInt ≤ 12287) :
    𝔳[Gen.compose neg sig exp] = .fin neg sig.toNat (exp.toInt - 6176) := by
  rw [Enc.interp_decompose _ (Enc.isSpecial_compose neg sig exp hs h0 h1),
    Enc.Signbit_compose neg sig exp hs h0 h1, Enc.decompose_compose neg sig exp hs h0 h1]


/-! ## tactics for the operand-class case analysis (hypothesis names are fixed: a* for `d`, b* for `o`) -/

set_option hygiene false in
/-- split both operands into their four classes; discharge the finite×finite cases with `h` -/
macro "view2" : tactic => `(tactic| (
  rcases view d with ⟨a1, a2, a3, a4, av⟩ | ⟨a1, a2, a3, a4, av⟩ | ⟨a1, a2, a3, a4, a5, ac, av⟩ | ⟨a1, a2, a3, a4, a5, ac, ab, av⟩ <;>
  rcases view o with ⟨b1, b2, b3, b4, bv⟩ | ⟨b1, b2, b3, b4, bv⟩ | ⟨b1, b2, b3, b4, b5, bc, bv⟩ | ⟨b1, b2, b3, b4, b5, bc, bb, bv⟩))

set_option hygiene false in
/-- rewrite the class tests in the goal -/
macro "tests2" : tactic => `(tactic| (
  (try simp only [a1, a2, a3, a4, b1, b2, b3, b4, if_true, if_false, Bool.false_eq_true, Bool.true_and, Bool.false_and,
    Bool.and_true, Bool.and_false, Bool.not_true, Bool.not_false, Bool.or_true, Bool.or_false, Bool.true_or, Bool.false_or]) <;>
  (try simp only [a5, if_true, if_false, Bool.false_eq_true]) <;>
  (try simp only [b5, if_true, if_false, Bool.false_eq_true])))

set_option hygiene false in
/-- split on both sign bits and reduce the `if`s on them -/
macro "signs2" : tactic => `(tactic| (
  cases hsd : Gen.Decimal.Signbit d <;> cases hso : Gen.Decimal.Signbit o <;>
  simp only [hsd, hso, bne_self_eq_false, Bool.true_bne, Bool.false_bne, Bool.not_true, Bool.not_false,
    if_true, if_false, Bool.false_eq_true, beq_self_eq_true, Bool.and_true, Bool.and_false, Bool.true_and,
    Bool.false_and, beq_tf, beq_ft] at av bv ⊢))

set_option hygiene false in
/-- evaluate the specification on the two views -/
macro "specs2" "[" ls:Lean.Parser.Tactic.simpLemma,* "]" : tactic => `(tactic| (
  simp only [av, bv, Enc.interp_inf, Enc.interp_nan, Enc.interp_zero, if_false, if_true, beq_self_eq_true,
    Bool.false_eq_true, same_refl, same_zero, Spec.invalid2, Spec.invalid, classCode_zero, classCode_inf, Spec.Op.code, $ls,*] <;>
  (try simp only [ab, if_false, Bool.false_eq_true]) <;> (try simp only [bb, if_false, Bool.false_eq_true]) <;>
  (try simp only [classCode_fin _ _ _ ac]) <;> (try simp only [classCode_fin _ _ _ bc]) <;>
  (try simp only [if_true, if_false, Bool.false_eq_true, bne_self_eq_false, Bool.true_bne, Bool.false_bne,
    Bool.not_true, Bool.not_false, same_refl, same_zero]) <;> (try rfl)))

/-! ## Target 1: a special operand -/

theorem AddWithMode_special (d o : Gen.Decimal) (m : UInt8) (m' : Spec.Mode)
    (h : Gen.Decimal.isSpecial d = true ∨ Gen.Decimal.isSpecial o = true) :
    ∃ r, Gen.Decimal.AddWithMode d o m = .ok r ∧ (𝔳[r]).same (Spec.add m' 𝔳[d] 𝔳[o]) = true := by
  have h' : (Gen.Decimal.isSpecial d || Gen.Decimal.isSpecial o) = true := by
    rcases h with h | h <;> simp [h]
  unfold Gen.Decimal.AddWithMode
  simp only [h', if_true]
  view2
  all_goals try (exfalso; revert h; simp [a3, b3]; done)
  all_goals tests2
  all_goals (signs2 <;> refine ⟨_, rfl, ?_⟩ <;> specs2 [Spec.add, Spec.addCore, Spec.negate])

theorem SubWithMode_special (d o : Gen.Decimal) (m : UInt8) (m' : Spec.Mode)
    (h : Gen.Decimal.isSpecial d = true ∨ Gen.Decimal.isSpecial o = true) :
    ∃ r, Gen.Decimal.SubWithMode d o m = .ok r ∧ (𝔳[r]).same (Spec.sub m' 𝔳[d] 𝔳[o]) = true := by
  have h' : (Gen.Decimal.isSpecial d || Gen.Decimal.isSpecial o) = true := by
    rcases h with h | h <;> simp [h]
  unfold Gen.Decimal.SubWithMode
  simp only [h', if_true]
  view2
  all_goals try (exfalso; revert h; simp [a3, b3]; done)
  all_goals tests2
  all_goals (signs2 <;> refine ⟨_, rfl, ?_⟩ <;> specs2 [Spec.sub, Spec.addCore, Spec.negate])

theorem MulWithMode_special (d o : Gen.Decimal) (m : UInt8) (m' : Spec.Mode)
    (h : Gen.Decimal.isSpecial d = true ∨ Gen.Decimal.isSpecial o = true) :
    ∃ r, Gen.Decimal.MulWithMode d o m = .ok r ∧ (𝔳[r]).same (Spec.mul m' 𝔳[d] 𝔳[o]) = true := by
  have h' : (Gen.Decimal.isSpecial d || Gen.Decimal.isSpecial o) = true := by
    rcases h with h | h <;> simp [h]
  unfold Gen.Decimal.MulWithMode
  simp only [h', if_true]
  view2
  all_goals try (exfalso; revert h; simp [a3, b3]; done)
  all_goals tests2
  all_goals (signs2 <;> refine ⟨_, rfl, ?_⟩ <;> specs2 [Spec.mul])

theorem QuoWithMode_special (d o : Gen.Decimal) (m : UInt8) (m' : Spec.Mode)
    (h : Gen.Decimal.isSpecial d = true ∨ Gen.Decimal.isSpecial o = true) :
    ∃ r, Gen.Decimal.QuoWithMode d o m = .ok r ∧ (𝔳[r]).same (Spec.quo m' 𝔳[d] 𝔳[o]) = true := by
  have h' : (Gen.Decimal.isSpecial d || Gen.Decimal.isSpecial o) = true := by
    rcases h with h | h <;> simp [h]
  unfold Gen.Decimal.QuoWithMode
  simp only [h', if_true]
  view2
  all_goals try (exfalso; revert h; simp [a3, b3]; done)
  all_goals tests2
  all_goals (signs2 <;> refine ⟨_, rfl, ?_⟩ <;> specs2 [Spec.quo])

theorem QuoRemWithMode_special (d o : Gen.Decimal) (m : UInt8) (m' : Spec.Mode)
    (h : Gen.Decimal.isSpecial d = true ∨ Gen.Decimal.isSpecial o = true) :
    ∃ q r, Gen.Decimal.QuoRemWithMode d o m = .ok (q, r) ∧
      (𝔳[q]).same (Spec.quoRem m' 𝔳[d] 𝔳[o]).1 = true ∧
      (𝔳[r]).same (Spec.quoRem m' 𝔳[d] 𝔳[o]).2 = true := by
  have h' : (Gen.Decimal.isSpecial d || Gen.Decimal.isSpecial o) = true := by
    rcases h with h | h <;> simp [h]
  unfold Gen.Decimal.QuoRemWithMode
  simp only [h', if_true]
  view2
  all_goals try (exfalso; revert h; simp [a3, b3]; done)
  all_goals tests2
  all_goals (signs2 <;> refine ⟨_, _, rfl, ?_, ?_⟩ <;> specs2 [Spec.quoRem])

/-! ## NaN operands are returned bit for bit (the first NaN operand wins) -/

theorem isSpecial_of_IsNaN (d : Gen.Decimal) (h : Gen.Decimal.IsNaN d = true) :
    Gen.Decimal.isSpecial d = true := by
  rw [Enc.isSpecial_iff, h]; rfl

theorem AddWithMode_nan_left (d o : Gen.Decimal) (m : UInt8) (h : Gen.Decimal.IsNaN d = true) :
    Gen.Decimal.AddWithMode d o m = .ok d := by
  unfold Gen.Decimal.AddWithMode
  simp only [isSpecial_of_IsNaN d h, h, Bool.true_or, if_true]; rfl
theorem AddWithMode_nan_right (d o : Gen.Decimal) (m : UInt8) (hd : Gen.Decimal.IsNaN d = false)
    (h : Gen.Decimal.IsNaN o = true) : Gen.Decimal.AddWithMode d o m = .ok o := by
  unfold Gen.Decimal.AddWithMode
  simp only [isSpecial_of_IsNaN o h, h, hd, Bool.or_true, if_true, if_false, Bool.false_eq_true]; rfl

theorem SubWithMode_nan_left (d o : Gen.Decimal) (m : UInt8) (h : Gen.Decimal.IsNaN d = true) :
    Gen.Decimal.SubWithMode d o m = .ok d := by
  unfold Gen.Decimal.SubWithMode
  simp only [isSpecial_of_IsNaN d h, h, Bool.true_or, if_true]; rfl
theorem SubWithMode_nan_right (d o : Gen.Decimal) (m : UInt8) (hd : Gen.Decimal.IsNaN d = false)
    (h : Gen.Decimal.IsNaN o = true) : Gen.Decimal.SubWithMode d o m = .ok o := by
  unfold Gen.Decimal.SubWithMode
  simp only [isSpecial_of_IsNaN o h, h, hd, Bool.or_true, if_true, if_false, Bool.false_eq_true]; rfl

theorem MulWithMode_nan_left (d o : Gen.Decimal) (m : UInt8) (h : Gen.Decimal.IsNaN d = true) :
    Gen.Decimal.MulWithMode d o m = .ok d := by
  unfold Gen.Decimal.MulWithMode
  simp only [isSpecial_of_IsNaN d h, h, Bool.true_or, if_true]; rfl
theorem MulWithMode_nan_right (d o : Gen.Decimal) (m : UInt8) (hd : Gen.Decimal.IsNaN d = false)
    (h : Gen.Decimal.IsNaN o = true) : Gen.Decimal.MulWithMode d o m = .ok o := by
  unfold Gen.Decimal.MulWithMode
  simp only [isSpecial_of_IsNaN o h, h, hd, Bool.or_true, if_true, if_false, Bool.false_eq_true]; rfl

theorem QuoWithMode_nan_left (d o : Gen.Decimal) (m : UInt8) (h : Gen.Decimal.IsNaN d = true) :
    Gen.Decimal.QuoWithMode d o m = .ok d := by
  unfold Gen.Decimal.QuoWithMode
  simp only [isSpecial_of_IsNaN d h, h, Bool.true_or, if_true]; rfl
theorem QuoWithMode_nan_right (d o : Gen.Decimal) (m : UInt8) (hd : Gen.Decimal.IsNaN d = false)
    (h : Gen.Decimal.IsNaN o = true) : Gen.Decimal.QuoWithMode d o m = .ok o := by
  unfold Gen.Decimal.QuoWithMode
  simp only [isSpecial_of_IsNaN o h, h, hd, Bool.or_true, if_true, if_false, Bool.false_eq_true]; rfl

theorem QuoRemWithMode_nan_left (d o : Gen.Decimal) (m : UInt8) (h : Gen.Decimal.IsNaN d = true) :
    Gen.Decimal.QuoRemWithMode d o m = .ok (d, d) := by
  unfold Gen.Decimal.QuoRemWithMode
  simp only [isSpecial_of_IsNaN d h, h, Bool.true_or, if_true]; rfl
theorem QuoRemWithMode_nan_right (d o : Gen.Decimal) (m : UInt8) (hd : Gen.Decimal.IsNaN d = false)
    (h : Gen.Decimal.IsNaN o = true) : Gen.Decimal.QuoRemWithMode d o m = .ok (o, o) := by
  unfold Gen.Decimal.QuoRemWithMode
  simp only [isSpecial_of_IsNaN o h, h, hd, Bool.or_true, if_true, if_false, Bool.false_eq_true]; rfl

/-! ## wrappers: the default-mode entry points are the `WithMode` functions at `g.DefaultRoundingMode` -/

theorem bind_pure_eq {α : Type} (x : Go.GoM α) : (do let t ← x; pure t) = x := by
  cases x <;> rfl

theorem Add_eq (g : Globals) (d o : Gen.Decimal) :
    Gen.Decimal.Add g d o = Gen.Decimal.AddWithMode d o g.DefaultRoundingMode := by
  unfold Gen.Decimal.Add; exact bind_pure_eq _
theorem Sub_eq (g : Globals) (d o : Gen.Decimal) :
    Gen.Decimal.Sub g d o = Gen.Decimal.SubWithMode d o g.DefaultRoundingMode := by
  unfold Gen.Decimal.Sub; exact bind_pure_eq _
theorem Mul_eq (g : Globals) (d o : Gen.Decimal) :
    Gen.Decimal.Mul g d o = Gen.Decimal.MulWithMode d o g.DefaultRoundingMode := by
  unfold Gen.Decimal.Mul; exact bind_pure_eq _
theorem Quo_eq (g : Globals) (d o : Gen.Decimal) :
    Gen.Decimal.Quo g d o = Gen.Decimal.QuoWithMode d o g.DefaultRoundingMode := by
  unfold Gen.Decimal.Quo; exact bind_pure_eq _
theorem QuoRem_eq (g : Globals) (d o : Gen.Decimal) :
    Gen.Decimal.QuoRem g d o = Gen.Decimal.QuoRemWithMode d o g.DefaultRoundingMode := by
  unfold Gen.Decimal.QuoRem; exact bind_pure_eq _
theorem Pow_eq (g : Globals) (d o : Gen.Decimal) :
    Gen.Decimal.Pow g d o = Gen.Decimal.PowWithMode d o g.DefaultRoundingMode := by
  unfold Gen.Decimal.Pow; exact bind_pure_eq _

end Sp
