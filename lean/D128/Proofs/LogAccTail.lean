/-
  D128/Proofs/LogAccTail.lean — the end of `decomposed192.log` (`LogAcc.logTail`): `2·res ± |e0|·ln10 ± ln(M/10)`, in ℚ.

  * `ln10v = val Gen.ln10`, `ln10v_lo/hi : 2.3 ≤ ln10v ≤ 2.31`
  * `lnM M` : the table value `Gen.ln[M-11]·10^-57` for `11 ≤ M ≤ 99`, `0` for `M = 10`
  * `logTail_spec` : with `R = val res ≤ 1/10`, `K = |e0|`:
        `neg = (e0 < 0)`,  `|val x − |B|| ≤ lam·(4·(K·ln10v + 2R) + lnM M)`,
        `B = 2R + K·ln10v + lnM M` (`e0 ≥ 0`) resp. `K·ln10v − 2R − lnM M` (`e0 < 0`), flag in `flag3`,
        exponent of the result in [-5930, 5500].
-/
import D128.Proofs.LogAccSeries
import D128.Proofs.Encoding
set_option autoImplicit false
set_option maxRecDepth 4096
set_option linter.unusedVariables false
namespace LogAcc
open Gen D192 Root

/-- the table constant `ln 10` as a rational -/
def ln10v : ℚ := val Gen.ln10

theorem ln10_sig : Gen.ln10.sig.toNat = 2302585092994045684017991454684364207601101488628772976033 := by
  decide
theorem ln10_exp : Gen.ln10.exp.toInt = -57 := by decide

theorem ln10v_eq : ln10v = 2302585092994045684017991454684364207601101488628772976033 / 10 ^ 57 := by
  unfold ln10v val; rw [ln10_sig, ln10_exp, zpow_neg]; norm_num

theorem ln10v_lo : (23 / 10 : ℚ) ≤ ln10v := by rw [ln10v_eq]; norm_num
theorem ln10v_hi : ln10v ≤ (231 / 100 : ℚ) := by rw [ln10v_eq]; norm_num

/-- the table entry used for the leading digits `M` (as a natural number of units `10^-57`) -/
def lnMsig (M : Int64) : Nat :=
  if h : 0 ≤ Go.idx (M - 11) ∧ (Go.idx (M - 11)).toNat < 89 then (Gen.ln[(Go.idx (M - 11)).toNat]'h.2).toNat else 0

/-- the table value `≈ ln(M/10)`; `0` for `M = 10` -/
def lnM (M : Int64) : ℚ := if M.toInt = 10 then 0 else (lnMsig M : ℚ) * (10 : ℚ) ^ (-57 : Int)

theorem lnM_nonneg (M : Int64) : 0 ≤ lnM M := by
  unfold lnM; split
  · exact le_refl _
  · exact mul_nonneg (Nat.cast_nonneg _) (zpow_pos (by norm_num) _).le

theorem i64_sub11 (M : Int64) (h0 : 10 ≤ M.toInt) (h1 : M.toInt ≤ 99) : (M - 11).toInt = M.toInt - 11 := by
  have h11 : (11 : Int64).toInt = 11 := by decide
  rw [Int64.toInt_sub, h11]; apply Int.bmod_eq_of_le <;> omega

theorem vget_ln (M : Int64) (h0 : 11 ≤ M.toInt) (h1 : M.toInt ≤ 99) :
    ∃ t : U192, Go.vget Gen.ln (Go.idx (M - 11)) = .ok t ∧ t.toNat = lnMsig M := by
  have hi : Go.idx (M - 11) = M.toInt - 11 := i64_sub11 M (by omega) h1
  have hc : 0 ≤ Go.idx (M - 11) ∧ (Go.idx (M - 11)).toNat < 89 := by rw [hi]; omega
  refine ⟨Gen.ln[(Go.idx (M - 11)).toNat]'hc.2, ?_, ?_⟩
  · unfold Go.vget; rw [dif_pos hc]; rfl
  · unfold lnMsig; rw [dif_pos hc]

theorem i16_neg1 (e : Int16) (h : -32767 ≤ e.toInt) : (e * -1).toInt = -e.toInt := by
  have : e * -1 = -e := by rw [Int16.mul_neg, Int16.mul_one]
  rw [this, Int16.toInt_neg]; apply Int.bmod_eq_of_le <;> have := Int16.toInt_lt e <;> omega

theorem pos_chain (lam R2 Lk mL a b s x : ℚ) (hl0 : 0 < lam) (hl1 : lam < 1) (hR : 0 ≤ R2) (hL : 0 ≤ Lk)
    (hm : 0 ≤ mL) (a1 : Lk * (1 - lam) ≤ a) (a2 : a ≤ Lk) (b1 : R2 * (1 - lam) ≤ b) (b2 : b ≤ R2)
    (s1 : (b + a) * (1 - lam) ≤ s) (s2 : s ≤ b + a) (x1 : (s + mL) * (1 - lam) ≤ x) (x2 : x ≤ s + mL) :
    |x - (|R2 + Lk + mL|)| ≤ lam * (4 * (Lk + R2) + mL) := by
  have hB : 0 ≤ R2 + Lk + mL := by linarith
  rw [abs_of_nonneg hB, abs_le]
  have hu : 0 < 1 - lam := by linarith
  have hs_lo : (R2 + Lk) * (1 - lam) * (1 - lam) ≤ s := by
    have : (R2 + Lk) * (1 - lam) ≤ b + a := by nlinarith
    calc (R2 + Lk) * (1 - lam) * (1 - lam) ≤ (b + a) * (1 - lam) := mul_le_mul_of_nonneg_right this hu.le
      _ ≤ s := s1
  have hx_lo : ((R2 + Lk) * (1 - lam) * (1 - lam) + mL) * (1 - lam) ≤ x := by
    calc _ ≤ (s + mL) * (1 - lam) := mul_le_mul_of_nonneg_right (by linarith) hu.le
      _ ≤ x := x1
  have hRL : 0 ≤ R2 + Lk := by linarith
  constructor
  · -- lower: x ≥ B - lam(...)
    have e : ((R2 + Lk) * (1 - lam) * (1 - lam) + mL) * (1 - lam)
        = (R2 + Lk + mL) - lam * (3 * (R2 + Lk) + mL) + (R2 + Lk) * (3 * lam ^ 2 - lam ^ 3) := by ring
    have h3 : 0 ≤ (R2 + Lk) * (3 * lam ^ 2 - lam ^ 3) := by
      apply mul_nonneg hRL
      have : lam ^ 3 ≤ lam ^ 2 := by
        have : lam ^ 3 = lam ^ 2 * lam := by ring
        rw [this]; nlinarith [sq_nonneg lam]
      nlinarith [sq_nonneg lam]
    have : lam * (R2 + Lk) ≥ 0 := by positivity
    nlinarith
  · have : x ≤ R2 + Lk + mL := by linarith
    have h0 : 0 ≤ lam * (4 * (Lk + R2) + mL) := by positivity
    linarith

theorem neg_chain (lam R2 Lk mL a b s x : ℚ) (hl0 : 0 < lam) (hl1 : lam < 1 / 100) (hR : 0 ≤ R2)
    (hR2 : R2 ≤ 1 / 5) (hL : 23 / 10 ≤ Lk)
    (hm : 0 ≤ mL) (a1 : Lk * (1 - lam) ≤ a) (a2 : a ≤ Lk) (b1 : R2 * (1 - lam) ≤ b) (b2 : b ≤ R2)
    (s1 : |s - (|b - a|)| ≤ lam * max b a) (x1 : |x - (|s - mL|)| ≤ lam * max s mL) (hs0 : 0 ≤ s) :
    |x - (|Lk - R2 - mL|)| ≤ lam * (4 * (Lk + R2) + mL) := by
  have hba : b ≤ a := by nlinarith
  have hmax : max b a = a := max_eq_right hba
  have habs : |b - a| = a - b := by rw [abs_of_nonpos (by linarith)]; ring
  rw [hmax, habs] at s1
  have hs := abs_le.mp s1
  have hsle : s ≤ a * (1 + lam) := by nlinarith [hs.2]
  have hmax2 : max s mL ≤ s + mL := max_le (by linarith) (by linarith)
  have hx := abs_le.mp x1
  have hlm : lam * max s mL ≤ lam * (s + mL) := mul_le_mul_of_nonneg_left hmax2 hl0.le
  -- | |s - mL| - |B| | ≤ |s - mL - B|
  have htri : |(|s - mL|) - (|Lk - R2 - mL|)| ≤ |(s - mL) - (Lk - R2 - mL)| := abs_abs_sub_abs_le_abs_sub _ _
  have hdiff : |(s - mL) - (Lk - R2 - mL)| ≤ lam * Lk + lam * R2 + lam * a := by
    rw [abs_le]
    constructor <;> nlinarith [hs.1, hs.2]
  have h2 := abs_le.mp (le_trans htri hdiff)
  rw [abs_le]
  have ha0 : 0 ≤ a := by nlinarith
  have hbound : lam * Lk + lam * R2 + lam * a + lam * (s + mL) ≤ lam * (4 * (Lk + R2) + mL) := by
    have : s ≤ Lk * (1 + lam) := le_trans hsle (by nlinarith)
    have h3 : lam * s ≤ lam * (Lk * (1 + lam)) := mul_le_mul_of_nonneg_left this hl0.le
    have h4 : lam * a ≤ lam * Lk := mul_le_mul_of_nonneg_left a2 hl0.le
    have h5 : lam * (Lk * (1 + lam)) ≤ lam * (2 * Lk) := by
      apply mul_le_mul_of_nonneg_left _ hl0.le; nlinarith
    nlinarith
  constructor <;> linarith [hx.1, hx.2, h2.1, h2.2]

/-- **The end of `log`.** -/
theorem logTail_spec (e0 : Int16) (M : Int64) (res : decomposed192) (t : Int8) (ht : flag3 t)
    (he : -16100 ≤ e0.toInt ∧ e0.toInt ≤ 16100) (hM0 : 10 ≤ M.toInt) (hM1 : M.toInt ≤ 99)
    (hR : val res ≤ 1 / 10) (hre0 : -5930 ≤ res.exp.toInt) (hre1 : res.exp.toInt ≤ 5400) :
    ∃ (neg : Bool) (x : decomposed192) (t' : Int8),
      logTail e0 M res t = .ok (neg, x, t') ∧ flag3 t' ∧ neg = decide (e0.toInt < 0) ∧
      |val x - (|if e0.toInt < 0 then (e0.toInt.natAbs : ℚ) * ln10v - 2 * val res - lnM M
                 else 2 * val res + (e0.toInt.natAbs : ℚ) * ln10v + lnM M|)|
        ≤ lam * (4 * ((e0.toInt.natAbs : ℚ) * ln10v + 2 * val res) + lnM M) ∧
      -5930 ≤ x.exp.toInt ∧ x.exp.toInt ≤ 5500 := by
  have hl := lam_pos
  have hl1 : lam < 1 / 100 := lt_of_le_of_lt lam_le (by norm_num)
  have hR0 : 0 ≤ val res := val_nonneg _
  have h0i : (0 : Int16).toInt = 0 := by decide
  have h10i : (10 : Int64).toInt = 10 := by decide
  -- |e0| as machine values
  have haexp : ((Go.conv (if decide (e0 < 0) = true then e0 * -1 else e0) : UInt64)).toNat
      = e0.toInt.natAbs := by
    by_cases hn : e0 < 0
    · have hn' : e0.toInt < 0 := by rw [Int16.lt_iff_toInt_lt, h0i] at hn; exact hn
      simp only [hn, decide_true, if_true]
      rw [Enc.conv_i16_u64 _ (by rw [i16_neg1 e0 (by omega)]; omega), i16_neg1 e0 (by omega)]
      omega
    · have hn' : 0 ≤ e0.toInt := by rw [Int16.lt_iff_toInt_lt, h0i] at hn; omega
      simp only [hn, decide_false, Bool.false_eq_true, if_false]
      rw [Enc.conv_i16_u64 _ hn']; omega
  have hK0 : (0 : ℚ) ≤ (e0.toInt.natAbs : ℚ) := Nat.cast_nonneg _
  -- |e0|·ln10
  obtain ⟨l, tl, hlq, l1, l2, -, le0, le1, -⟩ := mul_rel Gen.ln10
    (small (Go.conv (if decide (e0 < 0) = true then e0 * -1 else e0) : UInt64)) 0
    (by rw [ln10_exp, small_exp]; norm_num) (by rw [ln10_exp, small_exp]; norm_num)
  rw [val_small, haexp] at l1 l2
  rw [ln10_exp, small_exp] at le0 le1
  have l1' : (e0.toInt.natAbs : ℚ) * ln10v * (1 - lam) ≤ val l := by
    unfold ln10v; rw [mul_comm (e0.toInt.natAbs : ℚ)]; exact l1
  have l2' : val l ≤ (e0.toInt.natAbs : ℚ) * ln10v := by
    unfold ln10v; rw [mul_comm (e0.toInt.natAbs : ℚ)]; exact l2
  -- 2·res
  obtain ⟨r, tr, hrq, r1, r2, r3, re0, re1, -⟩ := mul_rel res (small 2) t
    (by rw [small_exp]; omega) (by rw [small_exp]; omega)
  have h2 : ((2 : UInt64).toNat : ℚ) = 2 := by
    have : (2 : UInt64).toNat = 2 := rfl
    rw [this]; norm_num
  rw [val_small, h2] at r1 r2
  rw [small_exp] at re0 re1
  have r1' : 2 * val res * (1 - lam) ≤ val r := by rw [mul_comm 2]; exact r1
  have r2' : val r ≤ 2 * val res := by rw [mul_comm 2]; exact r2
  have htr : flag3 tr := flag3_of_or ht r3
  have hLk0 : 0 ≤ (e0.toInt.natAbs : ℚ) * ln10v := mul_nonneg hK0 (le_trans (by norm_num) ln10v_lo)
  unfold logTail
  simp only [hlq, hrq, bind, Except.bind, pure, Except.pure]
  by_cases hn : e0 < 0
  · -- negative exponent
    have hn' : e0.toInt < 0 := by rw [Int16.lt_iff_toInt_lt, h0i] at hn; exact hn
    have hK1 : (1 : ℚ) ≤ (e0.toInt.natAbs : ℚ) := by
      have : 1 ≤ e0.toInt.natAbs := by omega
      exact_mod_cast this
    have hLk : 23 / 10 ≤ (e0.toInt.natAbs : ℚ) * ln10v := by nlinarith [ln10v_lo]
    simp only [hn, decide_true, if_true, hn']
    obtain ⟨ng, s, ts, hsq, s1, s2, s3, s4, se0, se1⟩ := sub_abs r l tr htr (by omega) (by omega)
    simp only [hsq]
    -- the sign
    have hba : val r < val l := by nlinarith
    have hs0 : 0 ≤ val s := val_nonneg _
    have hspos : 0 < val s := by
      have hs := abs_le.mp s1
      rw [abs_of_neg (by linarith : val r - val l < 0)] at hs
      have hm : max (val r) (val l) = val l := max_eq_right hba.le
      rw [hm] at hs
      nlinarith [hs.1]
    have hng : ng = true := by
      rcases s4 hba with h | h
      · exact h
      · exfalso; rw [val_zero_of_sig h] at hspos; exact lt_irrefl _ hspos
    subst hng
    by_cases hgt : M > 10
    · have hgt' : 11 ≤ M.toInt := by rw [gt_iff_lt, Int64.lt_iff_toInt_lt, h10i] at hgt; omega
      simp only [hgt, decide_true, if_true]
      obtain ⟨tb, htb, htbv⟩ := vget_ln M hgt' hM1
      simp only [htb]
      obtain ⟨ng2, x, tx, hxq, x1, x2, -, -, xe0, xe1⟩ := sub_abs s ⟨tb, -57⟩ ts s2
        (by show -32767 ≤ s.exp.toInt - (-57 : Int16).toInt
            have : (-57 : Int16).toInt = -57 := by decide
            rw [this]
            rcases le_total r.exp.toInt l.exp.toInt with h | h
            · rw [min_eq_left h] at se0; omega
            · rw [min_eq_right h] at se0; omega)
        (by show s.exp.toInt - (-57 : Int16).toInt ≤ 32767
            have : (-57 : Int16).toInt = -57 := by decide
            rw [this]
            rcases le_total r.exp.toInt l.exp.toInt with h | h
            · rw [max_eq_right h] at se1; omega
            · rw [max_eq_left h] at se1; omega)
      simp only [hxq]
      have hmv : val (⟨tb, -57⟩ : decomposed192) = lnM M := by
        unfold lnM val
        rw [if_neg (by omega)]
        show (tb.toNat : ℚ) * (10 : ℚ) ^ (-57 : Int16).toInt = _
        rw [htbv]; rfl
      rw [hmv] at x1
      have h57 : (⟨tb, -57⟩ : decomposed192).exp.toInt = -57 := by
        show (-57 : Int16).toInt = -57; decide
      rw [h57] at xe0 xe1
      refine ⟨true, x, tx, rfl, x2, by simp, ?_, ?_, ?_⟩
      · exact neg_chain lam (2 * val res) _ (lnM M) (val l) (val r) (val s) (val x) hl hl1 (by linarith)
          (by linarith) hLk (lnM_nonneg M) l1' l2' r1' r2' s1 x1 hs0
      · rcases le_total r.exp.toInt l.exp.toInt with h | h
        · rw [min_eq_left h] at se0
          rcases le_total s.exp.toInt (-57) with h' | h'
          · rw [min_eq_left h'] at xe0; omega
          · rw [min_eq_right h'] at xe0; omega
        · rw [min_eq_right h] at se0
          rcases le_total s.exp.toInt (-57) with h' | h'
          · rw [min_eq_left h'] at xe0; omega
          · rw [min_eq_right h'] at xe0; omega
      · rcases le_total r.exp.toInt l.exp.toInt with h | h
        · rw [max_eq_right h] at se1
          rcases le_total s.exp.toInt (-57) with h' | h'
          · rw [max_eq_right h'] at xe1; omega
          · rw [max_eq_left h'] at xe1; omega
        · rw [max_eq_left h] at se1
          rcases le_total s.exp.toInt (-57) with h' | h'
          · rw [max_eq_right h'] at xe1; omega
          · rw [max_eq_left h'] at xe1; omega
    · have heq : M.toInt = 10 := by rw [gt_iff_lt, Int64.lt_iff_toInt_lt, h10i] at hgt; omega
      simp only [hgt, decide_false, Bool.false_eq_true, if_false]
      have hm0 : lnM M = 0 := by unfold lnM; rw [if_pos heq]
      rw [hm0]
      refine ⟨true, s, ts, rfl, s2, by simp, ?_, ?_, ?_⟩
      · have hx : |val s - (|val s - 0|)| ≤ lam * max (val s) 0 := by
          rw [sub_zero, abs_of_nonneg hs0, sub_self, abs_zero]
          exact mul_nonneg hl.le (le_max_of_le_left hs0)
        exact neg_chain lam (2 * val res) _ 0 (val l) (val r) (val s) (val s) hl hl1 (by linarith)
          (by linarith) hLk (le_refl _) l1' l2' r1' r2' s1 hx hs0
      · rcases le_total r.exp.toInt l.exp.toInt with h | h
        · rw [min_eq_left h] at se0; omega
        · rw [min_eq_right h] at se0; omega
      · rcases le_total r.exp.toInt l.exp.toInt with h | h
        · rw [max_eq_right h] at se1; omega
        · rw [max_eq_left h] at se1; omega
  · -- non-negative exponent
    have hn' : ¬ e0.toInt < 0 := by rw [Int16.lt_iff_toInt_lt, h0i] at hn; exact hn
    simp only [hn, decide_false, Bool.false_eq_true, if_false, hn']
    obtain ⟨s, ts, hsq, s1, s2, s3, se0, se1, -⟩ := add_rel r l tr (by omega) (by omega) (by omega) (by omega)
    simp only [hsq]
    have hts : flag3 ts := flag3_of_or3 htr s3
    by_cases hgt : M > 10
    · have hgt' : 11 ≤ M.toInt := by rw [gt_iff_lt, Int64.lt_iff_toInt_lt, h10i] at hgt; omega
      simp only [hgt, decide_true, if_true]
      obtain ⟨tb, htb, htbv⟩ := vget_ln M hgt' hM1
      simp only [htb]
      have h57 : (⟨tb, -57⟩ : decomposed192).exp.toInt = -57 := by
        show (-57 : Int16).toInt = -57; decide
      obtain ⟨x, tx, hxq, x1, x2, x3, xe0, xe1, -⟩ := add_rel s ⟨tb, -57⟩ ts
        (by rw [h57]
            rcases le_total r.exp.toInt l.exp.toInt with h | h
            · rw [min_eq_left h] at se0; omega
            · rw [min_eq_right h] at se0; omega)
        (by rw [h57]
            rcases le_total r.exp.toInt l.exp.toInt with h | h
            · rw [max_eq_right h] at se1; omega
            · rw [max_eq_left h] at se1; omega)
        (by rcases le_total r.exp.toInt l.exp.toInt with h | h
            · rw [max_eq_right h] at se1; omega
            · rw [max_eq_left h] at se1; omega)
        (by rw [h57]; norm_num)
      simp only [hxq]
      have hmv : val (⟨tb, -57⟩ : decomposed192) = lnM M := by
        unfold lnM val
        rw [if_neg (by omega)]
        show (tb.toNat : ℚ) * (10 : ℚ) ^ (-57 : Int16).toInt = _
        rw [htbv]; rfl
      rw [hmv] at x1 x2
      rw [h57] at xe0 xe1
      refine ⟨false, x, tx, rfl, flag3_of_or3 hts x3, by simp, ?_, ?_, ?_⟩
      · have := pos_chain lam (2 * val res) ((e0.toInt.natAbs : ℚ) * ln10v) (lnM M) (val l) (val r) (val s)
          (val x) hl lam_lt_one (by linarith) hLk0 (lnM_nonneg M) l1' l2' r1' r2' s1 s2 x1 x2
        exact this
      · rcases le_total r.exp.toInt l.exp.toInt with h | h
        · rw [min_eq_left h] at se0
          rcases le_total s.exp.toInt (-57) with h' | h'
          · rw [min_eq_left h'] at xe0; omega
          · rw [min_eq_right h'] at xe0; omega
        · rw [min_eq_right h] at se0
          rcases le_total s.exp.toInt (-57) with h' | h'
          · rw [min_eq_left h'] at xe0; omega
          · rw [min_eq_right h'] at xe0; omega
      · rcases le_total r.exp.toInt l.exp.toInt with h | h
        · rw [max_eq_right h] at se1
          rcases le_total s.exp.toInt (-57) with h' | h'
          · rw [max_eq_right h'] at xe1; omega
          · rw [max_eq_left h'] at xe1; omega
        · rw [max_eq_left h] at se1
          rcases le_total s.exp.toInt (-57) with h' | h'
          · rw [max_eq_right h'] at xe1; omega
          · rw [max_eq_left h'] at xe1; omega
    · have heq : M.toInt = 10 := by rw [gt_iff_lt, Int64.lt_iff_toInt_lt, h10i] at hgt; omega
      simp only [hgt, decide_false, Bool.false_eq_true, if_false]
      have hm0 : lnM M = 0 := by unfold lnM; rw [if_pos heq]
      rw [hm0]
      refine ⟨false, s, ts, rfl, hts, by simp, ?_, ?_, ?_⟩
      · have := pos_chain lam (2 * val res) ((e0.toInt.natAbs : ℚ) * ln10v) 0 (val l) (val r) (val s)
          (val s) hl lam_lt_one (by linarith) hLk0 (le_refl _) l1' l2' r1' r2' s1 s2
          (by rw [add_zero]; nlinarith [val_nonneg s]) (by linarith)
        exact this
      · rcases le_total r.exp.toInt l.exp.toInt with h | h
        · rw [min_eq_left h] at se0; omega
        · rw [min_eq_right h] at se0; omega
      · rcases le_total r.exp.toInt l.exp.toInt with h | h
        · rw [max_eq_right h] at se1; omega
        · rw [max_eq_left h] at se1; omega

end LogAcc
