/-
  D128/Proofs/FloatBigTrip.lean — `Decimal.Float` in terms of the exact value of `d`, and the round trip
  `FromFloat(d.Float(nil))` (property C09, big.Float clauses).  `FromFloat` itself is characterised in
  `D128/Proofs/FromRatBoundFloat.lean` (`FromFloat g f = FromRat g (fvalue f)`), which this module uses.

  Provided (namespace `FB`; `𝔳[d]` the value a bit pattern denotes, `v = (𝔳[d]).toRat`):
  * `Float_value`      finite `d`: `.ok (setVal ⟨recvPrec f, recvMode f, …⟩ (Signbit d) |v|)`
  * `Float_zero`       `±0 ↦ ±0` (zero form, sign kept)
  * `Float_nonzero`    `v ≠ 0`: finite form, magnitude `roundBits prec mode sign |v|` — ONE rounding
  * `value_signed`, `fvalue_dist`   bookkeeping of signs
  * `trip_exact`, `trip_int`   `|v|` has ≤ 128 significant bits and the reduced denominator converts exactly
                       ⇒ `FromFloat(d.Float(nil))` is `Equal` to `d` (every `DefaultRoundingMode`)
  * `trip_rel_error`   nearest mode, `|v| ≥ 2^-20286`: finite and within `(2·10^-33 + 2^-127)·|v|` of `v`
  * `trip_underflow`   `0 < |v| < 2^-20414`: the round trip returns a ZERO (every mode)
  * `Float_valid`      the result satisfies `Go.BigFloat.valid` (receiver with `prec ≤ MaxPrec`, mode ≤ 5)
  * `dyadic_bounds`, `roundBits_dyadic`   numerator / denominator of the 128-bit float
  * numeric thresholds `two_20413_lt` (`2^20413 < (Cmax+½)·10^Emax`), `max_le_two_20414`, `low_le`
  That the round trip is NOT `Equal` to `d` in general (0.7 comes back as 0.6999999999999999999999999999999999)
  is in `FloatBigEx.lean`.
-/
import D128.Proofs.FloatBig
import D128.Proofs.FromRatBoundFloat
set_option autoImplicit false
set_option maxRecDepth 4096

namespace FB
open Go Go.BigFloat BF BigConv FromRatBound
local notation "𝔳[" d "]" => Spec.interp (Gen.Decimal.lo d) (Gen.Decimal.hi d)

/-! ## A. `Float` in terms of the exact value of `d` -/

theorem abs_toRat_fin (n : Bool) (c : ℕ) (e : ℤ) :
    |(Spec.Val.fin n c e).toRat| = (c : ℚ) * (10 : ℚ) ^ e := by
  have h := SpecMeaning.mag_nonneg c e
  rw [SpecMeaning.toRat_fin']
  cases n
  · simp only [Bool.false_eq_true, if_false]; exact abs_of_nonneg h
  · simp only [if_true, abs_neg]; exact abs_of_nonneg h

theorem toRat_signed (n : Bool) (c : ℕ) (e : ℤ) :
    (Spec.Val.fin n c e).toRat =
      if n then -|(Spec.Val.fin n c e).toRat| else |(Spec.Val.fin n c e).toRat| := by
  rw [abs_toRat_fin, SpecMeaning.toRat_fin']

/-- **finite `d`**: one `setVal` of the exact magnitude `|d|` with the sign of `d` -/
theorem Float_value (d : Gen.Decimal) (f : Option BigFloat) (hs : Gen.Decimal.isSpecial d = false)
    (hf : ∀ x, f = some x → x.prec < 2 ^ 64) :
    Gen.Decimal.Float d f =
      .ok (setVal ⟨recvPrec f, recvMode f, .zero, false, 0⟩ (Gen.Decimal.Signbit d) |(𝔳[d]).toRat|) := by
  rw [Float_finite d f hs hf, Enc.interp_decompose d hs, abs_toRat_fin]

/-- a zero keeps its sign -/
theorem Float_zero (d : Gen.Decimal) (f : Option BigFloat) (hs : Gen.Decimal.isSpecial d = false)
    (hf : ∀ x, f = some x → x.prec < 2 ^ 64) (hz : (𝔳[d]).toRat = 0) :
    Gen.Decimal.Float d f = .ok ⟨recvPrec f, recvMode f, .zero, Gen.Decimal.Signbit d, 0⟩ := by
  rw [Float_value d f hs hf, hz, abs_zero, setVal_eq, if_pos rfl]

/-- a non-zero finite `d`: the magnitude is `roundBits prec mode sign |d|` — ONE rounding of the exact value -/
theorem Float_nonzero (d : Gen.Decimal) (f : Option BigFloat) (hs : Gen.Decimal.isSpecial d = false)
    (hf : ∀ x, f = some x → x.prec < 2 ^ 64) (hz : (𝔳[d]).toRat ≠ 0) :
    Gen.Decimal.Float d f = .ok ⟨recvPrec f, recvMode f, .finite, Gen.Decimal.Signbit d,
      roundBits (recvPrec f) (recvMode f) (Gen.Decimal.Signbit d) (|(𝔳[d]).toRat|)⟩ := by
  rw [Float_value d f hs hf, setVal_eq, if_neg (abs_ne_zero.2 hz)]

/-- the sign of a finite `d` is the sign of its value -/
theorem value_signed (d : Gen.Decimal) (hs : Gen.Decimal.isSpecial d = false) :
    (𝔳[d]).toRat = if Gen.Decimal.Signbit d then -|(𝔳[d]).toRat| else |(𝔳[d]).toRat| := by
  rw [Enc.interp_decompose d hs]; exact toRat_signed _ _ _

/-- distance between the signed values = distance between the magnitudes -/
theorem fvalue_dist (P : ℕ) (M : UInt8) (sg : Bool) (R v : ℚ) (hv : v = if sg then -|v| else |v|) :
    |fvalue ⟨P, M, .finite, sg, R⟩ - v| = |R - (|v|)| := by
  unfold fvalue
  cases sg
  · simp only [Bool.false_eq_true, if_false] at hv ⊢; rw [← hv]
  · simp only [if_true] at hv ⊢
    conv_lhs => rw [hv]
    rw [show -R - -|v| = -(R - |v|) by ring, abs_neg]

/-! ## B. the round trip `FromFloat(d.Float(nil))` -/

/-- `d.Float(nil)`: 128 bits, ToNearestEven -/
theorem Float_nil_nonzero (d : Gen.Decimal) (hs : Gen.Decimal.isSpecial d = false) (hz : (𝔳[d]).toRat ≠ 0) :
    Gen.Decimal.Float d none = .ok ⟨128, 0, .finite, Gen.Decimal.Signbit d,
      roundBits 128 0 (Gen.Decimal.Signbit d) (|(𝔳[d]).toRat|)⟩ :=
  Float_nonzero d none hs (fun _ h => by cases h) hz

theorem fvalue_of_exact (d : Gen.Decimal) (hs : Gen.Decimal.isSpecial d = false) (P : ℕ) (M : UInt8) :
    fvalue ⟨P, M, .finite, Gen.Decimal.Signbit d, |(𝔳[d]).toRat|⟩ = (𝔳[d]).toRat := by
  conv_rhs => rw [value_signed d hs]
  rfl

/-- **round trip, exact case.**  If `|d|` has at most 128 significant bits (so `Float(nil)` is exact) and the
    reduced denominator of `d`'s value converts exactly (is `c·10^e`, `c ≤ Cmax`; here: a power of two
    `≤ 2^113`, or 1), then `FromFloat(d.Float(nil))` is `Equal` to `d` — in every `DefaultRoundingMode`. -/
theorem trip_exact (g : Globals) (d : Gen.Decimal) (m : Spec.Mode)
    (hm : Spec.Mode.ofNat? g.DefaultRoundingMode.toNat = some m)
    (hs : Gen.Decimal.isSpecial d = false)
    (hrep : Rep 128 |(𝔳[d]).toRat|) (hden : MemberNat (𝔳[d]).toRat.den) :
    ∃ F d', Gen.Decimal.Float d none = .ok F ∧ Gen.FromFloat g F = .ok d' ∧
      Spec.equal 𝔳[d'] 𝔳[d] = true := by
  by_cases hz : (𝔳[d]).toRat = 0
  · refine ⟨_, _, Float_zero d none hs (fun _ h => by cases h) hz, FromFloat_zero g _ rfl, ?_⟩
    rw [Enc.interp_zero]
    rw [Enc.interp_decompose d hs] at hz ⊢
    rw [SpecMeaning.equal_fin_iff, hz]
    simp [Spec.Val.toRat, Spec.mag]
  · obtain ⟨q, d', -, hq, h2, h3, -⟩ := FromRat_Rat g d 0 m hm hs hden
    subst hq
    refine ⟨_, d', Float_nil_nonzero d hs hz, ?_, h3⟩
    rw [roundBits_exact 128 0 _ _ (by norm_num) (abs_pos.2 hz) hrep,
      FromFloat_eq_FromRat g _ rfl, fvalue_of_exact d hs]
    exact h2

/-- … in particular every integer-valued `d` below `2^128` (e.g. every `d = c·10^e`, `e ≥ 0`, with at most 38
    digits) -/
theorem trip_int (g : Globals) (d : Gen.Decimal) (m : Spec.Mode)
    (hm : Spec.Mode.ofNat? g.DefaultRoundingMode.toNat = some m)
    (hs : Gen.Decimal.isSpecial d = false) (n : ℕ) (hn : n < 2 ^ 128) (hv : |(𝔳[d]).toRat| = (n : ℚ)) :
    ∃ F d', Gen.Decimal.Float d none = .ok F ∧ Gen.FromFloat g F = .ok d' ∧
      Spec.equal 𝔳[d'] 𝔳[d] = true := by
  refine trip_exact g d m hm hs (by rw [hv]; exact rep_nat 128 n hn) ?_
  have hden : (𝔳[d]).toRat.den = 1 := by
    have h1 : (|(𝔳[d]).toRat|).den = 1 := by rw [hv]; exact Rat.den_natCast n
    rcases abs_choice (𝔳[d]).toRat with h | h
    · rw [h] at h1; exact h1
    · rw [h, Rat.den_neg_eq_den] at h1; exact h1
  rw [hden]
  exact memberNat_of_le (by unfold Spec.Cmax; norm_num)

/-! ### numerator and denominator of a dyadic number -/

theorem dyadic_bounds (k : ℕ) (u : ℤ) :
    ((k : ℚ) * (2 : ℚ) ^ u).num.natAbs ≤ k * 2 ^ u.toNat ∧ ((k : ℚ) * (2 : ℚ) ^ u).den ≤ 2 ^ (-u).toNat := by
  rcases le_or_gt 0 u with h | h
  · obtain ⟨n, rfl⟩ : ∃ n : ℕ, u = n := ⟨u.toNat, by omega⟩
    have : (k : ℚ) * (2 : ℚ) ^ ((n : ℕ) : ℤ) = ((k * 2 ^ n : ℕ) : ℚ) := by
      rw [zpow_natCast]; push_cast; rfl
    rw [this, Rat.num_natCast, Rat.den_natCast, Int.toNat_natCast]
    have : (-((n : ℕ) : ℤ)).toNat = 0 := by omega
    rw [this]
    refine ⟨le_of_eq ?_, Nat.one_le_two_pow⟩
    rw [Int.natAbs_natCast]
  · obtain ⟨n, hn⟩ : ∃ n : ℕ, -u = n := ⟨(-u).toNat, by omega⟩
    have hu : u = -(n : ℤ) := by omega
    have h0 : u.toNat = 0 := by omega
    rw [hn, h0, Int.toNat_natCast, pow_zero, mul_one]
    have hB : ((2 ^ n : ℕ) : ℤ) ≠ 0 := by
      have : 0 < 2 ^ n := Nat.pow_pos (by norm_num)
      omega
    have : (k : ℚ) * (2 : ℚ) ^ u = Rat.divInt (k : ℤ) ((2 ^ n : ℕ) : ℤ) := by
      rw [hu, zpow_neg, zpow_natCast, Rat.divInt_eq_div]; push_cast; rfl
    rw [this]
    constructor
    · by_cases hk : k = 0
      · subst hk; simp
      · have hd := Rat.num_dvd (k : ℤ) hB
        have := Int.natAbs_dvd_natAbs.2 hd
        rw [Int.natAbs_natCast] at this
        exact Nat.le_of_dvd (Nat.pos_of_ne_zero hk) this
    · have hd := Rat.den_dvd (k : ℤ) ((2 ^ n : ℕ) : ℤ)
      have := Int.natAbs_dvd_natAbs.2 hd
      rw [Int.natAbs_natCast, Int.natAbs_natCast] at this
      exact Nat.le_of_dvd (Nat.pow_pos (by norm_num)) this

/-- the result of `roundBits` as `k·2^u`, `k ≤ 2^prec`, `u = exponent q − prec` -/
theorem roundBits_dyadic (prec : ℕ) (mode : UInt8) (neg : Bool) (q : ℚ) (hp : 0 < prec) (hq : 0 < q) :
    ∃ k : ℕ, k ≤ 2 ^ prec ∧
      roundBits prec mode neg q = (k : ℚ) * (2 : ℚ) ^ (exponent q - (prec : ℤ)) := by
  have hb := bracket_exists prec q hp hq
  rw [roundBits_eq prec mode neg q hp hq hb]
  set m := ⌊q / (2 : ℚ) ^ (exponent q - (prec : ℤ))⌋₊
  rcases pick_neighbour mode neg q m (exponent q - (prec : ℤ)) with ⟨h1, h2⟩ | ⟨-, h | h⟩
  · exact ⟨m, hb.mhi.le, by rw [h1]; exact h2⟩
  · exact ⟨m, hb.mhi.le, h⟩
  · exact ⟨m + 1, hb.mhi, by rw [h]; push_cast; rfl⟩

/-! ### numeric facts about the thresholds -/

/-- `(Cmax+½)·10^Emax`, the overflow threshold of `FromInt` in the nearest modes -/
noncomputable abbrev T : ℚ := ((Spec.Cmax : ℚ) + 1 / 2) * (10 : ℚ) ^ Spec.Emax

theorem thr_generic (n C e : ℕ) (h : 2 * 2 ^ n < (2 * C + 1) * 10 ^ e) :
    ((2 ^ n : ℕ) : ℚ) < ((C : ℚ) + 1 / 2) * (10 : ℚ) ^ ((e : ℕ) : ℤ) := by
  have h' : ((2 * 2 ^ n : ℕ) : ℚ) < (((2 * C + 1) * 10 ^ e : ℕ) : ℚ) := by exact_mod_cast h
  rw [zpow_natCast]
  push_cast at h' ⊢
  linarith

theorem low_generic (a b : ℕ) (h : 5 * 2 ^ b ≤ 10 ^ a) :
    5 * (10 : ℚ) ^ (-((a : ℕ) : ℤ)) ≤ (2 : ℚ) ^ (-((b : ℕ) : ℤ)) := by
  have h' : ((5 * 2 ^ b : ℕ) : ℚ) ≤ ((10 ^ a : ℕ) : ℚ) := by exact_mod_cast h
  rw [zpow_neg, zpow_neg, zpow_natCast, zpow_natCast]
  have h1 : (0 : ℚ) < (10 : ℚ) ^ a := by positivity
  have h2 : (0 : ℚ) < (2 : ℚ) ^ b := by positivity
  rw [← one_div, ← one_div, mul_one_div, div_le_div_iff₀ h1 h2, one_mul]
  push_cast at h'
  exact h'

set_option exponentiation.threshold 30000 in
theorem two_20413_lt_nat : 2 * 2 ^ 20413 < (2 * Spec.Cmax + 1) * 10 ^ 6111 := by decide +kernel

theorem two_20413_lt : ((2 ^ 20413 : ℕ) : ℚ) < T := thr_generic 20413 Spec.Cmax 6111 two_20413_lt_nat

set_option exponentiation.threshold 30000 in
theorem low_le_nat : 5 * 2 ^ 20286 ≤ 10 ^ 6144 := by decide +kernel

theorem pow_lt_T (n : ℕ) (h : n ≤ 20413) : ((2 ^ n : ℕ) : ℚ) < T := by
  refine lt_of_le_of_lt ?_ two_20413_lt
  exact Nat.cast_le.2 (pow_le_pow_right₀ (by norm_num : (1 : ℕ) ≤ 2) h)

theorem low_le : 5 * (10 : ℚ) ^ (Spec.Emin + 32) ≤ (2 : ℚ) ^ (-20286 : ℤ) :=
  low_generic 6144 20286 low_le_nat

/-- the magnitude of a finite Decimal is at most `Cmax·10^Emax` -/
theorem abs_value_le (d : Gen.Decimal) (hs : Gen.Decimal.isSpecial d = false) :
    |(𝔳[d]).toRat| ≤ (Spec.Cmax : ℚ) * (10 : ℚ) ^ Spec.Emax := by
  have hc := Enc.decompose_sig_le d
  have h1 := Enc.decompose_exp_le d hs
  rw [Enc.interp_decompose d hs, abs_toRat_fin]
  have a : ((Gen.Decimal.decompose d).1.toNat : ℚ) ≤ (Spec.Cmax : ℚ) := by exact_mod_cast hc
  have b : (10 : ℚ) ^ ((Gen.Decimal.decompose d).2.toInt - 6176) ≤ (10 : ℚ) ^ Spec.Emax :=
    zpow_le_zpow_right₀ (by norm_num) (by unfold Spec.Emax; omega)
  exact mul_le_mul a b (zpow_pos (by norm_num) _).le (Nat.cast_nonneg _)

/-- **round trip, error bound.**  Nearest `DefaultRoundingMode` (the default), finite `d` with
    `|d| ≥ 2^-20286 ≈ 1.1e-6107`: `FromFloat(d.Float(nil))` is finite and within `2·10^-33 + 2^-127` (relative)
    of `d`.  (The 128-bit rounding of `Float` costs `2^-128`; `FromFloat` = `FromRat` costs up to `2·10^-33`,
    because it rounds the 128-bit numerator and the power-of-two denominator to 34 digits before dividing.)
    The lower bound keeps the denominator `2^(128 − exponent)` below the overflow threshold of `FromInt`. -/
theorem trip_rel_error (g : Globals) (d : Gen.Decimal) (m : Spec.Mode)
    (hm : Spec.Mode.ofNat? g.DefaultRoundingMode.toNat = some m) (hnear : SpecRound.isNearest m = true)
    (hs : Gen.Decimal.isSpecial d = false) (hlow : (2 : ℚ) ^ (-20286 : ℤ) ≤ |(𝔳[d]).toRat|) :
    ∃ F d', Gen.Decimal.Float d none = .ok F ∧ Gen.FromFloat g F = .ok d' ∧ (𝔳[d']).isFin = true ∧
      |(𝔳[d']).toRat - (𝔳[d]).toRat| ≤
        (2 * (10 : ℚ) ^ (-33 : ℤ) + (2 : ℚ) ^ (-127 : ℤ)) * |(𝔳[d]).toRat| := by
  set v := (𝔳[d]).toRat with hv
  have hq : 0 < |v| := lt_of_lt_of_le (two_zpow_pos _) hlow
  have hz : v ≠ 0 := abs_pos.1 hq
  set sg := Gen.Decimal.Signbit d with hsg
  set R := roundBits 128 0 sg |v| with hR
  have hRpos : 0 < R := roundBits_pos 128 0 sg |v| (by norm_num) hq
  have hFloat := Float_nil_nonzero d hs hz
  rw [← hv, ← hsg, ← hR] at hFloat
  set F : BigFloat := ⟨128, 0, .finite, sg, R⟩ with hF
  -- the exponent of |v|
  obtain ⟨e1, e2⟩ := exponent_spec |v| hq
  have hexp : -20286 < exponent |v| :=
    (zpow_lt_zpow_iff_right₀ (by norm_num : (1 : ℚ) < 2)).1 (lt_of_le_of_lt hlow e2)
  obtain ⟨k, hk, hRk⟩ := roundBits_dyadic 128 0 sg |v| (by norm_num) hq
  rw [← hR] at hRk
  set u : ℤ := exponent |v| - ((128 : ℕ) : ℤ) with hu
  obtain ⟨bn, bd⟩ := dyadic_bounds k u
  rw [← hRk] at bn bd
  -- errors of the first rounding
  have herr := roundBits_rel_err_nearest 128 0 sg |v| (Or.inl rfl) (by norm_num) hq
  rw [← hR] at herr
  have hRle : R ≤ |v| + (2 : ℚ) ^ (-((128 : ℕ) : ℤ)) * |v| := by
    have := (abs_le.1 herr).2; linarith
  have hmax := abs_value_le d hs
  rw [← hv] at hmax
  have hTpos : (0 : ℚ) < (10 : ℚ) ^ Spec.Emax := zpow_pos (by norm_num) _
  -- denominator below the threshold
  have hden : (R.den : ℚ) < T := by
    exact lt_of_le_of_lt (by exact_mod_cast bd) (pow_lt_T _ (by omega))
  -- numerator below the threshold
  have hnum : (R.num.natAbs : ℚ) < T := by
    rcases le_or_gt u 0 with h | h
    · have h0 : u.toNat = 0 := by omega
      rw [h0, pow_zero, mul_one] at bn
      exact lt_of_le_of_lt (by exact_mod_cast le_trans bn hk) (pow_lt_T 128 (by norm_num))
    · have h1 : ((k * 2 ^ u.toNat : ℕ) : ℚ) = R := by
        rw [hRk]; push_cast
        rw [← zpow_natCast, Int.toNat_of_nonneg h.le]
      have h2 : (R.num.natAbs : ℚ) ≤ R :=
        calc (R.num.natAbs : ℚ) ≤ ((k * 2 ^ u.toNat : ℕ) : ℚ) := by exact_mod_cast bn
          _ = R := h1
      have h3 : (2 : ℚ) ^ (-((128 : ℕ) : ℤ)) * |v| ≤ (10 : ℚ) ^ Spec.Emax / 4 := by
        have c1 : (2 : ℚ) ^ (-((128 : ℕ) : ℤ)) * (Spec.Cmax : ℚ) ≤ 1 / 4 := by
          unfold Spec.Cmax; norm_num
        calc (2 : ℚ) ^ (-((128 : ℕ) : ℤ)) * |v|
            ≤ (2 : ℚ) ^ (-((128 : ℕ) : ℤ)) * ((Spec.Cmax : ℚ) * (10 : ℚ) ^ Spec.Emax) :=
              mul_le_mul_of_nonneg_left hmax (two_zpow_pos _).le
          _ = ((2 : ℚ) ^ (-((128 : ℕ) : ℤ)) * (Spec.Cmax : ℚ)) * (10 : ℚ) ^ Spec.Emax := by ring
          _ ≤ 1 / 4 * (10 : ℚ) ^ Spec.Emax := mul_le_mul_of_nonneg_right c1 hTpos.le
          _ = (10 : ℚ) ^ Spec.Emax / 4 := by ring
      unfold T
      calc (R.num.natAbs : ℚ) ≤ R := h2
        _ ≤ |v| + (2 : ℚ) ^ (-((128 : ℕ) : ℤ)) * |v| := hRle
        _ ≤ (Spec.Cmax : ℚ) * (10 : ℚ) ^ Spec.Emax + (10 : ℚ) ^ Spec.Emax / 4 := add_le_add hmax h3
        _ < ((Spec.Cmax : ℚ) + 1 / 2) * (10 : ℚ) ^ Spec.Emax := by linarith
  -- the value is large enough
  have hfv : |fvalue F| = R := fvalue_abs F hRpos
  have hRlow : 5 * (10 : ℚ) ^ (Spec.Emin + 32) ≤ |fvalue F| := by
    rw [hfv]
    have h1 := (roundBits_binade 128 0 sg |v| (by norm_num) hq).1
    rw [← hR] at h1
    have h2 : (2 : ℚ) ^ (-20286 : ℤ) ≤ (2 : ℚ) ^ (exponent |v| - 1) :=
      zpow_le_zpow_right₀ (by norm_num) (by omega)
    exact le_trans low_le (le_trans h2 h1)
  obtain ⟨d', hd', hfin, hb⟩ := FromFloat_rel_nearest g F m hm hnear rfl hnum hden hRlow
  refine ⟨F, d', hFloat, hd', hfin, ?_⟩
  rw [hfv] at hb
  have hdist : |fvalue F - v| = |R - (|v|)| := fvalue_dist 128 0 sg R v (value_signed d hs)
  have htri : |(𝔳[d']).toRat - v| ≤ |(𝔳[d']).toRat - fvalue F| + |fvalue F - v| := by
    have := abs_add_le ((𝔳[d']).toRat - fvalue F) (fvalue F - v)
    rwa [sub_add_sub_cancel] at this
  rw [hdist] at htri
  have c2 : (2 : ℚ) ^ (-((128 : ℕ) : ℤ)) = (2 : ℚ) ^ (-127 : ℤ) / 2 := by norm_num
  have c3 : 2 * (10 : ℚ) ^ (-33 : ℤ) ≤ 1 := by norm_num
  have c4 : (0 : ℚ) ≤ (2 : ℚ) ^ (-127 : ℤ) * |v| := mul_nonneg (two_zpow_pos _).le hq.le
  have c5 : 2 * (10 : ℚ) ^ (-33 : ℤ) * R ≤
      2 * (10 : ℚ) ^ (-33 : ℤ) * |v| + (2 : ℚ) ^ (-127 : ℤ) / 2 * |v| := by
    have : 2 * (10 : ℚ) ^ (-33 : ℤ) * R ≤
        2 * (10 : ℚ) ^ (-33 : ℤ) * (|v| + (2 : ℚ) ^ (-127 : ℤ) / 2 * |v|) :=
      mul_le_mul_of_nonneg_left (by rw [← c2]; exact hRle) (by norm_num)
    have h5 : 2 * (10 : ℚ) ^ (-33 : ℤ) * ((2 : ℚ) ^ (-127 : ℤ) / 2 * |v|) ≤
        1 * ((2 : ℚ) ^ (-127 : ℤ) / 2 * |v|) :=
      mul_le_mul_of_nonneg_right c3 (by linarith)
    linarith
  rw [c2] at herr
  generalize (2 : ℚ) ^ (-127 : ℤ) = a at *
  generalize (10 : ℚ) ^ (-33 : ℤ) = t at *
  generalize |(𝔳[d']).toRat - v| = X at *
  generalize |(𝔳[d']).toRat - fvalue F| = Y at *
  generalize |R - (|v|)| = Z at *
  generalize |v| = w at *
  linarith

/-! ### small values come back as zero -/

set_option exponentiation.threshold 30000 in
theorem max_le_two_20414_nat : (Spec.Cmax + 1) * 10 ^ 6111 ≤ 2 ^ 20414 := by decide +kernel

theorem max_generic (n C e : ℕ) (h : (C + 1) * 10 ^ e ≤ 2 ^ n) :
    ((C : ℚ) + 1) * (10 : ℚ) ^ ((e : ℕ) : ℤ) ≤ (2 : ℚ) ^ ((n : ℕ) : ℤ) := by
  have h' : (((C + 1) * 10 ^ e : ℕ) : ℚ) ≤ ((2 ^ n : ℕ) : ℚ) := by exact_mod_cast h
  rw [zpow_natCast, zpow_natCast]
  push_cast at h'
  exact h'

theorem max_le_two_20414 : ((Spec.Cmax : ℚ) + 1) * (10 : ℚ) ^ Spec.Emax ≤ (2 : ℚ) ^ (20414 : ℤ) :=
  max_generic 20414 Spec.Cmax 6111 max_le_two_20414_nat

theorem two_pow_le_ten_pow_neg (k : ℕ) :
    (2 : ℚ) ^ (-((4 * k : ℕ) : ℤ)) ≤ (10 : ℚ) ^ (-((k : ℕ) : ℤ)) := by
  rw [zpow_neg, zpow_neg, zpow_natCast, zpow_natCast]
  apply inv_anti₀ (by positivity)
  exact_mod_cast pow10_le_pow2 k

/-- a non-zero finite Decimal is at least `10^-6176 > 2^-24704` -/
theorem abs_value_ge (d : Gen.Decimal) (hs : Gen.Decimal.isSpecial d = false) (hz : (𝔳[d]).toRat ≠ 0) :
    (2 : ℚ) ^ (-24704 : ℤ) ≤ |(𝔳[d]).toRat| := by
  have h0 := Enc.decompose_exp_nonneg d
  rw [Enc.interp_decompose d hs] at hz ⊢
  rw [abs_toRat_fin]
  set c := (Gen.Decimal.decompose d).1.toNat
  set e := (Gen.Decimal.decompose d).2.toInt - 6176 with he
  have hc : c ≠ 0 := by
    intro h; apply hz; rw [SpecMeaning.toRat_fin', h]; simp
  have h1 : (1 : ℚ) ≤ (c : ℚ) := by exact_mod_cast Nat.pos_of_ne_zero hc
  have h2 : (10 : ℚ) ^ (-6176 : ℤ) ≤ (10 : ℚ) ^ e := zpow_le_zpow_right₀ (by norm_num) (by omega)
  have h3 : (2 : ℚ) ^ (-24704 : ℤ) ≤ (10 : ℚ) ^ (-6176 : ℤ) := two_pow_le_ten_pow_neg 6176
  calc (2 : ℚ) ^ (-24704 : ℤ) ≤ (10 : ℚ) ^ e := le_trans h3 h2
    _ = 1 * (10 : ℚ) ^ e := (one_mul _).symm
    _ ≤ (c : ℚ) * (10 : ℚ) ^ e := mul_le_mul_of_nonneg_right h1 (zpow_pos (by norm_num) _).le

/-- **round trip, small values.**  Every non-zero finite `d` with `|d| < 2^-20414 ≈ 5.8e-6146` comes back from
    `FromFloat(d.Float(nil))` as a ZERO, in every `DefaultRoundingMode`: the 128-bit float is `k·2^u` with
    `−u ≥ 20542`, its reduced denominator is at least `2^20414 > 1.298e6145`, `FromInt(denominator)` is `+Inf`
    and the quotient is 0.  (Known finding `fromrat-operand-beyond-decimal-range`, reached from valid
    Decimals.)  E.g. `d = 1e-6150`. -/
theorem trip_underflow (g : Globals) (d : Gen.Decimal) (m : Spec.Mode)
    (hm : Spec.Mode.ofNat? g.DefaultRoundingMode.toNat = some m)
    (hs : Gen.Decimal.isSpecial d = false) (hz : (𝔳[d]).toRat ≠ 0)
    (hsmall : |(𝔳[d]).toRat| < (2 : ℚ) ^ (-20414 : ℤ)) :
    ∃ F d', Gen.Decimal.Float d none = .ok F ∧ Gen.FromFloat g F = .ok d' ∧ (𝔳[d']).toRat = 0 := by
  have hge := abs_value_ge d hs hz
  set v := (𝔳[d]).toRat with hv
  have hq : 0 < |v| := abs_pos.2 hz
  set sg := Gen.Decimal.Signbit d with hsg
  set R := roundBits 128 0 sg |v| with hR
  have hRpos : 0 < R := roundBits_pos 128 0 sg |v| (by norm_num) hq
  have hFloat := Float_nil_nonzero d hs hz
  rw [← hv, ← hsg, ← hR] at hFloat
  set F : BigFloat := ⟨128, 0, .finite, sg, R⟩ with hF
  obtain ⟨e1, e2⟩ := exponent_spec |v| hq
  have hexp1 : exponent |v| - 1 < -20414 :=
    (zpow_lt_zpow_iff_right₀ (by norm_num : (1 : ℚ) < 2)).1 (lt_of_le_of_lt e1 hsmall)
  have hexp2 : -24704 < exponent |v| :=
    (zpow_lt_zpow_iff_right₀ (by norm_num : (1 : ℚ) < 2)).1 (lt_of_le_of_lt hge e2)
  obtain ⟨k, hk, hRk⟩ := roundBits_dyadic 128 0 sg |v| (by norm_num) hq
  rw [← hR] at hRk
  set u : ℤ := exponent |v| - ((128 : ℕ) : ℤ) with hu
  obtain ⟨bn, bd⟩ := dyadic_bounds k u
  rw [← hRk] at bn bd
  have hu0 : u.toNat = 0 := by omega
  rw [hu0, pow_zero, mul_one] at bn
  have hr : fvalue F ≠ 0 := by
    have : |fvalue F| = R := fvalue_abs F hRpos
    intro h; rw [h, abs_zero] at this; exact hRpos.ne this
  have hnumpos : (1 : ℚ) ≤ (R.num.natAbs : ℚ) := by
    have : R.num ≠ 0 := Rat.num_ne_zero.2 hRpos.ne'
    exact_mod_cast Int.natAbs_pos.2 this
  -- the denominator is huge
  have hdenQ : (2 : ℚ) ^ (20414 : ℤ) ≤ (R.den : ℚ) := by
    have hdpos : (0 : ℚ) < (R.den : ℚ) := by exact_mod_cast R.den_pos
    have hRq : R = (R.num.natAbs : ℚ) / (R.den : ℚ) := q_eq_div R hRpos
    have h1 : (R.den : ℚ) = (R.num.natAbs : ℚ) / R := by
      have h0 : R * (R.den : ℚ) = (R.num.natAbs : ℚ) := (eq_div_iff hdpos.ne').1 hRq
      rw [eq_div_iff hRpos.ne', mul_comm]; exact h0
    have hkpos : (0 : ℚ) < (k : ℚ) := by
      rcases Nat.eq_zero_or_pos k with h | h
      · rw [h] at hRk; simp at hRk; exact absurd hRk hRpos.ne'
      · exact_mod_cast h
    have hkle : (k : ℚ) ≤ (2 : ℚ) ^ (128 : ℤ) := by
      have : ((k : ℕ) : ℚ) ≤ ((2 ^ 128 : ℕ) : ℚ) := by exact_mod_cast hk
      rw [show (128 : ℤ) = ((128 : ℕ) : ℤ) from rfl, zpow_natCast]; exact_mod_cast this
    have h2 : R ≤ (2 : ℚ) ^ (128 : ℤ) * (2 : ℚ) ^ u := by
      rw [hRk]; exact mul_le_mul_of_nonneg_right hkle (two_zpow_pos _).le
    have h3 : (2 : ℚ) ^ (128 : ℤ) * (2 : ℚ) ^ u ≤ (2 : ℚ) ^ (-20414 : ℤ) := by
      rw [← zpow_add₀ (by norm_num)]
      exact zpow_le_zpow_right₀ (by norm_num) (by omega)
    have h4 : R ≤ (2 : ℚ) ^ (-20414 : ℤ) := le_trans h2 h3
    rw [h1, le_div_iff₀ hRpos]
    calc (2 : ℚ) ^ (20414 : ℤ) * R ≤ (2 : ℚ) ^ (20414 : ℤ) * (2 : ℚ) ^ (-20414 : ℤ) :=
          mul_le_mul_of_nonneg_left h4 (two_zpow_pos _).le
      _ = 1 := by rw [← zpow_add₀ (by norm_num)]; norm_num
      _ ≤ (R.num.natAbs : ℚ) := hnumpos
  have hbn : Go.Big.bitLen (fvalue F).num.natAbs < 2 ^ 63 := by
    rw [fvalue_num]
    exact bitLen_lt_of_lt (L := 129) (lt_of_le_of_lt (le_trans bn hk) (by norm_num)) (by norm_num)
  have hbd : Go.Big.bitLen (fvalue F).den < 2 ^ 63 := by
    rw [fvalue_den]
    obtain ⟨L, hL1, hL2⟩ : ∃ L : ℕ, (-u).toNat < L ∧ L < 2 ^ 63 := ⟨24833, by omega, by norm_num⟩
    exact bitLen_lt_of_lt (L := L) (lt_of_le_of_lt bd (Nat.pow_lt_pow_right (by norm_num) hL1)) hL2
  have hfn : (Spec.roundTo m (decide ((fvalue F).num < 0)) ((fvalue F).num.natAbs : ℚ)).isFin = true := by
    rw [fvalue_num]
    have hpos : (0 : ℚ) < (R.num.natAbs : ℚ) := lt_of_lt_of_le one_pos hnumpos
    have hle : (R.num.natAbs : ℚ) ≤ (Spec.Cmax : ℚ) * (10 : ℚ) ^ Spec.Emax := by
      have h1 : (R.num.natAbs : ℚ) ≤ ((2 ^ 128 : ℕ) : ℚ) := by exact_mod_cast le_trans bn hk
      have h2 : ((2 ^ 128 : ℕ) : ℚ) ≤ (10 : ℚ) ^ (39 : ℤ) := by norm_num
      have h3 : (10 : ℚ) ^ (39 : ℤ) ≤ (10 : ℚ) ^ Spec.Emax :=
        zpow_le_zpow_right₀ (by norm_num) (by unfold Spec.Emax; norm_num)
      have h4 : (1 : ℚ) ≤ (Spec.Cmax : ℚ) := by unfold Spec.Cmax; norm_num
      calc (R.num.natAbs : ℚ) ≤ 1 * (10 : ℚ) ^ Spec.Emax := by rw [one_mul]; exact le_trans h1 (le_trans h2 h3)
        _ ≤ (Spec.Cmax : ℚ) * (10 : ℚ) ^ Spec.Emax :=
          mul_le_mul_of_nonneg_right h4 (zpow_pos (by norm_num) _).le
    obtain ⟨c, e, h, -⟩ := SpecRound.roundTo_fin_of_le_max m (decide ((fvalue F).num < 0)) hpos hle
    rw [h]; rfl
  have hinf : (Spec.roundTo m false ((fvalue F).den : ℚ)).isFin = false := by
    rw [fvalue_den, roundTo_inf_of_ge m false _ (le_trans max_le_two_20414 hdenQ)]; rfl
  obtain ⟨d', h1, h2, -⟩ := FromRat_den_overflow g (fvalue F) m hm hbn hbd hr hfn hinf
  exact ⟨F, d', hFloat, by rw [FromFloat_eq_FromRat g F rfl]; exact h1, h2⟩

/-! ## the result is a valid `big.Float` -/

theorem recvPrec_le (f : Option BigFloat) (h : ∀ x, f = some x → x.prec ≤ MaxPrec) : recvPrec f ≤ MaxPrec := by
  cases f with
  | none => unfold recvPrec MaxPrec; norm_num
  | some x =>
    have := h x rfl
    show (if x.prec = 0 then 128 else x.prec) ≤ MaxPrec
    split
    · unfold MaxPrec; norm_num
    · exact this

theorem infPrec_le (f : Option BigFloat) (h : ∀ x, f = some x → x.prec ≤ MaxPrec) : infPrec f ≤ MaxPrec := by
  cases f with
  | none => unfold infPrec MaxPrec; norm_num
  | some x =>
    have := h x rfl
    show (if x.prec = 0 then 128 else x.prec) ≤ MaxPrec
    split
    · unfold MaxPrec; norm_num
    · exact this

theorem recvMode_le (f : Option BigFloat) (h : ∀ x, f = some x → x.mode ≤ 5) : recvMode f ≤ 5 := by
  cases f with
  | none => decide
  | some x => exact h x rfl

theorem lt_of_le_maxPrec {n : ℕ} (h : n ≤ MaxPrec) : n < 2 ^ 64 :=
  lt_of_le_of_lt h (by unfold MaxPrec; norm_num)

/-- **the result satisfies the invariants of the model** (`Go.BigFloat.valid`: precision ≤ MaxPrec, a
    RoundingMode, and a finite magnitude that is positive and has at most `prec` significant bits), for
    every non-NaN `d` and every receiver with `prec ≤ MaxPrec` and a legal mode -/
theorem Float_valid (d : Gen.Decimal) (f : Option BigFloat) (hn : Gen.Decimal.IsNaN d = false)
    (hP : ∀ x, f = some x → x.prec ≤ MaxPrec) (hM : ∀ x, f = some x → x.mode ≤ 5) :
    ∃ F, Gen.Decimal.Float d f = .ok F ∧ valid F = true := by
  have hf : ∀ x, f = some x → x.prec < 2 ^ 64 := fun x hx => lt_of_le_maxPrec (hP x hx)
  have h1 := recvPrec_le f hP
  have h2 := recvMode_le f hM
  by_cases hs : Gen.Decimal.isSpecial d = true
  · refine ⟨_, Float_inf d f hs hn hf, ?_⟩
    have h3 := infPrec_le f hP
    simp [valid, h3, h2]
  · have hs' : Gen.Decimal.isSpecial d = false := by simpa using hs
    by_cases hz : (𝔳[d]).toRat = 0
    · refine ⟨_, Float_zero d f hs' hf hz, ?_⟩
      simp [valid, h1, h2]
    · refine ⟨_, Float_nonzero d f hs' hf hz, ?_⟩
      have hp : 0 < recvPrec f := Nat.pos_of_ne_zero (recvPrec_ne f)
      have hq := abs_pos.2 hz
      have a := roundBits_pos (recvPrec f) (recvMode f) (Gen.Decimal.Signbit d) _ hp hq
      have b := roundBits_fits (recvPrec f) (recvMode f) (Gen.Decimal.Signbit d) _ hp hq
      simp [valid, h1, h2, a, b, hp]

end FB
