/-
  D128/Proofs/NeverNaNSpec.lean — property C15, clause "never yields NaN from finite operands otherwise":
  the specification side.  For every operation of D128/Spec/Arith.lean the class of operands for which the
  specified result is a NaN is characterised EXACTLY (all `Spec.Val`, every mode), as a boolean identity
  `(Spec.op … x y).isNaN = <NaN operand> || <the listed invalid combination>`.
  Pure specification-level facts; no generated code.

  Provided (namespace `NN`):
  * `same_isNaN`, `same_isInf`, `same_isFin`      : `Val.same` keeps the class
  * `roundToS_not_nan`, `roundTo_not_nan`, `flushOrRoundS_not_nan`, `flushOrRound_not_nan`,
    `exactOrInfS_not_nan`, `exactOrInf_not_nan`    : the rounding functions never produce a NaN
  * `add_isNaN`, `sub_isNaN`, `mul_isNaN`, `quo_isNaN`, `quoRem_fst_isNaN`, `quoRem_snd_isNaN`
  * `add_fin`, `sub_fin`, `mul_fin`, `quo_fin`, `quoRem_fin` : the finite corollaries
  * `quantize_isNaN`, `ceilDp_isNaN`, `floorDp_isNaN`, `ldexp_isNaN`, `frexp_isNaN`, `newVal_not_nan`,
    `minVal_isNaN`, `maxVal_isNaN`, `negate_isNaN`, `absVal_isNaN`, `fromInt_not_nan`,
    `literalValue_not_nan`
  * `invalid_isNaN`, `invalid1_payload`, `invalid2_payload` : the NaN of an invalid operation and its payload
-/
import D128.Spec.Arith
import D128.Spec.Text
set_option autoImplicit false

namespace NN
open Spec

/-! ## `same` keeps the class -/

theorem same_isNaN {x y : Val} (h : x.same y = true) : x.isNaN = y.isNaN := by
  cases x <;> cases y <;> simp only [Val.same, Bool.false_eq_true] at h <;> rfl

theorem same_isInf {x y : Val} (h : x.same y = true) : x.isInf = y.isInf := by
  cases x <;> cases y <;> simp only [Val.same, Bool.false_eq_true] at h <;> rfl

theorem same_isFin {x y : Val} (h : x.same y = true) : x.isFin = y.isFin := by
  cases x <;> cases y <;> simp only [Val.same, Bool.false_eq_true] at h <;> rfl

/-! ## the rounding functions -/

theorem roundToS_not_nan (m : Mode) (neg : Bool) (q : Rat) (k : Int) :
    (roundToS m neg q k).isNaN = false := by
  unfold roundToS
  dsimp only
  by_cases h1 : roundAt m neg q (spacingExpS q k - k) > Cmax
  · rw [if_pos h1]; dsimp only; split <;> rfl
  · rw [if_neg h1]; dsimp only; split <;> rfl

theorem roundTo_not_nan (m : Mode) (neg : Bool) (q : Rat) : (roundTo m neg q).isNaN = false :=
  roundToS_not_nan m neg q 0

theorem flushOrRoundS_not_nan (m : Mode) (neg : Bool) (q : Rat) (k : Int) :
    (flushOrRoundS m neg q k).isNaN = false := by
  unfold flushOrRoundS
  by_cases h1 : (q == 0) = true
  · rw [if_pos h1]; rfl
  rw [if_neg h1]
  by_cases h2 : ilog10 q + k < Emin - 1
  · rw [if_pos h2]; rfl
  rw [if_neg h2]; exact roundToS_not_nan m neg q k

theorem flushOrRound_not_nan (m : Mode) (neg : Bool) (q : Rat) : (flushOrRound m neg q).isNaN = false :=
  flushOrRoundS_not_nan m neg q 0

theorem exactOrInfS_not_nan (n : Bool) (q : Rat) (k : Int) : (exactOrInfS n q k).isNaN = false := by
  unfold exactOrInfS
  split
  · rfl
  · dsimp only
    split <;> rfl

theorem exactOrInf_not_nan (n : Bool) (q : Rat) : (exactOrInf n q).isNaN = false :=
  exactOrInfS_not_nan n q 0

/-! ## the NaN of an invalid operation -/

theorem invalid_isNaN (op : Op) (l r : UInt64) : (invalid op l r).isNaN = true := rfl
theorem invalid1_isNaN (op : Op) (x : Val) : (invalid1 op x).isNaN = true := rfl
theorem invalid2_isNaN (op : Op) (x y : Val) : (invalid2 op x y).isNaN = true := rfl

/-- the payload of the NaN of a unary invalid operation: `op | class(x) << 8` -/
theorem invalid1_payload (op : Op) (x : Val) :
    invalid1 op x = .nan false (op.code ||| classCode x <<< 8 ||| (0 : UInt64) <<< 16) := rfl

/-- the payload of the NaN of a binary invalid operation: `op | class(x) << 8 | class(y) << 16` -/
theorem invalid2_payload (op : Op) (x y : Val) :
    invalid2 op x y = .nan false (op.code ||| classCode x <<< 8 ||| classCode y <<< 16) := rfl

/-! ## addition and subtraction -/

theorem negate_isNaN (x : Val) : (negate x).isNaN = x.isNaN := by cases x <;> rfl
theorem absVal_isNaN (x : Val) : (absVal x).isNaN = x.isNaN := by cases x <;> rfl

theorem addCore_fin (m : Mode) (n n' : Bool) (c c' : Nat) (e e' : Int) (sub : Bool) :
    (addCore m (.fin n c e) (.fin n' c' e') sub).isNaN = false := by
  cases sub
  all_goals
    simp only [addCore, negate, Bool.false_eq_true, if_false, if_true]
    repeat' split
    all_goals first | rfl | exact roundToS_not_nan _ _ _ _

/-- `x + y` is a NaN exactly when an operand is a NaN or the operands are infinities of opposite signs -/
theorem add_isNaN (m : Mode) (x y : Val) :
    (add m x y).isNaN = (x.isNaN || y.isNaN || (x.isInf && y.isInf && (x.neg != y.neg))) := by
  cases x with
  | nan n p => cases y <;> simp [add, addCore, Val.isNaN]
  | inf n =>
    cases y with
    | nan n' p' => simp [add, addCore, Val.isNaN]
    | inf n' => cases n <;> cases n' <;> simp [add, addCore, Val.isNaN, Val.isInf, Val.neg, invalid2, invalid]
    | fin n' c' e' => simp [add, addCore, Val.isNaN, Val.isInf]
  | fin n c e =>
    cases y with
    | nan n' p' => simp [add, addCore, Val.isNaN]
    | inf n' => simp [add, addCore, Val.isNaN, Val.isInf]
    | fin n' c' e' =>
      rw [add, addCore_fin]; simp [Val.isNaN, Val.isInf]

/-- `x − y` is a NaN exactly when an operand is a NaN or the operands are infinities of the same sign -/
theorem sub_isNaN (m : Mode) (x y : Val) :
    (sub m x y).isNaN = (x.isNaN || y.isNaN || (x.isInf && y.isInf && (x.neg == y.neg))) := by
  cases x with
  | nan n p => cases y <;> simp [sub, addCore, Val.isNaN]
  | inf n =>
    cases y with
    | nan n' p' => simp [sub, addCore, negate, Val.isNaN]
    | inf n' =>
      cases n <;> cases n' <;> simp [sub, addCore, negate, Val.isNaN, Val.isInf, Val.neg, invalid2, invalid]
    | fin n' c' e' => simp [sub, addCore, negate, Val.isNaN, Val.isInf]
  | fin n c e =>
    cases y with
    | nan n' p' => simp [sub, addCore, negate, Val.isNaN]
    | inf n' => simp [sub, addCore, negate, Val.isNaN, Val.isInf]
    | fin n' c' e' =>
      rw [sub, addCore_fin]; simp [Val.isNaN, Val.isInf]

theorem add_fin (m : Mode) (n n' : Bool) (c c' : Nat) (e e' : Int) :
    (add m (.fin n c e) (.fin n' c' e')).isNaN = false := addCore_fin m n n' c c' e e' false
theorem sub_fin (m : Mode) (n n' : Bool) (c c' : Nat) (e e' : Int) :
    (sub m (.fin n c e) (.fin n' c' e')).isNaN = false := addCore_fin m n n' c c' e e' true

/-! ## multiplication and division -/

/-- `x × y` is a NaN exactly when an operand is a NaN or one is a zero and the other an infinity -/
theorem mul_isNaN (m : Mode) (x y : Val) :
    (mul m x y).isNaN =
      (x.isNaN || y.isNaN || (x.isInf && y.isZero) || (x.isZero && y.isInf)) := by
  cases x with
  | nan n p => cases y <;> simp [mul, Val.isNaN]
  | inf n =>
    cases y with
    | nan n' p' => simp [mul, Val.isNaN]
    | inf n' => simp [mul, Val.isNaN, Val.isInf, Val.isZero]
    | fin n' c' e' =>
      cases c' with
      | zero => simp [mul, Val.isNaN, Val.isInf, Val.isZero, invalid2, invalid]
      | succ k => simp [mul, Val.isNaN, Val.isInf, Val.isZero]
  | fin n c e =>
    cases y with
    | nan n' p' => simp [mul, Val.isNaN]
    | inf n' =>
      cases c with
      | zero => simp [mul, Val.isNaN, Val.isInf, Val.isZero, invalid2, invalid]
      | succ k => simp [mul, Val.isNaN, Val.isInf, Val.isZero]
    | fin n' c' e' =>
      simp only [mul, flushOrRoundS_not_nan]; simp [Val.isNaN, Val.isInf]

theorem mul_fin (m : Mode) (n n' : Bool) (c c' : Nat) (e e' : Int) :
    (mul m (.fin n c e) (.fin n' c' e')).isNaN = false := by
  simp only [mul, flushOrRoundS_not_nan]

/-- `x ÷ y` is a NaN exactly when an operand is a NaN, both are infinities or both are zeros -/
theorem quo_isNaN (m : Mode) (x y : Val) :
    (quo m x y).isNaN =
      (x.isNaN || y.isNaN || (x.isInf && y.isInf) || (x.isZero && y.isZero)) := by
  cases x with
  | nan n p => cases y <;> simp [quo, Val.isNaN]
  | inf n =>
    cases y with
    | nan n' p' => simp [quo, Val.isNaN]
    | inf n' => simp [quo, Val.isNaN, Val.isInf, Val.isZero, invalid2, invalid]
    | fin n' c' e' => simp [quo, Val.isNaN, Val.isInf, Val.isZero]
  | fin n c e =>
    cases y with
    | nan n' p' => simp [quo, Val.isNaN]
    | inf n' => simp [quo, Val.isNaN, Val.isInf, Val.isZero]
    | fin n' c' e' =>
      cases c' with
      | zero =>
        cases c with
        | zero => simp [quo, Val.isNaN, Val.isInf, Val.isZero, invalid2, invalid]
        | succ k => simp [quo, Val.isNaN, Val.isInf, Val.isZero]
      | succ k' =>
        have h : ((k' + 1 : Nat) == 0) = false := by simp
        simp only [quo, h, Bool.false_eq_true, if_false, flushOrRoundS_not_nan]
        cases c <;> simp [Val.isNaN, Val.isInf, Val.isZero]

theorem quo_fin (m : Mode) (n n' : Bool) (c c' : Nat) (e e' : Int) (h : c ≠ 0 ∨ c' ≠ 0) :
    (quo m (.fin n c e) (.fin n' c' e')).isNaN = false := by
  rw [quo_isNaN]
  cases c <;> cases c' <;> simp_all [Val.isNaN, Val.isInf, Val.isZero]

/-! ## QuoRem -/

/-- the quotient of `QuoRem` is a NaN exactly when `Quo` would be -/
theorem quoRem_fst_isNaN (m : Mode) (x y : Val) :
    (quoRem m x y).1.isNaN =
      (x.isNaN || y.isNaN || (x.isInf && y.isInf) || (x.isZero && y.isZero)) := by
  cases x with
  | nan n p => cases y <;> simp [quoRem, Val.isNaN]
  | inf n =>
    cases y with
    | nan n' p' => simp [quoRem, Val.isNaN]
    | inf n' => simp [quoRem, Val.isNaN, Val.isInf, Val.isZero, invalid2, invalid]
    | fin n' c' e' => simp [quoRem, Val.isNaN, Val.isInf, Val.isZero]
  | fin n c e =>
    cases y with
    | nan n' p' => simp [quoRem, Val.isNaN]
    | inf n' => simp [quoRem, Val.isNaN, Val.isInf, Val.isZero]
    | fin n' c' e' =>
      cases c' with
      | zero =>
        cases c with
        | zero => simp [quoRem, Val.isNaN, Val.isInf, Val.isZero, invalid2, invalid]
        | succ k => simp [quoRem, Val.isNaN, Val.isInf, Val.isZero]
      | succ k' =>
        have h : ((k' + 1 : Nat) == 0) = false := by simp
        cases c with
        | zero => simp [quoRem, Val.isNaN, Val.isInf, Val.isZero]
        | succ k =>
          have h' : ((k + 1 : Nat) == 0) = false := by simp
          simp only [quoRem, h, h', Bool.false_eq_true, if_false]
          have : ∀ (t : Nat) (b : Bool),
              (if (t == 0) = true then Val.fin b 0 0
                else if isMember (t : Rat) = true then exactOrInf b (t : Rat)
                else roundTo m b (t : Rat)).isNaN = false := by
            intro t b
            split
            · rfl
            · split
              · exact exactOrInf_not_nan _ _
              · exact roundTo_not_nan _ _ _
          rw [this]; simp [Val.isNaN, Val.isInf, Val.isZero]

/-- the remainder of `QuoRem` is a NaN exactly when an operand is a NaN, the dividend is infinite or the
    divisor is zero -/
theorem quoRem_snd_isNaN (m : Mode) (x y : Val) :
    (quoRem m x y).2.isNaN = (x.isNaN || y.isNaN || x.isInf || y.isZero) := by
  cases x with
  | nan n p => cases y <;> simp [quoRem, Val.isNaN]
  | inf n =>
    cases y with
    | nan n' p' => simp [quoRem, Val.isNaN]
    | inf n' => simp [quoRem, Val.isNaN, Val.isInf, Val.isZero, invalid2, invalid]
    | fin n' c' e' => simp [quoRem, Val.isNaN, Val.isInf, Val.isZero, invalid2, invalid]
  | fin n c e =>
    cases y with
    | nan n' p' => simp [quoRem, Val.isNaN]
    | inf n' => simp [quoRem, Val.isNaN, Val.isInf, Val.isZero]
    | fin n' c' e' =>
      cases c' with
      | zero =>
        cases c with
        | zero => simp [quoRem, Val.isNaN, Val.isInf, Val.isZero, invalid2, invalid]
        | succ k => simp [quoRem, Val.isNaN, Val.isInf, Val.isZero, invalid2, invalid]
      | succ k' =>
        have h : ((k' + 1 : Nat) == 0) = false := by simp
        cases c with
        | zero => simp [quoRem, Val.isNaN, Val.isInf, Val.isZero]
        | succ k =>
          have h' : ((k + 1 : Nat) == 0) = false := by simp
          simp only [quoRem, h, h', Bool.false_eq_true, if_false, exactOrInfS_not_nan]
          simp [Val.isNaN, Val.isInf, Val.isZero]

theorem quoRem_fin (m : Mode) (n n' : Bool) (c c' : Nat) (e e' : Int) (h : c' ≠ 0) :
    (quoRem m (.fin n c e) (.fin n' c' e')).1.isNaN = false ∧
    (quoRem m (.fin n c e) (.fin n' c' e')).2.isNaN = false := by
  rw [quoRem_fst_isNaN, quoRem_snd_isNaN]
  cases c <;> cases c' <;> simp_all [Val.isNaN, Val.isInf, Val.isZero]

/-! ## quantisation, scaling -/

theorem quantize_isNaN (dp : Int) (m : Mode) (x : Val) : (quantize dp m x).isNaN = x.isNaN := by
  cases x with
  | nan n p => rfl
  | inf n => rfl
  | fin n c e =>
    simp only [quantize]
    repeat' split
    all_goals first | rfl | exact exactOrInfS_not_nan _ _ _

theorem ceilDp_isNaN (dp : Int) (x : Val) : (ceilDp dp x).isNaN = x.isNaN := by
  cases x with
  | nan n p => rfl
  | inf n => rfl
  | fin n c e =>
    simp only [ceilDp]
    repeat' split
    all_goals first | rfl | exact exactOrInfS_not_nan _ _ _

theorem floorDp_isNaN (dp : Int) (x : Val) : (floorDp dp x).isNaN = x.isNaN := by
  cases x with
  | nan n p => rfl
  | inf n => rfl
  | fin n c e =>
    simp only [floorDp]
    repeat' split
    all_goals first | rfl | exact exactOrInfS_not_nan _ _ _

theorem newVal_not_nan (m : Mode) (sig exp : Int) : (newVal m sig exp).isNaN = false := by
  unfold newVal
  split
  · rfl
  · exact flushOrRoundS_not_nan _ _ _ _

theorem ldexp_isNaN (m : Mode) (x : Val) (exp : Int) : (ldexp m x exp).isNaN = x.isNaN := by
  cases x with
  | nan n p => rfl
  | inf n => rfl
  | fin n c e =>
    simp only [ldexp]
    split
    · rfl
    · rw [flushOrRoundS_not_nan]; rfl

theorem frexp_isNaN (x : Val) : (frexp x).1.isNaN = x.isNaN := by
  cases x with
  | nan n p => rfl
  | inf n => rfl
  | fin n c e =>
    simp only [frexp]
    split <;> rfl

/-! ## Min, Max, conversions, literals -/

theorem ite3_isNaN (a b : Bool) (X Y Z : Val) (hX : X.isNaN = false) (hY : Y.isNaN = false)
    (hZ : Z.isNaN = false) : (if a = true then X else if b = true then Y else Z).isNaN = false := by
  cases a <;> cases b <;> simp [hX, hY, hZ]

theorem minVal_isNaN (x y : Val) : (minVal x y).isNaN = (x.isNaN || y.isNaN) := by
  cases x <;> cases y <;> simp only [minVal, Val.isNaN, Bool.or_false, Bool.or_true]
  all_goals exact ite3_isNaN _ _ _ _ _ rfl rfl rfl

theorem maxVal_isNaN (x y : Val) : (maxVal x y).isNaN = (x.isNaN || y.isNaN) := by
  cases x <;> cases y <;> simp only [maxVal, Val.isNaN, Bool.or_false, Bool.or_true]
  all_goals exact ite3_isNaN _ _ _ _ _ rfl rfl rfl

theorem fromInt_not_nan (i : Int) : (fromInt i).isNaN = false := by
  unfold fromInt; split <;> rfl

theorem literalValue_not_nan (m : Mode) (neg : Bool) (n : Nat) (sc : Int) :
    (literalValue m neg n sc).1.isNaN = false := by
  unfold literalValue
  split
  · rfl
  · exact flushOrRoundS_not_nan _ _ _ _

end NN
