/-
  D128/Proofs/PowLadderAll.lean — property C18: every case that `Spec.powSpecial` fixes, in one theorem.

  Provided (namespace `PowPf`):
  * `powerOfTen_some`  : `powerOfTen c e = some k` means c = 10^a, k = a + e
  * `psTen`, `psFin_ten` : `psFin` on a non-zero finite base that is not (negative with non-integer y)
  * `ladder_all`       : from `ladder` on (no NaN operand, y ∉ {0, ±1}, not |x| = 1 with y = ±Inf):
                         whatever `psLate` prescribes is returned
  * `pow_special_all`  : whatever `Spec.powSpecial` prescribes is returned by `Gen.Decimal.PowWithMode`
                         (valid mode byte; `hquo` is the division theorem for the one call `1/x` made for y = −1)
-/
import D128.Proofs.PowLadderTop

set_option autoImplicit false
set_option maxRecDepth 8192
set_option linter.unusedVariables false
set_option linter.unusedSimpArgs false

namespace PowPf
open Gen Sp Spec
local notation "𝔳[" d "]" => Spec.interp (Gen.Decimal.lo d) (Gen.Decimal.hi d)

theorem powerOfTen_some (c : Nat) (e k : Int) (h : powerOfTen c e = some k) :
    ∃ a : Nat, c = 10 ^ a ∧ k = (a : Int) + e := by
  unfold powerOfTen at h
  by_cases hc : (c != 0 && c == 10 ^ (ndigits c - 1)) = true
  · rw [if_pos hc] at h
    simp only [Bool.and_eq_true, bne_iff_ne, beq_iff_eq] at hc
    have hp := SpecRound.ndigits_pos c
    refine ⟨ndigits c - 1, hc.2, ?_⟩
    have := Option.some.inj h
    omega
  · rw [if_neg hc] at h; cases h

/-- the power-of-ten part of `psFin` (literal sub-term) -/
def psTen (m : Mode) (x y : Val) (xn : Bool) (k : Int) (yn : Bool) (yc : Nat) (ye : Int) : Option Val :=
  let neg := xn && (intParity yc ye == some true)
  if !yn && ye ≥ 0 then
    if ye > 6 || yc * 10 ^ ye.toNat > 20000 then
      some (if k == 0 then .fin neg 1 0 else if k > 0 then .inf neg else .fin neg 0 0)
    else
      let t := k * ((yc * 10 ^ ye.toNat : Nat) : Int)
      some (flushOrRoundS m neg 1 t)
  else if !xn && mag yc ye == 1 / 2 && k % 2 == 0 then
    some (exactOrInfS false 1 (if yn then -(k / 2) else k / 2))
  else none

theorem psFin_ten (m : Mode) (xn : Bool) (xc : Nat) (xe : Int) (yn : Bool) (yc : Nat) (ye : Int) (hx : xc ≠ 0)
    (hnn : (xn && (intParity yc ye).isNone) = false) :
    psFin m (.fin xn xc xe) yn yc ye =
      match powerOfTen xc xe with
      | some k => psTen m (.fin xn xc xe) (.fin yn yc ye) xn k yn yc ye
      | none => none := by
  unfold psFin psTen
  have : (xc == 0) = false := by simpa using hx
  simp only [this, Bool.false_eq_true, if_false, hnn]
  cases powerOfTen xc xe <;> rfl

theorem intParity_nonneg (c : Nat) (e : Int) (he : 0 ≤ e) : (intParity c e).isNone = false := by
  unfold intParity
  by_cases hc : (c == 0) = true
  · rw [if_pos hc]; rfl
  · rw [if_neg hc, if_pos (by simpa using he)]; rfl

theorem mag_nat_nonneg (yc : Nat) (ye : Int) (hye : 0 ≤ ye) :
    Spec.mag yc ye = ((yc * 10 ^ ye.toNat : Nat) : Rat) := by
  have h1 : yc = yc * 10 ^ 0 := by simp
  have hm := mag_strip yc 0 ye
  rw [← h1] at hm
  push_cast at hm
  rw [add_zero, strip_nat _ _ hye] at hm
  rw [hm]

/-- from `ladder` on -/
theorem ladder_all (d o : Decimal) (rm : UInt8) (m : Mode) (w : Val)
    (hm : Spec.Mode.ofNat? rm.toNat = some m)
    (hd : Decimal.IsNaN d = false) (ho : Decimal.IsNaN o = false) (h0 : Decimal.IsZero o = false)
    (hyo : absOne 𝔳[o] = false) (hxo : Decimal.isInf o = true → absOne 𝔳[d] = false)
    (hw : psLate m 𝔳[d] 𝔳[o] = some w) :
    ∃ r, ladder rm d o = .ok r ∧ (𝔳[r]).same w = true := by
  rcases view o with ⟨b1, b2, b3, b4, bv⟩ | ⟨b1, b2, b3, b4, bv⟩ | ⟨b1, b2, b3, b4, b5, bc, bv⟩ | ⟨b1, b2, b3, b4, b5, bc, bb, bv⟩
  · rw [ho] at b1; cases b1
  · -- y = ±Inf
    obtain ⟨e1, e2⟩ := case_yinf d o rm m hd b2 (hxo b2)
    rw [e2] at hw
    have := Option.some.inj hw
    subst this
    exact ⟨_, e1, interp_infTable _ _⟩
  · rw [h0] at b4; cases b4
  · -- finite non-zero y
    rcases view d with ⟨a1, a2, a3, a4, av⟩ | ⟨a1, a2, a3, a4, av⟩ | ⟨a1, a2, a3, a4, a5, ac, av⟩ | ⟨a1, a2, a3, a4, a5, ac, ab, av⟩
    · rw [hd] at a1; cases a1
    · obtain ⟨e1, e2⟩ := case_xinf d o rm m a2 b3 b4 hyo
      rw [e2] at hw
      have := Option.some.inj hw
      subst this
      refine ⟨_, e1, ?_⟩
      cases Decimal.Signbit o
      · simp only [Bool.false_eq_true, if_false, Enc.interp_inf]; exact same_refl _
      · simp only [if_true, Enc.interp_zero]; exact same_zero _ _ _
    · obtain ⟨e1, e2⟩ := case_xzero d o rm m a4 b3 b4 hyo
      rw [e2] at hw
      have := Option.some.inj hw
      subst this
      refine ⟨_, e1, ?_⟩
      cases Decimal.Signbit o
      · simp only [Bool.false_eq_true, if_false, Enc.interp_zero]; exact same_zero _ _ _
      · simp only [if_true, Enc.interp_inf]; exact same_refl _
    · -- finite non-zero x
      by_cases hnn : (Decimal.Signbit d && (intParity (cf o) (ex o)).isNone) = true
      · rw [Bool.and_eq_true] at hnn
        obtain ⟨e1, e2⟩ := case_negnan d o rm m a3 a4 hnn.1 b3 b4 hyo hnn.2
        rw [e2] at hw
        have := Option.some.inj hw
        subst this
        exact ⟨_, e1, same_refl _⟩
      · have hnn' : (Decimal.Signbit d && (intParity (cf o) (ex o)).isNone) = false :=
          Bool.eq_false_iff.mpr hnn
        have hmag := absOne_false_mag o hyo b3
        rw [av, bv, psLate_fin _ _ _ _ _ hmag, psFin_ten _ _ _ _ _ _ _ ac hnn'] at hw
        cases hp : powerOfTen (cf d) (ex d) with
        | none => rw [hp] at hw; cases hw
        | some k =>
          rw [hp] at hw
          replace hw : psTen m (.fin (Decimal.Signbit d) (cf d) (ex d)) (.fin (Decimal.Signbit o) (cf o) (ex o))
            (Decimal.Signbit d) k (Decimal.Signbit o) (cf o) (ex o) = some w := hw
          obtain ⟨a, hca, hk⟩ := powerOfTen_some _ _ _ hp
          have hC : cf o ≤ Spec.Cmax := Enc.decompose_sig_le o
          unfold psTen at hw
          by_cases c1 : (!(Decimal.Signbit o) && decide (ex o ≥ 0)) = true
          · -- non-negative integer y
            rw [Bool.and_eq_true, Bool.not_eq_true', decide_eq_true_eq] at c1
            obtain ⟨hyn, hye⟩ := c1
            have hY := mag_nat_nonneg (cf o) (ex o) hye
            have hY0 : cf o * 10 ^ (ex o).toNat ≠ 0 := Nat.mul_ne_zero bc (by positivity)
            obtain ⟨r, hr, hv⟩ := case_pow10 d o rm a _ a3 hca b3 hyn hY hY0
            have hint := intParity_nonneg (cf o) (ex o) hye
            obtain ⟨w', hw', hs⟩ := psFin_pow10_agrees m (Decimal.Signbit d) a (ex d) (cf o) (ex o) hye bc
              hint
            have hpar : (intParity (cf o) (ex o) == some true) =
                decide ((cf o * 10 ^ (ex o).toNat) % 2 = 1) := by
              rw [intParity_odd _ _ bc hC, hY, oddIntQ_nat]
            -- `hw` is `psFin … = some w` unfolded; fold it back through `psFin_ten`
            have hfold : psFin m (.fin (Decimal.Signbit d) (10 ^ a) (ex d)) false (cf o) (ex o) = some w := by
              have hnn2 : (Decimal.Signbit d && (intParity (cf o) (ex o)).isNone) = false := by
                rw [hint]; simp
              rw [psFin_ten _ _ _ _ _ _ _ (by positivity) hnn2, powerOfTen_pow10]
              show psTen m _ _ (Decimal.Signbit d) ((a : Int) + ex d) false _ _ = some w
              rw [hyn] at hw
              rw [← hk]
              unfold psTen
              exact hw
            rw [hfold] at hw'
            have := Option.some.inj hw'
            subst this
            refine ⟨r, hr, ?_⟩
            rw [hpar] at hs
            rw [NL.same_symm] at hs
            exact NL.same_trans (hv m hm) hs
          · rw [if_neg c1] at hw
            by_cases c2 : (!(Decimal.Signbit d) && Spec.mag (cf o) (ex o) == 1 / 2 && k % 2 == 0) = true
            · -- y = ±1/2, x an even power of ten
              rw [Bool.and_eq_true, Bool.and_eq_true, Bool.not_eq_true', beq_iff_eq, beq_iff_eq] at c2
              obtain ⟨⟨hxn, hhalf⟩, hev⟩ := c2
              rw [hk] at hev
              obtain ⟨r, hr, hv⟩ := case_half d o rm a a3 hxn hca hev b3 hhalf
              -- the range of K = a + ex d for a Decimal
              have hkr : -6176 ≤ (a : Int) + ex d ∧ (a : Int) + ex d ≤ 6145 := by
                have h0' := Enc.decompose_exp_nonneg d
                have h1' := Enc.decompose_exp_le d a3
                have hCd : cf d ≤ Spec.Cmax := Enc.decompose_sig_le d
                rw [hca] at hCd
                have ha : a ≤ 34 := by
                  by_contra hcon
                  have h35 : 10 ^ 35 ≤ 10 ^ a := Nat.pow_le_pow_right (by norm_num) (by omega)
                  have := SpecRound.Cmax_upper
                  omega
                simp only [ex]
                omega
              obtain ⟨w', hw', hs⟩ := psFin_pow10_half m a (ex d) (Decimal.Signbit o) (cf o) (ex o) hhalf hC hev
                hkr.1 hkr.2
              have hfold : psFin m (.fin false (10 ^ a) (ex d)) (Decimal.Signbit o) (cf o) (ex o) = some w := by
                rw [psFin_ten _ _ _ _ _ _ _ (by positivity) (by simp), powerOfTen_pow10]
                show psTen m _ _ false ((a : Int) + ex d) _ _ _ = some w
                unfold psTen
                rw [if_neg c1]
                rw [hxn] at hw
                rw [← hk]
                exact hw
              rw [hfold] at hw'
              have := Option.some.inj hw'
              subst this
              refine ⟨r, hr, ?_⟩
              rw [hv, NL.same_symm]; exact hs
            · rw [if_neg c2] at hw; cases hw

/-- every case fixed by `Spec.powSpecial` -/
theorem pow_special_all (d o : Decimal) (rm : UInt8) (m : Mode) (w : Val)
    (hm : Spec.Mode.ofNat? rm.toNat = some m)
    (hquo : ∃ r, Decimal.QuoWithMode (one false) d rm = .ok r ∧
      (𝔳[r]).same (Spec.quo m 𝔳[one false] 𝔳[d]) = true)
    (hw : powSpecial m 𝔳[d] 𝔳[o] = some w) :
    ∃ r, Decimal.PowWithMode d o rm = .ok r ∧ (𝔳[r]).same w = true := by
  by_cases h0 : Decimal.IsZero o = true
  · obtain ⟨e1, e2⟩ := case_yzero d o rm m h0
    rw [e2] at hw; have := Option.some.inj hw; subst this
    exact ⟨_, e1, by rw [Enc.interp_one]; exact same_refl _⟩
  · have h0' : Decimal.IsZero o = false := by simpa using h0
    by_cases hb : (absOne 𝔳[d] && ((!(Decimal.Signbit d)) || (Decimal.isInf o))) = true
    · rw [Bool.and_eq_true] at hb
      obtain ⟨e1, e2⟩ := case_xone d o rm m h0' hb.1 hb.2
      rw [e2] at hw; have := Option.some.inj hw; subst this
      exact ⟨_, e1, by rw [Enc.interp_one]; exact same_refl _⟩
    · have hb' : (absOne 𝔳[d] && ((!(Decimal.Signbit d)) || (Decimal.isInf o))) = false := by
        simpa using hb
      obtain ⟨e1, e2⟩ := case_late d o rm m h0' hb'
      rw [e2] at hw
      rw [e1]
      by_cases hyo : absOne 𝔳[o] = true
      · cases hs : Decimal.Signbit o
        · obtain ⟨e3, e4⟩ := case_yone_pos d o rm m hyo hs
          rw [e4] at hw; have := Option.some.inj hw; subst this
          exact ⟨_, e3, same_refl _⟩
        · obtain ⟨e3, e4⟩ := case_yone_neg d o rm m hyo hs
          rw [e4] at hw; have := Option.some.inj hw; subst this
          rw [e3]; exact hquo
      · have hyo' : absOne 𝔳[o] = false := by simpa using hyo
        rw [stage2_ladder d o rm hyo']
        by_cases hd : Decimal.IsNaN d = true
        · obtain ⟨e3, e4⟩ := case_nan_left d o rm m hyo' hd
          rw [e4] at hw; have := Option.some.inj hw; subst this
          rw [stage2_ladder d o rm hyo'] at e3
          exact ⟨_, e3, same_refl _⟩
        · have hd' : Decimal.IsNaN d = false := by simpa using hd
          by_cases ho : Decimal.IsNaN o = true
          · obtain ⟨e3, e4⟩ := case_nan_right d o rm m hyo' hd' ho
            rw [e4] at hw; have := Option.some.inj hw; subst this
            rw [stage2_ladder d o rm hyo'] at e3
            exact ⟨_, e3, same_refl _⟩
          · have ho' : Decimal.IsNaN o = false := by simpa using ho
            refine ladder_all d o rm m w hm hd' ho' h0' hyo' ?_ hw
            intro hi
            rw [hi, Bool.or_true, Bool.and_true] at hb'
            exact hb'

end PowPf
