/-
  D128/Proofs/ExpAccExp2Main.lean — property C16: `Gen.Exp2` on its whole finite non-zero path.

  Provided (namespace `ExpAcc`):
  * `Exp2_fin` : `Gen.Exp2` on a finite non-zero argument with the first guard resolved
  * `two_pow_big` : `10^6192 ≤ 2^20640`
  * `Exp2_ok`  : every finite non-zero `d = ±c·10^e`, nearest default mode: no panic, non-negative result that is
                 no `GeneralViolation` for `2^x`, and for an integer `x = k`, `-56 ≤ k ≤ 127`, the member the mode
                 selects for the exact `2^k`
-/
import D128.Proofs.ExpAccExp2
set_option autoImplicit false
set_option maxRecDepth 4096
set_option exponentiation.threshold 512

namespace ExpAcc
open Gen D192 Spec SpecRound EnclPf D128.Proofs.WordsWide D128.Proofs.Total
local notation "𝔳[" d "]" => Spec.interp (Gen.Decimal.lo d) (Gen.Decimal.hi d)

/-- `Gen.Exp2` on a finite non-zero argument, with the first guard resolved -/
theorem Exp2_fin (g : Globals) (d : Decimal) (h1 : Decimal.isSpecial d = false) (h2 : Decimal.IsZero d = false) :
    Gen.Exp2 g d =
      if ((d.decompose.2.toInt - 6176) > 5 - (Nat.log 10 d.decompose.1.toNat : Int)) then
        .ok (outOfRange (Decimal.Signbit d))
      else exp2Split d.decompose.1 (d.decompose.2 - 6176) (Int64.ofNat (Nat.log 10 d.decompose.1.toNat))
        (fun f fe n => exp2Pow d n (fun s e t => exp2Tail g d f fe n s e t)) := by
  rw [Exp2_eq]
  unfold exp2Staged
  simp only [h1, h2, if_false, Bool.false_eq_true]
  rw [U128_log10_eq]
  have hk := Nat.log10_lt_39_of_lt d.decompose.1.toNat d.decompose.1.toNat_lt
  have hl : (Int64.ofNat (Nat.log 10 d.decompose.1.toNat)).toInt = Nat.log 10 d.decompose.1.toNat :=
    Int64.toInt_ofNat_small _ (by omega)
  have he := argOf_exp d h1
  have hc : (Go.conv (d.decompose.2 - 6176) : Int64).toInt = d.decompose.2.toInt - 6176 := by
    rw [conv_i16_i64]; exact he
  have h5 : ((5 : Int64) - Int64.ofNat (Nat.log 10 d.decompose.1.toNat)).toInt
      = 5 - (Nat.log 10 d.decompose.1.toNat : Int) := by
    rw [Int64.toInt_sub, hl]
    have : (5 : Int64).toInt = 5 := by decide
    rw [this]
    apply Int.bmod_eq_of_le <;> omega
  have hg : (decide ((Go.conv (d.decompose.2 - 6176) : Int64) > (5 : Int64) - Int64.ofNat (Nat.log 10 d.decompose.1.toNat)) = true)
      ↔ (d.decompose.2.toInt - 6176) > 5 - (Nat.log 10 d.decompose.1.toNat : Int) := by
    rw [decide_eq_true_eq, gt_iff_lt, Int64.lt_iff_toInt_lt, h5, hc]
  show (Except.ok _ >>= _) = _
  rw [RK.ok_bind]
  by_cases hgd : (d.decompose.2.toInt - 6176) > 5 - (Nat.log 10 d.decompose.1.toNat : Int)
  · rw [if_pos hgd]
    simp only [hg.2 hgd, if_true]
    unfold outOfRange
    cases Decimal.Signbit d <;> rfl
  · rw [if_neg hgd]
    have : ¬ (decide ((Go.conv (d.decompose.2 - 6176) : Int64) > (5 : Int64) - Int64.ofNat (Nat.log 10 d.decompose.1.toNat)) = true) :=
      fun h => hgd (hg.1 h)
    simp only [this]
    rw [if_neg (by decide)]

theorem two_pow_big : (10 : ℝ) ^ (6192 : ℕ) ≤ (2 : ℝ) ^ (20640 : ℕ) := by
  have e1 : (2 : ℝ) ^ (20640 : ℕ) = ((2 : ℝ) ^ 10) ^ (2064 : ℕ) := by rw [← pow_mul]
  have e2 : (10 : ℝ) ^ (6192 : ℕ) = ((10 : ℝ) ^ 3) ^ (2064 : ℕ) := by rw [← pow_mul]
  rw [e1, e2]
  exact pow_le_pow_left₀ (by norm_num) (by norm_num) _

/-- the exact specification of `2^k` for a huge integer exponent is not asked for; only the out-of-range
value against the real target -/
theorem exp2_out (sb : Bool) (A : ℝ) (hA : (20640 : ℝ) ≤ A) :
    (𝔳[outOfRange sb]).neg = false ∧
      ¬ GeneralViolation (Real.exp (if sb then -(A * Real.log 2) else A * Real.log 2)) 𝔳[outOfRange sb] := by
  have hl2 := log2_pos
  have h1 : Real.exp ((20640 : ℕ) * Real.log 2) ≤ Real.exp (A * Real.log 2) := by
    apply Real.exp_le_exp.2
    push_cast
    exact mul_le_mul_of_nonneg_right hA hl2.le
  rw [exp_nat_log 2 (by norm_num)] at h1
  have h2 := le_trans two_pow_big h1
  exact outOfRange_ok' sb _
    (fun _ => le_trans (pow_le_pow_right₀ (by norm_num) (by norm_num)) h2)
    (fun _ => le_trans (pow_le_pow_right₀ (by norm_num) (by norm_num)) h2)

/-- **`Gen.Exp2` on every finite non-zero argument** `d = ±c·10^e` (nearest default mode): no panic; the result
is non-negative, is no `GeneralViolation` for `2^x`, and for an integer `x = k` with `-56 ≤ k ≤ 127` it is the member
the mode selects for the exact `2^k`. -/
theorem Exp2_ok (g : Globals) (m : Spec.Mode)
    (hm : Spec.Mode.ofNat? g.DefaultRoundingMode.toNat = some m) (hn : isNearest m = true)
    (d : Decimal) (h1 : Decimal.isSpecial d = false) (h2 : Decimal.IsZero d = false) :
    ∃ r, Gen.Exp2 g d = .ok r ∧ (𝔳[r]).neg = false ∧
      ¬ GeneralViolation
        (Real.exp ((if Decimal.Signbit d then -absArg d else absArg d) * Real.log 2)) 𝔳[r] ∧
      ∀ k : Int, (if Decimal.Signbit d then -(val (argOf d)) else val (argOf d)) = (k : ℚ) →
        -56 ≤ k → k ≤ 127 → (Spec.flushOrRound m false ((2 : ℚ) ^ k)).same 𝔳[r] = true := by
  obtain ⟨hc1, hcC, he0, he1⟩ := fin_facts d h1 h2
  have hA := absArg_pos d h1 h2
  have hl2 := log2_pos
  have hsign : (if Decimal.Signbit d then -absArg d else absArg d) * Real.log 2
      = if Decimal.Signbit d then -(absArg d * Real.log 2) else absArg d * Real.log 2 := by
    cases Decimal.Signbit d <;> simp
  rw [hsign, Exp2_fin g d h1 h2]
  -- an integer argument of small magnitude is below 20640
  have hsmallk : ∀ k : Int, (if Decimal.Signbit d then -(val (argOf d)) else val (argOf d)) = (k : ℚ) →
      -56 ≤ k → k ≤ 127 → absArg d ≤ 127 := by
    intro k hk hk0 hk1
    unfold absArg
    have : val (argOf d) ≤ 127 := by
      cases hsb : Decimal.Signbit d
      · rw [hsb] at hk; simp only [Bool.false_eq_true, if_false] at hk
        rw [hk]; exact_mod_cast hk1
      · rw [hsb] at hk; simp only [if_true] at hk
        have : val (argOf d) = -(k : ℚ) := by linarith
        rw [this]
        have : (-56 : ℚ) ≤ (k : ℚ) := by exact_mod_cast hk0
        linarith
    have h2 : ((val (argOf d) : ℚ) : ℝ) ≤ ((127 : ℚ) : ℝ) := Rat.cast_le.2 this
    push_cast at h2; exact h2
  have hout : (20640 : ℝ) ≤ absArg d →
      ((𝔳[outOfRange (Decimal.Signbit d)]).neg = false ∧
      ¬ GeneralViolation (Real.exp (if Decimal.Signbit d then -(absArg d * Real.log 2) else absArg d * Real.log 2))
        𝔳[outOfRange (Decimal.Signbit d)]) ∧
      ∀ k : Int, (if Decimal.Signbit d then -(val (argOf d)) else val (argOf d)) = (k : ℚ) →
        -56 ≤ k → k ≤ 127 → (Spec.flushOrRound m false ((2 : ℚ) ^ k)).same 𝔳[outOfRange (Decimal.Signbit d)] = true := by
    intro hbig
    refine ⟨exp2_out _ _ hbig, fun k hk hk0 hk1 => ?_⟩
    have := hsmallk k hk hk0 hk1
    linarith
  by_cases hg : (d.decompose.2.toInt - 6176) > 5 - (Nat.log 10 d.decompose.1.toNat : Int)
  · rw [if_pos hg]
    have hge := arg_ge_of_guard d h1 h2 5 (by exact_mod_cast hg)
    have hge' : (20640 : ℝ) ≤ absArg d := by
      unfold absArg
      have : (((10 : ℚ) ^ (5 + 1) : ℚ) : ℝ) ≤ ((val (argOf d) : ℚ) : ℝ) := Rat.cast_le.2 hge
      push_cast at this; linarith
    obtain ⟨⟨ha, hb⟩, hc⟩ := hout hge'
    exact ⟨_, rfl, ha, hb, hc⟩
  · rw [if_neg hg]
    have hk := Nat.log10_lt_39_of_lt d.decompose.1.toNat d.decompose.1.toNat_lt
    have hl : (Int64.ofNat (Nat.log 10 d.decompose.1.toNat)).toInt = Nat.log 10 d.decompose.1.toNat :=
      Int64.toInt_ofNat_small _ (by omega)
    have hde' : (d.decompose.2 - 6176).toInt = d.decompose.2.toInt - 6176 := argOf_exp d h1
    obtain ⟨f, fe, n, hsplit, hsum, hf1, -, -, hfe0, hfe1, -, -⟩ :=
      exp2Split_eq d.decompose.1 (d.decompose.2 - 6176) (Int64.ofNat (Nat.log 10 d.decompose.1.toNat))
        (fun f fe n => exp2Pow d n (fun s e t => exp2Tail g d f fe n s e t)) hc1 hcC
        (by rw [hde']; omega) (by rw [hde']; omega) hl (by rw [hde', hl]; omega)
    rw [hsplit]
    rw [hde'] at hsum
    have hAeq : (n.toNat : ℚ) + (f.toNat : ℚ) * (10 : ℚ) ^ fe.toInt = val (argOf d) := by
      rw [hsum, val_argOf d h1]
    have hf'0 : (0 : ℚ) ≤ (f.toNat : ℚ) * (10 : ℚ) ^ fe.toInt :=
      mul_nonneg (Nat.cast_nonneg _) (zpow_pos (by norm_num) _).le
    have hpos : 0 < (n.toNat : ℚ) + (f.toNat : ℚ) * (10 : ℚ) ^ fe.toInt := by
      rw [hAeq]
      have : (0 : ℝ) < ((val (argOf d) : ℚ) : ℝ) := hA
      exact_mod_cast this
    -- the three cases of `exp2Pow`
    obtain ⟨hp0, hpbig, -⟩ := exp2Pow_eq d n (fun s e t => exp2Tail g d f fe n s e t)
    by_cases hn6 : 20640 < n.toNat
    · rw [hpbig hn6]
      have hge' : (20640 : ℝ) ≤ absArg d := by
        unfold absArg
        have h1 : (20640 : ℚ) ≤ (n.toNat : ℚ) := by exact_mod_cast hn6.le
        have hq : (20640 : ℚ) ≤ val (argOf d) := by rw [← hAeq]; linarith
        have : ((20640 : ℚ) : ℝ) ≤ ((val (argOf d) : ℚ) : ℝ) := Rat.cast_le.2 hq
        push_cast at this; exact this
      obtain ⟨⟨ha, hb⟩, hc⟩ := hout hge'
      exact ⟨_, rfl, ha, hb, hc⟩
    · -- run `exp2Pow`, then the tail
      have htail : ∃ (s : U192) (e : Int16) (t : Int8),
          exp2Pow d n (fun s e t => exp2Tail g d f fe n s e t) = exp2Tail g d f fe n s e t ∧
            (1 ≤ n.toNat → Post n.toNat s e t) := by
        by_cases hn0 : n.toNat = 0
        · exact ⟨_, _, _, hp0 hn0, fun h => absurd h (by omega)⟩
        · obtain ⟨s, e, t, hr, hpost⟩ := exp2Pow_run d n (fun s e t => exp2Tail g d f fe n s e t)
            (by omega) (by omega)
          exact ⟨s, e, t, hr, fun _ => hpost⟩
      obtain ⟨s, e, t, hrun, hpost⟩ := htail
      rw [hrun]
      obtain ⟨r, hr, hneg, hgv, hex⟩ := exp2Tail_ok g m hm hn d f fe n s e t hf1 hfe0 hfe1 hpos hpost
      rw [hAeq] at hgv
      refine ⟨r, hr, hneg, hgv, fun k hk hk0 hk1 => ?_⟩
      -- an integer argument has no fractional part
      have hab : val (argOf d) = ((if Decimal.Signbit d then -k else k : Int) : ℚ) := by
        cases hsb : Decimal.Signbit d
        · rw [hsb] at hk; simp only [Bool.false_eq_true, if_false] at hk ⊢; exact hk
        · rw [hsb] at hk; simp only [if_true] at hk ⊢; push_cast; linarith
      have hfz : (f.toNat : ℚ) * (10 : ℚ) ^ fe.toInt = 0 := by
        have hfi : (f.toNat : ℚ) * (10 : ℚ) ^ fe.toInt
            = (((if Decimal.Signbit d then -k else k) - (n.toNat : Int) : Int) : ℚ) := by
          rw [Int.cast_sub, ← hab, ← hAeq]; push_cast; ring
        rw [hfi] at hf1 hf'0 ⊢
        have h1 : ((if Decimal.Signbit d then -k else k) - (n.toNat : Int)) < 1 := by exact_mod_cast hf1
        have h0 : 0 ≤ ((if Decimal.Signbit d then -k else k) - (n.toNat : Int)) := by exact_mod_cast hf'0
        have : ((if Decimal.Signbit d then -k else k) - (n.toNat : Int)) = 0 := by omega
        rw [this]; simp
      have hf0 : f.toNat = 0 := by
        rcases mul_eq_zero.1 hfz with h | h
        · exact_mod_cast h
        · exact absurd h (zpow_ne_zero _ (by norm_num))
      have hnk : ((n.toNat : Int)) = if Decimal.Signbit d then -k else k := by
        rw [hfz, add_zero] at hAeq
        have : ((n.toNat : Int) : ℚ) = ((if Decimal.Signbit d then -k else k : Int) : ℚ) := by
          rw [← hab, ← hAeq]; push_cast; rfl
        exact_mod_cast this
      have h56 : if Decimal.Signbit d then n.toNat ≤ 56 else n.toNat ≤ 127 := by
        cases hsb : Decimal.Signbit d <;> rw [hsb] at hnk <;> simp at hnk ⊢ <;> omega
      have := hex hf0 h56
      -- 2^k as `2^n` resp. `1/2^n`
      have hval : (if Decimal.Signbit d then 1 / (2 : ℚ) ^ n.toNat else (2 : ℚ) ^ n.toNat) = (2 : ℚ) ^ k := by
        cases hsb : Decimal.Signbit d
        · rw [hsb] at hnk; simp only [Bool.false_eq_true, if_false] at hnk ⊢
          rw [← hnk, zpow_natCast]
        · rw [hsb] at hnk; simp only [if_true] at hnk ⊢
          have : k = -(n.toNat : Int) := by omega
          rw [this, zpow_neg, zpow_natCast, one_div]
      rw [hval] at this
      exact this

end ExpAcc
