/-
  D128/Proofs/QuoRemMath.lean — the arithmetic of the long division performed by
  `Gen.Decimal.QuoRemWithMode` (natural numbers only).

  The exact problem is `T = t·O + r` with `T = dSig·10^gap` (dividend scaled to the exponent of the
  divisor), `O = oSig`.  The code keeps a remaining exponent `x`, a quotient prefix and the current
  remainder; once the quotient prefix exceeds `Cmax` it stops accumulating digits and only records
  whether a non-zero digit was dropped.

  Provided (namespace `QR`):
  * `LD T O x sig rem trunc K` : the invariant — for the exact quotient prefix `Q` and a number `E` of
      dropped digits: `(Q·O + rem)·10^x = T`, `rem < O`, `sig = Q / 10^E`, `trunc = [Q % 10^E ≠ 0]`,
      `K = x + E` (`K` is the quotient exponent), `0 < E → Cmax < sig`
  * `ld_init`   : after the first division
  * `ld_step2`  : one pass of the accumulating loop (scale by `10^k`, divide, add, drop `j` digits)
  * `ld_step3`  : one pass of the remainder-only loop
  * `ld_small`, `ld_rem_lt`, `ld_K_ge` : projections
  * `ld_final`  : at `x = 0` or `rem = 0`:  `sig = (T/O) / 10^K`, `trunc = [(T/O) % 10^K ≠ 0]`,
                  `rem = T % O`, `trunc = 1 → Cmax < sig`
-/
import Mathlib.Tactic.Ring
import Mathlib.Tactic.Linarith
import D128.Spec.Val

set_option autoImplicit false

namespace QR

def LD (T O x sig rem : Nat) (trunc : Int8) (K : Nat) : Prop :=
  ∃ Q E : Nat, (Q * O + rem) * 10 ^ x = T ∧ rem < O ∧ sig = Q / 10 ^ E ∧
    ((trunc = 0 ∧ Q % 10 ^ E = 0) ∨ (trunc = 1 ∧ Q % 10 ^ E ≠ 0)) ∧ K = x + E ∧
    (0 < E → Spec.Cmax < sig)

theorem ld_init (O x sig rem : Nat) (h : rem < O) :
    LD ((sig * O + rem) * 10 ^ x) O x sig rem 0 x :=
  ⟨sig, 0, rfl, h, by simp, Or.inl ⟨rfl, by simp [Nat.mod_one]⟩, rfl, fun h => absurd h (by omega)⟩

/-- the invariant is satisfiable: `700 = (2·3 + 1)·10^2` -/
example : LD 700 3 2 2 1 0 2 := ld_init 3 2 2 1 (by omega)

theorem ld_step2 (T O x sig rem K k j : Nat) (h : LD T O x sig rem 0 K) (hs : sig ≤ Spec.Cmax)
    (hk : k ≤ x)
    (hj : j = 0 ∨ Spec.Cmax < (sig * 10 ^ k + rem * 10 ^ k / O) / 10 ^ j) :
    LD T O (x - k) ((sig * 10 ^ k + rem * 10 ^ k / O) / 10 ^ j) (rem * 10 ^ k % O)
      (if (sig * 10 ^ k + rem * 10 ^ k / O) % 10 ^ j = 0 then 0 else 1) (x - k + j) := by
  obtain ⟨Q, E, hT, hr, hsig, htr, hK, hE⟩ := h
  have hE0 : E = 0 := by
    by_contra hne
    have := hE (by omega)
    omega
  subst hE0
  have hQ : sig = Q := by rw [hsig]; simp
  subst hQ
  refine ⟨sig * 10 ^ k + rem * 10 ^ k / O, j, ?_, Nat.mod_lt _ (by omega), rfl, ?_, rfl, ?_⟩
  · have hx : x = (x - k) + k := by omega
    have hdm := Nat.div_add_mod (rem * 10 ^ k) O
    rw [← hT]
    conv_rhs => rw [hx, Nat.pow_add]
    have : (sig * 10 ^ k + rem * 10 ^ k / O) * O + rem * 10 ^ k % O = (sig * O + rem) * 10 ^ k := by
      calc (sig * 10 ^ k + rem * 10 ^ k / O) * O + rem * 10 ^ k % O
          = sig * O * 10 ^ k + (O * (rem * 10 ^ k / O) + rem * 10 ^ k % O) := by ring
        _ = sig * O * 10 ^ k + rem * 10 ^ k := by rw [hdm]
        _ = (sig * O + rem) * 10 ^ k := by ring
    rw [this]; ring
  · by_cases h0 : (sig * 10 ^ k + rem * 10 ^ k / O) % 10 ^ j = 0
    · left; exact ⟨by simp [h0], h0⟩
    · right; exact ⟨by simp [h0], h0⟩
  · intro hpos
    rcases hj with hj | hj
    · omega
    · exact hj

theorem ld_step3 (T O x sig rem : Nat) (trunc : Int8) (K k : Nat) (h : LD T O x sig rem trunc K)
    (hs : Spec.Cmax < sig) (hk : k ≤ x) :
    LD T O (x - k) sig (rem * 10 ^ k % O) (if rem * 10 ^ k / O ≠ 0 then 1 else trunc) K := by
  obtain ⟨Q, E, hT, hr, hsig, htr, hK, -⟩ := h
  have hO : 0 < O := by omega
  have hpk : 0 < 10 ^ k := Nat.pow_pos (by norm_num)
  have htmp : rem * 10 ^ k / O < 10 ^ k := by
    apply Nat.div_lt_of_lt_mul
    exact Nat.mul_lt_mul_of_pos_right hr hpk
  generalize htd : rem * 10 ^ k / O = tmp at *
  have hdiv : (Q * 10 ^ k + tmp) / 10 ^ k = Q := by
    rw [Nat.add_comm, Nat.add_mul_div_right _ _ hpk, Nat.div_eq_of_lt htmp, Nat.zero_add]
  have hmod : (Q * 10 ^ k + tmp) % 10 ^ k = tmp := by
    rw [Nat.add_comm, Nat.add_mul_mod_self_right, Nat.mod_eq_of_lt htmp]
  refine ⟨Q * 10 ^ k + tmp, E + k, ?_, Nat.mod_lt _ hO, ?_, ?_, by omega, fun _ => hs⟩
  · have hx : x = (x - k) + k := by omega
    have hdm := Nat.div_add_mod (rem * 10 ^ k) O
    rw [htd] at hdm
    rw [← hT]
    conv_rhs => rw [hx, Nat.pow_add]
    have : (Q * 10 ^ k + tmp) * O + rem * 10 ^ k % O = (Q * O + rem) * 10 ^ k := by
      calc (Q * 10 ^ k + tmp) * O + rem * 10 ^ k % O
          = Q * O * 10 ^ k + (O * tmp + rem * 10 ^ k % O) := by ring
        _ = Q * O * 10 ^ k + rem * 10 ^ k := by rw [hdm]
        _ = (Q * O + rem) * 10 ^ k := by ring
    rw [this]; ring
  · rw [hsig, Nat.add_comm E k, Nat.pow_add, ← Nat.div_div_eq_div_mul, hdiv]
  · have hm : (Q * 10 ^ k + tmp) % 10 ^ (E + k) = tmp + 10 ^ k * (Q % 10 ^ E) := by
      rw [Nat.add_comm E k, Nat.pow_add, Nat.mod_mul, hmod, hdiv]
    rw [hm]
    by_cases ht0 : tmp = 0
    · subst ht0
      simp only [ne_eq, not_true_eq_false, if_false, Nat.zero_add]
      rcases htr with ⟨h1, h2⟩ | ⟨h1, h2⟩
      · left; exact ⟨h1, by rw [h2]; simp⟩
      · right
        refine ⟨h1, ?_⟩
        intro h
        rcases Nat.mul_eq_zero.1 h with h | h
        · omega
        · exact h2 h
    · right
      simp only [ne_eq, ht0, not_false_eq_true, if_true]
      exact ⟨trivial, by omega⟩

theorem ld_final (T O x sig rem : Nat) (trunc : Int8) (K : Nat) (h : LD T O x sig rem trunc K)
    (hx : x = 0 ∨ rem = 0) :
    sig = T / O / 10 ^ K ∧
    ((trunc = 0 ∧ T / O % 10 ^ K = 0) ∨ (trunc = 1 ∧ T / O % 10 ^ K ≠ 0)) ∧
    rem = T % O ∧ (trunc = 1 → Spec.Cmax < sig) := by
  obtain ⟨Q, E, hT, hr, hsig, htr, hK, hE⟩ := h
  have hO : 0 < O := by omega
  have htc : trunc = 1 → Spec.Cmax < sig := by
    intro h1
    apply hE
    rcases htr with ⟨h2, -⟩ | ⟨-, h2⟩
    · rw [h1] at h2; exact absurd h2 (by decide)
    · by_contra h0
      have : E = 0 := by omega
      rw [this] at h2
      simp [Nat.mod_one] at h2
  rcases hx with hx | hx
  · subst hx
    simp only [Nat.pow_zero, Nat.mul_one, Nat.zero_add] at hT hK
    have hq : T / O = Q := by
      rw [← hT, Nat.add_comm, Nat.add_mul_div_right _ _ hO, Nat.div_eq_of_lt hr, Nat.zero_add]
    have hm : T % O = rem := by
      rw [← hT, Nat.add_comm, Nat.add_mul_mod_self_right, Nat.mod_eq_of_lt hr]
    rw [hq, hm, hK]
    exact ⟨hsig, htr, rfl, htc⟩
  · subst hx
    have hpx : 0 < 10 ^ x := Nat.pow_pos (by norm_num)
    have hT' : T = Q * 10 ^ x * O := by rw [← hT]; ring
    have hq : T / O = Q * 10 ^ x := by rw [hT', Nat.mul_div_cancel _ hO]
    have hm : T % O = 0 := by rw [hT', Nat.mul_mod_left]
    rw [hq, hm, hK, Nat.pow_add]
    refine ⟨?_, ?_, rfl, htc⟩
    · rw [hsig, Nat.mul_comm (10 ^ x), Nat.mul_div_mul_right _ _ hpx]
    · rw [Nat.mul_comm (10 ^ x), Nat.mul_mod_mul_right]
      rcases htr with ⟨h1, h2⟩ | ⟨h1, h2⟩
      · left; exact ⟨h1, by rw [h2]; simp⟩
      · right
        refine ⟨h1, ?_⟩
        intro h
        rcases Nat.mul_eq_zero.1 h with h | h
        · exact h2 h
        · omega

/-- while the quotient prefix is at most `Cmax` no digit has been dropped -/
theorem ld_small (T O x sig rem : Nat) (trunc : Int8) (K : Nat) (h : LD T O x sig rem trunc K)
    (hs : sig ≤ Spec.Cmax) : trunc = 0 ∧ K = x := by
  obtain ⟨Q, E, hT, hr, hsig, htr, hK, hE⟩ := h
  have hE0 : E = 0 := by
    by_contra hne
    have := hE (by omega)
    omega
  subst hE0
  refine ⟨?_, by omega⟩
  rcases htr with ⟨h1, -⟩ | ⟨-, h2⟩
  · exact h1
  · simp [Nat.mod_one] at h2

theorem ld_rem_lt (T O x sig rem : Nat) (trunc : Int8) (K : Nat) (h : LD T O x sig rem trunc K) :
    rem < O := by
  obtain ⟨Q, E, hT, hr, -⟩ := h
  exact hr

theorem ld_K_ge (T O x sig rem : Nat) (trunc : Int8) (K : Nat) (h : LD T O x sig rem trunc K) :
    x ≤ K := by
  obtain ⟨Q, E, hT, hr, hsig, htr, hK, hE⟩ := h
  omega

end QR
