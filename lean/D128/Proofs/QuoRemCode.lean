/-
  D128/Proofs/QuoRemCode.lean — stage decomposition of the generated `Gen.Decimal.QuoRemWithMode`
  (Go: /repo/arith.go, `func (d Decimal) QuoRemWithMode`).

  The generated function is one long `do` block with thirteen `while` loops (three of them with
  nested loops).  We name the loop bodies and the continuations; every name is tied to the generated
  definition by `QuoRemWithMode_eq`, which is proved by definitional unfolding
  (`unfold …; simp only []`), so it breaks when the generated code changes.  Nothing here is a model
  that anything is proved "instead of".

  Provided (namespace `QR`):
  * `so4Body`, `so1Body`       : scaling of the divisor `oSig` (exponent gap < 0), state `(oSig, exp)`
  * `sd4Body`, `sd1Body`       : scaling of the dividend `dSig` (gap > 0), state `(dSig, dExp, exp)`
  * `a4Body`, `a1Body`, `aBody`: the 64-bit accumulation loop and its two scaling loops
  * `m4Body`, `m1Body`, `dropBody`, `l2Body` : the 128-bit accumulation loop (quotient and remainder),
                                 its scaling loops and the loop dropping digits of the 192-bit sum
  * `r4Body`, `r1Body`, `l3Body` : the remainder-only continuation
  * `finish`                   : two `reduce128`, overflow tests, `compose`
  * `qrMain`, `qrDiv`, `qrNeg`, `qrPos`, `qrFinite` : the continuations
  * `QuoRemWithMode_eq`        : for finite non-zero operands
      `Gen.Decimal.QuoRemWithMode d o rm = qrFinite rm d (d.Signbit != o.Signbit) d.Signbit dSig dExp oSig oExp`
-/
import D128.Gen.Arith2
import D128.Proofs.RoundKernelCode

set_option autoImplicit false
set_option maxRecDepth 8192
set_option linter.unusedVariables false

namespace QR
open Gen

/-! ## scaling of the operands -/

/-- `for exp <= -4 && oSig[1] <= 0x0002_7fff_ffff_ffff { oSig = oSig.mul64(10_000); exp += 4 }` -/
def so4Body (_ : Unit) (s : U128 × Int16) : Go.GoM (ForInStep (U128 × Int16)) :=
  if (decide (s.2 ≤ -4) && decide (s.1.w1 ≤ 703687441776639)) = true then
    pure (ForInStep.yield (U128.mul64 s.1 10000, s.2 + 4))
  else pure (ForInStep.done (s.1, s.2))

/-- `for exp < 0 && oSig[1] <= 0x18ff_ffff_ffff_ffff { oSig = oSig.mul64(10); exp++ }` -/
def so1Body (_ : Unit) (s : U128 × Int16) : Go.GoM (ForInStep (U128 × Int16)) :=
  if (decide (s.2 < 0) && decide (s.1.w1 ≤ 1801439850948198399)) = true then
    pure (ForInStep.yield (U128.mul64 s.1 10, s.2 + 1))
  else pure (ForInStep.done (s.1, s.2))

/-- `for exp >= 4 && dSig[1] <= 0x0002_7fff_ffff_ffff { dSig = dSig.mul64(10_000); dExp -= 4; exp -= 4 }` -/
def sd4Body (_ : Unit) (s : U128 × Int16 × Int16) : Go.GoM (ForInStep (U128 × Int16 × Int16)) :=
  if (decide (s.2.2 ≥ 4) && decide (s.1.w1 ≤ 703687441776639)) = true then
    pure (ForInStep.yield (U128.mul64 s.1 10000, s.2.1 - 4, s.2.2 - 4))
  else pure (ForInStep.done (s.1, s.2.1, s.2.2))

/-- `for exp > 0 && dSig[1] <= 0x18ff_ffff_ffff_ffff { dSig = dSig.mul64(10); dExp--; exp-- }` -/
def sd1Body (_ : Unit) (s : U128 × Int16 × Int16) : Go.GoM (ForInStep (U128 × Int16 × Int16)) :=
  if (decide (s.2.2 > 0) && decide (s.1.w1 ≤ 1801439850948198399)) = true then
    pure (ForInStep.yield (U128.mul64 s.1 10, s.2.1 - 1, s.2.2 - 1))
  else pure (ForInStep.done (s.1, s.2.1, s.2.2))

/-! ## the 64-bit accumulation loop -/

abbrev A5 := Int16 × Int16 × Int16 × UInt64 × UInt64
abbrev A6 := Int16 × Int16 × Int16 × UInt64 × UInt64 × UInt64

/-- state `(exp, qexp, rexp, sig64, rem64)` -/
def a4Body (_ : Unit) (s : A5) : Go.GoM (ForInStep A5) :=
  if (decide (s.1 ≥ 4) && decide (s.2.2.2.2 ≤ 703687441776639) &&
      decide (s.2.2.2.1 ≤ 703687441776639)) = true then
    pure (ForInStep.yield (s.1 - 4, s.2.1 - 4, s.2.2.1 - 4, s.2.2.2.1 * 10000, s.2.2.2.2 * 10000))
  else pure (ForInStep.done (s.1, s.2.1, s.2.2.1, s.2.2.2.1, s.2.2.2.2))

def a1Body (_ : Unit) (s : A5) : Go.GoM (ForInStep A5) :=
  if (decide (s.1 > 0) && decide (s.2.2.2.2 ≤ 1801439850948198399) &&
      decide (s.2.2.2.1 ≤ 1801439850948198399)) = true then
    pure (ForInStep.yield (s.1 - 1, s.2.1 - 1, s.2.2.1 - 1, s.2.2.2.1 * 10, s.2.2.2.2 * 10))
  else pure (ForInStep.done (s.1, s.2.1, s.2.2.1, s.2.2.2.1, s.2.2.2.2))

/-- state `(exp, qexp, rexp, sig64, rem64, carry)` -/
def aBody (o : UInt64) (_ : Unit) (s : A6) : Go.GoM (ForInStep A6) :=
  if (decide (s.1 > 0) && s.2.2.2.2.1 != 0 && decide (s.2.2.2.1 ≤ 1801439850948198399)) = true then do
    let s1 ← forIn Lean.Loop.mk (s.1, s.2.1, s.2.2.1, s.2.2.2.1, s.2.2.2.2.1) a4Body
    let s2 ← forIn Lean.Loop.mk (s1.1, s1.2.1, s1.2.2.1, s1.2.2.2.1, s1.2.2.2.2) a1Body
    if decide (s2.2.2.2.2 < o) = true then
      pure (ForInStep.done (s2.1, s2.2.1, s2.2.2.1, s2.2.2.2.1, s2.2.2.2.2, s.2.2.2.2.2))
    else do
      let t ← Go.bits.Div64 0 s2.2.2.2.2 o
      if ((Go.bits.Add64 s2.2.2.2.1 t.1 0).2 != 0) = true then
        pure (ForInStep.done (s2.1, s2.2.1, s2.2.2.1, (Go.bits.Add64 s2.2.2.2.1 t.1 0).1, t.2,
          (Go.bits.Add64 s2.2.2.2.1 t.1 0).2))
      else
        pure (ForInStep.yield (s2.1, s2.2.1, s2.2.2.1, (Go.bits.Add64 s2.2.2.2.1 t.1 0).1, t.2,
          (Go.bits.Add64 s2.2.2.2.1 t.1 0).2))
  else pure (ForInStep.done (s.1, s.2.1, s.2.2.1, s.2.2.2.1, s.2.2.2.2.1, s.2.2.2.2.2))

/-! ## the 128-bit accumulation loop -/

abbrev M5 := Int16 × Int16 × Int16 × U128 × U128
abbrev M6 := Int16 × Int16 × Int16 × U128 × U128 × Int8

/-- state `(exp, qexp, rexp, sig, rem)` -/
def m4Body (_ : Unit) (s : M5) : Go.GoM (ForInStep M5) :=
  if (decide (s.1 ≥ 4) && decide (s.2.2.2.2.w1 ≤ 703687441776639) &&
      decide (s.2.2.2.1.w1 ≤ 703687441776639)) = true then
    pure (ForInStep.yield (s.1 - 4, s.2.1 - 4, s.2.2.1 - 4, U128.mul64 s.2.2.2.1 10000,
      U128.mul64 s.2.2.2.2 10000))
  else pure (ForInStep.done (s.1, s.2.1, s.2.2.1, s.2.2.2.1, s.2.2.2.2))

def m1Body (_ : Unit) (s : M5) : Go.GoM (ForInStep M5) :=
  if (decide (s.1 > 0) && decide (s.2.2.2.2.w1 ≤ 1801439850948198399) &&
      decide (s.2.2.2.1.w1 ≤ 1801439850948198399)) = true then
    pure (ForInStep.yield (s.1 - 1, s.2.1 - 1, s.2.2.1 - 1, U128.mul64 s.2.2.2.1 10,
      U128.mul64 s.2.2.2.2 10))
  else pure (ForInStep.done (s.1, s.2.1, s.2.2.1, s.2.2.2.1, s.2.2.2.2))

/-- `for sig192[2] != 0 { sig192, rem192 = sig192.div10(); qexp++; if rem192 != 0 { trunc = 1 } }`,
    state `(qexp, trunc, sig192)` -/
def dropBody (_ : Unit) (s : Int16 × Int8 × U192) : Go.GoM (ForInStep (Int16 × Int8 × U192)) :=
  if (s.2.2.w2 != 0) = true then do
    let x ← U192.div10 s.2.2
    if (x.2 != 0) = true then pure (ForInStep.yield (s.1 + 1, 1, x.1))
    else pure (ForInStep.yield (s.1 + 1, s.2.1, x.1))
  else pure (ForInStep.done (s.1, s.2.1, s.2.2))

/-- state `(exp, qexp, rexp, sig, rem, trunc)` -/
def l2Body (oS : U128) (_ : Unit) (s : M6) : Go.GoM (ForInStep M6) :=
  if (decide (s.1 > 0) && s.2.2.2.2.1.w0 ||| s.2.2.2.2.1.w1 != 0 &&
      decide (s.2.2.2.1.w1 ≤ 703687441776639)) = true then do
    let s1 ← forIn Lean.Loop.mk (s.1, s.2.1, s.2.2.1, s.2.2.2.1, s.2.2.2.2.1) m4Body
    let s2 ← forIn Lean.Loop.mk (s1.1, s1.2.1, s1.2.2.1, s1.2.2.2.1, s1.2.2.2.2) m1Body
    let x ← U128.div s2.2.2.2.2 oS
    let s3 ← forIn Lean.Loop.mk (s2.2.1, s.2.2.2.2.2, U128.add s2.2.2.2.1 x.1) dropBody
    pure (ForInStep.yield (s2.1, s3.1, s2.2.2.1, { w0 := s3.2.2.w0, w1 := s3.2.2.w1 }, x.2, s3.2.1))
  else pure (ForInStep.done (s.1, s.2.1, s.2.2.1, s.2.2.2.1, s.2.2.2.2.1, s.2.2.2.2.2))

/-! ## the remainder-only continuation -/

/-- state `(exp, rexp, rem)` -/
def r4Body (_ : Unit) (s : Int16 × Int16 × U128) : Go.GoM (ForInStep (Int16 × Int16 × U128)) :=
  if (decide (s.1 ≥ 4) && decide (s.2.2.w1 ≤ 703687441776639)) = true then
    pure (ForInStep.yield (s.1 - 4, s.2.1 - 4, U128.mul64 s.2.2 10000))
  else pure (ForInStep.done (s.1, s.2.1, s.2.2))

def r1Body (_ : Unit) (s : Int16 × Int16 × U128) : Go.GoM (ForInStep (Int16 × Int16 × U128)) :=
  if (decide (s.1 > 0) && decide (s.2.2.w1 ≤ 1801439850948198399)) = true then
    pure (ForInStep.yield (s.1 - 1, s.2.1 - 1, U128.mul64 s.2.2 10))
  else pure (ForInStep.done (s.1, s.2.1, s.2.2))

abbrev R4 := Int16 × Int16 × U128 × Int8

/-- state `(exp, rexp, rem, trunc)` -/
def l3Body (oS : U128) (_ : Unit) (s : R4) : Go.GoM (ForInStep R4) :=
  if (decide (s.1 > 0) && s.2.2.1.w0 ||| s.2.2.1.w1 != 0) = true then do
    let s1 ← forIn Lean.Loop.mk (s.1, s.2.1, s.2.2.1) r4Body
    let s2 ← forIn Lean.Loop.mk (s1.1, s1.2.1, s1.2.2) r1Body
    let x ← U128.div s2.2.2 oS
    if (x.1.w0 ||| x.1.w1 != 0) = true then pure (ForInStep.yield (s2.1, s2.2.1, x.2, 1))
    else pure (ForInStep.yield (s2.1, s2.2.1, x.2, s.2.2.2))
  else pure (ForInStep.done (s.1, s.2.1, s.2.2.1, s.2.2.2))

/-! ## continuations -/

/-- the two roundings, the overflow tests and `compose` -/
def finish (rm : UInt8) (qneg rneg : Bool) (sig : U128) (qexp : Int16) (trunc : Int8) (rem : U128)
    (rexp : Int16) : Go.GoM (Decimal × Decimal) := do
  let x ← RoundingMode.reduce128 rm qneg sig qexp trunc
  let y ← RoundingMode.reduce128 rm rneg rem rexp 0
  if decide (x.2 > 12287) = true then
    if decide (y.2 > 12287) = true then pure (inf qneg, inf rneg)
    else pure (inf qneg, compose rneg y.1 y.2)
  else
    if decide (y.2 > 12287) = true then pure (compose qneg x.1 x.2, inf rneg)
    else pure (compose qneg x.1 x.2, compose rneg y.1 y.2)

/-- everything after the first division -/
def qrMain (rm : UInt8) (qneg rneg : Bool) (oS : U128) (exp qexp rexp : Int16) (sig rem : U128) :
    Go.GoM (Decimal × Decimal) := do
  let s ← forIn Lean.Loop.mk (exp, qexp, rexp, sig, rem, (0 : Int8)) (l2Body oS)
  let s' ← forIn Lean.Loop.mk (s.1, s.2.2.1, s.2.2.2.2.1, s.2.2.2.2.2) (l3Body oS)
  finish rm qneg rneg s.2.2.2.1 s.2.1 s'.2.2.2 s'.2.2.1 s'.2.1

/-- the first division (64-bit or 128-bit) and the rest -/
def qrDiv (rm : UInt8) (qneg rneg : Bool) (dS : U128) (dE : Int16) (oS : U128) (exp : Int16) :
    Go.GoM (Decimal × Decimal) :=
  if (dS.w1 ||| oS.w1 == 0) = true then do
    let t ← Go.bits.Div64 0 dS.w0 oS.w0
    let s ← forIn Lean.Loop.mk (exp, exp + 6176, dE, t.1, t.2, (0 : UInt64)) (aBody oS.w0)
    qrMain rm qneg rneg oS s.1 s.2.1 s.2.2.1 { w0 := s.2.2.2.1, w1 := s.2.2.2.2.2 }
      { w0 := s.2.2.2.2.1, w1 := 0 }
  else do
    let x ← U128.div dS oS
    qrMain rm qneg rneg oS exp (exp + 6176) dE x.1 x.2

/-- exponent gap < 0 after the optional pre-scaling of the divisor by 10¹⁹ -/
def qrNeg (rm : UInt8) (d : Decimal) (qneg rneg : Bool) (dS : U128) (dE : Int16) (oS : U128)
    (exp : Int16) : Go.GoM (Decimal × Decimal) := do
  let s ← forIn Lean.Loop.mk (oS, exp) so4Body
  let s ← forIn Lean.Loop.mk (s.1, s.2) so1Body
  if (decide (s.2 < 0) || decide (U128.cmp s.1 dS > 0)) = true then pure (zero qneg, d)
  else qrDiv rm qneg rneg dS dE s.1 s.2

/-- exponent gap > 0 after the optional pre-scaling of the dividend by 10¹⁹ -/
def qrPos (rm : UInt8) (qneg rneg : Bool) (dS : U128) (dE : Int16) (oS : U128) (exp : Int16) :
    Go.GoM (Decimal × Decimal) := do
  let s ← forIn Lean.Loop.mk (dS, dE, exp) sd4Body
  let s ← forIn Lean.Loop.mk (s.1, s.2.1, s.2.2) sd1Body
  qrDiv rm qneg rneg s.1 s.2.1 oS s.2.2

/-- `QuoRemWithMode` for finite non-zero operands with significands `dS`, `oS` and biased exponents
    `dE`, `oE` -/
def qrFinite (rm : UInt8) (d : Decimal) (qneg rneg : Bool) (dS : U128) (dE : Int16) (oS : U128)
    (oE : Int16) : Go.GoM (Decimal × Decimal) :=
  if decide (dE - 6176 - (oE - 6176) < 0) = true then
    if (decide (dE - 6176 - (oE - 6176) ≤ -19) && oS.w1 == 0) = true then
      qrNeg rm d qneg rneg dS dE (U128.mul64 oS 10000000000000000000) (dE - 6176 - (oE - 6176) + 19)
    else qrNeg rm d qneg rneg dS dE oS (dE - 6176 - (oE - 6176))
  else if decide (dE - 6176 - (oE - 6176) > 0) = true then
    if (decide (dE - 6176 - (oE - 6176) ≥ 19) && dS.w1 == 0) = true then
      qrPos rm qneg rneg (U128.mul64 dS 10000000000000000000) (dE - 19) oS (dE - 6176 - (oE - 6176) - 19)
    else qrPos rm qneg rneg dS dE oS (dE - 6176 - (oE - 6176))
  else qrDiv rm qneg rneg dS dE oS (dE - 6176 - (oE - 6176))

theorem QuoRemWithMode_eq (d o : Decimal) (rm : UInt8)
    (hd : Decimal.isSpecial d = false) (ho : Decimal.isSpecial o = false)
    (hzo : ((Decimal.decompose o).1.w0 ||| (Decimal.decompose o).1.w1 == 0) = false)
    (hzd : ((Decimal.decompose d).1.w0 ||| (Decimal.decompose d).1.w1 == 0) = false) :
    Decimal.QuoRemWithMode d o rm =
      qrFinite rm d (Decimal.Signbit d != Decimal.Signbit o) (Decimal.Signbit d)
        (Decimal.decompose d).1 (Decimal.decompose d).2 (Decimal.decompose o).1
        (Decimal.decompose o).2 := by
  unfold Decimal.QuoRemWithMode
  simp only [hd, ho, Bool.or_self, Bool.false_eq_true, if_false, hzo, hzd]
  unfold qrFinite qrPos qrNeg qrDiv qrMain finish l3Body r1Body r4Body l2Body dropBody m1Body m4Body
    aBody a1Body a4Body sd1Body sd4Body so1Body so4Body
  simp only []

end QR
