/-
  D128/Proofs/CohortElem.lean — the table of special operands of the ten unary elementary functions
  (`Spec.specialCase`, property C15) depends on the operand value only (property C19, first clause; pure
  specification-level mathematics).

  * `optSame`              : `same` lifted to `Option Val` (`none` = "general finite case")
  * `specialCase_congr`    : `x.same x' → optSame (specialCase f x) (specialCase f x')`
  * `specialCase_some_congr` : … so a tabulated result for `x` gives a `same` tabulated result for `x'`
-/
import D128.Proofs.CohortArith
import D128.Spec.Elem
set_option autoImplicit false

namespace Cohort
open Spec

/-- `Val.same` lifted to optional values -/
def optSame : Option Val → Option Val → Bool
  | some a, some b => a.same b
  | none, none => true
  | _, _ => false

theorem optSame_refl (a : Option Val) : optSame a a = true := by
  cases a with
  | none => rfl
  | some v => exact same_refl v

theorem invalid1_congr (op : Op) {x x' : Val} (h : x.sameNum x' = true) :
    invalid1 op x = invalid1 op x' := by
  unfold invalid1; rw [classCode_congr h]

theorem mag_congr {c c' : Nat} {e e' : Int}
    (h : (c : ℚ) * (10 : ℚ) ^ e = (c' : ℚ) * (10 : ℚ) ^ e') : Spec.mag c e = Spec.mag c' e' := by
  simp only [Spec.mag, SpecRound.pow10_eq_zpow]; exact h

theorem specialCase_fin_congr (f : Fn) (n : Bool) (c c' : Nat) (e e' : Int)
    (hm : (c : ℚ) * (10 : ℚ) ^ e = (c' : ℚ) * (10 : ℚ) ^ e') :
    optSame (specialCase f (.fin n c e)) (specialCase f (.fin n c' e')) = true := by
  have hi : ∀ op, invalid1 op (.fin n c e) = invalid1 op (.fin n c' e') := fun op =>
    invalid1_congr op (sameNum_of_same ((same_fin_iff _ _ _ _ _ _).2 ⟨rfl, hm⟩))
  simp only [specialCase]
  rw [beq_zero_congr hm, mag_congr hm]
  simp only [hi]
  exact optSame_refl _

/-- **The special-operand table of the elementary functions depends on the operand value only.** -/
theorem specialCase_congr (f : Fn) {x x' : Val} (h : x.same x' = true) :
    optSame (specialCase f x) (specialCase f x') = true := by
  rcases same_cases h with ⟨n, p, rfl, rfl⟩ | ⟨n, rfl, rfl⟩ | ⟨n, c, e, c', e', rfl, rfl, hm⟩
  · exact optSame_refl _
  · exact optSame_refl _
  · exact specialCase_fin_congr f n c c' e e' hm

theorem specialCase_some_congr (f : Fn) {x x' : Val} (h : x.same x' = true) (w : Val)
    (hw : specialCase f x = some w) : ∃ w', specialCase f x' = some w' ∧ w.same w' = true := by
  have := specialCase_congr f h
  rw [hw] at this
  cases h' : specialCase f x' with
  | none => rw [h'] at this; simp [optSame] at this
  | some w' => rw [h'] at this; exact ⟨w', rfl, this⟩

end Cohort
