/-
  D128/Proofs/FloatToSpec.lean — `Gen.Decimal.Float64` against the executable adjacency check
  `Spec.binAdjacent Spec.f64` of D128/Spec/Conv.lean (the check the differential harness runs).

  Provided (namespace `F2`):
  * `pow2_eq`, `ilog2_spec`, `den_one_iff_floor`, `mag_eq` : the specification's helpers (`pow2 e = 2^e`,
       `2^(ilog2 q) ≤ q < 2^(ilog2 q + 1)`, `s.den = 1 ↔ ⌊s⌋ = s`)
  * `binNeighbours_f64`  : closed form of `Spec.binNeighbours Spec.f64 v` (`u` = exponent of the last place,
       `k = ⌊v/2^u⌋ < 2^53`, `2^52 ≤ k` unless `u = -1074`)
  * `float_of_dyadic`, `float_on_grid`, `maxFinite_eq`, `F64_fin_le_max`
  * `neighbours_ok`      : `Adjacent64 n v r` ⇒ `r` is accepted by the neighbour test
  * `binAdjacent_fin`, `Float64_binAdjacent` :
       `Gen.Decimal.Float64 d = .ok r → Spec.binAdjacent Spec.f64 𝔳[d] r.bits.toNat = none`   (all `d`)
-/
import D128.Proofs.FloatToTop
import D128.Proofs.FloatFromSpec
import D128.Spec.Conv

set_option autoImplicit false
set_option maxRecDepth 8192
set_option linter.unusedVariables false

namespace F2
open Gen Go

local notation "𝔳[" d "]" => Spec.interp (Gen.Decimal.lo d) (Gen.Decimal.hi d)

/-! ## the specification's helpers -/

theorem pow2_eq (e : ℤ) : Spec.pow2 e = (2 : ℚ) ^ e := by
  unfold Spec.pow2
  split
  · rename_i h
    obtain ⟨k, rfl⟩ : ∃ k : ℕ, e = k := ⟨e.toNat, by omega⟩
    simp
  · rename_i h
    obtain ⟨k, hk⟩ : ∃ k : ℕ, -e = k := ⟨(-e).toNat, by omega⟩
    have : e = -(k : ℤ) := by omega
    rw [hk, this, zpow_neg, zpow_natCast]; simp

theorem ilog2_spec (q : ℚ) (hq : 0 < q) :
    (2 : ℚ) ^ (Spec.ilog2 q) ≤ q ∧ q < (2 : ℚ) ^ (Spec.ilog2 q + 1) := by
  have hnum : 0 < q.num := Rat.num_pos.2 hq
  have hn : q.num.natAbs ≠ 0 := by omega
  have hcast : ((q.num.natAbs : ℕ) : ℚ) = (q.num : ℚ) := by
    have : ((q.num.natAbs : ℕ) : ℤ) = q.num := by omega
    rw [← Int.cast_natCast, this]
  have hqe : q = (q.num.natAbs : ℚ) / (q.den : ℚ) := by
    rw [hcast]; exact (Rat.num_div_den q).symm
  have hdpos : (0 : ℚ) < (q.den : ℚ) := by exact_mod_cast q.den_pos
  have a1 : (2 : ℚ) ^ (q.num.natAbs.log2 : ℤ) ≤ (q.num.natAbs : ℚ) := by
    rw [zpow_natCast]; exact_mod_cast Nat.log2_self_le hn
  have a2 : (q.num.natAbs : ℚ) < (2 : ℚ) ^ ((q.num.natAbs.log2 : ℤ) + 1) := by
    rw [show ((q.num.natAbs.log2 : ℤ) + 1) = ((q.num.natAbs.log2 + 1 : ℕ) : ℤ) by push_cast; rfl, zpow_natCast]
    exact_mod_cast Nat.lt_log2_self
  have b1 : (2 : ℚ) ^ (q.den.log2 : ℤ) ≤ (q.den : ℚ) := by
    rw [zpow_natCast]; exact_mod_cast Nat.log2_self_le q.den_nz
  have b2 : (q.den : ℚ) < (2 : ℚ) ^ ((q.den.log2 : ℤ) + 1) := by
    rw [show ((q.den.log2 : ℤ) + 1) = ((q.den.log2 + 1 : ℕ) : ℤ) by push_cast; rfl, zpow_natCast]
    exact_mod_cast Nat.lt_log2_self
  set a : ℤ := (q.num.natAbs.log2 : ℤ) with ha
  set b : ℤ := (q.den.log2 : ℤ) with hb
  have hp : ∀ k : ℤ, (0 : ℚ) < 2 ^ k := fun k => zpow_pos (by norm_num) k
  have lower : (2 : ℚ) ^ (a - b - 1) < q := by
    have : (2 : ℚ) ^ (a - b - 1) = 2 ^ a / 2 ^ (b + 1) := by
      rw [← zpow_sub₀ (by norm_num)]; congr 1; ring
    rw [this, hqe, div_lt_div_iff₀ (hp _) hdpos]
    calc (2 : ℚ) ^ a * (q.den : ℚ) < 2 ^ a * 2 ^ (b + 1) := mul_lt_mul_of_pos_left b2 (hp _)
      _ ≤ (q.num.natAbs : ℚ) * 2 ^ (b + 1) := mul_le_mul_of_nonneg_right a1 (hp _).le
  have upper : q < (2 : ℚ) ^ (a - b + 1) := by
    have : (2 : ℚ) ^ (a - b + 1) = 2 ^ (a + 1) / 2 ^ b := by
      rw [← zpow_sub₀ (by norm_num)]; congr 1; ring
    rw [this, hqe, div_lt_div_iff₀ hdpos (hp _)]
    calc (q.num.natAbs : ℚ) * 2 ^ b < 2 ^ (a + 1) * 2 ^ b := mul_lt_mul_of_pos_right a2 (hp _)
      _ ≤ 2 ^ (a + 1) * (q.den : ℚ) := mul_le_mul_of_nonneg_left b1 (hp _).le
  unfold Spec.ilog2
  simp only [pow2_eq, ← ha, ← hb]
  split
  · rename_i h
    exact absurd (lt_of_le_of_lt h upper) (lt_irrefl _)
  · split
    · rename_i h1 h2
      exact ⟨h2, upper⟩
    · rename_i h1 h2
      refine ⟨lower.le, ?_⟩
      rw [sub_add_cancel]
      exact lt_of_not_ge h2

theorem den_one_iff_floor (s : ℚ) (hs : 0 ≤ s) : s.den = 1 ↔ (Spec.floorNat s : ℚ) = s := by
  constructor
  · intro h
    rw [Rat.den_eq_one_iff] at h
    have hn : 0 ≤ s.num := Rat.num_nonneg.mpr hs
    obtain ⟨k, hk⟩ : ∃ k : ℕ, s.num = k := ⟨s.num.toNat, by omega⟩
    have hsk : s = (k : ℚ) := by rw [← h, hk]; simp
    rw [RK.floorNat_eq s k (by rw [hsk]) (by rw [hsk]; linarith), hsk]
  · intro h
    rw [← h]; exact Rat.den_natCast _

/-- the neighbours computed by the specification, in closed form: with `u` the exponent of the last place and
    `k = ⌊v/2^u⌋` -/
theorem binNeighbours_f64 (v : ℚ) (hv : 0 < v) :
    ∃ (u : ℤ) (k : ℕ), -1074 ≤ u ∧ k < 2 ^ 53 ∧ (u ≠ -1074 → 2 ^ 52 ≤ k) ∧
      (k : ℚ) * 2 ^ u ≤ v ∧ v < ((k : ℚ) + 1) * 2 ^ u ∧
      Spec.binNeighbours Spec.f64 v =
        if (2 : ℚ) ^ (1024 : ℤ) ≤ (k : ℚ) * 2 ^ u then ((2 : ℚ) ^ (1024 : ℤ) - 2 ^ (971 : ℤ), none)
        else ((k : ℚ) * 2 ^ u,
          if (2 : ℚ) ^ (1024 : ℤ) ≤ ((if v = (k : ℚ) * 2 ^ u then k else k + 1 : ℕ) : ℚ) * 2 ^ u then none
          else some (((if v = (k : ℚ) * 2 ^ u then k else k + 1 : ℕ) : ℚ) * 2 ^ u)) := by
  obtain ⟨hb1, hb2⟩ := ilog2_spec v hv
  have hemin : Spec.f64.emin = -1074 := by decide
  have htop : Spec.f64.emaxTop = 1024 := by decide
  have hmb : (Spec.f64.mantBits : ℤ) = 52 := by decide
  have hp : ∀ k : ℤ, (0 : ℚ) < 2 ^ k := fun k => zpow_pos (by norm_num) k
  set b := Spec.ilog2 v with hb
  -- the exponent of the last place
  obtain ⟨u, hu, hu1, hu2⟩ : ∃ u : ℤ, u = (if b - 52 < -1074 then -1074 else b - 52) ∧ -1074 ≤ u ∧ b - 52 ≤ u := by
    refine ⟨_, rfl, ?_, ?_⟩ <;> split <;> omega
  set s := v / 2 ^ u with hs
  have hs0 : 0 ≤ s := div_nonneg hv.le (hp u).le
  set k := Spec.floorNat s with hk
  have hks : (k : ℚ) ≤ s := RK.floorNat_le s hs0
  have hsk : s < (k : ℚ) + 1 := RK.lt_floorNat_add_one s
  have hvs : v = s * 2 ^ u := by rw [hs]; field_simp
  have hlow : (k : ℚ) * 2 ^ u ≤ v := by rw [hvs]; exact mul_le_mul_of_nonneg_right hks (hp u).le
  have hupp : v < ((k : ℚ) + 1) * 2 ^ u := by rw [hvs]; exact mul_lt_mul_of_pos_right hsk (hp u)
  have hk53 : k < 2 ^ 53 := by
    have h1 : s < 2 ^ (53 : ℤ) := by
      rw [hs, div_lt_iff₀ (hp u), ← zpow_add₀ (by norm_num)]
      exact lt_of_lt_of_le hb2 (zpow_le_zpow_right₀ (by norm_num) (by omega))
    have : (k : ℚ) < 2 ^ (53 : ℤ) := lt_of_le_of_lt hks h1
    have e : (2 : ℚ) ^ (53 : ℤ) = ((2 ^ 53 : ℕ) : ℚ) := by norm_num
    rw [e] at this
    exact_mod_cast this
  have hk52 : u ≠ -1074 → 2 ^ 52 ≤ k := by
    intro hne
    have hub : u = b - 52 := by rw [hu]; split <;> omega
    have h1 : (2 : ℚ) ^ (52 : ℤ) ≤ s := by
      rw [hs, le_div_iff₀ (hp u), ← zpow_add₀ (by norm_num)]
      have : (52 : ℤ) + u = b := by omega
      rw [this]; exact hb1
    have : (2 : ℚ) ^ (52 : ℤ) < (k : ℚ) + 1 := lt_of_le_of_lt h1 hsk
    have e : (2 : ℚ) ^ (52 : ℤ) = ((2 ^ 52 : ℕ) : ℚ) := by norm_num
    rw [e] at this
    have : 2 ^ 52 < k + 1 := by exact_mod_cast this
    omega
  have hden : (s.den == 1) = decide (v = (k : ℚ) * 2 ^ u) := by
    rw [Bool.eq_iff_iff, beq_iff_eq, decide_eq_true_eq, den_one_iff_floor s hs0]
    constructor
    · intro h; rw [hvs, ← h]
    · intro h
      have : s * 2 ^ u = (k : ℚ) * 2 ^ u := by rw [← hvs]; exact h
      exact (mul_right_cancel₀ (hp u).ne' this).symm
  refine ⟨u, k, hu1, hk53, hk52, hlow, hupp, ?_⟩
  unfold Spec.binNeighbours
  simp only [pow2_eq, hemin, htop, hmb, ← hb]
  rw [← hu, ← hs, ← hk, hden]
  have e971 : ((1024 : ℤ) - 52 - 1) = 971 := by norm_num
  rw [e971]
  simp only [ge_iff_le]
  by_cases hveq : v = (k : ℚ) * 2 ^ u
  · simp only [hveq, decide_true, if_true]
  · simp only [hveq, decide_false, Bool.false_eq_true, if_false]

/-! ## 53-bit dyadics in range are float64 values -/

theorem float_of_dyadic (m : ℕ) (e : ℤ) (hm : m ≤ 2 ^ 53) (he : -1074 ≤ e)
    (hlt : (m : ℚ) * 2 ^ e < 2 ^ (1024 : ℤ)) : ∃ y : F64, y.isFinite = true ∧ y.mag = (m : ℚ) * 2 ^ e := by
  have key : ∀ (m' : ℕ) (e' : ℤ), m' < 2 ^ 53 → -1074 ≤ e' → (m' : ℚ) * 2 ^ e' < 2 ^ (1024 : ℤ) →
      ∃ y : F64, y.isFinite = true ∧ y.mag = (m' : ℚ) * 2 ^ e' := by
    intro m' e' hm' he' hlt'
    obtain ⟨h1, h2⟩ := roundDyadic_exact_of_bits fmt64 (by decide) m' e' (by rw [fmt64_mb]; exact hm')
      (by rw [fmt64_qmin]; exact he') (by rw [fmt64_emax]; exact hlt')
    refine ⟨F64.ofParts false (roundDyadic fmt64 m' e'), ?_, ?_⟩
    · rw [F64.ofParts_isFinite _ _ (roundDyadic_lt_two_pow_63 _ _)]; simpa using h1
    · rw [F64.ofRound_mag, h2]
  rcases Nat.lt_or_ge m (2 ^ 53) with h | h
  · exact key m e h he hlt
  · have hm53 : m = 2 ^ 53 := by omega
    have e1 : (m : ℚ) * 2 ^ e = ((2 ^ 52 : ℕ) : ℚ) * 2 ^ (e + 1) := by
      rw [hm53, zpow_add₀ (by norm_num)]; push_cast; ring
    rw [e1] at hlt ⊢
    exact key (2 ^ 52) (e + 1) (by norm_num) (by omega) hlt

/-- a finite float64 at or above `2^52·2^u` (or any finite float64 when `u = -1074`) is a multiple of `2^u` -/
theorem float_on_grid (y : F64) (hy : y.isFinite = true) (u : ℤ) (k : ℕ) (hu : -1074 ≤ u)
    (hk : u ≠ -1074 → 2 ^ 52 ≤ k) (hge : (k : ℚ) * 2 ^ u ≤ y.mag) :
    ∃ j : ℕ, y.mag = (j : ℚ) * 2 ^ u := by
  obtain ⟨m, e, hm, he0, -, hmag, -⟩ := F64_fin_form y hy
  have hp : ∀ t : ℤ, (0 : ℚ) < 2 ^ t := fun t => zpow_pos (by norm_num) t
  have hue : u ≤ e := by
    by_cases h : u = -1074
    · omega
    · by_contra hc
      have hk52 := hk h
      have h1 : (2 : ℚ) ^ e ≤ 2 ^ (u - 1) := zpow_le_zpow_right₀ (by norm_num) (by omega)
      have h2 : (m : ℚ) < 2 ^ 53 := by exact_mod_cast hm
      have h3 : (m : ℚ) * 2 ^ e < 2 ^ 53 * 2 ^ (u - 1) :=
        mul_lt_mul_of_pos_of_nonneg' h2 h1 (hp _) (by positivity)
      have h4 : (2 : ℚ) ^ 53 * 2 ^ (u - 1) = 2 ^ 52 * 2 ^ u := by
        rw [zpow_sub₀ (by norm_num), zpow_one]; ring
      have h5 : ((2 : ℚ) ^ 52) * 2 ^ u ≤ (k : ℚ) * 2 ^ u :=
        mul_le_mul_of_nonneg_right (by exact_mod_cast hk52) (hp u).le
      rw [hmag] at hge
      linarith
  obtain ⟨t, ht⟩ : ∃ t : ℕ, e = u + t := ⟨(e - u).toNat, by omega⟩
  refine ⟨m * 2 ^ t, ?_⟩
  rw [hmag, ht, zpow_add₀ (by norm_num), zpow_natCast]; push_cast; ring

/-! ## `Adjacent64` against the specification's neighbours -/

theorem maxFinite_eq : (2 : ℚ) ^ (1024 : ℤ) - 2 ^ (971 : ℤ) = ((2 ^ 53 - 1 : ℕ) : ℚ) * 2 ^ (971 : ℤ) := by
  have h3 : (2 : ℚ) ^ (1024 : ℤ) = 2 ^ 53 * 2 ^ (971 : ℤ) := by
    rw [show (1024 : ℤ) = 53 + 971 by norm_num, zpow_add₀ (by norm_num)]
    congr 1
  rw [h3]
  generalize (2 : ℚ) ^ (971 : ℤ) = T
  push_cast; ring

theorem F64_fin_le_max (y : F64) (hy : y.isFinite = true) :
    y.mag ≤ (2 : ℚ) ^ (1024 : ℤ) - 2 ^ (971 : ℤ) := by
  obtain ⟨m, e, hm, -, he, hmag, -⟩ := F64_fin_form y hy
  rw [maxFinite_eq, hmag]
  have h1 : (m : ℚ) ≤ ((2 ^ 53 - 1 : ℕ) : ℚ) := by
    have : m ≤ 2 ^ 53 - 1 := by omega
    exact_mod_cast this
  have h2 : (2 : ℚ) ^ e ≤ 2 ^ (971 : ℤ) := zpow_le_zpow_right₀ (by norm_num) he
  exact mul_le_mul h1 h2 (zpow_pos (by norm_num) _).le (by positivity)

/-- a faithful result (`Adjacent64`) is accepted by the neighbour test of `Spec.binAdjacent` -/
theorem neighbours_ok (n : Bool) (v : ℚ) (hv : 0 < v) (r : F64) (h : Adjacent64 n v r) :
    (r.isFinite = true → r.mag = (Spec.binNeighbours Spec.f64 v).1 ∨
        (Spec.binNeighbours Spec.f64 v).2 = some r.mag) ∧
    (r.isFinite = false → (Spec.binNeighbours Spec.f64 v).2 = none) := by
  obtain ⟨u, k, hu, hk53, hk52, hlow, hupp, hbn⟩ := binNeighbours_f64 v hv
  obtain ⟨hsgn, hnan, hfin, hinf⟩ := h
  have hp : ∀ t : ℤ, (0 : ℚ) < 2 ^ t := fun t => zpow_pos (by norm_num) t
  rw [hbn]
  clear hbn
  generalize hhN : (if v = (k : ℚ) * 2 ^ u then k else k + 1 : ℕ) = hN
  have hNk : k ≤ hN ∧ hN ≤ k + 1 := by rw [← hhN]; split <;> omega
  have hvH : v ≤ (hN : ℚ) * 2 ^ u := by
    rw [← hhN]; split
    · rename_i h; rw [← h]
    · push_cast; exact hupp.le
  by_cases hA : (2 : ℚ) ^ (1024 : ℤ) ≤ (k : ℚ) * 2 ^ u
  · -- the lower neighbour is beyond the range: the specification allows maxFinite or ±Inf
    simp only [hA, if_true]
    refine ⟨fun hf => Or.inl ?_, fun _ => trivial⟩
    obtain ⟨y, hy, hym⟩ := float_of_dyadic (2 ^ 53 - 1) 971 (by norm_num) (by norm_num) (by
      rw [← maxFinite_eq]; exact sub_lt_self _ (hp 971))
    have h1 := (hfin hf).1 y hy (by
      rw [hym, ← maxFinite_eq]; exact le_trans (sub_le_self _ (hp 971).le) (le_trans hA hlow))
    rw [hym, ← maxFinite_eq] at h1
    exact le_antisymm (F64_fin_le_max r hf) h1
  · simp only [hA, if_false]
    have hA' : (k : ℚ) * 2 ^ u < (2 : ℚ) ^ (1024 : ℤ) := not_le.mp hA
    obtain ⟨yL, hyL, hyLm⟩ := float_of_dyadic k u (by omega) hu hA'
    constructor
    · intro hf
      obtain ⟨h1, h2⟩ := hfin hf
      have hLq : (k : ℚ) * 2 ^ u ≤ r.mag := by rw [← hyLm]; exact h1 yL hyL (by rw [hyLm]; exact hlow)
      obtain ⟨j, hj⟩ := float_on_grid r hf u k hu hk52 hLq
      have hkj : k ≤ j := by
        have : (k : ℚ) * 2 ^ u ≤ (j : ℚ) * 2 ^ u := by rw [← hj]; exact hLq
        exact_mod_cast le_of_mul_le_mul_right this (hp u)
      by_cases hB : (2 : ℚ) ^ (1024 : ℤ) ≤ (hN : ℚ) * 2 ^ u
      · simp only [hB, if_true]
        left
        have hlt := F64_fin_lt_top r hf
        have : (j : ℚ) * 2 ^ u < (hN : ℚ) * 2 ^ u := by rw [← hj]; exact lt_of_lt_of_le hlt hB
        have hjN : j < hN := by exact_mod_cast lt_of_mul_lt_mul_right this (hp u).le
        have : j = k := by omega
        rw [hj, this]
      · simp only [hB, if_false]
        have hB' := not_le.mp hB
        obtain ⟨yH, hyH, hyHm⟩ := float_of_dyadic hN u (by omega) hu hB'
        have hqH : r.mag ≤ (hN : ℚ) * 2 ^ u := by
          rw [← hyHm]; exact h2 yH hyH (by rw [hyHm]; exact hvH)
        have hjN : j ≤ hN := by
          have : (j : ℚ) * 2 ^ u ≤ (hN : ℚ) * 2 ^ u := by rw [← hj]; exact hqH
          exact_mod_cast le_of_mul_le_mul_right this (hp u)
        rcases Nat.lt_or_ge k j with hlt | hge
        · right
          have : j = hN := by omega
          rw [hj, this]
        · left
          have : j = k := by omega
          rw [hj, this]
    · intro hnf
      obtain ⟨_, hall⟩ := hinf hnf
      by_cases hB : (2 : ℚ) ^ (1024 : ℤ) ≤ (hN : ℚ) * 2 ^ u
      · simp only [hB, if_true]
      · exfalso
        obtain ⟨yH, hyH, hyHm⟩ := float_of_dyadic hN u (by omega) hu (not_le.mp hB)
        have := hall yH hyH
        rw [hyHm] at this
        linarith

/-! ## `Gen.Decimal.Float64` passes the executable adjacency check -/

theorem mag_eq (c : ℕ) (x : ℤ) : Spec.mag c x = (c : ℚ) * 10 ^ x := by
  rw [Spec.mag, RK.pow10_eq]

set_option exponentiation.threshold 2000 in
theorem pow10_400_ge : (2 : ℚ) ^ (1024 : ℤ) ≤ (10 : ℚ) ^ (400 : ℤ) := by
  have e1 : (2 : ℚ) ^ (1024 : ℤ) = 2 ^ 1024 := rfl
  have e2 : (10 : ℚ) ^ (400 : ℤ) = 10 ^ 400 := rfl
  rw [e1, e2]; norm_num

set_option exponentiation.threshold 2000 in
theorem pow10_m401_le : (10 : ℚ) ^ (-401 : ℤ) ≤ (2 : ℚ) ^ (-1075 : ℤ) := by
  have e1 : (2 : ℚ) ^ (-1075 : ℤ) = 1 / 2 ^ 1075 := by rw [zpow_neg, one_div]; rfl
  have e2 : (10 : ℚ) ^ (-401 : ℤ) = 1 / 10 ^ 401 := by rw [zpow_neg, one_div]; rfl
  rw [e1, e2, div_le_div_iff₀ (by positivity) (by positivity)]
  norm_num

/-- the finite non-zero case of the adjacency check, from the three facts proved about `Float64` -/
theorem binAdjacent_fin (n : Bool) (c : ℕ) (x : ℤ) (hc : c ≠ 0) (r : F64)
    (hadj : Adjacent64 n ((c : ℚ) * 10 ^ x) r)
    (hover : (2 : ℚ) ^ (1024 : ℤ) ≤ (c : ℚ) * 10 ^ x → r.isInf = true)
    (hunder : (c : ℚ) * 10 ^ x ≤ (2 : ℚ) ^ (-1075 : ℤ) → r.isInf = false ∧ r.mag = 0) :
    Spec.binAdjacent Spec.f64 (.fin n c x) r.bits.toNat = none := by
  have hc' : (c == 0) = false := by simpa using hc
  obtain ⟨hs, hnan, hfin, hinf⟩ := hadj
  have hcpos : 0 < c := Nat.pos_of_ne_zero hc
  obtain ⟨d1, d2⟩ := RK.ndigits_spec_rat c hcpos
  rw [RK.pow10_eq] at d1 d2
  have hvpos : (0 : ℚ) < (c : ℚ) * 10 ^ x := mul_pos (by exact_mod_cast hcpos) (zpow_pos (by norm_num) _)
  have hp10 : (0 : ℚ) < 10 ^ x := zpow_pos (by norm_num) _
  unfold Spec.binAdjacent
  rw [FF.decodeBin_f64, hnan]
  simp only [Bool.false_eq_true, if_false, hc']
  by_cases h1 : x + (Spec.ndigits c : ℤ) > 400
  · -- |d| ≥ 10^(x+nd-1) ≥ 10^400 ≥ 2^1024
    have hv : (2 : ℚ) ^ (1024 : ℤ) ≤ (c : ℚ) * 10 ^ x := by
      have : (10 : ℚ) ^ (400 : ℤ) ≤ (c : ℚ) * 10 ^ x := by
        calc (10 : ℚ) ^ (400 : ℤ) ≤ 10 ^ ((Spec.ndigits c : ℤ) - 1 + x) :=
              zpow_le_zpow_right₀ (by norm_num) (by omega)
          _ = 10 ^ ((Spec.ndigits c : ℤ) - 1) * 10 ^ x := zpow_add₀ (by norm_num) _ _
          _ ≤ (c : ℚ) * 10 ^ x := mul_le_mul_of_nonneg_right d1 hp10.le
      exact le_trans pow10_400_ge this
    have hi := hover hv
    simp only [h1, if_true, hi, hs, beq_self_eq_true]
  · simp only [h1, if_false]
    by_cases h2 : x + (Spec.ndigits c : ℤ) < -400
    · have hv : (c : ℚ) * 10 ^ x ≤ (2 : ℚ) ^ (-1075 : ℤ) := by
        have : (c : ℚ) * 10 ^ x ≤ (10 : ℚ) ^ (-401 : ℤ) := by
          calc (c : ℚ) * 10 ^ x ≤ 10 ^ (Spec.ndigits c : ℤ) * 10 ^ x :=
                mul_le_mul_of_nonneg_right d2.le hp10.le
            _ = 10 ^ ((Spec.ndigits c : ℤ) + x) := (zpow_add₀ (by norm_num) _ _).symm
            _ ≤ 10 ^ (-401 : ℤ) := zpow_le_zpow_right₀ (by norm_num) (by omega)
        exact le_trans this pow10_m401_le
      obtain ⟨hi, hm⟩ := hunder hv
      simp only [h2, if_true, hi, Bool.false_eq_true, if_false, hm, hs, beq_self_eq_true, Bool.and_self]
    · simp only [h2, if_false]
      obtain ⟨g1, g2⟩ := neighbours_ok n _ hvpos r ⟨hs, hnan, hfin, hinf⟩
      rw [mag_eq]
      by_cases hf : r.isFinite = true
      · have hi : r.isInf = false := by
          rw [F64.isFinite_eq] at hf
          cases h : r.isInf <;> simp [h, hnan] at hf ⊢
        simp only [hi, Bool.false_eq_true, if_false, hs, bne_self_eq_false]
        rcases g1 hf with h | h
        · simp [h]
        · simp [h]
      · have hf' : r.isFinite = false := by simpa using hf
        have hi : r.isInf = true := (hinf hf').1
        simp only [hi, if_true, hs, bne_self_eq_false, Bool.false_eq_true, if_false, g2 hf', Option.isNone_none]

/-- **C09 against the executable specification.**  Whatever `d.Float64()` returns passes `Spec.binAdjacent`
    (the check run by the differential harness): NaN ↦ NaN, `±Inf ↦ ±Inf`, `±0 ↦ ±0`, and for finite non-zero `d`
    one of the two float64 neighbours of the exact value with the right sign, `±Inf`/`±0` beyond the range. -/
theorem Float64_binAdjacent (d : Decimal) (r : F64) (hr : Decimal.Float64 d = .ok r) :
    Spec.binAdjacent Spec.f64 𝔳[d] r.bits.toNat = none := by
  rcases Sp.view d with ⟨h1, h2, h3, h4, hv⟩ | ⟨h1, h2, h3, h4, hv⟩ | ⟨h1, h2, h3, h4, h5, hc, hv⟩ |
    ⟨h1, h2, h3, h4, h5, hc, hb, hv⟩
  · rw [Float64_nan d _ _ hv] at hr; cases hr
    rw [hv]; unfold Spec.binAdjacent; rw [FF.decodeBin_f64]
    have : Go.math.NaN.isNaN = true := by decide
    simp [this]
  · rw [Float64_inf d _ hv] at hr; cases hr
    rw [hv]; unfold Spec.binAdjacent; rw [FF.decodeBin_f64, infRes_eq]
    have h63 : 2047 * 2 ^ 52 < 2 ^ 63 := by norm_num
    rw [F64.ofParts_isNaN _ _ h63, F64.ofParts_isInf _ _ h63, F64.ofParts_sign _ _ h63, fmt64_infBits]
    simp
  · rw [Float64_zero d h3 h5] at hr; cases hr
    rw [hv]; unfold Spec.binAdjacent; rw [FF.decodeBin_f64, zeroRes_eq]
    have h63 : 0 < 2 ^ 63 := by norm_num
    rw [F64.ofParts_isNaN _ _ h63, F64.ofParts_isInf _ _ h63, F64.ofParts_sign _ _ h63,
      F64.ofParts_mag _ _ h63, fmt64.decode_zero, fmt64_infBits]
    simp
  · rw [hv]
    obtain ⟨r', hr', hadj⟩ := Float64_adjacent d _ _ _ hv hc
    rw [hr] at hr'; cases hr'
    apply binAdjacent_fin _ _ _ hc r hadj
    · intro hbig
      rw [Float64_overflow d _ _ _ hv hc hbig] at hr; cases hr
      rw [infRes_eq, F64.ofParts_isInf _ _ (by norm_num), fmt64_infBits]; simp
    · intro hsmall
      rw [Float64_underflow d _ _ _ hv hc hsmall] at hr; cases hr
      rw [zeroRes_eq, F64.ofParts_isInf _ _ (by norm_num), F64.ofParts_mag _ _ (by norm_num),
        fmt64.decode_zero, fmt64_infBits]
      simp

example : Spec.binAdjacent Spec.f64 𝔳[(⟨4145161186368179427, 3457692824022322579⟩ : Decimal)]
    (⟨4591870180066957722⟩ : F64).bits.toNat = none :=
  Float64_binAdjacent _ _ Float64_example_tenth

end F2
