/-
  D128/Proofs/PowLadderGeneral.lean — property C18: the sign (and non-NaN-ness) of every result of the
  general path of `Gen.Decimal.PowWithMode` (stage `PowPf.general` of D128/Proofs/PowCode.lean:
  `log → mul → epow → (rcp) → reduce192 → compose`).  Every mode byte.  No accuracy analysis is used:
  the intermediate working-format values are arbitrary, only
    – `compose neg sig exp` carries the sign `neg` and is finite for EVERY `sig` once `0 ≤ exp ≤ 12287`
      (`compose_sign_any`),
    – `reduce192` returns `0 ≤ exp'` (`reduce192_range`, D128/Proofs/PowLadderRange.lean), which needs its
      termination condition `sig ≠ 0 ∨ trunc ≠ -1` and an entry exponent that does not wrap,
    – `epow` ends with `add1` and `powexp10`, so its result has a non-zero significand (`epow_sig_ne`).
  On the branch without reciprocal this settles the sign unconditionally.  On the reciprocal branch the
  significand and exponent of `rcp`'s result are needed; no contract of `rcp`/`epow` exists yet, so that
  one fact is the explicit hypothesis `RcpRange` (true because an `epow` result is ≥ 1).

  Provided (namespace `PowPf`):
  * `bind_ok`                    : inversion of `>>=` in `Go.GoM`
  * `compose_hi_any`, `compose_sign_any` : the bit pattern of `compose` for an arbitrary significand
  * `epow_sig_ne`                : `epow d l t = .ok x → x.1.sig ≠ 0`
  * `genTail`, `genTail_sign`    : `reduce192` + overflow test + `compose`: total, sign `neg`, not NaN
  * `SignOk`                     : `Signbit r = neg ∧ IsNaN r = false`
  * `RcpRange`                   : the reciprocal of an `epow` result is non-zero with exponent ≤ 13824
  * `general_sign`               : every `.ok r` of `general` satisfies `SignOk neg r` (under `RcpRange`)
  * `general_sign_norcp`         : … unconditionally when the path through `rcp` is not taken
-/
import D128.Proofs.PowLadderRange
import D128.Proofs.PowLadderTop
import D128.Proofs.TotalD192Mul
import D128.Proofs.TotalD192Add1

set_option autoImplicit false
set_option maxRecDepth 8192
set_option linter.unusedVariables false
set_option linter.unusedSimpArgs false

namespace PowPf
open Gen Sp Spec
local notation "𝔳[" d "]" => Spec.interp (Gen.Decimal.lo d) (Gen.Decimal.hi d)

theorem bind_ok {α β : Type} {x : Go.GoM α} {f : α → Go.GoM β} {r : β} (h : (x >>= f) = .ok r) :
    ∃ a, x = .ok a ∧ f a = .ok r := by
  cases x with
  | error e => cases h
  | ok a => exact ⟨a, rfl, h⟩

/-! ## `compose` for an arbitrary significand -/

open Enc in
/-- `Enc.compose_hi_toNat` without the bound on the significand -/
theorem compose_hi_any (neg : Bool) (sig : U128) (exp : Int16)
    (h0 : 0 ≤ exp.toInt) (h1 : exp.toInt ≤ 12287) :
    (Gen.compose neg sig exp).hi.toNat =
      (if neg then 2^63 else 0) +
      (if 2^49 ≤ sig.w1.toNat then 3 * 2^61 + exp.toInt.toNat * 2^47 + sig.w1.toNat % 2^47
       else exp.toInt.toNat * 2^49 + sig.w1.toNat) := by
  unfold Gen.compose
  simp only [Id.run, pure, gt_iff_lt, UInt64.lt_iff_toNat_lt, UInt64.toNat_ofNat, Nat.reducePow, Nat.reduceMod, decide_eq_true_eq]
  have ha : (6917529027641081856 ||| Go.shl (Go.conv exp) 47 ||| sig.w1 &&& 140737488355327 : UInt64).toNat
      = 3 * 2^61 + exp.toInt.toNat * 2^47 + sig.w1.toNat % 2^47 := by
    simp only [UInt64.toNat_or, and_lo47, shl_toNat _ _ (by decide : (0:Int) ≤ 47) (by decide), conv_i16_u64 _ h0,
      UInt64.toNat_ofNat, Int.reduceToNat, Nat.reducePow, Nat.reduceMod]
    rw [Nat.or_assoc, Nat.or_comm]
    have e1 : exp.toInt.toNat * 140737488355328 % 18446744073709551616 = exp.toInt.toNat * 140737488355328 := by omega
    rw [e1, Nat.or_comm (exp.toInt.toNat * 140737488355328)]
    have := or_disj (sig.w1.toNat % 140737488355328) exp.toInt.toNat 47 (by omega)
    simp only [Nat.reducePow] at this
    rw [this]
    have := or_disj (sig.w1.toNat % 140737488355328 + exp.toInt.toNat * 140737488355328) 3 61 (by omega)
    simp only [Nat.reducePow, Nat.reduceMul] at this
    rw [this]; omega
  have hb : sig.w1.toNat < 2^49 → (Go.shl (Go.conv exp) 49 ||| sig.w1 : UInt64).toNat
      = exp.toInt.toNat * 2^49 + sig.w1.toNat := by
    intro hlt
    simp only [UInt64.toNat_or, shl_toNat _ _ (by decide : (0:Int) ≤ 49) (by decide), conv_i16_u64 _ h0,
      Int.reduceToNat, Nat.reducePow]
    have e1 : exp.toInt.toNat * 562949953421312 % 18446744073709551616 = exp.toInt.toNat * 562949953421312 := by omega
    rw [e1, Nat.or_comm]
    have := or_disj sig.w1.toNat exp.toInt.toNat 49 hlt
    simp only [Nat.reducePow] at this
    rw [this]; omega
  repeat' split
  all_goals first | omega | skip
  · dsimp only
    rw [or_hi63 _ (by rw [ha]; omega), ha]; omega
  · dsimp only
    rw [ha]; omega
  · have hb' := hb (by omega)
    dsimp only
    rw [or_hi63 _ (by rw [hb']; omega), hb']; omega
  · have hb' := hb (by omega)
    dsimp only
    rw [hb']; omega

/-- the sign bit of a composed pattern is `neg` and the pattern is finite, whatever the significand,
    as soon as the biased exponent is in range -/
theorem compose_sign_any (neg : Bool) (sig : U128) (exp : Int16)
    (h0 : 0 ≤ exp.toInt) (h1 : exp.toInt ≤ 12287) :
    Decimal.Signbit (Gen.compose neg sig exp) = neg ∧ Decimal.isSpecial (Gen.compose neg sig exp) = false := by
  have hhi := compose_hi_any neg sig exp h0 h1
  have hw := sig.w1.toNat_lt
  generalize Gen.compose neg sig exp = d at *
  rw [Enc.Signbit_eq, Enc.isSpecial_eq]
  constructor
  all_goals
    cases neg <;> by_cases hc : 2^49 ≤ sig.w1.toNat <;>
    simp only [hc, if_true, if_false, Bool.false_eq_true, decide_eq_true_eq, decide_eq_false_iff_not] at hhi ⊢ <;>
    omega

/-! ## `epow` returns a non-zero significand -/

theorem epow_tail (res d : decomposed192) (trunc : Int8) (exp : Int16) (x : decomposed192 × Int8)
    (h : (do
          let __x ← res.mul d trunc
          match __x with
            | (r_9, r_10) =>
              do
              let __x ← decomposed192.add1 r_9 r_10
              match __x with
                | (r_11, r_12) => decomposed192.powexp10 r_11 exp r_12) = Except.ok x) :
    x.1.sig.toNat ≠ 0 := by
  obtain ⟨⟨a1, a2⟩, -, h⟩ := bind_ok h
  dsimp only at h
  obtain ⟨⟨b1, b2⟩, hb, h⟩ := bind_ok h
  dsimp only at h
  obtain ⟨r, hr, hr1, -⟩ := D128.Proofs.Total.d192_add1_total a1 a2
  rw [hb] at hr
  have hbr : (b1, b2) = r := by injection hr
  have hb1 : b1.sig.toNat ≠ 0 := by rw [← hbr] at hr1; exact hr1
  obtain ⟨r', hr', hp, -⟩ := D128.Proofs.Total.d192_powexp10_total b1 exp b2
  rw [h] at hr'
  have : x = r' := by injection hr'
  rw [this]; exact hp hb1

theorem epow_sig_ne (d : decomposed192) (l : Int16) (t : Int8) (x : decomposed192 × Int8)
    (h : decomposed192.epow d l t = .ok x) : x.1.sig.toNat ≠ 0 := by
  unfold decomposed192.epow at h
  dsimp only at h
  split at h
  · obtain ⟨a, -, h⟩ := bind_ok h
    obtain ⟨a, -, h⟩ := bind_ok h
    obtain ⟨⟨a1, a2⟩, -, h⟩ := bind_ok h
    dsimp only at h
    obtain ⟨a, -, h⟩ := bind_ok h
    exact epow_tail _ _ _ _ _ h
  · obtain ⟨a, -, h⟩ := bind_ok h
    obtain ⟨a, -, h⟩ := bind_ok h
    obtain ⟨⟨a1, a2⟩, -, h⟩ := bind_ok h
    dsimp only at h
    obtain ⟨a, -, h⟩ := bind_ok h
    exact epow_tail _ _ _ _ _ h

/-! ## the last stage -/

/-- the result carries the sign `neg` and is not a NaN -/
def SignOk (neg : Bool) (r : Decimal) : Prop := Decimal.Signbit r = neg ∧ Decimal.IsNaN r = false

theorem signOk_one (neg : Bool) : SignOk neg (Gen.one neg) := by cases neg <;> exact ⟨rfl, rfl⟩
theorem signOk_zero (neg : Bool) : SignOk neg (Gen.zero neg) := by cases neg <;> exact ⟨rfl, rfl⟩
theorem signOk_inf (neg : Bool) : SignOk neg (Gen.inf neg) := by cases neg <;> exact ⟨rfl, rfl⟩

theorem signOk_compose (neg : Bool) (sig : U128) (exp : Int16) (h0 : 0 ≤ exp.toInt)
    (h1 : exp.toInt ≤ 12287) : SignOk neg (Gen.compose neg sig exp) := by
  obtain ⟨hs, hsp⟩ := compose_sign_any neg sig exp h0 h1
  exact ⟨hs, (fin_class _ hsp).1⟩

/-- `reduce192`, the overflow test and `compose` -/
def genTail (rm : UInt8) (neg : Bool) (res : decomposed192) (trunc : Int8) : Go.GoM Decimal := do
  let x ← RoundingMode.reduce192 rm neg res.sig (res.exp + 6176) trunc
  if decide (x.2 > 12287) = true then pure (Gen.inf neg) else pure (Gen.compose neg x.1 x.2)

theorem genTail_sign (rm : UInt8) (neg : Bool) (res : decomposed192) (trunc : Int8)
    (hJ : res.sig.toNat ≠ 0 ∨ trunc ≠ -1) (hE : res.exp.toInt ≤ 13824) :
    ∃ r, genTail rm neg res trunc = .ok r ∧ SignOk neg r := by
  have e6 : (6176 : Int16).toInt = 6176 := by decide
  have hlo := res.exp.le_toInt
  have hexp : (res.exp + 6176).toInt = res.exp.toInt + 6176 := by
    rw [Int16.toInt_add_of] <;> rw [e6] <;> omega
  obtain ⟨x, hx, hx0⟩ := reduce192_range rm neg res.sig (res.exp + 6176) trunc hJ (by omega) (by omega)
  unfold genTail
  rw [hx, RK.ok_bind]
  by_cases hc : decide (x.2 > 12287) = true
  · rw [if_pos hc]; exact ⟨_, rfl, signOk_inf neg⟩
  · rw [if_neg hc]
    refine ⟨_, rfl, signOk_compose neg x.1 x.2 hx0 ?_⟩
    rw [decide_eq_true_eq, gt_iff_lt, Int16.lt_iff_toInt_lt] at hc
    have : (12287 : Int16).toInt = 12287 := by decide
    omega

/-! ## the general path -/

/-- the reciprocal of a result of `epow` (which is ≥ 1) is non-zero and its exponent is far from
    wrapping around when biased; the one fact about the working-format routines that the sign of the
    reciprocal branch needs -/
def RcpRange : Prop :=
  ∀ (d : decomposed192) (l : Int16) (t : Int8) (e : decomposed192) (tr : Int8) (r : decomposed192)
    (t' : Int8), decomposed192.epow d l t = .ok (e, tr) → e.exp.toInt ≤ 6169 →
    decomposed192.rcp e tr = .ok (r, t') → r.sig.toNat ≠ 0 ∧ r.exp.toInt ≤ 13824

theorem i16_gt_iff (a b : Int16) : decide (a > b) = decide (b.toInt < a.toInt) := by
  apply decide_eq_decide.2; rw [gt_iff_lt, Int16.lt_iff_toInt_lt]

/-- every result of the general path has the sign decided by the ladder and is not a NaN.
    `hrcp` is only needed when the path goes through `rcp`, i.e. when `log` reports the opposite
    orientation (`inv`) to the sign of y. -/
theorem general_sign_core (rm : UInt8) (oNeg neg : Bool) (oSig : U128) (oExp : Int16) (dSig : U128)
    (dExp : Int16) (r : Decimal)
    (hrcp : (∃ x0, decomposed192.log ({ (default : decomposed192) with
        sig := (U192.mk dSig.w0 dSig.w1 (0 : UInt64)), exp := (dExp - (6176 : Int16)) } : decomposed192) = .ok x0 ∧
        (oNeg != x0.1) = true) → RcpRange)
    (h : general rm oNeg neg oSig oExp dSig dExp = .ok r) : SignOk neg r := by
  unfold general at h
  dsimp only at h
  obtain ⟨x0, hx0, h⟩ := bind_ok h
  have hret : ∀ {c : Bool} {r : Decimal}, ((if c = true then pure (Gen.zero neg) else pure (Gen.inf neg)) :
      Go.GoM Decimal) = .ok r → SignOk neg r := by
    intro c r h
    cases c
    · have : Gen.inf neg = r := by injection h
      rw [← this]; exact signOk_inf neg
    · have : Gen.zero neg = r := by injection h
      rw [← this]; exact signOk_zero neg
  have hone : ∀ {r : Decimal}, (pure (Gen.one neg) : Go.GoM Decimal) = .ok r → SignOk neg r := by
    intro r h
    have : Gen.one neg = r := by injection h
    rw [← this]; exact signOk_one neg
  by_cases c1 : (x0.2.1.sig.w0 ||| x0.2.1.sig.w1 ||| x0.2.1.sig.w2 == 0) = true
  · rw [if_pos c1] at h; exact hone h
  rw [if_neg c1] at h
  by_cases c2 : decide ((Go.conv x0.2.1.exp : Int64) + (Go.conv oExp : Int64) > 12322) = true
  · rw [if_pos c2] at h; exact hret h
  rw [if_neg c2] at h
  obtain ⟨x1, -, h⟩ := bind_ok h
  by_cases c3 : (x1.1.sig.w0 ||| x1.1.sig.w1 ||| x1.1.sig.w2 == 0) = true
  · rw [if_pos c3] at h; exact hone h
  rw [if_neg c3] at h
  obtain ⟨t28, -, h⟩ := bind_ok h
  by_cases c4 : decide ((Go.conv x1.1.exp : Int64) > 5 - t28) = true
  · rw [if_pos c4] at h; exact hret h
  rw [if_neg c4, if_neg c3] at h
  obtain ⟨x2, hx2, h⟩ := bind_ok h
  by_cases c5 : decide (x2.1.exp > 6169) = true
  · rw [if_pos c5] at h; exact hret h
  rw [if_neg c5] at h
  have e69 : (6169 : Int16).toInt = 6169 := by decide
  have hle' : x2.1.exp.toInt ≤ 6169 := by
    rw [i16_gt_iff, decide_eq_true_eq, e69] at c5; omega
  have hsig : x2.1.sig.toNat ≠ 0 := epow_sig_ne _ _ _ _ hx2
  by_cases c6 : (oNeg != x0.1) = true
  · -- through the reciprocal
    rw [if_pos c6] at h
    obtain ⟨x3, hx3, h⟩ := bind_ok h
    obtain ⟨h3s, h3e⟩ := hrcp ⟨x0, hx0, c6⟩ _ _ _ x2.1 x2.2 x3.1 x3.2 hx2 hle' hx3
    obtain ⟨r', hr', hs⟩ := genTail_sign rm neg x3.1 (x3.2 * -1) (Or.inl h3s) h3e
    unfold genTail at hr'
    rw [h] at hr'
    have : r = r' := by injection hr'
    rw [this]; exact hs
  · rw [if_neg c6] at h
    obtain ⟨r', hr', hs⟩ := genTail_sign rm neg x2.1 x2.2 (Or.inl hsig) (by omega)
    unfold genTail at hr'
    rw [h] at hr'
    have : r = r' := by injection hr'
    rw [this]; exact hs

theorem general_sign (rm : UInt8) (oNeg neg : Bool) (oSig : U128) (oExp : Int16) (dSig : U128)
    (dExp : Int16) (r : Decimal) (hrcp : RcpRange)
    (h : general rm oNeg neg oSig oExp dSig dExp = .ok r) : SignOk neg r :=
  general_sign_core rm oNeg neg oSig oExp dSig dExp r (fun _ => hrcp) h

/-- unconditional when `log` reports the orientation of y (no reciprocal is taken): e.g. x > 1 with
    y > 0, or 0 < x < 1 with y < 0 -/
theorem general_sign_norcp (rm : UInt8) (oNeg neg : Bool) (oSig : U128) (oExp : Int16) (dSig : U128)
    (dExp : Int16) (r : Decimal)
    (hinv : ∀ x0, decomposed192.log ({ (default : decomposed192) with
        sig := (U192.mk dSig.w0 dSig.w1 (0 : UInt64)), exp := (dExp - (6176 : Int16)) } : decomposed192) = .ok x0 →
        (oNeg != x0.1) = false)
    (h : general rm oNeg neg oSig oExp dSig dExp = .ok r) : SignOk neg r := by
  apply general_sign_core rm oNeg neg oSig oExp dSig dExp r _ h
  rintro ⟨x0, hx0, hc⟩
  rw [hinv x0 hx0] at hc; cases hc

end PowPf
