/-
  The value of a numeral, part 2: the numeric state of `parseNumber` against the ghost reading.

  `Rel s g k r` — the state `s` of the fold `Parse.run2` denotes the ghost `g` with `k` significand digits
  dropped, of value `r`:
      g.n = s.sig · 10^k + r,  r < 10^k,  trunc = [r ≠ 0],  dropping only happens above `0x18ff…·2^64`,
      nfrac = nf − k  (as integers: no wrap-around),
      exp = ev, or saturated: 2^58 ≤ exp ≤ ev  (exp ≤ 10·2^58 + 9 always).

  * `ParseLong.Rel`                the relation
  * `expDigit_toInt`               one exponent digit on `Int64`, without wrap-around
  * `step2_rel`                    one byte: `step2 sep c s = some s'` preserves the relation
  * `run2_rel`                     the whole fold
  * `rel_init`                     the initial states are related
-/
import D128.Proofs.ParseLongGhost
import D128.Proofs.ParseRun

set_option linter.unusedSimpArgs false
set_option linter.unusedVariables false

namespace ParseLong
open Parse

structure Rel (s : S2) (g : G) (k r : Nat) : Prop where
  dot : s.sawdot = g.dot
  exp : s.sawexp = g.exp
  eneg : s.eneg = g.eneg
  val : g.n = s.sig.toNat * 10 ^ k + r
  rlt : r < 10 ^ k
  tr : s.trunc = if r = 0 then (0 : Int8) else (1 : Int8)
  kpos : 0 < k → ¬ s.sig.w1 ≤ (1801439850948198399 : UInt64)
  knd : k ≤ g.nd
  nfrac : s.nfrac.toInt = (g.nf : Int) - (k : Int)
  ex0 : 0 ≤ s.exp.toInt
  ex1 : s.exp.toInt ≤ (g.ev : Int)
  ex2 : s.exp.toInt < 10 * 2 ^ 58 + 10
  ex3 : s.exp.toInt < 2 ^ 58 → s.exp.toInt = (g.ev : Int)

theorem rel_init : Rel (toS2 init1) g0 0 0 := by
  refine ⟨rfl, rfl, rfl, ?_, by decide, rfl, fun h => absurd h (by decide), by decide, ?_, ?_, ?_, ?_, ?_⟩
  · show 0 = (⟨0, 0⟩ : U128).toNat * 10 ^ 0 + 0
    simp [U128.toNat]
  · show (0 : Int64).toInt = _
    simp [g0]
  · show 0 ≤ (0 : Int64).toInt
    decide
  · show (0 : Int64).toInt ≤ _
    simp [g0]
  · show (0 : Int64).toInt < _
    decide
  · intro _
    show (0 : Int64).toInt = _
    simp [g0]

/-- a step that changes neither the numbers of the state nor those of the ghost -/
theorem rel_same {s s' : S2} {g g' : G} {k r : Nat} (hR : Rel s g k r)
    (h1 : s'.sig = s.sig) (h2 : s'.trunc = s.trunc) (h3 : s'.nfrac = s.nfrac) (h4 : s'.exp = s.exp)
    (h5 : s'.sawdot = g'.dot) (h6 : s'.sawexp = g'.exp) (h7 : s'.eneg = g'.eneg)
    (h8 : g'.n = g.n) (h9 : g'.nd = g.nd) (h10 : g'.nf = g.nf) (h11 : g'.ev = g.ev) : Rel s' g' k r := by
  refine ⟨h5, h6, h7, ?_, hR.rlt, ?_, ?_, ?_, ?_, ?_, ?_, ?_, ?_⟩
  · rw [h8, h1]; exact hR.val
  · rw [h2]; exact hR.tr
  · rw [h1]; exact hR.kpos
  · rw [h9]; exact hR.knd
  · rw [h3, h10]; exact hR.nfrac
  · rw [h4]; exact hR.ex0
  · rw [h4, h11]; exact hR.ex1
  · rw [h4]; exact hR.ex2
  · rw [h4, h11]; exact hR.ex3

/-! ## exponent digits -/

theorem i64_mul10_toInt (e : Int64) (h0 : 0 ≤ e.toInt) (h1 : e.toInt < 2 ^ 58) :
    (e * (10 : Int64)).toInt = e.toInt * 10 := by
  rw [Int64.toInt_mul]
  have : (10 : Int64).toInt = 10 := by decide
  rw [this]
  apply Int.bmod_eq_of_le <;> omega

theorem expDigit_toInt (c : UInt8) (hd : isDig c = true) (e : Int64) (h0 : 0 ≤ e.toInt) :
    (expDigit c e).toInt = if e.toInt < 2 ^ 58 then e.toInt * 10 + (dval c : Int) else e.toInt := by
  unfold expDigit
  have hk : (288230376151711744 : Int64).toInt = 2 ^ 58 := by decide
  have hlt : (e < (288230376151711744 : Int64)) ↔ e.toInt < 2 ^ 58 := by
    rw [Int64.lt_iff_toInt_lt, hk]
  by_cases h : e.toInt < 2 ^ 58
  · rw [if_pos (hlt.mpr h), if_pos h]
    have hm := i64_mul10_toInt e h0 h
    have hc := conv_digit_i64 c hd
    have hdv := dval_le c hd
    have hdd : ((c.toNat - 48 : Nat) : Int) = (dval c : Int) := rfl
    rw [i64_add_toInt _ _ (by rw [hm, hc, hdd]; omega) (by rw [hm, hc, hdd]; omega), hm, hc, hdd]
  · rw [if_neg (fun hh => h (hlt.mp hh)), if_neg h]

/-! ## one step -/

theorem gstep_dig_exp (c : UInt8) (g : G) (hd : isDig c = true) (he : g.exp = true) :
    gstep c g = { g with ev := g.ev * 10 + dval c } := by
  unfold gstep; simp only [hd, he, if_true]

theorem gstep_dig_sig (c : UInt8) (g : G) (hd : isDig c = true) (he : g.exp = false) :
    gstep c g = { g with n := g.n * 10 + dval c, nd := g.nd + 1,
                         nf := if g.dot then g.nf + 1 else g.nf } := by
  unfold gstep; simp only [hd, he, if_true, Bool.false_eq_true, if_false]

theorem dval_eq_zero_iff (c : UInt8) (hd : isDig c = true) : dval c = 0 ↔ c = 48 := by
  rw [isDig_iff] at hd
  unfold dval
  rw [← UInt8.toNat_inj]
  have : (48 : UInt8).toNat = 48 := rfl
  omega

theorem step2_rel (sep : Bool) (c : UInt8) (s s' : S2) (g : G) (k r : Nat)
    (h : step2 sep c s = some s') (hR : Rel s g k r) (hI : GInv g) (hb : g.nd < 2 ^ 62) :
    ∃ k' r', Rel s' (gstep c g) k' r' := by
  obtain ⟨hI1, hI2⟩ := hI
  have h1' := Int64.toInt_one
  unfold step2 at h
  by_cases hd : isDig c = true
  · simp only [hd, if_true] at h
    by_cases hse : s.sawexp = true
    · -- an exponent digit
      simp only [hse, if_true] at h
      injection h with h; subst h
      have hge : g.exp = true := by rw [← hR.exp]; exact hse
      rw [gstep_dig_exp c g hd hge]
      have hE := expDigit_toInt c hd s.exp hR.ex0
      have hdv := dval_le c hd
      have h0 := hR.ex0
      have h1 := hR.ex1
      have h2 := hR.ex2
      have h3 := hR.ex3
      refine ⟨k, r, ⟨hR.dot, hge.symm, hR.eneg, hR.val, hR.rlt, hR.tr, hR.kpos, hR.knd, hR.nfrac, ?_, ?_, ?_, ?_⟩⟩
      · show 0 ≤ (expDigit c s.exp).toInt
        rw [hE]; split <;> omega
      · show (expDigit c s.exp).toInt ≤ ((g.ev * 10 + dval c : Nat) : Int)
        rw [hE]; push_cast; split <;> omega
      · show (expDigit c s.exp).toInt < 10 * 2 ^ 58 + 10
        rw [hE]; split <;> omega
      · show (expDigit c s.exp).toInt < 2 ^ 58 → (expDigit c s.exp).toInt = ((g.ev * 10 + dval c : Nat) : Int)
        rw [hE]; push_cast; split <;> omega
    · -- a significand digit
      have hse' : s.sawexp = false := by simpa using hse
      have hge : g.exp = false := by rw [← hR.exp]; exact hse'
      simp only [hse', Bool.false_eq_true, if_false] at h
      rw [gstep_dig_sig c g hd hge]
      have hdv := dval_le c hd
      have hnf := hR.nfrac
      have hknd := hR.knd
      by_cases hk : s.sig.w1 ≤ (1801439850948198399 : UInt64)
      · -- accumulated
        rw [if_pos hk] at h
        injection h with h; subst h
        have hk0 : k = 0 := by
          by_contra hne
          exact hR.kpos (Nat.pos_of_ne_zero hne) hk
        subst hk0
        have hr0 : r = 0 := by have := hR.rlt; simpa using this
        subst hr0
        have hcd : (Go.conv (c - (48 : UInt8)) : UInt64).toNat = dval c := conv_digit_u64 c hd
        have hsig := u128_step s.sig _ hk (by rw [hcd]; exact hdv)
        refine ⟨0, 0, ⟨hR.dot, hge.symm, hR.eneg, ?_, by decide, hR.tr, fun h => absurd h (by decide),
          Nat.zero_le _, ?_, hR.ex0, hR.ex1, hR.ex2, hR.ex3⟩⟩
        · show g.n * 10 + dval c = (Gen.U128.add64 (Gen.U128.mul64 s.sig 10) _).toNat * 10 ^ 0 + 0
          rw [hsig, hcd, hR.val]; simp
        · show (if s.sawdot = true then s.nfrac + 1 else s.nfrac).toInt =
            ((if g.dot = true then g.nf + 1 else g.nf : Nat) : Int) - ((0 : Nat) : Int)
          rw [← hR.dot]
          by_cases hsd : s.sawdot = true
          · simp only [hsd, if_true]
            rw [i64_add_toInt _ _ (by omega) (by omega)]
            push_cast; omega
          · simp only [hsd, Bool.false_eq_true, if_false]; exact hnf
      · -- dropped
        rw [if_neg hk] at h
        injection h with h; subst h
        refine ⟨k + 1, r * 10 + dval c, ⟨hR.dot, hge.symm, hR.eneg, ?_, ?_, ?_, fun _ => hk, ?_, ?_,
          hR.ex0, hR.ex1, hR.ex2, hR.ex3⟩⟩
        · show g.n * 10 + dval c = s.sig.toNat * 10 ^ (k + 1) + (r * 10 + dval c)
          rw [hR.val, Nat.pow_succ]
          have : s.sig.toNat * (10 ^ k * 10) = s.sig.toNat * 10 ^ k * 10 := by rw [Nat.mul_assoc]
          omega
        · have := hR.rlt
          rw [Nat.pow_succ]; omega
        · show (if (c != 48) = true then (1 : Int8) else s.trunc) = if r * 10 + dval c = 0 then 0 else 1
          have hz := dval_eq_zero_iff c hd
          by_cases h48 : c = 48
          · have hd0 : dval c = 0 := hz.mpr h48
            have hb48 : (c != 48) = false := by simp [h48]
            rw [hb48, hd0]
            simp only [Bool.false_eq_true, if_false, Nat.add_zero]
            rw [hR.tr]
            by_cases hr : r = 0
            · simp [hr]
            · have : ¬ r * 10 = 0 := by omega
              simp [hr, this]
          · have hne : ¬ dval c = 0 := fun hh => h48 (hz.mp hh)
            have : (c != 48) = true := by simpa using h48
            have h2 : ¬ r * 10 + dval c = 0 := by omega
            simp only [this, if_true, h2, if_false]
        · show k + 1 ≤ g.nd + 1
          omega
        · show (if (!s.sawdot) = true then s.nfrac - 1 else s.nfrac).toInt =
            ((if g.dot = true then g.nf + 1 else g.nf : Nat) : Int) - ((k + 1 : Nat) : Int)
          rw [← hR.dot]
          by_cases hsd : s.sawdot = true
          · simp only [hsd, Bool.not_true, Bool.false_eq_true, if_false, if_true]
            push_cast; omega
          · have hsd' : s.sawdot = false := by simpa using hsd
            simp only [hsd', Bool.not_false, if_true, Bool.false_eq_true, if_false]
            rw [i64_sub_toInt _ _ (by omega) (by omega)]
            push_cast; omega
  · -- not a digit: the numbers do not change
    simp only [hd, Bool.false_eq_true, if_false] at h
    by_cases h46 : (c == 46) = true
    · simp only [h46, if_true] at h
      split at h
      · cases h
      injection h with h; subst h
      have : c = 46 := by simpa using h46
      subst this
      rw [gstep_dot]
      exact ⟨k, r, rel_same hR rfl rfl rfl rfl rfl hR.exp hR.eneg rfl rfl rfl rfl⟩
    simp only [h46, Bool.false_eq_true, if_false] at h
    by_cases he : (c == 69 || c == 101) = true
    · simp only [he, if_true] at h
      split at h
      · cases h
      injection h with h; subst h
      have hc : c = 101 ∨ c = 69 := by
        simp only [Bool.or_eq_true, beq_iff_eq] at he; exact he.symm
      rw [gstep_e c hc]
      exact ⟨k, r, rel_same hR rfl rfl rfl rfl hR.dot rfl hR.eneg rfl rfl rfl rfl⟩
    simp only [he, Bool.false_eq_true, if_false] at h
    by_cases h45 : (c == 45) = true
    · simp only [h45, if_true] at h
      split at h
      · cases h
      injection h with h; subst h
      have : c = 45 := by simpa using h45
      subst this
      rw [gstep_minus]
      exact ⟨k, r, rel_same hR rfl rfl rfl rfl hR.dot hR.exp rfl rfl rfl rfl rfl⟩
    simp only [h45, Bool.false_eq_true, if_false] at h
    have hg : gstep c g = g := by
      unfold gstep
      simp only [hd, h46, he, h45, Bool.false_eq_true, if_false]
    rw [hg]
    by_cases h95 : (c == 95) = true
    · simp only [h95, if_true] at h
      split at h
      · cases h
      injection h with h; subst h
      exact ⟨k, r, rel_same hR rfl rfl rfl rfl hR.dot hR.exp hR.eneg rfl rfl rfl rfl⟩
    simp only [h95, Bool.false_eq_true, if_false] at h
    by_cases h43 : (c == 43) = true
    · simp only [h43, if_true] at h
      split at h
      · cases h
      injection h with h; subst h
      exact ⟨k, r, rel_same hR rfl rfl rfl rfl hR.dot hR.exp hR.eneg rfl rfl rfl rfl⟩
    · simp only [h43, Bool.false_eq_true, if_false] at h
      cases h

/-! ## the fold -/

theorem run2_rel (sep : Bool) (cs : List UInt8) (s s' : S2) (g : G) (k r : Nat)
    (h : run2 sep cs s = some s') (hR : Rel s g k r) (hI : GInv g) (hb : g.nd + cs.length < 2 ^ 62) :
    ∃ k' r', Rel s' (gfold cs g) k' r' := by
  induction cs generalizing s g k r with
  | nil =>
    rw [run2_nil] at h
    injection h with h; subst h
    exact ⟨k, r, hR⟩
  | cons c rest ih =>
    rw [run2_cons] at h
    rw [List.length_cons] at hb
    cases hs : step2 sep c s with
    | none => rw [hs] at h; cases h
    | some s1 =>
      rw [hs, Option.bind_some] at h
      obtain ⟨k1, r1, hR1⟩ := step2_rel sep c s s1 g k r hs hR hI (by omega)
      have := gstep_nd_le c g
      exact ih s1 (gstep c g) k1 r1 h hR1 (gstep_inv c g hI) (by omega)

end ParseLong
