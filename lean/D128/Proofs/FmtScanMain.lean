/-
  D128/Proofs/FmtScanMain.lean — `Gen.Decimal.Scan` (generated from scan.go `(*Decimal).Scan`, module
  `D128/Gen/ScanFmt.lean`) cut into stages and each stage described on the WINDOW of the scanner state
  (`FmtScanState.lean`).

  * `FmtScan.okVerb`, `tokFn`, `tokPred`, `tokFn_eq`, `tokPred_ascii` : the verbs accepted; the predicate handed
    to `Token` (digits `.` `e` `E` `-` `_` `+`), its runes are ASCII
  * `FmtScan.scanSign`, `scanBody`, `scanName`, `scanNum`, `Scan_eq` : the stages (verbatim pieces of the
    generated text) and `Gen.Decimal.Scan = verb test ; SkipSpace ; scanSign` by `rfl`
  * `eofErr`, `scanName_spec`, `scanNum_spec`, `scanBody_spec`, `scanSign_spec` : every stage as a function of
    the window
-/
import D128.Gen.ScanFmt
import D128.Proofs.FmtScanState
import D128.Proofs.ParseTop
set_option autoImplicit false
set_option linter.unusedVariables false
set_option linter.unusedSimpArgs false

namespace FmtScan
open Go Gen

/-- `Decimal.Scan` accepts the verb -/
def okVerb (verb : Int32) : Bool :=
  (verb == (101 : Int32)) || (verb == (69 : Int32)) || (verb == (102 : Int32)) || (verb == (70 : Int32)) || (verb == (103 : Int32)) || (verb == (71 : Int32)) || (verb == (118 : Int32))

/-- the predicate handed to `Token` -/
def tokFn : Int32 → Bool := fun (r_30 : Int32) => Id.run do
    if ((decide (r_30 ≥ (48 : Int32))) && (decide (r_30 ≤ (57 : Int32)))) then
      return true
    else
      if (r_30 == (46 : Int32)) then
        return true
      else
        if ((r_30 == (69 : Int32)) || (r_30 == (101 : Int32))) then
          return true
        else
          if (r_30 == (45 : Int32)) then
            return true
          else
            if (r_30 == (95 : Int32)) then
              return true
            else
              if (r_30 == (43 : Int32)) then
                return true
              else
                return false

/-- the runes of a number token: digits, `.`, `e`, `E`, `-`, `_`, `+` -/
def tokPred (r : Int32) : Bool :=
  (decide (48 ≤ r) && decide (r ≤ 57)) || r == 46 || r == 69 || r == 101 || r == 45 || r == 95 || r == 43

theorem tokFn_eq : tokFn = tokPred := by
  funext r
  unfold tokFn tokPred
  simp only [Id.run, ge_iff_le]
  by_cases h1 : (decide (48 ≤ r) && decide (r ≤ 57)) = true
  · simp [h1]; rfl
  · by_cases h2 : (r == 46) = true
    · simp [h1, h2]; rfl
    · by_cases h3 : (r == 69 || r == 101) = true
      · simp only [Bool.or_eq_true] at h3
        rcases h3 with h3 | h3 <;> simp [h1, h2, h3] <;> rfl
      · simp only [Bool.or_eq_true, not_or] at h3
        by_cases h4 : (r == 45) = true
        · simp [h1, h2, h3, h4]; rfl
        · by_cases h5 : (r == 95) = true
          · simp [h1, h2, h3, h4, h5]; rfl
          · by_cases h6 : r = 43
            · simp [h1, h2, h3, h4, h5, h6]; rfl
            · have h6' : (r == 43) = false := by simpa using h6
              simp [h1, h2, h3, h4, h5, h6, h6']; rfl

theorem tokPred_ascii (r : Int32) (h : tokPred r = true) : 0 ≤ r.toInt ∧ r.toInt < 128 := by
  unfold tokPred at h
  simp only [Bool.or_eq_true, Bool.and_eq_true, decide_eq_true_eq, beq_iff_eq] at h
  rcases h with (((((h | h) | h) | h) | h) | h) | h
  · have h1 := Int32.le_iff_toInt_le.mp h.1
    have h2 := Int32.le_iff_toInt_le.mp h.2
    have e1 : (48 : Int32).toInt = 48 := by decide
    have e2 : (57 : Int32).toInt = 57 := by decide
    omega
  all_goals (subst h; decide)

/-- the number arm: from the second `UnreadRune` on -/
def scanNum (g : Globals) (d : Decimal) (f : Go.ScanState) (neg : Bool) : Go.GoM (Decimal × Go.ScanState × Go.Err) := do
  let mut d : Decimal := d
  let mut f : Go.ScanState := f
  let (r_28, r_29) ← Go.ScanState.UnreadRune f
  f := r_28
  let (r_32, r_33, r_34) := Go.ScanState.Token f false tokFn
  f := r_32
  let mut tok : Go.Bytes := r_33
  let mut err : Go.Err := r_34
  if (err != Go.Err.nil) then
    return (d, f, err)
  let (r_35, r_36) ← parseNumber g tok neg true
  let mut tmp : Decimal := r_35
  err := r_36
  if (err != Go.Err.nil) then
    if (err == Go.Err.parseNumberRangeError) then
      return (d, f, Go.Err.parseRangeError)
    else
      if (err == Go.Err.parseNumberSyntaxError) then
        return (d, f, Go.Err.parseSyntaxError)
      else
        return (d, f, err)
  d := tmp
  return (d, f, Go.Err.nil)

/-- a three-letter name: two more runes `a`/`a'`, `b`/`b'` -/
def scanName (d : Decimal) (f : Go.ScanState) (a a' b b' : Int32) (v : Decimal) : Go.GoM (Decimal × Go.ScanState × Go.Err) := do
  let mut d : Decimal := d
  let mut f : Go.ScanState := f
  let (r_12, r_13, r_14, r_15) := Go.ScanState.ReadRune f
  f := r_12
  let mut r2 : Int32 := r_13
  let mut err_1 : Go.Err := r_15
  if (err_1 != Go.Err.nil) then
    if (Go.Err.Is err_1 Go.Err.ioEOF) then
      return (d, f, Go.Err.ioErrUnexpectedEOF)
    return (d, f, err_1)
  if ((r2 != a) && (r2 != a')) then
    return (d, f, Go.Err.parseSyntaxError)
  let (r_16, r_17, r_18, r_19) := Go.ScanState.ReadRune f
  f := r_16
  let mut r3 : Int32 := r_17
  err_1 := r_19
  if (err_1 != Go.Err.nil) then
    if (Go.Err.Is err_1 Go.Err.ioEOF) then
      return (d, f, Go.Err.ioErrUnexpectedEOF)
    return (d, f, err_1)
  if ((r3 != b) && (r3 != b')) then
    return (d, f, Go.Err.parseSyntaxError)
  d := v
  return (d, f, Go.Err.nil)

/-- after the sign: the second `ReadRune` and the dispatch -/
def scanBody (g : Globals) (d : Decimal) (f : Go.ScanState) (neg : Bool) : Go.GoM (Decimal × Go.ScanState × Go.Err) := do
  let mut f : Go.ScanState := f
  let (r_8, r_9, r_10, r_11) := Go.ScanState.ReadRune f
  f := r_8
  let r := r_9
  let err := r_11
  if (err != Go.Err.nil) then
    if (Go.Err.Is err Go.Err.ioEOF) then
      return (d, f, Go.Err.ioErrUnexpectedEOF)
    return (d, f, err)
  if ((r == (73 : Int32)) || (r == (105 : Int32))) then
    scanName d f 78 110 70 102 (inf neg)
  else if ((r == (78 : Int32)) || (r == (110 : Int32))) then
    scanName d f 65 97 78 110 (nan (7 : UInt64) (0 : UInt64) (0 : UInt64))
  else scanNum g d f neg

/-- after `SkipSpace`: the first `ReadRune` and the sign -/
def scanSign (g : Globals) (d : Decimal) (f : Go.ScanState) : Go.GoM (Decimal × Go.ScanState × Go.Err) := do
  let mut f : Go.ScanState := f
  let (r_2, r_3, r_4, r_5) := Go.ScanState.ReadRune f
  f := r_2
  let mut r : Int32 := r_3
  let mut err : Go.Err := r_5
  if (err != Go.Err.nil) then
    if (Go.Err.Is err Go.Err.ioEOF) then
      return (d, f, Go.Err.ioErrUnexpectedEOF)
    return (d, f, err)
  if (r == (45 : Int32)) then
    scanBody g d f true
  else
    if (r != (43 : Int32)) then
      let (r_6, r_7) ← Go.ScanState.UnreadRune f
      scanBody g d r_6 false
    else scanBody g d f false

theorem Scan_eq (g : Globals) (d : Decimal) (f : Go.ScanState) (verb : Int32) :
    Gen.Decimal.Scan g d f verb =
      if okVerb verb then (do
        let f1 ← Go.ScanState.SkipSpace f
        scanSign g d f1)
      else pure (d, f, Go.Err.errorsNew) := by
  unfold okVerb
  rfl

/-! ## the stages on the window -/

/-- the error `Scan` returns for a failed read: `io.EOF` becomes `io.ErrUnexpectedEOF` -/
def eofErr (e : Err) : Err := if e = .ioEOF then .ioErrUnexpectedEOF else e

theorem endErr_ne_nil (s : ScanState) : (endErr s != Err.nil) = true := by
  rcases endErr_cases s with h | ⟨h, _⟩ <;> rw [h] <;> rfl

theorem is_eof (e : Err) : Go.Err.Is e Go.Err.ioEOF = decide (e = .ioEOF) := by
  unfold Go.Err.Is; cases e <;> rfl

theorem fail_eq (d : Decimal) (f : ScanState) (e : Err) :
    (if Go.Err.Is e Go.Err.ioEOF = true then (pure (d, f, Go.Err.ioErrUnexpectedEOF) :
        Go.GoM (Decimal × ScanState × Err)) else pure (d, f, e)) = pure (d, f, eofErr e) := by
  rw [is_eof]; unfold eofErr
  by_cases h : e = .ioEOF <;> simp [h]

theorem nil_ne_nil : (Err.nil != Err.nil) = false := rfl

/-- a three-letter name -/
theorem scanName_spec (d : Decimal) (s2 : ScanState) (a a' b b' : Int32) (v : Decimal) :
    scanName d s2 a a' b b' v =
      match window s2 with
      | [] => pure (d, stop s2, eofErr (endErr s2))
      | r2 :: w3 =>
        if (r2 != a && r2 != a') = true then pure (d, step s2 r2, Err.parseSyntaxError)
        else match w3 with
          | [] => pure (d, stop (step s2 r2), eofErr (endErr (step s2 r2)))
          | r3 :: _ =>
            if (r3 != b && r3 != b') = true then pure (d, step (step s2 r2) r3, Err.parseSyntaxError)
            else pure (v, step (step s2 r2) r3, Err.nil) := by
  cases hw : window s2 with
  | nil =>
    unfold scanName
    simp only [readRune_nil hw, endErr_ne_nil, if_true]
    exact fail_eq d _ _
  | cons r2 w3 =>
    unfold scanName
    simp only [readRune_cons hw, nil_ne_nil, Bool.false_eq_true, if_false]
    by_cases h2 : (r2 != a && r2 != a') = true
    · simp only [h2, if_true]
    · simp only [h2, if_false, Bool.false_eq_true]
      have hw3 := window_step hw
      cases hw3' : w3 with
      | nil =>
        rw [hw3'] at hw3
        simp only [readRune_nil hw3, endErr_ne_nil, if_true]
        exact fail_eq d _ _
      | cons r3 w4 =>
        rw [hw3'] at hw3
        simp only [readRune_cons hw3, nil_ne_nil, Bool.false_eq_true, if_false]

theorem mem_takeWhile (p : Int32 → Bool) (l : List Int32) (x : Int32) (h : x ∈ l.takeWhile p) :
    p x = true :=
  List.all_eq_true.mp (List.all_takeWhile (p := p) (l := l)) x h

theorem ok_bind {α β : Type} (a : α) (f : α → Go.GoM β) : ((Except.ok a : Go.GoM α) >>= f) = f a := rfl

theorem advance_settle (s : ScanState) (l : List Int32) :
    stop (advance (settle s) l) = stop (advance s l) ∧
      settle (advance (settle s) l) = settle (advance s l) ∧
      endErr (advance (settle s) l) = endErr (advance s l) := by
  cases l with
  | nil => simp [advance_nil]
  | cons r l => rw [advance_settle_cons]; exact ⟨rfl, rfl, rfl⟩

/-- the state `Token` leaves: the rune that ended the token is put back, or the read failed -/
def tokEnd (s : ScanState) (tok rest : List Int32) : ScanState :=
  match rest with
  | [] => stop (advance s tok)
  | _ :: _ => settle (advance s tok)

/-- the tail of the number arm once the token is known -/
theorem numTail_eq (g : Globals) (d : Decimal) (f : ScanState) (tok : Bytes) (neg : Bool) :
    (do
      let (r_35, r_36) ← parseNumber g tok neg true
      if (r_36 != Go.Err.nil) then
        if (r_36 == Go.Err.parseNumberRangeError) then
          return (d, f, Go.Err.parseRangeError)
        else
          if (r_36 == Go.Err.parseNumberSyntaxError) then
            return (d, f, Go.Err.parseSyntaxError)
          else
            return (d, f, r_36)
      return (r_35, f, Go.Err.nil) : Go.GoM (Decimal × ScanState × Err)) =
    (do
      let (v, e) ← parseNumber g tok neg true
      pure (if e = .nil then v else d, f, Parse.mapErr e)) := by
  cases parseNumber g tok neg true with
  | error p => rfl
  | ok x =>
    obtain ⟨v, e⟩ := x
    cases e <;> rfl

/-- the number arm: the rune just read is put back, `Token` takes the maximal run of token runes, and
`parseNumber` decides -/
theorem scanNum_spec (g : Globals) (d : Decimal) {s : ScanState} {r : Int32} {t : List Int32}
    (hw : window s = r :: t) (neg : Bool) :
    scanNum g d (step s r) neg =
      if (window s).dropWhile tokPred = [] ∧
          endErr (advance s ((window s).takeWhile tokPred)) = .errorsNew then
        pure (d, stop (advance s ((window s).takeWhile tokPred)), Err.errorsNew)
      else (do
        let (v, e) ← parseNumber g (((window s).takeWhile tokPred).map byteOf).toArray neg true
        pure (if e = .nil then v else d,
          tokEnd s ((window s).takeWhile tokPred) ((window s).dropWhile tokPred), Parse.mapErr e)) := by
  have hasc : ∀ x ∈ (window s).takeWhile tokPred, 0 ≤ x.toInt ∧ x.toInt < 128 := fun x hx =>
    tokPred_ascii x (mem_takeWhile _ _ _ hx)
  obtain ⟨e1, e2, e3⟩ := advance_settle s ((window s).takeWhile tokPred)
  unfold scanNum
  simp only [unread_step hw, ok_bind, Token_spec, tokFn_eq, tokenOutcome, window_settle, e1, e2, e3,
    encAcc_ascii _ hasc]
  have hnil : (#[] : Bytes) ++ (((window s).takeWhile tokPred).map byteOf).toArray =
      (((window s).takeWhile tokPred).map byteOf).toArray := by
    apply Array.ext'; simp
  rw [hnil]
  cases hd : (window s).dropWhile tokPred with
  | nil =>
    rcases endErr_cases (advance s ((window s).takeWhile tokPred)) with he | ⟨he, _⟩
    · simp only [he, if_true, true_and, reduceCtorEq, if_false, tokEnd]
      exact numTail_eq g d _ _ neg
    · simp only [he, reduceCtorEq, if_false, true_and, if_true]
      rfl
  | cons x rest =>
    simp only [reduceCtorEq, false_and, if_false, tokEnd]
    exact numTail_eq g d _ _ neg

/-- after the sign: end of input, a name, or a number -/
theorem scanBody_spec (g : Globals) (d : Decimal) (s1 : ScanState) (neg : Bool) :
    scanBody g d s1 neg =
      match window s1 with
      | [] => pure (d, stop s1, eofErr (endErr s1))
      | r :: _ =>
        if (r == 73 || r == 105) = true then scanName d (step s1 r) 78 110 70 102 (inf neg)
        else if (r == 78 || r == 110) = true then scanName d (step s1 r) 65 97 78 110 (nan 7 0 0)
        else scanNum g d (step s1 r) neg := by
  cases hw : window s1 with
  | nil =>
    unfold scanBody
    simp only [readRune_nil hw, endErr_ne_nil, if_true]
    exact fail_eq d _ _
  | cons r w2 =>
    unfold scanBody
    simp only [readRune_cons hw, nil_ne_nil, Bool.false_eq_true, if_false]

/-- after `SkipSpace`: end of input, or an optional sign and the body -/
theorem scanSign_spec (g : Globals) (d : Decimal) (s0 : ScanState) :
    scanSign g d s0 =
      match window s0 with
      | [] => pure (d, stop s0, eofErr (endErr s0))
      | r :: _ =>
        if (r == 45) = true then scanBody g d (step s0 r) true
        else if (r != 43) = true then scanBody g d (settle s0) false
        else scanBody g d (step s0 r) false := by
  cases hw : window s0 with
  | nil =>
    unfold scanSign
    simp only [readRune_nil hw, endErr_ne_nil, if_true]
    exact fail_eq d _ _
  | cons r w1 =>
    unfold scanSign
    simp only [readRune_cons hw, nil_ne_nil, Bool.false_eq_true, if_false, unread_step hw, ok_bind]

end FmtScan
