/-
  D128/Proofs/FloatToTop.lean — property C09, direction Decimal → binary float: the theorems about
  `Gen.Decimal.Float64` and `Gen.Decimal.Float32` (Go: /repo/convert.go).  `𝔳[d] = Spec.interp d.lo d.hi`;
  magnitudes of floats are `Go.F64.mag` / `Go.F32.mag` (FloatSpec.lean).

  Provided (namespace `F2`):
  * `F64_fin_lt_top`, `F64_fin_small` : finite float64 magnitudes are `< 2^1024`, and `0` when `< 2^-1074`
  * `Adjacent64 n v r`, `Adjacent64.exact`, `Adjacent64.between`, `adjacent_zero`, `adjacent_inf`
  * `Float64_adjacent`  : finite non-zero `d = ±c·10^x` ⇒ `∃ r, d.Float64() = r ∧ Adjacent64 n (c·10^x) r`
  * `Float64_overflow`  : `2^1024 ≤ c·10^x` ⇒ `±Inf`;   `Float64_underflow` : `c·10^x ≤ 2^-1075` ⇒ `±0`
  * `Float64_roundtrip` : `|c·10^x - f.mag| ≤ f.mag/2^100`, `f` finite non-zero of the sign of `d` ⇒ `d.Float64() = f`
  * `Float64_sign`      : the sign of every non-NaN result is the sign of `d`
  * `Float64_specials`  : NaN ↦ the bit pattern of `math.NaN()`, `±Inf ↦ ±Inf`, `±0 ↦ ±0` as bit patterns
  * `Adjacent32`, `toF32_adjacent`, `Float32_adjacent`, `Float32_roundtrip`, `Float32_specials`
  (totality: `Float64_total`, `Float32_total` in FloatToMain.lean)
-/
import D128.Proofs.FloatToRound

set_option autoImplicit false
set_option maxRecDepth 8192
set_option linter.unusedVariables false

namespace F2
open Gen Go

local notation "𝔳[" d "]" => Spec.interp (Gen.Decimal.lo d) (Gen.Decimal.hi d)

/-! ## range of finite float64 magnitudes -/

theorem zpow_neg_1075 : (2 : ℚ) ^ (-1075 : ℤ) = 1 / 2 ^ 1075 := by
  rw [zpow_neg, one_div]; rfl

theorem zpow_1024 : (2 : ℚ) ^ (1024 : ℤ) = 2 ^ 1024 := rfl

theorem F64_fin_lt_top (y : F64) (hy : y.isFinite = true) : y.mag < (2 : ℚ) ^ (1024 : ℤ) := by
  obtain ⟨m, e, hm, -, he, hmag, -⟩ := F64_fin_form y hy
  rw [hmag]
  have h1 : (m : ℚ) < 2 ^ 53 := by exact_mod_cast hm
  have h2 : (2 : ℚ) ^ e ≤ 2 ^ (971 : ℤ) := zpow_le_zpow_right₀ (by norm_num) he
  have h3 : (2 : ℚ) ^ (1024 : ℤ) = 2 ^ 53 * 2 ^ (971 : ℤ) := by
    rw [show (1024 : ℤ) = 53 + 971 by norm_num, zpow_add₀ (by norm_num)]
    congr 1
  rw [h3]
  exact mul_lt_mul_of_pos_of_nonneg' h1 h2 (zpow_pos (by norm_num) _) (by positivity)

theorem F64_fin_small (y : F64) (hy : y.isFinite = true) (h : y.mag < (2 : ℚ) ^ (-1074 : ℤ)) : y.mag = 0 := by
  obtain ⟨m, e, hm, he, -, hmag, -⟩ := F64_fin_form y hy
  rcases Nat.eq_zero_or_pos m with h0 | h0
  · rw [hmag, h0]; simp
  · exfalso
    have h1 : (1 : ℚ) ≤ (m : ℚ) := by exact_mod_cast h0
    have h2 : (2 : ℚ) ^ (-1074 : ℤ) ≤ 2 ^ e := zpow_le_zpow_right₀ (by norm_num) he
    have h3 : (1 : ℚ) * 2 ^ (-1074 : ℤ) ≤ (m : ℚ) * 2 ^ e :=
      mul_le_mul h1 h2 (zpow_pos (by norm_num) _).le (by positivity)
    rw [hmag] at h
    linarith

/-! ## adjacency -/

/-- `r` is a faithful float64 rendering of the magnitude `v` with sign `n`: right sign, not NaN; when finite,
    `|r|` is `≥` every float64 magnitude `≤ v` and `≤` every float64 magnitude `≥ v` (so it is the largest
    float64 `≤ v` or the smallest float64 `≥ v`, and equals `v` when `v` is representable); when not finite it is
    `±Inf` and `v` exceeds every finite float64 magnitude. -/
def Adjacent64 (n : Bool) (v : ℚ) (r : F64) : Prop :=
  r.sign = n ∧ r.isNaN = false ∧
  (r.isFinite = true →
    (∀ y : F64, y.isFinite = true → y.mag ≤ v → y.mag ≤ r.mag) ∧
    (∀ y : F64, y.isFinite = true → v ≤ y.mag → r.mag ≤ y.mag)) ∧
  (r.isFinite = false → r.isInf = true ∧ ∀ y : F64, y.isFinite = true → y.mag < v)

/-- exact when representable -/
theorem Adjacent64.exact {n : Bool} {v : ℚ} {r : F64} (h : Adjacent64 n v r) (y : F64)
    (hy : y.isFinite = true) (hv : y.mag = v) : r.isFinite = true ∧ r.mag = v := by
  obtain ⟨_, _, hfin, hinf⟩ := h
  have hf : r.isFinite = true := by
    by_contra hc
    have := (hinf (by simpa using hc)).2 y hy
    rw [hv] at this; exact lt_irrefl _ this
  obtain ⟨h1, h2⟩ := hfin hf
  exact ⟨hf, le_antisymm (hv ▸ h2 y hy hv.ge) (hv ▸ h1 y hy hv.le)⟩

/-- the result lies within the closed interval spanned by any float64 below `v` and any float64 above `v` -/
theorem Adjacent64.between {n : Bool} {v : ℚ} {r : F64} (h : Adjacent64 n v r) (hf : r.isFinite = true)
    (lo hi : F64) (hlo : lo.isFinite = true) (hhi : hi.isFinite = true) (h1 : lo.mag ≤ v) (h2 : v ≤ hi.mag) :
    lo.mag ≤ r.mag ∧ r.mag ≤ hi.mag :=
  ⟨(h.2.2.1 hf).1 lo hlo h1, (h.2.2.1 hf).2 hi hhi h2⟩

theorem adjacent_zero (n : Bool) (v : ℚ) (hv : v < (2 : ℚ) ^ (-1074 : ℤ)) (hv0 : 0 ≤ v) :
    Adjacent64 n v (zeroRes n) := by
  rw [zeroRes_eq]
  have h63 : (0 : ℕ) < 2 ^ 63 := by norm_num
  have hmag : (F64.ofParts n 0).mag = 0 := by rw [F64.ofParts_mag _ _ h63, fmt64.decode_zero]
  have hfin : (F64.ofParts n 0).isFinite = true := by
    rw [F64.ofParts_isFinite _ _ h63, fmt64_infBits]; simp
  refine ⟨F64.ofParts_sign _ _ h63, ?_, fun _ => ⟨fun y hy hyv => ?_, fun y hy _ => ?_⟩, fun hc => ?_⟩
  · rw [F64.ofParts_isNaN _ _ h63, fmt64_infBits]; simp
  · rw [hmag, F64_fin_small y hy (lt_of_le_of_lt hyv hv)]
  · rw [hmag]; exact y.mag_nonneg
  · rw [hfin] at hc; cases hc

theorem adjacent_inf (n : Bool) (v : ℚ) (hv : (2 : ℚ) ^ (1024 : ℤ) ≤ v) : Adjacent64 n v (infRes n) := by
  rw [infRes_eq]
  have h63 : 2047 * 2 ^ 52 < 2 ^ 63 := by norm_num
  refine ⟨F64.ofParts_sign _ _ h63, ?_, fun hc => ?_, fun _ => ⟨?_, fun y hy => ?_⟩⟩
  · rw [F64.ofParts_isNaN _ _ h63, fmt64_infBits]; simp
  · rw [F64.ofParts_isFinite _ _ h63, fmt64_infBits] at hc; simp at hc
  · rw [F64.ofParts_isInf _ _ h63, fmt64_infBits]; simp
  · exact lt_of_lt_of_le (F64_fin_lt_top y hy) hv

/-- **C09, Float64 direction.**  For a finite non-zero decimal `d = ±c·10^x`, `d.Float64()` returns (never panics)
    a float64 of the sign of `d` that is adjacent to `|d|` in the sense of `Adjacent64`. -/
theorem Float64_adjacent (d : Decimal) (n : Bool) (c : ℕ) (x : ℤ) (h : 𝔳[d] = .fin n c x) (hc0 : c ≠ 0) :
    ∃ r, Decimal.Float64 d = .ok r ∧ Adjacent64 n ((c : ℚ) * 10 ^ x) r := by
  have hcmax : c ≤ Spec.Cmax := by
    rcases Sp.view d with ⟨h1, h2, h3, h4, hv⟩ | ⟨h1, h2, h3, h4, hv⟩ | ⟨h1, h2, h3, h4, h5, hc, hv⟩ |
      ⟨h1, h2, h3, h4, h5, hc, hb, hv⟩ <;> rw [hv] at h <;> cases h
    · exact Nat.zero_le _
    · exact Enc.decompose_sig_le d
  have hvpos : (0 : ℚ) ≤ (c : ℚ) * 10 ^ x := mul_nonneg (by positivity) (zpow_nonneg (by norm_num) _)
  obtain ⟨a, b, cc⟩ := Float64_fin d n c x h hc0
  by_cases hx : x < -358
  · refine ⟨_, a hx, adjacent_zero n _ ?_ hvpos⟩
    have := early_zero_small c x hcmax hx
    have h2 : (1 : ℚ) / 2 ^ 1075 ≤ (2 : ℚ) ^ (-1074 : ℤ) := by
      rw [← zpow_neg_1075]; exact zpow_le_zpow_right₀ (by norm_num) (by norm_num)
    exact lt_of_lt_of_le this h2
  · by_cases hy : 308 < x
    · refine ⟨_, b hy, adjacent_inf n _ ?_⟩
      rw [zpow_1024]; exact early_inf_big c x (Nat.pos_of_ne_zero hc0) hy
    · obtain ⟨w, E, e, hn⟩ := cc (by omega) (by omega)
      exact ⟨_, e, result_adjacent n w E _ hn⟩

/-! ## the ends of the range, sign, round trip -/

theorem coef_le (d : Decimal) (n : Bool) (c : ℕ) (x : ℤ) (h : 𝔳[d] = .fin n c x) : c ≤ Spec.Cmax := by
  rcases Sp.view d with ⟨h1, h2, h3, h4, hv⟩ | ⟨h1, h2, h3, h4, hv⟩ | ⟨h1, h2, h3, h4, h5, hc, hv⟩ |
    ⟨h1, h2, h3, h4, h5, hc, hb, hv⟩ <;> rw [hv] at h <;> cases h
  · exact Nat.zero_le _
  · exact Enc.decompose_sig_le d

theorem zpow_small_lt_big : (2 : ℚ) ^ (-1075 : ℤ) < 2 ^ (1024 : ℤ) :=
  zpow_lt_zpow_right₀ (by norm_num) (by norm_num)

/-- `|d| ≥ 2^1024` ⇒ `±Inf` -/
theorem Float64_overflow (d : Decimal) (n : Bool) (c : ℕ) (x : ℤ) (h : 𝔳[d] = .fin n c x) (hc0 : c ≠ 0)
    (hv : (2 : ℚ) ^ (1024 : ℤ) ≤ (c : ℚ) * 10 ^ x) : Decimal.Float64 d = .ok (infRes n) := by
  obtain ⟨a, b, cc⟩ := Float64_fin d n c x h hc0
  by_cases hx : x < -358
  · exfalso
    have h1 := early_zero_small c x (coef_le d n c x h) hx
    rw [← zpow_neg_1075] at h1
    exact absurd (lt_of_le_of_lt hv h1) (not_lt.mpr zpow_small_lt_big.le)
  · by_cases hy : 308 < x
    · exact b hy
    · obtain ⟨w, E, e, hn⟩ := cc (by omega) (by omega)
      rw [e, result_overflow n w E _ hn hv]

/-- `|d| ≤ 2^-1075` (half the smallest subnormal) ⇒ `±0` -/
theorem Float64_underflow (d : Decimal) (n : Bool) (c : ℕ) (x : ℤ) (h : 𝔳[d] = .fin n c x) (hc0 : c ≠ 0)
    (hv : (c : ℚ) * 10 ^ x ≤ (2 : ℚ) ^ (-1075 : ℤ)) : Decimal.Float64 d = .ok (zeroRes n) := by
  obtain ⟨a, b, cc⟩ := Float64_fin d n c x h hc0
  by_cases hx : x < -358
  · exact a hx
  · by_cases hy : 308 < x
    · exfalso
      have h1 := early_inf_big c x (Nat.pos_of_ne_zero hc0) hy
      rw [← zpow_1024] at h1
      exact absurd (le_trans h1 hv) (not_le.mpr zpow_small_lt_big)
    · obtain ⟨w, E, e, hn⟩ := cc (by omega) (by omega)
      rw [e, result_underflow n w E _ hn hv]

/-- **Round trip.**  If the finite non-zero decimal `d = ±c·10^x` is within `2^-100` (relative) of a finite
    non-zero float64 `f` of the same sign, then `d.Float64() = f`. -/
theorem Float64_roundtrip (d : Decimal) (n : Bool) (c : ℕ) (x : ℤ) (h : 𝔳[d] = .fin n c x) (hc0 : c ≠ 0)
    (f : F64) (hf : f.isFinite = true) (hz : f.isZero = false) (hs : f.sign = n)
    (hv : |(c : ℚ) * 10 ^ x - f.mag| ≤ f.mag / 2 ^ 100) : Decimal.Float64 d = .ok f := by
  obtain ⟨a, b, cc⟩ := Float64_fin d n c x h hc0
  obtain ⟨m, e, hm, he0, he1, hmag, hm1⟩ := F64_fin_form f hf
  have hm1 := hm1 hz
  obtain ⟨hv1, hv2⟩ := abs_le.mp hv
  by_cases hx : x < -358
  · exfalso
    have h1 := early_zero_small c x (coef_le d n c x h) hx
    rw [← zpow_neg_1075] at h1
    have h2 : (2 : ℚ) ^ (-1074 : ℤ) ≤ f.mag := by
      by_contra hcon
      have := F64_fin_small f hf (not_le.mp hcon)
      rw [hmag] at this
      have hmq : (1 : ℚ) ≤ (m : ℚ) := by exact_mod_cast hm1
      have : (0 : ℚ) < (m : ℚ) * 2 ^ e := mul_pos (by linarith) (zpow_pos (by norm_num) _)
      linarith
    have h3 : (2 : ℚ) ^ (-1074 : ℤ) = 2 * 2 ^ (-1075 : ℤ) := by
      rw [show (-1074 : ℤ) = 1 + -1075 by norm_num, zpow_add₀ (by norm_num), zpow_one]
    have h4 : f.mag / 2 ^ 100 ≤ f.mag / 2 := by
      apply div_le_div_of_nonneg_left f.mag_nonneg (by norm_num) (by norm_num)
    rw [h3] at h2
    generalize (2 : ℚ) ^ (-1075 : ℤ) = T at *
    linarith
  · by_cases hy : 308 < x
    · exfalso
      have h1 := early_inf_big c x (Nat.pos_of_ne_zero hc0) hy
      rw [← zpow_1024] at h1
      have hT : (0 : ℚ) < 2 ^ (971 : ℤ) := zpow_pos (by norm_num) _
      have h3 : (2 : ℚ) ^ (1024 : ℤ) = 2 ^ 53 * 2 ^ (971 : ℤ) := by
        rw [show (1024 : ℤ) = 53 + 971 by norm_num, zpow_add₀ (by norm_num)]
        congr 1
      have hmq : (m : ℚ) + 1 ≤ 2 ^ 53 := by
        have : m + 1 ≤ 2 ^ 53 := by omega
        exact_mod_cast this
      have h2 : (2 : ℚ) ^ e ≤ 2 ^ (971 : ℤ) := zpow_le_zpow_right₀ (by norm_num) he1
      have h4 : f.mag ≤ (2 ^ 53 - 1) * 2 ^ (971 : ℤ) := by
        rw [hmag]; exact mul_le_mul (by linarith) h2 (zpow_pos (by norm_num) _).le (by norm_num)
      rw [h3] at h1
      clear h3
      generalize (2 : ℚ) ^ (971 : ℤ) = T at *
      have h5 : f.mag / 2 ^ 100 ≤ f.mag / 2 ^ 54 := by
        apply div_le_div_of_nonneg_left f.mag_nonneg (by norm_num) (by norm_num)
      have h6 : f.mag / 2 ^ 54 ≤ (2 ^ 53 - 1) * T / 2 ^ 54 :=
        div_le_div_of_nonneg_right h4 (by norm_num)
      have h7 : ((2 : ℚ) ^ 53 - 1) * T / 2 ^ 54 ≤ T / 2 := by
        rw [div_le_div_iff₀ (by norm_num) (by norm_num)]
        nlinarith
      linarith
    · obtain ⟨w, E, e', hn⟩ := cc (by omega) (by omega)
      rw [e', ← hs, result_roundtrip f hf w E _ hn hv]

/-- the sign of every non-NaN result is the sign of `d` -/
theorem Float64_sign (d : Decimal) (r : F64) (hr : Decimal.Float64 d = .ok r)
    (hn : (𝔳[d]).isNaN = false) : r.sign = (𝔳[d]).neg := by
  rcases Sp.view d with ⟨h1, h2, h3, h4, hv⟩ | ⟨h1, h2, h3, h4, hv⟩ | ⟨h1, h2, h3, h4, h5, hc, hv⟩ |
    ⟨h1, h2, h3, h4, h5, hc, hb, hv⟩
  · rw [hv] at hn; cases hn
  · rw [Float64_inf d _ hv] at hr; cases hr
    rw [hv, infRes_eq, F64.ofParts_sign _ _ (by norm_num)]; rfl
  · rw [Float64_zero d h3 h5] at hr; cases hr
    rw [hv, zeroRes_eq, F64.ofParts_sign _ _ (by norm_num)]; rfl
  · obtain ⟨r', hr', hadj⟩ := Float64_adjacent d _ _ _ hv hc
    rw [hr] at hr'; cases hr'
    rw [hv, hadj.1]; rfl

/-- NaN, `±Inf` and `±0` as bit patterns -/
theorem Float64_specials (d : Decimal) :
    (∀ n p, 𝔳[d] = .nan n p → Decimal.Float64 d = .ok ⟨0x7ff8000000000001⟩) ∧
    (𝔳[d] = .inf false → Decimal.Float64 d = .ok ⟨0x7ff0000000000000⟩) ∧
    (𝔳[d] = .inf true → Decimal.Float64 d = .ok ⟨0xfff0000000000000⟩) ∧
    (∀ x, 𝔳[d] = .fin false 0 x → Decimal.Float64 d = .ok ⟨0⟩) ∧
    (∀ x, 𝔳[d] = .fin true 0 x → Decimal.Float64 d = .ok ⟨0x8000000000000000⟩) :=
  ⟨fun n p h => Float64_nan d n p h, fun h => Float64_inf d _ h, fun h => Float64_inf d _ h,
    fun x h => Float64_zero' d _ x h, fun x h => Float64_zero' d _ x h⟩

example : ∃ r, Decimal.Float64 ⟨4145161186368179427, 3457692824022322579⟩ = .ok r ∧
    Adjacent64 false (((1000000000000000055511151231257827 : ℕ) : ℚ) * 10 ^ (-34 : ℤ)) r :=
  Float64_adjacent _ _ _ _ (by decide) (by decide)

/-- `0.1000000000000000055511151231257827` (= `FromFloat64(0.1)`) converts back to the float64 `0.1` -/
theorem Float64_example_tenth :
    Decimal.Float64 ⟨4145161186368179427, 3457692824022322579⟩ = .ok ⟨4591870180066957722⟩ := by
  have hd : (⟨4591870180066957722⟩ : F64).dyadic = (7205759403792794, -56) := by decide
  apply Float64_roundtrip _ false 1000000000000000055511151231257827 (-34) (by decide) (by decide)
    ⟨4591870180066957722⟩ (by decide) (by decide) (by decide)
  rw [F64.mag, hd]
  norm_num [abs_le]

/-! ## Float32 = float32(Float64) -/

/-- the float32 analogue of `Adjacent64` -/
def Adjacent32 (n : Bool) (v : ℚ) (r : F32) : Prop :=
  r.sign = n ∧ r.isNaN = false ∧
  (r.isFinite = true →
    (∀ y : F32, y.isFinite = true → y.mag ≤ v → y.mag ≤ r.mag) ∧
    (∀ y : F32, y.isFinite = true → v ≤ y.mag → r.mag ≤ y.mag)) ∧
  (r.isFinite = false → r.isInf = true ∧ ∀ y : F32, y.isFinite = true → y.mag < v)

theorem F32_fin_rest (y : F32) (hy : y.isFinite = true) :
    y.bits.toNat % 2 ^ 31 < fmt32.infBits ∧ fmt32.decode (y.bits.toNat % 2 ^ 31) = y.mag ∧
    ∀ (m : ℕ) (e : ℤ), y.mag = (m : ℚ) * 2 ^ e → roundDyadic fmt32 m e = y.bits.toNat % 2 ^ 31 := by
  have hlt : y.bits.toNat % 2 ^ 31 < fmt32.infBits := by
    rw [F32.isFinite, F32.expField_eq'] at hy
    rw [fmt32_infBits]
    simp only [bne_iff_ne, ne_eq] at hy
    have := y.bits.toNat_lt
    omega
  refine ⟨hlt, (F32.mag_eq_decode y).symm, fun m e hme => ?_⟩
  exact roundDyadic_exact fmt32 (by decide) m e _ hlt (by rw [← F32.mag_eq_decode, hme])

/-- narrowing a faithful float64 result gives a faithful float32 result (the float64 neighbours of `v` lie
    between its float32 neighbours, and `float32(·)` is monotone and exact on float32 values) -/
theorem toF32_adjacent (n : Bool) (v : ℚ) (r : F64) (h : Adjacent64 n v r) : Adjacent32 n v r.toF32 := by
  obtain ⟨hs, hnan, hfin, hinf⟩ := h
  by_cases hf : r.isFinite = true
  · obtain ⟨hlo, hhi⟩ := hfin hf
    rw [F64.toF32_of_finite r hf]
    have hR31 := roundDyadic_lt_two_pow_31 r.dyadic.1 r.dyadic.2
    have hRle := roundDyadic_le_infBits fmt32 (by decide) r.dyadic.1 r.dyadic.2
    have hmag := F32.ofRound_mag r.sign r.dyadic.1 r.dyadic.2
    have cmp_le : ∀ y : F32, y.isFinite = true → y.mag ≤ v →
        y.bits.toNat % 2 ^ 31 ≤ roundDyadic fmt32 r.dyadic.1 r.dyadic.2 := by
      intro y hy hyv
      have h1 := hlo y.toF64 (F32.toF64_isFinite y hy) (by rw [F32.toF64_mag y hy]; exact hyv)
      rw [F32.toF64_mag y hy] at h1
      rw [← (F32_fin_rest y hy).2.2 y.dyadic.1 y.dyadic.2 rfl]
      exact roundDyadic32_mono _ _ _ _ h1
    have cmp_ge : ∀ y : F32, y.isFinite = true → v ≤ y.mag →
        roundDyadic fmt32 r.dyadic.1 r.dyadic.2 ≤ y.bits.toNat % 2 ^ 31 := by
      intro y hy hvy
      have h1 := hhi y.toF64 (F32.toF64_isFinite y hy) (by rw [F32.toF64_mag y hy]; exact hvy)
      rw [F32.toF64_mag y hy] at h1
      rw [← (F32_fin_rest y hy).2.2 y.dyadic.1 y.dyadic.2 rfl]
      exact roundDyadic32_mono _ _ _ _ h1
    refine ⟨by rw [F32.ofRound_sign, hs], F32.ofRound_isNaN _ _ _,
      fun _ => ⟨fun y hy hyv => ?_, fun y hy hvy => ?_⟩, fun hnf => ?_⟩
    · rw [hmag, ← (F32_fin_rest y hy).2.1]
      exact fmt32.decode_strictMono.monotone (cmp_le y hy hyv)
    · rw [hmag, ← (F32_fin_rest y hy).2.1]
      exact fmt32.decode_strictMono.monotone (cmp_ge y hy hvy)
    · rw [F32.ofParts_isFinite _ _ hR31, decide_eq_false_iff_not] at hnf
      have hR : roundDyadic fmt32 r.dyadic.1 r.dyadic.2 = fmt32.infBits := by omega
      refine ⟨by rw [F32.ofParts_isInf _ _ hR31, hR]; simp, fun y hy => ?_⟩
      by_contra hc
      have := cmp_ge y hy (not_lt.mp hc)
      have := (F32_fin_rest y hy).1
      omega
  · have hf' : r.isFinite = false := by simpa using hf
    obtain ⟨hri, hall⟩ := hinf hf'
    have e : r.toF32 = F32.ofParts r.sign (0xff * 2 ^ 23) := by
      unfold F64.toF32; simp [hnan, hri]
    have h31 : 0xff * 2 ^ 23 < 2 ^ 31 := by norm_num
    rw [e]
    refine ⟨by rw [F32.ofParts_sign _ _ h31, hs], ?_, fun hc => ?_, fun _ => ⟨?_, fun y hy => ?_⟩⟩
    · rw [F32.ofParts_isNaN _ _ h31, fmt32_infBits]; simp
    · rw [F32.ofParts_isFinite _ _ h31, fmt32_infBits] at hc; simp at hc
    · rw [F32.ofParts_isInf _ _ h31, fmt32_infBits]; simp
    · have := hall y.toF64 (F32.toF64_isFinite y hy)
      rwa [F32.toF64_mag y hy] at this

/-- **C09, Float32 direction.**  For a finite non-zero decimal `d = ±c·10^x`, `d.Float32()` returns (never panics)
    a float32 of the sign of `d` adjacent to `|d|` (`Adjacent32`); the double rounding through float64 is harmless. -/
theorem Float32_adjacent (d : Decimal) (n : Bool) (c : ℕ) (x : ℤ) (h : 𝔳[d] = .fin n c x) (hc0 : c ≠ 0) :
    ∃ r, Decimal.Float32 d = .ok r ∧ Adjacent32 n ((c : ℚ) * 10 ^ x) r := by
  obtain ⟨r, hr, hadj⟩ := Float64_adjacent d n c x h hc0
  exact ⟨r.toF32, Float32_of_Float64 d r hr, toF32_adjacent n _ r hadj⟩

/-- **Round trip, float32.**  If `d = ±c·10^x` is within `2^-100` (relative) of a finite non-zero float32 `f` of the
    same sign, then `d.Float32() = f`. -/
theorem Float32_roundtrip (d : Decimal) (n : Bool) (c : ℕ) (x : ℤ) (h : 𝔳[d] = .fin n c x) (hc0 : c ≠ 0)
    (f : F32) (hf : f.isFinite = true) (hz : f.isZero = false) (hs : f.sign = n)
    (hv : |(c : ℚ) * 10 ^ x - f.mag| ≤ f.mag / 2 ^ 100) : Decimal.Float32 d = .ok f := by
  have h64 := Float64_roundtrip d n c x h hc0 f.toF64 (F32.toF64_isFinite f hf)
    (by rw [F32.toF64_isZero, hz]) (by rw [F32.toF64_sign, hs]) (by rw [F32.toF64_mag f hf]; exact hv)
  rw [Float32_of_Float64 d _ h64, F32.toF64_toF32 f hf]

/-- NaN, `±Inf` and `±0` as float32 bit patterns -/
theorem Float32_specials (d : Decimal) :
    (∀ n p, 𝔳[d] = .nan n p → Decimal.Float32 d = .ok ⟨0x7fc00000⟩) ∧
    (𝔳[d] = .inf false → Decimal.Float32 d = .ok ⟨0x7f800000⟩) ∧
    (𝔳[d] = .inf true → Decimal.Float32 d = .ok ⟨0xff800000⟩) ∧
    (∀ x, 𝔳[d] = .fin false 0 x → Decimal.Float32 d = .ok ⟨0⟩) ∧
    (∀ x, 𝔳[d] = .fin true 0 x → Decimal.Float32 d = .ok ⟨0x80000000⟩) := by
  obtain ⟨a, b, c, e, f⟩ := Float64_specials d
  refine ⟨fun n p h => ?_, fun h => ?_, fun h => ?_, fun x h => ?_, fun x h => ?_⟩
  · rw [Float32_of_Float64 d _ (a n p h)]; decide
  · rw [Float32_of_Float64 d _ (b h)]; decide
  · rw [Float32_of_Float64 d _ (c h)]; decide
  · rw [Float32_of_Float64 d _ (e x h)]; decide
  · rw [Float32_of_Float64 d _ (f x h)]; decide

example : ∃ r, Decimal.Float32 ⟨4145161186368179427, 3457692824022322579⟩ = .ok r ∧
    Adjacent32 false (((1000000000000000055511151231257827 : ℕ) : ℚ) * 10 ^ (-34 : ℤ)) r :=
  Float32_adjacent _ _ _ _ (by decide) (by decide)

/-- `-0.100000001490116119384765625` (= `FromFloat32(-0.1f)`) converts back to the float32 `-0.1f` -/
example : Decimal.Float32 ⟨17399095902978913465, 12684951300447844306⟩ = .ok ⟨3184315597⟩ := by
  have hd : (⟨3184315597⟩ : F32).dyadic = (13421773, -27) := by decide
  apply Float32_roundtrip _ true 100000001490116119384765625 (-27) (by decide) (by decide)
    ⟨3184315597⟩ (by decide) (by decide) (by decide)
  rw [F32.mag, hd]
  norm_num [abs_le]

end F2
