/-
  D128/Proofs/D192RootCbrtIter.lean — the Halley loop of `Gen.Cbrt` from the operation contracts
  (`Root.mul_rel`, `Root.add_rel`, `Root.quo_rel`), both alternatives of every "exact or normalised" clause.

  Provided (namespace `Root`):
  * `cbrt_exp_window`  : an iterate whose cube is within a factor 100 of `a ∈ [10^e, 10^(e+35))` has
                         `e - 176 < 3·exp < e + 37` (keeps every operation inside its exponent range)
  * `halley_acc`       : arithmetic of the seven truncating operations of a step:
                         `x(x³+2a)·u⁵ ≤ x'(2x³+a)` and `x'(2x³+a)·u⁴ ≤ x(x³+2a)(1+ε)`, `u = 1 - lam`
  * `etaC = 2·eps`, `u5_ge`, `u4_ge`, `twelve_lam_le_eps` : the step is within relative `etaC ≈ 4.1e-56`
  * `CInv arg B S (res, t)` : `res.sig ≠ 0`, `a/x³ ∈ [1-B, 1+S]`, flag ∈ {0,1}, `2^192/10 ≤ res.sig ∨ t = 0`
  * `cbrtStep_inv`     : one step: no panic, next defect bounds
  * `iter_succ_ok`, `cbrtIter_inv` : the seven steps, from `[0.01, 100]` to `[1 - 4·etaC - 1e-130, 1 + 4·etaC + 1e-148]`
-/
import D128.Proofs.D192RootSqrtIter
import D128.Proofs.D192RootHalley
set_option autoImplicit false
set_option maxRecDepth 4096
set_option linter.unusedVariables false
namespace Root
open Gen D192

/-- exponent window of an iterate whose cube is within a factor 100 of `a ∈ [10^e, 10^(e+35))` -/
theorem cbrt_exp_window (res : decomposed192) (a : ℚ) (e : Int) (hs : res.sig.toNat ≠ 0)
    (ha0 : (10 : ℚ) ^ e ≤ a) (ha1 : a < (10 : ℚ) ^ (e + 35))
    (h1 : a ≤ 100 * val res ^ 3) (h2 : val res ^ 3 ≤ 100 * a) :
    e - 176 < 3 * res.exp.toInt ∧ 3 * res.exp.toInt < e + 37 := by
  have hsig1 : (1 : ℚ) ≤ (res.sig.toNat : ℚ) := by exact_mod_cast Nat.pos_of_ne_zero hs
  have hsig2 : (res.sig.toNat : ℚ) < (10 : ℚ) ^ 58 := by
    have := res.sig.toNat_lt
    have h : res.sig.toNat < 10 ^ 58 := lt_trans this (by norm_num)
    exact_mod_cast h
  have hp : (0 : ℚ) < (10 : ℚ) ^ res.exp.toInt := zpow_pos (by norm_num) _
  have hcube : val res ^ 3 = (res.sig.toNat : ℚ) ^ 3 * (10 : ℚ) ^ (3 * res.exp.toInt) := by
    unfold val
    rw [mul_pow, ← zpow_natCast ((10 : ℚ) ^ res.exp.toInt) 3, ← zpow_mul]; congr 2; ring
  have hp3 : (0 : ℚ) < (10 : ℚ) ^ (3 * res.exp.toInt) := zpow_pos (by norm_num) _
  have hs3a : (1 : ℚ) ≤ (res.sig.toNat : ℚ) ^ 3 := one_le_pow₀ hsig1
  have hs3b : (res.sig.toNat : ℚ) ^ 3 < (10 : ℚ) ^ (174 : Int) := by
    have := pow_lt_pow_left₀ hsig2 (by linarith) (by norm_num : 3 ≠ 0)
    rw [← pow_mul] at this
    rw [show (174 : Int) = ((58 * 3 : ℕ) : Int) by norm_num, zpow_natCast]; exact this
  constructor
  · -- 10^(e-2) ≤ a/100 ≤ x³ < 10^(174 + 3 exp)
    have h3 : (10 : ℚ) ^ (e - 2) ≤ val res ^ 3 := by
      have : (10 : ℚ) ^ (e - 2) = (10 : ℚ) ^ e / 100 := by
        rw [zpow_sub₀ (by norm_num : (10 : ℚ) ≠ 0)]; norm_num
      rw [this]; linarith
    have h4 : val res ^ 3 < (10 : ℚ) ^ ((174 : Int) + 3 * res.exp.toInt) := by
      rw [hcube, zpow_add₀ (by norm_num : (10 : ℚ) ≠ 0)]
      exact mul_lt_mul_of_pos_right hs3b hp3
    have := (zpow_lt_zpow_iff_right₀ (by norm_num : (1 : ℚ) < 10)).1 (lt_of_le_of_lt h3 h4)
    omega
  · have h3 : (10 : ℚ) ^ (3 * res.exp.toInt) ≤ val res ^ 3 := by
      rw [hcube]; exact le_mul_of_one_le_left hp3.le hs3a
    have h4 : 100 * a < (10 : ℚ) ^ (e + 35 + 2) := by
      rw [zpow_add₀ (by norm_num : (10 : ℚ) ≠ 0) (e + 35) 2]; norm_num; linarith
    have := (zpow_lt_zpow_iff_right₀ (by norm_num : (1 : ℚ) < 10)).1
      (lt_of_le_of_lt h3 (lt_of_le_of_lt h2 h4))
    omega

/-- accuracy of one Halley step computed with seven truncating operations (pure arithmetic):
`u = 1 - lam` the downward factor of a truncation, `ε` the upward error of the quotient. -/
theorem halley_acc (x a sqv cubv numv d1 denv f x' u ε : ℚ) (hx : 0 < x) (ha : 0 < a)
    (hu0 : 0 < u) (hu1 : u ≤ 1) (hε : 0 ≤ ε)
    (s1 : x * x * u ≤ sqv) (s2 : sqv ≤ x * x) (c1 : sqv * x * u ≤ cubv) (c2 : cubv ≤ sqv * x)
    (n1 : (cubv + 2 * a) * u ≤ numv) (n2 : numv ≤ cubv + 2 * a)
    (d1a : (cubv + cubv) * u ≤ d1) (d1b : d1 ≤ cubv + cubv)
    (e1 : (d1 + a) * u ≤ denv) (e2 : denv ≤ d1 + a)
    (f1 : numv / denv * u ≤ f) (f2 : f ≤ numv / denv * (1 + ε))
    (m1 : x * f * u ≤ x') (m2 : x' ≤ x * f) :
    x * (x ^ 3 + 2 * a) * u ^ 5 ≤ x' * (2 * x ^ 3 + a) ∧
    x' * (2 * x ^ 3 + a) * u ^ 4 ≤ x * (x ^ 3 + 2 * a) * (1 + ε) := by
  have hA : 0 < x ^ 3 := pow_pos hx 3
  set A := x ^ 3 with hAdef
  have hu2 : 0 < u * u := mul_pos hu0 hu0
  -- cub ∈ [A u², A]
  have hsq0 : 0 < sqv := lt_of_lt_of_le (by positivity) s1
  have hc_lo : A * (u * u) ≤ cubv := by
    have h := mul_le_mul_of_nonneg_right s1 (mul_nonneg hx.le hu0.le)
    have e : x * x * u * (x * u) = A * (u * u) := by rw [hAdef]; ring
    rw [e] at h
    have e2 : sqv * (x * u) = sqv * x * u := by ring
    rw [e2] at h; linarith
  have hc_hi : cubv ≤ A := by
    have h := mul_le_mul_of_nonneg_right s2 hx.le
    have e : x * x * x = A := by rw [hAdef]; ring
    rw [e] at h; linarith
  have hcub0 : 0 < cubv := lt_of_lt_of_le (by positivity) hc_lo
  -- num ∈ [(A+2a)u³, A+2a]
  have hn_hi : numv ≤ A + 2 * a := by linarith
  have hn_lo : (A + 2 * a) * (u * u * u) ≤ numv := by
    have h1 : (A * (u * u) + 2 * a) * u ≤ numv :=
      le_trans (mul_le_mul_of_nonneg_right (by linarith) hu0.le) n1
    have h2 : (A + 2 * a) * (u * u * u) ≤ (A * (u * u) + 2 * a) * u := by
      have e1' : (A + 2 * a) * (u * u * u) = A * (u * u) * u + 2 * a * (u * u) * u := by ring
      have e2' : (A * (u * u) + 2 * a) * u = A * (u * u) * u + 2 * a * 1 * u := by ring
      have h3 : 2 * a * (u * u) * u ≤ 2 * a * 1 * u := by
        have : u * u ≤ 1 := by nlinarith
        exact mul_le_mul_of_nonneg_right (mul_le_mul_of_nonneg_left this (by linarith)) hu0.le
      rw [e1', e2']; linarith
    linarith
  have hnum0 : 0 < numv := lt_of_lt_of_le (by positivity) hn_lo
  -- den ∈ [(2A+a)u⁴, 2A+a]
  have hd_hi : denv ≤ 2 * A + a := by linarith
  have hd_lo : (2 * A + a) * (u * u * u * u) ≤ denv := by
    have h1 : (2 * A * (u * u)) * u ≤ d1 := le_trans (mul_le_mul_of_nonneg_right (by linarith) hu0.le) d1a
    have h2 : (2 * A * (u * u) * u + a) * u ≤ denv :=
      le_trans (mul_le_mul_of_nonneg_right (by linarith) hu0.le) e1
    have h3 : (2 * A + a) * (u * u * u * u) ≤ (2 * A * (u * u) * u + a) * u := by
      have e1' : (2 * A + a) * (u * u * u * u) = 2 * A * (u * u) * u * u + a * (u * u * u) * u := by ring
      have e2' : (2 * A * (u * u) * u + a) * u = 2 * A * (u * u) * u * u + a * 1 * u := by ring
      have h4 : a * (u * u * u) * u ≤ a * 1 * u := by
        have : u * u * u ≤ 1 := by nlinarith
        exact mul_le_mul_of_nonneg_right (mul_le_mul_of_nonneg_left this ha.le) hu0.le
      rw [e1', e2']; linarith
    linarith
  have hden0 : 0 < denv := lt_of_lt_of_le (by positivity) hd_lo
  -- f·den ∈ [num·u, num(1+ε)]
  have hfd1 : numv * u ≤ f * denv := by
    have := mul_le_mul_of_nonneg_right f1 hden0.le
    have e : numv / denv * u * denv = numv * u := by field_simp
    rw [e] at this; exact this
  have hfd2 : f * denv ≤ numv * (1 + ε) := by
    have := mul_le_mul_of_nonneg_right f2 hden0.le
    have e : numv / denv * (1 + ε) * denv = numv * (1 + ε) := by field_simp
    rw [e] at this; exact this
  have hf0 : 0 < f := by
    have : 0 < f * denv := lt_of_lt_of_le (by positivity) hfd1
    by_contra hcon
    have : f * denv ≤ 0 := mul_nonpos_of_nonpos_of_nonneg (not_lt.1 hcon) hden0.le
    linarith
  constructor
  · -- x(A+2a)u⁵ ≤ x u² num ≤ x u (f den) ≤ x f u (2A+a) ≤ x'(2A+a)
    have h1 : x * (A + 2 * a) * u ^ 5 ≤ x * (u * u) * numv := by
      have := mul_le_mul_of_nonneg_left hn_lo (show 0 ≤ x * (u * u) by positivity)
      have e : x * (A + 2 * a) * u ^ 5 = x * (u * u) * ((A + 2 * a) * (u * u * u)) := by ring
      rw [e]; exact this
    have h2 : x * (u * u) * numv ≤ x * u * (f * denv) := by
      have := mul_le_mul_of_nonneg_left hfd1 (show 0 ≤ x * u by positivity)
      have e : x * (u * u) * numv = x * u * (numv * u) := by ring
      rw [e]; exact this
    have h3 : x * u * (f * denv) ≤ x * f * u * (2 * A + a) := by
      have := mul_le_mul_of_nonneg_left hd_hi (show 0 ≤ x * f * u by positivity)
      have e : x * u * (f * denv) = x * f * u * denv := by ring
      rw [e]; exact this
    have h4 : x * f * u * (2 * A + a) ≤ x' * (2 * A + a) :=
      mul_le_mul_of_nonneg_right m1 (by positivity)
    linarith
  · -- x'(2A+a)u⁴ ≤ x f (2A+a) u⁴ ≤ x f den ≤ x num (1+ε) ≤ x (A+2a)(1+ε)
    have h1 : x' * (2 * A + a) * u ^ 4 ≤ x * f * ((2 * A + a) * (u * u * u * u)) := by
      have := mul_le_mul_of_nonneg_right m2 (show 0 ≤ (2 * A + a) * (u * u * u * u) by positivity)
      have e : x' * (2 * A + a) * u ^ 4 = x' * ((2 * A + a) * (u * u * u * u)) := by ring
      rw [e]; exact this
    have h2 : x * f * ((2 * A + a) * (u * u * u * u)) ≤ x * f * denv :=
      mul_le_mul_of_nonneg_left hd_lo (by positivity)
    have h3 : x * f * denv ≤ x * (numv * (1 + ε)) := by
      have := mul_le_mul_of_nonneg_left hfd2 hx.le
      have e : x * f * denv = x * (f * denv) := by ring
      rw [e]; exact this
    have h4 : x * (numv * (1 + ε)) ≤ x * (A + 2 * a) * (1 + ε) := by
      have := mul_le_mul_of_nonneg_left hn_hi (show 0 ≤ x * (1 + ε) by positivity)
      have e1' : x * (numv * (1 + ε)) = x * (1 + ε) * numv := by ring
      have e2' : x * (A + 2 * a) * (1 + ε) = x * (1 + ε) * (A + 2 * a) := by ring
      rw [e1', e2']; exact this
    linarith

/-- per-step relative accuracy of the computed Halley step -/
def etaC : ℚ := 2 * eps

theorem etaC_pos : 0 < etaC := by unfold etaC; have := eps_pos; linarith
theorem etaC_le : etaC ≤ 1 / 10 ^ 55 := by unfold etaC eps; norm_num

theorem u5_ge : 1 - etaC ≤ (1 - lam) ^ 5 := by
  have hl := lam_pos
  have hl1 : lam ≤ 1 / 100 := le_trans lam_le (by norm_num)
  have h3 := three_lam_le_eps
  have hε := eps_pos
  -- Bernoulli by hand: (1-λ)^5 ≥ 1 - 5λ
  have e : (1 - lam) ^ 5 = 1 - 5 * lam + lam ^ 2 * (10 - 10 * lam + 5 * lam ^ 2 - lam ^ 3) := by ring
  have h0 : 0 ≤ lam ^ 2 * (10 - 10 * lam + 5 * lam ^ 2 - lam ^ 3) := by
    apply mul_nonneg (sq_nonneg _)
    have : lam ^ 3 ≤ 1 := by
      have : lam ^ 3 ≤ 1 ^ 3 := pow_le_pow_left₀ hl.le (by linarith) 3
      simpa using this
    have : 0 ≤ lam ^ 2 := sq_nonneg _
    linarith
  unfold etaC; rw [e]; linarith

theorem twelve_lam_le_eps : 12 * lam ≤ eps := by unfold lam eps LIM; norm_num

theorem u4_ge : 1 + eps ≤ (1 + etaC) * (1 - lam) ^ 4 := by
  have h12 := twelve_lam_le_eps
  have hl := lam_pos
  have hl1 : lam ≤ 1 / 100 := le_trans lam_le (by norm_num)
  have h3 := three_lam_le_eps
  have hε := eps_pos
  have hε1 : eps ≤ 1 / 100 := le_trans eps_le (by norm_num)
  have e : (1 - lam) ^ 4 = 1 - 4 * lam + lam ^ 2 * (6 - 4 * lam + lam ^ 2) := by ring
  have h0 : 0 ≤ lam ^ 2 * (6 - 4 * lam + lam ^ 2) := by
    apply mul_nonneg (sq_nonneg _); nlinarith [sq_nonneg lam]
  have h4 : 1 - 4 * lam ≤ (1 - lam) ^ 4 := by rw [e]; linarith
  have h5 : (1 + 2 * eps) * (1 - 4 * lam) ≤ (1 + 2 * eps) * (1 - lam) ^ 4 :=
    mul_le_mul_of_nonneg_left h4 (by linarith)
  have h6 : 1 + eps ≤ (1 + 2 * eps) * (1 - 4 * lam) := by
    have e2 : (1 + 2 * eps) * (1 - 4 * lam) = 1 + 2 * eps - 4 * lam - 8 * eps * lam := by ring
    have h7 : 8 * eps * lam ≤ 8 * eps * (1 / 100) := mul_le_mul_of_nonneg_left hl1 (by linarith)
    rw [e2]; linarith
  unfold etaC; linarith

/-- invariant of the Halley loop of `Cbrt` -/
def CInv (arg : decomposed192) (B S : ℚ) (s : decomposed192 × Int8) : Prop :=
  s.1.sig.toNat ≠ 0 ∧
  (1 - B) * val s.1 ^ 3 ≤ val arg ∧ val arg ≤ (1 + S) * val s.1 ^ 3 ∧
  (s.2 = 0 ∨ s.2 = 1) ∧ (2 ^ 192 / 10 ≤ s.1.sig.toNat ∨ s.2 = 0)

/-- **One Halley step of `Cbrt` from the contracts.** -/
theorem cbrtStep_inv (arg arg2 : decomposed192) (s : decomposed192 × Int8) (B S β σ B' S' : ℚ)
    (harg0 : arg.sig.toNat ≠ 0) (he0 : -6176 ≤ arg.exp.toInt) (he1 : arg.exp.toInt ≤ 6111)
    (ha1 : val arg < (10 : ℚ) ^ (arg.exp.toInt + 35))
    (harg2 : val arg2 = 2 * val arg) (harg2e : arg2.exp = arg.exp)
    (hB0 : 0 ≤ B) (hB1 : B ≤ 99 / 100) (hS0 : 0 ≤ S) (hS1 : S ≤ 99)
    (hβ : B ^ 3 * (2 - B) ≤ β * (3 - 2 * B) ^ 3) (hσ : S ^ 3 * (2 + S) ≤ σ * (3 + 2 * S) ^ 3)
    (hB' : (1 - B') * (1 + etaC) ^ 3 ≤ 1 - β) (hS' : 1 + σ ≤ (1 + S') * (1 - etaC) ^ 3)
    (h : CInv arg B S s) :
    ∃ s', cbrtStep arg arg2 s = .ok s' ∧ CInv arg B' S' s' := by
  obtain ⟨res, t⟩ := s
  obtain ⟨hs0, hlo, hhi, htf, hnz⟩ := h
  simp only at hs0 hlo hhi htf hnz
  have hl := lam_pos
  have hl1 : lam ≤ 1 / 100 := le_trans lam_le (by norm_num)
  have hu0' : 0 < 1 - lam := by linarith
  have hε := eps_pos
  set a := val arg with hadef
  set x := val res with hxdef
  set e := arg.exp.toInt with hedef
  have ha : 0 < a := val_pos_of_sig arg harg0
  have hx : 0 < x := val_pos_of_sig res hs0
  have hx3 : 0 < x ^ 3 := pow_pos hx 3
  have ha0 : (10 : ℚ) ^ e ≤ a := by
    rw [hadef]; unfold val
    exact le_mul_of_one_le_left (zpow_pos (by norm_num) _).le
      (by exact_mod_cast Nat.pos_of_ne_zero harg0)
  obtain ⟨hw0, hw1⟩ := cbrt_exp_window res a e hs0 ha0 ha1 (by nlinarith) (by nlinarith)
  have hae2 : arg2.exp.toInt = e := by rw [harg2e]
  -- sq
  obtain ⟨sq, tq, hsq, q1, q2, -, qe0, qe1, -⟩ := mul_rel res res 0 (by omega) (by omega)
  have hsq0 : 0 < val sq := lt_of_lt_of_le (mul_pos (mul_pos hx hx) hu0') q1
  -- cub
  obtain ⟨cub, tc, hcub, c1, c2, -, ce0, ce1, -⟩ := mul_rel sq res 0 (by omega) (by omega)
  have hcub0 : 0 < val cub := lt_of_lt_of_le (mul_pos (mul_pos hsq0 hx) hu0') c1
  -- num = cub + 2a
  obtain ⟨num, tn, hnum, n1, n2, -, ne0, ne1, -⟩ := add_rel cub arg2 0 (by omega) (by omega)
    (by omega) (by omega)
  rw [harg2] at n1 n2
  have hnum0 : 0 < val num := lt_of_lt_of_le (mul_pos (by linarith) hu0') n1
  -- den = (cub + cub) + a
  obtain ⟨d1, td, hd1, d1a, d1b, -, de0, de1, -⟩ := add_rel cub cub 0 (by omega) (by omega)
    (by omega) (by omega)
  have hd10 : 0 < val d1 := lt_of_lt_of_le (mul_pos (by linarith) hu0') d1a
  obtain ⟨den, te, hden, e1, e2, -, ee0, ee1, -⟩ := add_rel d1 arg 0
    (by simp only [min_self, max_self] at de0 de1; omega)
    (by simp only [min_self, max_self] at de0 de1; omega)
    (by simp only [min_self, max_self] at de0 de1; omega) (by omega)
  have hden0 : 0 < val den := lt_of_lt_of_le (mul_pos (by linarith) hu0') e1
  simp only [min_self, max_self] at de0 de1
  have hne : min cub.exp.toInt arg2.exp.toInt ≤ num.exp.toInt := ne0
  have hmin1 := min_le_left cub.exp.toInt arg2.exp.toInt
  have hmin2 := min_le_right cub.exp.toInt arg2.exp.toInt
  have hmax1 := le_max_left cub.exp.toInt arg2.exp.toInt
  have hmax2 := le_max_right cub.exp.toInt arg2.exp.toInt
  have hmin3 := min_le_left d1.exp.toInt arg.exp.toInt
  have hmin4 := min_le_right d1.exp.toInt arg.exp.toInt
  have hmax3 := le_max_left d1.exp.toInt arg.exp.toInt
  have hmax4 := le_max_right d1.exp.toInt arg.exp.toInt
  have hnumexp : e - 176 ≤ num.exp.toInt ∧ num.exp.toInt ≤ e + 160 := by
    rcases min_choice cub.exp.toInt arg2.exp.toInt with h | h <;>
      rcases max_choice cub.exp.toInt arg2.exp.toInt with h' | h' <;> omega
  have hdenexp : e - 176 ≤ den.exp.toInt ∧ den.exp.toInt ≤ e + 160 := by
    rcases min_choice d1.exp.toInt arg.exp.toInt with h | h <;>
      rcases max_choice d1.exp.toInt arg.exp.toInt with h' | h' <;> omega
  -- frc = num / den
  obtain ⟨frc, tf, hfrc, f1, f2, -, fs, fe0, fe1, -⟩ := quo_rel num den 0
    (sig_ne_of_val_pos num hnum0) (sig_ne_of_val_pos den hden0)
    ⟨by omega, by omega⟩ ⟨by omega, by omega⟩
  -- res' = res · frc
  obtain ⟨res', t', hmul, m1, m2, mf, me0, me1, mx⟩ := mul_rel res frc t (by omega) (by omega)
  -- accuracy
  set u := 1 - lam with hu
  have hu0 : 0 < u := by rw [hu]; linarith
  have hu1 : u ≤ 1 := by rw [hu]; linarith
  obtain ⟨acc1, acc2⟩ := halley_acc x a (val sq) (val cub) (val num) (val d1) (val den) (val frc)
    (val res') u eps hx ha hu0 hu1 hε.le (by linarith) q2 c1 c2 n1 n2 d1a d1b e1 e2 f1 f2
    (by linarith) m2
  have hx'0 : 0 < val res' := by
    have h1 : 0 < x * (x ^ 3 + 2 * a) * u ^ 5 := by positivity
    have h2 : 0 < val res' * (2 * x ^ 3 + a) := lt_of_lt_of_le h1 acc1
    by_contra hcon
    have : val res' * (2 * x ^ 3 + a) ≤ 0 :=
      mul_nonpos_of_nonpos_of_nonneg (not_lt.1 hcon) (by positivity)
    linarith
  have hstep : (1 - etaC) * (x * (x ^ 3 + 2 * a)) ≤ val res' * (2 * x ^ 3 + a) ∧
      val res' * (2 * x ^ 3 + a) ≤ (1 + etaC) * (x * (x ^ 3 + 2 * a)) := by
    have hpos : 0 ≤ x * (x ^ 3 + 2 * a) := by positivity
    constructor
    · have := mul_le_mul_of_nonneg_left u5_ge hpos
      rw [← hu] at this
      linarith
    · have h4 : 0 < u ^ 4 := pow_pos hu0 4
      have h5 : x * (x ^ 3 + 2 * a) * (1 + eps) ≤ x * (x ^ 3 + 2 * a) * ((1 + etaC) * u ^ 4) := by
        have := mul_le_mul_of_nonneg_left u4_ge hpos
        rw [← hu] at this; exact this
      have h6 : val res' * (2 * x ^ 3 + a) * u ^ 4 ≤ ((1 + etaC) * (x * (x ^ 3 + 2 * a))) * u ^ 4 := by
        have e' : ((1 + etaC) * (x * (x ^ 3 + 2 * a))) * u ^ 4
            = x * (x ^ 3 + 2 * a) * ((1 + etaC) * u ^ 4) := by ring
        rw [e']; linarith
      exact le_of_mul_le_mul_right h6 h4
  obtain ⟨g1, g2⟩ := halley_step a x (val res') etaC B S β σ B' S' hx ha hx'0 etaC_pos.le
    (le_trans etaC_le (by norm_num)) hB0 (by linarith) hS0 ⟨hlo, hhi⟩ hstep hβ hσ hB' hS'
  refine ⟨(res', t'), ?_, sig_ne_of_val_pos res' hx'0, g1, g2, ?_, ?_⟩
  · show (decomposed192.mul res res 0 >>= fun sq => decomposed192.mul sq.1 res 0 >>= fun cub =>
        decomposed192.add cub.1 arg2 0 >>= fun num => decomposed192.add cub.1 cub.1 0 >>= fun den =>
        decomposed192.add den.1 arg 0 >>= fun den => decomposed192.quo num.1 den.1 0 >>= fun frc =>
        decomposed192.mul res frc.1 t >>= fun x => pure (x.1, x.2)) = _
    rw [hsq]
    show (decomposed192.mul sq res 0 >>= fun cub =>
        decomposed192.add cub.1 arg2 0 >>= fun num => decomposed192.add cub.1 cub.1 0 >>= fun den =>
        decomposed192.add den.1 arg 0 >>= fun den => decomposed192.quo num.1 den.1 0 >>= fun frc =>
        decomposed192.mul res frc.1 t >>= fun x => pure (x.1, x.2)) = _
    rw [hcub]
    show (decomposed192.add cub arg2 0 >>= fun num => decomposed192.add cub cub 0 >>= fun den =>
        decomposed192.add den.1 arg 0 >>= fun den => decomposed192.quo num.1 den.1 0 >>= fun frc =>
        decomposed192.mul res frc.1 t >>= fun x => pure (x.1, x.2)) = _
    rw [hnum]
    show (decomposed192.add cub cub 0 >>= fun den =>
        decomposed192.add den.1 arg 0 >>= fun den => decomposed192.quo num den.1 0 >>= fun frc =>
        decomposed192.mul res frc.1 t >>= fun x => pure (x.1, x.2)) = _
    rw [hd1]
    show (decomposed192.add d1 arg 0 >>= fun den => decomposed192.quo num den.1 0 >>= fun frc =>
        decomposed192.mul res frc.1 t >>= fun x => pure (x.1, x.2)) = _
    rw [hden]
    show (decomposed192.quo num den 0 >>= fun frc =>
        decomposed192.mul res frc.1 t >>= fun x => pure (x.1, x.2)) = _
    rw [hfrc]
    show (decomposed192.mul res frc t >>= fun x => pure (x.1, x.2)) = _
    rw [hmul]; rfl
  · show t' = 0 ∨ t' = 1
    rcases mf with h | h
    · rw [h]; exact htf
    · exact Or.inr h
  · show 2 ^ 192 / 10 ≤ res'.sig.toNat ∨ t' = 0
    by_cases hL : 2 ^ 192 / 10 ≤ res'.sig.toNat
    · exact Or.inl hL
    · right
      obtain ⟨-, et, hsig⟩ := mx (by omega)
      have : res.sig.toNat ≤ res.sig.toNat * frc.sig.toNat := Nat.le_mul_of_pos_right _ (by omega)
      have ht0 : t = 0 := by
        rcases hnz with h | h
        · omega
        · exact h
      rw [et, ht0]

theorem iter_succ_ok {α : Type} (f : α → Go.GoM α) (n : ℕ) (a b : α) (h : f a = .ok b) :
    iter f (n + 1) a = iter f n b := by
  rw [iter_succ, h]; rfl

/-- **The seven Halley steps of `Cbrt` from the contracts**: from a start value with `a/x₀³ ∈ [0.01, 100]`
the loop does not panic and ends with `a/x₇³ ∈ [1 - 4·etaC - 1e-130, 1 + 4·etaC + 1e-148]`. -/
theorem cbrtIter_inv (arg arg2 : decomposed192) (s : decomposed192 × Int8)
    (harg0 : arg.sig.toNat ≠ 0) (he0 : -6176 ≤ arg.exp.toInt) (he1 : arg.exp.toInt ≤ 6111)
    (ha1 : val arg < (10 : ℚ) ^ (arg.exp.toInt + 35))
    (harg2 : val arg2 = 2 * val arg) (harg2e : arg2.exp = arg.exp)
    (h : CInv arg (99 / 100) 99 s) :
    ∃ s', iter (cbrtStep arg arg2) 7 s = .ok s' ∧
      CInv arg (1 / 10 ^ 130 + 4 * etaC) (1 / 10 ^ 148 + 4 * etaC) s' := by
  have hη0 := etaC_pos
  have hη : etaC ≤ 1 / 10 ^ 50 := le_trans etaC_le (by norm_num)
  have hη1 : etaC ≤ 1 / 100 := le_trans hη (by norm_num)
  have hη1' : etaC ≤ 1 := le_trans hη (by norm_num)
  have nb : ∀ B' : ℚ, 0 ≤ B' → B' ≤ 1 → (1 - B') * (1 + etaC) ^ 3 ≤ 1 - (B' - 4 / 10 ^ 50) :=
    fun B' h0 h1 => hB'_of etaC _ B' hη0.le hη1 h1 h0 (by linarith)
  have ns : ∀ S' K : ℚ, 0 ≤ S' → S' ≤ K →
      1 + (S' - 3 * (1 + K) / 10 ^ 50) ≤ (1 + S') * (1 - etaC) ^ 3 := fun S' K h0 hK =>
    hS'_of etaC _ S' hη0.le hη1' h0 (by
      have h1 : 3 * etaC * (1 + S') ≤ 3 * (1 / 10 ^ 50) * (1 + K) :=
        mul_le_mul (by linarith) (by linarith) (by linarith) (by norm_num)
      have e : 3 * (1 + K) / 10 ^ 50 = 3 * (1 / 10 ^ 50) * (1 + K) := by ring
      rw [e]; linarith)
  have step := cbrtStep_inv arg arg2
  obtain ⟨s1, e1, i1⟩ := step s (99 / 100) 99 (94 / 100 - 4 / 10 ^ 50)
    (122 / 10 - 3 * (1 + 100) / 10 ^ 50) (94 / 100) (122 / 10) harg0 he0 he1 ha1 harg2 harg2e
    (by norm_num) (by norm_num) (by norm_num) (by norm_num) (by norm_num) (by norm_num)
    (nb _ (by norm_num) (by norm_num)) (ns _ 100 (by norm_num) (by norm_num)) h
  obtain ⟨s2, e2, i2⟩ := step s1 (94 / 100) (122 / 10) (65 / 100 - 4 / 10 ^ 50)
    (13 / 10 - 3 * (1 + 100) / 10 ^ 50) (65 / 100) (13 / 10) harg0 he0 he1 ha1 harg2 harg2e
    (by norm_num) (by norm_num) (by norm_num) (by norm_num) (by norm_num) (by norm_num)
    (nb _ (by norm_num) (by norm_num)) (ns _ 100 (by norm_num) (by norm_num)) i1
  obtain ⟨s3, e3, i3⟩ := step s2 (65 / 100) (13 / 10) (8 / 100 - 4 / 10 ^ 50)
    (42 / 1000 - 3 * (1 + 1) / 10 ^ 50) (8 / 100) (42 / 1000) harg0 he0 he1 ha1 harg2 harg2e
    (by norm_num) (by norm_num) (by norm_num) (by norm_num) (by norm_num) (by norm_num)
    (nb _ (by norm_num) (by norm_num)) (ns _ 1 (by norm_num) (by norm_num)) i2
  obtain ⟨s4, e4, i4⟩ := step s3 (8 / 100) (42 / 1000) (44 / 10 ^ 6 - 4 / 10 ^ 50)
    (53 / 10 ^ 7 - 3 * (1 + 1) / 10 ^ 50) (44 / 10 ^ 6) (53 / 10 ^ 7) harg0 he0 he1 ha1 harg2 harg2e
    (by norm_num) (by norm_num) (by norm_num) (by norm_num) (by norm_num) (by norm_num)
    (nb _ (by norm_num) (by norm_num)) (ns _ 1 (by norm_num) (by norm_num)) i3
  obtain ⟨s5, e5, i5⟩ := step s4 (44 / 10 ^ 6) (53 / 10 ^ 7) (7 / 10 ^ 15 - 4 / 10 ^ 50)
    (12 / 10 ^ 18 - 3 * (1 + 1) / 10 ^ 50) (7 / 10 ^ 15) (12 / 10 ^ 18) harg0 he0 he1 ha1 harg2 harg2e
    (by norm_num) (by norm_num) (by norm_num) (by norm_num) (by norm_num) (by norm_num)
    (nb _ (by norm_num) (by norm_num)) (ns _ 1 (by norm_num) (by norm_num)) i4
  obtain ⟨s6, e6, i6⟩ := step s5 (7 / 10 ^ 15) (12 / 10 ^ 18) (3 / 10 ^ 44 - 4 / 10 ^ 50)
    (1 / 10 ^ 49 - 3 * (1 + 1) / 10 ^ 50) (3 / 10 ^ 44) (1 / 10 ^ 49) harg0 he0 he1 ha1 harg2 harg2e
    (by norm_num) (by norm_num) (by norm_num) (by norm_num) (by norm_num) (by norm_num)
    (nb _ (by norm_num) (by norm_num)) (ns _ 1 (by norm_num) (by norm_num)) i5
  have hfB : (1 - (1 / 10 ^ 130 + 4 * etaC)) * (1 + etaC) ^ 3 ≤ 1 - 1 / 10 ^ 130 := by
    have h130 : (1 : ℚ) / 10 ^ 130 ≤ 1 / 2 := by norm_num
    have h130' : (0 : ℚ) ≤ 1 / 10 ^ 130 := by positivity
    exact hB'_of etaC _ _ hη0.le hη1 (by linarith) (by linarith) (le_refl _)
  have hfS : 1 + 1 / 10 ^ 148 ≤ (1 + (1 / 10 ^ 148 + 4 * etaC)) * (1 - etaC) ^ 3 := by
    have h148 : (1 : ℚ) / 10 ^ 148 ≤ 1 / 10 := by norm_num
    have h148' : (0 : ℚ) ≤ 1 / 10 ^ 148 := by positivity
    refine hS'_of etaC _ _ hη0.le hη1' (by linarith) ?_
    have h2 : 3 * etaC * (1 + (1 / 10 ^ 148 + 4 * etaC)) ≤ 3 * etaC * (1 + 1 / 3) :=
      mul_le_mul_of_nonneg_left (by linarith) (by linarith)
    linarith
  obtain ⟨s7, e7, i7⟩ := step s6 (3 / 10 ^ 44) (1 / 10 ^ 49) (1 / 10 ^ 130) (1 / 10 ^ 148)
    (1 / 10 ^ 130 + 4 * etaC) (1 / 10 ^ 148 + 4 * etaC) harg0 he0 he1 ha1 harg2 harg2e
    (by norm_num) (by norm_num) (by norm_num) (by norm_num) (by norm_num) (by norm_num) hfB hfS i6
  refine ⟨s7, ?_, i7⟩
  rw [iter_succ_ok _ _ _ _ e1, iter_succ_ok _ _ _ _ e2, iter_succ_ok _ _ _ _ e3,
    iter_succ_ok _ _ _ _ e4, iter_succ_ok _ _ _ _ e5, iter_succ_ok _ _ _ _ e6,
    iter_succ_ok _ _ _ _ e7]
  rfl
end Root
